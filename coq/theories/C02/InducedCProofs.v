(* C02 — the automaton induced by a conflict-free Pager graph passes validC
   ([induced_validC]) and has at most one candidate per cell
   ([induced_single_candidate]).  From [graph_facts] and [graph_conflict_free]
   alone (InducedSpec.v). *)
From Coq Require Import List Arith NArith Bool Lia.
From GV Require Import Common.Outcome Base.Grammar Base.GrammarFacts Base.Analyses Base.AnalysesProofs
  LR.Automaton LR.Validator LR.CloseMirror LR.CloseSpec LR.CloseProofs
  C02.Model C02.Spec C02.PagerSpec C02.PagerProofsBridge C02.PagerProofsMain C02.PagerProofsExists
  C02.PagerProofsMisc C02.Lr1Model C02.Lr1Proofs C02.LoopModel C02.LoopSpec C02.InducedModel
  C02.InducedSpec.
Import ListNotations.

(* ---- the states of the induced automaton ---------------------------------------------- *)

Lemma iC_state g pg s : graph_facts g pg -> In s (states (induced g pg)) ->
  exists core closed es,
    nth_error (pg_states pg) (N.to_nat s) = Some (core, closed) /\
    nth_error (pg_edges pg) (N.to_nat s) = Some es /\
    st_core pg s = core /\ st_closed pg s = closed /\
    (forall X, st_edge pg s X = option_map N.of_nat (assoc_sym X es)).
Proof.
  intros GF Hs. apply l1_In_states in Hs. cbn [nstates induced] in Hs.
  assert (Hlt : (N.to_nat s < length (pg_states pg))%nat) by lia.
  destruct (nth_error (pg_states pg) (N.to_nat s)) as [[co cl]|] eqn:E1;
    [|apply nth_error_None in E1; lia].
  destruct (nth_error (pg_edges pg) (N.to_nat s)) as [es|] eqn:E2;
    [|apply nth_error_None in E2; rewrite (gf_len g pg GF) in E2; lia].
  exists co, cl, es. unfold st_core, st_closed, st_edge. rewrite E1, E2.
  repeat split; reflexivity.
Qed.

Lemma iC_state0 g pg : graph_facts g pg ->
  exists closed0, nth_error (pg_states pg) 0 = Some (start_kernel g, closed0) /\
                  st_closed pg 0%N = closed0.
Proof.
  intros GF. destruct (gf_start g pg GF) as [c0 H0]. exists c0. split; [exact H0|].
  unfold st_closed. change (N.to_nat 0) with 0%nat. rewrite H0. reflexivity.
Qed.

(* ---- items of a closed state ------------------------------------------------------------- *)

Lemma iC_in_lr0 g (K C : itemset) (i : item) : closed_repr g K C -> In i C ->
  lr0_closure_rel g K (it_p i) (it_d i).
Proof.
  intros (_ & Hc & _) Hin. destruct i as [[p d] la]. unfold it_p, it_d; simpl.
  apply Hc. exact (has_core_intro C p d la Hin).
Qed.

Lemma iC_in_lr1 g (K C : itemset) (i : item) a : closed_repr g K C -> In i C -> In a (it_la i) ->
  lr1_closure_rel g K (it_p i) (it_d i) a.
Proof.
  intros (_ & _ & Hl) Hin Ha. destruct i as [[p d] la]. unfold it_p, it_d, it_la in *; simpl in *.
  apply Hl. exact (has_la_intro C p d la a Hin Ha).
Qed.

Lemma iC_find g (K C : itemset) p d : closed_repr g K C -> lr0_closure_rel g K p d ->
  exists j, find_item p d C = Some j /\ In j C /\ it_p j = p /\ it_d j = d /\
            forall a, lr1_closure_rel g K p d a -> In a (it_la j).
Proof.
  intros (Hmap & Hc & Hl) H0.
  destruct (proj1 (has_core_pd C p d) (proj2 (Hc p d) H0)) as [la Hin].
  unfold find_item.
  destruct (find (fun i : item => N.eqb (it_p i) p && Nat.eqb (it_d i) d) C) as [j|] eqn:E.
  - apply find_some in E. destruct E as [Hj Hk]. apply andb_true_iff in Hk.
    destruct Hk as [Hp Hd]. apply N.eqb_eq in Hp. apply Nat.eqb_eq in Hd.
    exists j. split; [reflexivity|]. split; [exact Hj|]. split; [exact Hp|]. split; [exact Hd|].
    intros a Ha.
    destruct (proj1 (has_la_pd C p d a) (proj2 (Hl p d a) Ha)) as (la' & Hin' & Ha').
    assert (Ej : (p, d, la') = j).
    { apply (nodup_fst_inj C); [exact Hmap|exact Hin'|exact Hj|].
      destruct j as [[pj dj] laj]. unfold it_p, it_d in Hp, Hd; simpl in *. subst. reflexivity. }
    subst j. exact Ha'.
  - exfalso. pose proof (find_none _ _ E _ Hin) as Hn. unfold it_p, it_d in Hn; simpl in Hn.
    rewrite N.eqb_refl, Nat.eqb_refl in Hn. discriminate Hn.
Qed.

(* ---- C1 ------------------------------------------------------------------------------------- *)

Lemma iC_vC1 g pg : graph_facts g pg -> vC1 g (induced g pg) = true.
Proof.
  intros GF. unfold vC1. cbn [closed start induced].
  destruct (iC_state0 g pg GF) as (c0 & H0 & Ec). rewrite Ec.
  destruct (gf_reach g pg GF 0%nat _ _ H0) as (_ & Hrepr & _).
  assert (Hin : In (start_prod g, 0%nat, [eof g]) (start_kernel g)) by (left; reflexivity).
  destruct (iC_find g _ c0 (start_prod g) 0%nat Hrepr (c0_base g _ _ _ _ Hin))
    as (j & Hf & _ & _ & _ & Hla).
  rewrite Hf. apply memN_In. apply Hla.
  apply (c1_base g _ _ _ [eof g]); [exact Hin|left; reflexivity].
Qed.

(* ---- C2 ------------------------------------------------------------------------------------- *)

Lemma iC_vC2_item g nl fs (K C : itemset) (i : item) r q :
  nullable_exact g nl -> first_exact g fs -> closed_repr g K C -> In i C ->
  nth_error (rhs g (it_p i)) (it_d i) = Some (R r) -> is_prod g q -> lhs g q = r ->
  match find_item q 0 C with
  | Some j => subsetN (firstseq_la nl fs (skipn (S (it_d i)) (rhs g (it_p i))) (it_la i)) (it_la j)
  | None => false
  end = true.
Proof.
  intros Hnl Hfs Hrepr Hi Hnth Hq Hlq.
  pose proof (iC_in_lr0 g K C i Hrepr Hi) as Hi0.
  destruct (iC_find g K C q 0%nat Hrepr (c0_step g K _ _ r q Hi0 Hnth Hq Hlq))
    as (j & Hf & _ & _ & _ & Hla).
  rewrite Hf. apply subsetN_incl. intros b Hb. apply Hla.
  assert (Hcase : In b (first_seq nl fs (skipn (S (it_d i)) (rhs g (it_p i)))) \/
                  (nullable_seq nl (skipn (S (it_d i)) (rhs g (it_p i))) = true /\ In b (it_la i))).
  { unfold firstseq_la in Hb.
    destruct (nullable_seq nl (skipn (S (it_d i)) (rhs g (it_p i)))) eqn:En.
    - apply In_unionN in Hb. destruct Hb as [Hb|Hb]; [left; exact Hb|right; split; [reflexivity|exact Hb]].
    - left. exact Hb. }
  destruct Hcase as [Hb1|[Hn Hb2]].
  - apply (c1_first g K (it_p i) (it_d i) r q b Hi0 Hnth Hq Hlq).
    apply (first_seq_exact g nl fs _ b Hnl Hfs). exact Hb1.
  - apply (c1_null g K (it_p i) (it_d i) b r q); [|exact Hnth|exact Hq|exact Hlq|].
    + exact (iC_in_lr1 g K C i b Hrepr Hi Hb2).
    + apply (nullable_seq_exact g nl _ Hnl). exact Hn.
Qed.

Lemma iC_vC2 g nl fs pg : graph_facts g pg -> nullable_exact g nl -> first_exact g fs ->
  vC2 g nl fs (induced g pg) = true.
Proof.
  intros GF Hnl Hfs. unfold vC2. apply forallb_forall. intros s Hs.
  destruct (iC_state g pg s GF Hs) as (co & cl & es & E1 & E2 & _ & Ecl & _).
  cbn [closed induced]. rewrite Ecl.
  destruct (gf_reach g pg GF _ _ _ E1) as (_ & Hrepr & _).
  apply forallb_forall. intros i Hi.
  destruct (nth_error (rhs g (it_p i)) (it_d i)) as [[a|r]|] eqn:Hnth; try reflexivity.
  cbv zeta. apply forallb_forall. intros q Hq. apply In_pidxs in Hq.
  destruct (N.eqb (lhs g q) r) eqn:El; [|reflexivity]. apply N.eqb_eq in El. cbn [negb orb].
  exact (iC_vC2_item g nl fs co cl i r q Hnl Hfs Hrepr Hi Hnth Hq El).
Qed.

(* ---- C3 ------------------------------------------------------------------------------------- *)

Lemma iC_goto_edge g pg s co cl es (i : item) X : graph_facts g pg ->
  nth_error (pg_states pg) s = Some (co, cl) -> nth_error (pg_edges pg) s = Some es ->
  In i cl -> nth_error (rhs g (it_p i)) (it_d i) = Some X ->
  exists t co_t cl_t j,
    assoc_sym X es = Some t /\ nth_error (pg_states pg) t = Some (co_t, cl_t) /\
    find_item (it_p i) (S (it_d i)) cl_t = Some j /\ incl (it_la i) (it_la j).
Proof.
  intros GF E1 E2 Hi Hnth.
  destruct (gf_reach g pg GF _ _ _ E1) as (Hreach & Hrepr & _).
  pose proof (pager_reachable_items_ok g co (gf_wf g pg GF) Hreach) as Hok.
  destruct (goto_exists g co (gf_wf g pg GF) Hok X) as (G & HG & _).
  pose proof (iC_in_lr0 g co cl i Hrepr Hi) as Hi0.
  destruct HG as [HG0 HG1].
  assert (HGc : has_core G (it_p i, S (it_d i))).
  { apply HG0. exists (it_d i). split; [reflexivity|]. split; [exact Hi0|exact Hnth]. }
  destruct (gf_complete g pg GF s co cl es X G E1 E2 (conj HG0 HG1) (ex_intro _ _ HGc))
    as (t & co_t & cl_t & Ha & Et & Hsub & Hsubla).
  destruct (gf_reach g pg GF _ _ _ Et) as (_ & Hrepr_t & _).
  assert (Hc_t : lr0_closure_rel g co_t (it_p i) (S (it_d i))).
  { destruct (proj1 (has_core_pd co_t _ _) (proj1 (Hsub _) HGc)) as [la Hin].
    exact (c0_base g co_t _ _ la Hin). }
  destruct (iC_find g co_t cl_t _ _ Hrepr_t Hc_t) as (j & Hf & _ & _ & _ & Hla).
  exists t, co_t, cl_t, j. split; [exact Ha|]. split; [exact Et|]. split; [exact Hf|].
  intros a Ha'. apply Hla.
  assert (HGa : has_la G (it_p i, S (it_d i)) a).
  { apply HG1. exists (it_d i). split; [reflexivity|]. split; [|exact Hnth].
    exact (iC_in_lr1 g co cl i a Hrepr Hi Ha'). }
  destruct (proj1 (has_la_pd co_t _ _ a) (Hsubla _ a HGa)) as (la & Hin & Hina).
  exact (c1_base g co_t _ _ la a Hin Hina).
Qed.

Lemma iC_vC3 g pg : graph_facts g pg -> vC3 g (induced g pg) = true.
Proof.
  intros GF. unfold vC3. apply forallb_forall. intros s Hs.
  destruct (iC_state g pg s GF Hs) as (co & cl & es & E1 & E2 & _ & Ecl & Eed).
  cbn [closed edge action goto induced]. rewrite Ecl.
  apply forallb_forall. intros i Hi.
  destruct (nth_error (rhs g (it_p i)) (it_d i)) as [X|] eqn:Hnth; [|reflexivity].
  destruct (iC_goto_edge g pg _ co cl es i X GF E1 E2 Hi Hnth)
    as (t & co_t & cl_t & j & Ha & Et & Hf & Hincl).
  rewrite (Eed X), Ha. cbn [option_map].
  assert (Ecl_t : st_closed pg (N.of_nat t) = cl_t).
  { unfold st_closed. rewrite Nat2N.id, Et. reflexivity. }
  rewrite Ecl_t, Hf. apply andb_true_iff. split.
  - apply subsetN_incl. exact Hincl.
  - destruct X as [a|r].
    + unfold induced_action. rewrite (Eed (T a)), Ha. cbn [option_map act_eqb]. apply N.eqb_refl.
    + rewrite (Eed (R r)), Ha. cbn [option_map optN_eqb]. apply N.eqb_refl.
Qed.

(* ---- C4 ------------------------------------------------------------------------------------- *)

(* an edge comes with a closure item that has the edge's symbol after its dot *)
Lemma iC_edge_item g pg s co cl es X t : graph_facts g pg ->
  nth_error (pg_states pg) s = Some (co, cl) -> nth_error (pg_edges pg) s = Some es ->
  assoc_sym X es = Some t ->
  exists p d, lr0_closure_rel g co p d /\ nth_error (rhs g p) d = Some X.
Proof.
  intros GF E1 E2 Ha.
  destruct (gf_sound g pg GF s co cl es X t E1 E2 Ha) as (G & _ & _ & [HG0 _] & [[p d'] Hk] & _).
  destruct (proj1 (HG0 p d') Hk) as (d & _ & H0 & Hnth).
  exists p, d. split; [exact H0|exact Hnth].
Qed.

Lemma iC_reduce_action g pg s co cl es (i : item) a : graph_facts g pg ->
  nth_error (pg_states pg) (N.to_nat s) = Some (co, cl) ->
  nth_error (pg_edges pg) (N.to_nat s) = Some es ->
  ~ state_conflict g co ->
  In i cl -> it_d i = length (rhs g (it_p i)) -> In a (it_la i) ->
  induced_action g pg s a = if N.eqb (it_p i) (start_prod g) then Accept else Reduce (it_p i).
Proof.
  intros GF E1 E2 Hnc Hi Hd Ha.
  destruct (gf_reach g pg GF _ _ _ E1) as (_ & Hrepr & _).
  pose proof (iC_in_lr1 g co cl i a Hrepr Hi Ha) as Hi1. rewrite Hd in Hi1.
  unfold induced_action, st_edge, st_closed. rewrite E1, E2.
  destruct (assoc_sym (T a) es) as [t|] eqn:Eas.
  - exfalso. destruct (iC_edge_item g pg _ co cl es (T a) t GF E1 E2 Eas) as (p & d & H0 & Hnth).
    apply Hnc. left. exists a, p, d, (it_p i). split; [exact H0|]. split; [exact Hnth|exact Hi1].
  - cbn [option_map].
    assert (Hir : In i (reducers g cl a)).
    { unfold reducers. apply filter_In. split; [exact Hi|]. apply andb_true_iff. split.
      - apply Nat.eqb_eq. exact Hd.
      - apply memN_In. exact Ha. }
    destruct (reducers g cl a) as [|i' rest] eqn:Er; [destruct Hir|].
    assert (Hi'r : In i' (reducers g cl a)) by (rewrite Er; left; reflexivity).
    unfold reducers in Hi'r. apply filter_In in Hi'r. destruct Hi'r as [Hi' Hb].
    apply andb_true_iff in Hb. destruct Hb as [Hd' Ha']. apply Nat.eqb_eq in Hd'.
    apply memN_In in Ha'.
    pose proof (iC_in_lr1 g co cl i' a Hrepr Hi' Ha') as Hi'1. rewrite Hd' in Hi'1.
    assert (Ep : it_p i' = it_p i).
    { destruct (N.eq_dec (it_p i') (it_p i)) as [E|NE]; [exact E|].
      exfalso. apply Hnc. right. exists a, (it_p i'), (it_p i).
      split; [exact NE|]. split; [exact Hi'1|exact Hi1]. }
    rewrite Ep. reflexivity.
Qed.

Lemma iC_vC4 g pg : graph_facts g pg -> graph_conflict_free g pg -> vC4 g (induced g pg) = true.
Proof.
  intros GF CF. unfold vC4. apply forallb_forall. intros s Hs.
  destruct (iC_state g pg s GF Hs) as (co & cl & es & E1 & E2 & _ & Ecl & _).
  cbn [closed action induced]. rewrite Ecl.
  pose proof (CF _ _ _ E1) as Hnc.
  apply forallb_forall. intros i Hi.
  destruct (Nat.eqb (it_d i) (length (rhs g (it_p i)))) eqn:Ed; [|reflexivity].
  apply Nat.eqb_eq in Ed.
  destruct (N.eqb (it_p i) (start_prod g)) eqn:Ep.
  - destruct (memN (eof g) (it_la i)) eqn:Em; [|reflexivity]. cbn [negb orb].
    apply memN_In in Em.
    rewrite (iC_reduce_action g pg s co cl es i (eof g) GF E1 E2 Hnc Hi Ed Em), Ep. reflexivity.
  - apply forallb_forall. intros a Ha.
    rewrite (iC_reduce_action g pg s co cl es i a GF E1 E2 Hnc Hi Ed Ha), Ep.
    cbn [act_eqb]. apply N.eqb_refl.
Qed.

(* ---- validC ----------------------------------------------------------------------------------- *)

Lemma induced_validC : induced_validC_stmt.
Proof.
  intros g pg GF CF. unfold validC.
  destruct (first_ref g) as [[nl fs]|] eqn:Efr;
    [|exfalso; exact (first_ref_total g (gf_wf g pg GF) Efr)].
  destruct (first_ref_exact' g nl fs Efr) as [Hnl Hfs].
  rewrite (iC_vC1 g pg GF), (iC_vC2 g nl fs pg GF Hnl Hfs), (iC_vC3 g pg GF), (iC_vC4 g pg GF CF).
  reflexivity.
Qed.

(* ---- single_candidate ------------------------------------------------------------------------ *)

Lemma induced_single_candidate : induced_single_candidate_stmt.
Proof.
  intros g pg GF CF. unfold single_candidate. apply forallb_forall. intros s Hs.
  destruct (iC_state g pg s GF Hs) as (co & cl & es & E1 & E2 & _ & Ecl & Eed).
  pose proof (CF _ _ _ E1) as Hnc.
  destruct (gf_reach g pg GF _ _ _ E1) as (_ & Hrepr & _).
  apply forallb_forall. intros a _. apply Nat.leb_le.
  unfold candidates. cbn [closed edge induced]. rewrite Ecl, (Eed (T a)).
  pose proof (conflict_free_cell g co cl a
                (match assoc_sym (T a) es with Some _ => true | None => false end) Hrepr Hnc) as Hcell.
  unfold cell_count in Hcell.
  destruct (assoc_sym (T a) es) as [t|] eqn:Eas; cbn [option_map].
  - apply Hcell. intros _.
    destruct (iC_edge_item g pg _ co cl es (T a) t GF E1 E2 Eas) as (p & d & H0 & Hnth).
    destruct (iC_find g co cl p d Hrepr H0) as (j & _ & Hj & Hp & Hd & _).
    exists j. split; [exact Hj|]. rewrite Hp, Hd. exact Hnth.
  - apply Hcell. intros Hf. discriminate Hf.
Qed.
