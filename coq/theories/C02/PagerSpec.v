(* C02, stage 2 — Pager's merge-safety theorem on the declarative LR(1) model.

   The LR(1) closure is the one of LR/CloseSpec.v ([lr0_closure_rel] : which
   (production, dot) are present, [lr1_closure_rel] : which lookaheads they
   carry) — the relations that Itemset::close is PROVED to compute
   (C01_close_mirror_sound / _complete); goto is the one Itemset::goto is proved
   to compute (C01_goto_mirror_spec).  Nothing of that is duplicated here: a
   state is represented by its KERNEL (an [itemset]: cores with contexts, what
   pager.rs calls a core state), the closed state is its closure.

   [is_goto g K X K']   K' is (a list representing) goto(closure(K), X);
   [after g K alpha S]  S is the kernel reached from kernel K along alpha, i.e.
                        state_after K alpha := closure S;
   [state_conflict g S] the closed state of kernel S has two distinct candidate
                        actions on one lookahead, in the sense of
                        Validator.candidates / Canon.cell_candidates: a shift
                        (some item has the token after its dot) and a complete
                        item carrying it, or two complete items carrying it.  A
                        complete item of the start production (the Accept
                        candidate) counts like any other complete item, as it
                        does there.
   [tree_conflict_free g K]  no state of the canonical LR(1) continuation of K
                        has a conflict.  For the start kernel {[^ -> . S, $]}
                        this is "the grammar is LR(1)".

   Statements; proofs in PagerProofs*.v. *)
From Coq Require Import List Arith NArith Bool Lia.
From GV Require Import Common.Outcome Base.Grammar Base.Analyses LR.Automaton LR.CloseMirror
  LR.CloseSpec C02.Model C02.Spec.
Import ListNotations.

(* ---- goto, paths, conflicts ------------------------------------------------------- *)

Definition is_goto (g : grammar) (K : itemset) (X : sym) (K' : itemset) : Prop :=
  (forall p d', has_core K' (p, d') <->
     exists d, d' = S d /\ lr0_closure_rel g K p d /\ nth_error (rhs g p) d = Some X) /\
  (forall p d' a, has_la K' (p, d') a <->
     exists d, d' = S d /\ lr1_closure_rel g K p d a /\ nth_error (rhs g p) d = Some X).

Inductive after (g : grammar) (K : itemset) : list sym -> itemset -> Prop :=
| after_nil : after g K [] K
| after_snoc alpha S0 X S1 :
    after g K alpha S0 -> is_goto g S0 X S1 -> after g K (alpha ++ [X]) S1.

Definition shift_reduce (g : grammar) (S : itemset) : Prop :=
  exists a p d q, lr0_closure_rel g S p d /\ nth_error (rhs g p) d = Some (T a) /\
                  lr1_closure_rel g S q (length (rhs g q)) a.
Definition reduce_reduce (g : grammar) (S : itemset) : Prop :=
  exists a q1 q2, q1 <> q2 /\ lr1_closure_rel g S q1 (length (rhs g q1)) a /\
                  lr1_closure_rel g S q2 (length (rhs g q2)) a.
Definition state_conflict (g : grammar) (S : itemset) : Prop := shift_reduce g S \/ reduce_reduce g S.

Definition tree_conflict_free (g : grammar) (K : itemset) : Prop :=
  forall alpha S, after g K alpha S -> ~ state_conflict g S.

Definition start_kernel (g : grammar) : itemset := [(start_prod g, 0%nat, [eof g])].
(* the canonical (unmerged) LR(1) construction has no conflict *)
Definition lr1_grammar (g : grammar) : Prop := tree_conflict_free g (start_kernel g).

(* ---- the same continuation, item by item (no lists of intermediate states) ---------

   [core_at g K alpha p d]   : item (p, d) is in the closed state reached from K by alpha
   [la_at g K alpha p d a]   : and a is one of its lookaheads.
   These restate closure and goto as one pair of inductive relations indexed by
   the path; [after_characterisation] shows they are exactly [after] + the
   CloseSpec closure.  They are what the proofs work with (no intermediate
   state has to be materialised as a list), and they give a form of the
   theorems free of the well-formedness hypotheses that materialising needs. *)
Inductive core_at (g : grammar) (K : itemset) : list sym -> N -> nat -> Prop :=
| ca_base p d la : In (p, d, la) K -> core_at g K [] p d
| ca_close alpha p d r q :
    core_at g K alpha p d -> nth_error (rhs g p) d = Some (R r) ->
    is_prod g q -> lhs g q = r -> core_at g K alpha q 0%nat
| ca_goto alpha X p d :
    core_at g K alpha p d -> nth_error (rhs g p) d = Some X -> core_at g K (alpha ++ [X]) p (S d).

Inductive la_at (g : grammar) (K : itemset) : list sym -> N -> nat -> N -> Prop :=
| la_base p d la a : In (p, d, la) K -> In a la -> la_at g K [] p d a
| la_first alpha p d r q b :
    core_at g K alpha p d -> nth_error (rhs g p) d = Some (R r) ->
    is_prod g q -> lhs g q = r ->
    (exists c, derives g (skipn (S d) (rhs g p)) (T b :: c)) ->
    la_at g K alpha q 0%nat b
| la_null alpha p d a r q :
    la_at g K alpha p d a -> nth_error (rhs g p) d = Some (R r) ->
    is_prod g q -> lhs g q = r ->
    derives g (skipn (S d) (rhs g p)) [] ->
    la_at g K alpha q 0%nat a
| la_goto alpha X p d a :
    la_at g K alpha p d a -> nth_error (rhs g p) d = Some X -> la_at g K (alpha ++ [X]) p (S d) a.

Definition conflict_at (g : grammar) (K : itemset) (alpha : list sym) : Prop :=
  (exists a p d q, core_at g K alpha p d /\ nth_error (rhs g p) d = Some (T a) /\
                   la_at g K alpha q (length (rhs g q)) a) \/
  (exists a q1 q2, q1 <> q2 /\ la_at g K alpha q1 (length (rhs g q1)) a /\
                   la_at g K alpha q2 (length (rhs g q2)) a).

Definition path_conflict_free (g : grammar) (K : itemset) : Prop := forall alpha, ~ conflict_at g K alpha.

(* the two presentations agree *)
Definition after_characterisation_stmt : Prop :=
  forall g K alpha S, after g K alpha S ->
    (forall p d, lr0_closure_rel g S p d <-> core_at g K alpha p d) /\
    (forall p d a, lr1_closure_rel g S p d a <-> la_at g K alpha p d a) /\
    (state_conflict g S <-> conflict_at g K alpha).

(* every path of a well-formed kernel can be materialised (Itemset::close and
   Itemset::goto compute it: C01's mirror theorems) *)
Definition after_exists_stmt : Prop :=
  forall g K alpha, wf_grammar g = true -> items_ok g K = true ->
    exists S, after g K alpha S /\ items_ok g S = true.

Definition tree_path_conflict_free_iff_stmt : Prop :=
  forall g K, wf_grammar g = true -> items_ok g K = true ->
    (tree_conflict_free g K <-> path_conflict_free g K).

(* ---- (a) linearity: closure and goto are union-homomorphisms in the contexts ------- *)

Definition closure_linear_stmt : Prop :=
  forall g K1 K2 K12, same_cores K1 K2 -> is_union K1 K2 K12 ->
    (forall p d, lr0_closure_rel g K12 p d <-> lr0_closure_rel g K1 p d) /\
    (forall p d, lr0_closure_rel g K12 p d <-> lr0_closure_rel g K2 p d) /\
    (forall p d a, lr1_closure_rel g K12 p d a <->
                   lr1_closure_rel g K1 p d a \/ lr1_closure_rel g K2 p d a).

Definition goto_linear_stmt : Prop :=
  forall g K1 K2 K12 X G1 G2 G12, same_cores K1 K2 -> is_union K1 K2 K12 ->
    is_goto g K1 X G1 -> is_goto g K2 X G2 -> is_goto g K12 X G12 ->
    same_cores G1 G2 /\ is_union G1 G2 G12.

(* state_after (K1 ⊔ K2) alpha has the cores of state_after K1 alpha (and of
   state_after K2 alpha) and, item by item, the union of the two contexts — for
   the kernels and for the closed states *)
Definition state_after_linear_stmt : Prop :=
  forall g K1 K2 K12 alpha S1 S2 S12, same_cores K1 K2 -> is_union K1 K2 K12 ->
    after g K1 alpha S1 -> after g K2 alpha S2 -> after g K12 alpha S12 ->
    same_cores S1 S2 /\ is_union S1 S2 S12 /\
    (forall p d, lr0_closure_rel g S12 p d <-> lr0_closure_rel g S1 p d) /\
    (forall p d a, lr1_closure_rel g S12 p d a <->
                   lr1_closure_rel g S1 p d a \/ lr1_closure_rel g S2 p d a).

Definition path_linear_stmt : Prop :=
  forall g K1 K2 K12 alpha, same_cores K1 K2 -> is_union K1 K2 K12 ->
    (forall p d, core_at g K12 alpha p d <-> core_at g K1 alpha p d) /\
    (forall p d a, la_at g K12 alpha p d a <-> la_at g K1 alpha p d a \/ la_at g K2 alpha p d a).

(* where a lookahead of the continuation comes from: it is generated inside
   (present whatever the contexts of the kernel, cores alone decide), or it is
   inherited from ONE kernel item k whose context has it — and then the item
   inherits the whole context of k, again whatever the contexts are *)
Definition la_origin_stmt : Prop :=
  forall g K alpha q e a, la_at g K alpha q e a ->
    (forall K', same_cores K K' -> la_at g K' alpha q e a) \/
    (exists k, has_la K k a /\
       forall K' b, same_cores K K' -> has_la K' k b -> la_at g K' alpha q e b).

(* ---- (b) Pager's theorem: merging weakly compatible kernels is safe ------------------ *)

Definition weak_merge_safe_path_stmt : Prop :=
  forall g K1 K2 K12, weakly_compatible_spec K1 K2 -> is_union K1 K2 K12 ->
    path_conflict_free g K1 -> path_conflict_free g K2 -> path_conflict_free g K12.

(* sharper: a conflict of the merged tree at alpha is a conflict of one of the
   two trees at the same alpha *)
Definition weak_merge_conflict_origin_stmt : Prop :=
  forall g K1 K2 K12 alpha, weakly_compatible_spec K1 K2 -> is_union K1 K2 K12 ->
    conflict_at g K12 alpha -> conflict_at g K1 alpha \/ conflict_at g K2 alpha.

Definition weak_merge_safe_stmt : Prop :=
  forall g K1 K2 K12, wf_grammar g = true -> items_ok g K1 = true -> items_ok g K2 = true ->
    weakly_compatible_spec K1 K2 -> is_union K1 K2 K12 ->
    tree_conflict_free g K1 -> tree_conflict_free g K2 -> tree_conflict_free g K12.

(* the same at the level of the mirrors of pager.rs: a positive
   weakly_compatible followed by weakly_merge *)
Definition pager_merge_step_safe_stmt : Prop :=
  forall g keys K1 K2 m ch, wf_grammar g = true -> items_ok g K1 = true -> items_ok g K2 = true ->
    keys_perm K1 keys -> K1 <> [] ->
    weakly_compatible_mirror keys K1 K2 = Done true ->
    weakly_merge_mirror K1 K2 = Done (m, ch) ->
    tree_conflict_free g K1 -> tree_conflict_free g K2 ->
    tree_conflict_free g m /\ items_ok g m = true.

(* without weak compatibility the conclusion fails: the textbook LR(1)-not-LALR(1)
   grammar, the two states with cores {A -> c . , B -> c .} *)
Definition merge_needs_weak_compat_stmt : Prop :=
  exists g K1 K2 K12, wf_grammar g = true /\ items_ok g K1 = true /\ items_ok g K2 = true /\
    same_cores K1 K2 /\ is_union K1 K2 K12 /\
    tree_conflict_free g K1 /\ tree_conflict_free g K2 /\
    ~ weakly_compatible_spec K1 K2 /\ state_conflict g K12.

(* ---- (c) every kernel a Pager-style construction can hold is safe ---------------------

   [pager_reachable g K]: K is obtained from the start kernel by goto (of the
   closure) and by merging weakly compatible kernels.  This abstracts
   pager_stategraph (pager.rs:116-305) as follows.  At every moment of its loop
   each core_states[k] is pager_reachable:
     * state 0 is the start kernel;
     * a new state is `cl_state.goto(sym)` where cl_state = close(core_states[i])
       was computed from the CURRENT core_states[i] (closed_states[i] is reset to
       None whenever core_states[i] changes, and is recomputed before use)
       -> [pr_goto];
     * `core_states[k].weakly_merge(&nstate)` is executed only after
       `core_states[k].weakly_compatible(&nstate)` returned true, both arguments
       being pager_reachable -> [pr_merge] (stage 1: the check decides
       weakly_compatible_spec, the merge is the union);
     * the exact-equality shortcut adds no kernel.
   Abstracted away (not modelled, not needed for safety): the work list
   (closed_states = None / todo / todo_off), the candidate caches
   cnd_rule_weaklies / cnd_token_weaklies (they only restrict WHICH weakly
   compatible state is chosen), the order of hash-map traversals, the
   re-closing of a changed state and the regeneration of its edges (every
   regenerated successor is again a goto of a pager_reachable kernel, merged or
   added as above), and gc (it only deletes states).  What this theorem does
   NOT say: that the final edges are consistent (each edge target's core
   includes the goto of the source's closed state — the fixed point the work
   list exists for) and that the state table reads the closed states correctly;
   those are certified per grammar by the validators (validS/validC/validE) and
   C01's close/goto tie. *)
Inductive pager_reachable (g : grammar) : itemset -> Prop :=
| pr_start : pager_reachable g (start_kernel g)
| pr_goto K X K' :
    pager_reachable g K -> is_goto g K X K' -> items_ok g K' = true -> pager_reachable g K'
| pr_merge K1 K2 K12 :
    pager_reachable g K1 -> pager_reachable g K2 ->
    weakly_compatible_spec K1 K2 -> is_union K1 K2 K12 -> items_ok g K12 = true ->
    pager_reachable g K12.

(* for an LR(1) grammar no kernel of a Pager construction — hence no state of a
   Pager automaton — has a conflict, nor has any state of its canonical
   continuation *)
Definition pager_reachable_conflict_free_stmt : Prop :=
  forall g, wf_grammar g = true -> lr1_grammar g ->
    forall K, pager_reachable g K -> tree_conflict_free g K /\ ~ state_conflict g K.

(* the conflict notion is the validators': a closed state (a map C holding
   exactly the closure of kernel S) of a conflict-free kernel has at most one
   candidate per lookahead — Validator.candidates with "an edge on T a exists"
   read as "some item has T a after its dot" *)
Definition closed_repr (g : grammar) (S C : itemset) : Prop :=
  is_map C /\
  (forall p d, has_core C (p, d) <-> lr0_closure_rel g S p d) /\
  (forall p d a, has_la C (p, d) a <-> lr1_closure_rel g S p d a).

Definition cell_count (g : grammar) (C : itemset) (a : N) (shift : bool) : nat :=
  (if shift then 1 else 0) +
  length (filter (fun i => Nat.eqb (it_d i) (length (rhs g (it_p i))) && memN a (it_la i)) C).

Definition conflict_free_cell_stmt : Prop :=
  forall g S C a shift, closed_repr g S C -> ~ state_conflict g S ->
    (shift = true -> exists i, In i C /\ nth_error (rhs g (it_p i)) (it_d i) = Some (T a)) ->
    (cell_count g C a shift <= 1)%nat.
