(* C02 — the mirror of pager_stategraph terminates for every oracle, and is
   total up to the deliberate StorageT size checks. *)
From Coq Require Import List Arith NArith Bool Lia.
From GV Require Import Common.Outcome Base.Grammar Base.Analyses Base.AnalysesProofs LR.Automaton
  LR.Validator LR.CloseMirror LR.CloseSpec C02.Model C02.Spec C02.PagerSpec C02.Lr1Model
  C02.LoopModel C02.LoopSpec C02.LoopPanicProofs C02.LoopGcProofs C02.LoopTermProofs.
Import ListNotations.

(* the unwrap of the closed states is Done or Panic *)
Lemma unwrap_fold_not_fuel (l : list (option itemset)) :
  fold_right (fun o acc => do l <- acc; match o with Some c => Done (c :: l) | None => Panic end)
             (Done []) l <> OutOfFuel.
Proof.
  induction l as [|o l IH]; simpl; [discriminate|].
  destruct (fold_right _ _ l) as [r| |]; simpl.
  - destruct o; discriminate.
  - discriminate.
  - exfalso. apply IH. reflexivity.
Qed.

Lemma pager_mirror_terminates : pager_mirror_terminates_stmt.
Proof.
  intros g nl fs max_st orders Hpre.
  destruct (main_loop_terminates g nl fs max_st orders Hpre) as [fuel Hf].
  exists fuel. unfold pager_mirror.
  destruct (main_loop g nl fs max_st fuel orders (init_pst g)) as [st| |] eqn:E; simpl.
  - pose proof (unwrap_fold_not_fuel (closed_sts st)) as Hu.
    destruct (fold_right _ _ (closed_sts st)) as [closed| |]; simpl.
    + pose proof (gcp_gc_model_not_fuel_any (combine (core_sts st) closed) (edges_st st)) as Hg.
      destruct (gc_model _ _) as [pg| |]; simpl.
      * destruct (max_st <? _)%N; [discriminate|]. destruct (max_st <=? _)%N; discriminate.
      * discriminate.
      * exfalso. apply Hg. reflexivity.
    + discriminate.
    + exfalso. apply Hu. reflexivity.
  - discriminate.
  - exfalso. apply Hf. reflexivity.
Qed.

Lemma pager_mirror_total : pager_mirror_total_stmt.
Proof.
  intros g nl fs max_st orders Hpre.
  destruct (pager_mirror_terminates g nl fs max_st orders Hpre) as [fuel Hf].
  exists fuel.
  destruct (pager_mirror g nl fs max_st fuel orders) as [pg| |] eqn:E.
  - left. exists pg. reflexivity.
  - right. split; [reflexivity|].
    destruct (N.lt_ge_cases (N.of_nat (S (S (fuel * length (all_syms g))))) max_st) as [Hlt|Hge].
    + exfalso. exact (pager_mirror_never_panics g nl fs max_st fuel orders Hpre Hlt E).
    + exact Hge.
  - exfalso. apply Hf. reflexivity.
Qed.
