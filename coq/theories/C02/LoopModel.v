(* C02 — MIRROR of pager_stategraph (lrtable/src/lib/pager.rs:116-305) and a
   functional model of gc (309-395).  Executable definitions only.

   The mirror follows the Rust control flow of the main `while todo > 0` loop:
     * the vectors closed_states / core_states / edges, the candidate lists
       cnd_rule_weaklies / cnd_token_weaklies, the counters todo / todo_off;
     * choice of state_i: first None at or after todo_off, else first None
       (`.unwrap()` = [Panic]);
     * `closed_states[state_i] = Some(core_states[state_i].close(..))`
       ([close_mirror] of LR/CloseMirror.v);
     * the `for &(pidx, dot) in cl_state.items.keys()` loop with seen_rules /
       seen_tokens, `cl_state.goto(grm, &sym)` ([goto_mirror]) — the hash order
       of cl_state's keys is an ORACLE: the list [orders] supplies one key order
       per iteration (this is the only hash order the resulting graph depends
       on; the hook lrtable::verif_take_pager_trace records it, so that the
       correspondence run replays the implementation's own run exactly);
     * for every (sym, nstate): the exact-equality scan of the candidates
       (derived PartialEq of Itemset = HashMap equality), then the
       weakly_compatible scan ([weakly_compatible_mirror]), then either
       `edges[state_i].insert(sym, k)` + weakly_merge ([weakly_merge_mirror]) +
       re-queueing of k when it changed and was closed, or a new state;
     * every indexing / unwrap that can panic is an explicit [Panic]; the
       StorageT size checks are [Panic] w.r.t. the parameter [max_st]
       (StorageT::max_value());
     * the loop runs on fuel ([OutOfFuel]).
   Hash orders that cannot influence the result are fixed: the key order used
   by close (C01_close_mirror_order_insensitive: the result is the same set)
   and by weakly_compatible (C02_weakly_compatible_order_insensitive) is the
   list order.  Association lists for hash maps: an itemset as in CloseMirror.v;
   `edges[i]` as a list of (symbol, target) with HashMap::insert semantics.

   gc: reachability from the start state over `edges` does not depend on the
   HashSet traversal order, so [gc_model] computes it by (bounded, checked)
   saturation and then performs the same compaction (states kept in order,
   offsets subtracted). *)
From Coq Require Import List Arith NArith Bool Lia.
From GV Require Import Common.Outcome Base.Grammar Base.Analyses LR.Automaton LR.CloseMirror
  C02.Model.
Import ListNotations.

Record pst := mkPst {
  closed_sts : list (option itemset);
  core_sts : list itemset;
  edges_st : list (list (sym * nat));
  cnd_rule : list (list nat);
  cnd_tok : list (list nat);
  todo : nat;
  todo_off : nat
}.

Fixpoint set_nth {A} (i : nat) (v : A) (l : list A) : list A :=
  match l, i with
  | [], _ => []
  | _ :: l', O => v :: l'
  | x :: l', S i' => x :: set_nth i' v l'
  end.

(* HashMap::insert on edges[i] *)
Fixpoint edge_insert (X : sym) (t : nat) (l : list (sym * nat)) : list (sym * nat) :=
  match l with
  | [] => [(X, t)]
  | (Y, u) :: l' => if sym_eqb X Y then (X, t) :: l' else (Y, u) :: edge_insert X t l'
  end.

(* Vob == Vob, Itemset == Itemset *)
Definition ctx_eqb (a b : list N) : bool := subsetN a b && subsetN b a.
Definition itemset_same (A B : itemset) : bool :=
  Nat.eqb (length A) (length B) &&
  forallb (fun i => match lookup (it_p i) (it_d i) B with
                    | Some la => ctx_eqb (it_la i) la
                    | None => false
                    end) A.

(* closed_states.iter().position(Option::is_none) *)
Fixpoint first_none (l : list (option itemset)) : option nat :=
  match l with
  | [] => None
  | None :: _ => Some 0%nat
  | Some _ :: l' => option_map S (first_none l')
  end.

Definition next_state (st : pst) : outcome nat :=
  match first_none (skipn (todo_off st) (closed_sts st)) with
  | Some i => Done (todo_off st + i)%nat
  | None => match first_none (closed_sts st) with Some i => Done i | None => Panic end
  end.

(* the loop over cl_state.items.keys() that fills new_states *)
Fixpoint gen_new (g : grammar) (cl : itemset) (ko : list key) (seen : list sym)
  (acc : list (sym * itemset)) : outcome (list (sym * itemset)) :=
  match ko with
  | [] => Done (rev acc)
  | (p, d) :: ko' =>
      if negb (is_prodb g p) then Panic else                         (* grm.prod(pidx) *)
      let rh := rhs g p in
      if Nat.eqb d (length rh) then gen_new g cl ko' seen acc else
      match nth_error rh d with
      | None => Panic                                                (* prod[dot] *)
      | Some X =>
          if negb (sym_in_range g X) then Panic else                 (* seen_rules[..] / seen_tokens[..] *)
          if existsb (sym_eqb X) seen then gen_new g cl ko' seen acc else
          do ns <- goto_mirror g cl X;
          gen_new g cl ko' (X :: seen) ((X, ns) :: acc)
      end
  end.

Definition cnd_of (st : pst) (X : sym) : outcome (list nat) :=
  match X with
  | R r => nth_checked (cnd_rule st) (N.to_nat r)
  | T t => nth_checked (cnd_tok st) (N.to_nat t)
  end.

Definition cnd_push (st : pst) (X : sym) (k : nat) : pst :=
  match X with
  | R r => mkPst (closed_sts st) (core_sts st) (edges_st st)
                 (set_nth (N.to_nat r) (nth (N.to_nat r) (cnd_rule st) [] ++ [k]) (cnd_rule st))
                 (cnd_tok st) (todo st) (todo_off st)
  | T t => mkPst (closed_sts st) (core_sts st) (edges_st st) (cnd_rule st)
                 (set_nth (N.to_nat t) (nth (N.to_nat t) (cnd_tok st) [] ++ [k]) (cnd_tok st))
                 (todo st) (todo_off st)
  end.

(* for cnd in cnd_states { if core_states[cnd] == nstate { .. } } *)
Fixpoint find_same (cores : list itemset) (ns : itemset) (cnds : list nat) : outcome (option nat) :=
  match cnds with
  | [] => Done None
  | c :: cs =>
      do k <- nth_checked cores c;
      if itemset_same k ns then Done (Some c) else find_same cores ns cs
  end.

(* for cnd in cnd_states { if core_states[cnd].weakly_compatible(&nstate) { m = Some(cnd); break } } *)
Fixpoint find_weak (cores : list itemset) (ns : itemset) (cnds : list nat) : outcome (option nat) :=
  match cnds with
  | [] => Done None
  | c :: cs =>
      do k <- nth_checked cores c;
      do b <- weakly_compatible_mirror (keys_of k) k ns;
      if b then Done (Some c) else find_weak cores ns cs
  end.

Definition insert_edge (st : pst) (i : nat) (X : sym) (t : nat) : outcome pst :=
  do es <- nth_checked (edges_st st) i;
  Done (mkPst (closed_sts st) (core_sts st) (set_nth i (edge_insert X t es) (edges_st st))
              (cnd_rule st) (cnd_tok st) (todo st) (todo_off st)).

(* the body of `'a: for (sym, nstate) in new_states.drain(..)` *)
Definition place (max_st : N) (state_i : nat) (st : pst) (X : sym) (ns : itemset) : outcome pst :=
  do cnds <- cnd_of st X;
  do same <- find_same (core_sts st) ns cnds;
  match same with
  | Some c => insert_edge st state_i X c                               (* continue 'a *)
  | None =>
      do m <- find_weak (core_sts st) ns cnds;
      match m with
      | Some k =>
          do st1 <- insert_edge st state_i X k;
          do ck <- nth_checked (core_sts st1) k;
          do mr <- weakly_merge_mirror ck ns;
          let cores' := set_nth k (fst mr) (core_sts st1) in
          if snd mr then
            do cl <- nth_checked (closed_sts st1) k;
            match cl with
            | Some _ => Done (mkPst (set_nth k None (closed_sts st1)) cores' (edges_st st1)
                                    (cnd_rule st1) (cnd_tok st1) (S (todo st1)) (todo_off st1))
            | None => Done (mkPst (closed_sts st1) cores' (edges_st st1)
                                  (cnd_rule st1) (cnd_tok st1) (todo st1) (todo_off st1))
            end
          else Done (mkPst (closed_sts st1) cores' (edges_st st1)
                           (cnd_rule st1) (cnd_tok st1) (todo st1) (todo_off st1))
      | None =>
          if (max_st <=? N.of_nat (length (core_sts st)))%N then Panic else   (* StorageT is not big enough *)
          let stidx := length (core_sts st) in
          do _chk <- cnd_of st X;
          let st1 := cnd_push st X stidx in
          do st2 <- insert_edge st1 state_i X stidx;
          Done (mkPst (closed_sts st2 ++ [None]) (core_sts st2 ++ [ns]) (edges_st st2 ++ [[]])
                      (cnd_rule st2) (cnd_tok st2) (S (todo st2)) (todo_off st2))
      end
  end.

Fixpoint place_all (max_st : N) (state_i : nat) (st : pst) (news : list (sym * itemset)) : outcome pst :=
  match news with
  | [] => Done st
  | (X, ns) :: news' => do st' <- place max_st state_i st X ns; place_all max_st state_i st' news'
  end.

Definition mem_key (k : key) (l : list key) : bool :=
  existsb (fun k' => N.eqb (fst k) (fst k') && Nat.eqb (snd k) (snd k')) l.

(* the oracle made total: the keys of cl in the order the oracle gives them;
   entries of the oracle that are not keys of cl are ignored, keys it omits come
   last in list order.  For an oracle that lists exactly the keys of cl (what the
   hook records) this is the oracle's list itself. *)
Definition eff_order (cl : itemset) (ko : option (list key)) : list key :=
  match ko with
  | None => keys_of cl
  | Some ko => filter (has_key cl) ko ++ filter (fun k => negb (mem_key k ko)) (keys_of cl)
  end.

(* one iteration of `while todo > 0`; [ko] = cl_state.items.keys() in hash order,
   [None] = take the list order *)
Definition iteration (g : grammar) (nl : list N) (fs : list pairN) (max_st : N)
  (ko : option (list key)) (st : pst) : outcome pst :=
  do state_i <- next_state st;
  if Nat.eqb (todo st) 0 then Panic else                              (* todo -= 1 on usize *)
  do core_i <- nth_checked (core_sts st) state_i;
  do cl <- close_mirror g nl fs (keys_of core_i) core_i (close_fuel g (keys_of core_i));
  let st1 := mkPst (set_nth state_i (Some cl) (closed_sts st)) (core_sts st) (edges_st st)
                   (cnd_rule st) (cnd_tok st) (todo st - 1) (S state_i) in
  do news <- gen_new g cl (eff_order cl ko) [] [];
  place_all max_st state_i st1 news.

Fixpoint main_loop (g : grammar) (nl : list N) (fs : list pairN) (max_st : N) (fuel : nat)
  (orders : list (list key)) (st : pst) : outcome pst :=
  match fuel with
  | O => OutOfFuel
  | S f =>
      if Nat.eqb (todo st) 0 then Done st else
      match orders with
      | ko :: orders' => do st' <- iteration g nl fs max_st (Some ko) st; main_loop g nl fs max_st f orders' st'
      | [] => do st' <- iteration g nl fs max_st None st; main_loop g nl fs max_st f [] st'
      end
  end.

Definition init_pst (g : grammar) : pst :=
  mkPst [None] [[(start_prod g, 0%nat, [eof g])]] [[]]
        (repeat [] (N.to_nat (nrules g))) (repeat [] (S (N.to_nat (ntoks g)))) 1 0.

(* ---- gc ----------------------------------------------------------------------------- *)

Definition memn (x : nat) (l : list nat) : bool := existsb (Nat.eqb x) l.

Definition reach_step (edges : list (list (sym * nat))) (seen : list nat) : list nat :=
  fold_left (fun acc s =>
    fold_left (fun acc2 e => if memn (snd e) acc2 then acc2 else acc2 ++ [snd e]) (nth s edges []) acc)
    seen seen.

Definition reachable (edges : list (list (sym * nat))) (start : nat) : list nat :=
  iter (S (length edges)) (reach_step edges) [start].

(* offsets[i] = i - (number of unreachable states before i) *)
Fixpoint offsets (seen : list nat) (n i off : nat) : list nat :=
  match n with
  | O => []
  | S n' => (i - off)%nat :: offsets seen n' (S i) (if memn i seen then off else S off)
  end.

Fixpoint keep {A} (seen : list nat) (i : nat) (l : list A) : list A :=
  match l with
  | [] => []
  | x :: l' => if memn i seen then x :: keep seen (S i) l' else keep seen (S i) l'
  end.

Record pgraph := mkPgraph {
  pg_states : list (itemset * itemset);         (* (core, closed) *)
  pg_edges : list (list (sym * nat))
}.

Definition gc_model (states : list (itemset * itemset)) (edges : list (list (sym * nat))) : outcome pgraph :=
  let seen := reachable edges 0 in
  (* the saturation above is bounded: CHECK that [seen] is closed under the edges
     (the Rust loop runs to the fixed point); never observed to fail *)
  if negb (forallb (fun s => forallb (fun e => memn (snd e) seen) (nth s edges [])) seen) then OutOfFuel else
  if Nat.eqb (length states) (length seen) then Done (mkPgraph states edges) else
  let offs := offsets seen (length states) 0 0 in
  let es := keep seen 0 edges in
  if forallb (fun l => forallb (fun e => (snd e <? length offs)%nat) l) es then
    Done (mkPgraph (keep seen 0 states)
                   (map (fun l => map (fun e => (fst e, nth (snd e) offs 0%nat)) l) es))
  else Panic.                                                             (* offsets[usize::from(v)] *)

(* pager_stategraph *)
Definition pager_mirror (g : grammar) (nl : list N) (fs : list pairN) (max_st : N) (fuel : nat)
  (orders : list (list key)) : outcome pgraph :=
  do st <- main_loop g nl fs max_st fuel orders (init_pst g);
  (* .zip(closed_states.drain(..).map(Option::unwrap)) *)
  do closed <- fold_right (fun o acc => do l <- acc; match o with Some c => Done (c :: l) | None => Panic end)
                          (Done []) (closed_sts st);
  do pg <- gc_model (combine (core_sts st) closed) (edges_st st);
  if (max_st <? N.of_nat (length (pg_states pg)))%N then Panic else       (* gc_states.len() > max *)
  if (max_st <=? N.of_nat (length (pg_states pg)))%N then Panic else      (* StateGraph::new: assert!(len < max) *)
  Done pg.
