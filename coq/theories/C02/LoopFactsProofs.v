(* C02 — proof of pager_mirror_graph_facts_stmt (InducedSpec.v): every graph returned by
   the mirror of pager_stategraph has the [graph_facts].

   gf_len / gf_start / gf_complete / gf_sound are the edge theorems of LoopEdgeProofs.v,
   gf_reach is pager_mirror_reachable plus [fp_closed_items_ok] (a map holding exactly the
   closure of a kernel in range is in range).  gf_nonempty / gf_kernel come from one more
   loop invariant ([KInv]: no core state is empty, and every core state but state 0
   consists of advanced items — a new state is a non-empty goto, a merge keeps the
   cores), carried through gc, which keeps state 0 at index 0 and the order of the
   states ([fp_gc_index]). *)
From Coq Require Import List Arith NArith Bool Lia.
From GV Require Import Common.Outcome Base.Grammar Base.GrammarFacts Base.Analyses Base.AnalysesProofs LR.Automaton
  LR.Validator LR.CloseMirror LR.CloseSpec LR.CloseProofs C02.Model C02.Spec C02.Proofs
  C02.PagerSpec C02.PagerProofsBridge C02.PagerProofsMisc C02.PagerProofsMain C02.PagerProofsExists
  C02.Lr1Model C02.Lr1Spec C02.Lr1Proofs C02.LoopModel C02.LoopSpec C02.LoopProofs C02.LoopEdgeProofs
  C02.InducedSpec.
Import ListNotations.

(* ---- a closed state is a map of items in range ------------------------------------------------- *)

Lemma fp_lr0_range g K : items_ok g K = true ->
  forall p d, lr0_closure_rel g K p d -> is_prod g p /\ d <= length (rhs g p).
Proof.
  intros HK. pose proof (proj1 (items_ok_spec g K) HK) as [_ Hr].
  intros p d H. induction H as [p d la Hin | p d r q Hpar IH Hnth Hq Hlq].
  - destruct (Hr p d la Hin) as (Hp & Hd & _). split; [exact Hp|exact Hd].
  - split; [exact Hq|apply Nat.le_0_l].
Qed.

Lemma fp_lr1_range g K : wf_grammar g = true -> items_ok g K = true ->
  forall p d a, lr1_closure_rel g K p d a -> (a < ntoks g)%N.
Proof.
  intros Hwf HK. pose proof (proj1 (items_ok_spec g K) HK) as [_ Hr].
  intros p d a H.
  induction H as [p d la a Hin Ha | p d r q b Hpar Hnth Hq Hlq Hf | p d a r q Hpar IH Hnth Hq Hlq Hn].
  - destruct (Hr p d la Hin) as (_ & _ & Hla). exact (Hla a Ha).
  - destruct Hf as [c Hder].
    pose proof (nth_error_rhs_is_prod g p d (R r) Hnth) as Hp.
    assert (Htail : forallb (sym_in_range g) (skipn (S d) (rhs g p)) = true).
    { apply forallb_forall. intros x Hx. apply (wf_rhs_range g p x Hwf Hp).
      exact (In_skipn x (S d) (rhs g p) Hx). }
    pose proof (derives_in_range g _ _ Hwf Hder Htail) as Hres.
    cbn [forallb sym_in_range] in Hres. apply andb_true_iff in Hres.
    apply N.ltb_lt. exact (proj1 Hres).
  - exact IH.
Qed.

Lemma fp_closed_items_ok g core closed : wf_grammar g = true -> items_ok g core = true ->
  closed_repr g core closed -> items_ok g closed = true.
Proof.
  intros Hwf Hok (Hmap & H0 & H1). apply items_ok_spec. split; [exact Hmap|].
  intros p d la Hin.
  destruct (fp_lr0_range g core Hok p d (proj1 (H0 p d) (has_core_intro closed p d la Hin))) as [Hp Hd].
  split; [exact Hp|]. split; [exact Hd|].
  intros a Ha. apply (fp_lr1_range g core Hwf Hok p d a).
  exact (proj1 (H1 p d a) (has_la_intro closed p d la a Hin Ha)).
Qed.

(* ---- no empty core state; every core state but state 0 consists of advanced items ------------------ *)

Definition kernel_like (s : nat) (c : itemset) : Prop :=
  (exists k, has_core c k) /\ (1 <= s -> forall k, has_core c k -> 1 <= snd k).

Definition KInv (cores : list itemset) : Prop :=
  forall s c, nth_error cores s = Some c -> kernel_like s c.

Lemma fp_kernel_like_same s c c' : same_cores c c' -> kernel_like s c -> kernel_like s c'.
Proof.
  intros Hs [[k Hk] Hd]. split.
  - exists k. exact (proj1 (Hs k) Hk).
  - intros H1 k' Hk'. exact (Hd H1 k' (proj2 (Hs k') Hk')).
Qed.

Lemma fp_goto_kernel_like g K X ns s : is_goto g K X ns -> gnonempty g K X -> kernel_like s ns.
Proof.
  intros [Hg _] (p & d' & Hgc). split.
  - exists (p, d'). exact (proj2 (Hg p d') Hgc).
  - intros _ [q e] Hk. destruct (proj1 (Hg q e) Hk) as (d & Hd & _). simpl. lia.
Qed.

Lemma fp_init g : KInv (core_sts (init_pst g)).
Proof.
  intros s c H. unfold init_pst in H. cbn [core_sts] in H. destruct s as [|s]; simpl in H.
  - injection H as H. subst c. split.
    + exists (start_prod g, 0). exists [eof g]. left. reflexivity.
    + intros F. lia.
  - destruct s; discriminate H.
Qed.

Lemma fp_place g max_st cur st X ns st' : wf_grammar g = true ->
  Inv g st -> KInv (core_sts st) -> pager_reachable g ns ->
  (forall s, kernel_like s ns) ->
  place max_st cur st X ns = Done st' -> KInv (core_sts st').
Proof.
  intros Hwf HI HK Hns Hnsk H. unfold place in H.
  ostep H as cnds Ecnd.
  ostep H as same Esame.
  destruct same as [c|].
  - destruct (lp_insert_edge_same _ _ _ _ _ H) as [E1 _]. rewrite E1. exact HK.
  - ostep H as m Eweak. destruct m as [k|].
    + ostep H as st1 Eins.
      destruct (lp_insert_edge_same _ _ _ _ _ Eins) as [E1 E2].
      rewrite E1, E2 in H.
      destruct (lp_find_weak_spec _ _ _ _ Eweak) as (ck & Hck & Hwc).
      assert (Eck : nth_checked (core_sts st) k = Done ck).
      { unfold nth_checked. rewrite Hck. reflexivity. }
      rewrite Eck in H. cbn [obind] in H.
      ostep H as mr Emr. cbv zeta in H.
      pose proof HI as (_ & Hr & _).
      destruct (le_merge_facts g ck ns mr (pager_reachable_items_ok g ck Hwf (Hr k ck Hck))
                  (pager_reachable_items_ok g ns Hwf Hns) Hwc Emr) as (_ & [Hsc _] & _).
      assert (Hgoal : KInv (set_nth k (fst mr) (core_sts st))).
      { intros s c Hs. rewrite lp_nth_error_set_nth in Hs. destruct (Nat.eqb k s) eqn:E.
        - apply Nat.eqb_eq in E. subst s. rewrite Hck in Hs. injection Hs as Hs. subst c.
          exact (fp_kernel_like_same k ck (fst mr) Hsc (HK k ck Hck)).
        - exact (HK s c Hs). }
      destruct (snd mr).
      * ostep H as cl Ecl.
        destruct cl as [c0|]; injection H as H; subst st'; cbn [core_sts]; exact Hgoal.
      * injection H as H. subst st'. cbn [core_sts]. exact Hgoal.
    + destruct (max_st <=? N.of_nat (length (core_sts st)))%N; [discriminate H|].
      cbn [obind] in H. cbv zeta in H.
      ostep H as st2 Eins.
      destruct (lp_insert_edge_same _ _ _ _ _ Eins) as [E1 _].
      destruct (lp_cnd_push_same st X (length (core_sts st))) as [E3 _].
      injection H as H. subst st'. cbn [core_sts]. rewrite E1, E3.
      intros s c Hs. destruct (lt_dec s (length (core_sts st))) as [Hlt|Hge].
      * rewrite nth_error_app1 in Hs by exact Hlt. exact (HK s c Hs).
      * rewrite nth_error_app2 in Hs by lia.
        destruct (s - length (core_sts st)) as [|n]; simpl in Hs.
        -- injection Hs as Hs. subst c. exact (Hnsk s).
        -- destruct n; discriminate Hs.
Qed.

Lemma fp_place_all g max_st cur : wf_grammar g = true ->
  forall news st st', Inv g st -> KInv (core_sts st) ->
  (forall X ns, In (X, ns) news -> pager_reachable g ns /\ forall s, kernel_like s ns) ->
  place_all max_st cur st news = Done st' -> Inv g st' /\ KInv (core_sts st').
Proof.
  intros Hwf. induction news as [|[X ns] news IH]; intros st st' HI HK Hnews H.
  - cbn [place_all] in H. injection H as H. subst st'. split; [exact HI|exact HK].
  - cbn [place_all] in H. ostep H as st1 E1.
    destruct (Hnews X ns (or_introl eq_refl)) as [Hr Hk].
    apply (IH st1 st'); [| | |exact H].
    + exact (lp_place_inv g max_st cur st X ns st1 Hwf HI Hr E1).
    + exact (fp_place g max_st cur st X ns st1 Hwf HI HK Hr Hk E1).
    + intros X' ns' Hin. apply (Hnews X' ns'). right. exact Hin.
Qed.

Lemma fp_iteration g nl fs max_st ko st st' : loop_pre g nl fs -> Inv g st -> KInv (core_sts st) ->
  iteration g nl fs max_st ko st = Done st' -> Inv g st' /\ KInv (core_sts st').
Proof.
  intros Hpre HI HK H. pose proof Hpre as (Hwf & _ & _). unfold iteration in H.
  ostep H as state_i Enext.
  destruct (Nat.eqb (todo st) 0); [discriminate H|].
  ostep H as core_i Ecore.
  ostep H as cl Ecl.
  cbv zeta in H.
  ostep H as news Enews.
  apply le_nth_checked in Ecore.
  pose proof HI as (Hlen & Hr & Hc).
  pose proof (Hr state_i core_i Ecore) as Hreach.
  pose proof (pager_reachable_items_ok g core_i Hwf Hreach) as Hok.
  destruct (lp_close_specific g nl fs core_i cl _ Hpre Hok Ecl) as [Hclok Hclrepr].
  pose proof Hclrepr as (_ & Hcl0 & _).
  refine (fp_place_all g max_st state_i Hwf news _ st' _ _ _ H).
  - unfold Inv. cbn [core_sts closed_sts]. apply lp_Inv2_set_closed; [exact HI|].
    intros core C HC Hcore. injection HC as HC. subst C.
    rewrite Ecore in Hcore. injection Hcore as Hcore. subst core. exact Hclrepr.
  - cbn [core_sts]. exact HK.
  - intros X ns Hin.
    assert (Hnil : forall X0 ns0, In (X0, ns0) (@nil (sym * itemset)) ->
                     is_goto g core_i X0 ns0 /\ items_ok g ns0 = true).
    { intros X0 ns0 F. destruct F. }
    destruct (lp_gen_new_spec g core_i cl Hclrepr Hclok _ [] [] news Hnil Enews X ns Hin)
      as [Hg Hnsok].
    split; [exact (pr_goto g core_i X ns Hreach Hg Hnsok)|].
    assert (Hne : gnonempty g core_i X).
    { apply (le_gen_new_from g cl (fun X => gnonempty g core_i X) (eff_order cl ko) [] [] news)
        with (ns := ns); [| |exact Enews|exact Hin].
      - intros p d X0 Hk Hn. exists p, (S d), d. split; [reflexivity|]. split; [|exact Hn].
        apply (proj1 (Hcl0 p d)). apply has_core_keys. apply le_eff_order_keys in Hk. exact Hk.
      - intros X0 ns0 F. destruct F. }
    intros s. exact (fp_goto_kernel_like g core_i X ns s Hg Hne).
Qed.

Lemma fp_main_loop g nl fs max_st : loop_pre g nl fs ->
  forall fuel orders st st', Inv g st -> KInv (core_sts st) ->
  main_loop g nl fs max_st fuel orders st = Done st' -> Inv g st' /\ KInv (core_sts st').
Proof.
  intros Hpre. induction fuel as [|f IH]; intros orders st st' HI HK H.
  - cbn [main_loop] in H. discriminate H.
  - cbn [main_loop] in H. destruct (Nat.eqb (todo st) 0).
    + injection H as H. subst st'. split; [exact HI|exact HK].
    + destruct orders as [|ko orders'].
      * ostep H as st1 E1.
        destruct (fp_iteration g nl fs max_st None st st1 Hpre HI HK E1) as [HI1 HK1].
        exact (IH [] st1 st' HI1 HK1 H).
      * ostep H as st1 E1.
        destruct (fp_iteration g nl fs max_st (Some ko) st st1 Hpre HI HK E1) as [HI1 HK1].
        exact (IH orders' st1 st' HI1 HK1 H).
Qed.

(* ---- gc keeps state 0 first and the order of the states --------------------------------------------- *)

Lemma fp_gc_index (states : list (itemset * itemset)) edges pg j x :
  gc_model states edges = Done pg -> nth_error (pg_states pg) j = Some x ->
  exists s, nth_error states s = Some x /\ (1 <= j -> 1 <= s).
Proof.
  unfold gc_model. intros H Hj.
  match type of H with (if ?c then _ else _) = _ => destruct c end; [discriminate H|].
  destruct (Nat.eqb (length states) (length (reachable edges 0))).
  - injection H as H. subst pg. exists j. split; [exact Hj|intros F; exact F].
  - match type of H with (if ?c then _ else _) = _ => destruct c end; [|discriminate H].
    injection H as H. subst pg. cbn [pg_states] in Hj.
    destruct (le_keep_inv (reachable edges 0) states 0 0 [] j x eq_refl (Nat.le_0_l j) Hj)
      as (s & _ & _ & Hs & Ho).
    exists s. split; [exact Hs|]. intros Hj1.
    destruct s as [|s]; [|lia].
    destruct states as [|y states]; [discriminate Hs|]. cbn [length offs2 nth] in Ho. lia.
Qed.

(* ---- the statement ------------------------------------------------------------------------------------- *)

Lemma fp_kernel_facts g nl fs max_st fuel orders pg : loop_pre g nl fs ->
  pager_mirror g nl fs max_st fuel orders = Done pg ->
  forall j core closed, nth_error (pg_states pg) j = Some (core, closed) ->
    exists s, kernel_like s core /\ (1 <= j -> 1 <= s).
Proof.
  intros Hpre H j core closed Hj. unfold pager_mirror in H.
  ostep H as st Eml. ostep H as cl Ecl. ostep H as pg' Egc.
  destruct (max_st <? N.of_nat (length (pg_states pg')))%N; [discriminate H|].
  destruct (max_st <=? N.of_nat (length (pg_states pg')))%N; [discriminate H|].
  injection H as H. subst pg'.
  destruct (fp_main_loop g nl fs max_st Hpre fuel orders (init_pst g) st (lp_init_inv g) (fp_init g) Eml)
    as [_ HK].
  destruct (fp_gc_index _ _ _ j (core, closed) Egc Hj) as (s & Hs & Hjs).
  apply le_nth_error_combine in Hs. destruct Hs as [Hs _].
  exists s. split; [exact (HK s core Hs)|exact Hjs].
Qed.

Lemma pager_mirror_graph_facts : pager_mirror_graph_facts_stmt.
Proof.
  intros g nl fs max_st fuel orders pg Hpre H. pose proof Hpre as (Hwf & _ & _).
  destruct (pager_mirror_edges_complete g nl fs max_st fuel orders pg Hpre H) as (Hlen & Hstart & Hcompl).
  constructor.
  - exact Hwf.
  - exact Hlen.
  - exact Hstart.
  - intros s core closed Hs.
    destruct (pager_mirror_reachable g nl fs max_st fuel orders pg Hpre H core closed (nth_error_In _ _ Hs))
      as [Hr Hc].
    split; [exact Hr|]. split; [exact Hc|].
    exact (fp_closed_items_ok g core closed Hwf (pager_reachable_items_ok g core Hwf Hr) Hc).
  - intros j core closed k Hj Hj1 Hk.
    destruct (fp_kernel_facts g nl fs max_st fuel orders pg Hpre H j core closed Hj) as (s & [_ Hd] & Hjs).
    exact (Hd (Hjs Hj1) k Hk).
  - intros j core closed Hj.
    destruct (fp_kernel_facts g nl fs max_st fuel orders pg Hpre H j core closed Hj) as (s & [Hne _] & _).
    exact Hne.
  - exact Hcompl.
  - exact (pager_mirror_edges_sound g nl fs max_st fuel orders pg Hpre H).
Qed.
