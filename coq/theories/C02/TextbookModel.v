(* C02 — the TEXTBOOK notion of LR(1), executable part.  Definitions only.

   The closure relation every construction theorem is stated over
   (LR/CloseSpec.v [lr1_closure_rel]) follows Itemset::close: an item whose
   lookahead set is EMPTY (a rule reference followed only by symbols that derive
   no token string) is present, takes part in goto, and hands FIRST(beta)
   lookaheads to its children.  The textbook closure over single-lookahead items
   [lr1_textbook_rel] has no such item.  Here:

   [canon_tb g n]            the canonical collection of sets of textbook LR(1)
                             items, by a construction of its own (Canon.v's work
                             list with the ONE difference that an item is added
                             only with a non-empty lookahead set — then no state
                             ever holds an item without lookahead).  NOT verified;
                             what it returns is certified by
   [lr1_textbook_check g A]  an executable certificate checker for "g is LR(1) in
                             the textbook sense" ([lr1_textbook_grammar],
                             TextbookSpec.v), sound by [lr1_textbook_check_sound].
                             It accepts an automaton A given by closed states and
                             edges when
                               * closed(start) contains [^ -> . S, $];
                               * every closed state is closed under the textbook
                                 step: with [A -> alpha . B beta, a] it holds
                                 [B -> . gamma, b] for every b in FIRST(beta a);
                               * for every state s and symbol X with a non-empty
                                 goto there is an edge s -X-> t and closed(t)
                                 contains the advanced items;
                               * no closed state has two candidate actions on a
                                 token (a shift = a LIVE item with the token after
                                 its dot; complete items carrying it; the complete
                                 start production = Accept counted like any other).
                             Every state of the true canonical collection is then
                             included in a state of A (simulation), so none has a
                             conflict.  FIRST/nullable are the proved-exact
                             first_ref. *)
From Coq Require Import List Arith NArith Bool Lia.
From GV Require Import Common.Outcome Base.Grammar Base.Analyses LR.Automaton LR.Validator
  LR.Canon LR.CloseMirror C02.Model C02.Lr1Model.
Import ListNotations.

(* ---- the textbook canonical collection (unverified producer of certificates) ------- *)

Definition la_nonempty (la : list N) : bool := match la with [] => false | _ => true end.

(* one closure round: Canon.close_step, but an item comes into being only with a lookahead *)
Definition tb_close_step (g : grammar) (nl : list N) (fs : list pairN) (st : list item) : list item :=
  fold_left (fun acc i =>
    match nth_error (rhs g (it_p i)) (it_d i) with
    | Some (R r) =>
        let la' := firstseq_la nl fs (skipn (S (it_d i)) (rhs g (it_p i))) (it_la i) in
        if la_nonempty (it_la i) && la_nonempty la'
        then fold_left (fun acc2 q => ins_item (q, 0%nat, la') acc2) (prods_of_rule g r) acc
        else acc
    | _ => acc
    end) st st.

Fixpoint tb_close_fix (g : grammar) (nl : list N) (fs : list pairN) (fuel : nat) (st : list item) : list item :=
  match fuel with
  | O => st
  | S f => let st' := tb_close_step g nl fs st in
           if (la_count st' =? la_count st)%nat then st' else tb_close_fix g nl fs f st'
  end.

Definition tb_close1 (g : grammar) (nl : list N) (fs : list pairN) (kernel : list item) : list item :=
  let k := fold_left (fun acc i => if la_nonempty (it_la i) then ins_item i acc else acc) kernel [] in
  tb_close_fix g nl fs (S (length (prods g) * S (N.to_nat (ntoks g)))) k.

Fixpoint tb_build (g : grammar) (nl : list N) (fs : list pairN) (fuel : nat)
  (sts : list (list item)) (edges : list (N * list (sym * N))) (next : nat)
  : option (list (list item) * list (N * list (sym * N))) :=
  match fuel with
  | O => None
  | S f =>
      match nth_error sts next with
      | None => Some (sts, edges)
      | Some st =>
          let '(sts', es) :=
            fold_left (fun '(cur, es) X =>
              match goto_kernel g st X with
              | [] => (cur, es)
              | k => let tgt := tb_close1 g nl fs k in
                     match find_state tgt cur 0 with
                     | Some j => (cur, (X, N.of_nat j) :: es)
                     | None => (cur ++ [tgt], (X, N.of_nat (length cur)) :: es)
                     end
              end) (all_syms g) (sts, []) in
          tb_build g nl fs f sts' (edges ++ [(N.of_nat next, rev es)]) (S next)
      end
  end.

Definition canon_tb (g : grammar) (max_states : nat) : option canon :=
  match first_ref g with
  | None => None
  | Some (nl, fs) =>
      let s0 := tb_close1 g nl fs [(start_prod g, 0%nat, [eof g])] in
      match tb_build g nl fs max_states [s0] [] 0 with
      | None => None
      | Some (sts, edges) =>
          let n := length sts in
          let idx := map N.of_nat (seq 0 n) in
          let cl := combine idx sts in
          let cells := map (fun '(s, st) =>
              let es := odefault [] (assocN s edges) in
              (s, map (fun a => (a, cell_candidates g st es a)) (tidxs g))) cl in
          let conflicts := fold_left (fun acc '(_, row) =>
              fold_left (fun acc2 '(_, c) => if (1 <? length c)%nat then S acc2 else acc2) row acc) cells 0 in
          let actions := map (fun '(s, row) =>
              (s, flat_map (fun '(a, c) => match c with x :: _ => [(a, x)] | [] => [] end) row)) cells in
          let gotos := map (fun '(s, es) =>
              (s, flat_map (fun '(X, t) => match X with R r => [(r, t)] | T _ => [] end) es)) edges in
          Some {| c_dump := {| d_nstates := N.of_nat n; d_start := 0%N; d_closed := cl; d_core := [];
                               d_edges := edges; d_actions := actions; d_gotos := gotos |};
                  c_conflicts := conflicts |}
      end
  end.

(* ---- the certificate checker ------------------------------------------------------------ *)

(* the single-lookahead item [p, d, a] is in C *)
Definition tb_has (C : itemset) (p : N) (d : nat) (a : N) : bool :=
  existsb (fun i => N.eqb (it_p i) p && Nat.eqb (it_d i) d && memN a (it_la i)) C.

(* every single-lookahead item of K is in C *)
Definition tb_incl (K C : itemset) : bool :=
  forallb (fun i => forallb (fun a => tb_has C (it_p i) (it_d i) a) (it_la i)) K.

(* C is closed under the textbook closure step (an entry without lookahead demands nothing) *)
Definition tb_closed (g : grammar) (nl : list N) (fs : list pairN) (C : itemset) : bool :=
  forallb (fun i =>
    match nth_error (rhs g (it_p i)) (it_d i) with
    | Some (R r) =>
        if la_nonempty (it_la i) then
          let need := firstseq_la nl fs (skipn (S (it_d i)) (rhs g (it_p i))) (it_la i) in
          forallb (fun q => forallb (fun b => tb_has C q 0%nat b) need) (rule_to_prods g r)
        else true
    | _ => true
    end) C.

(* the entries of C with X after the dot, advanced *)
Definition tb_goto (g : grammar) (C : itemset) (X : sym) : itemset :=
  flat_map (fun i => match nth_error (rhs g (it_p i)) (it_d i) with
                     | Some Y => if sym_eqb X Y && la_nonempty (it_la i)
                                 then [(it_p i, S (it_d i), it_la i)] else []
                     | None => [] end) C.

(* some LIVE item of C has the token a after its dot *)
Definition tb_shifts (g : grammar) (C : itemset) (a : N) : bool :=
  existsb (fun i => la_nonempty (it_la i) &&
                    match nth_error (rhs g (it_p i)) (it_d i) with
                    | Some (T b) => N.eqb a b
                    | _ => false
                    end) C.

Definition tb_state_ok (g : grammar) (C : itemset) : bool :=
  forallb (fun a => ((if tb_shifts g C a then 1 else 0) + length (reducers g C a) <=? 1)%nat) (tidxs g).

Definition lr1_textbook_check (g : grammar) (A : automaton) : bool :=
  match first_ref g with
  | None => false
  | Some (nl, fs) =>
      wf_grammar g &&
      (start A <? nstates A)%N &&
      tb_has (closed A (start A)) (start_prod g) 0%nat (eof g) &&
      forallb (fun s =>
        tb_closed g nl fs (closed A s) && tb_state_ok g (closed A s) &&
        forallb (fun X =>
          match tb_goto g (closed A s) X with
          | [] => true
          | K' =>
              match edge A s X with
              | Some t => (t <? nstates A)%N && tb_incl K' (closed A t)
              | None => false
              end
          end) (all_syms g)) (states A)
  end.
