(* C02 — KNOWN FINDING, stated: an item with an EMPTY lookahead set costs a
   textbook-LR(1) grammar its determinism when a rule is unproductive.

       %start S  %%  S: B 'y' | 'x' A U ;  B: 'x' ;  A: 'y' ;  U: U 'u' ;

   tokens 'y'=0 'x'=1 'u'=2 $=3; rules ^=0 S=1 B=2 A=3 U=4 (the numbering of the
   implementation's dump).  U derives no token string and is not nullable, so for
   [S -> 'x' . A U, $] the context FIRST(U $) is empty.  The textbook closure adds
   no item for A; Itemset::close (and its mirror) adds [A -> . 'y', {}].  That item
   gets a goto edge and a Shift cell on 'y', which collides with the genuine
   reduce B -> 'x' on 'y'.  The language is {x y}.

   The witness is evaluated on the construction mirror end to end
   ([from_yacc_mirror] of C01/Pipeline.v = [pager_mirror] ; [table_mirror], list
   order oracles) — the check replays it on the implementation, which answers the
   same (9 states, 1 shift/reduce conflict, `x y` rejected at position 2). *)
From Coq Require Import List Arith NArith Bool Lia.
From GV Require Import Common.Outcome Base.Grammar Base.Analyses LR.Automaton LR.Validator LR.Canon LR.Spec
  C02.Model C02.Spec C02.PagerSpec C02.LoopModel C02.InducedModel C02.TextbookModel C02.TextbookSpec
  C03.Model C01.Pipeline.
Import ListNotations.

Definition phantom_g : grammar :=
  mkGrammar 4 5 [(1, [R 2; T 0]); (1, [T 1; R 3; R 4]); (2, [T 1]); (3, [T 0]); (4, [R 4; T 2]); (0, [R 1])]%N 5 3.

(* there is a grammar g and an input w such that
     * g is LR(1) in the textbook sense, certified by [lr1_textbook_check] on an
       automaton tA (8 states) that passes validS (so what it accepts is a
       sentence with that tree) and accepts w;
     * the mirror of lrtable::from_yacc builds MORE states (9), REPORTS a
       shift/reduce conflict, its table has a state with two candidate actions,
       and the parser it yields REJECTS w;
     * hence g is not LR(1) in the sense of [lr1_grammar] (the notion that follows
       the code's closure) and g is not productive. *)
Definition phantom_item_costs_determinism_refuted_stmt : Prop :=
  exists g w tA t b k st,
    wf_grammar g = true /\ lr1_textbook_grammar g /\
    lr1_textbook_check g tA = true /\ validS g tA = true /\ validE g tA = true /\
    tokens_in_range g w /\ no_eof g w /\
    run g tA 100 w = RAccept t /\ valid_tree g t /\ leaves_in_order t w /\
    from_yacc_mirror g (fun _ => None) (fun _ => None) 4294967295%N 100 [] [] = Done (Some b) /\
    reports_no_conflict b = false /\ length (tb_sr (b_table b)) = 1%nat /\
    single_candidate g (built_automaton b) = false /\
    (N.to_nat (nstates tA) < length (pg_states (b_graph b)))%nat /\
    run g (built_automaton b) 100 w = RReject k st /\
    ~ lr1_grammar g /\ ~ productive g.

(* so [productive] cannot be dropped from [lr1_notions_agree_productive] *)
Definition lr1_notions_differ_refuted_stmt : Prop :=
  exists g, wf_grammar g = true /\ lr1_textbook_grammar g /\ ~ lr1_grammar g.
