(* C02, stage 2 — two side statements of PagerSpec.v:
   [conflict_free_cell]        a closed state of a conflict-free kernel has at
                               most one candidate action per lookahead;
   [merge_needs_weak_compat]   without weak compatibility merging is unsafe:
                               the textbook LR(1)-not-LALR(1) grammar. *)
From Coq Require Import List Arith NArith Bool Lia.
From GV Require Import Common.Outcome Base.Grammar Base.Analyses Base.AnalysesProofs
  LR.Automaton LR.CloseMirror LR.CloseSpec C02.Model C02.Spec C02.PagerSpec.
Import ListNotations.

(* ---- list helpers ------------------------------------------------------------------ *)

Lemma nodup_fst_inj {A B : Type} (l : list (A * B)) (x y : A * B) :
  NoDup (map fst l) -> In x l -> In y l -> fst x = fst y -> x = y.
Proof.
  induction l as [|z l IH]; intros Hnd Hx Hy Hf.
  - destruct Hx.
  - simpl in Hnd. inversion Hnd as [|z' l' Hnotin Hnd']; subst.
    destruct Hx as [Hx|Hx]; destruct Hy as [Hy|Hy].
    + congruence.
    + subst z. exfalso. apply Hnotin. rewrite Hf. apply in_map. exact Hy.
    + subst z. exfalso. apply Hnotin. rewrite <- Hf. apply in_map. exact Hx.
    + apply IH; assumption.
Qed.

Lemma nodup_all_eq_length {A : Type} (l : list A) :
  NoDup l -> (forall x y, In x l -> In y l -> x = y) -> (length l <= 1)%nat.
Proof.
  intros Hnd Hall. destruct l as [|x [|y l]]; simpl; try lia.
  exfalso. inversion Hnd as [|x' l' Hn Hnd']; subst. apply Hn. left.
  apply Hall; simpl; auto.
Qed.

(* ---- 1. at most one candidate per lookahead ------------------------------------------ *)

Lemma conflict_free_cell : conflict_free_cell_stmt.
Proof.
  intros g S C a shift (Hmap & Hcore & Hla) Hnc Hshift.
  unfold cell_count.
  set (f := fun i : item => Nat.eqb (it_d i) (length (rhs g (it_p i))) && memN a (it_la i)).
  set (F := filter f C).
  assert (HF : forall i, In i F ->
            In i C /\ it_d i = length (rhs g (it_p i)) /\
            lr1_closure_rel g S (it_p i) (length (rhs g (it_p i))) a).
  { intros i Hi. apply filter_In in Hi. destruct Hi as [HiC Hfi]. unfold f in Hfi.
    apply andb_true_iff in Hfi. destruct Hfi as [Hd Hm].
    apply Nat.eqb_eq in Hd. apply memN_In in Hm.
    split; [exact HiC|]. split; [exact Hd|].
    rewrite <- Hd. apply Hla. destruct i as [[p d] la]. exists la. split; [exact HiC | exact Hm]. }
  assert (HNF : NoDup F).
  { apply NoDup_filter. apply (NoDup_map_inv fst). exact Hmap. }
  assert (Heq : forall i1 i2, In i1 F -> In i2 F -> i1 = i2).
  { intros i1 i2 H1 H2.
    destruct (HF i1 H1) as (HC1 & Hd1 & Hl1). destruct (HF i2 H2) as (HC2 & Hd2 & Hl2).
    destruct (N.eq_dec (it_p i1) (it_p i2)) as [Hp|Hp].
    - apply (nodup_fst_inj C i1 i2 Hmap HC1 HC2).
      destruct i1 as [[p1 d1] la1]. destruct i2 as [[p2 d2] la2].
      unfold it_p, it_d in *. simpl in *. subst p2. rewrite Hd1, Hd2. reflexivity.
    - exfalso. apply Hnc. right. exists a, (it_p i1), (it_p i2).
      split; [exact Hp|]. split; assumption. }
  destruct shift.
  - assert (HE : F = []).
    { destruct F as [|i' F'] eqn:EF; [reflexivity|]. exfalso.
      destruct (Hshift eq_refl) as (i & HiC & Hnth).
      destruct (HF i' (or_introl eq_refl)) as (_ & _ & Hl').
      apply Hnc. left. exists a, (it_p i), (it_d i), (it_p i').
      split; [|split; assumption].
      apply Hcore. destruct i as [[p d] la]. exists la. exact HiC. }
    rewrite HE. simpl. lia.
  - simpl. apply nodup_all_eq_length; assumption.
Qed.

(* ---- 2. the LR(1)-not-LALR(1) witness ------------------------------------------------

   tokens 0=a 1=b 2=c 3=d 4=e 5=end of input; rules 0=S 1=A 2=B 3=^
   S: a A d | b B d | a B e | b A e;  A: c;  B: c;  ^: S *)

Definition g0 : grammar :=
  mkGrammar 6 4
    [ (0, [T 0; R 1; T 3]); (0, [T 1; R 2; T 3]); (0, [T 0; R 2; T 4]); (0, [T 1; R 1; T 4]);
      (1, [T 2]); (2, [T 2]); (3, [R 0]) ]%N
    6 5.

(* the kernel {A -> c . {x},  B -> c . {y}} *)
Definition Kxy (x y : N) : itemset := [(4%N, 1%nat, [x]); (5%N, 1%nat, [y])].

Definition inv_xy (x y : N) (S : itemset) : Prop :=
  (forall p d, has_core S (p, d) -> (p, d) = (4%N, 1%nat) \/ (p, d) = (5%N, 1%nat)) /\
  (forall p d a, has_la S (p, d) a ->
     (p, d, a) = (4%N, 1%nat, x) \/ (p, d, a) = (5%N, 1%nat, y)).

Lemma inv_xy_base x y : inv_xy x y (Kxy x y).
Proof.
  split.
  - intros p d (la & Hin). simpl in Hin.
    destruct Hin as [E|[E|[]]]; inversion E; subst; auto.
  - intros p d a (la & Hin & Ha). simpl in Hin.
    destruct Hin as [E|[E|[]]]; inversion E; subst; destruct Ha as [Ha|[]]; subst; auto.
Qed.

Lemma no_sym_after x : forall p d, (p, d) = (4%N, 1%nat) \/ (p, d) = (5%N, 1%nat) ->
  nth_error (rhs g0 p) d = Some x -> False.
Proof.
  intros p d [E|E] Hnth; inversion E; subst; vm_compute in Hnth; discriminate.
Qed.

Lemma inv_xy_lr0 x y S p d : inv_xy x y S -> lr0_closure_rel g0 S p d ->
  (p, d) = (4%N, 1%nat) \/ (p, d) = (5%N, 1%nat).
Proof.
  intros [Hc _] H. induction H as [p d la Hin | p d r q Hrel IH Hnth Hq Hl].
  - apply Hc. exists la. exact Hin.
  - exfalso. exact (no_sym_after _ _ _ IH Hnth).
Qed.

Lemma inv_xy_lr1 x y S p d a : inv_xy x y S -> lr1_closure_rel g0 S p d a ->
  (p, d, a) = (4%N, 1%nat, x) \/ (p, d, a) = (5%N, 1%nat, y).
Proof.
  intros Hinv H.
  induction H as [p d la a Hin Ha | p d r q b Hrel Hnth Hq Hl Hd
                 | p d a r q Hrel IH Hnth Hq Hl Hd].
  - destruct Hinv as [_ Hl]. apply Hl. exists la. split; assumption.
  - exfalso. exact (no_sym_after _ _ _ (inv_xy_lr0 _ _ _ _ _ Hinv Hrel) Hnth).
  - exfalso. apply (no_sym_after (R r) p d); [|exact Hnth].
    destruct IH as [E|E]; inversion E; subst; auto.
Qed.

Lemma inv_xy_goto x y S0 X S1 : inv_xy x y S0 -> is_goto g0 S0 X S1 -> inv_xy x y S1.
Proof.
  intros Hinv [Hgc Hgl]. split.
  - intros p d' Hc. apply Hgc in Hc. destruct Hc as (d & _ & Hrel & Hnth).
    exfalso. exact (no_sym_after _ _ _ (inv_xy_lr0 _ _ _ _ _ Hinv Hrel) Hnth).
  - intros p d' a Hl. apply Hgl in Hl. destruct Hl as (d & _ & Hrel & Hnth).
    exfalso. apply (no_sym_after X p d); [|exact Hnth].
    destruct (inv_xy_lr1 _ _ _ _ _ _ Hinv Hrel) as [E|E]; inversion E; subst; auto.
Qed.

Lemma inv_xy_after x y alpha S : after g0 (Kxy x y) alpha S -> inv_xy x y S.
Proof.
  intros H. induction H as [|alpha S0 X S1 Haft IH Hgoto].
  - apply inv_xy_base.
  - exact (inv_xy_goto _ _ _ _ _ IH Hgoto).
Qed.

Lemma inv_xy_no_conflict x y S : x <> y -> inv_xy x y S -> ~ state_conflict g0 S.
Proof.
  intros Hxy Hinv [(a & p & d & q & Hrel & Hnth & _) | (a & q1 & q2 & Hq & H1 & H2)].
  - exact (no_sym_after _ _ _ (inv_xy_lr0 _ _ _ _ _ Hinv Hrel) Hnth).
  - destruct (inv_xy_lr1 _ _ _ _ _ _ Hinv H1) as [E1|E1];
    destruct (inv_xy_lr1 _ _ _ _ _ _ Hinv H2) as [E2|E2];
    inversion E1; inversion E2; subst; congruence.
Qed.

Lemma Kxy_tree_conflict_free x y : x <> y -> tree_conflict_free g0 (Kxy x y).
Proof.
  intros Hxy alpha S Haft. apply (inv_xy_no_conflict x y); [exact Hxy|].
  exact (inv_xy_after _ _ _ _ Haft).
Qed.

Definition K12 : itemset := [(4%N, 1%nat, [3; 4]%N); (5%N, 1%nat, [3; 4]%N)].

Ltac pick_la :=
  eexists; split; [ first [ left; reflexivity | right; left; reflexivity ] | solve [simpl; auto 6] ].
Ltac pick_core :=
  eexists; first [ left; reflexivity | right; left; reflexivity ].

Lemma merge_needs_weak_compat : merge_needs_weak_compat_stmt.
Proof.
  exists g0, (Kxy 3 4), (Kxy 4 3), K12.
  split; [vm_compute; reflexivity|].
  split; [vm_compute; reflexivity|].
  split; [vm_compute; reflexivity|].
  split.
  { intros [p d]. unfold has_core. simpl.
    split; intros (la & [E|[E|[]]]); inversion E; subst; pick_core. }
  split.
  { split.
    - intros [p d]. unfold has_core. simpl.
      split; intros (la & [E|[E|[]]]); inversion E; subst; pick_core.
    - intros [p d] a. unfold has_la. simpl. split.
      + intros (la & [E|[E|[]]] & Ha); inversion E; subst; simpl in Ha;
          destruct Ha as [Ha|[Ha|[]]]; subst;
          first [ left; pick_la | right; pick_la ].
      + intros [(la & [E|[E|[]]] & Ha) | (la & [E|[E|[]]] & Ha)]; inversion E; subst;
          simpl in Ha; destruct Ha as [Ha|[]]; subst; pick_la. }
  split; [apply Kxy_tree_conflict_free; discriminate|].
  split; [apply Kxy_tree_conflict_free; discriminate|].
  split.
  { intros [_ Hw].
    assert (Hi : has_core (Kxy 3 4) (4%N, 1%nat)) by (exists [3%N]; simpl; auto).
    assert (Hj : has_core (Kxy 3 4) (5%N, 1%nat)) by (exists [4%N]; simpl; auto).
    assert (Hne : (4%N, 1%nat) <> (5%N, 1%nat)) by discriminate.
    destruct (Hw _ _ Hi Hj Hne) as [[Hn1 _] | [Hm | Hm]].
    - apply Hn1. exists 3%N. split.
      + exists [3%N]. simpl. auto.
      + exists [3%N]. simpl. auto.
    - destruct Hm as (a & (la1 & Hin1 & Ha1) & (la2 & Hin2 & Ha2)). simpl in Hin1, Hin2.
      destruct Hin1 as [E1|[E1|[]]]; inversion E1; subst;
      destruct Hin2 as [E2|[E2|[]]]; inversion E2; subst.
      destruct Ha1 as [Ha1|[]]; destruct Ha2 as [Ha2|[]]; subst; discriminate.
    - destruct Hm as (a & (la1 & Hin1 & Ha1) & (la2 & Hin2 & Ha2)). simpl in Hin1, Hin2.
      destruct Hin1 as [E1|[E1|[]]]; inversion E1; subst;
      destruct Hin2 as [E2|[E2|[]]]; inversion E2; subst.
      destruct Ha1 as [Ha1|[]]; destruct Ha2 as [Ha2|[]]; subst; discriminate. }
  right. exists 3%N, 4%N, 5%N. split; [discriminate|].
  split; apply c1_base with (la := [3; 4]%N); simpl; auto.
Qed.
