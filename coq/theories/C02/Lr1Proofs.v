(* C02 — soundness of the LR(1) certificate checker [lr1_check] (Lr1Model.v):
   an accepted automaton is, state by state, the canonical LR(1) continuation of
   the start kernel, and no state of it has a conflict. *)
From Coq Require Import List Arith NArith Bool Lia.
From GV Require Import Common.Outcome Base.Grammar Base.GrammarFacts Base.Analyses Base.AnalysesProofs
  LR.Automaton LR.Validator LR.CloseMirror LR.CloseSpec LR.CloseProofs
  C02.Model C02.Spec C02.PagerSpec C02.PagerProofsBridge C02.PagerProofsMain
  C02.Lr1Model C02.Lr1Spec.
Import ListNotations.

(* ---- enumerations (local copies of LR/Sound.v) ------------------------------------- *)

Lemma l1_In_N_seq (n x : N) : In x (map N.of_nat (seq 0 (N.to_nat n))) <-> (x < n)%N.
Proof.
  rewrite in_map_iff. split.
  - intros (k & Hk & Hin). apply in_seq in Hin. lia.
  - intros Hlt. exists (N.to_nat x). split; [apply N2Nat.id|]. apply in_seq. lia.
Qed.

Lemma l1_In_states A s : In s (states A) <-> (s < nstates A)%N.
Proof. apply l1_In_N_seq. Qed.
Lemma l1_In_tidxs g a : In a (tidxs g) <-> (a < ntoks g)%N.
Proof. apply l1_In_N_seq. Qed.
Lemma l1_In_ridxs g r : In r (ridxs g) <-> (r < nrules g)%N.
Proof. apply l1_In_N_seq. Qed.

Lemma l1_In_all_syms g X : sym_in_range g X = true -> In X (all_syms g).
Proof.
  unfold all_syms. intros H. apply in_or_app. destruct X as [a|r]; cbn [sym_in_range] in H.
  - left. apply in_map. apply l1_In_tidxs. apply N.ltb_lt. exact H.
  - right. apply in_map. apply l1_In_ridxs. apply N.ltb_lt. exact H.
Qed.

Lemma l1_two_in {T : Type} (x y : T) (l : list T) : In x l -> In y l -> x <> y -> 2 <= length l.
Proof.
  intros Hx Hy Hne. destruct l as [|z [|w l]]; simpl in *.
  - contradiction.
  - destruct Hx as [Hx|[]]. destruct Hy as [Hy|[]]. congruence.
  - lia.
Qed.

(* ---- the certificate, unpacked ------------------------------------------------------ *)

Definition l1_cert (g : grammar) (nl : list N) (fs : list pairN) (A : automaton) : Prop :=
  forall s, (s < nstates A)%N ->
    items_ok g (closed A s) = true /\ state_ok g (closed A s) = true /\
    forall X, In X (all_syms g) ->
      match goto_mirror g (closed A s) X with
      | Done [] => true
      | Done K' =>
          match edge A s X with
          | Some t => (t <? nstates A)%N && closes_to g nl fs K' (closed A t)
          | None => false
          end
      | _ => false
      end = true.

Lemma l1_unpack g A : lr1_check g A = true ->
  exists nl fs, nullable_exact g nl /\ first_exact g fs /\ wf_grammar g = true /\
    (start A < nstates A)%N /\
    closes_to g nl fs (start_kernel_m g) (closed A (start A)) = true /\
    l1_cert g nl fs A.
Proof.
  unfold lr1_check. intros H. destruct (first_ref g) as [[nl fs]|] eqn:Hf; [|discriminate H].
  apply andb_true_iff in H. destruct H as [H H4].
  apply andb_true_iff in H. destruct H as [H H3].
  apply andb_true_iff in H. destruct H as [H1 H2].
  destruct (first_ref_exact' g nl fs Hf) as [Hnl Hfs].
  exists nl, fs. split; [exact Hnl|]. split; [exact Hfs|]. split; [exact H1|].
  split; [apply N.ltb_lt; exact H2|]. split; [exact H3|].
  rewrite forallb_forall in H4. intros s Hs.
  specialize (H4 s (proj2 (l1_In_states A s) Hs)).
  apply andb_true_iff in H4. destruct H4 as [H4 H4c].
  apply andb_true_iff in H4. destruct H4 as [H4a H4b].
  split; [exact H4a|]. split; [exact H4b|].
  rewrite forallb_forall in H4c. exact H4c.
Qed.

(* ---- itemset_eqb, closes_to ------------------------------------------------------------ *)

Lemma l1_itemset_incl_sound (A B : itemset) : itemset_incl A B = true ->
  (forall p d, has_core A (p, d) -> has_core B (p, d)) /\
  (forall p d a, has_la A (p, d) a -> has_la B (p, d) a).
Proof.
  unfold itemset_incl. intros H. rewrite forallb_forall in H. split.
  - intros p d Hc. destruct (proj1 (has_core_pd A p d) Hc) as [la Hin].
    specialize (H _ Hin). unfold it_p, it_d, it_la in H. simpl in H.
    destruct (lookup p d B) as [la'|] eqn:E; [|discriminate H].
    apply lookup_In in E. exact (has_core_intro B p d la' E).
  - intros p d a Hl. destruct (proj1 (has_la_pd A p d a) Hl) as [la [Hin Ha]].
    specialize (H _ Hin). unfold it_p, it_d, it_la in H. simpl in H.
    destruct (lookup p d B) as [la'|] eqn:E; [|discriminate H].
    apply lookup_In in E. apply subsetN_incl in H.
    exact (has_la_intro B p d la' a E (H a Ha)).
Qed.

Lemma l1_closes_to_sound g nl fs (K C : itemset) :
  wf_grammar g = true -> nullable_exact g nl -> first_exact g fs -> items_ok g K = true ->
  closes_to g nl fs K C = true ->
  (forall p d, has_core C (p, d) <-> lr0_closure_rel g K p d) /\
  (forall p d a, has_la C (p, d) a <-> lr1_closure_rel g K p d a).
Proof.
  intros Hwf Hnl Hfs HK Hc.
  assert (Hpre : close_pre g nl fs (keys_of K) K).
  { unfold close_pre. split; [exact Hwf|]. split; [exact Hnl|]. split; [exact Hfs|].
    split; [exact HK|]. intros k. split; intros Hk; exact Hk. }
  unfold closes_to in Hc.
  destruct (close_mirror g nl fs (keys_of K) K (close_fuel g (keys_of K))) as [C'| |] eqn:HC';
    [|discriminate Hc|discriminate Hc].
  unfold itemset_eqb in Hc. apply andb_true_iff in Hc. destruct Hc as [H12 H21].
  destruct (l1_itemset_incl_sound _ _ H12) as [Hc12 Hl12].
  destruct (l1_itemset_incl_sound _ _ H21) as [Hc21 Hl21].
  pose proof (close_mirror_sound g nl fs (keys_of K) K _ C' Hpre HC') as Hs.
  pose proof (close_mirror_complete g nl fs (keys_of K) K _ C' Hpre HC') as [Hc0 Hc1].
  split.
  - intros p d. split.
    + intros H. apply Hc21 in H. destruct (proj1 (has_core_pd C' p d) H) as [la Hin].
      exact (proj1 (Hs p d la Hin)).
    + intros H. apply Hc12. destruct (Hc0 p d H) as [la Hin]. exact (has_core_intro C' p d la Hin).
  - intros p d a. split.
    + intros H. apply Hl21 in H. destruct (proj1 (has_la_pd C' p d a) H) as [la [Hin Ha]].
      exact (proj2 (Hs p d la Hin) a Ha).
    + intros H. apply Hl12. destruct (Hc1 p d a H) as [la [Hin Ha]].
      exact (has_la_intro C' p d la a Hin Ha).
Qed.

(* ---- a kernel without items ------------------------------------------------------------ *)

Lemma l1_no_core_lr0 g (K : itemset) : (forall k, ~ has_core K k) ->
  forall p d, ~ lr0_closure_rel g K p d.
Proof.
  intros Hno p d H. induction H as [p d la Hin | p d r q Hpar IH Hnth Hq Hlq].
  - exact (Hno (p, d) (has_core_intro K p d la Hin)).
  - exact IH.
Qed.

Lemma l1_no_core_no_conflict g (K : itemset) : (forall k, ~ has_core K k) -> ~ state_conflict g K.
Proof.
  intros Hno [(a & p & d & q & H0 & _ & _) | (a & q1 & q2 & _ & H1 & _)].
  - exact (l1_no_core_lr0 g K Hno p d H0).
  - exact (l1_no_core_lr0 g K Hno _ _ (lr1_lr0 g K _ _ _ H1)).
Qed.

(* ---- one goto step ------------------------------------------------------------------------ *)

Lemma l1_goto_step g nl fs A (K0 K1 : itemset) X s :
  wf_grammar g = true -> nullable_exact g nl -> first_exact g fs -> l1_cert g nl fs A ->
  (s < nstates A)%N -> closed_repr g K0 (closed A s) -> is_goto g K0 X K1 ->
  (forall k, ~ has_core K1 k) \/
  (exists t, (t < nstates A)%N /\ closed_repr g K1 (closed A t)).
Proof.
  intros Hwf Hnl Hfs Hall Hs (Hmap & HC0 & HC1) [Hg0 Hg1].
  destruct (Hall s Hs) as (HCok & _ & Hsym).
  destruct (goto_mirror_spec g (closed A s) X HCok) as (G & HG & HGnd & HGspec).
  destruct (proj1 (items_ok_spec g (closed A s)) HCok) as [_ HCr].
  assert (HGc : forall p d', has_core G (p, d') <-> has_core K1 (p, d')).
  { intros p d'. split.
    - intros H. destruct (proj1 (has_core_pd G p d') H) as [la Hin].
      apply HGspec in Hin. destruct Hin as (d & Hd & HinC & Hn).
      apply (proj2 (Hg0 p d')). exists d. split; [exact Hd|]. split; [|exact Hn].
      apply (proj1 (HC0 p d)). exact (has_core_intro (closed A s) p d la HinC).
    - intros H. destruct (proj1 (Hg0 p d') H) as (d & Hd & Hcl & Hn).
      apply (proj2 (HC0 p d)) in Hcl.
      destruct (proj1 (has_core_pd (closed A s) p d) Hcl) as [la HinC].
      apply (has_core_intro G p d' la). apply HGspec. exists d.
      split; [exact Hd|]. split; [exact HinC|exact Hn]. }
  assert (HGl : forall p d' a, has_la G (p, d') a <-> has_la K1 (p, d') a).
  { intros p d' a. split.
    - intros H. destruct (proj1 (has_la_pd G p d' a) H) as [la [Hin Ha]].
      apply HGspec in Hin. destruct Hin as (d & Hd & HinC & Hn).
      apply (proj2 (Hg1 p d' a)). exists d. split; [exact Hd|]. split; [|exact Hn].
      apply (proj1 (HC1 p d a)). exact (has_la_intro (closed A s) p d la a HinC Ha).
    - intros H. destruct (proj1 (Hg1 p d' a) H) as (d & Hd & Hcl & Hn).
      apply (proj2 (HC1 p d a)) in Hcl.
      destruct (proj1 (has_la_pd (closed A s) p d a) Hcl) as [la [HinC Ha]].
      apply (has_la_intro G p d' la a); [|exact Ha]. apply HGspec. exists d.
      split; [exact Hd|]. split; [exact HinC|exact Hn]. }
  assert (HGok : items_ok g G = true).
  { apply items_ok_spec. split; [exact HGnd|].
    intros p d' la Hin. apply HGspec in Hin. destruct Hin as (d & Hd & HinC & Hn).
    destruct (HCr p d la HinC) as (Hp & _ & Hla).
    split; [exact Hp|]. split; [|exact Hla].
    assert (Hlt : d < length (rhs g p)).
    { apply nth_error_Some. rewrite Hn. discriminate. }
    subst d'. lia. }
  destruct G as [|i G'].
  - left. intros [p d'] H. apply (proj2 (HGc p d')) in H.
    destruct (proj1 (has_core_pd [] p d') H) as [la []].
  - right. destruct i as [[p d'] la].
    destruct (proj1 (HGspec p d' la) (or_introl eq_refl)) as (d & Hd & HinC & Hn).
    assert (HX : In X (all_syms g)).
    { apply l1_In_all_syms. apply (wf_rhs_range g p X Hwf).
      - exact (proj1 (HCr p d la HinC)).
      - exact (nth_error_In _ _ Hn). }
    specialize (Hsym X HX). rewrite HG in Hsym.
    destruct (edge A s X) as [t|] eqn:He; [|discriminate Hsym].
    apply andb_true_iff in Hsym. destruct Hsym as [Ht Hcl]. apply N.ltb_lt in Ht.
    exists t. split; [exact Ht|].
    destruct (l1_closes_to_sound g nl fs _ _ Hwf Hnl Hfs HGok Hcl) as [Hr0 Hr1].
    destruct (Hall t Ht) as (Htok & _ & _).
    split; [exact (items_ok_is_map g _ Htok)|]. split.
    + intros q e. split; intros H.
      * apply (proj1 (Hr0 q e)) in H. revert q e H. apply lr0_closure_mono.
        intros q e Hc. apply (proj1 (HGc q e)). exact Hc.
      * apply (proj2 (Hr0 q e)). revert q e H. apply lr0_closure_mono.
        intros q e Hc. apply (proj2 (HGc q e)). exact Hc.
    + intros q e a. split; intros H.
      * apply (proj1 (Hr1 q e a)) in H. revert q e a H. apply lr1_closure_mono.
        -- intros q e Hc. apply (proj1 (HGc q e)). exact Hc.
        -- intros q e a Hc. apply (proj1 (HGl q e a)). exact Hc.
      * apply (proj2 (Hr1 q e a)). revert q e a H. apply lr1_closure_mono.
        -- intros q e Hc. apply (proj2 (HGc q e)). exact Hc.
        -- intros q e a Hc. apply (proj2 (HGl q e a)). exact Hc.
Qed.

(* ---- a represented state whose cells have at most one candidate ------------------------- *)

Lemma l1_repr_no_conflict g (K C : itemset) :
  closed_repr g K C -> items_ok g C = true -> state_ok g C = true -> ~ state_conflict g K.
Proof.
  intros (Hmap & HC0 & HC1) Hok Hst Hconf.
  destruct (proj1 (items_ok_spec g C) Hok) as [_ Hr].
  unfold state_ok in Hst. rewrite forallb_forall in Hst.
  destruct Hconf as [(a & p & d & q & H0 & Hn & H1) | (a & q1 & q2 & Hne & H1 & H2)].
  - apply (proj2 (HC0 p d)) in H0. destruct (proj1 (has_core_pd C p d) H0) as [la Hin].
    apply (proj2 (HC1 _ _ _)) in H1.
    destruct (proj1 (has_la_pd C _ _ _) H1) as [la' [Hin' Ha]].
    assert (Hat : In a (tidxs g)).
    { apply l1_In_tidxs. exact (proj2 (proj2 (Hr _ _ _ Hin')) a Ha). }
    specialize (Hst a Hat). apply Nat.leb_le in Hst.
    assert (Hsh : shifts g C a = true).
    { unfold shifts. apply existsb_exists. exists (p, d, la). split; [exact Hin|].
      unfold it_p, it_d. simpl. rewrite Hn. apply N.eqb_refl. }
    assert (Hred : In (q, length (rhs g q), la') (reducers g C a)).
    { unfold reducers. apply filter_In. split; [exact Hin'|].
      unfold it_p, it_d, it_la. simpl. rewrite Nat.eqb_refl. simpl.
      apply memN_In. exact Ha. }
    rewrite Hsh in Hst. destruct (reducers g C a) as [|x l]; [destruct Hred|].
    simpl in Hst. lia.
  - apply (proj2 (HC1 _ _ _)) in H1. apply (proj2 (HC1 _ _ _)) in H2.
    destruct (proj1 (has_la_pd C _ _ _) H1) as [la1 [Hin1 Ha1]].
    destruct (proj1 (has_la_pd C _ _ _) H2) as [la2 [Hin2 Ha2]].
    assert (Hat : In a (tidxs g)).
    { apply l1_In_tidxs. exact (proj2 (proj2 (Hr _ _ _ Hin1)) a Ha1). }
    specialize (Hst a Hat). apply Nat.leb_le in Hst.
    assert (Hred1 : In (q1, length (rhs g q1), la1) (reducers g C a)).
    { unfold reducers. apply filter_In. split; [exact Hin1|].
      unfold it_p, it_d, it_la. simpl. rewrite Nat.eqb_refl. simpl.
      apply memN_In. exact Ha1. }
    assert (Hred2 : In (q2, length (rhs g q2), la2) (reducers g C a)).
    { unfold reducers. apply filter_In. split; [exact Hin2|].
      unfold it_p, it_d, it_la. simpl. rewrite Nat.eqb_refl. simpl.
      apply memN_In. exact Ha2. }
    assert (Hdiff : (q1, length (rhs g q1), la1) <> (q2, length (rhs g q2), la2)).
    { intros E. apply Hne. injection E as E1 _ _. exact E1. }
    assert (Hlen : 2 <= length (reducers g C a)) by exact (l1_two_in _ _ _ Hred1 Hred2 Hdiff).
    destruct (shifts g C a); lia.
Qed.

(* ---- the statements ------------------------------------------------------------------------ *)

Lemma lr1_check_states : lr1_check_states_stmt.
Proof.
  intros g A Hchk alpha K Haft.
  destruct (l1_unpack g A Hchk) as (nl & fs & Hnl & Hfs & Hwf & Hst & Hcl0 & Hall).
  induction Haft as [|alpha K0 X K1 Haft IH Hgo].
  - right. exists (start A). split; [exact Hst|].
    change (start_kernel_m g) with (start_kernel g) in Hcl0.
    destruct (l1_closes_to_sound g nl fs _ _ Hwf Hnl Hfs (start_kernel_items_ok g Hwf) Hcl0)
      as [H0 H1].
    split; [exact (items_ok_is_map g _ (proj1 (Hall _ Hst)))|]. split; [exact H0|exact H1].
  - destruct IH as [Hno | (s & Hs & Hrep)].
    + left. intros [p d'] Hc. destruct (proj1 (proj1 Hgo p d') Hc) as (d & _ & Hcl & _).
      exact (l1_no_core_lr0 g K0 Hno p d Hcl).
    + exact (l1_goto_step g nl fs A K0 K1 X s Hwf Hnl Hfs Hall Hs Hrep Hgo).
Qed.

Lemma lr1_check_sound : lr1_check_sound_stmt.
Proof.
  intros g A Hchk.
  destruct (l1_unpack g A Hchk) as (nl & fs & Hnl & Hfs & Hwf & Hst & Hcl0 & Hall).
  split; [exact Hwf|].
  intros alpha K Haft.
  destruct (lr1_check_states g A Hchk alpha K Haft) as [Hno | (s & Hs & Hrep)].
  - exact (l1_no_core_no_conflict g K Hno).
  - destruct (Hall s Hs) as (Hok & Hsok & _).
    exact (l1_repr_no_conflict g K (closed A s) Hrep Hok Hsok).
Qed.

Lemma lr1_check_pager_safe : lr1_check_pager_safe_stmt.
Proof.
  intros g A Hchk K HK.
  destruct (lr1_check_sound g A Hchk) as [Hwf Hlr1].
  exact (pager_reachable_conflict_free g Hwf Hlr1 K HK).
Qed.
