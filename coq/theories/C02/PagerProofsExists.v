(* C02, stage 2 — every path of a well-formed kernel can be materialised:
   [after_exists].  The witnesses are the mirrors of Itemset::close and
   Itemset::goto, through their C01 theorems (LR/CloseProofs.v). *)
From Coq Require Import List Arith NArith Bool Lia.
From GV Require Import Common.Outcome Base.Grammar Base.Analyses Base.AnalysesProofs
  LR.Automaton LR.CloseMirror LR.CloseSpec LR.CloseProofs C02.Model C02.Spec C02.PagerSpec.
Import ListNotations.

(* exact FIRST / nullable tables exist for a well-formed grammar *)
Lemma exact_tables_exist g : wf_grammar g = true ->
  exists nl fs, nullable_exact g nl /\ first_exact g fs.
Proof.
  intros Hwf. destruct (first_ref g) as [[nl fs]|] eqn:Hf.
  - exists nl, fs. exact (first_ref_exact' g nl fs Hf).
  - exfalso. exact (first_ref_total g Hwf Hf).
Qed.

(* a well-formed kernel has a closed representative: a map in range holding
   exactly its declarative closure *)
Lemma closure_exists g K : wf_grammar g = true -> items_ok g K = true ->
  exists C, items_ok g C = true /\
    (forall p d, (exists la, In (p, d, la) C) <-> lr0_closure_rel g K p d) /\
    (forall p d a, (exists la, In (p, d, la) C /\ In a la) <-> lr1_closure_rel g K p d a).
Proof.
  intros Hwf HK.
  destruct (exact_tables_exist g Hwf) as (nl & fs & Hnl & Hfs).
  assert (Hpre : close_pre g nl fs (keys_of K) K).
  { unfold close_pre. split; [exact Hwf|]. split; [exact Hnl|]. split; [exact Hfs|].
    split; [exact HK|]. intros k. split; intros Hk; exact Hk. }
  destruct (close_mirror_terminates g nl fs (keys_of K) K (close_fuel g (keys_of K)) Hpre (le_n _))
    as [C HC].
  exists C.
  pose proof (close_mirror_sound g nl fs (keys_of K) K _ C Hpre HC) as Hs.
  pose proof (close_mirror_complete g nl fs (keys_of K) K _ C Hpre HC) as [Hc0 Hc1].
  split; [exact (close_mirror_result_ok g nl fs (keys_of K) K _ C Hpre HC)|].
  split.
  - intros p d. split.
    + intros [la Hin]. exact (proj1 (Hs p d la Hin)).
    + exact (Hc0 p d).
  - intros p d a. split.
    + intros [la [Hin Ha]]. exact (proj2 (Hs p d la Hin) a Ha).
    + exact (Hc1 p d a).
Qed.

(* one step: goto(closure(K), X) exists and is again a well-formed kernel *)
Lemma goto_exists g K : wf_grammar g = true -> items_ok g K = true ->
  forall X, exists K', is_goto g K X K' /\ items_ok g K' = true.
Proof.
  intros Hwf HK X.
  destruct (closure_exists g K Hwf HK) as (C & HCok & HC0 & HC1).
  destruct (goto_mirror_spec g C X HCok) as (G & _ & HGnd & HG).
  exists G. split.
  - unfold is_goto, has_core, has_la. split.
    + intros p d'. simpl. split.
      * intros [la Hin]. apply HG in Hin. destruct Hin as (d & Hd & HinC & Hn).
        exists d. split; [exact Hd|]. split; [|exact Hn].
        apply HC0. exists la. exact HinC.
      * intros (d & Hd & Hcl & Hn). apply HC0 in Hcl. destruct Hcl as [la HinC].
        exists la. apply HG. exists d. repeat split; assumption.
    + intros p d' a. simpl. split.
      * intros [la [Hin Ha]]. apply HG in Hin. destruct Hin as (d & Hd & HinC & Hn).
        exists d. split; [exact Hd|]. split; [|exact Hn].
        apply HC1. exists la. split; assumption.
      * intros (d & Hd & Hcl & Hn). apply HC1 in Hcl. destruct Hcl as [la [HinC Ha]].
        exists la. split; [|exact Ha]. apply HG. exists d. repeat split; assumption.
  - apply items_ok_spec. split; [exact HGnd|].
    intros p d' la Hin. apply HG in Hin. destruct Hin as (d & Hd & HinC & Hn).
    destruct (proj1 (items_ok_spec g C) HCok) as [_ HCr].
    destruct (HCr p d la HinC) as (Hp & _ & Hla).
    split; [exact Hp|]. split; [|exact Hla].
    assert (Hlt : d < length (rhs g p)).
    { apply nth_error_Some. rewrite Hn. discriminate. }
    subst d'. lia.
Qed.

Lemma after_exists : after_exists_stmt.
Proof.
  intros g K alpha Hwf HK.
  induction alpha as [|X alpha IH] using rev_ind.
  - exists K. split; [apply after_nil | exact HK].
  - destruct IH as (S0 & Haft & HS0).
    destruct (goto_exists g S0 Hwf HS0 X) as (S1 & Hgo & HS1).
    exists S1. split; [|exact HS1].
    exact (after_snoc g K alpha S0 X S1 Haft Hgo).
Qed.
