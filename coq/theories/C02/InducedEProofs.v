(* C02 — the automaton induced by a Pager graph passes validE.

   Part 1: COMPLETENESS of the executable LR(0) closure of LR/Validator.v
   ([lr0_closure]): every item derivable by the closure rules from the kernel is
   in the list it returns (the converse of Prefix.lr0_closure_sound).  The
   round function adds only items (q, 0); a round that adds nothing new leaves a
   closed set, a round that adds something lowers the number of productions q
   whose item (q, 0) is missing, so after |prods| + 1 rounds the set is closed.
   Part 2: the closed states of the graph hold exactly the declarative closure
   of their cores (graph_facts), whose kernel items are the items [kernel_of]
   reads off the closed state. *)
From Coq Require Import List Arith NArith Bool Lia.
From GV Require Import Common.Outcome Base.Grammar Base.GrammarFacts Base.Analyses LR.Automaton
  LR.Validator LR.CloseMirror LR.CloseSpec C02.Model C02.Spec C02.PagerSpec C02.Lr1Model
  C02.LoopModel C02.LoopSpec C02.InducedModel C02.InducedSpec.
Import ListNotations.

(* ---- membership ------------------------------------------------------------------- *)

Lemma iE_mem0_In x l : mem0 x l = true <-> In x l.
Proof.
  unfold mem0. rewrite existsb_exists. split.
  - intros (y & Hy & He). apply andb_true_iff in He. destruct He as [H1 H2].
    apply N.eqb_eq in H1. apply Nat.eqb_eq in H2.
    destruct x as [x1 x2], y as [y1 y2]. simpl in *. subst. exact Hy.
  - intros Hin. exists x. split; [exact Hin|].
    rewrite N.eqb_refl, Nat.eqb_refl. reflexivity.
Qed.

Lemma iE_mem0_false x l : mem0 x l = false <-> ~ In x l.
Proof.
  rewrite <- iE_mem0_In. destruct (mem0 x l); split; intros H; try reflexivity; try discriminate H.
  - exfalso. apply H. reflexivity.
  - intros H'. discriminate H'.
Qed.

(* ---- the declarative LR(0) closure over item0 ---------------------------------------- *)

Inductive clos0 (g : grammar) (K : list item0) : item0 -> Prop :=
| cl0_base i : In i K -> clos0 g K i
| cl0_step p d r q : clos0 g K (p, d) -> nth_error (rhs g p) d = Some (R r) ->
    is_prod g q -> lhs g q = r -> clos0 g K (q, 0%nat).

Section Closure0.
Variable g : grammar.

(* the test of lr0_step *)
Definition iE_wants (l : list item0) (q : N) : bool :=
  existsb (fun pd : item0 => match nth_error (rhs g (fst pd)) (snd pd) with
                     | Some (R r) => N.eqb r (lhs g q)
                     | _ => false end) l.

Definition iE_stepf (l : list item0) (q : N) (acc : list item0) : list item0 :=
  if mem0 (q, 0%nat) acc then acc
  else if iE_wants l q then (q, 0%nat) :: acc else acc.

Lemma iE_lr0_step_eq l : lr0_step g l = fold_right (iE_stepf l) l (pidxs g).
Proof. reflexivity. Qed.

Lemma iE_wants_true l q :
  iE_wants l q = true <->
  exists p d, In (p, d) l /\ nth_error (rhs g p) d = Some (R (lhs g q)).
Proof.
  unfold iE_wants. rewrite existsb_exists. split.
  - intros ([p d] & Hin & Hm). simpl in Hm.
    destruct (nth_error (rhs g p) d) as [[t|r]|] eqn:Hn; try discriminate Hm.
    apply N.eqb_eq in Hm. subst r. exists p, d. split; [exact Hin|exact Hn].
  - intros (p & d & Hin & Hn). exists (p, d). split; [exact Hin|]. simpl.
    rewrite Hn. apply N.eqb_refl.
Qed.

Lemma iE_stepf_incl l q acc x : In x acc -> In x (iE_stepf l q acc).
Proof.
  intros Hx. unfold iE_stepf. destruct (mem0 (q, 0%nat) acc); [exact Hx|].
  destruct (iE_wants l q); [right; exact Hx|exact Hx].
Qed.

Lemma iE_fold_incl l qs x : In x l -> In x (fold_right (iE_stepf l) l qs).
Proof.
  intros Hx. induction qs as [|q qs IH]; [exact Hx|].
  cbn [fold_right]. apply iE_stepf_incl. exact IH.
Qed.

(* (a) *)
Lemma iE_step_incl l x : In x l -> In x (lr0_step g l).
Proof. rewrite iE_lr0_step_eq. apply iE_fold_incl. Qed.

Lemma iE_fold_complete l qs q :
  In q qs -> iE_wants l q = true -> In (q, 0%nat) (fold_right (iE_stepf l) l qs).
Proof.
  intros Hq Hw. induction qs as [|q' qs IH]; [destruct Hq|].
  cbn [fold_right]. destruct Hq as [Hq|Hq].
  - subst q'. set (acc := fold_right (iE_stepf l) l qs). unfold iE_stepf.
    destruct (mem0 (q, 0%nat) acc) eqn:Hm.
    + apply iE_mem0_In. exact Hm.
    + rewrite Hw. left. reflexivity.
  - apply iE_stepf_incl. apply IH. exact Hq.
Qed.

(* (b) *)
Lemma iE_step_complete l p d q :
  In (p, d) l -> nth_error (rhs g p) d = Some (R (lhs g q)) -> is_prod g q ->
  In (q, 0%nat) (lr0_step g l).
Proof.
  intros Hin Hn Hq. rewrite iE_lr0_step_eq. apply iE_fold_complete.
  - apply In_pidxs. exact Hq.
  - apply iE_wants_true. exists p, d. split; [exact Hin|exact Hn].
Qed.

Lemma iE_fold_new l qs x :
  In x (fold_right (iE_stepf l) l qs) ->
  In x l \/ exists q, x = (q, 0%nat) /\ In q qs /\ iE_wants l q = true.
Proof.
  induction qs as [|q qs IH]; intros Hx; [left; exact Hx|].
  cbn [fold_right] in Hx. set (acc := fold_right (iE_stepf l) l qs) in *. unfold iE_stepf in Hx.
  assert (Hrec : In x acc ->
                 In x l \/ exists q0, x = (q0, 0%nat) /\ In q0 (q :: qs) /\ iE_wants l q0 = true).
  { intros Hx'. destruct (IH Hx') as [Hl|(q0 & He & Hq0 & Hw)]; [left; exact Hl|].
    right. exists q0. split; [exact He|]. split; [right; exact Hq0|exact Hw]. }
  destruct (mem0 (q, 0%nat) acc); [apply Hrec; exact Hx|].
  destruct (iE_wants l q) eqn:Hw; [|apply Hrec; exact Hx].
  destruct Hx as [Hx|Hx]; [|apply Hrec; exact Hx].
  right. exists q. split; [symmetry; exact Hx|]. split; [left; reflexivity|exact Hw].
Qed.

(* (c) *)
Lemma iE_step_new l x :
  In x (lr0_step g l) ->
  In x l \/ exists q p d, x = (q, 0%nat) /\ is_prod g q /\ In (p, d) l /\
                          nth_error (rhs g p) d = Some (R (lhs g q)).
Proof.
  rewrite iE_lr0_step_eq. intros Hx. destruct (iE_fold_new _ _ _ Hx) as [Hl|(q & He & Hq & Hw)].
  - left. exact Hl.
  - right. apply iE_wants_true in Hw. destruct Hw as (p & d & Hin & Hn).
    exists q, p, d. split; [exact He|]. split; [apply In_pidxs; exact Hq|].
    split; [exact Hin|exact Hn].
Qed.

(* ---- closed sets ------------------------------------------------------------------ *)

Definition iE_closed (l : list item0) : Prop :=
  forall p d q, In (p, d) l -> nth_error (rhs g p) d = Some (R (lhs g q)) -> is_prod g q ->
    In (q, 0%nat) l.

Lemma iE_closed_step_back l : iE_closed l -> forall x, In x (lr0_step g l) -> In x l.
Proof.
  intros Hc x Hx. destruct (iE_step_new _ _ Hx) as [Hl|(q & p & d & He & Hq & Hin & Hn)].
  - exact Hl.
  - subst x. eapply Hc; [exact Hin|exact Hn|exact Hq].
Qed.

Lemma iE_closed_step l : iE_closed l -> iE_closed (lr0_step g l).
Proof.
  intros Hc p d q Hin Hn Hq. apply iE_step_incl.
  eapply Hc; [|exact Hn|exact Hq]. apply iE_closed_step_back; [exact Hc|exact Hin].
Qed.

Lemma iE_closed_iter n : forall l, iE_closed l -> iE_closed (iter n (lr0_step g) l).
Proof.
  induction n as [|n IH]; intros l Hc; simpl; [exact Hc|].
  apply IH. apply iE_closed_step. exact Hc.
Qed.

(* (d) a stable round leaves a closed set *)
Lemma iE_stable_closed l : (forall x, In x (lr0_step g l) -> In x l) -> iE_closed l.
Proof.
  intros Hs p d q Hin Hn Hq. apply Hs. eapply iE_step_complete; [exact Hin|exact Hn|exact Hq].
Qed.

Lemma iE_iter_incl n : forall l x, In x l -> In x (iter n (lr0_step g) l).
Proof.
  induction n as [|n IH]; intros l x Hx; simpl; [exact Hx|].
  apply IH. apply iE_step_incl. exact Hx.
Qed.

(* ---- (e) counting ------------------------------------------------------------------- *)

Definition iE_miss (l : list item0) : nat :=
  length (filter (fun q => negb (mem0 (q, 0%nat) l)) (pidxs g)).

Lemma iE_filter_lt {X} (f1 f2 : X -> bool) (l : list X) q :
  (forall x, f2 x = true -> f1 x = true) -> In q l -> f1 q = true -> f2 q = false ->
  length (filter f2 l) < length (filter f1 l).
Proof.
  intros Himp.
  assert (Hle : forall l', length (filter f2 l') <= length (filter f1 l')).
  { induction l' as [|x l' IH]; simpl; [lia|].
    destruct (f2 x) eqn:E2.
    - rewrite (Himp _ E2). simpl. lia.
    - destruct (f1 x); simpl; lia. }
  induction l as [|x l IH]; intros Hin H1 H2; [destruct Hin|].
  simpl. destruct Hin as [Hin|Hin].
  - subst x. rewrite H1, H2. simpl. pose proof (Hle l). lia.
  - specialize (IH Hin H1 H2). destruct (f2 x) eqn:E2.
    + rewrite (Himp _ E2). simpl. lia.
    + destruct (f1 x); simpl; lia.
Qed.

Lemma iE_miss_bound l : iE_miss l <= length (prods g).
Proof.
  unfold iE_miss.
  assert (H : forall (f : N -> bool) qs, length (filter f qs) <= length qs).
  { intros f qs. induction qs as [|x qs IH]; simpl; [lia|]. destruct (f x); simpl; lia. }
  specialize (H (fun q => negb (mem0 (q, 0%nat) l)) (pidxs g)).
  assert (Hl : length (pidxs g) = length (prods g)).
  { unfold pidxs. rewrite map_length, seq_length. reflexivity. }
  lia.
Qed.

Lemma iE_step_progress l :
  (forall x, In x (lr0_step g l) -> In x l) \/ iE_miss (lr0_step g l) < iE_miss l.
Proof.
  destruct (forallb (fun x => mem0 x l) (lr0_step g l)) eqn:E.
  - left. intros x Hx. apply iE_mem0_In.
    exact (proj1 (forallb_forall _ _) E x Hx).
  - right.
    assert (Hex : exists x, In x (lr0_step g l) /\ mem0 x l = false).
    { clear -E. induction (lr0_step g l) as [|y ys IH]; [discriminate E|].
      simpl in E. destruct (mem0 y l) eqn:Ey.
      - simpl in E. destruct (IH E) as (x & Hx & Hm). exists x. split; [right; exact Hx|exact Hm].
      - exists y. split; [left; reflexivity|exact Ey]. }
    destruct Hex as (x & Hx & Hm).
    destruct (iE_step_new _ _ Hx) as [Hl|(q & p & d & He & Hq & Hin & Hn)].
    + apply iE_mem0_false in Hm. exfalso. apply Hm. exact Hl.
    + subst x. unfold iE_miss. apply iE_filter_lt with (q := q).
      * intros q' H2. apply negb_true_iff in H2. apply negb_true_iff.
        apply iE_mem0_false. apply iE_mem0_false in H2. intros Hq'. apply H2.
        apply iE_step_incl. exact Hq'.
      * apply In_pidxs. exact Hq.
      * rewrite Hm. reflexivity.
      * apply negb_false_iff. apply iE_mem0_In. exact Hx.
Qed.

Lemma iE_iter_progress n : forall l,
  iE_closed (iter n (lr0_step g) l) \/ iE_miss (iter n (lr0_step g) l) + n <= iE_miss l.
Proof.
  induction n as [|n IH]; intros l; [right; simpl; lia|].
  cbn [iter]. destruct (iE_step_progress l) as [Hs|Hlt].
  - left. apply iE_closed_iter. apply iE_closed_step. apply iE_stable_closed. exact Hs.
  - destruct (IH (lr0_step g l)) as [Hc|Hle]; [left; exact Hc|]. right. lia.
Qed.

Lemma iE_lr0_closure_closed K : iE_closed (lr0_closure g K).
Proof.
  unfold lr0_closure. destruct (iE_iter_progress (S (length (prods g))) K) as [Hc|Hle]; [exact Hc|].
  pose proof (iE_miss_bound K). lia.
Qed.

Lemma iE_lr0_closure_complete_In K i : clos0 g K i -> In i (lr0_closure g K).
Proof.
  intros Hc. induction Hc as [i Hi|p d r q Hc IH Hn Hq Hl].
  - unfold lr0_closure. apply iE_iter_incl. exact Hi.
  - subst r. eapply iE_lr0_closure_closed; [exact IH|exact Hn|exact Hq].
Qed.

Lemma lr0_closure_complete K i : clos0 g K i -> mem0 i (lr0_closure g K) = true.
Proof. intros Hc. apply iE_mem0_In. apply iE_lr0_closure_complete_In. exact Hc. Qed.

End Closure0.

(* ---- the graph ------------------------------------------------------------------- *)

Lemma iE_rel_clos0 g core KK :
  (forall k, has_core core k -> In k KK) ->
  forall p d, lr0_closure_rel g core p d -> clos0 g KK (p, d).
Proof.
  intros HK p d Hc. induction Hc as [p d la Hin|p d r q Hc IH Hn Hq Hl].
  - apply cl0_base. apply (HK (p, d)). exists la. exact Hin.
  - eapply cl0_step; [exact IH|exact Hn|exact Hq|exact Hl].
Qed.

(* (4) the states of the induced automaton are the positions of the graph *)
Lemma iE_state g pg s :
  In s (states (induced g pg)) ->
  exists core cl, nth_error (pg_states pg) (N.to_nat s) = Some (core, cl) /\
                  closed (induced g pg) s = cl.
Proof.
  unfold states. cbn [induced nstates closed]. intros Hs.
  apply in_map_iff in Hs. destruct Hs as (k & Hk & Hin). apply in_seq in Hin.
  rewrite Nat2N.id in Hin. subst s. unfold st_closed. rewrite Nat2N.id.
  destruct (nth_error (pg_states pg) k) as [[core cl]|] eqn:E.
  - exists core, cl. split; reflexivity.
  - apply nth_error_None in E. lia.
Qed.

(* a core item with its dot past a symbol is an item of the closed state *)
Lemma iE_core_in_closed g pg s core cl k :
  graph_facts g pg -> nth_error (pg_states pg) s = Some (core, cl) -> has_core core k ->
  exists la, In (fst k, snd k, la) cl.
Proof.
  intros GF Hs Hk. destruct (gf_reach g pg GF s core cl Hs) as (_ & (_ & Hc0 & _) & _).
  destruct Hk as (la & Hin).
  assert (Hr : lr0_closure_rel g core (fst k) (snd k)) by (eapply c0_base; exact Hin).
  apply Hc0 in Hr. destruct Hr as (la' & Hin'). exists la'. exact Hin'.
Qed.

(* (2) the kernel read off the closed state contains the core *)
Lemma iE_kernel_in g pg s core cl k :
  graph_facts g pg -> nth_error (pg_states pg) (N.to_nat s) = Some (core, cl) ->
  closed (induced g pg) s = cl ->
  has_core core k -> In k (kernel_of g (induced g pg) s).
Proof.
  intros GF Hs Hcl Hk. unfold kernel_of. rewrite Hcl. cbn [induced start].
  destruct (N.eqb s 0) eqn:E0.
  - apply N.eqb_eq in E0. subst s. change (N.to_nat 0) with 0%nat in Hs.
    destruct (gf_start g pg GF) as (cl0 & H0). rewrite H0 in Hs. injection Hs as Hcore _.
    subst core. destruct Hk as (la & Hin). unfold start_kernel in Hin.
    destruct Hin as [Hin|[]]. injection Hin as H1 H2 _.
    apply in_or_app. left. left. destruct k as [k1 k2]. simpl in H1, H2. subst. reflexivity.
  - apply N.eqb_neq in E0. assert (H1 : (1 <= N.to_nat s)%nat) by lia.
    pose proof (gf_kernel g pg GF _ _ _ k Hs H1 Hk) as Hd.
    destruct (iE_core_in_closed g pg _ _ _ k GF Hs Hk) as (la & Hin).
    apply in_or_app. right. apply in_map_iff. exists (fst k, snd k, la). split.
    + destruct k as [k1 k2]. reflexivity.
    + apply filter_In. split; [exact Hin|]. unfold it_d. simpl.
      destruct (snd k) as [|n]; [lia|reflexivity].
Qed.

Lemma iE_vE1 g pg : graph_facts g pg -> vE1 g (induced g pg) = true.
Proof.
  intros GF. unfold vE1. apply forallb_forall. intros s Hs.
  destruct (iE_state g pg s Hs) as (core & cl & Hnth & Hcl).
  apply forallb_forall. intros i Hi. rewrite Hcl in Hi.
  destruct (Nat.eqb (it_d i) 0) eqn:Ed; [|reflexivity]. simpl.
  apply Nat.eqb_eq in Ed.
  apply lr0_closure_complete.
  destruct (gf_reach g pg GF _ core cl Hnth) as (_ & (_ & Hc0 & _) & _).
  apply (iE_rel_clos0 g core).
  - intros k Hk. eapply iE_kernel_in; [exact GF|exact Hnth|exact Hcl|exact Hk].
  - apply Hc0. destruct i as [[p d] la]. unfold it_d in Ed. simpl in Ed. subst d.
    exists la. exact Hi.
Qed.

Lemma iE_vE2 g pg : graph_facts g pg -> vE2 (induced g pg) = true.
Proof.
  intros GF. unfold vE2. apply forallb_forall. intros s Hs.
  destruct (iE_state g pg s Hs) as (core & cl & Hnth & Hcl).
  rewrite Hcl. cbn [induced start].
  destruct (N.eqb s 0) eqn:E0; [reflexivity|]. simpl.
  apply N.eqb_neq in E0. assert (H1 : (1 <= N.to_nat s)%nat) by lia.
  destruct (gf_nonempty g pg GF _ _ _ Hnth) as (k & Hk).
  pose proof (gf_kernel g pg GF _ _ _ k Hnth H1 Hk) as Hd.
  destruct (iE_core_in_closed g pg _ _ _ k GF Hnth Hk) as (la & Hin).
  apply existsb_exists. exists (fst k, snd k, la). split; [exact Hin|].
  unfold it_d. simpl. destruct (snd k) as [|n]; [lia|reflexivity].
Qed.

Lemma induced_validE : induced_validE_stmt.
Proof.
  intros g pg GF. unfold validE. rewrite (iE_vE1 g pg GF), (iE_vE2 g pg GF). reflexivity.
Qed.
