(* C02 — statements about the mirror of pager_stategraph (LoopModel.v).
   Proved in LoopProofs.v.

   Partial correctness: whenever the mirror returns a graph — for ANY oracle of
   hash orders, any fuel, any StorageT bound — every core state of the graph is
   a Pager-reachable kernel (PagerSpec.pager_reachable: obtained from the start
   kernel by goto of the closure and by merging weakly compatible kernels) and
   every closed state holds exactly the LR(1) closure of its core state.  With
   Pager's theorem (pager_reachable_conflict_free): for an LR(1) grammar no
   state of the graph has a conflict.
   Not stated here: termination / absence of panics of the loop (the
   correspondence run observes that the mirror returns Done on every generated
   grammar, replaying the implementation's own trace, and that its graph is
   identical to the implementation's), and the consistency of the final edges
   (certified per grammar by validS/validC/validE). *)
From Coq Require Import List Arith NArith Bool Lia.
From GV Require Import Common.Outcome Base.Grammar Base.Analyses Base.AnalysesProofs LR.Automaton
  LR.Validator LR.CloseMirror LR.CloseSpec C02.Model C02.Spec C02.PagerSpec C02.Lr1Model C02.LoopModel.
Import ListNotations.

(* well-formed grammar, exact FIRST / nullable tables (C17 ties YaccFirsts to first_ref, proved exact) *)
Definition loop_pre (g : grammar) (nl : list N) (fs : list pairN) : Prop :=
  wf_grammar g = true /\ nullable_exact g nl /\ first_exact g fs.

Definition pager_mirror_reachable_stmt : Prop :=
  forall g nl fs max_st fuel orders pg, loop_pre g nl fs ->
    pager_mirror g nl fs max_st fuel orders = Done pg ->
    forall core closed, In (core, closed) (pg_states pg) ->
      pager_reachable g core /\ closed_repr g core closed.

(* no conflict in any state of the graph of an LR(1) grammar, also in the
   validators' reading (at most one candidate per cell) *)
Definition pager_mirror_conflict_free_stmt : Prop :=
  forall g nl fs max_st fuel orders pg, loop_pre g nl fs -> lr1_grammar g ->
    pager_mirror g nl fs max_st fuel orders = Done pg ->
    forall core closed, In (core, closed) (pg_states pg) ->
      ~ state_conflict g core /\
      forall a shift,
        (shift = true -> exists i, In i closed /\ nth_error (rhs g (it_p i)) (it_d i) = Some (T a)) ->
        (cell_count g closed a shift <= 1)%nat.

(* the same from what the correspondence run evaluates per grammar: the tables
   are first_ref's, the premise is the accepted certificate *)
Definition pager_mirror_certified_stmt : Prop :=
  forall g A nl fs max_st fuel orders pg,
    first_ref g = Some (nl, fs) -> lr1_check g A = true ->
    pager_mirror g nl fs max_st fuel orders = Done pg ->
    forall core closed, In (core, closed) (pg_states pg) ->
      pager_reachable g core /\ closed_repr g core closed /\ ~ state_conflict g core /\
      forall a shift,
        (shift = true -> exists i, In i closed /\ nth_error (rhs g (it_p i)) (it_d i) = Some (T a)) ->
        (cell_count g closed a shift <= 1)%nat.

(* ---- the graph is closed under goto, up to inclusion of contexts ------------------------

   G ⊑ K: the same cores, every lookahead of G present in K.  In the returned
   graph: state 0 is the start kernel; every state s with a non-empty
   goto(closure(core s), X) has an edge on X, to a state whose core includes
   that goto ([pager_mirror_edges_complete]); and every edge is of this kind
   ([pager_mirror_edges_sound]).  This is the fixed point the work list of
   pager_stategraph exists for; it holds for any oracle of hash orders. *)
Definition sub_kernel (G K : itemset) : Prop :=
  same_cores G K /\ forall k a, has_la G k a -> has_la K k a.

Definition pager_mirror_edges_complete_stmt : Prop :=
  forall g nl fs max_st fuel orders pg, loop_pre g nl fs ->
    pager_mirror g nl fs max_st fuel orders = Done pg ->
    length (pg_edges pg) = length (pg_states pg) /\
    (exists closed0, nth_error (pg_states pg) 0 = Some (start_kernel g, closed0)) /\
    forall s core closed es X G,
      nth_error (pg_states pg) s = Some (core, closed) -> nth_error (pg_edges pg) s = Some es ->
      is_goto g core X G -> (exists k, has_core G k) ->
      exists t core_t closed_t,
        assoc_sym X es = Some t /\ nth_error (pg_states pg) t = Some (core_t, closed_t) /\
        sub_kernel G core_t.

Definition pager_mirror_edges_sound_stmt : Prop :=
  forall g nl fs max_st fuel orders pg, loop_pre g nl fs ->
    pager_mirror g nl fs max_st fuel orders = Done pg ->
    forall s core closed es X t,
      nth_error (pg_states pg) s = Some (core, closed) -> nth_error (pg_edges pg) s = Some es ->
      assoc_sym X es = Some t ->
      exists G core_t closed_t,
        is_goto g core X G /\ (exists k, has_core G k) /\
        nth_error (pg_states pg) t = Some (core_t, closed_t) /\ sub_kernel G core_t.

(* ---- the panic sites of pager_stategraph are unreachable ------------------------------------

   Every indexing / unwrap / usize subtraction mirrored as [Panic] in LoopModel.v
   (closed_states.iter().position(..).unwrap(), core_states[..], edges[..],
   cnd_*_weaklies[..], closed_states[k], the look-ups inside close / goto /
   weakly_compatible / weakly_merge, `todo -= 1`, Option::unwrap of the closed
   states, offsets[..] in gc) is unreachable, for any oracle and any fuel; the
   only panics left are the deliberate StorageT size checks, excluded here by
   the bound on [max_st]: a run of at most [fuel] iterations creates at most
   1 + fuel * |symbols| states.  (What may still happen is OutOfFuel: termination
   of the loop is not proved.) *)
Definition pager_mirror_never_panics_stmt : Prop :=
  forall g nl fs max_st fuel orders, loop_pre g nl fs ->
    (N.of_nat (S (S (fuel * length (all_syms g)))) < max_st)%N ->
    pager_mirror g nl fs max_st fuel orders <> Panic.

(* ---- termination ------------------------------------------------------------------------------

   For every oracle of hash orders and every StorageT bound the loop of
   pager_stategraph terminates: some fuel suffices.  (Why: a new state is created
   only for a kernel that is not included in any candidate — a kernel included in
   a candidate is weakly compatible with it — candidates only grow, so every
   (symbol, kernel) pair triggers at most one creation, and there are finitely
   many kernels; between creations every re-queueing strictly enlarges a context;
   otherwise the number of unprocessed states drops.)  With
   pager_mirror_never_panics: unless a StorageT size check fires, the
   construction returns a graph. *)
Definition pager_mirror_terminates_stmt : Prop :=
  forall g nl fs max_st orders, loop_pre g nl fs ->
    exists fuel, pager_mirror g nl fs max_st fuel orders <> OutOfFuel.

Definition pager_mirror_total_stmt : Prop :=
  forall g nl fs max_st orders, loop_pre g nl fs ->
    exists fuel,
      (exists pg, pager_mirror g nl fs max_st fuel orders = Done pg) \/
      (pager_mirror g nl fs max_st fuel orders = Panic /\
       (max_st <= N.of_nat (S (S (fuel * length (all_syms g)))))%N).

(* a kernel included in another (same cores, smaller contexts) is weakly compatible with it *)
Definition sub_kernel_weakly_compatible_stmt : Prop :=
  forall K G, sub_kernel G K -> weakly_compatible_spec K G.
