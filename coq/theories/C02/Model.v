(* C02 — MIRROR of lrtable/src/lib/pager.rs: Itemset::weakly_compatible (28-88),
   Itemset::weakly_merge (92-100) and vob_intersect (104-113).  Executable
   definitions only.

   Representation as in LR/CloseMirror.v: an itemset (HashMap<(PIdx, SIdx), Ctx>)
   is an association list of [item]s (production, dot, lookahead SET as a list
   of token indices); `self.items[&k]` is [lookup] and panics ([Panic]) on a
   missing key.  The mirror follows the Rust control flow:

   * `let len = self.items.len(); if len != other.items.len() { return false }`;
   * `for &(pidx, dot) in self.items.keys() { if !other.items.contains_key(..) { return false } }`
     — the iteration order of `self.items.keys()` (a hash-map order) is the
     explicit list parameter [keys]; the map is not modified between the two
     traversals, so the later `let keys: Vec<_> = self.items.keys().collect()`
     is the same list;
   * `if len == 1 { return true }`;
   * `for (i, i_key) in keys.iter().enumerate().take(len - 1)`
       `for j_key in keys.iter().take(len).skip(i + 1)`
     with condition 1 (`||` is lazy: the second pair of look-ups happens only
     when the first intersection is empty), then conditions 2 and 3 (lazy
     likewise), `continue` / `return false`;
   * `len - 1` is `usize` arithmetic: for an EMPTY self (len = 0, reachable only
     when other is empty too) it overflows — a panic with overflow checks on
     (debug/test profile), a wrap to usize::MAX otherwise (then the loop body
     never runs and the answer is true).  The mirror says [Panic]; the theorems
     are about non-empty self (pager_stategraph only ever passes a goto of a
     closed state on a symbol that occurs after a dot, and core states, none of
     which is empty).

   [weakly_merge_mirror]: `for (&(pidx, dot), ctx) in &mut self.items
   { if ctx.or(&other.items[&(pidx, dot)]) { changed = true } }`; the traversal
   order of self.items is the order of the list; Vob::or is [ctx_or] of
   CloseMirror.v (the new set, and whether a bit changed). *)
From Coq Require Import List Arith NArith Bool Lia.
From GV Require Import Common.Outcome Base.Grammar Base.Analyses LR.Automaton LR.CloseMirror.
Import ListNotations.

Definition key := (N * nat)%type.

(* vob_intersect: do two contexts share a token? *)
Definition ctx_intersect (a b : list N) : bool := existsb (fun x => memN x b) a.

(* self.items[&k] *)
Definition get (s : itemset) (k : key) : outcome (list N) :=
  match lookup (fst k) (snd k) s with Some c => Done c | None => Panic end.

(* other.items.contains_key(&k) *)
Definition has_key (s : itemset) (k : key) : bool :=
  match lookup (fst k) (snd k) s with Some _ => true | None => false end.

(* body of the inner loop for (i_key, j_key): [true] = continue, [false] = return false *)
Definition pair_step (self other : itemset) (i j : key) : outcome bool :=
  (* Condition 1 in the Pager paper *)
  do si <- get self i;
  do oj <- get other j;
  do c1 <- (if ctx_intersect si oj then Done true
            else do sj <- get self j;
                 do oi <- get other i;
                 Done (ctx_intersect sj oi));
  if negb c1 then Done true else
  (* Conditions 2 and 3 in the Pager paper *)
  do si' <- get self i;
  do sj' <- get self j;
  if ctx_intersect si' sj' then Done true else
  do oi' <- get other i;
  do oj' <- get other j;
  Done (ctx_intersect oi' oj').

(* for j_key in <js> { .. } *)
Fixpoint inner_loop (self other : itemset) (i : key) (js : list key) : outcome bool :=
  match js with
  | [] => Done true
  | j :: js' =>
      do b <- pair_step self other i j;
      if b then inner_loop self other i js' else Done false
  end.

(* for (i, i_key) in <is>.enumerate-from-i { for j_key in keys.take(len).skip(i + 1) { .. } } *)
Fixpoint outer_loop (self other : itemset) (len : nat) (keys : list key) (i : nat) (is : list key)
  : outcome bool :=
  match is with
  | [] => Done true
  | ik :: is' =>
      do b <- inner_loop self other ik (skipn (S i) (firstn len keys));
      if b then outer_loop self other len keys (S i) is' else Done false
  end.

(* Itemset::weakly_compatible; [keys] = the order in which self.items.keys() yields the keys *)
Definition weakly_compatible_mirror (keys : list key) (self other : itemset) : outcome bool :=
  let len := length self in
  if negb (Nat.eqb len (length other)) then Done false else
  if negb (forallb (has_key other) keys) then Done false else
  if Nat.eqb len 1 then Done true else
  if Nat.eqb len 0 then Panic else                      (* len - 1 on usize *)
  outer_loop self other len keys 0 (firstn (len - 1) keys).

(* Itemset::weakly_merge: (self afterwards, changed) *)
Fixpoint weakly_merge_mirror (self other : itemset) : outcome (itemset * bool) :=
  match self with
  | [] => Done ([], false)
  | i :: s' =>
      do oc <- get other (it_p i, it_d i);
      do r <- weakly_merge_mirror s' other;
      let (c', ch) := ctx_or (it_la i) oc in
      Done ((it_p i, it_d i, c') :: fst r, ch || snd r)
  end.
