(* C02, last clause — "The minimised automaton never has more states than the canonical one."

   The canonical LR(1) collection is taken DECLARATIVELY: a canonical state is the kernel
   [after g (start_kernel g) alpha S] reached along a viable path alpha (PagerSpec.v); two paths
   denote the same canonical state when their kernels have the same items with the same contexts
   ([canon_same]).  "The graph has at most as many states as the canonical collection" is stated as
   an injection: one viable path per state of the graph, pairwise denoting DIFFERENT canonical
   states ([pager_states_le_canonical_stmt]).

   STATUS.  The full statement is NOT proved, and it is FALSE for grammars with unproductive rules
   (counterexample at the end of this file and in notes/ext-c02count-design.md); no counterexample
   without unproductive rules is known (random and hill-climbing searches found none).  What
   is proved for every grammar, oracle, fuel and StorageT bound (CountProofs.v):
     [live_state_covers_canonical]   the state reached in the graph along alpha contains (same cores,
                                     contexts by inclusion) the canonical state of alpha;
     [pager_run_complete]            the graph is deterministic and complete on viable paths: every
                                     viable path has a run, ending in a state that covers its
                                     canonical state — so every LR(0) state is the core of a state
                                     of the graph (#LR(0) states <= #states);
     [state_has_viable_path]         after gc every state is the end of the run of a viable path;
     [pager_states_le_canonical_partial]  the full conclusion UNDER the named condition
                                     [path_function]: paths denoting the same canonical state end
                                     in the same state of the graph;
     [distinct_cores_path_function]  that condition holds whenever no two states of the graph have
                                     the same cores (executable test [distinct_coresb]), hence
     [pager_states_le_canonical_distinct_cores]  the clause, unconditionally, for every graph
                                     without split cores.
   THE MISSING STEP is exactly [path_function] for graphs WITH split cores (several states with one
   core, the LR(1)-not-LALR(1) case): two paths alpha, beta with canon_same alpha beta may, as far as
   the proved invariants go, end in two different states with the same core — e.g. when the run of
   beta reaches a predecessor that carries contexts merged in from a third path, so that its goto is
   not equal to, and is matched against the candidates before, the state the run of alpha ends in.
   Both states then cover the one canonical state, and the count argument needs a different
   canonical state for one of them (Hall's condition), for which no invariant of the loop is
   known.  checks/C02.py evaluates [path_function] (product of the canonical automaton with the
   graph) and the count per generated grammar. *)
From Coq Require Import List Arith NArith Bool Lia.
From GV Require Import Common.Outcome Base.Grammar Base.Analyses LR.Automaton LR.CloseMirror
  LR.CloseSpec C02.Model C02.Spec C02.PagerSpec C02.LoopModel C02.LoopSpec.
Import ListNotations.

(* ---- the canonical collection, declaratively -------------------------------------------- *)

(* alpha is a viable path: its canonical state has an item *)
Definition viable (g : grammar) (alpha : list sym) : Prop :=
  exists S, after g (start_kernel g) alpha S /\ exists k, has_core S k.

(* alpha and beta denote the same canonical state *)
Definition kernel_equiv (S T : itemset) : Prop :=
  (forall k, has_core S k <-> has_core T k) /\ (forall k a, has_la S k a <-> has_la T k a).
Definition canon_same (g : grammar) (alpha beta : list sym) : Prop :=
  forall S T, after g (start_kernel g) alpha S -> after g (start_kernel g) beta T -> kernel_equiv S T.

(* n distinct canonical states exist *)
Definition canonical_has (g : grammar) (n : nat) : Prop :=
  exists paths : list (list sym), length paths = n /\
    (forall alpha, In alpha paths -> viable g alpha) /\
    (forall i j alpha beta, nth_error paths i = Some alpha -> nth_error paths j = Some beta ->
       canon_same g alpha beta -> i = j).

(* ---- the clause at full strength (NOT proved, see above) ---------------------------------- *)
Definition pager_states_le_canonical_stmt : Prop :=
  forall g nl fs max_st fuel orders pg, loop_pre g nl fs ->
    pager_mirror g nl fs max_st fuel orders = Done pg ->
    canonical_has g (length (pg_states pg)).

(* ---- runs of the graph ---------------------------------------------------------------------- *)
Inductive pg_run (pg : pgraph) : list sym -> nat -> Prop :=
| run_nil : pg_run pg [] 0
| run_snoc alpha s es X t :
    pg_run pg alpha s -> nth_error (pg_edges pg) s = Some es -> assoc_sym X es = Some t ->
    pg_run pg (alpha ++ [X]) t.

Definition live_state_covers_canonical_stmt : Prop :=
  forall g nl fs max_st fuel orders pg, loop_pre g nl fs ->
    pager_mirror g nl fs max_st fuel orders = Done pg ->
    forall alpha s, pg_run pg alpha s ->
    forall S core closed, after g (start_kernel g) alpha S ->
      nth_error (pg_states pg) s = Some (core, closed) -> sub_kernel S core.

Definition pager_run_complete_stmt : Prop :=
  forall g nl fs max_st fuel orders pg, loop_pre g nl fs ->
    pager_mirror g nl fs max_st fuel orders = Done pg ->
    forall alpha S, after g (start_kernel g) alpha S -> (exists k, has_core S k) ->
      exists s core closed, pg_run pg alpha s /\
        nth_error (pg_states pg) s = Some (core, closed) /\ sub_kernel S core.

Definition pg_run_deterministic_stmt : Prop :=
  forall pg alpha s t, pg_run pg alpha s -> pg_run pg alpha t -> s = t.

Definition state_has_viable_path_stmt : Prop :=
  forall g nl fs max_st fuel orders pg, loop_pre g nl fs ->
    pager_mirror g nl fs max_st fuel orders = Done pg ->
    forall j, (j < length (pg_states pg))%nat ->
      exists alpha, pg_run pg alpha j /\ viable g alpha.

(* ---- the named condition and the partial theorem ------------------------------------------- *)
Definition path_function (g : grammar) (pg : pgraph) : Prop :=
  forall alpha beta s t, pg_run pg alpha s -> pg_run pg beta t -> canon_same g alpha beta -> s = t.

Definition pager_states_le_canonical_partial_stmt : Prop :=
  forall g nl fs max_st fuel orders pg, loop_pre g nl fs ->
    pager_mirror g nl fs max_st fuel orders = Done pg ->
    path_function g pg ->
    canonical_has g (length (pg_states pg)).

(* no two states with the same cores: executable *)
Definition keys_sub (K1 K2 : itemset) : bool :=
  forallb (fun i => existsb (fun j => key_eqb (it_p i) (it_d i) j) K2) K1.
Definition same_coresb (K1 K2 : itemset) : bool := keys_sub K1 K2 && keys_sub K2 K1.
Fixpoint all_distinct (l : list itemset) : bool :=
  match l with
  | [] => true
  | x :: r => forallb (fun y => negb (same_coresb x y)) r && all_distinct r
  end.
Definition distinct_coresb (pg : pgraph) : bool := all_distinct (map fst (pg_states pg)).

Definition distinct_cores_path_function_stmt : Prop :=
  forall g nl fs max_st fuel orders pg, loop_pre g nl fs ->
    pager_mirror g nl fs max_st fuel orders = Done pg ->
    distinct_coresb pg = true -> path_function g pg.

Definition pager_states_le_canonical_distinct_cores_stmt : Prop :=
  forall g nl fs max_st fuel orders pg, loop_pre g nl fs ->
    pager_mirror g nl fs max_st fuel orders = Done pg ->
    distinct_coresb pg = true ->
    canonical_has g (length (pg_states pg)).

(* ---- the clause is FALSE for grammars with unproductive rules -------------------------------
   Found by search and confirmed on the implementation, the extracted mirror (list-order oracle) and the
   validated extracted canon_lr1 (notes/ext-c02count-design.md):
       S: 't1' C B | A A 't5' 't5' A | 't1' B 't3';  A: B B | A C;  B: A B | B A;  C: B B A | A B;
   (A, B, C unproductive) gives 75 states against 72 canonical ones.  [pager_states_le_canonical_stmt]
   is therefore false as stated (for all well-formed grammars); it remains open for grammars without
   unproductive rules.  No Coq witness is kept: the vm_compute evaluation inside a proof script did not
   finish in the time available. *)
