(* C02, last clause — proofs of the statements of CountSpec.v (see its header for what is and is not proved). *)
From Coq Require Import List Arith NArith Bool Lia.
From GV Require Import Common.Outcome Base.Grammar Base.Analyses Base.AnalysesProofs LR.Automaton
  LR.CloseMirror LR.CloseSpec C02.Model C02.Spec C02.PagerSpec C02.PagerProofsPath C02.PagerProofsBridge
  C02.PagerProofsExists C02.PagerProofsMain C02.LoopModel C02.LoopSpec C02.LoopProofs C02.LoopEdgeProofs
  C01.PipelineSpec C01.PipelineEdges C02.Examples C02.CountSpec.
Import ListNotations.

Lemma sub_kernel_refl K : sub_kernel K K.
Proof. split; [intros k; split; auto | auto]. Qed.

Lemma sub_kernel_trans A B C : sub_kernel A B -> sub_kernel B C -> sub_kernel A C.
Proof.
  intros [H1 H2] [H3 H4]. split.
  - intros k. split; intros H.
    + apply (proj1 (H3 k)), (proj1 (H1 k)), H.
    + apply (proj2 (H1 k)), (proj2 (H3 k)), H.
  - intros k a H. apply H4, H2, H.
Qed.

Lemma clo0 g K p d : lr0_closure_rel g K p d <-> core_at g K [] p d.
Proof. exact (proj1 (after_characterisation g K [] K (after_nil g K)) p d). Qed.
Lemma clo1 g K p d a : lr1_closure_rel g K p d a <-> la_at g K [] p d a.
Proof. exact (proj1 (proj2 (after_characterisation g K [] K (after_nil g K))) p d a). Qed.

(* goto is monotone in the contexts *)
Lemma goto_mono g S0 K X S1 G :
  sub_kernel S0 K -> is_goto g S0 X S1 -> is_goto g K X G -> sub_kernel S1 G.
Proof.
  intros [Hc Hl] [HS0 HS1] [HG0 HG1]. split.
  - intros [p d']. split; intros H.
    + apply HG0. apply HS0 in H. destruct H as (d & E & Hcl & Hn). exists d. split; [exact E|]. split; [|exact Hn].
      apply clo0. apply (core_at_cores g S0 K Hc). apply clo0. exact Hcl.
    + apply HS0. apply HG0 in H. destruct H as (d & E & Hcl & Hn). exists d. split; [exact E|]. split; [|exact Hn].
      apply clo0. apply (core_at_cores g K S0 (same_cores_sym _ _ Hc)). apply clo0. exact Hcl.
  - intros [p d'] a H. apply HG1. apply HS1 in H. destruct H as (d & E & Hcl & Hn).
    exists d. split; [exact E|]. split; [|exact Hn].
    apply clo1. apply (la_at_mono g S0 K Hc Hl). apply clo1. exact Hcl.
Qed.

Lemma core_at_nonempty g K alpha p d : core_at g K alpha p d -> exists k, has_core K k.
Proof.
  intros H.
  induction H as [p d la Hin | alpha p d r q _ IH Hn Hq Hl | alpha X p d _ IH Hn]; [|exact IH|exact IH].
  exists (p, d). exists la. exact Hin.
Qed.

Lemma after_nil_inv g K S : after g K [] S -> S = K.
Proof.
  intros H. remember (@nil sym) as l eqn:El. destruct H as [|alpha S0 X S1 H1 H2]; [reflexivity|].
  apply app_eq_nil in El. destruct El; discriminate.
Qed.

Lemma after_snoc_inv g K alpha X S1 :
  after g K (alpha ++ [X]) S1 -> exists S0, after g K alpha S0 /\ is_goto g S0 X S1.
Proof.
  intros H. remember (alpha ++ [X]) as l eqn:El. destruct H as [|alpha' S0 X' S1 H1 H2].
  - symmetry in El. apply app_eq_nil in El. destruct El; discriminate.
  - apply app_inj_tail in El. destruct El as [E1 E2]. subst. eauto.
Qed.

Section Graph.
Variables (g : grammar) (nl : list N) (fs : list pairN) (max_st : N) (fuel : nat)
  (orders : list (list (N * nat))) (pg : pgraph).
Hypothesis Hpre : loop_pre g nl fs.
Hypothesis E : pager_mirror g nl fs max_st fuel orders = Done pg.

Let Hcomplete := pager_mirror_edges_complete g nl fs max_st fuel orders pg Hpre E.

Lemma edge_source_state s es : nth_error (pg_edges pg) s = Some es ->
  exists core closed, nth_error (pg_states pg) s = Some (core, closed).
Proof.
  intros Hs. destruct Hcomplete as (Hlen & _).
  assert (s < length (pg_states pg)) by (rewrite <- Hlen; apply nth_error_Some; congruence).
  destruct (nth_error (pg_states pg) s) as [[c cl]|] eqn:E2; [eauto|]. apply nth_error_None in E2. lia.
Qed.

Lemma live_covers : forall alpha s, pg_run pg alpha s ->
  forall S core closed, after g (start_kernel g) alpha S ->
    nth_error (pg_states pg) s = Some (core, closed) -> sub_kernel S core.
Proof.
  intros alpha s Hrun.
  induction Hrun as [|alpha s es X t Hrun IH Hes Hx]; intros S core closed Haf Hst.
  - apply after_nil_inv in Haf. subst S.
    destruct Hcomplete as (_ & (c0 & H0) & _).
    rewrite H0 in Hst. injection Hst as E1 E2. subst. apply sub_kernel_refl.
  - apply after_snoc_inv in Haf. destruct Haf as (S0 & Haf & Hg).
    destruct (edge_source_state s es Hes) as (cs & cls & Hs).
    pose proof (IH S0 cs cls Haf Hs) as Hsub.
    destruct (pager_mirror_edges_sound g nl fs max_st fuel orders pg Hpre E s cs cls es X t Hs Hes Hx)
      as (G & ct & clt & HG & _ & Ht & HGt).
    rewrite Ht in Hst. injection Hst as E1 E2. subst.
    exact (sub_kernel_trans _ _ _ (goto_mono g S0 cs X S G Hsub Hg HG) HGt).
Qed.

Lemma run_complete : forall alpha S, after g (start_kernel g) alpha S -> (exists k, has_core S k) ->
  exists s core closed, pg_run pg alpha s /\
    nth_error (pg_states pg) s = Some (core, closed) /\ sub_kernel S core.
Proof.
  intros alpha S Haf.
  induction Haf as [|alpha S0 X S1 Haf IH Hg]; intros Hne.
  - destruct Hcomplete as (_ & (c0 & H0) & _). exists 0, (start_kernel g), c0.
    split; [constructor|]. split; [exact H0 | apply sub_kernel_refl].
  - assert (Hne0 : exists k, has_core S0 k).
    { destruct Hne as ([p d'] & Hk). apply (proj1 Hg) in Hk. destruct Hk as (d & _ & Hcl & _).
      apply clo0 in Hcl. exact (core_at_nonempty _ _ _ _ _ Hcl). }
    destruct (IH Hne0) as (s & cs & cls & Hrun & Hs & Hsub).
    pose proof Hpre as (Hwf & _).
    destruct (pager_mirror_reachable g nl fs max_st fuel orders pg Hpre E cs cls (nth_error_In _ _ Hs))
      as (Hreach & _).
    pose proof (pager_reachable_items_ok g cs Hwf Hreach) as Hok.
    destruct (goto_exists g cs Hwf Hok X) as (G & HG & _).
    pose proof (goto_mono g S0 cs X S1 G Hsub Hg HG) as HSG.
    assert (HGne : exists k, has_core G k).
    { destruct Hne as (k & Hk). exists k. apply (proj1 (proj1 HSG k)). exact Hk. }
    destruct Hcomplete as (Hlen & _ & Hcomp).
    destruct (nth_error (pg_edges pg) s) as [es|] eqn:Ees.
    2:{ apply nth_error_None in Ees.
        assert (s < length (pg_states pg)) by (apply nth_error_Some; congruence). lia. }
    destruct (Hcomp s cs cls es X G Hs Ees HG HGne) as (t & ct & clt & Hx & Ht & HGt).
    exists t, ct, clt. split; [exact (run_snoc pg alpha s es X t Hrun Ees Hx)|]. split; [exact Ht|].
    exact (sub_kernel_trans _ _ _ HSG HGt).
Qed.

Lemma run_state alpha s : pg_run pg alpha s ->
  exists core closed, nth_error (pg_states pg) s = Some (core, closed).
Proof.
  intros Hrun. destruct Hrun as [|alpha s es X t Hrun Hes Hx].
  - destruct Hcomplete as (_ & (c0 & H0) & _). eauto.
  - destruct (edge_source_state s es Hes) as (cs & cls & Hs).
    destruct (pager_mirror_edges_sound g nl fs max_st fuel orders pg Hpre E s cs cls es X t Hs Hes Hx)
      as (G & ct & clt & _ & _ & Ht & _). eauto.
Qed.

Lemma reach_run j : pg_reach (pg_edges pg) j -> exists alpha, pg_run pg alpha j.
Proof.
  intros H. induction H as [|s es X t _ IH Hes Hx].
  - exists []. constructor.
  - destruct IH as (alpha & Hr). exists (alpha ++ [X]). exact (run_snoc pg alpha s es X t Hr Hes Hx).
Qed.

Lemma state_core_nonempty j : pg_reach (pg_edges pg) j ->
  forall core closed, nth_error (pg_states pg) j = Some (core, closed) -> exists k, has_core core k.
Proof.
  intros Hr. destruct Hr as [|s es X t _ Hes Hx]; intros core closed Hj.
  - destruct Hcomplete as (_ & (c0 & H0) & _). rewrite H0 in Hj. injection Hj as E1 E2. subst.
    exists (start_prod g, 0%nat). exists [eof g]. left. reflexivity.
  - destruct (edge_source_state s es Hes) as (cs & cls & Hs).
    destruct (pager_mirror_edges_sound g nl fs max_st fuel orders pg Hpre E s cs cls es X t Hs Hes Hx)
      as (G & ct & clt & _ & (k & Hk) & Ht & HGt).
    rewrite Ht in Hj. injection Hj as E1 E2. subst. exists k. apply (proj1 (proj1 HGt k)). exact Hk.
Qed.

Lemma has_viable_path j : (j < length (pg_states pg))%nat ->
  exists alpha, pg_run pg alpha j /\ viable g alpha.
Proof.
  intros Hlt.
  pose proof (pager_mirror_all_reachable g nl fs max_st fuel orders pg Hpre E j Hlt) as Hr.
  destruct (reach_run j Hr) as (alpha & Hrun). exists alpha. split; [exact Hrun|].
  pose proof Hpre as (Hwf & _).
  destruct (after_exists g (start_kernel g) alpha Hwf (start_kernel_items_ok g Hwf)) as (S & Haf & _).
  exists S. split; [exact Haf|].
  destruct (nth_error (pg_states pg) j) as [[c cl]|] eqn:Ej; [|apply nth_error_None in Ej; lia].
  pose proof (live_covers alpha j Hrun S c cl Haf Ej) as Hsub.
  destruct (state_core_nonempty j Hr c cl Ej) as (k & Hk). exists k. apply (proj2 (proj1 Hsub k)). exact Hk.
Qed.

End Graph.

Lemma live_state_covers_canonical : live_state_covers_canonical_stmt.
Proof.
  intros g nl fs max_st fuel orders pg Hpre E alpha s Hrun S core closed Haf Hst.
  exact (live_covers g nl fs max_st fuel orders pg Hpre E alpha s Hrun S core closed Haf Hst).
Qed.

Lemma pager_run_complete : pager_run_complete_stmt.
Proof.
  intros g nl fs max_st fuel orders pg Hpre E alpha S Haf Hne.
  exact (run_complete g nl fs max_st fuel orders pg Hpre E alpha S Haf Hne).
Qed.

Lemma state_has_viable_path : state_has_viable_path_stmt.
Proof.
  intros g nl fs max_st fuel orders pg Hpre E j Hlt.
  exact (has_viable_path g nl fs max_st fuel orders pg Hpre E j Hlt).
Qed.

Lemma pg_run_nil_inv pg s : pg_run pg [] s -> s = 0%nat.
Proof.
  intros H. remember (@nil sym) as l eqn:El. destruct H as [|alpha s es X t H1 H2 H3]; [reflexivity|].
  apply app_eq_nil in El. destruct El; discriminate.
Qed.

Lemma pg_run_snoc_inv pg alpha X t : pg_run pg (alpha ++ [X]) t ->
  exists s es, pg_run pg alpha s /\ nth_error (pg_edges pg) s = Some es /\ assoc_sym X es = Some t.
Proof.
  intros H. remember (alpha ++ [X]) as l eqn:El. destruct H as [|alpha' s es X' t H1 H2 H3].
  - symmetry in El. apply app_eq_nil in El. destruct El; discriminate.
  - apply app_inj_tail in El. destruct El as [E1 E2]. subst. eauto.
Qed.

Lemma pg_run_deterministic : pg_run_deterministic_stmt.
Proof.
  intros pg alpha s t H. revert t.
  induction H as [|alpha s es X t H IH Hes Hx]; intros t' H'.
  - apply pg_run_nil_inv in H'. auto.
  - apply pg_run_snoc_inv in H'. destruct H' as (s' & es' & H1 & H2 & H3).
    apply IH in H1. subst s'. congruence.
Qed.

Lemma finite_choice {A : Type} (P : nat -> A -> Prop) n :
  (forall j, (j < n)%nat -> exists a, P j a) ->
  exists l, length l = n /\ forall j a, nth_error l j = Some a -> P j a.
Proof.
  induction n as [|n IH]; intros H.
  - exists []. split; [reflexivity|]. intros j a Hj. destruct j; discriminate.
  - destruct IH as (l & Hl & HP). { intros j Hj. apply H. lia. }
    destruct (H n (Nat.lt_succ_diag_r n)) as (a & Ha).
    exists (l ++ [a]). split. { rewrite app_length. simpl. lia. }
    intros j b Hj. destruct (Nat.lt_ge_cases j n) as [Hlt|Hge].
    + rewrite nth_error_app1 in Hj by lia. eauto.
    + assert (j = n).
      { assert (Hb : (j < length (l ++ [a]))%nat) by (apply nth_error_Some; congruence).
        rewrite app_length in Hb. simpl in Hb. lia. }
      subst j. rewrite nth_error_app2 in Hj by lia. rewrite Hl, Nat.sub_diag in Hj. simpl in Hj.
      injection Hj as Hab. subst. exact Ha.
Qed.

Lemma pager_states_le_canonical_partial : pager_states_le_canonical_partial_stmt.
Proof.
  intros g nl fs max_st fuel orders pg Hpre E Hpf.
  destruct (finite_choice (fun j alpha => pg_run pg alpha j /\ viable g alpha) (length (pg_states pg))
              (fun j Hj => state_has_viable_path g nl fs max_st fuel orders pg Hpre E j Hj))
    as (paths & Hlen & HP).
  exists paths. split; [exact Hlen|]. split.
  - intros alpha Hin. apply In_nth_error in Hin. destruct Hin as (j & Hj). exact (proj2 (HP j alpha Hj)).
  - intros i j alpha beta Hi Hj Hsame.
    exact (Hpf alpha beta i j (proj1 (HP i alpha Hi)) (proj1 (HP j beta Hj)) Hsame).
Qed.

(* ---- graphs without split cores ------------------------------------------------------------ *)

Lemma keys_sub_spec K1 K2 : (forall k, has_core K1 k -> has_core K2 k) -> keys_sub K1 K2 = true.
Proof.
  intros H. apply forallb_forall. intros [[p d] la] Hin. apply existsb_exists.
  destruct (H (p, d)) as (la' & Hin'). { exists la. exact Hin. }
  exists (p, d, la'). split; [exact Hin'|]. unfold key_eqb, it_p, it_d. simpl.
  rewrite N.eqb_refl, Nat.eqb_refl. reflexivity.
Qed.

Lemma same_coresb_spec K1 K2 : same_cores K1 K2 -> same_coresb K1 K2 = true.
Proof.
  intros H. unfold same_coresb. apply andb_true_intro. split; apply keys_sub_spec; intros k Hk.
  - apply (proj1 (H k)). exact Hk.
  - apply (proj2 (H k)). exact Hk.
Qed.

Lemma all_distinct_spec : forall l i j a b, all_distinct l = true ->
  nth_error l i = Some a -> nth_error l j = Some b -> same_cores a b -> i = j.
Proof.
  induction l as [|x r IH]; intros i j a b Hd Hi Hj Hs.
  - destruct i; discriminate.
  - simpl in Hd. apply andb_prop in Hd. destruct Hd as [Hx Hr]. rewrite forallb_forall in Hx.
    destruct i as [|i], j as [|j]; simpl in Hi, Hj.
    + reflexivity.
    + injection Hi as Hi. subst x. apply nth_error_In in Hj. apply Hx in Hj.
      rewrite (same_coresb_spec _ _ Hs) in Hj. discriminate.
    + injection Hj as Hj. subst x. apply nth_error_In in Hi. apply Hx in Hi.
      rewrite (same_coresb_spec _ _ (same_cores_sym _ _ Hs)) in Hi. discriminate.
    + f_equal. exact (IH i j a b Hr Hi Hj Hs).
Qed.

Lemma distinct_cores_path_function : distinct_cores_path_function_stmt.
Proof.
  intros g nl fs max_st fuel orders pg Hpre E Hd alpha beta s t Hrs Hrt Hsame.
  pose proof Hpre as (Hwf & _).
  destruct (after_exists g (start_kernel g) alpha Hwf (start_kernel_items_ok g Hwf)) as (S & HS & _).
  destruct (after_exists g (start_kernel g) beta Hwf (start_kernel_items_ok g Hwf)) as (T & HT & _).
  destruct (Hsame S T HS HT) as (Hc & _).
  destruct (run_state g nl fs max_st fuel orders pg Hpre E alpha s Hrs) as (cs & cls & Hs).
  destruct (run_state g nl fs max_st fuel orders pg Hpre E beta t Hrt) as (ct & clt & Ht).
  pose proof (live_covers g nl fs max_st fuel orders pg Hpre E alpha s Hrs S cs cls HS Hs) as [H1 _].
  pose proof (live_covers g nl fs max_st fuel orders pg Hpre E beta t Hrt T ct clt HT Ht) as [H2 _].
  apply (all_distinct_spec (map fst (pg_states pg)) s t cs ct Hd).
  - rewrite (map_nth_error fst s (pg_states pg) Hs). reflexivity.
  - rewrite (map_nth_error fst t (pg_states pg) Ht). reflexivity.
  - intros k. split; intros H.
    + apply (proj1 (H2 k)), (proj1 (Hc k)), (proj2 (H1 k)), H.
    + apply (proj1 (H1 k)), (proj2 (Hc k)), (proj2 (H2 k)), H.
Qed.

Lemma pager_states_le_canonical_distinct_cores : pager_states_le_canonical_distinct_cores_stmt.
Proof.
  intros g nl fs max_st fuel orders pg Hpre E Hd.
  exact (pager_states_le_canonical_partial g nl fs max_st fuel orders pg Hpre E
           (distinct_cores_path_function g nl fs max_st fuel orders pg Hpre E Hd)).
Qed.

(* ---- witnesses ------------------------------------------------------------------------------

   g1 (Examples.v: 9 states after one weak merge, no split core): the hypotheses of the partial
   theorems hold, so the canonical collection of g1 has at least 9 states (it has 10).
   g0 (LR(1), not LALR(1), 14 = 14 states): two states share the cores {A -> c ., B -> c .}, so
   [distinct_coresb] is false — the case the proved part does not reach. *)
Definition pager_distinct (g : grammar) : option (nat * bool) :=
  match pager_mirror g (fst (tabs g)) (snd (tabs g)) 4294967295%N 100 [] with
  | Done pg => Some (length (pg_states pg), distinct_coresb pg)
  | _ => None
  end.

Example g1_distinct : pager_distinct g1 = Some (9%nat, true).
Proof. vm_compute. reflexivity. Qed.
Example g0_not_distinct : pager_distinct PagerProofsMisc.g0 = Some (14%nat, false).
Proof. vm_compute. reflexivity. Qed.

Example g1_count_witness :
  exists pg, pager_mirror g1 (fst (tabs g1)) (snd (tabs g1)) 4294967295%N 100 [] = Done pg /\
    distinct_coresb pg = true /\ path_function g1 pg /\ canonical_has g1 9.
Proof.
  pose proof g1_distinct as H. unfold pager_distinct in H.
  destruct (pager_mirror g1 (fst (tabs g1)) (snd (tabs g1)) 4294967295%N 100 []) as [pg| |] eqn:E;
    try discriminate H.
  injection H as Hlen Hd. exists pg. split; [reflexivity|]. split; [exact Hd|].
  assert (Hpre : loop_pre g1 (fst (tabs g1)) (snd (tabs g1))).
  { apply tabs_pre; [vm_compute; reflexivity | vm_compute; discriminate]. }
  split.
  - exact (distinct_cores_path_function _ _ _ _ _ _ _ Hpre E Hd).
  - rewrite <- Hlen. exact (pager_states_le_canonical_distinct_cores _ _ _ _ _ _ _ Hpre E Hd).
Qed.

