(* C02 — the phantom-item witness (PhantomSpec.v), by evaluation of the executable
   definitions plus the soundness theorems of the certificate checker and of validS. *)
From Coq Require Import List Arith NArith Bool Lia.
From GV Require Import Common.Outcome Base.Grammar Base.GrammarFacts Base.Analyses Base.AnalysesProofs
  LR.Automaton LR.CloseMirror LR.Validator LR.Canon LR.Spec LR.Sound
  C02.Model C02.Spec C02.PagerSpec C02.LoopModel C02.LoopSpec C02.InducedModel C02.InducedSpec
  C02.InducedMainProofs C02.Examples C02.TextbookModel C02.TextbookSpec C02.TextbookProofs
  C03.Model C01.Pipeline C02.PhantomSpec.
Import ListNotations.

Definition phantom_tA : automaton :=
  match canon_tb phantom_g 100 with
  | Some c => of_dump (c_dump c)
  | None => of_dump (mkDump 0 0 [] [] [] [] [])
  end.

Definition phantom_w : list N := [1; 0]%N.            (* x y *)

Example phantom_wf : wf_grammar phantom_g = true.
Proof. vm_compute. reflexivity. Qed.

Example phantom_textbook_facts :
  (lr1_textbook_check phantom_g phantom_tA, nstates phantom_tA, validS phantom_g phantom_tA,
   validE phantom_g phantom_tA, run phantom_g phantom_tA 100 phantom_w)
  = (true, 8%N, true, true, RAccept (Node 0 [Node 2 [Leaf 1 0]; Leaf 0 1])).
Proof. vm_compute. reflexivity. Qed.

Example phantom_textbook_lr1 : lr1_textbook_grammar phantom_g.
Proof.
  apply (lr1_textbook_check_sound phantom_g phantom_tA).
  exact (f_equal (fun x => fst (fst (fst (fst x)))) phantom_textbook_facts).
Qed.

Definition phantom_fact (b : built) : Prop :=
  (length (pg_states (b_graph b)), reports_no_conflict b, length (tb_sr (b_table b)),
   single_candidate phantom_g (built_automaton b), single_candidate phantom_g (induced phantom_g (b_graph b)),
   run phantom_g (built_automaton b) 100 phantom_w)
  = (9%nat, false, 1%nat, false, false, RReject 2 6).

Example phantom_runs :
  match from_yacc_mirror phantom_g (fun _ => None) (fun _ => None) 4294967295%N 100 [] [] with
  | Done (Some b) => phantom_fact b
  | _ => False
  end.
Proof. vm_compute. reflexivity. Qed.

Example phantom_induced_two_candidates :
  match pager_mirror phantom_g (fst (tabs phantom_g)) (snd (tabs phantom_g)) 4294967295%N 100 [] with
  | Done pg => single_candidate phantom_g (induced phantom_g pg) = false
  | _ => False
  end.
Proof. vm_compute. reflexivity. Qed.

(* not LR(1) in the sense that follows the code's closure: otherwise the induced
   automaton would have one candidate per cell (pager_mirror_validated) *)
Lemma phantom_not_lr1_grammar : ~ lr1_grammar phantom_g.
Proof.
  intros Hlr. pose proof phantom_induced_two_candidates as Hr.
  destruct (pager_mirror phantom_g (fst (tabs phantom_g)) (snd (tabs phantom_g)) 4294967295%N 100 [])
    as [pg| |] eqn:Ep; try contradiction.
  assert (Hpre : loop_pre phantom_g (fst (tabs phantom_g)) (snd (tabs phantom_g))).
  { apply tabs_pre; [exact phantom_wf | vm_compute; discriminate]. }
  destruct (pager_mirror_validated phantom_g _ _ _ _ _ pg Hpre Hlr Ep) as (_ & _ & _ & Hs).
  rewrite Hs in Hr. discriminate Hr.
Qed.

Lemma lr1_notions_differ_refuted : lr1_notions_differ_refuted_stmt.
Proof.
  exists phantom_g. split; [exact phantom_wf|]. split; [exact phantom_textbook_lr1|exact phantom_not_lr1_grammar].
Qed.

Lemma phantom_not_productive : ~ productive phantom_g.
Proof.
  intros Hp. apply phantom_not_lr1_grammar.
  apply (proj2 (lr1_notions_agree_productive phantom_g Hp phantom_wf)). exact phantom_textbook_lr1.
Qed.

Lemma phantom_item_costs_determinism_refuted : phantom_item_costs_determinism_refuted_stmt.
Proof.
  pose proof phantom_textbook_facts as Ht.
  assert (Hchk : lr1_textbook_check phantom_g phantom_tA = true) by exact (f_equal (fun x => fst (fst (fst (fst x)))) Ht).
  assert (Hn : nstates phantom_tA = 8%N) by exact (f_equal (fun x => snd (fst (fst (fst x)))) Ht).
  assert (HS : validS phantom_g phantom_tA = true) by exact (f_equal (fun x => snd (fst (fst x))) Ht).
  assert (HE : validE phantom_g phantom_tA = true) by exact (f_equal (fun x => snd (fst x)) Ht).
  assert (Hrun : run phantom_g phantom_tA 100 phantom_w = RAccept (Node 0 [Node 2 [Leaf 1 0]; Leaf 0 1]))
    by exact (f_equal snd Ht).
  assert (Hrange : tokens_in_range phantom_g phantom_w).
  { repeat constructor. }
  assert (Hne : no_eof phantom_g phantom_w).
  { intros [H|[H|[]]]; discriminate H. }
  destruct (lr_sound phantom_g phantom_tA phantom_wf HS phantom_w 100 _ Hrange Hne Hrun) as (s & _ & _ & Hvt & Hl).
  pose proof phantom_runs as Hr.
  destruct (from_yacc_mirror phantom_g (fun _ => None) (fun _ => None) 4294967295%N 100 [] []) as [[b|]| |] eqn:Eb;
    try contradiction.
  unfold phantom_fact in Hr.
  exists phantom_g, phantom_w, phantom_tA, (Node 0 [Node 2 [Leaf 1 0]; Leaf 0 1]), b, 2%nat, 6%N.
  split; [exact phantom_wf|]. split; [exact phantom_textbook_lr1|]. split; [exact Hchk|].
  split; [exact HS|]. split; [exact HE|]. split; [exact Hrange|]. split; [exact Hne|].
  split; [exact Hrun|]. split; [exact Hvt|]. split; [exact Hl|]. split; [exact Eb|].
  split; [exact (f_equal (fun x => snd (fst (fst (fst (fst x))))) Hr)|].
  split; [exact (f_equal (fun x => snd (fst (fst (fst x)))) Hr)|].
  split; [exact (f_equal (fun x => snd (fst (fst x))) Hr)|].
  assert (Hlen : length (pg_states (b_graph b)) = 9%nat) by exact (f_equal (fun x => fst (fst (fst (fst (fst x))))) Hr).
  split; [rewrite Hn, Hlen; vm_compute; lia|].
  split; [exact (f_equal snd Hr)|].
  split; [exact phantom_not_lr1_grammar | exact phantom_not_productive].
Qed.

(* ---- non-vacuity of the general statements ------------------------------------------------------------

   g1 (C02/Examples.v: S : a A d | b A e ; A : c) is well-formed and productive, LR(1) in both senses; its
   textbook certificate is accepted (10 states, like the code-closure collection: on a productive grammar
   the two constructions build the same states). *)
Example g1_productive : productive g1.
Proof.
  assert (Hp : forall p, (p < 4)%N -> is_prod g1 p).
  { intros p Hp. unfold is_prod. simpl. lia. }
  assert (H1 : derives g1 [R 1%N] (tokens_of [2%N])) by exact (derives_prod g1 2%N (Hp 2%N eq_refl)).
  assert (H0 : derives g1 [R 0%N] (tokens_of [0; 2; 3]%N)).
  { eapply derives_trans; [exact (derives_prod g1 0%N (Hp 0%N eq_refl))|].
    exact (derives_ctx g1 [R 1%N] [T 2%N] [T 0%N] [T 3%N] H1). }
  assert (H2 : derives g1 [R 2%N] (tokens_of [0; 2; 3]%N)).
  { eapply derives_trans; [exact (derives_prod g1 3%N (Hp 3%N eq_refl)) | exact H0]. }
  intros r Hr. change (nrules g1) with 3%N in Hr.
  assert (Hc : r = 0%N \/ r = 1%N \/ r = 2%N) by lia.
  destruct Hc as [-> | [-> | ->]]; [exists [0; 2; 3]%N | exists [2%N] | exists [0; 2; 3]%N]; assumption.
Qed.

Example g1_textbook_certificate :
  match canon_tb g1 100 with
  | Some c => (d_nstates (c_dump c), lr1_textbook_check g1 (of_dump (c_dump c))) = (10%N, true)
  | None => False
  end.
Proof. vm_compute. reflexivity. Qed.

Example g1_notions_agree : lr1_grammar g1 <-> lr1_textbook_grammar g1.
Proof. apply lr1_notions_agree_productive; [exact g1_productive | vm_compute; reflexivity]. Qed.

Example g1_textbook_lr1 : lr1_textbook_grammar g1.
Proof. exact (proj1 g1_notions_agree g1_lr1). Qed.

(* the hypotheses of phantom_needs_unproductive are satisfiable, and its conclusion is what the witness
   grammar shows: the closure of the kernel {[S -> 'x' . A U, $], [B -> 'x' ., 'y']} (state 2 of the
   implementation's graph) holds [A -> . 'y'] with no lookahead *)
Example phantom_closure_has_empty_item :
  let K := [(1%N, 1%nat, [3%N]); (2%N, 1%nat, [0%N])] in
  match close_mirror phantom_g (fst (tabs phantom_g)) (snd (tabs phantom_g)) (keys_of K) K (close_fuel phantom_g (keys_of K)) with
  | Done C => existsb (fun i => N.eqb (it_p i) 3 && Nat.eqb (it_d i) 0 && match it_la i with [] => true | _ => false end) C = true
  | _ => False
  end.
Proof. vm_compute. reflexivity. Qed.
