(* C02 — statements about the LR(1) certificate checker (Lr1Model.v).  Proved in Lr1Proofs.v. *)
From Coq Require Import List Arith NArith Bool Lia.
From GV Require Import Common.Outcome Base.Grammar Base.Analyses LR.Automaton LR.Validator
  LR.CloseMirror LR.CloseSpec C02.Model C02.Spec C02.PagerSpec C02.Lr1Model.
Import ListNotations.

(* an accepted certificate proves the grammar LR(1) in the sense of PagerSpec.v:
   no state of the canonical continuation of the start kernel has a conflict *)
Definition lr1_check_sound_stmt : Prop :=
  forall g A, lr1_check g A = true -> wf_grammar g = true /\ lr1_grammar g.

(* hence, with Pager's theorem: for a grammar with an accepted certificate no
   kernel of a Pager-style construction has a conflict *)
Definition lr1_check_pager_safe_stmt : Prop :=
  forall g A, lr1_check g A = true ->
    forall K, pager_reachable g K -> tree_conflict_free g K /\ ~ state_conflict g K.

(* every state of the continuation is one of A's states (or has no item at all) *)
Definition lr1_check_states_stmt : Prop :=
  forall g A, lr1_check g A = true ->
    forall alpha S, after g (start_kernel g) alpha S ->
      (forall k, ~ has_core S k) \/
      (exists s, (s < nstates A)%N /\ closed_repr g S (closed A s)).
