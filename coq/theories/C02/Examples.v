(* C02 — the hypotheses of the headline theorems are satisfiable, end to end inside Coq.

   g1:  S : a A d | b A e ;  A : c      (LR(1); the canonical automaton has 10 states, Pager's 9:
        the two states {[A -> c ., d]} and {[A -> c ., e]} are weakly compatible and merged)
   g0 (PagerProofsMisc.v): S : a A d | b B d | a B e | b A e ; A : c ; B : c
        (LR(1) but not LALR(1): the two states with cores {A -> c ., B -> c .} are NOT weakly
        compatible; Pager keeps all 14 canonical states).
   For both: the LR(1) certificate is accepted (so lr1_grammar holds by lr1_check_sound), the mirror of
   pager_stategraph returns a graph (list-order oracle), and the induced automaton passes all validators —
   here evaluated directly, and in agreement with pager_mirror_validated. *)
From Coq Require Import List Arith NArith Bool Lia.
From GV Require Import Common.Outcome Base.Grammar Base.Analyses Base.AnalysesProofs LR.Automaton
  LR.Validator LR.Canon LR.CloseMirror C02.Model C02.Spec C02.PagerSpec C02.Lr1Model C02.Lr1Spec
  C02.Lr1Proofs C02.LoopModel C02.LoopSpec C02.InducedModel C02.InducedSpec C02.InducedMainProofs
  C02.PagerProofsMisc.
Import ListNotations.

Definition g1 : grammar :=
  mkGrammar 6 3 [(0, [T 0; R 1; T 3]); (0, [T 1; R 1; T 4]); (1, [T 2]); (2, [R 0])]%N 3 5.

Definition tabs (g : grammar) : list N * list pairN :=
  match first_ref g with Some t => t | None => ([], []) end.

Definition canon_cert (g : grammar) : N * bool :=
  match canon_lr1 g 100 with
  | Some c => (d_nstates (c_dump c), lr1_check g (of_dump (c_dump c)))
  | None => (0%N, false)
  end.

Definition pager_states (g : grammar) : option nat :=
  match pager_mirror g (fst (tabs g)) (snd (tabs g)) 4294967295%N 100 [] with
  | Done pg => Some (length (pg_states pg))
  | _ => None
  end.

Example g1_certificate : canon_cert g1 = (10%N, true).
Proof. vm_compute. reflexivity. Qed.
Example g0_certificate : canon_cert g0 = (14%N, true).
Proof. vm_compute. reflexivity. Qed.

Lemma cert_lr1 g n : canon_cert g = (n, true) -> wf_grammar g = true /\ lr1_grammar g.
Proof.
  unfold canon_cert. destruct (canon_lr1 g 100) as [c|]; [|discriminate].
  intros H. injection H as _ H. exact (lr1_check_sound g _ H).
Qed.

Example g1_lr1 : lr1_grammar g1.
Proof. exact (proj2 (cert_lr1 g1 _ g1_certificate)). Qed.
Example g0_lr1 : lr1_grammar g0.
Proof. exact (proj2 (cert_lr1 g0 _ g0_certificate)). Qed.

Example g1_pager_states : pager_states g1 = Some 9%nat.
Proof. vm_compute. reflexivity. Qed.
Example g0_pager_states : pager_states g0 = Some 14%nat.
Proof. vm_compute. reflexivity. Qed.

Lemma tabs_pre g : wf_grammar g = true -> first_ref g <> None -> loop_pre g (fst (tabs g)) (snd (tabs g)).
Proof.
  intros Hwf Hn. unfold tabs. destruct (first_ref g) as [[nl fs]|] eqn:E; [|contradiction].
  destruct (first_ref_exact' g nl fs E) as [H1 H2]. simpl. split; [exact Hwf|]. split; assumption.
Qed.

(* the headline theorem applied: the Pager automaton of g1 (9 states, one weak merge) is validated
   and conflict-free *)
Example g1_pager_validated :
  exists pg, pager_mirror g1 (fst (tabs g1)) (snd (tabs g1)) 4294967295%N 100 [] = Done pg /\
    length (pg_states pg) = 9%nat /\
    validS g1 (induced g1 pg) = true /\ validC g1 (induced g1 pg) = true /\
    validE g1 (induced g1 pg) = true /\ single_candidate g1 (induced g1 pg) = true.
Proof.
  destruct (pager_mirror g1 (fst (tabs g1)) (snd (tabs g1)) 4294967295%N 100 []) as [pg| |] eqn:E.
  - exists pg. split; [reflexivity|]. split.
    + pose proof g1_pager_states as H. unfold pager_states in H. rewrite E in H. injection H as H. exact H.
    + apply (pager_mirror_validated g1 (fst (tabs g1)) (snd (tabs g1)) 4294967295%N 100 [] pg).
      * apply tabs_pre; [vm_compute; reflexivity | vm_compute; discriminate].
      * exact g1_lr1.
      * exact E.
  - exfalso. pose proof g1_pager_states as H. unfold pager_states in H. rewrite E in H. discriminate H.
  - exfalso. pose proof g1_pager_states as H. unfold pager_states in H. rewrite E in H. discriminate H.
Qed.
