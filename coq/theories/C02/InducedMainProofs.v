(* C02 — the headline theorems: for an LR(1) grammar, whenever the mirror of
   pager_stategraph returns a graph, the induced automaton is validated and
   conflict-free, hence agrees on every input with any other validated
   automaton of the grammar (the canonical LR(1) one in particular). *)
From Coq Require Import List Arith NArith Bool Lia.
From GV Require Import Common.Outcome Base.Grammar Base.Analyses Base.AnalysesProofs LR.Automaton
  LR.Validator LR.Spec LR.Agree LR.CloseMirror LR.CloseSpec C02.Model C02.Spec C02.PagerSpec
  C02.PagerProofsMain C02.Lr1Model C02.LoopModel C02.LoopSpec C02.InducedModel C02.InducedSpec
  C02.LoopFactsProofs C02.InducedSProofs C02.InducedCProofs C02.InducedEProofs C02.Lr1Proofs.
Import ListNotations.

Lemma graph_facts_conflict_free g pg : graph_facts g pg -> lr1_grammar g -> graph_conflict_free g pg.
Proof.
  intros GF Hlr1 s core closed Hs.
  destruct (gf_reach g pg GF s core closed Hs) as (Hr & _ & _).
  exact (proj2 (pager_reachable_conflict_free g (gf_wf g pg GF) Hlr1 core Hr)).
Qed.

Lemma pager_mirror_validated : pager_mirror_validated_stmt.
Proof.
  intros g nl fs max_st fuel orders pg Hpre Hlr1 Hrun.
  pose proof (pager_mirror_graph_facts g nl fs max_st fuel orders pg Hpre Hrun) as GF.
  pose proof (graph_facts_conflict_free g pg GF Hlr1) as CF.
  split; [exact (induced_validS g pg GF)|].
  split; [exact (induced_validC g pg GF CF)|].
  split; [exact (induced_validE g pg GF)|].
  exact (induced_single_candidate g pg GF CF).
Qed.

Lemma pager_parser_agrees : pager_parser_agrees_stmt.
Proof.
  intros g nl fs max_st fuel orders pg B Hpre Hlr1 Hprod Hrun HSB HCB HEB input f1 f2 Hin Hne Hf1 Hf2.
  destruct (pager_mirror_validated g nl fs max_st fuel orders pg Hpre Hlr1 Hrun) as (HS & HC & HE & _).
  pose proof Hpre as (Hwf & _ & _).
  exact (validated_automata_agree g (induced g pg) B Hwf Hprod HS HC HE HSB HCB HEB input f1 f2 Hin Hne Hf1 Hf2).
Qed.

Lemma pager_parser_agrees_certified : pager_parser_agrees_certified_stmt.
Proof.
  intros g A nl fs max_st fuel orders pg B Hfr Hck Hprod Hrun HSB HCB HEB.
  destruct (Lr1Proofs.lr1_check_sound g A Hck) as [Hwf Hlr1].
  destruct (first_ref_exact' g nl fs Hfr) as [Hnl Hfs].
  assert (Hpre : loop_pre g nl fs) by (split; [exact Hwf|split; assumption]).
  split.
  - exact (pager_mirror_validated g nl fs max_st fuel orders pg Hpre Hlr1 Hrun).
  - exact (pager_parser_agrees g nl fs max_st fuel orders pg B Hpre Hlr1 Hprod Hrun HSB HCB HEB).
Qed.
