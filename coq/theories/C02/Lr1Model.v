(* C02 — an executable, PROVED-SOUND certificate checker for the premise "the
   grammar is LR(1)" ([lr1_grammar] of PagerSpec.v).  Executable definitions only.

   [lr1_check g A] inspects an automaton A given as dumps of closed states and
   edges (in C02's run: the canonical automaton built by the unverified
   Canon.canon_lr1) and accepts when A is, state by state, the canonical LR(1)
   automaton and no closed state has two candidate actions on a token:
     * closed(start) is the closure of {[^ -> . S, $]};
     * for every state s and every symbol X: if goto(closed(s), X) is not empty
       there is an edge s -X-> t to a state t whose closed set is EXACTLY the
       closure of goto(closed(s), X) (no merging, nothing added);
     * no closed state has a shift/reduce or reduce/reduce clash.
   Closure and goto are the mirrors of Itemset::close / Itemset::goto, whose
   exactness w.r.t. the declarative closure is C01's theorem; FIRST/nullable are
   the proved-exact first_ref. *)
From Coq Require Import List Arith NArith Bool Lia.
From GV Require Import Common.Outcome Base.Grammar Base.Analyses LR.Automaton LR.Validator
  LR.CloseMirror C02.Model.
Import ListNotations.

(* every (production, dot) of A is in B with a context that includes A's *)
Definition itemset_incl (A B : itemset) : bool :=
  forallb (fun i => match lookup (it_p i) (it_d i) B with
                    | Some la => subsetN (it_la i) la
                    | None => false
                    end) A.
Definition itemset_eqb (A B : itemset) : bool := itemset_incl A B && itemset_incl B A.

(* C is (as a set of items with lookahead sets) the closure of K *)
Definition closes_to (g : grammar) (nl : list N) (fs : list pairN) (K C : itemset) : bool :=
  match close_mirror g nl fs (keys_of K) K (close_fuel g (keys_of K)) with
  | Done C' => itemset_eqb C' C
  | _ => false
  end.

(* some item of C has the token a after its dot *)
Definition shifts (g : grammar) (C : itemset) (a : N) : bool :=
  existsb (fun i => match nth_error (rhs g (it_p i)) (it_d i) with
                    | Some (T b) => N.eqb a b
                    | _ => false
                    end) C.
(* the complete items of C that carry a *)
Definition reducers (g : grammar) (C : itemset) (a : N) : list item :=
  filter (fun i => Nat.eqb (it_d i) (length (rhs g (it_p i))) && memN a (it_la i)) C.

Definition state_ok (g : grammar) (C : itemset) : bool :=
  forallb (fun a => ((if shifts g C a then 1 else 0) + length (reducers g C a) <=? 1)%nat) (tidxs g).

Definition start_kernel_m (g : grammar) : itemset := [(start_prod g, 0%nat, [eof g])].

Definition lr1_check (g : grammar) (A : automaton) : bool :=
  match first_ref g with
  | None => false
  | Some (nl, fs) =>
      wf_grammar g &&
      (start A <? nstates A)%N &&
      closes_to g nl fs (start_kernel_m g) (closed A (start A)) &&
      forallb (fun s =>
        items_ok g (closed A s) && state_ok g (closed A s) &&
        forallb (fun X =>
          match goto_mirror g (closed A s) X with
          | Done [] => true
          | Done K' =>
              match edge A s X with
              | Some t => (t <? nstates A)%N && closes_to g nl fs K' (closed A t)
              | None => false
              end
          | _ => false
          end) (all_syms g)) (states A)
  end.
