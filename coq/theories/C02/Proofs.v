(* C02, stage 1 — proofs of the statements of Spec.v about the mirror of
   Itemset::weakly_compatible / Itemset::weakly_merge (Model.v).

   Structure: under [is_map K] the look-up [ctx K k] (the context found by
   `items[&k]`, [] for a missing key) represents [has_la K k]; so every
   `vob_intersect` of the mirror decides one [meets] of the specification
   ([meets_ctx]) and the loop body computes the boolean [pair_okb], which
   decides Pager's three conditions for one pair ([pair_okb_spec]).  The two
   nested loops visit every pair of positions i < j of [keys]
   ([outer_loop_ok], [pairsb2_pairsb]); the conditions are symmetric in (i, j)
   and [keys] is a duplicate-free enumeration of the cores, so that is every
   pair of distinct cores ([pairsb_spec]).  The length test plus the
   contains_key loop is equality of the key sets ([NoDup_length_incl]). *)
From Coq Require Import List Arith NArith Bool Lia Permutation.
From GV Require Import Common.Outcome Base.Grammar Base.Analyses Base.AnalysesProofs
  LR.Automaton LR.CloseMirror LR.CloseSpec LR.CloseProofs C02.Model C02.Spec.
Import ListNotations.

(* ---- contexts ------------------------------------------------------------------------ *)

Lemma ctx_intersect_spec a b : ctx_intersect a b = true <-> exists x, In x a /\ In x b.
Proof.
  unfold ctx_intersect. rewrite existsb_exists. split.
  - intros (x & Ha & Hb). exists x. split; [exact Ha|]. apply (proj1 (memN_In x b)). exact Hb.
  - intros (x & Ha & Hb). exists x. split; [exact Ha|]. apply (proj2 (memN_In x b)). exact Hb.
Qed.

Lemma has_core_keys K k : has_core K k <-> In k (keys_of K).
Proof.
  destruct k as [p d]. unfold has_core, keys_of. simpl. rewrite in_map_iff. split.
  - intros (la & H). exists (p, d, la). split; [reflexivity | exact H].
  - intros ([[p' d'] la] & He & H). simpl in He. injection He as Hp Hd. subst p' d'.
    exists la. exact H.
Qed.

Lemma has_key_keys K k : has_key K k = true <-> In k (keys_of K).
Proof.
  destruct k as [p d]. unfold has_key. simpl. destruct (lookup p d K) as [c|] eqn:E.
  - split; [intros _ | reflexivity]. apply lookup_In in E.
    change (p, d) with (fst (p, d, c)). unfold keys_of. apply in_map. exact E.
  - split; [intros H; discriminate H|]. intros H. apply lookup_None_iff in E.
    exfalso. exact (E H).
Qed.

(* the context found by `items[&k]` *)
Definition ctx (K : itemset) (k : key) : list N :=
  match lookup (fst k) (snd k) K with Some c => c | None => [] end.

Lemma get_ctx K k : has_key K k = true -> get K k = Done (ctx K k).
Proof.
  unfold has_key, get, ctx. destruct (lookup (fst k) (snd k) K) as [c|];
    [reflexivity | intros H; discriminate H].
Qed.

Lemma has_la_ctx K k a : is_map K -> (has_la K k a <-> In a (ctx K k)).
Proof.
  intros Hm. destruct k as [p d]. unfold has_la, ctx. simpl. split.
  - intros (la & Hin & Ha). rewrite (In_lookup p d K la Hm Hin). exact Ha.
  - destruct (lookup p d K) as [c|] eqn:E; [|intros []]. intros Ha. exists c.
    split; [apply lookup_In; exact E | exact Ha].
Qed.

Lemma meets_ctx K i K' j : is_map K -> is_map K' ->
  (meets K i K' j <-> ctx_intersect (ctx K i) (ctx K' j) = true).
Proof.
  intros Hm Hm'. rewrite ctx_intersect_spec. unfold meets. split.
  - intros (a & H1 & H2). exists a. split.
    + apply (proj1 (has_la_ctx K i a Hm)). exact H1.
    + apply (proj1 (has_la_ctx K' j a Hm')). exact H2.
  - intros (a & H1 & H2). exists a. split.
    + apply (proj2 (has_la_ctx K i a Hm)). exact H1.
    + apply (proj2 (has_la_ctx K' j a Hm')). exact H2.
Qed.

Lemma meets_sym K i K' j : meets K i K' j -> meets K' j K i.
Proof. intros (a & H1 & H2). exists a. split; [exact H2 | exact H1]. Qed.

(* without the map hypothesis: all the tokens of all the entries with key k *)
Definition all_las (K : itemset) (k : key) : list N :=
  flat_map (fun it : item => if keq (it_p it) (it_d it) (fst k) (snd k) then it_la it else []) K.

Lemma has_la_all K k a : has_la K k a <-> In a (all_las K k).
Proof.
  destruct k as [p d]. unfold has_la, all_las. simpl. rewrite in_flat_map. split.
  - intros (la & Hin & Ha). exists (p, d, la). split; [exact Hin|].
    unfold it_p, it_d, it_la. simpl. rewrite keq_refl. exact Ha.
  - intros ([[p' d'] la] & Hin & Ha). unfold it_p, it_d, it_la in Ha. simpl in Ha.
    destruct (keq p' d' p d) eqn:E; [|destruct Ha].
    apply keq_true in E. destruct E as [Hp Hd]. subst p' d'. exists la.
    split; [exact Hin | exact Ha].
Qed.

Lemma has_la_dec K k a : has_la K k a \/ ~ has_la K k a.
Proof.
  destruct (in_dec N.eq_dec a (all_las K k)) as [H | H].
  - left. apply has_la_all. exact H.
  - right. intros H'. apply H. apply has_la_all. exact H'.
Qed.

Lemma meets_dec K i K' j : meets K i K' j \/ ~ meets K i K' j.
Proof.
  destruct (ctx_intersect (all_las K i) (all_las K' j)) eqn:E.
  - left. apply ctx_intersect_spec in E. destruct E as (a & H1 & H2). exists a. split.
    + apply has_la_all. exact H1.
    + apply has_la_all. exact H2.
  - right. intros (a & H1 & H2).
    assert (Ht : ctx_intersect (all_las K i) (all_las K' j) = true).
    { apply ctx_intersect_spec. exists a. split.
      - apply has_la_all. exact H1.
      - apply has_la_all. exact H2. }
    rewrite Ht in E. discriminate E.
Qed.

(* ---- one pair -------------------------------------------------------------------------- *)

Definition pair_okb (self other : itemset) (i j : key) : bool :=
  negb (ctx_intersect (ctx self i) (ctx other j) || ctx_intersect (ctx self j) (ctx other i))
  || ctx_intersect (ctx self i) (ctx self j) || ctx_intersect (ctx other i) (ctx other j).

Definition pair_ok (self other : itemset) (i j : key) : Prop :=
  (~ meets self i other j /\ ~ meets self j other i) \/ meets self i self j \/ meets other i other j.

Lemma pair_step_ok self other i j :
  has_key self i = true -> has_key self j = true ->
  has_key other i = true -> has_key other j = true ->
  pair_step self other i j = Done (pair_okb self other i j).
Proof.
  intros Hsi Hsj Hoi Hoj. unfold pair_step, pair_okb.
  rewrite (get_ctx self i Hsi), (get_ctx self j Hsj), (get_ctx other i Hoi), (get_ctx other j Hoj).
  cbn [obind].
  destruct (ctx_intersect (ctx self i) (ctx other j));
    destruct (ctx_intersect (ctx self j) (ctx other i));
    destruct (ctx_intersect (ctx self i) (ctx self j));
    destruct (ctx_intersect (ctx other i) (ctx other j)); reflexivity.
Qed.

Lemma pair_okb_spec self other i j : is_map self -> is_map other ->
  (pair_okb self other i j = true <-> pair_ok self other i j).
Proof.
  intros Hs Ho. unfold pair_okb, pair_ok.
  pose proof (meets_ctx self i other j Hs Ho) as H1.
  pose proof (meets_ctx self j other i Hs Ho) as H2.
  pose proof (meets_ctx self i self j Hs Hs) as H3.
  pose proof (meets_ctx other i other j Ho Ho) as H4.
  destruct (ctx_intersect (ctx self i) (ctx other j));
    destruct (ctx_intersect (ctx self j) (ctx other i));
    destruct (ctx_intersect (ctx self i) (ctx self j));
    destruct (ctx_intersect (ctx other i) (ctx other j)); simpl;
    split; intros H; try reflexivity; try discriminate H;
    try (right; left; apply H3; reflexivity);
    try (right; right; apply H4; reflexivity).
  all: try (left; split; intros Hm; [apply H1 in Hm | apply H2 in Hm]; discriminate Hm).
  all: exfalso; destruct H as [[Ha Hb] | [Hc | Hc]];
    try (apply Ha; apply H1; reflexivity);
    try (apply Hb; apply H2; reflexivity);
    try (apply H3 in Hc; discriminate Hc);
    try (apply H4 in Hc; discriminate Hc).
Qed.

Lemma pair_ok_sym self other i j : pair_ok self other i j -> pair_ok self other j i.
Proof.
  unfold pair_ok. intros [[H1 H2] | [H | H]].
  - left. split; [exact H2 | exact H1].
  - right. left. apply meets_sym. exact H.
  - right. right. apply meets_sym. exact H.
Qed.

(* ---- the loops --------------------------------------------------------------------------- *)

Lemma inner_loop_ok self other i js :
  has_key self i = true -> has_key other i = true ->
  (forall j, In j js -> has_key self j = true /\ has_key other j = true) ->
  inner_loop self other i js = Done (forallb (pair_okb self other i) js).
Proof.
  intros Hsi Hoi. induction js as [|j js IH]; intros Hjs; [reflexivity|].
  destruct (Hjs j (or_introl eq_refl)) as [Hsj Hoj].
  cbn [inner_loop forallb]. rewrite (pair_step_ok self other i j Hsi Hsj Hoi Hoj). cbn [obind].
  destruct (pair_okb self other i j); cbn [andb]; [|reflexivity].
  apply IH. intros j' Hj'. apply Hjs. right. exact Hj'.
Qed.

(* every element against the later ones *)
Fixpoint pairsb (f : key -> key -> bool) (l : list key) : bool :=
  match l with
  | [] => true
  | x :: l' => forallb (f x) l' && pairsb f l'
  end.

(* the elements of [is] against the later ones of [is ++ post] *)
Fixpoint pairsb2 (f : key -> key -> bool) (is post : list key) : bool :=
  match is with
  | [] => true
  | x :: is' => forallb (f x) (is' ++ post) && pairsb2 f is' post
  end.

Lemma pairsb2_pairsb f is post : pairsb2 f is post && pairsb f post = pairsb f (is ++ post).
Proof.
  induction is as [|x is IH]; [reflexivity|].
  cbn [pairsb2 pairsb app]. rewrite <- IH, andb_assoc. reflexivity.
Qed.

Lemma pairsb_spec (f : key -> key -> bool) (P : key -> key -> Prop) :
  (forall x y, f x y = true <-> P x y) -> (forall x y, P x y -> P y x) ->
  forall l, NoDup l ->
    (pairsb f l = true <-> forall x y, In x l -> In y l -> x <> y -> P x y).
Proof.
  intros HfP Hsym. induction l as [|z l IH]; intros Hnd.
  - simpl. split; [intros _ x y [] | reflexivity].
  - inversion Hnd as [|z' l' Hz Hnd']; subst z' l'. cbn [pairsb].
    rewrite andb_true_iff, forallb_forall, (IH Hnd'). split.
    + intros [Hz1 Hl] x y [Hx | Hx] [Hy | Hy] Hne.
      * subst x y. exfalso. apply Hne. reflexivity.
      * subst x. apply HfP. apply Hz1. exact Hy.
      * subst y. apply Hsym. apply HfP. apply Hz1. exact Hx.
      * apply Hl; assumption.
    + intros H. split.
      * intros y Hy. apply HfP. apply H; [left; reflexivity | right; exact Hy |].
        intros He. subst y. exact (Hz Hy).
      * intros x y Hx Hy Hne. apply H; [right; exact Hx | right; exact Hy | exact Hne].
Qed.

Lemma outer_loop_ok self other len keys :
  firstn len keys = keys ->
  (forall k, In k keys -> has_key self k = true /\ has_key other k = true) ->
  forall is pre post i, keys = pre ++ is ++ post -> length pre = i ->
    outer_loop self other len keys i is = Done (pairsb2 (pair_okb self other) is post).
Proof.
  intros Hfn Hk. induction is as [|x is IH]; intros pre post i Hkeys Hlen; [reflexivity|].
  cbn [outer_loop pairsb2]. rewrite Hfn.
  assert (Hkeys' : keys = (pre ++ [x]) ++ is ++ post).
  { rewrite Hkeys, <- app_assoc. reflexivity. }
  assert (Hlen' : length (pre ++ [x]) = S i).
  { rewrite app_length. simpl. lia. }
  assert (Hskip : skipn (S i) keys = is ++ post).
  { rewrite Hkeys', skipn_app, Hlen', Nat.sub_diag.
    rewrite skipn_all2 by (rewrite Hlen'; apply le_n). reflexivity. }
  rewrite Hskip.
  assert (Hx : In x keys).
  { rewrite Hkeys. apply in_or_app. right. left. reflexivity. }
  destruct (Hk x Hx) as [Hsx Hox].
  rewrite (inner_loop_ok self other x (is ++ post) Hsx Hox).
  - cbn [obind]. destruct (forallb (pair_okb self other x) (is ++ post)); cbn [andb]; [|reflexivity].
    apply (IH (pre ++ [x]) post (S i) Hkeys' Hlen').
  - intros j Hj. apply Hk. rewrite Hkeys'. apply in_or_app. right. exact Hj.
Qed.

(* ---- sizes --------------------------------------------------------------------------------- *)

Lemma keys_perm_length K keys : is_map K -> keys_perm K keys -> length keys = length K.
Proof.
  intros Hm [Hnd Hin]. transitivity (length (keys_of K)); [|apply map_length].
  apply Nat.le_antisymm; apply NoDup_incl_length.
  - exact Hnd.
  - intros k Hk. apply Hin. exact Hk.
  - exact Hm.
  - intros k Hk. apply Hin. exact Hk.
Qed.

Lemma same_cores_length K1 K2 : is_map K1 -> is_map K2 -> same_cores K1 K2 ->
  length K1 = length K2.
Proof.
  intros H1 H2 Hsc.
  assert (Hl : length (keys_of K1) = length (keys_of K2)).
  2:{ unfold keys_of in Hl. rewrite !map_length in Hl. exact Hl. }
  apply Nat.le_antisymm; apply NoDup_incl_length.
  - exact H1.
  - intros k Hk. apply has_core_keys. apply Hsc. apply has_core_keys. exact Hk.
  - exact H2.
  - intros k Hk. apply has_core_keys. apply Hsc. apply has_core_keys. exact Hk.
Qed.

(* ---- weakly_compatible --------------------------------------------------------------------- *)

Lemma weakly_compatible_mirror_spec : weakly_compatible_mirror_spec_stmt.
Proof.
  intros keys self other Hs Ho Hkp Hne.
  pose proof (keys_perm_length self keys Hs Hkp) as Hlen.
  destruct Hkp as [Hnd Hin].
  unfold weakly_compatible_mirror. cbv zeta.
  destruct (Nat.eqb (length self) (length other)) eqn:El; cbn [negb].
  2:{ exists false. split; [reflexivity|]. split; [intros H; discriminate H|].
      intros [Hsc _]. apply Nat.eqb_neq in El. exfalso. apply El.
      apply same_cores_length; assumption. }
  apply Nat.eqb_eq in El.
  destruct (forallb (has_key other) keys) eqn:Ef; cbn [negb].
  2:{ exists false. split; [reflexivity|]. split; [intros H; discriminate H|].
      intros [Hsc _].
      assert (Ht : forallb (has_key other) keys = true).
      { apply forallb_forall. intros k Hk. apply has_key_keys. apply has_core_keys.
        apply Hsc. apply has_core_keys. apply Hin. exact Hk. }
      rewrite Ht in Ef. discriminate Ef. }
  rewrite forallb_forall in Ef.
  assert (Hsc : same_cores self other).
  { intros k. rewrite !has_core_keys. split.
    - intros Hk. apply has_key_keys. apply Ef. apply Hin. exact Hk.
    - revert k. change (incl (keys_of other) (keys_of self)). apply NoDup_length_incl.
      + exact Hs.
      + unfold keys_of. rewrite !map_length. apply Nat.eq_le_incl. symmetry. exact El.
      + intros k Hk. apply has_key_keys. apply Ef. apply Hin. exact Hk. }
  destruct (Nat.eqb (length self) 1) eqn:E1.
  { exists true. split; [reflexivity|]. split; [intros _ | reflexivity].
    split; [exact Hsc|]. intros i j Hi Hj Hij. exfalso. apply Hij.
    apply Nat.eqb_eq in E1. destruct self as [|it [|it2 self']]; try discriminate E1.
    destruct Hi as [la Hi]. destruct Hj as [la' Hj].
    destruct Hi as [Hi | []]. destruct Hj as [Hj | []].
    destruct i as [pi di]. destruct j as [pj dj]. simpl in Hi, Hj.
    rewrite Hi in Hj. injection Hj as Hp Hd _. subst pj dj. reflexivity. }
  destruct (Nat.eqb (length self) 0) eqn:E0.
  { apply Nat.eqb_eq in E0. destruct self as [|it self']; [|discriminate E0].
    exfalso. apply Hne. reflexivity. }
  assert (Hkne : keys <> []).
  { intros He. rewrite He in Hlen. simpl in Hlen. rewrite <- Hlen in E0. discriminate E0. }
  destruct (exists_last Hkne) as (ks & z & Hkz).
  assert (Hfn : firstn (length self) keys = keys).
  { rewrite <- Hlen. apply firstn_all. }
  assert (Hfn1 : firstn (length self - 1) keys = ks).
  { rewrite <- Hlen, Hkz, app_length. simpl length.
    replace (length ks + 1 - 1) with (length ks + 0) by lia.
    rewrite firstn_app_2. simpl. apply app_nil_r. }
  assert (Hall : forall k, In k keys -> has_key self k = true /\ has_key other k = true).
  { intros k Hk. split; [|apply Ef; exact Hk]. apply has_key_keys. apply Hin. exact Hk. }
  rewrite Hfn1.
  rewrite (outer_loop_ok self other (length self) keys Hfn Hall ks [] [z] 0 Hkz eq_refl).
  exists (pairsb (pair_okb self other) keys). split.
  { f_equal. rewrite Hkz, <- pairsb2_pairsb. cbn [pairsb forallb]. rewrite andb_true_r.
    reflexivity. }
  rewrite (pairsb_spec (pair_okb self other) (pair_ok self other)
             (fun x y => pair_okb_spec self other x y Hs Ho)
             (pair_ok_sym self other) keys Hnd).
  unfold weakly_compatible_spec, pair_ok. split.
  - intros H. split; [exact Hsc|]. intros i j Hi Hj Hij. apply H.
    + apply Hin. apply has_core_keys. exact Hi.
    + apply Hin. apply has_core_keys. exact Hj.
    + exact Hij.
  - intros [_ H] x y Hx Hy Hxy. apply H.
    + apply has_core_keys. apply Hin. exact Hx.
    + apply has_core_keys. apply Hin. exact Hy.
    + exact Hxy.
Qed.

Lemma bool_iff_eq (b1 b2 : bool) (P Q : Prop) :
  (b1 = true <-> P) -> (b2 = true <-> Q) -> (P <-> Q) -> b1 = b2.
Proof.
  intros H1 H2 HPQ. destruct b1, b2; try reflexivity.
  - symmetry. apply H2. apply HPQ. apply H1. reflexivity.
  - apply H1. apply HPQ. apply H2. reflexivity.
Qed.

Lemma weakly_compatible_order_insensitive : weakly_compatible_order_insensitive_stmt.
Proof.
  intros keys1 keys2 self other Hs Ho Hk1 Hk2 Hne.
  destruct (weakly_compatible_mirror_spec keys1 self other Hs Ho Hk1 Hne) as (b1 & E1 & H1).
  destruct (weakly_compatible_mirror_spec keys2 self other Hs Ho Hk2 Hne) as (b2 & E2 & H2).
  rewrite E1, E2. f_equal.
  apply (bool_iff_eq b1 b2 _ _ H1 H2). reflexivity.
Qed.

Lemma weakly_compatible_never_panics : weakly_compatible_never_panics_stmt.
Proof.
  intros keys self other Hs Ho Hk Hne.
  destruct (weakly_compatible_mirror_spec keys self other Hs Ho Hk Hne) as (b & E & _).
  rewrite E. intros H. discriminate H.
Qed.

(* the specification reads the two lists as sets only *)
Lemma has_core_ext K K' k : (forall i, In i K <-> In i K') -> (has_core K k <-> has_core K' k).
Proof.
  intros He. unfold has_core. split; intros (la & H); exists la; apply He; exact H.
Qed.

Lemma has_la_ext K K' k a : (forall i, In i K <-> In i K') -> (has_la K k a <-> has_la K' k a).
Proof.
  intros He. unfold has_la. split; intros (la & H & Ha); exists la;
    (split; [apply He; exact H | exact Ha]).
Qed.

Lemma meets_ext K1 K1' K2 K2' i j :
  (forall x, In x K1 <-> In x K1') -> (forall x, In x K2 <-> In x K2') ->
  (meets K1 i K2 j <-> meets K1' i K2' j).
Proof.
  intros H1 H2. unfold meets. split; intros (a & Ha & Hb); exists a.
  - split; [apply (proj1 (has_la_ext K1 K1' i a H1)); exact Ha
           | apply (proj1 (has_la_ext K2 K2' j a H2)); exact Hb].
  - split; [apply (proj2 (has_la_ext K1 K1' i a H1)); exact Ha
           | apply (proj2 (has_la_ext K2 K2' j a H2)); exact Hb].
Qed.

Lemma weakly_compatible_spec_ext A A' B B' :
  (forall x, In x A <-> In x A') -> (forall x, In x B <-> In x B') ->
  weakly_compatible_spec A B -> weakly_compatible_spec A' B'.
Proof.
  intros HA HB [Hsc Hp]. split.
  - intros k. rewrite <- (has_core_ext A A' k HA), <- (has_core_ext B B' k HB). apply Hsc.
  - intros i j Hi Hj Hij.
    apply (proj2 (has_core_ext A A' i HA)) in Hi.
    apply (proj2 (has_core_ext A A' j HA)) in Hj.
    rewrite <- (meets_ext A A' B B' i j HA HB), <- (meets_ext A A' B B' j i HA HB),
            <- (meets_ext A A' A A' i j HA HA), <- (meets_ext B B' B B' i j HB HB).
    apply Hp; assumption.
Qed.

Lemma weakly_compatible_layout_insensitive : weakly_compatible_layout_insensitive_stmt.
Proof.
  intros keys keys' self self' other other' Hs Ho Hs' Ho' HeS HeO Hk Hk' Hne.
  assert (Hne' : self' <> []).
  { intros He. destruct self as [|it self0]; [apply Hne; reflexivity|].
    assert (Hi : In it self') by (apply HeS; left; reflexivity).
    rewrite He in Hi. destruct Hi. }
  destruct (weakly_compatible_mirror_spec keys self other Hs Ho Hk Hne) as (b1 & E1 & H1).
  destruct (weakly_compatible_mirror_spec keys' self' other' Hs' Ho' Hk' Hne') as (b2 & E2 & H2).
  rewrite E1, E2. f_equal.
  apply (bool_iff_eq b1 b2 _ _ H1 H2). split.
  - apply weakly_compatible_spec_ext; assumption.
  - apply weakly_compatible_spec_ext; intros x; symmetry; [apply HeS | apply HeO].
Qed.

Lemma weakly_compatible_spec_sym : weakly_compatible_spec_sym_stmt.
Proof.
  intros K1 K2 [Hsc Hp]. split.
  - intros k. symmetry. apply Hsc.
  - intros i j Hi Hj Hij. apply Hsc in Hi. apply Hsc in Hj.
    destruct (Hp i j Hi Hj Hij) as [[H1 H2] | [H | H]].
    + left. split.
      * intros Hm. apply H2. apply meets_sym. exact Hm.
      * intros Hm. apply H1. apply meets_sym. exact Hm.
    + right. right. exact H.
    + right. left. exact H.
Qed.

Lemma weakly_compatible_spec_refl : weakly_compatible_spec_refl_stmt.
Proof.
  intros K. split.
  - intros k. reflexivity.
  - intros i j _ _ _. destruct (meets_dec K i K j) as [H | H].
    + right. left. exact H.
    + left. split; [exact H|]. intros H'. apply H. apply meets_sym. exact H'.
Qed.

(* ---- weakly_merge ------------------------------------------------------------------------------ *)

Lemma merge_shape other : forall self,
  (forall i, In i self -> has_key other (fst i) = true) ->
  exists m ch, weakly_merge_mirror self other = Done (m, ch) /\
    keys_of m = keys_of self /\
    (forall p d c, In (p, d, c) m <->
       exists la, In (p, d, la) self /\ c = unionN (ctx other (p, d)) la) /\
    (ch = true <->
       exists p d la, In (p, d, la) self /\ subsetN (ctx other (p, d)) la = false).
Proof.
  induction self as [|[[p d] la] s IH]; intros Hk.
  - exists [], false. split; [reflexivity|]. split; [reflexivity|]. split.
    + intros p d c. split; [intros [] | intros (la & [] & _)].
    + split; [intros H; discriminate H | intros (p & d & la & [] & _)].
  - destruct IH as (m & ch & Hm & Hkeys & HIn & Hch).
    { intros i Hi. apply Hk. right. exact Hi. }
    cbn [weakly_merge_mirror]. unfold it_p, it_d, it_la. cbn [fst snd].
    rewrite (get_ctx other (p, d) (Hk (p, d, la) (or_introl eq_refl))). cbn [obind].
    rewrite Hm. unfold ctx_or. cbn [obind fst snd].
    exists ((p, d, unionN (ctx other (p, d)) la) :: m),
           (negb (subsetN (ctx other (p, d)) la) || ch).
    split; [reflexivity|]. split; [simpl; rewrite Hkeys; reflexivity|]. split.
    + intros p' d' c. simpl. rewrite HIn. split.
      * intros [He | (la' & Hin & Hc)].
        -- injection He as Hp Hd Hc. subst p' d' c. exists la.
           split; [left; reflexivity | reflexivity].
        -- exists la'. split; [right; exact Hin | exact Hc].
      * intros (la' & [He | Hin] & Hc).
        -- injection He as Hp Hd Hl. subst p' d' la' c. left. reflexivity.
        -- right. exists la'. split; [exact Hin | exact Hc].
    + rewrite orb_true_iff, negb_true_iff, Hch. split.
      * intros [H | (p' & d' & la' & Hin & Hsub)].
        -- exists p, d, la. split; [left; reflexivity | exact H].
        -- exists p', d', la'. split; [right; exact Hin | exact Hsub].
      * intros (p' & d' & la' & [He | Hin] & Hsub).
        -- injection He as Hp Hd Hl. subst p' d' la'. left. exact Hsub.
        -- right. exists p', d', la'. split; [exact Hin | exact Hsub].
Qed.

Lemma weakly_merge_mirror_spec : weakly_merge_mirror_spec_stmt.
Proof.
  intros self other Hs Ho Hcores.
  destruct (merge_shape other self) as (m & ch & Hm & Hkeys & HIn & Hch).
  { intros [[p d] la] Hi. simpl. apply has_key_keys. apply has_core_keys.
    apply Hcores. exists la. exact Hi. }
  assert (Hla : forall k a,
            has_la m k a <-> has_la self k a \/ (has_core self k /\ has_la other k a)).
  { intros [p d] a. split.
    - intros (c & Hc & Ha). simpl in Hc. apply HIn in Hc. destruct Hc as (la & Hin & Hc).
      subst c. apply In_unionN in Ha. destruct Ha as [Ha | Ha].
      + right. split; [exists la; exact Hin|].
        apply (proj2 (has_la_ctx other (p, d) a Ho)). exact Ha.
      + left. exists la. split; [exact Hin | exact Ha].
    - intros [(la & Hin & Ha) | [(la & Hin) Ha]].
      + exists (unionN (ctx other (p, d)) la). simpl in Hin |- *. split.
        * apply HIn. exists la. split; [exact Hin | reflexivity].
        * apply In_unionN. right. exact Ha.
      + exists (unionN (ctx other (p, d)) la). simpl in Hin |- *. split.
        * apply HIn. exists la. split; [exact Hin | reflexivity].
        * apply In_unionN. left. apply (proj1 (has_la_ctx other (p, d) a Ho)). exact Ha. }
  assert (Hch' : ch = true <->
            exists k a, has_core self k /\ has_la other k a /\ ~ has_la self k a).
  { rewrite Hch. split.
    - intros (p & d & la & Hin & Hsub). apply subsetN_false in Hsub.
      destruct Hsub as (t & Ht & Hmem). exists (p, d), t.
      split; [exists la; exact Hin|]. split.
      + apply (proj2 (has_la_ctx other (p, d) t Ho)). exact Ht.
      + intros (la' & Hin' & Ht'). simpl in Hin'.
        pose proof (In_lookup p d self la Hs Hin) as E1.
        pose proof (In_lookup p d self la' Hs Hin') as E2.
        rewrite E1 in E2. injection E2 as E2. subst la'.
        apply (proj2 (memN_In t la)) in Ht'. rewrite Ht' in Hmem. discriminate Hmem.
    - intros ([p d] & a & (la & Hin) & Ho' & Hns). simpl in Hin. exists p, d, la.
      split; [exact Hin|].
      destruct (subsetN (ctx other (p, d)) la) eqn:E; [|reflexivity].
      exfalso. apply Hns. exists la. split; [exact Hin|].
      apply subsetN_incl in E. apply E.
      apply (proj1 (has_la_ctx other (p, d) a Ho)). exact Ho'. }
  exists m, ch. split; [exact Hm|]. split; [exact Hkeys|]. split; [exact Hla|].
  split; [exact Hch'|]. split.
  - intros Hf. split.
    + intros p d. change (has_core m (p, d) <-> has_core self (p, d)).
      rewrite !has_core_keys, Hkeys. reflexivity.
    + intros p d a. change (has_la m (p, d) a <-> has_la self (p, d) a).
      rewrite Hla. split; [|intros H; left; exact H].
      intros [H | [Hc Ho']]; [exact H|].
      destruct (has_la_dec self (p, d) a) as [H | H]; [exact H|]. exfalso.
      assert (Ht : ch = true).
      { apply Hch'. exists (p, d), a. split; [exact Hc|]. split; [exact Ho' | exact H]. }
      rewrite Ht in Hf. discriminate Hf.
  - intros [_ Hsame]. destruct ch; [|reflexivity]. exfalso.
    destruct (proj1 Hch' eq_refl) as ([p d] & a & Hc & Ho' & Hns). apply Hns.
    apply (proj1 (Hsame p d a)). change (has_la m (p, d) a).
    apply Hla. right. split; [exact Hc | exact Ho'].
Qed.

Lemma weakly_merge_is_union : weakly_merge_is_union_stmt.
Proof.
  intros self other Hs Ho [Hsc Hp].
  destruct (weakly_merge_mirror_spec self other Hs Ho) as (m & ch & Hm & Hkeys & Hla & _).
  { intros k Hk. apply Hsc. exact Hk. }
  exists m, ch. split; [exact Hm|]. split; [unfold is_map; rewrite Hkeys; exact Hs|]. split.
  - intros k. rewrite !has_core_keys, Hkeys. reflexivity.
  - intros k a. rewrite Hla. split.
    + intros [H | [_ H]]; [left; exact H | right; exact H].
    + intros [H | H]; [left; exact H|]. right. split; [|exact H].
      apply Hsc. destruct H as (la & Hin & _). exists la. exact Hin.
Qed.
