(* C02 — proof of pager_mirror_never_panics_stmt (LoopSpec.v): no [Panic] site of
   the mirror of pager_stategraph (LoopModel.v) is reachable, the deliberate StorageT
   size checks being excluded by the bound on max_st.

   Invariant ([PInv], next to [Inv] of LoopProofs.v): closed / core / edges have one
   length; todo = the number of None entries of closed_states (so next_state finds a
   state while todo <> 0, and all closed states are Some at the exit of the loop);
   the candidate tables have nrules resp. ntoks + 1 entries and every candidate and
   every edge target is a state index; no core state is empty (weakly_compatible's
   `len - 1`).  Every step is shown to return Done (close runs on close_fuel), so
   the only non-Done outcome of the loop is OutOfFuel.  An iteration adds at most one
   state per symbol: the symbols of new_states are distinct and in range. *)
From Coq Require Import List Arith NArith Bool Lia.
From GV Require Import Common.Outcome Base.Grammar Base.GrammarFacts Base.Analyses Base.AnalysesProofs LR.Automaton
  LR.Validator LR.CloseMirror LR.CloseSpec LR.CloseProofs C02.Model C02.Spec C02.Proofs
  C02.PagerSpec C02.PagerProofsBridge C02.PagerProofsMisc C02.PagerProofsMain C02.PagerProofsExists
  C02.Lr1Model C02.Lr1Spec C02.Lr1Proofs C02.LoopModel C02.LoopSpec C02.LoopProofs C02.LoopEdgeProofs.
Import ListNotations.

(* ---- closed_states: the None entries ---------------------------------------------------------- *)

Fixpoint count_none (l : list (option itemset)) : nat :=
  match l with
  | [] => 0
  | None :: l' => S (count_none l')
  | Some _ :: l' => count_none l'
  end.

Lemma pp_first_none_some : forall l i, first_none l = Some i -> nth_error l i = Some None.
Proof.
  induction l as [|o l IH]; intros i H; cbn [first_none] in H.
  - discriminate H.
  - destruct o as [c|].
    + destruct (first_none l) as [j|]; [|discriminate H]. cbn [option_map] in H.
      injection H as H. subst i. exact (IH j eq_refl).
    + injection H as H. subst i. reflexivity.
Qed.

Lemma pp_first_none_none : forall l, first_none l = None -> count_none l = 0.
Proof.
  induction l as [|o l IH]; intros H; cbn [first_none] in H.
  - reflexivity.
  - destruct o as [c|]; [|discriminate H]. cbn [count_none].
    destruct (first_none l); [discriminate H|]. exact (IH eq_refl).
Qed.

Lemma pp_nth_error_skipn {A : Type} : forall off (l : list A) i,
  nth_error (skipn off l) i = nth_error l (off + i).
Proof.
  induction off as [|off IH]; intros l i.
  - reflexivity.
  - destruct l as [|x l]; cbn [skipn].
    + destruct i; reflexivity.
    + exact (IH l i).
Qed.

Lemma pp_next_state st : count_none (closed_sts st) <> 0 ->
  exists i, next_state st = Done i /\ nth_error (closed_sts st) i = Some None.
Proof.
  intros Hc. unfold next_state.
  destruct (first_none (skipn (todo_off st) (closed_sts st))) as [i|] eqn:E1.
  - exists (todo_off st + i). split; [reflexivity|].
    rewrite <- pp_nth_error_skipn. exact (pp_first_none_some _ _ E1).
  - destruct (first_none (closed_sts st)) as [i|] eqn:E2.
    + exists i. split; [reflexivity|exact (pp_first_none_some _ _ E2)].
    + exfalso. exact (Hc (pp_first_none_none _ E2)).
Qed.

Lemma pp_count_set_some c : forall l i, nth_error l i = Some None ->
  S (count_none (set_nth i (Some c) l)) = count_none l.
Proof.
  induction l as [|o l IH]; intros [|i] H; simpl in H; try discriminate H.
  - injection H as H. subst o. reflexivity.
  - cbn [set_nth count_none]. destruct o; rewrite <- (IH i H); reflexivity.
Qed.

Lemma pp_count_set_none c : forall l k, nth_error l k = Some (Some c) ->
  count_none (set_nth k None l) = S (count_none l).
Proof.
  induction l as [|o l IH]; intros [|k] H; simpl in H; try discriminate H.
  - injection H as H. subst o. reflexivity.
  - cbn [set_nth count_none]. destruct o; rewrite (IH k H); reflexivity.
Qed.

Lemma pp_count_app : forall l, count_none (l ++ [None]) = S (count_none l).
Proof.
  induction l as [|o l IH]; cbn [app count_none].
  - reflexivity.
  - destruct o; rewrite IH; reflexivity.
Qed.

Lemma pp_unwrap_done : forall l, count_none l = 0 ->
  exists cl, fold_right (fun o acc => do l <- acc; match o with Some c => Done (c :: l) | None => Panic end)
                        (Done []) l = Done cl.
Proof.
  induction l as [|o l IH]; intros H; cbn [fold_right].
  - exists []. reflexivity.
  - destruct o as [c|]; cbn [count_none] in H; [|discriminate H].
    destruct (IH H) as (cl & Hcl). rewrite Hcl. cbn [obind]. exists (c :: cl). reflexivity.
Qed.

Lemma pp_nth_checked {A : Type} (l : list A) i : i < length l -> exists x, nth_checked l i = Done x.
Proof.
  intros H. destruct (le_nth_error_ex l i H) as (x & Hx). exists x.
  unfold nth_checked. rewrite Hx. reflexivity.
Qed.

(* ---- the invariant about indices ------------------------------------------------------------------ *)

Record PInv (g : grammar) (cores : list itemset) (closed : list (option itemset))
  (edges : list (list (sym * nat))) (cr ct : list (list nat)) (td : nat) : Prop := mkPInv {
  pi_len_c : length closed = length cores;
  pi_len_e : length edges = length cores;
  pi_todo : td = count_none closed;
  pi_cr : length cr = N.to_nat (nrules g);
  pi_ct : length ct = S (N.to_nat (ntoks g));
  pi_cnd : forall l, In l cr \/ In l ct -> forall c, In c l -> c < length cores;
  pi_tgt : forall es e, In es edges -> In e es -> snd e < length cores;
  pi_ne : forall c, In c cores -> c <> []
}.

Definition PInvS (g : grammar) (st : pst) : Prop :=
  PInv g (core_sts st) (closed_sts st) (edges_st st) (cnd_rule st) (cnd_tok st) (todo st).

Lemma pp_in_edge_insert X t e : forall es, In e (edge_insert X t es) -> e = (X, t) \/ In e es.
Proof.
  induction es as [|[Y u] es IH]; cbn [edge_insert]; intros H.
  - destruct H as [H|[]]. left. symmetry. exact H.
  - destruct (sym_eqb X Y).
    + destruct H as [H|H]; [left; symmetry; exact H|right; right; exact H].
    + destruct H as [H|H]; [right; left; exact H|].
      destruct (IH H) as [H'|H']; [left; exact H'|right; right; exact H'].
Qed.

Lemma pp_PInv_ins g cores closed edges cr ct td i es X t :
  PInv g cores closed edges cr ct td -> nth_error edges i = Some es -> t < length cores ->
  PInv g cores closed (set_nth i (edge_insert X t es) edges) cr ct td.
Proof.
  intros [H1 H2 H3 H4 H5 H6 H7 H8] Hes Ht. constructor; try assumption.
  - rewrite lp_set_nth_length. exact H2.
  - intros es' e Hes' He. destruct (le_in_set_nth _ _ _ _ Hes') as [E|Hin].
    + subst es'. destruct (pp_in_edge_insert X t e es He) as [E|Hin].
      * subst e. exact Ht.
      * exact (H7 es e (nth_error_In _ _ Hes) Hin).
    + exact (H7 es' e Hin He).
Qed.

Lemma pp_PInv_core g cores closed edges cr ct td k m :
  PInv g cores closed edges cr ct td -> m <> [] ->
  PInv g (set_nth k m cores) closed edges cr ct td.
Proof.
  intros [H1 H2 H3 H4 H5 H6 H7 H8] Hm. constructor; try assumption;
    try (rewrite lp_set_nth_length; assumption).
  - intros c Hc. destruct (le_in_set_nth _ _ _ _ Hc) as [E|Hin]; [subst c; exact Hm|exact (H8 c Hin)].
Qed.

Lemma pp_PInv_closed g cores closed edges cr ct td closed' td' :
  PInv g cores closed edges cr ct td -> length closed' = length closed ->
  td' = count_none closed' -> PInv g cores closed' edges cr ct td'.
Proof.
  intros [H1 H2 H3 H4 H5 H6 H7 H8] Hl Ht. constructor; try assumption. lia.
Qed.

Lemma pp_PInv_app g cores closed edges cr ct td ns :
  PInv g cores closed edges cr ct td -> ns <> [] ->
  PInv g (cores ++ [ns]) (closed ++ [None]) (edges ++ [[]]) cr ct (S td).
Proof.
  intros [H1 H2 H3 H4 H5 H6 H7 H8] Hns. constructor; try assumption.
  - rewrite !app_length. simpl. lia.
  - rewrite !app_length. simpl. lia.
  - rewrite pp_count_app, H3. reflexivity.
  - intros l Hl c Hc. rewrite app_length. pose proof (H6 l Hl c Hc). lia.
  - intros es e Hes He. rewrite app_length. apply in_app_or in Hes. destruct Hes as [Hes|[Hes|[]]].
    + pose proof (H7 es e Hes He). lia.
    + subst es. destruct He.
  - intros c Hc. apply in_app_or in Hc. destruct Hc as [Hc|[Hc|[]]]; [exact (H8 c Hc)|subst c; exact Hns].
Qed.

Lemma pp_PInv_push g cores closed edges td st0 X k :
  PInv g cores closed edges (cnd_rule st0) (cnd_tok st0) td -> k < length cores ->
  PInv g cores closed edges (cnd_rule (cnd_push st0 X k)) (cnd_tok (cnd_push st0 X k)) td.
Proof.
  intros [H1 H2 H3 H4 H5 H6 H7 H8] Hk.
  assert (Hnew : forall (L : list (list nat)) i, (forall l, In l L -> forall c, In c l -> c < length cores) ->
            forall l, In l (set_nth i (nth i L [] ++ [k]) L) -> forall c, In c l -> c < length cores).
  { intros L i HL l Hl c Hc. destruct (le_in_set_nth _ _ _ _ Hl) as [E|Hin].
    - subst l. apply in_app_iff in Hc. destruct Hc as [Hc|[Hc|[]]]; [|lia].
      destruct (nth_in_or_default i L []) as [Hn|Hn].
      + exact (HL _ Hn c Hc).
      + rewrite Hn in Hc. destruct Hc.
    - exact (HL l Hin c Hc). }
  destruct X as [t|r]; cbn [cnd_push cnd_rule cnd_tok]; constructor; try assumption.
  - rewrite lp_set_nth_length. exact H5.
  - intros l [Hl|Hl] c Hc.
    + apply (H6 l); [left; exact Hl|exact Hc].
    + apply (Hnew (cnd_tok st0) (N.to_nat t)) with (l := l); [|exact Hl|exact Hc].
      intros l0 Hl0. apply H6. right. exact Hl0.
  - rewrite lp_set_nth_length. exact H4.
  - intros l [Hl|Hl] c Hc.
    + apply (Hnew (cnd_rule st0) (N.to_nat r)) with (l := l); [|exact Hl|exact Hc].
      intros l0 Hl0. apply H6. left. exact Hl0.
    + apply (H6 l); [right; exact Hl|exact Hc].
Qed.

(* ---- the scans over the candidates ------------------------------------------------------------------ *)

Lemma pp_cnd_of g st X : PInvS g st -> sym_in_range g X = true -> exists cnds, cnd_of st X = Done cnds.
Proof.
  intros HP HX. destruct X as [t|r]; cbn [cnd_of sym_in_range] in *; apply N.ltb_lt in HX;
    apply pp_nth_checked.
  - rewrite (pi_ct _ _ _ _ _ _ _ HP). lia.
  - rewrite (pi_cr _ _ _ _ _ _ _ HP). lia.
Qed.

Lemma pp_find_same cores ns : forall cnds, (forall c, In c cnds -> c < length cores) ->
  exists r, find_same cores ns cnds = Done r.
Proof.
  induction cnds as [|c cs IH]; intros H; cbn [find_same].
  - exists None. reflexivity.
  - destruct (pp_nth_checked cores c (H c (or_introl eq_refl))) as (k & Hk). rewrite Hk. cbn [obind].
    destruct (itemset_same k ns); [exists (Some c); reflexivity|].
    apply IH. intros c' Hc'. apply H. right. exact Hc'.
Qed.

Lemma pp_find_weak cores ns : is_map ns ->
  forall cnds, (forall c, In c cnds -> exists ck, nth_error cores c = Some ck /\ is_map ck /\ ck <> []) ->
  exists r, find_weak cores ns cnds = Done r.
Proof.
  intros Hns. induction cnds as [|c cs IH]; intros H; cbn [find_weak].
  - exists None. reflexivity.
  - destruct (H c (or_introl eq_refl)) as (ck & Hck & Hm & Hne).
    unfold nth_checked. rewrite Hck. cbn [obind].
    assert (Hperm : keys_perm ck (keys_of ck)).
    { split; [exact Hm|]. intros k. split; intros Hk; exact Hk. }
    destruct (weakly_compatible_mirror_spec (keys_of ck) ck ns Hm Hns Hperm Hne) as (b & Hb & _).
    rewrite Hb. cbn [obind]. destruct b; [exists (Some c); reflexivity|].
    apply IH. intros c' Hc'. apply H. right. exact Hc'.
Qed.

Lemma pp_merge_done g ck ns : items_ok g ck = true -> items_ok g ns = true -> ck <> [] ->
  weakly_compatible_mirror (keys_of ck) ck ns = Done true ->
  exists mr, weakly_merge_mirror ck ns = Done mr /\ fst mr <> [].
Proof.
  intros Hokck Hokns Hne Hwc.
  pose proof (items_ok_is_map g ck Hokck) as Hmck.
  pose proof (items_ok_is_map g ns Hokns) as Hmns.
  assert (Hperm : keys_perm ck (keys_of ck)).
  { split; [exact Hmck|]. intros k. split; intros Hk; exact Hk. }
  destruct (weakly_compatible_mirror_spec (keys_of ck) ck ns Hmck Hmns Hperm Hne) as (b & Hb & Hbs).
  rewrite Hwc in Hb. injection Hb as Hb.
  assert (Hspec : weakly_compatible_spec ck ns).
  { apply (proj1 Hbs). symmetry. exact Hb. }
  destruct (weakly_merge_is_union ck ns Hmck Hmns Hspec) as (m & ch & Hm & _ & Hu).
  exists (m, ch). split; [exact Hm|]. cbn [fst]. intros Hnil.
  destruct ck as [|[[p d] la] ck]; [exact (Hne eq_refl)|].
  assert (Hc : has_core m (p, d)).
  { apply (proj1 (proj1 Hu (p, d))). exists la. left. reflexivity. }
  subst m. destruct Hc as [la' []].
Qed.

(* ---- the body of the loop over new_states never panics ----------------------------------------------- *)

Lemma pp_cnd_push_todo st X k : todo (cnd_push st X k) = todo st.
Proof. destruct X; reflexivity. Qed.

Lemma pp_place g max_st cur st X ns :
  wf_grammar g = true -> Inv g st -> PInvS g st -> cur < length (core_sts st) ->
  sym_in_range g X = true -> pager_reachable g ns -> ns <> [] ->
  (N.of_nat (length (core_sts st)) < max_st)%N ->
  exists st', place max_st cur st X ns = Done st' /\ PInvS g st' /\
    length (core_sts st) <= length (core_sts st') <= S (length (core_sts st)).
Proof.
  intros Hwf HI HP Hcur HX Hnsr Hnsne Hmax.
  pose proof HI as (HIlen & HIr & HIc).
  pose proof (pager_reachable_items_ok g ns Hwf Hnsr) as Hnsok.
  destruct (pp_cnd_of g st X HP HX) as (cnds & Ecnd).
  assert (Hcnds : forall c, In c cnds -> c < length (core_sts st)).
  { intros c Hc. exact (pi_cnd _ _ _ _ _ _ _ HP cnds (le_cnd_of_in st X cnds Ecnd) c Hc). }
  destruct (pp_find_same (core_sts st) ns cnds Hcnds) as (same & Esame).
  assert (Hcur_e : cur < length (edges_st st)) by (rewrite (pi_len_e _ _ _ _ _ _ _ HP); exact Hcur).
  destruct (pp_nth_checked (edges_st st) cur Hcur_e) as (es & Ees).
  pose proof (le_nth_checked _ _ _ Ees) as Hes.
  unfold place. rewrite Ecnd. cbn [obind]. rewrite Esame. cbn [obind].
  destruct same as [c|].
  - unfold insert_edge. rewrite Ees. cbn [obind]. eexists. split; [reflexivity|].
    unfold PInvS. cbn [core_sts closed_sts edges_st cnd_rule cnd_tok todo].
    split; [|lia]. apply pp_PInv_ins; [exact HP|exact Hes|].
    destruct (le_find_same_spec _ _ _ _ Esame) as (kc & Hkc & _). exact (le_nth_error_lt _ _ _ Hkc).
  - assert (Hw : forall c, In c cnds ->
              exists ck, nth_error (core_sts st) c = Some ck /\ is_map ck /\ ck <> []).
    { intros c Hc. destruct (le_nth_error_ex _ c (Hcnds c Hc)) as (ck & Hck). exists ck.
      split; [exact Hck|]. split.
      - exact (items_ok_is_map g ck (pager_reachable_items_ok g ck Hwf (HIr c ck Hck))).
      - exact (pi_ne _ _ _ _ _ _ _ HP ck (nth_error_In _ _ Hck)). }
    destruct (pp_find_weak (core_sts st) ns (items_ok_is_map g ns Hnsok) cnds Hw) as (m & Eweak).
    rewrite Eweak. cbn [obind]. destruct m as [k|].
    + unfold insert_edge. rewrite Ees.
      cbn [obind core_sts closed_sts edges_st cnd_rule cnd_tok todo todo_off].
      destruct (lp_find_weak_spec _ _ _ _ Eweak) as (ck & Hck & Hwc).
      assert (Eck : nth_checked (core_sts st) k = Done ck).
      { unfold nth_checked. rewrite Hck. reflexivity. }
      rewrite Eck. cbn [obind].
      pose proof (pager_reachable_items_ok g ck Hwf (HIr k ck Hck)) as Hckok.
      pose proof (pi_ne _ _ _ _ _ _ _ HP ck (nth_error_In _ _ Hck)) as Hckne.
      destruct (pp_merge_done g ck ns Hckok Hnsok Hckne Hwc) as (mr & Emr & Hmne).
      rewrite Emr. cbn [obind].
      pose proof (le_nth_error_lt _ _ _ Hck) as Hklt.
      assert (Hbase : PInv g (set_nth k (fst mr) (core_sts st)) (closed_sts st)
                        (set_nth cur (edge_insert X k es) (edges_st st)) (cnd_rule st) (cnd_tok st) (todo st)).
      { apply pp_PInv_core; [|exact Hmne]. apply pp_PInv_ins; [exact HP|exact Hes|exact Hklt]. }
      destruct (snd mr).
      * assert (Hk_c : k < length (closed_sts st)) by (rewrite (pi_len_c _ _ _ _ _ _ _ HP); exact Hklt).
        destruct (pp_nth_checked (closed_sts st) k Hk_c) as (cl & Ecl). rewrite Ecl. cbn [obind].
        apply le_nth_checked in Ecl.
        destruct cl as [c0|]; (eexists; split; [reflexivity|]); unfold PInvS;
          cbn [core_sts closed_sts edges_st cnd_rule cnd_tok todo]; rewrite lp_set_nth_length;
          (split; [|lia]).
        -- apply (pp_PInv_closed g _ (closed_sts st) _ _ _ (todo st)); [exact Hbase| |].
           ++ apply lp_set_nth_length.
           ++ rewrite (pp_count_set_none c0 _ k Ecl), (pi_todo _ _ _ _ _ _ _ HP). reflexivity.
        -- exact Hbase.
      * eexists. split; [reflexivity|]. unfold PInvS.
        cbn [core_sts closed_sts edges_st cnd_rule cnd_tok todo]. rewrite lp_set_nth_length.
        split; [exact Hbase|lia].
    + assert (Emax : (max_st <=? N.of_nat (length (core_sts st)))%N = false) by (apply N.leb_gt; exact Hmax).
      rewrite Emax. cbn [obind].
      unfold insert_edge. rewrite le_cnd_push_edges, Ees.
      cbn [obind core_sts closed_sts edges_st cnd_rule cnd_tok todo todo_off].
      eexists. split; [reflexivity|]. unfold PInvS.
      cbn [core_sts closed_sts edges_st cnd_rule cnd_tok todo].
      destruct (lp_cnd_push_same st X (length (core_sts st))) as [E3 E4].
      rewrite E3, E4, pp_cnd_push_todo.
      rewrite (le_set_nth_app _ [[]] _ cur Hcur_e).
      rewrite app_length. simpl. split; [|lia].
      apply pp_PInv_ins.
      * apply pp_PInv_push; [|rewrite app_length; simpl; lia].
        apply pp_PInv_app; [exact HP|exact Hnsne].
      * rewrite nth_error_app1 by exact Hcur_e. exact Hes.
      * rewrite app_length. simpl. lia.
Qed.

Lemma pp_place_all g max_st cur : wf_grammar g = true ->
  forall news st, Inv g st -> PInvS g st -> cur < length (core_sts st) ->
  (forall X ns, In (X, ns) news -> sym_in_range g X = true /\ pager_reachable g ns /\ ns <> []) ->
  (N.of_nat (length (core_sts st) + length news) <= max_st)%N ->
  exists st', place_all max_st cur st news = Done st' /\ Inv g st' /\ PInvS g st' /\
    length (core_sts st') <= length (core_sts st) + length news.
Proof.
  intros Hwf. induction news as [|[X ns] news IH]; intros st HI HP Hcur Hnews Hmax.
  - exists st. split; [reflexivity|]. split; [exact HI|]. split; [exact HP|]. simpl. lia.
  - cbn [place_all]. destruct (Hnews X ns (or_introl eq_refl)) as (HX & Hr & Hne).
    cbn [length] in Hmax.
    assert (Hlt : (N.of_nat (length (core_sts st)) < max_st)%N) by lia.
    destruct (pp_place g max_st cur st X ns Hwf HI HP Hcur HX Hr Hne Hlt) as (st1 & E1 & HP1 & Hlen1).
    rewrite E1. cbn [obind].
    pose proof (lp_place_inv g max_st cur st X ns st1 Hwf HI Hr E1) as HI1.
    destruct (IH st1 HI1 HP1) as (st' & E' & HI' & HP' & Hlen').
    + lia.
    + intros X' ns' Hin. apply (Hnews X' ns'). right. exact Hin.
    + lia.
    + exists st'. split; [exact E'|]. split; [exact HI'|]. split; [exact HP'|]. cbn [length]. lia.
Qed.

(* ---- the loop over cl_state.items.keys() ---------------------------------------------------------------- *)

Lemma pp_gen_new_done g cl : wf_grammar g = true -> items_ok g cl = true ->
  forall ko seen acc, (forall p d, In (p, d) ko -> In (p, d) (keys_of cl)) ->
  exists news, gen_new g cl ko seen acc = Done news.
Proof.
  intros Hwf Hok. pose proof (proj1 (items_ok_spec g cl) Hok) as [_ Hrange].
  induction ko as [|[p d] ko IH]; intros seen acc Hko; cbn [gen_new].
  - exists (rev acc). reflexivity.
  - assert (Hko' : forall p' d', In (p', d') ko -> In (p', d') (keys_of cl)).
    { intros p' d' Hin. apply Hko. right. exact Hin. }
    pose proof (Hko p d (or_introl eq_refl)) as Hk.
    apply has_core_keys in Hk. apply has_core_pd in Hk. destruct Hk as [la Hin].
    destruct (Hrange p d la Hin) as (Hp & Hd & _).
    rewrite (proj2 (is_prodb_spec g p) Hp). cbn [negb]. cbv zeta.
    destruct (Nat.eqb d (length (rhs g p))) eqn:Ed; [exact (IH seen acc Hko')|].
    apply Nat.eqb_neq in Ed.
    destruct (nth_error (rhs g p) d) as [X|] eqn:EX.
    2:{ apply nth_error_None in EX. lia. }
    rewrite (wf_rhs_range g p X Hwf Hp (nth_error_In _ _ EX)). cbn [negb].
    destruct (existsb (sym_eqb X) seen); [exact (IH seen acc Hko')|].
    destruct (goto_mirror_spec g cl X Hok) as (G & HG & _). rewrite HG. cbn [obind].
    exact (IH (X :: seen) ((X, G) :: acc) Hko').
Qed.

Lemma pp_gen_new_syms g cl : forall ko seen acc news,
  seen = map fst acc -> NoDup seen -> (forall X, In X seen -> sym_in_range g X = true) ->
  gen_new g cl ko seen acc = Done news ->
  NoDup (map fst news) /\ forall X, In X (map fst news) -> sym_in_range g X = true.
Proof.
  induction ko as [|[p d] ko IH]; intros seen acc news Hseen Hnd Hr H; cbn [gen_new] in H.
  - injection H as H. subst news. rewrite map_rev, <- Hseen. split.
    + apply NoDup_rev. exact Hnd.
    + intros X HX. apply Hr. apply in_rev. exact HX.
  - cbv zeta in H.
    destruct (negb (is_prodb g p)); [discriminate H|].
    destruct (Nat.eqb d (length (rhs g p))); [exact (IH seen acc news Hseen Hnd Hr H)|].
    destruct (nth_error (rhs g p) d) as [X|]; [|discriminate H].
    destruct (sym_in_range g X) eqn:EX; cbn [negb] in H; [|discriminate H].
    destruct (existsb (sym_eqb X) seen) eqn:Es; [exact (IH seen acc news Hseen Hnd Hr H)|].
    ostep H as G EG.
    apply (IH (X :: seen) ((X, G) :: acc) news); [| | |exact H].
    + cbn [map fst]. rewrite Hseen. reflexivity.
    + constructor; [|exact Hnd]. intros Hin.
      assert (Ht : existsb (sym_eqb X) seen = true).
      { apply existsb_exists. exists X. split; [exact Hin|apply le_sym_eqb_refl]. }
      rewrite Ht in Es. discriminate Es.
    + intros Y [HY|HY]; [subst Y; exact EX|exact (Hr Y HY)].
Qed.

(* ---- one iteration, the loop ------------------------------------------------------------------------------ *)

Lemma pp_iteration g nl fs max_st ko st : loop_pre g nl fs -> Inv g st -> PInvS g st ->
  todo st <> 0 ->
  (N.of_nat (length (core_sts st) + length (all_syms g)) <= max_st)%N ->
  exists st', iteration g nl fs max_st ko st = Done st' /\ Inv g st' /\ PInvS g st' /\
    length (core_sts st') <= length (core_sts st) + length (all_syms g).
Proof.
  intros Hpre HI HP Htodo Hmax. pose proof Hpre as (Hwf & Hnl & Hfs).
  pose proof HI as (Hlen & Hr & Hc).
  assert (Hcn : count_none (closed_sts st) <> 0).
  { rewrite <- (pi_todo _ _ _ _ _ _ _ HP). exact Htodo. }
  destruct (pp_next_state st Hcn) as (state_i & Enext & Hnone).
  assert (Hlt : state_i < length (core_sts st)).
  { rewrite <- Hlen. exact (le_nth_error_lt _ _ _ Hnone). }
  destruct (pp_nth_checked (core_sts st) state_i Hlt) as (core_i & Ecore).
  pose proof (le_nth_checked _ _ _ Ecore) as Hcore.
  pose proof (Hr state_i core_i Hcore) as Hreach.
  pose proof (pager_reachable_items_ok g core_i Hwf Hreach) as Hok.
  assert (Hcpre : close_pre g nl fs (keys_of core_i) core_i).
  { unfold close_pre. split; [exact Hwf|]. split; [exact Hnl|]. split; [exact Hfs|].
    split; [exact Hok|]. intros k. split; intros Hk; exact Hk. }
  destruct (close_mirror_terminates g nl fs (keys_of core_i) core_i _ Hcpre (le_n _)) as (cl & Ecl).
  destruct (lp_close_specific g nl fs core_i cl _ Hpre Hok Ecl) as [Hclok Hclrepr].
  pose proof Hclrepr as (_ & Hcl0 & _).
  assert (Hkeys : forall p d, In (p, d) (eff_order cl ko) <-> lr0_closure_rel g core_i p d).
  { intros p d. split; intros Hk.
    - apply (proj1 (Hcl0 p d)). apply has_core_keys. apply le_eff_order_keys in Hk. exact Hk.
    - apply le_eff_order_keys. apply has_core_keys. apply (proj2 (Hcl0 p d)). exact Hk. }
  destruct (pp_gen_new_done g cl Hwf Hclok (eff_order cl ko) [] []) as (news & Enews).
  { intros p d Hk. apply le_eff_order_keys in Hk. exact Hk. }
  destruct (pp_gen_new_syms g cl (eff_order cl ko) [] [] news eq_refl (NoDup_nil sym)) as [Hnd Hrange];
    [intros X F; destruct F|exact Enews|].
  assert (Hnews_len : length news <= length (all_syms g)).
  { rewrite <- (map_length fst news). apply NoDup_incl_length; [exact Hnd|].
    intros X HX. apply l1_In_all_syms. exact (Hrange X HX). }
  unfold iteration. rewrite Enext. cbn [obind].
  rewrite (proj2 (Nat.eqb_neq _ _) Htodo). rewrite Ecore. cbn [obind]. rewrite Ecl. cbn [obind].
  cbv zeta. rewrite Enews. cbn [obind].
  match goal with |- exists st', place_all _ _ ?s _ = _ /\ _ => set (st1 := s) end.
  assert (HI1 : Inv g st1).
  { unfold Inv, st1. cbn [core_sts closed_sts]. apply lp_Inv2_set_closed; [exact HI|].
    intros core C HC Hcore'. injection HC as HC. subst C.
    rewrite Hcore in Hcore'. injection Hcore' as Hcore'. subst core. exact Hclrepr. }
  assert (HP1 : PInvS g st1).
  { unfold PInvS, st1. cbn [core_sts closed_sts edges_st cnd_rule cnd_tok todo].
    apply (pp_PInv_closed g _ (closed_sts st) _ _ _ (todo st)); [exact HP| |].
    - apply lp_set_nth_length.
    - pose proof (pp_count_set_some cl _ _ Hnone) as Hc1.
      rewrite (pi_todo _ _ _ _ _ _ _ HP). lia. }
  destruct (pp_place_all g max_st state_i Hwf news st1 HI1 HP1) as (st' & E' & HI' & HP' & Hlen').
  - exact Hlt.
  - intros X ns Hin.
    assert (Hnil : forall X0 ns0, In (X0, ns0) (@nil (sym * itemset)) ->
                     is_goto g core_i X0 ns0 /\ items_ok g ns0 = true).
    { intros X0 ns0 F. destruct F. }
    destruct (lp_gen_new_spec g core_i cl Hclrepr Hclok _ [] [] news Hnil Enews X ns Hin)
      as [Hg Hnsok].
    split; [|split].
    + apply Hrange. apply in_map_iff. exists (X, ns). split; [reflexivity|exact Hin].
    + exact (pr_goto g core_i X ns Hreach Hg Hnsok).
    + assert (Hne : gnonempty g core_i X).
      { apply (le_gen_new_from g cl (fun X => gnonempty g core_i X) (eff_order cl ko) [] [] news)
          with (ns := ns); [| |exact Enews|exact Hin].
        - intros p d X0 Hk Hn. exists p, (S d), d. split; [reflexivity|].
          split; [exact (proj1 (Hkeys p d) Hk)|exact Hn].
        - intros X0 ns0 F. destruct F. }
      destruct Hne as (p & d' & Hgc). intros Hnil'. subst ns.
      destruct (proj2 (proj1 Hg p d') Hgc) as [la F]. destruct F.
  - unfold st1. cbn [core_sts]. lia.
  - exists st'. split; [exact E'|]. split; [exact HI'|]. split; [exact HP'|].
    unfold st1 in Hlen'. cbn [core_sts] in Hlen'. lia.
Qed.

Lemma pp_main_loop g nl fs max_st : loop_pre g nl fs ->
  forall fuel orders st, Inv g st -> PInvS g st ->
  (N.of_nat (length (core_sts st) + fuel * length (all_syms g)) <= max_st)%N ->
  main_loop g nl fs max_st fuel orders st <> Panic /\
  forall st', main_loop g nl fs max_st fuel orders st = Done st' ->
    Inv g st' /\ PInvS g st' /\ todo st' = 0 /\
    length (core_sts st') <= length (core_sts st) + fuel * length (all_syms g).
Proof.
  intros Hpre. induction fuel as [|f IH]; intros orders st HI HP Hmax.
  - cbn [main_loop]. split; [intros F; discriminate F|intros st' F; discriminate F].
  - cbn [main_loop]. destruct (Nat.eqb (todo st) 0) eqn:Et.
    + apply Nat.eqb_eq in Et. split; [intros F; discriminate F|].
      intros st' H. injection H as H. subst st'.
      split; [exact HI|]. split; [exact HP|]. split; [exact Et|lia].
    + apply Nat.eqb_neq in Et.
      assert (Hmax1 : (N.of_nat (length (core_sts st) + length (all_syms g)) <= max_st)%N).
      { cbn [Nat.mul] in Hmax. lia. }
      assert (Hstep : forall ko orders',
                (do st' <- iteration g nl fs max_st ko st; main_loop g nl fs max_st f orders' st') <> Panic /\
                forall st', (do st' <- iteration g nl fs max_st ko st; main_loop g nl fs max_st f orders' st') = Done st' ->
                  Inv g st' /\ PInvS g st' /\ todo st' = 0 /\
                  length (core_sts st') <= length (core_sts st) + S f * length (all_syms g)).
      { intros ko orders'.
        destruct (pp_iteration g nl fs max_st ko st Hpre HI HP Et Hmax1) as (st1 & E1 & HI1 & HP1 & Hlen1).
        rewrite E1. cbn [obind].
        assert (Hmax' : (N.of_nat (length (core_sts st1) + f * length (all_syms g)) <= max_st)%N).
        { cbn [Nat.mul] in Hmax. lia. }
        destruct (IH orders' st1 HI1 HP1 Hmax') as [Hnp Hdone]. split; [exact Hnp|].
        intros st' H. destruct (Hdone st' H) as (HI' & HP' & Ht' & Hlen').
        split; [exact HI'|]. split; [exact HP'|]. split; [exact Ht'|]. cbn [Nat.mul]. lia. }
      destruct orders as [|ko orders']; apply Hstep.
Qed.

(* ---- gc ------------------------------------------------------------------------------------------------------ *)

Lemma pp_offsets_length seen : forall n i off, length (offsets seen n i off) = n.
Proof.
  induction n as [|n IH]; intros i off; cbn [offsets length].
  - reflexivity.
  - rewrite IH. reflexivity.
Qed.

Lemma pp_keep_length {A : Type} seen : forall (l : list A) i, length (keep seen i l) <= length l.
Proof.
  induction l as [|x l IH]; intros i; cbn [keep length].
  - lia.
  - pose proof (IH (S i)). destruct (memn i seen); cbn [length]; lia.
Qed.

Lemma pp_gc states edges :
  (forall es e, In es edges -> In e es -> snd e < length states) ->
  gc_model states edges <> Panic /\
  forall pg, gc_model states edges = Done pg -> length (pg_states pg) <= length states.
Proof.
  intros Htgt. unfold gc_model.
  set (seen := reachable edges 0).
  destruct (negb (forallb (fun s => forallb (fun e => memn (snd e) seen) (nth s edges [])) seen)).
  { split; [intros F; discriminate F|intros pg F; discriminate F]. }
  destruct (Nat.eqb (length states) (length seen)).
  { split; [intros F; discriminate F|]. intros pg H. injection H as H. subst pg. cbn [pg_states]. lia. }
  cbv zeta.
  assert (Hall : forallb (fun l => forallb (fun e : sym * nat =>
                    (snd e <? length (offsets seen (length states) 0 0))%nat) l) (keep seen 0 edges) = true).
  { apply forallb_forall. intros l Hl. apply forallb_forall. intros e He.
    apply Nat.ltb_lt. rewrite pp_offsets_length.
    exact (Htgt l e (lp_in_keep seen l edges 0 Hl) He). }
  rewrite Hall. split; [intros F; discriminate F|].
  intros pg H. injection H as H. subst pg. cbn [pg_states]. apply pp_keep_length.
Qed.

(* ---- the statement ------------------------------------------------------------------------------------------ *)

Lemma pp_init g : PInvS g (init_pst g).
Proof.
  unfold PInvS, init_pst. cbn [core_sts closed_sts edges_st cnd_rule cnd_tok todo]. constructor.
  - reflexivity.
  - reflexivity.
  - reflexivity.
  - apply repeat_length.
  - apply repeat_length.
  - intros l [Hl|Hl] c Hc; apply repeat_spec in Hl; subst l; destruct Hc.
  - intros es e [Hes|[]] He. subst es. destruct He.
  - intros c [Hc|[]]. subst c. intros F. discriminate F.
Qed.

Lemma pager_mirror_never_panics : pager_mirror_never_panics_stmt.
Proof.
  intros g nl fs max_st fuel orders Hpre Hmax. unfold pager_mirror.
  assert (Hmax0 : (N.of_nat (length (core_sts (init_pst g)) + fuel * length (all_syms g)) <= max_st)%N).
  { unfold init_pst. cbn [core_sts length]. lia. }
  destruct (pp_main_loop g nl fs max_st Hpre fuel orders (init_pst g) (lp_init_inv g) (pp_init g) Hmax0)
    as [Hnp Hdone].
  destruct (main_loop g nl fs max_st fuel orders (init_pst g)) as [st| |] eqn:Eml; cbn [obind].
  2:{ exfalso. exact (Hnp eq_refl). }
  2:{ intros F. discriminate F. }
  destruct (Hdone st eq_refl) as (HI & HP & Ht & Hlen).
  assert (Hcn : count_none (closed_sts st) = 0).
  { rewrite <- (pi_todo _ _ _ _ _ _ _ HP). exact Ht. }
  destruct (pp_unwrap_done (closed_sts st) Hcn) as (cl & Ecl). rewrite Ecl. cbn [obind].
  pose proof (lp_unwrap_all _ _ Ecl) as Hcl.
  assert (Hlcl : length cl = length (core_sts st)).
  { rewrite <- (pi_len_c _ _ _ _ _ _ _ HP), Hcl, map_length. reflexivity. }
  assert (Hlst : length (combine (core_sts st) cl) = length (core_sts st)).
  { rewrite combine_length. lia. }
  destruct (pp_gc (combine (core_sts st) cl) (edges_st st)) as [Hgnp Hgdone].
  { intros es e Hes He. rewrite Hlst. exact (pi_tgt _ _ _ _ _ _ _ HP es e Hes He). }
  destruct (gc_model (combine (core_sts st) cl) (edges_st st)) as [pg| |] eqn:Egc; cbn [obind].
  2:{ exfalso. exact (Hgnp eq_refl). }
  2:{ intros F. discriminate F. }
  pose proof (Hgdone pg eq_refl) as Hpg.
  unfold init_pst in Hlen. cbn [core_sts length] in Hlen.
  assert (E1 : (max_st <? N.of_nat (length (pg_states pg)))%N = false) by (apply N.ltb_ge; lia).
  assert (E2 : (max_st <=? N.of_nat (length (pg_states pg)))%N = false) by (apply N.leb_gt; lia).
  rewrite E1, E2. intros F. discriminate F.
Qed.
