(* C02 — the textbook notion of LR(1): relation to [lr1_grammar], the state form,
   soundness of the certificate checker [lr1_textbook_check], and where an item
   without lookahead can come from.  Statements in TextbookSpec.v. *)
From Coq Require Import List Arith NArith Bool Lia.
From GV Require Import Common.Outcome Base.Grammar Base.GrammarFacts Base.Analyses Base.AnalysesProofs
  LR.Automaton LR.Validator LR.Canon LR.CloseMirror LR.CloseSpec LR.CloseProofs
  C02.Model C02.Spec C02.PagerSpec C02.PagerProofsPath C02.PagerProofsBridge C02.PagerProofsExists C02.PagerProofsMain
  C02.Lr1Model C02.Lr1Proofs C02.TextbookModel C02.TextbookSpec.
Import ListNotations.

(* ---- the textbook items are items of the code's closure --------------------------------- *)

Lemma tb_at_la_at g K alpha p d a : tb_at g K alpha p d a -> la_at g K alpha p d a.
Proof.
  intros H. induction H as [p d la a Hin Ha | alpha p d a r q b _ IH Hn Hq Hl Hf | alpha X p d a _ IH Hn].
  - exact (la_base g K p d la a Hin Ha).
  - apply first_of_form_split in Hf. destruct Hf as [Hf | [Hnu Hb]].
    + exact (la_first g K alpha p d r q b (la_at_core g K alpha p d a IH) Hn Hq Hl Hf).
    + subst b. exact (la_null g K alpha p d a r q IH Hn Hq Hl Hnu).
  - exact (la_goto g K alpha X p d a IH Hn).
Qed.

Lemma tb_conflict_is_conflict g K alpha : tb_conflict_at g K alpha -> conflict_at g K alpha.
Proof.
  intros [(a & p & d & b & q & H1 & Hn & H2) | (a & q1 & q2 & Hne & H1 & H2)].
  - left. exists a, p, d, q. split; [|split; [exact Hn|]].
    + exact (la_at_core g K alpha p d b (tb_at_la_at g K alpha p d b H1)).
    + exact (tb_at_la_at g K alpha _ _ a H2).
  - right. exists a, q1, q2. split; [exact Hne|]. split; apply tb_at_la_at; assumption.
Qed.

Lemma lr1_grammar_textbook : lr1_grammar_textbook_stmt.
Proof.
  intros g Hwf Hlr alpha Hc.
  pose proof (tree_to_path g (start_kernel g) Hwf (start_kernel_items_ok g Hwf) Hlr) as Hp.
  exact (Hp alpha (tb_conflict_is_conflict g _ alpha Hc)).
Qed.

(* ---- on productive grammars every item of the code's closure has a lookahead --------------- *)

Section Productive.
Variable g : grammar.
Variable K : itemset.
Hypothesis Hwf : wf_grammar g = true.
Hypothesis Hprod : productive g.
Hypothesis HK : forall p d la, In (p, d, la) K -> la <> [].

Lemma tb_child_exists alpha p d a r q : tb_at g K alpha p d a -> nth_error (rhs g p) d = Some (R r) ->
  is_prod g q -> lhs g q = r -> exists b, tb_at g K alpha q 0%nat b.
Proof.
  intros Ht Hn Hq Hl.
  pose proof (nth_error_rhs_is_prod g p d _ Hn) as Hp.
  destruct (first_of_form_nonempty g (skipn (S d) (rhs g p)) a Hprod) as (b & Hb).
  - apply forallb_forall. intros x Hx. apply (wf_rhs_range g p x Hwf Hp). exact (In_skipn _ _ _ Hx).
  - exists b. exact (tba_close g K alpha p d a r q b Ht Hn Hq Hl Hb).
Qed.

Lemma core_at_live alpha p d : core_at g K alpha p d -> exists a, tb_at g K alpha p d a.
Proof.
  intros H. induction H as [p d la Hin | alpha p d r q _ IH Hn Hq Hl | alpha X p d _ IH Hn].
  - destruct la as [|a la]; [exfalso; exact (HK p d [] Hin eq_refl)|].
    exists a. exact (tba_base g K p d (a :: la) a Hin (or_introl eq_refl)).
  - destruct IH as (a & Ha). exact (tb_child_exists alpha p d a r q Ha Hn Hq Hl).
  - destruct IH as (a & Ha). exists a. exact (tba_goto g K alpha X p d a Ha Hn).
Qed.

Lemma la_at_tb_at alpha p d a : la_at g K alpha p d a -> tb_at g K alpha p d a.
Proof.
  intros H.
  induction H as [p d la a Hin Ha | alpha p d r q b Hco Hn Hq Hl Hf | alpha p d a r q _ IH Hn Hq Hl Hnu
                 | alpha X p d a _ IH Hn].
  - exact (tba_base g K p d la a Hin Ha).
  - destruct (core_at_live alpha p d Hco) as (a & Ha).
    apply (tba_close g K alpha p d a r q b Ha Hn Hq Hl). apply first_of_form_split. left. exact Hf.
  - apply (tba_close g K alpha p d a r q a IH Hn Hq Hl). apply first_of_form_split. right.
    split; [exact Hnu | reflexivity].
  - exact (tba_goto g K alpha X p d a IH Hn).
Qed.

Lemma conflict_is_tb_conflict alpha : conflict_at g K alpha -> tb_conflict_at g K alpha.
Proof.
  intros [(a & p & d & q & H1 & Hn & H2) | (a & q1 & q2 & Hne & H1 & H2)].
  - destruct (core_at_live alpha p d H1) as (b & Hb).
    left. exists a, p, d, b, q. split; [exact Hb|]. split; [exact Hn|]. exact (la_at_tb_at alpha _ _ a H2).
  - right. exists a, q1, q2. split; [exact Hne|]. split; apply la_at_tb_at; assumption.
Qed.
End Productive.

Lemma start_kernel_live g : forall p d la, In (p, d, la) (start_kernel g) -> la <> [].
Proof.
  intros p d la [H|[]]. injection H as _ _ H. subst la. discriminate.
Qed.

Lemma lr1_notions_agree_productive : lr1_notions_agree_productive_stmt.
Proof.
  intros g Hprod Hwf. split; [apply lr1_grammar_textbook; exact Hwf|].
  intros Htb. apply path_to_tree. intros alpha Hc. apply (Htb alpha).
  exact (conflict_is_tb_conflict g (start_kernel g) Hwf Hprod (start_kernel_live g) alpha Hc).
Qed.

(* ---- the state form ---------------------------------------------------------------------------- *)

Lemma tb_at_nil_rel g K beta p d a : tb_at g K beta p d a -> beta = [] -> lr1_textbook_rel g K p d a.
Proof.
  intros H. induction H as [p d la a Hin Ha | alpha p d a r q b _ IH Hn Hq Hl Hf | alpha X p d a _ _ Hn]; intros E.
  - exact (tb_base g K p d la a Hin Ha).
  - exact (tb_step g K p d a r q b (IH E) Hn Hq Hl Hf).
  - destruct alpha; discriminate E.
Qed.

Lemma tb_rel_at_nil g K p d a : lr1_textbook_rel g K p d a -> tb_at g K [] p d a.
Proof.
  intros H. induction H as [p d la a Hin Ha | p d a r q b _ IH Hn Hq Hl Hf].
  - exact (tba_base g K p d la a Hin Ha).
  - exact (tba_close g K [] p d a r q b IH Hn Hq Hl Hf).
Qed.

Lemma tb_rel_at_step g K alpha S0 X S1 :
  (forall p d a, lr1_textbook_rel g S0 p d a -> tb_at g K alpha p d a) -> tb_is_goto g S0 X S1 ->
  forall p d a, lr1_textbook_rel g S1 p d a -> tb_at g K (alpha ++ [X]) p d a.
Proof.
  intros H0 Hg p d a H. induction H as [p d la a Hin Ha | p d a r q b _ IH Hn Hq Hl Hf].
  - destruct (proj1 (Hg p d a) (has_la_intro S1 p d la a Hin Ha)) as (d0 & Hd & Hr & Hn). subst d.
    exact (tba_goto g K alpha X p d0 a (H0 p d0 a Hr) Hn).
  - exact (tba_close g K (alpha ++ [X]) p d a r q b IH Hn Hq Hl Hf).
Qed.

Lemma tb_at_rel_step g K alpha S0 X S1 :
  (forall p d a, tb_at g K alpha p d a -> lr1_textbook_rel g S0 p d a) -> tb_is_goto g S0 X S1 ->
  forall beta p d a, tb_at g K beta p d a -> beta = alpha ++ [X] -> lr1_textbook_rel g S1 p d a.
Proof.
  intros H0 Hg beta p d a H.
  induction H as [p d la a Hin Ha | beta p d a r q b _ IH Hn Hq Hl Hf | beta Y p d a Hpar _ Hn]; intros E.
  - destruct alpha; discriminate E.
  - exact (tb_step g S1 p d a r q b (IH E) Hn Hq Hl Hf).
  - apply app_inj_tail in E. destruct E as [E1 E2]. subst beta Y.
    assert (Hla : has_la S1 (p, S d) a).
    { apply (proj2 (Hg p (S d) a)). exists d. split; [reflexivity|]. split; [exact (H0 p d a Hpar)|exact Hn]. }
    destruct (proj1 (has_la_pd S1 p (S d) a) Hla) as (la & Hin & Ha).
    exact (tb_base g S1 p (S d) la a Hin Ha).
Qed.

Lemma tb_after_items g K alpha S : tb_after g K alpha S ->
  forall p d a, lr1_textbook_rel g S p d a <-> tb_at g K alpha p d a.
Proof.
  intros H. induction H as [| alpha S0 X S1 _ IH Hg].
  - intros p d a. split; [apply tb_rel_at_nil | intros Ht; exact (tb_at_nil_rel g K [] p d a Ht eq_refl)].
  - intros p d a. split.
    + apply (tb_rel_at_step g K alpha S0 X S1); [intros p0 d0 a0; apply IH | exact Hg].
    + intros Ht. apply (tb_at_rel_step g K alpha S0 X S1 (fun p0 d0 a0 => proj2 (IH p0 d0 a0)) Hg _ p d a Ht eq_refl).
Qed.

Lemma tb_after_characterisation : tb_after_characterisation_stmt.
Proof.
  intros g K alpha S Ha. pose proof (tb_after_items g K alpha S Ha) as Hi. split; [exact Hi|].
  unfold tb_state_conflict, tb_shift_reduce, tb_reduce_reduce, tb_conflict_at. split.
  - intros [(a & p & d & b & q & H1 & Hn & H2) | (a & q1 & q2 & Hne & H1 & H2)].
    + left. exists a, p, d, b, q. split; [apply Hi; exact H1|]. split; [exact Hn|apply Hi; exact H2].
    + right. exists a, q1, q2. split; [exact Hne|]. split; apply Hi; assumption.
  - intros [(a & p & d & b & q & H1 & Hn & H2) | (a & q1 & q2 & Hne & H1 & H2)].
    + left. exists a, p, d, b, q. split; [apply Hi; exact H1|]. split; [exact Hn|apply Hi; exact H2].
    + right. exists a, q1, q2. split; [exact Hne|]. split; apply Hi; assumption.
Qed.

Lemma lr1_textbook_states : lr1_textbook_states_stmt.
Proof.
  intros g H alpha S Ha Hc. apply (H alpha).
  exact (proj1 (proj2 (tb_after_characterisation g _ alpha S Ha)) Hc).
Qed.

(* ---- the certificate checker ----------------------------------------------------------------------- *)

Lemma tb_has_spec C p d a : tb_has C p d a = true <-> exists la, In (p, d, la) C /\ In a la.
Proof.
  unfold tb_has. rewrite existsb_exists. split.
  - intros ([[p' d'] la] & Hin & H). unfold it_p, it_d, it_la in H. simpl in H.
    apply andb_true_iff in H. destruct H as [H H3]. apply andb_true_iff in H. destruct H as [H1 H2].
    apply N.eqb_eq in H1. apply Nat.eqb_eq in H2. apply memN_In in H3. subst p' d'.
    exists la. split; assumption.
  - intros (la & Hin & Ha). exists (p, d, la). split; [exact Hin|].
    unfold it_p, it_d, it_la. simpl. rewrite N.eqb_refl, Nat.eqb_refl. simpl. apply memN_In. exact Ha.
Qed.

Lemma tb_incl_spec K C : tb_incl K C = true ->
  forall p d la a, In (p, d, la) K -> In a la -> tb_has C p d a = true.
Proof.
  unfold tb_incl. intros H p d la a Hin Ha. rewrite forallb_forall in H.
  specialize (H _ Hin). rewrite forallb_forall in H. exact (H a Ha).
Qed.

Lemma la_nonempty_In (a : N) la : In a la -> la_nonempty la = true.
Proof. destruct la; [intros []|reflexivity]. Qed.

Lemma firstseq_la_form g nl fs beta la a b : nullable_exact g nl -> first_exact g fs ->
  first_of_form g beta a b -> In a la -> In b (firstseq_la nl fs beta la).
Proof.
  intros Hnl Hfs Hf Ha. apply first_of_form_split in Hf. unfold firstseq_la.
  destruct Hf as [Hf | [Hnu Hb]].
  - apply (first_seq_exact g nl fs beta b Hnl Hfs) in Hf.
    destruct (nullable_seq nl beta); [apply In_unionN; left|]; exact Hf.
  - subst b. apply (nullable_seq_exact g nl beta Hnl) in Hnu. rewrite Hnu. apply In_unionN. right. exact Ha.
Qed.

Lemma tb_closed_step g nl fs C p d a r q b : nullable_exact g nl -> first_exact g fs ->
  tb_closed g nl fs C = true -> tb_has C p d a = true -> nth_error (rhs g p) d = Some (R r) ->
  is_prod g q -> lhs g q = r -> first_of_form g (skipn (S d) (rhs g p)) a b ->
  tb_has C q 0%nat b = true.
Proof.
  intros Hnl Hfs Hc Hh Hn Hq Hl Hf. apply tb_has_spec in Hh. destruct Hh as (la & Hin & Ha).
  unfold tb_closed in Hc. rewrite forallb_forall in Hc. specialize (Hc _ Hin).
  unfold it_p, it_d, it_la in Hc. simpl in Hc. rewrite Hn in Hc.
  rewrite (la_nonempty_In a la Ha) in Hc. rewrite forallb_forall in Hc.
  assert (Hqin : In q (rule_to_prods g r)) by (apply In_rule_to_prods; split; assumption).
  specialize (Hc q Hqin). rewrite forallb_forall in Hc.
  apply Hc. exact (firstseq_la_form g nl fs _ la a b Hnl Hfs Hf Ha).
Qed.

Lemma tb_goto_In g C X p d la : In (p, d, la) C -> nth_error (rhs g p) d = Some X -> la <> [] ->
  In (p, S d, la) (tb_goto g C X).
Proof.
  intros Hin Hn Hla. unfold tb_goto. apply in_flat_map. exists (p, d, la). split; [exact Hin|].
  unfold it_p, it_d, it_la. simpl. rewrite Hn.
  assert (E : sym_eqb X X = true) by (apply sym_eqb_eq; reflexivity).
  rewrite E. destruct la; [contradiction|]. simpl. left. reflexivity.
Qed.

Definition tb_cert (g : grammar) (nl : list N) (fs : list pairN) (A : automaton) : Prop :=
  forall s, (s < nstates A)%N ->
    tb_closed g nl fs (closed A s) = true /\ tb_state_ok g (closed A s) = true /\
    forall X, In X (all_syms g) ->
      match tb_goto g (closed A s) X with
      | [] => true
      | K' => match edge A s X with
              | Some t => (t <? nstates A)%N && tb_incl K' (closed A t)
              | None => false
              end
      end = true.

Lemma tb_unpack g A : lr1_textbook_check g A = true ->
  exists nl fs, nullable_exact g nl /\ first_exact g fs /\ wf_grammar g = true /\
    (start A < nstates A)%N /\
    tb_has (closed A (start A)) (start_prod g) 0%nat (eof g) = true /\ tb_cert g nl fs A.
Proof.
  unfold lr1_textbook_check. intros H. destruct (first_ref g) as [[nl fs]|] eqn:Hf; [|discriminate H].
  apply andb_true_iff in H. destruct H as [H H4].
  apply andb_true_iff in H. destruct H as [H H3].
  apply andb_true_iff in H. destruct H as [H1 H2].
  destruct (first_ref_exact' g nl fs Hf) as [Hnl Hfs].
  exists nl, fs. split; [exact Hnl|]. split; [exact Hfs|]. split; [exact H1|].
  split; [apply N.ltb_lt; exact H2|]. split; [exact H3|].
  rewrite forallb_forall in H4. intros s Hs.
  specialize (H4 s (proj2 (l1_In_states A s) Hs)).
  apply andb_true_iff in H4. destruct H4 as [H4 H4c].
  apply andb_true_iff in H4. destruct H4 as [H4a H4b].
  split; [exact H4a|]. split; [exact H4b|].
  rewrite forallb_forall in H4c. exact H4c.
Qed.

Lemma sym_after_dot_in_range g p d X : wf_grammar g = true -> nth_error (rhs g p) d = Some X ->
  In X (all_syms g).
Proof.
  intros Hwf Hn. apply l1_In_all_syms.
  apply (wf_rhs_range g p X Hwf (nth_error_rhs_is_prod g p d X Hn)). exact (nth_error_In _ _ Hn).
Qed.

(* the simulation: the state at alpha is included in some state of A *)
Lemma tb_cert_simulates g nl fs A : nullable_exact g nl -> first_exact g fs -> wf_grammar g = true ->
  (start A < nstates A)%N -> tb_has (closed A (start A)) (start_prod g) 0%nat (eof g) = true ->
  tb_cert g nl fs A ->
  forall alpha, exists s, (s < nstates A)%N /\
    forall p d a, tb_at g (start_kernel g) alpha p d a -> tb_has (closed A s) p d a = true.
Proof.
  intros Hnl Hfs Hwf Hst Hs0 Hcert alpha. induction alpha as [|X alpha IH] using rev_ind.
  - exists (start A). split; [exact Hst|].
    destruct (Hcert _ Hst) as (Hcl & _ & _).
    assert (G : forall beta p d a, tb_at g (start_kernel g) beta p d a -> beta = [] ->
                  tb_has (closed A (start A)) p d a = true).
    { intros beta p d a H.
      induction H as [p d la a Hin Ha | beta p d a r q b _ IHt Hn Hq Hl Hf | beta Y p d a _ _ Hn]; intros E.
      - destruct Hin as [Hin|[]]. injection Hin as Hp Hd Hla. subst p d la.
        destruct Ha as [Ha|[]]. subst a. exact Hs0.
      - exact (tb_closed_step g nl fs _ p d a r q b Hnl Hfs Hcl (IHt E) Hn Hq Hl Hf).
      - destruct beta; discriminate E. }
    intros p d a H. exact (G [] p d a H eq_refl).
  - destruct IH as (s0 & Hs0lt & Hinc). destruct (Hcert _ Hs0lt) as (_ & _ & Hgo).
    (* which state: the target of the edge when the goto is not empty *)
    assert (Hpick : exists t, (t < nstates A)%N /\
              forall p d la, In (p, d, la) (closed A s0) -> nth_error (rhs g p) d = Some X -> la <> [] ->
                forall a, In a la -> tb_has (closed A t) p (S d) a = true).
    { destruct (tb_goto g (closed A s0) X) as [|k0 K'] eqn:EK.
      - exists s0. split; [exact Hs0lt|]. intros p d la Hin Hn Hla.
        pose proof (tb_goto_In g _ X p d la Hin Hn Hla) as Hbad. rewrite EK in Hbad. destruct Hbad.
      - assert (HX : In X (all_syms g)).
        { assert (Hk0 : In k0 (tb_goto g (closed A s0) X)) by (rewrite EK; left; reflexivity).
          unfold tb_goto in Hk0. apply in_flat_map in Hk0. destruct Hk0 as (i & _ & Hi).
          destruct (nth_error (rhs g (it_p i)) (it_d i)) as [Y|] eqn:EY; [|destruct Hi].
          destruct (sym_eqb X Y) eqn:EXY; simpl in Hi; [|destruct Hi].
          apply sym_eqb_eq in EXY. subst Y. exact (sym_after_dot_in_range g _ _ X Hwf EY). }
        specialize (Hgo X HX). rewrite EK in Hgo.
        destruct (edge A s0 X) as [t|] eqn:Et; [|discriminate Hgo].
        exists t. apply andb_true_iff in Hgo. destruct Hgo as [Hlt Hincl]. split; [apply N.ltb_lt; exact Hlt|].
        intros p d la Hin Hn Hla a Ha.
        pose proof (tb_goto_In g _ X p d la Hin Hn Hla) as Hk. rewrite EK in Hk.
        exact (tb_incl_spec _ _ Hincl p (S d) la a Hk Ha). }
    destruct Hpick as (t & Htlt & Hstep). exists t. split; [exact Htlt|].
    destruct (Hcert _ Htlt) as (Hclt & _ & _).
    assert (G : forall beta p d a, tb_at g (start_kernel g) beta p d a -> beta = alpha ++ [X] ->
                  tb_has (closed A t) p d a = true).
    { intros beta p d a H.
      induction H as [p d la a Hin Ha | beta p d a r q b _ IHt Hn Hq Hl Hf | beta Y p d a Hpar _ Hn]; intros E.
      - destruct alpha; discriminate E.
      - exact (tb_closed_step g nl fs _ p d a r q b Hnl Hfs Hclt (IHt E) Hn Hq Hl Hf).
      - apply app_inj_tail in E. destruct E as [E1 E2]. subst beta Y.
        pose proof (Hinc p d a Hpar) as Hh. apply tb_has_spec in Hh. destruct Hh as (la & Hin & Ha).
        apply (Hstep p d la Hin Hn); [|exact Ha]. intros E. subst la. destruct Ha. }
    intros p d a H. exact (G _ p d a H eq_refl).
Qed.

Lemma tb_state_ok_no_conflict g C : tb_state_ok g C = true ->
  forall a, (a < ntoks g)%N ->
    (forall p d la, In (p, d, la) C -> la <> [] -> nth_error (rhs g p) d = Some (T a) ->
       forall q la', In (q, length (rhs g q), la') C -> In a la' -> False) /\
    (forall q1 q2 la1 la2, q1 <> q2 -> In (q1, length (rhs g q1), la1) C -> In a la1 ->
       In (q2, length (rhs g q2), la2) C -> In a la2 -> False).
Proof.
  unfold tb_state_ok. intros H a Ha. rewrite forallb_forall in H.
  specialize (H a (proj2 (l1_In_tidxs g a) Ha)). apply Nat.leb_le in H.
  assert (Hred : forall q la, In (q, length (rhs g q), la) C -> In a la -> In (q, length (rhs g q), la) (reducers g C a)).
  { intros q la Hin Hla. unfold reducers. apply filter_In. split; [exact Hin|].
    unfold it_p, it_d, it_la. simpl. rewrite Nat.eqb_refl. simpl. apply memN_In. exact Hla. }
  split.
  - intros p d la Hin Hla Hn q la' Hq Hqa.
    assert (Hs : tb_shifts g C a = true).
    { unfold tb_shifts. apply existsb_exists. exists (p, d, la). split; [exact Hin|].
      unfold it_p, it_d, it_la. simpl. rewrite Hn. destruct la; [contradiction|]. simpl. apply N.eqb_refl. }
    rewrite Hs in H. pose proof (Hred q la' Hq Hqa) as Hr.
    destruct (reducers g C a); [destruct Hr|]. simpl in H. lia.
  - intros q1 q2 la1 la2 Hne H1 Ha1 H2 Ha2.
    assert (Hd : (q1, length (rhs g q1), la1) <> (q2, length (rhs g q2), la2)) by congruence.
    assert (Hlen : 2 <= length (reducers g C a))
      by exact (l1_two_in _ _ _ (Hred q1 la1 H1 Ha1) (Hred q2 la2 H2 Ha2) Hd).
    destruct (tb_shifts g C a); simpl in H; lia.
Qed.

Lemma tb_at_token_in_range g alpha p d a : wf_grammar g = true ->
  tb_at g (start_kernel g) alpha p d a -> (a < ntoks g)%N.
Proof.
  intros Hwf H. apply tb_at_la_at in H.
  (* through a materialised state: its items are in range *)
  destruct (after_exists g (start_kernel g) alpha Hwf (start_kernel_items_ok g Hwf)) as (S & Haft & HS).
  destruct (after_characterisation g _ alpha S Haft) as (_ & Hl & _).
  apply Hl in H.
  destruct (closure_exists g S Hwf HS) as (C & HCok & _ & HC1).
  apply HC1 in H. destruct H as (la & Hin & Ha).
  destruct (proj1 (items_ok_spec g C) HCok) as [_ HCr].
  destruct (HCr p d la Hin) as (_ & _ & Hr). exact (Hr a Ha).
Qed.

Lemma lr1_textbook_check_sound : lr1_textbook_check_sound_stmt.
Proof.
  intros g A H. destruct (tb_unpack g A H) as (nl & fs & Hnl & Hfs & Hwf & Hst & Hs0 & Hcert).
  split; [exact Hwf|]. intros alpha Hc.
  destruct (tb_cert_simulates g nl fs A Hnl Hfs Hwf Hst Hs0 Hcert alpha) as (s & Hs & Hinc).
  destruct (Hcert _ Hs) as (_ & Hok & _).
  destruct Hc as [(a & p & d & b & q & H1 & Hn & H2) | (a & q1 & q2 & Hne & H1 & H2)].
  - pose proof (tb_at_token_in_range g alpha _ _ a Hwf H2) as Ha.
    destruct (tb_state_ok_no_conflict g _ Hok a Ha) as [Hsr _].
    pose proof (Hinc _ _ _ H1) as I1. pose proof (Hinc _ _ _ H2) as I2.
    apply tb_has_spec in I1. apply tb_has_spec in I2.
    destruct I1 as (la & Hin & Hb). destruct I2 as (la' & Hin' & Ha').
    apply (Hsr p d la Hin) with (q := q) (la' := la'); try assumption.
    intros E. subst la. destruct Hb.
  - pose proof (tb_at_token_in_range g alpha _ _ a Hwf H1) as Ha.
    destruct (tb_state_ok_no_conflict g _ Hok a Ha) as [_ Hrr].
    pose proof (Hinc _ _ _ H1) as I1. pose proof (Hinc _ _ _ H2) as I2.
    apply tb_has_spec in I1. apply tb_has_spec in I2.
    destruct I1 as (la1 & Hin1 & Ha1). destruct I2 as (la2 & Hin2 & Ha2).
    exact (Hrr q1 q2 la1 la2 Hne Hin1 Ha1 Hin2 Ha2).
Qed.

(* ---- an item without lookahead needs an unproductive rule ------------------------------------------ *)

Lemma phantom_needs_unproductive : phantom_needs_unproductive_stmt.
Proof.
  intros g nl fs keys K fuel C p d Hpre HC HK Hin Hprod.
  pose proof Hpre as (Hwf & _ & _ & _ & _).
  assert (HK' : forall p0 d0 la, In (p0, d0, la) K -> la <> []) by (intros p0 d0 la Hi; exact (HK _ Hi)).
  destruct (close_mirror_sound g nl fs keys K fuel C Hpre HC p d [] Hin) as [H0 _].
  (* every item of the closure has a lookahead on a productive grammar *)
  assert (Hlive : exists a, lr1_closure_rel g K p d a).
  { apply core_at_of_lr0_nil in H0.
    destruct (core_at_live g K Hwf Hprod HK' [] p d H0) as (a & Ha).
    exists a. apply lr1_textbook_incl. exact (tb_at_nil_rel g K [] p d a Ha eq_refl). }
  destruct Hlive as (a & Ha).
  destruct (close_mirror_complete g nl fs keys K fuel C Hpre HC) as [_ Hc1].
  destruct (Hc1 p d a Ha) as (la & Hin' & Hla).
  pose proof (close_mirror_result_ok g nl fs keys K fuel C Hpre HC) as Hok.
  apply items_ok_spec in Hok. destruct Hok as [Hnd _].
  pose proof (In_lookup p d C [] Hnd Hin) as E1. pose proof (In_lookup p d C la Hnd Hin') as E2.
  rewrite E1 in E2. injection E2 as E2. subst la. destruct Hla.
Qed.
