(* C02 — the automaton induced by a Pager graph passes validS
   ([induced_validS]); the start item's lookahead is end of input in every
   Pager-reachable kernel ([pager_reachable_start_la]).  From [graph_facts]
   alone (InducedSpec.v). *)
From Coq Require Import List Arith NArith Bool Lia.
From GV Require Import Common.Outcome Base.Grammar Base.GrammarFacts Base.Analyses Base.AnalysesProofs
  LR.Automaton LR.Validator LR.Agree LR.CloseMirror LR.CloseSpec LR.CloseProofs
  C02.Model C02.Spec C02.PagerSpec C02.PagerProofsBridge C02.PagerProofsMain C02.PagerProofsExists
  C02.Lr1Model C02.Lr1Proofs C02.LoopModel C02.LoopSpec C02.InducedModel C02.InducedSpec.
Import ListNotations.

(* ---- well-formedness facts ---------------------------------------------------------- *)

Lemma iS_rhs_no_start_rule g p : wf_grammar g = true -> is_prod g p ->
  ~ In (R (start_rule g)) (rhs g p).
Proof.
  unfold wf_grammar. intros Hwf Hp Hin.
  apply andb_true_iff in Hwf. destruct Hwf as [_ H6].
  pose proof (proj1 (forallb_forall _ _) H6 _ (prod_in_prods g p Hp)) as H1.
  simpl in H1. pose proof (proj1 (forallb_forall _ _) H1 _ Hin) as H2. simpl in H2.
  rewrite N.eqb_refl in H2. discriminate H2.
Qed.

Lemma iS_no_start_after_dot g p d q : wf_grammar g = true ->
  nth_error (rhs g p) d = Some (R (lhs g q)) -> q <> start_prod g.
Proof.
  intros Hwf Hn Eq. subst q.
  apply (iS_rhs_no_start_rule g p Hwf (nth_error_rhs_is_prod g p d _ Hn)).
  apply (nth_error_In _ d). exact Hn.
Qed.

Lemma iS_rhs_start g : wf_grammar g = true -> exists s, rhs g (start_prod g) = [R s].
Proof.
  intros Hwf. destruct (wf_user_start g Hwf) as [s Hs]. unfold user_start in Hs.
  destruct (rhs g (start_prod g)) as [|[t|r] [|y l]]; try discriminate Hs.
  exists r. reflexivity.
Qed.

Lemma iS_sym_eqb_refl X : sym_eqb X X = true.
Proof. apply sym_eqb_eq. reflexivity. Qed.

(* ---- the closure adds dot-0 items only ------------------------------------------------ *)

Lemma iS_lr0_S g (K : itemset) p d : lr0_closure_rel g K p (S d) -> has_core K (p, S d).
Proof.
  intros H. remember (S d) as d' eqn:Ed.
  destruct H as [p d' la Hin | p d' r q Hpar Hnth Hq Hlq].
  - exact (has_core_intro K p d' la Hin).
  - discriminate Ed.
Qed.

Lemma iS_lr0_0 g (K : itemset) q : lr0_closure_rel g K q 0%nat ->
  has_core K (q, 0%nat) \/
  exists p d, lr0_closure_rel g K p d /\ nth_error (rhs g p) d = Some (R (lhs g q)) /\ is_prod g q.
Proof.
  intros H. remember 0%nat as d' eqn:Ed.
  destruct H as [p d' la Hin | p d' r q Hpar Hnth Hq Hlq].
  - left. exact (has_core_intro K p d' la Hin).
  - right. exists p, d'. subst r. split; [exact Hpar|]. split; [exact Hnth|exact Hq].
Qed.

Lemma iS_lr1_S g (K : itemset) p d a : lr1_closure_rel g K p (S d) a -> has_la K (p, S d) a.
Proof.
  intros H. remember (S d) as d' eqn:Ed.
  destruct H as [p d' la a Hin Ha | p d' r q b Hpar Hnth Hq Hlq Hf | p d' a r q Hpar Hnth Hq Hlq Hn].
  - exact (has_la_intro K p d' la a Hin Ha).
  - discriminate Ed.
  - discriminate Ed.
Qed.

(* ---- the start item's lookahead ------------------------------------------------------- *)

Lemma iS_start_la_closure g (K : itemset) : wf_grammar g = true ->
  (forall d a, has_la K (start_prod g, d) a -> a = eof g) ->
  forall p d a, lr1_closure_rel g K p d a -> p = start_prod g -> a = eof g.
Proof.
  intros Hwf HK p d a H.
  destruct H as [p d la a Hin Ha | p d r q b Hpar Hnth Hq Hlq Hf | p d a r q Hpar Hnth Hq Hlq Hn];
    intros Ep.
  - subst p. apply (HK d). exact (has_la_intro K _ d la a Hin Ha).
  - exfalso. subst r. exact (iS_no_start_after_dot g p d q Hwf Hnth Ep).
  - exfalso. subst r. exact (iS_no_start_after_dot g p d q Hwf Hnth Ep).
Qed.

Lemma pager_reachable_start_la : pager_reachable_start_la_stmt.
Proof.
  intros g K d a Hwf Hr. revert d a.
  induction Hr as [|K X K' Hr IH Hg Hok|K1 K2 K12 Hr1 IH1 Hr2 IH2 Hwc Hu Hok]; intros d a Hla.
  - apply has_la_pd in Hla. destruct Hla as (la & Hin & Ha).
    unfold start_kernel in Hin. destruct Hin as [Hin|[]].
    injection Hin as _ El. subst la. destruct Ha as [Ha|[]]. symmetry. exact Ha.
  - destruct Hg as [_ Hg1]. apply Hg1 in Hla. destruct Hla as (d0 & _ & Hcl & _).
    exact (iS_start_la_closure g K Hwf IH _ _ _ Hcl eq_refl).
  - destruct Hu as [_ Hu]. apply Hu in Hla. destruct Hla as [Hla|Hla].
    + exact (IH1 d a Hla).
    + exact (IH2 d a Hla).
Qed.

(* ---- closed states ------------------------------------------------------------------------ *)

Lemma iS_closed_core g (core C : itemset) (i : item) :
  closed_repr g core C -> In i C -> lr0_closure_rel g core (it_p i) (it_d i).
Proof.
  intros (_ & H0 & _) Hin. destruct i as [[p d] la]. apply H0.
  exact (has_core_intro C p d la Hin).
Qed.

Lemma iS_closed_la g (core C : itemset) (i : item) a :
  closed_repr g core C -> In i C -> In a (it_la i) -> lr1_closure_rel g core (it_p i) (it_d i) a.
Proof.
  intros (_ & _ & H1) Hin Ha. destruct i as [[p d] la]. apply H1.
  exact (has_la_intro C p d la a Hin Ha).
Qed.

Lemma iS_has_item_core (C : itemset) p d : has_core C (p, d) -> has_item p d C = true.
Proof.
  intros Hc. apply has_core_pd in Hc. destruct Hc as [la Hin].
  unfold has_item, find_item.
  destruct (find (fun i : item => N.eqb (it_p i) p && Nat.eqb (it_d i) d) C) as [j|] eqn:E.
  - reflexivity.
  - pose proof (find_none _ _ E _ Hin) as Hn. cbn [it_p it_d fst snd] in Hn.
    rewrite N.eqb_refl, Nat.eqb_refl in Hn. discriminate Hn.
Qed.

Lemma iS_has_item g (core C : itemset) p d :
  closed_repr g core C -> lr0_closure_rel g core p d -> has_item p d C = true.
Proof.
  intros (_ & H0 & _) Hcl. apply iS_has_item_core. apply H0. exact Hcl.
Qed.

Lemma iS_items_ok_prod g (C : itemset) (i : item) :
  items_ok g C = true -> In i C -> is_prodb g (it_p i) = true.
Proof.
  intros Hok Hin. apply items_ok_spec in Hok. destruct Hok as [_ Hr].
  destruct i as [[p d] la]. apply is_prodb_spec. exact (proj1 (Hr p d la Hin)).
Qed.

(* ---- the states and edges of the induced automaton ------------------------------------- *)

Lemma iS_state g pg s : graph_facts g pg -> In s (states (induced g pg)) ->
  exists core closed es,
    nth_error (pg_states pg) (N.to_nat s) = Some (core, closed) /\
    nth_error (pg_edges pg) (N.to_nat s) = Some es.
Proof.
  intros GF Hs. apply l1_In_states in Hs. cbn [nstates induced] in Hs.
  assert (Hlt : N.to_nat s < length (pg_states pg)) by lia.
  destruct (nth_error (pg_states pg) (N.to_nat s)) as [[core closed]|] eqn:E1.
  2:{ apply nth_error_None in E1. lia. }
  destruct (nth_error (pg_edges pg) (N.to_nat s)) as [es|] eqn:E2.
  2:{ apply nth_error_None in E2. rewrite (gf_len g pg GF) in E2. lia. }
  exists core, closed, es. split; reflexivity.
Qed.

Lemma iS_st_closed pg s (core closed : itemset) :
  nth_error (pg_states pg) (N.to_nat s) = Some (core, closed) -> st_closed pg s = closed.
Proof. unfold st_closed. intros E. rewrite E. reflexivity. Qed.

Lemma iS_st_edge pg s es X :
  nth_error (pg_edges pg) (N.to_nat s) = Some es ->
  st_edge pg s X = option_map N.of_nat (assoc_sym X es).
Proof. unfold st_edge. intros E. rewrite E. reflexivity. Qed.

Lemma iS_st_edge_some pg s es X t' :
  nth_error (pg_edges pg) (N.to_nat s) = Some es -> st_edge pg s X = Some t' ->
  exists t, assoc_sym X es = Some t /\ t' = N.of_nat t.
Proof.
  intros E H. rewrite (iS_st_edge pg s es X E) in H.
  destruct (assoc_sym X es) as [t|]; [|discriminate H].
  exists t. split; [reflexivity|]. simpl in H. injection H as H. symmetry. exact H.
Qed.

Lemma iS_start_kernel_core g k : has_core (start_kernel g) k -> k = (start_prod g, 0%nat).
Proof.
  destruct k as [p d]. intros H. apply has_core_pd in H. destruct H as [la Hin].
  unfold start_kernel in Hin. destruct Hin as [Hin|[]]. injection Hin as Ep Ed _.
  subst p d. reflexivity.
Qed.

(* what an edge of the graph says (gf_sound) *)
Lemma iS_edge g pg s (core closed : itemset) es X t : graph_facts g pg ->
  nth_error (pg_states pg) s = Some (core, closed) -> nth_error (pg_edges pg) s = Some es ->
  assoc_sym X es = Some t ->
  exists core_t closed_t : itemset,
    nth_error (pg_states pg) t = Some (core_t, closed_t) /\ t <> 0%nat /\
    (t < length (pg_states pg))%nat /\
    (exists p d, lr0_closure_rel g core p d /\ nth_error (rhs g p) d = Some X) /\
    (forall p d', has_core core_t (p, d') ->
       exists d, d' = S d /\ lr0_closure_rel g core p d /\ nth_error (rhs g p) d = Some X).
Proof.
  intros GF Hs He Ha.
  destruct (gf_sound g pg GF s core closed es X t Hs He Ha)
    as (G & core_t & closed_t & Hg & [k Hk] & Hnt & [Hsc _]).
  destruct Hg as [Hg0 _].
  assert (Hadv : forall p d', has_core core_t (p, d') ->
       exists d, d' = S d /\ lr0_closure_rel g core p d /\ nth_error (rhs g p) d = Some X).
  { intros p d' Hc. apply Hg0. apply (Hsc (p, d')). exact Hc. }
  exists core_t, closed_t. split; [exact Hnt|]. split; [|split; [|split; [|exact Hadv]]].
  - intros Et. subst t. destruct (gf_start g pg GF) as [closed0 H0].
    rewrite H0 in Hnt. injection Hnt as Ec _. subst core_t.
    destruct k as [p d']. apply (Hsc (p, d')) in Hk.
    destruct (Hadv p d' Hk) as (d & Ed & _). subst d'.
    apply iS_start_kernel_core in Hk. discriminate Hk.
  - apply nth_error_Some. rewrite Hnt. discriminate.
  - destruct k as [p d']. apply Hg0 in Hk. destruct Hk as (d & _ & Hcl & Hn).
    exists p, d. split; assumption.
Qed.

(* a dot-0 kernel item is the start item of state 0 *)
Lemma iS_kernel_dot0 g pg s (core closed : itemset) q : graph_facts g pg ->
  nth_error (pg_states pg) s = Some (core, closed) -> has_core core (q, 0%nat) ->
  s = 0%nat /\ q = start_prod g.
Proof.
  intros GF Hs Hc. destruct s as [|s].
  - destruct (gf_start g pg GF) as [closed0 H0]. rewrite H0 in Hs. injection Hs as Ec _.
    subst core. apply iS_start_kernel_core in Hc. injection Hc as Eq. split; [reflexivity|exact Eq].
  - pose proof (gf_kernel g pg GF (S s) core closed (q, 0%nat) Hs (le_n_S _ _ (Nat.le_0_l s)) Hc) as H.
    simpl in H. lia.
Qed.

(* a dot-0 item of a closed state other than the start item: its rule is after a dot *)
Lemma iS_closed_dot0 g pg s (core closed : itemset) q : graph_facts g pg ->
  nth_error (pg_states pg) s = Some (core, closed) -> lr0_closure_rel g core q 0%nat ->
  (s = 0%nat /\ q = start_prod g) \/
  (q <> start_prod g /\
   exists p d, lr0_closure_rel g core p d /\ nth_error (rhs g p) d = Some (R (lhs g q))).
Proof.
  intros GF Hs Hcl. destruct (iS_lr0_0 g core q Hcl) as [Hc | (p & d & Hp & Hn & _)].
  - left. exact (iS_kernel_dot0 g pg s core closed q GF Hs Hc).
  - right. split; [exact (iS_no_start_after_dot g p d q (gf_wf g pg GF) Hn)|].
    exists p, d. split; assumption.
Qed.

(* ---- the six conditions -------------------------------------------------------------------- *)

Lemma iS_vS0 g pg : graph_facts g pg -> vS0 (induced g pg) = true.
Proof.
  intros GF. unfold vS0. cbn [closed start induced].
  destruct (gf_start g pg GF) as [closed0 H0].
  rewrite (iS_st_closed pg 0%N (start_kernel g) closed0 H0).
  destruct (gf_reach g pg GF 0%nat _ _ H0) as (_ & Hrep & _).
  apply forallb_forall. intros i Hi.
  pose proof (iS_closed_core g _ _ i Hrep Hi) as Hcl.
  destruct (it_d i) as [|d]; [reflexivity|].
  apply iS_lr0_S in Hcl. apply iS_start_kernel_core in Hcl. discriminate Hcl.
Qed.

Lemma iS_vS1 g pg : graph_facts g pg -> vS1 g (induced g pg) = true.
Proof.
  intros GF. unfold vS1. apply forallb_forall. intros s Hs.
  apply forallb_forall. intros X _. cbn [edge start nstates induced].
  destruct (iS_state g pg s GF Hs) as (core & closed & es & Hst & Hes).
  destruct (st_edge pg s X) as [t'|] eqn:Ee; [|reflexivity].
  destruct (iS_st_edge_some pg s es X t' Hes Ee) as (t & Ha & Et). subst t'.
  destruct (iS_edge g pg _ core closed es X t GF Hst Hes Ha) as (core_t & closed_t & _ & Hne & Hlt & _).
  apply andb_true_iff. split.
  - apply negb_true_iff. apply N.eqb_neq. lia.
  - apply N.ltb_lt. lia.
Qed.

Lemma iS_vS2 g pg : graph_facts g pg -> vS2 g (induced g pg) = true.
Proof.
  intros GF. unfold vS2. apply forallb_forall. intros s Hs.
  apply forallb_forall. intros X _. cbn [edge closed induced].
  destruct (iS_state g pg s GF Hs) as (core & closed & es & Hst & Hes).
  destruct (st_edge pg s X) as [t'|] eqn:Ee; [|reflexivity].
  destruct (iS_st_edge_some pg s es X t' Hes Ee) as (t & Ha & Et). subst t'.
  destruct (iS_edge g pg _ core closed es X t GF Hst Hes Ha)
    as (core_t & closed_t & Hnt & _ & _ & _ & Hadv).
  assert (Hnt' : nth_error (pg_states pg) (N.to_nat (N.of_nat t)) = Some (core_t, closed_t)).
  { rewrite Nat2N.id. exact Hnt. }
  rewrite (iS_st_closed pg _ core_t closed_t Hnt').
  rewrite (iS_st_closed pg s core closed Hst).
  destruct (gf_reach g pg GF _ _ _ Hnt) as (_ & Hrep_t & _).
  destruct (gf_reach g pg GF _ _ _ Hst) as (_ & Hrep & _).
  apply forallb_forall. intros i Hi.
  pose proof (iS_closed_core g _ _ i Hrep_t Hi) as Hcl.
  destruct (it_d i) as [|d]; [reflexivity|].
  apply iS_lr0_S in Hcl. destruct (Hadv _ _ Hcl) as (d0 & Ed & Hcl0 & Hn).
  injection Ed as Ed. subst d0. rewrite Hn.
  rewrite iS_sym_eqb_refl. simpl. exact (iS_has_item g core closed _ _ Hrep Hcl0).
Qed.

Lemma iS_vS3 g pg : graph_facts g pg -> vS3 g (induced g pg) = true.
Proof.
  intros GF. pose proof (gf_wf g pg GF) as Hwf.
  unfold vS3. apply forallb_forall. intros s Hs.
  apply forallb_forall. intros a _. cbn [action closed induced].
  destruct (iS_state g pg s GF Hs) as (core & closed & es & Hst & Hes).
  destruct (gf_reach g pg GF _ _ _ Hst) as (Hpr & Hrep & Hok).
  unfold induced_action. rewrite (iS_st_closed pg s core closed Hst).
  destruct (st_edge pg s (T a)) as [t'|] eqn:Ee.
  - destruct (iS_st_edge_some pg s es _ t' Hes Ee) as (t & Ha & Et).
    destruct (iS_edge g pg _ core closed es _ t GF Hst Hes Ha)
      as (core_t & closed_t & _ & _ & _ & (p & d & Hcl & Hn) & _).
    apply negb_true_iff. apply N.eqb_neq. intros Ea. subst a.
    apply (wf_rhs_no_eof g p Hwf (nth_error_rhs_is_prod g p d _ Hn)).
    apply (nth_error_In _ d). exact Hn.
  - destruct (reducers g closed a) as [|i l] eqn:Er; [reflexivity|].
    assert (Hi : In i (reducers g closed a)) by (rewrite Er; left; reflexivity).
    unfold reducers in Hi. apply filter_In in Hi. destruct Hi as [Hi Hf].
    apply andb_true_iff in Hf. destruct Hf as [Hd Hm].
    apply Nat.eqb_eq in Hd. apply memN_In in Hm.
    pose proof (iS_closed_core g _ _ i Hrep Hi) as Hcl.
    pose proof (iS_closed_la g _ _ i a Hrep Hi Hm) as Hcl1.
    destruct (N.eqb_spec (it_p i) (start_prod g)) as [Ep|Np].
    + rewrite Ep in Hd, Hcl, Hcl1. destruct (iS_rhs_start g Hwf) as [r Hr].
      rewrite Hr in Hd. simpl in Hd. rewrite Hd in Hcl, Hcl1.
      apply andb_true_iff. split.
      * apply N.eqb_eq. apply iS_lr1_S in Hcl1.
        exact (pager_reachable_start_la g core 1%nat a Hwf Hpr Hcl1).
      * exact (iS_has_item g core closed _ _ Hrep Hcl).
    + rewrite (iS_items_ok_prod g closed i Hok Hi).
      rewrite (proj2 (N.eqb_neq _ _) Np). simpl.
      rewrite <- Hd. exact (iS_has_item g core closed _ _ Hrep Hcl).
Qed.

Lemma iS_vS4 g pg : graph_facts g pg -> vS4 g (induced g pg) = true.
Proof.
  intros GF. pose proof (gf_wf g pg GF) as Hwf.
  unfold vS4. apply forallb_forall. intros s Hs.
  cbn [action goto edge closed induced].
  destruct (iS_state g pg s GF Hs) as (core & closed & es & Hst & Hes).
  destruct (gf_reach g pg GF _ _ _ Hst) as (Hpr & Hrep & Hok).
  rewrite (iS_st_closed pg s core closed Hst).
  apply andb_true_iff. split; [apply andb_true_iff; split|].
  - apply forallb_forall. intros a _. unfold induced_action.
    destruct (st_edge pg s (T a)) as [t'|].
    + simpl. apply N.eqb_refl.
    + destruct (reducers g (st_closed pg s) a) as [|i l]; [reflexivity|].
      destruct (N.eqb (it_p i) (start_prod g)); reflexivity.
  - apply forallb_forall. intros r _.
    destruct (st_edge pg s (R r)) as [t'|]; [|reflexivity]. simpl. apply N.eqb_refl.
  - apply forallb_forall. intros i Hi.
    pose proof (iS_closed_core g _ _ i Hrep Hi) as Hcl.
    destruct (it_d i) as [|d]; [|reflexivity]. simpl.
    destruct (N.eqb_spec (it_p i) (start_prod g)) as [Ep|Np]; [reflexivity|]. simpl.
    destruct (iS_closed_dot0 g pg _ core closed _ GF Hst Hcl) as [[_ Eq]|[_ (p & d & Hp & Hn)]].
    + contradiction.
    + destruct (goto_exists g core Hwf (pager_reachable_items_ok g core Hwf Hpr) (R (lhs g (it_p i))))
        as (G & Hg & _).
      assert (Hk : exists k, has_core G k).
      { exists (p, S d). apply (proj1 Hg). exists d. split; [reflexivity|]. split; assumption. }
      destruct (gf_complete g pg GF _ core closed es _ G Hst Hes Hg Hk) as (t & _ & _ & Ha & _).
      rewrite (iS_st_edge pg s es _ Hes). rewrite Ha. reflexivity.
Qed.

Lemma iS_vS5 g pg : graph_facts g pg -> vS5 g (induced g pg) = true.
Proof.
  intros GF. pose proof (gf_wf g pg GF) as Hwf.
  unfold vS5. cbn [start nstates closed induced]. apply andb_true_iff. split.
  - apply N.ltb_lt. destruct (gf_start g pg GF) as [closed0 H0].
    assert (Hlt : (0 < length (pg_states pg))%nat).
    { apply nth_error_Some. rewrite H0. discriminate. }
    lia.
  - apply forallb_forall. intros s Hs.
    destruct (iS_state g pg s GF Hs) as (core & closed & es & Hst & Hes).
    destruct (gf_reach g pg GF _ _ _ Hst) as (Hpr & Hrep & Hok).
    rewrite (iS_st_closed pg s core closed Hst).
    apply forallb_forall. intros i Hi.
    rewrite (iS_items_ok_prod g closed i Hok Hi). simpl.
    pose proof (iS_closed_core g _ _ i Hrep Hi) as Hcl.
    destruct (N.eqb_spec (it_p i) (start_prod g)) as [Ep|Np]; [|reflexivity].
    destruct (it_d i) as [|d]; [|reflexivity]. simpl.
    destruct (iS_closed_dot0 g pg _ core closed _ GF Hst Hcl) as [[Es _]|[Nq _]].
    + apply N.eqb_eq. lia.
    + contradiction.
Qed.

Lemma induced_validS : induced_validS_stmt.
Proof.
  intros g pg GF. unfold validS.
  rewrite (iS_vS0 g pg GF), (iS_vS1 g pg GF), (iS_vS2 g pg GF), (iS_vS3 g pg GF),
    (iS_vS4 g pg GF), (iS_vS5 g pg GF). reflexivity.
Qed.
