(* C02 — termination of the work-list loop of the mirror of pager_stategraph
   (LoopModel.v): [sub_kernel_weakly_compatible] and [main_loop_terminates].

   The measure is lexicographic (c1, c2, c3):
     c3 = todo;
     c2 = sum over the core states of (Wmax - W core), W = total size of the contexts;
     c1 = B - length H for a ghost history H of the (symbol, kernel) pairs for which a
          state was created; B bounds the number of distinct such pairs. *)
From Coq Require Import List Arith NArith Bool Lia.
From GV Require Import Common.Outcome Base.Grammar Base.GrammarFacts Base.Analyses Base.AnalysesProofs LR.Automaton
  LR.Validator LR.CloseMirror LR.CloseSpec LR.CloseProofs C02.Model C02.Spec C02.Proofs
  C02.PagerSpec C02.PagerProofsBridge C02.PagerProofsMisc C02.PagerProofsMain C02.PagerProofsExists
  C02.Lr1Model C02.Lr1Spec C02.Lr1Proofs C02.LoopModel C02.LoopSpec C02.LoopProofs C02.LoopEdgeProofs
  C02.LoopFactsProofs C02.LoopPanicProofs.
Import ListNotations.

(* ---- (A) a kernel included in another is weakly compatible with it --------------------------- *)

Lemma sub_kernel_weakly_compatible : sub_kernel_weakly_compatible_stmt.
Proof.
  intros K G [Hsc Hla]. split.
  - intros k. split; intros Hk; [exact (proj2 (Hsc k) Hk)|exact (proj1 (Hsc k) Hk)].
  - intros i j Hi Hj Hij.
    destruct (meets_dec K i G j) as [Hm1|Hn1].
    + right. left. destruct Hm1 as (a & Ha1 & Ha2). exists a. split; [exact Ha1|exact (Hla j a Ha2)].
    + destruct (meets_dec K j G i) as [Hm2|Hn2].
      * right. left. destruct Hm2 as (a & Ha1 & Ha2). exists a. split; [exact (Hla i a Ha2)|exact Ha1].
      * left. split; [exact Hn1|exact Hn2].
Qed.

(* ---- (B.0) the only fuel inside an iteration is close_mirror's ---------------------------------- *)

Lemma lt_obind_nof {A B : Type} (x : outcome A) (f : A -> outcome B) :
  x <> OutOfFuel -> (forall a, f a <> OutOfFuel) -> obind x f <> OutOfFuel.
Proof.
  intros Hx Hf. destruct x as [a| |]; cbn [obind].
  - apply Hf.
  - discriminate.
  - exfalso. apply Hx. reflexivity.
Qed.

Ltac nof_step :=
  first [ discriminate
        | assumption
        | apply lt_obind_nof; [|intros ?]
        | match goal with
          | |- (if ?c then _ else _) <> _ => destruct c
          | |- (match ?x with _ => _ end) <> _ => destruct x
          | |- (let (_, _) := ?x in _) <> _ => destruct x
          end ].
Ltac nof := repeat nof_step.

Lemma lt_nth_checked_nof {A : Type} (l : list A) i : nth_checked l i <> OutOfFuel.
Proof. unfold nth_checked. nof. Qed.

Lemma lt_get_nof s k : get s k <> OutOfFuel.
Proof. unfold get. nof. Qed.

Lemma lt_pair_step_nof self other i j : pair_step self other i j <> OutOfFuel.
Proof.
  pose proof lt_get_nof as Hg. unfold pair_step.
  repeat first [ apply Hg | nof_step ].
Qed.

Lemma lt_inner_loop_nof self other i : forall js, inner_loop self other i js <> OutOfFuel.
Proof.
  induction js as [|j js IH]; cbn [inner_loop]; [discriminate|].
  apply lt_obind_nof; [apply lt_pair_step_nof|]. intros b. destruct b; [exact IH|discriminate].
Qed.

Lemma lt_outer_loop_nof self other len keys : forall is i, outer_loop self other len keys i is <> OutOfFuel.
Proof.
  induction is as [|ik is IH]; intros i; cbn [outer_loop]; [discriminate|].
  apply lt_obind_nof; [apply lt_inner_loop_nof|]. intros b. destruct b; [apply IH|discriminate].
Qed.

Lemma lt_wcm_nof keys self other : weakly_compatible_mirror keys self other <> OutOfFuel.
Proof.
  unfold weakly_compatible_mirror. cbv zeta.
  repeat first [ apply lt_outer_loop_nof | nof_step ].
Qed.

Lemma lt_merge_nof other : forall self, weakly_merge_mirror self other <> OutOfFuel.
Proof.
  induction self as [|i s IH]; cbn [weakly_merge_mirror]; [discriminate|].
  apply lt_obind_nof; [apply lt_get_nof|]. intros oc.
  apply lt_obind_nof; [exact IH|]. intros r. destruct (ctx_or (it_la i) oc). discriminate.
Qed.

Lemma lt_find_same_nof cores ns : forall cnds, find_same cores ns cnds <> OutOfFuel.
Proof.
  induction cnds as [|c cs IH]; cbn [find_same]; [discriminate|].
  apply lt_obind_nof; [apply lt_nth_checked_nof|]. intros k. destruct (itemset_same k ns); [discriminate|exact IH].
Qed.

Lemma lt_find_weak_nof cores ns : forall cnds, find_weak cores ns cnds <> OutOfFuel.
Proof.
  induction cnds as [|c cs IH]; cbn [find_weak]; [discriminate|].
  apply lt_obind_nof; [apply lt_nth_checked_nof|]. intros k.
  apply lt_obind_nof; [apply lt_wcm_nof|]. intros b. destruct b; [discriminate|exact IH].
Qed.

Lemma lt_insert_edge_nof st i X t : insert_edge st i X t <> OutOfFuel.
Proof. unfold insert_edge. apply lt_obind_nof; [apply lt_nth_checked_nof|]. intros es. discriminate. Qed.

Lemma lt_cnd_of_nof st X : cnd_of st X <> OutOfFuel.
Proof. unfold cnd_of. destruct X; apply lt_nth_checked_nof. Qed.

Lemma lt_place_nof max_st i st X ns : place max_st i st X ns <> OutOfFuel.
Proof.
  unfold place.
  apply lt_obind_nof; [apply lt_cnd_of_nof|]. intros cnds.
  apply lt_obind_nof; [apply lt_find_same_nof|]. intros same.
  destruct same as [c|]; [apply lt_insert_edge_nof|].
  apply lt_obind_nof; [apply lt_find_weak_nof|]. intros m.
  destruct m as [k|].
  - apply lt_obind_nof; [apply lt_insert_edge_nof|]. intros st1.
    apply lt_obind_nof; [apply lt_nth_checked_nof|]. intros ck.
    apply lt_obind_nof; [apply lt_merge_nof|]. intros mr. cbv zeta.
    destruct (snd mr); [|discriminate].
    apply lt_obind_nof; [apply lt_nth_checked_nof|]. intros cl. destruct cl; discriminate.
  - destruct (max_st <=? N.of_nat (length (core_sts st)))%N; [discriminate|]. cbv zeta.
    apply lt_obind_nof; [apply lt_cnd_of_nof|]. intros chk.
    apply lt_obind_nof; [apply lt_insert_edge_nof|]. intros st2. discriminate.
Qed.

Lemma lt_place_all_nof max_st i : forall news st, place_all max_st i st news <> OutOfFuel.
Proof.
  induction news as [|[X ns] news IH]; intros st; cbn [place_all]; [discriminate|].
  apply lt_obind_nof; [apply lt_place_nof|]. intros st'. apply IH.
Qed.

Lemma lt_goto_loop_nof g x : forall l acc, goto_loop g x l acc <> OutOfFuel.
Proof.
  induction l as [|i l IH]; intros acc; cbn [goto_loop]; [discriminate|]. cbv zeta.
  destruct (negb (is_prodb g (it_p i))); [discriminate|].
  destruct (Nat.eqb (it_d i) (length (rhs g (it_p i)))); [apply IH|].
  destruct (nth_error (rhs g (it_p i)) (it_d i)) as [y|]; [|discriminate].
  destruct (sym_eqb x y); apply IH.
Qed.

Lemma lt_gen_new_nof g cl : forall ko seen acc, gen_new g cl ko seen acc <> OutOfFuel.
Proof.
  induction ko as [|[p d] ko IH]; intros seen acc; cbn [gen_new]; [discriminate|]. cbv zeta.
  destruct (negb (is_prodb g p)); [discriminate|].
  destruct (Nat.eqb d (length (rhs g p))); [apply IH|].
  destruct (nth_error (rhs g p) d) as [X|]; [|discriminate].
  destruct (negb (sym_in_range g X)); [discriminate|].
  destruct (existsb (sym_eqb X) seen); [apply IH|].
  apply lt_obind_nof; [apply lt_goto_loop_nof|]. intros ns. apply IH.
Qed.

Lemma lt_next_state_nof st : next_state st <> OutOfFuel.
Proof. unfold next_state. nof. Qed.

Lemma lt_iteration_nof g nl fs max_st ko st : loop_pre g nl fs -> Inv g st ->
  iteration g nl fs max_st ko st <> OutOfFuel.
Proof.
  intros Hpre HI. pose proof Hpre as (Hwf & Hnl & Hfs). unfold iteration.
  apply lt_obind_nof; [apply lt_next_state_nof|]. intros state_i.
  destruct (Nat.eqb (todo st) 0); [discriminate|].
  destruct (nth_checked (core_sts st) state_i) as [core_i| |] eqn:Ecore; cbn [obind];
    [|discriminate|exfalso; exact (lt_nth_checked_nof _ _ Ecore)].
  apply le_nth_checked in Ecore.
  pose proof HI as (_ & Hr & _).
  pose proof (pager_reachable_items_ok g core_i Hwf (Hr state_i core_i Ecore)) as Hok.
  assert (Hcp : close_pre g nl fs (keys_of core_i) core_i).
  { unfold close_pre. split; [exact Hwf|]. split; [exact Hnl|]. split; [exact Hfs|].
    split; [exact Hok|]. intros k. split; intros Hk; exact Hk. }
  destruct (close_mirror_terminates g nl fs (keys_of core_i) core_i (close_fuel g (keys_of core_i)) Hcp
              (le_n _)) as [C HC].
  rewrite HC. cbn [obind]. cbv zeta.
  apply lt_obind_nof; [apply lt_gen_new_nof|]. intros news. apply lt_place_all_nof.
Qed.

(* ---- (B.1) c2: the total size of the contexts is bounded and grows with every changing merge ------- *)

Definition allkeys (g : grammar) : list key :=
  flat_map (fun p => map (fun d => (p, d)) (seq 0 (S (length (rhs g p))))) (pidxs g).

Definition W (g : grammar) (K : itemset) : nat := list_sum (map (fun i : item => cnt g (it_la i)) K).
Definition Wmax (g : grammar) : nat := length (allkeys g) * N.to_nat (ntoks g).
Definition c2 (g : grammar) (cores : list itemset) : nat :=
  list_sum (map (fun K => Wmax g - W g K) cores).

Lemma lt_in_allkeys g p d : is_prod g p -> d <= length (rhs g p) -> In (p, d) (allkeys g).
Proof.
  intros Hp Hd. unfold allkeys. apply in_flat_map. exists p. split; [apply In_pidxs; exact Hp|].
  apply in_map_iff. exists d. split; [reflexivity|]. apply in_seq. lia.
Qed.

Lemma lt_keys_allkeys g K : items_ok g K = true -> incl (keys_of K) (allkeys g).
Proof.
  intros Hok k Hk. apply items_ok_spec in Hok. destruct Hok as [_ Hr].
  unfold keys_of in Hk. apply in_map_iff in Hk. destruct Hk as ([[p d] la] & Hf & Hin).
  simpl in Hf. subst k. destruct (Hr p d la Hin) as (Hp & Hd & _). exact (lt_in_allkeys g p d Hp Hd).
Qed.

Lemma lt_list_sum_cons x l : list_sum (x :: l) = x + list_sum l.
Proof. reflexivity. Qed.

Lemma lt_W_len g : forall K, W g K <= length K * N.to_nat (ntoks g).
Proof.
  induction K as [|i K IH]; [apply Nat.le_0_l|].
  unfold W in *. cbn [map list_sum length]. rewrite lt_list_sum_cons, Nat.mul_succ_l. pose proof (cnt_le g (it_la i)). lia.
Qed.

Lemma lt_W_le g K : items_ok g K = true -> W g K <= Wmax g.
Proof.
  intros Hok. pose proof (lt_W_len g K) as H1.
  assert (H2 : length K <= length (allkeys g)).
  { assert (Hl : length (keys_of K) = length K) by (unfold keys_of; apply map_length).
    rewrite <- Hl. apply NoDup_incl_length.
    - apply items_ok_spec in Hok. exact (proj1 Hok).
    - exact (lt_keys_allkeys g K Hok). }
  unfold Wmax. apply (Nat.le_trans _ _ _ H1). apply Nat.mul_le_mono_r. exact H2.
Qed.

Lemma lt_cnt_union_same g oc la : subsetN oc la = true -> cnt g (unionN oc la) = cnt g la.
Proof.
  intros Hs. unfold cnt. f_equal. apply filter_ext. intros t.
  apply subsetN_incl in Hs.
  destruct (memN t la) eqn:E.
  - apply memN_In. apply In_unionN. right. apply memN_In. exact E.
  - destruct (memN t (unionN oc la)) eqn:E2; [|reflexivity].
    apply memN_In in E2. apply In_unionN in E2. destruct E2 as [H|H].
    + apply Hs in H. apply memN_In in H. rewrite H in E. discriminate E.
    + apply memN_In in H. rewrite H in E. discriminate E.
Qed.

Lemma lt_W_merge g other : items_ok g other = true ->
  forall self mr, weakly_merge_mirror self other = Done mr ->
  (snd mr = true -> W g self < W g (fst mr)) /\ (snd mr = false -> W g (fst mr) = W g self) /\
  W g self <= W g (fst mr).
Proof.
  intros Hok. pose proof (proj2 (proj1 (items_ok_spec g other) Hok)) as Hr.
  induction self as [|i s IH]; intros mr H.
  - cbn [weakly_merge_mirror] in H. injection H as H. subst mr. cbn [fst snd].
    split; [intros F; discriminate F|]. split; [reflexivity|apply le_n].
  - cbn [weakly_merge_mirror] in H. ostep H as oc Eoc. ostep H as r Er.
    destruct (IH r eq_refl) as (IH1 & IH2 & IH3).
    unfold ctx_or in H. injection H as H. subst mr. cbn [fst snd].
    unfold W in *. cbn [map it_la snd]. rewrite !lt_list_sum_cons.
    assert (Hoc : forall a, In a oc -> (a < ntoks g)%N).
    { unfold get in Eoc. cbn [fst snd] in Eoc.
      destruct (lookup (it_p i) (it_d i) other) as [c|] eqn:El; [|discriminate Eoc].
      injection Eoc as Eoc. subst c. apply lookup_In in El.
      exact (proj2 (proj2 (Hr _ _ _ El))). }
    assert (Hmono : cnt g (it_la i) <= cnt g (unionN oc (it_la i))).
    { unfold cnt. apply filter_length_mono. intros t _ Ht.
      apply memN_In. apply In_unionN. right. apply memN_In. exact Ht. }
    destruct (subsetN oc (it_la i)) eqn:Es; cbn [negb orb].
    + pose proof (lt_cnt_union_same g oc (it_la i) Es) as Heq.
      split; [intros Hc; specialize (IH1 Hc); lia|].
      split; [intros Hc; specialize (IH2 Hc); lia|lia].
    + apply subsetN_false in Es. destruct Es as (t & Ht & Hm).
      pose proof (cnt_union_lt g oc (it_la i) t Ht Hm (Hoc t Ht)) as Hlt.
      split; [intros _; lia|]. split; [intros F; discriminate F|lia].
Qed.

Lemma lt_sum_set_nth {A : Type} (f : A -> nat) (v : A) : forall l k x, nth_error l k = Some x ->
  list_sum (map f (set_nth k v l)) + f x = list_sum (map f l) + f v.
Proof.
  induction l as [|y l IH]; intros [|k] x H; simpl in H; try discriminate H.
  - injection H as H. subst y. cbn [set_nth map]. rewrite !lt_list_sum_cons. lia.
  - cbn [set_nth map]. rewrite !lt_list_sum_cons. specialize (IH k x H). lia.
Qed.

Lemma lt_c2_app g cores ns : c2 g (cores ++ [ns]) = c2 g cores + (Wmax g - W g ns).
Proof. unfold c2. rewrite map_app, list_sum_app. cbn [map]. rewrite lt_list_sum_cons. cbn [list_sum fold_right]. lia. Qed.

(* ---- (B.2) c1: a kernel as a bit vector; finitely many (symbol, kernel) pairs --------------------- *)

Definition univ (g : grammar) : list (key * option N) :=
  flat_map (fun k => (k, None) :: map (fun a => (k, Some a)) (tidxs g)) (allkeys g).

Definition bit (K : itemset) (x : key * option N) : bool :=
  match snd x with
  | None => has_key K (fst x)
  | Some a => memN a (ctx K (fst x))
  end.

Definition bv (g : grammar) (K : itemset) : list bool := map (bit K) (univ g).
Definition Lbits (g : grammar) : nat := length (univ g).
Definition hkey (g : grammar) (h : sym * itemset) : sym * list bool := (fst h, bv g (snd h)).

Lemma lt_bv_length g K : length (bv g K) = Lbits g.
Proof. unfold bv, Lbits. apply map_length. Qed.

Lemma lt_in_univ_core g k : In k (allkeys g) -> In (k, None) (univ g).
Proof. intros Hk. unfold univ. apply in_flat_map. exists k. split; [exact Hk|]. left. reflexivity. Qed.

Lemma lt_in_univ_la g k a : In k (allkeys g) -> (a < ntoks g)%N -> In (k, Some a) (univ g).
Proof.
  intros Hk Ha. unfold univ. apply in_flat_map. exists k. split; [exact Hk|]. right.
  apply in_map_iff. exists a. split; [reflexivity|]. apply In_tidxs. exact Ha.
Qed.

(* equal bit vectors: the same cores and lookaheads (one direction; used twice) *)
Lemma lt_bv_sub g K1 K2 : items_ok g K1 = true -> is_map K2 -> bv g K1 = bv g K2 ->
  (forall k, has_core K1 k -> has_core K2 k) /\ (forall k a, has_la K1 k a -> has_la K2 k a).
Proof.
  intros Hok1 Hm2 Hbv. unfold bv in Hbv.
  pose proof (proj1 map_ext_in_iff Hbv) as Hb.
  pose proof (items_ok_is_map g K1 Hok1) as Hm1.
  pose proof (lt_keys_allkeys g K1 Hok1) as Hinc.
  pose proof (proj2 (proj1 (items_ok_spec g K1) Hok1)) as Hr.
  assert (Hc : forall k, has_core K1 k -> has_core K2 k).
  { intros k Hk. pose proof (proj1 (has_core_keys K1 k) Hk) as Hin.
    specialize (Hb (k, None) (lt_in_univ_core g k (Hinc k Hin))).
    unfold bit in Hb. cbn [fst snd] in Hb.
    apply has_core_keys. apply has_key_keys. rewrite <- Hb. apply has_key_keys. exact Hin. }
  split; [exact Hc|].
  intros k a Hla.
  assert (Hk : has_core K1 k).
  { destruct Hla as (la & Hin & _). exists la. exact Hin. }
  pose proof (proj1 (has_core_keys K1 k) Hk) as Hin.
  assert (Ha : (a < ntoks g)%N).
  { destruct Hla as (la & Hin' & Hal). destruct k as [p d]. cbn [fst snd] in Hin'.
    exact (proj2 (proj2 (Hr p d la Hin')) a Hal). }
  specialize (Hb (k, Some a) (lt_in_univ_la g k a (Hinc k Hin) Ha)).
  unfold bit in Hb. cbn [fst snd] in Hb.
  apply (has_la_ctx K2 k a Hm2). apply memN_In. rewrite <- Hb. apply memN_In.
  apply (has_la_ctx K1 k a Hm1). exact Hla.
Qed.

Fixpoint all_bv (n : nat) : list (list bool) :=
  match n with
  | O => [[]]
  | S n' => flat_map (fun v => [true :: v; false :: v]) (all_bv n')
  end.

Lemma lt_all_bv_in : forall n v, length v = n -> In v (all_bv n).
Proof.
  induction n as [|n IH]; intros v Hv.
  - destruct v; [left; reflexivity|discriminate Hv].
  - destruct v as [|b v]; [discriminate Hv|]. cbn [all_bv]. apply in_flat_map.
    exists v. split; [apply IH; simpl in Hv; lia|]. destruct b; [left|right; left]; reflexivity.
Qed.

Lemma lt_all_bv_length : forall n, length (all_bv n) = 2 ^ n.
Proof.
  induction n as [|n IH]; [reflexivity|]. cbn [all_bv].
  assert (Hf : forall l : list (list bool),
             length (flat_map (fun v => [true :: v; false :: v]) l) = 2 * length l).
  { induction l as [|x l IHl]; [reflexivity|]. cbn [flat_map app length] in *. lia. }
  rewrite Hf, IH. cbn [Nat.pow]. reflexivity.
Qed.

Definition Bnd (g : grammar) : nat := length (all_syms g) * 2 ^ Lbits g.

Lemma lt_pigeon g (H : list (sym * itemset)) : NoDup (map (hkey g) H) ->
  (forall X K0, In (X, K0) H -> sym_in_range g X = true) -> length H <= Bnd g.
Proof.
  intros Hnd Hr.
  assert (Hl : length (map (hkey g) H) <= length (list_prod (all_syms g) (all_bv (Lbits g)))).
  { apply NoDup_incl_length; [exact Hnd|]. intros x Hx.
    apply in_map_iff in Hx. destruct Hx as ([X K0] & Hx & Hin). subst x.
    unfold hkey. cbn [fst snd]. apply in_prod.
    - apply l1_In_all_syms. exact (Hr X K0 Hin).
    - apply lt_all_bv_in. apply lt_bv_length. }
  rewrite map_length, prod_length, lt_all_bv_length in Hl. exact Hl.
Qed.

(* ---- (B.3) the ghost history -------------------------------------------------------------------- *)

Definition cnds_of (st : pst) (X : sym) : list nat :=
  match X with
  | R r => nth (N.to_nat r) (cnd_rule st) []
  | T t => nth (N.to_nat t) (cnd_tok st) []
  end.

Lemma lt_cnd_of st X cnds : cnd_of st X = Done cnds -> cnds = cnds_of st X.
Proof.
  unfold cnd_of, cnds_of, nth_checked. intros H. destruct X as [t|r].
  - destruct (nth_error (cnd_tok st) (N.to_nat t)) as [l|] eqn:E; [|discriminate H].
    injection H as H. subst l. symmetry. exact (nth_error_nth _ _ _ E).
  - destruct (nth_error (cnd_rule st) (N.to_nat r)) as [l|] eqn:E; [|discriminate H].
    injection H as H. subst l. symmetry. exact (nth_error_nth _ _ _ E).
Qed.

Lemma lt_push_incl (k c : nat) : forall (l : list (list nat)) i j,
  In c (nth j l []) -> In c (nth j (set_nth i (nth i l [] ++ [k]) l) []).
Proof.
  induction l as [|x l IH]; intros i j Hc.
  - destruct i; exact Hc.
  - destruct i as [|i]; destruct j as [|j]; cbn [set_nth nth] in *.
    + apply in_or_app. left. exact Hc.
    + exact Hc.
    + exact Hc.
    + apply IH. exact Hc.
Qed.

Lemma lt_push_new (k : nat) : forall (l : list (list nat)) i x, nth_error l i = Some x ->
  In k (nth i (set_nth i (nth i l [] ++ [k]) l) []).
Proof.
  induction l as [|y l IH]; intros [|i] x H; simpl in H; try discriminate H.
  - cbn [set_nth nth]. apply in_or_app. right. left. reflexivity.
  - cbn [set_nth nth]. exact (IH i x H).
Qed.

Lemma lt_cnds_push_incl st X k Y c : In c (cnds_of st Y) -> In c (cnds_of (cnd_push st X k) Y).
Proof.
  intros H. destruct X as [t|r]; destruct Y as [t'|r']; cbn [cnd_push cnds_of cnd_rule cnd_tok] in *;
    try exact H; apply lt_push_incl; exact H.
Qed.

Lemma lt_cnds_push_new st X k cnds : cnd_of st X = Done cnds -> In k (cnds_of (cnd_push st X k) X).
Proof.
  unfold cnd_of, nth_checked. intros H. destruct X as [t|r]; cbn [cnd_push cnds_of cnd_rule cnd_tok].
  - destruct (nth_error (cnd_tok st) (N.to_nat t)) as [l|] eqn:E; [|discriminate H].
    exact (lt_push_new k _ _ l E).
  - destruct (nth_error (cnd_rule st) (N.to_nat r)) as [l|] eqn:E; [|discriminate H].
    exact (lt_push_new k _ _ l E).
Qed.

Lemma lt_sub_kernel_refl K : sub_kernel K K.
Proof. split; [intros k; split; intros H; exact H|intros k a H; exact H]. Qed.

Lemma lt_sub_kernel_trans A B C : sub_kernel A B -> sub_kernel B C -> sub_kernel A C.
Proof.
  intros [H1 H2] [H3 H4]. split.
  - intros k. split; intros H.
    + exact (proj1 (H3 k) (proj1 (H1 k) H)).
    + exact (proj2 (H1 k) (proj2 (H3 k) H)).
  - intros k a H. exact (H4 k a (H2 k a H)).
Qed.

Definition HInv (g : grammar) (st : pst) (H : list (sym * itemset)) : Prop :=
  NoDup (map (hkey g) H) /\
  forall X K0, In (X, K0) H ->
    items_ok g K0 = true /\ sym_in_range g X = true /\
    exists c core_c, In c (cnds_of st X) /\ nth_error (core_sts st) c = Some core_c /\
                     sub_kernel K0 core_c.

Lemma lt_HInv_bound g st H : HInv g st H -> length H <= Bnd g.
Proof.
  intros [Hnd Hall]. apply lt_pigeon; [exact Hnd|].
  intros X K0 Hin. exact (proj1 (proj2 (Hall X K0 Hin))).
Qed.

Lemma lt_HInv_evolve g st st' H : HInv g st H ->
  (forall X c, In c (cnds_of st X) -> In c (cnds_of st' X)) ->
  (forall c core_c, nth_error (core_sts st) c = Some core_c ->
     exists core_c', nth_error (core_sts st') c = Some core_c' /\ sub_kernel core_c core_c') ->
  HInv g st' H.
Proof.
  intros [Hnd Hall] Hc Hk. split; [exact Hnd|].
  intros X K0 Hin. destruct (Hall X K0 Hin) as (Hok & HX & c & core_c & Hcin & Hnth & Hsub).
  split; [exact Hok|]. split; [exact HX|].
  destruct (Hk c core_c Hnth) as (core_c' & Hnth' & Hsub').
  exists c, core_c'. split; [exact (Hc X c Hcin)|]. split; [exact Hnth'|].
  exact (lt_sub_kernel_trans _ _ _ Hsub Hsub').
Qed.

Lemma lt_find_weak_none cores ns : forall cnds, find_weak cores ns cnds = Done None ->
  forall c, In c cnds -> exists k, nth_error cores c = Some k /\
    weakly_compatible_mirror (keys_of k) k ns = Done false.
Proof.
  induction cnds as [|c0 cs IH]; intros H c Hc; [destruct Hc|].
  cbn [find_weak] in H. ostep H as k Ek. ostep H as b Eb.
  destruct b; [discriminate H|].
  destruct Hc as [Hc|Hc].
  - subst c0. exists k. split; [exact (le_nth_checked _ _ _ Ek)|exact Eb].
  - exact (IH H c Hc).
Qed.

(* m' is below-or-equal m: lexicographically smaller on (c1, c2), or equal on all three *)
Definition mle (a' b' c' a b c : nat) : Prop :=
  a' < a \/ (a' = a /\ b' < b) \/ (a' = a /\ b' = b /\ c' = c).

Lemma lt_mle_trans a1 b1 c1 a2 b2 c2 a3 b3 c3 :
  mle a1 b1 c1 a2 b2 c2 -> mle a2 b2 c2 a3 b3 c3 -> mle a1 b1 c1 a3 b3 c3.
Proof. unfold mle. lia. Qed.

(* ---- (B.4) one [place] ----------------------------------------------------------------------------- *)

Lemma lt_place_step g max_st i st X ns st' H :
  wf_grammar g = true -> Inv g st -> HInv g st H ->
  sym_in_range g X = true -> pager_reachable g ns -> (exists k, has_core ns k) ->
  place max_st i st X ns = Done st' ->
  exists H', HInv g st' H' /\
    mle (Bnd g - length H') (c2 g (core_sts st')) (todo st')
        (Bnd g - length H) (c2 g (core_sts st)) (todo st).
Proof.
  intros Hwf HI HH HX Hns Hne Hpl. unfold place in Hpl.
  pose proof (pager_reachable_items_ok g ns Hwf Hns) as Hokns.
  pose proof (items_ok_is_map g ns Hokns) as Hmns.
  pose proof HI as (Hlen & Hr & Hcl).
  ostep Hpl as cnds Ecnd.
  ostep Hpl as same Esame.
  destruct same as [c|].
  - (* an equal candidate: only an edge *)
    destruct (le_insert_edge_spec _ _ _ _ _ Hpl) as (es & _ & Est). subst st'.
    exists H. split.
    + apply (lt_HInv_evolve g st _ H HH).
      * intros Y c0 Hc0. destruct Y; exact Hc0.
      * intros c0 core_c Hc0. exists core_c. split; [exact Hc0|apply lt_sub_kernel_refl].
    + right. right. cbn [core_sts todo]. repeat split; reflexivity.
  - ostep Hpl as m Eweak. destruct m as [k|].
    + (* a weakly compatible candidate: merge *)
      ostep Hpl as st1 Eins.
      destruct (le_insert_edge_spec _ _ _ _ _ Eins) as (es & _ & Est). subst st1.
      cbn [core_sts closed_sts edges_st cnd_rule cnd_tok todo todo_off] in Hpl.
      destruct (lp_find_weak_spec _ _ _ _ Eweak) as (ck & Hck & Hwc).
      assert (Eck : nth_checked (core_sts st) k = Done ck).
      { unfold nth_checked. rewrite Hck. reflexivity. }
      rewrite Eck in Hpl. cbn [obind] in Hpl.
      ostep Hpl as mr Emr. cbv zeta in Hpl.
      pose proof (pager_reachable_items_ok g ck Hwf (Hr k ck Hck)) as Hokck.
      destruct (lp_merge_facts g ck ns mr Hwf (Hr k ck Hck) Hns Hwc Emr) as [Hreach _].
      pose proof (pager_reachable_items_ok g (fst mr) Hwf Hreach) as Hokm.
      destruct (le_merge_facts g ck ns mr Hokck Hokns Hwc Emr) as (_ & [Hu1 Hu2] & _).
      destruct (lt_W_merge g ns Hokns ck mr Emr) as (HW1 & HW2 & _).
      pose proof (lt_W_le g (fst mr) Hokm) as HWm.
      pose proof (lt_W_le g ck Hokck) as HWk.
      pose proof (lt_sum_set_nth (fun K => Wmax g - W g K) (fst mr) (core_sts st) k ck Hck) as Hsum.
      cbv beta in Hsum. fold (c2 g (set_nth k (fst mr) (core_sts st))) in Hsum.
      fold (c2 g (core_sts st)) in Hsum.
      assert (Hsub : sub_kernel ck (fst mr)).
      { split; [exact Hu1|]. intros k0 a Ha. apply (proj2 (Hu2 k0 a)). left. exact Ha. }
      assert (HH' : forall cl' ed' td' off',
                 HInv g (mkPst cl' (set_nth k (fst mr) (core_sts st)) ed' (cnd_rule st) (cnd_tok st) td' off') H).
      { intros cl' ed' td' off'. apply (lt_HInv_evolve g st _ H HH).
        - intros Y c0 Hc0. destruct Y; exact Hc0.
        - intros c0 core_c Hc0. cbn [core_sts]. rewrite lp_nth_error_set_nth.
          destruct (Nat.eqb k c0) eqn:E.
          + apply Nat.eqb_eq in E. subst c0. rewrite Hc0. exists (fst mr). split; [reflexivity|].
            rewrite Hck in Hc0. injection Hc0 as Hc0. subst core_c. exact Hsub.
          + exists core_c. split; [exact Hc0|apply lt_sub_kernel_refl]. }
      destruct (snd mr) eqn:Esnd.
      * specialize (HW1 eq_refl).
        ostep Hpl as cl Ecl.
        destruct cl as [c0|]; injection Hpl as Hpl; subst st'; exists H; (split; [apply HH'|]);
          cbn [core_sts todo]; right; left; (split; [reflexivity|lia]).
      * specialize (HW2 eq_refl).
        injection Hpl as Hpl. subst st'. exists H. split; [apply HH'|].
        cbn [core_sts todo]. right. right. split; [reflexivity|]. split; [lia|reflexivity].
    + (* no candidate: a new state *)
      destruct (max_st <=? N.of_nat (length (core_sts st)))%N; [discriminate Hpl|].
      cbn [obind] in Hpl. cbv zeta in Hpl.
      ostep Hpl as st2 Eins.
      destruct (le_insert_edge_spec _ _ _ _ _ Eins) as (es & _ & Est). subst st2.
      cbn [core_sts closed_sts edges_st cnd_rule cnd_tok todo todo_off] in Hpl.
      destruct (lp_cnd_push_same st X (length (core_sts st))) as [E3 _].
      injection Hpl as Hpl.
      assert (HH' : HInv g st' ((X, ns) :: H)).
      { destruct HH as [Hnd Hall]. split.
        - cbn [map]. apply NoDup_cons; [|exact Hnd].
          intros Hin. apply in_map_iff in Hin. destruct Hin as ([X0 K0] & Hkey & Hin).
          unfold hkey in Hkey. cbn [fst snd] in Hkey. injection Hkey as HX0 Hbv. subst X0.
          destruct (Hall X K0 Hin) as (HokK0 & _ & c & core_c & Hcin & Hnth & [Hs1 Hs2]).
          destruct (lt_bv_sub g K0 ns HokK0 Hmns Hbv) as [Ha1 Ha2].
          destruct (lt_bv_sub g ns K0 Hokns (items_ok_is_map g K0 HokK0) (eq_sym Hbv)) as [Hb1 Hb2].
          assert (Hsub : sub_kernel ns core_c).
          { split.
            - intros k. split; intros Hk.
              + exact (proj1 (Hs1 k) (Hb1 k Hk)).
              + exact (Ha1 k (proj2 (Hs1 k) Hk)).
            - intros k a Hk. exact (Hs2 k a (Hb2 k a Hk)). }
          pose proof (sub_kernel_weakly_compatible core_c ns Hsub) as Hspec.
          rewrite (lt_cnd_of st X cnds Ecnd) in Eweak.
          destruct (lt_find_weak_none _ _ _ Eweak c Hcin) as (k & Hk & Hfalse).
          rewrite Hnth in Hk. injection Hk as Hk. subst k.
          pose proof (items_ok_is_map g core_c (pager_reachable_items_ok g core_c Hwf (Hr c core_c Hnth)))
            as Hmc.
          assert (Hnec : core_c <> []).
          { destruct Hne as [k Hk]. destruct (proj1 (proj1 Hsub k) Hk) as [la Hla].
            intros Hnil. rewrite Hnil in Hla. destruct Hla. }
          assert (Hperm : keys_perm core_c (keys_of core_c)).
          { split; [exact Hmc|]. intros k. split; intros Hk; exact Hk. }
          destruct (weakly_compatible_mirror_spec (keys_of core_c) core_c ns Hmc Hmns Hperm Hnec)
            as (b & Hb & Hbs).
          rewrite Hfalse in Hb. injection Hb as Hb. subst b.
          pose proof (proj2 Hbs Hspec) as F. discriminate F.
        - intros Y K0 [Heq|Hin].
          + injection Heq as HY HK. subst Y K0. split; [exact Hokns|]. split; [exact HX|].
            exists (length (core_sts st)), ns. subst st'. cbn [core_sts]. rewrite E3.
            split; [|split].
            * destruct X; exact (lt_cnds_push_new st _ (length (core_sts st)) cnds Ecnd).
            * rewrite nth_error_app2 by apply le_n. rewrite Nat.sub_diag. reflexivity.
            * apply lt_sub_kernel_refl.
          + destruct (Hall Y K0 Hin) as (HokK0 & HY & c & core_c & Hcin & Hnth & Hsub).
            split; [exact HokK0|]. split; [exact HY|].
            exists c, core_c. subst st'. cbn [core_sts]. rewrite E3. split; [|split].
            * pose proof (lt_cnds_push_incl st X (length (core_sts st)) Y c Hcin) as Hi.
              destruct Y; exact Hi.
            * rewrite nth_error_app1 by exact (le_nth_error_lt _ _ _ Hnth). exact Hnth.
            * exact Hsub. }
      exists ((X, ns) :: H). split; [exact HH'|].
      pose proof (lt_HInv_bound g st' _ HH') as Hb. cbn [length] in Hb.
      left. cbn [length]. lia.
Qed.

(* ---- (B.5) place_all, one iteration ------------------------------------------------------------------ *)

Lemma lt_place_all_step g max_st i : wf_grammar g = true ->
  forall news st st' H, Inv g st -> HInv g st H ->
  (forall X ns, In (X, ns) news ->
     sym_in_range g X = true /\ pager_reachable g ns /\ exists k, has_core ns k) ->
  place_all max_st i st news = Done st' ->
  exists H', HInv g st' H' /\
    mle (Bnd g - length H') (c2 g (core_sts st')) (todo st')
        (Bnd g - length H) (c2 g (core_sts st)) (todo st).
Proof.
  intros Hwf. induction news as [|[X ns] news IH]; intros st st' H HI HH Hnews Hpl.
  - cbn [place_all] in Hpl. injection Hpl as Hpl. subst st'. exists H. split; [exact HH|].
    right. right. repeat split; reflexivity.
  - cbn [place_all] in Hpl. ostep Hpl as st1 E1.
    destruct (Hnews X ns (or_introl eq_refl)) as (HX & Hns & Hne).
    destruct (lt_place_step g max_st i st X ns st1 H Hwf HI HH HX Hns Hne E1) as (H1 & HH1 & Hm1).
    pose proof (lp_place_inv g max_st i st X ns st1 Hwf HI Hns E1) as HI1.
    destruct (IH st1 st' H1 HI1 HH1) as (H2 & HH2 & Hm2); [|exact Hpl|].
    + intros X' ns' Hin. apply (Hnews X' ns'). right. exact Hin.
    + exists H2. split; [exact HH2|]. exact (lt_mle_trans _ _ _ _ _ _ _ _ _ Hm2 Hm1).
Qed.

Definition mlt (a' b' c' a b c : nat) : Prop :=
  a' < a \/ (a' = a /\ b' < b) \/ (a' = a /\ b' = b /\ c' < c).

Lemma lt_iteration_step g nl fs max_st ko st st' H : loop_pre g nl fs -> Inv g st -> HInv g st H ->
  iteration g nl fs max_st ko st = Done st' ->
  exists H', HInv g st' H' /\
    mlt (Bnd g - length H') (c2 g (core_sts st')) (todo st')
        (Bnd g - length H) (c2 g (core_sts st)) (todo st).
Proof.
  intros Hpre HI HH Hit. pose proof Hpre as (Hwf & _ & _). unfold iteration in Hit.
  ostep Hit as state_i Enext.
  destruct (Nat.eqb (todo st) 0) eqn:Etodo; [discriminate Hit|].
  apply Nat.eqb_neq in Etodo.
  ostep Hit as core_i Ecore.
  ostep Hit as cl Ecl.
  cbv zeta in Hit.
  ostep Hit as news Enews.
  apply le_nth_checked in Ecore.
  pose proof HI as (Hlen & Hr & Hc).
  pose proof (Hr state_i core_i Ecore) as Hreach.
  pose proof (pager_reachable_items_ok g core_i Hwf Hreach) as Hok.
  destruct (lp_close_specific g nl fs core_i cl _ Hpre Hok Ecl) as [Hclok Hclrepr].
  pose proof Hclrepr as (_ & Hcl0 & _).
  match type of Hit with place_all _ _ ?s _ = _ => set (st1 := s) in * end.
  assert (HI1 : Inv g st1).
  { unfold Inv, st1. cbn [core_sts closed_sts]. apply lp_Inv2_set_closed; [exact HI|].
    intros core C HC Hcore. injection HC as HC. subst C.
    rewrite Ecore in Hcore. injection Hcore as Hcore. subst core. exact Hclrepr. }
  assert (HH1 : HInv g st1 H).
  { apply (lt_HInv_evolve g st st1 H HH).
    - intros Y c0 Hc0. destruct Y; exact Hc0.
    - intros c0 core_c Hc0. exists core_c. split; [exact Hc0|apply lt_sub_kernel_refl]. }
  destruct (pp_gen_new_syms g cl (eff_order cl ko) [] [] news eq_refl (NoDup_nil _)) as [_ Hrange];
    [intros X0 F; destruct F|exact Enews|].
  destruct (lt_place_all_step g max_st state_i Hwf news st1 st' H HI1 HH1) as (H' & HH' & Hm);
    [|exact Hit|].
  - intros X ns Hin.
    assert (Hnil : forall X0 ns0, In (X0, ns0) (@nil (sym * itemset)) ->
                     is_goto g core_i X0 ns0 /\ items_ok g ns0 = true).
    { intros X0 ns0 F. destruct F. }
    destruct (lp_gen_new_spec g core_i cl Hclrepr Hclok _ [] [] news Hnil Enews X ns Hin)
      as [Hg Hnsok].
    split; [|split].
    + apply Hrange. apply in_map_iff. exists (X, ns). split; [reflexivity|exact Hin].
    + exact (pr_goto g core_i X ns Hreach Hg Hnsok).
    + assert (Hne : gnonempty g core_i X).
      { apply (le_gen_new_from g cl (fun X => gnonempty g core_i X) (eff_order cl ko) [] [] news)
          with (ns := ns); [| |exact Enews|exact Hin].
        - intros p d X0 Hk Hn. exists p, (S d), d. split; [reflexivity|]. split; [|exact Hn].
          apply (proj1 (Hcl0 p d)). apply has_core_keys. apply le_eff_order_keys in Hk. exact Hk.
        - intros X0 ns0 F. destruct F. }
      exact (proj1 (fp_goto_kernel_like g core_i X ns 0 Hg Hne)).
  - exists H'. split; [exact HH'|]. unfold st1 in Hm. cbn [core_sts todo] in Hm.
    unfold mle in Hm. unfold mlt. lia.
Qed.

(* ---- (B.6) termination ---------------------------------------------------------------------------------- *)

Lemma lt_lex3_ind (P : nat -> nat -> nat -> Prop) :
  (forall a b c, (forall a' b' c', mlt a' b' c' a b c -> P a' b' c') -> P a b c) ->
  forall a b c, P a b c.
Proof.
  intros HP a. induction a as [a IHa] using lt_wf_ind.
  intros b. induction b as [b IHb] using lt_wf_ind.
  intros c. induction c as [c IHc] using lt_wf_ind.
  apply HP. intros a' b' c' [Hlt|[[Ha Hlt]|[Ha [Hb Hlt]]]].
  - apply IHa. exact Hlt.
  - subst a'. apply IHb. exact Hlt.
  - subst a' b'. apply IHc. exact Hlt.
Qed.

Lemma lt_main_loop_measure g nl fs max_st : loop_pre g nl fs ->
  forall a b c st H orders, Inv g st -> HInv g st H ->
  Bnd g - length H = a -> c2 g (core_sts st) = b -> todo st = c ->
  exists fuel, main_loop g nl fs max_st fuel orders st <> OutOfFuel.
Proof.
  intros Hpre a b c. pattern a, b, c. apply lt_lex3_ind. clear a b c.
  intros a b c IH st H orders HI HH Ea Eb Ec.
  destruct (Nat.eqb (todo st) 0) eqn:Et.
  - exists 1. cbn [main_loop]. rewrite Et. discriminate.
  - set (ko := match orders with k :: _ => Some k | [] => None end).
    destruct (iteration g nl fs max_st ko st) as [st'| |] eqn:Eit.
    + destruct (lt_iteration_step g nl fs max_st ko st st' H Hpre HI HH Eit) as (H' & HH' & Hm).
      pose proof (lp_iteration_inv g nl fs max_st ko st st' Hpre HI Eit) as HI'.
      rewrite Ea, Eb, Ec in Hm.
      destruct (IH _ _ _ Hm st' H' (tl orders) HI' HH' eq_refl eq_refl eq_refl) as [fuel Hfuel].
      exists (S fuel). cbn [main_loop]. rewrite Et.
      destruct orders as [|k orders']; unfold ko in Eit; rewrite Eit; cbn [obind]; exact Hfuel.
    + exists 1. cbn [main_loop]. rewrite Et.
      destruct orders as [|k orders']; unfold ko in Eit; rewrite Eit; cbn [obind]; discriminate.
    + exfalso. exact (lt_iteration_nof g nl fs max_st ko st Hpre HI Eit).
Qed.

Lemma lt_HInv_init g : HInv g (init_pst g) [].
Proof. split; [apply NoDup_nil|]. intros X K0 F. destruct F. Qed.

Lemma main_loop_terminates g nl fs max_st orders : loop_pre g nl fs ->
  exists fuel, main_loop g nl fs max_st fuel orders (init_pst g) <> OutOfFuel.
Proof.
  intros Hpre.
  exact (lt_main_loop_measure g nl fs max_st Hpre _ _ _ (init_pst g) [] orders
           (lp_init_inv g) (lt_HInv_init g) eq_refl eq_refl eq_refl).
Qed.
