(* C02 — the TEXTBOOK notion of LR(1) and its relation to the notion the
   construction theorems are stated over.  Statements; proofs in TextbookProofs.v
   and PhantomProofs.v.

   [lr1_grammar] (PagerSpec.v) reads "the canonical construction has no conflict"
   over the closure [lr1_closure_rel] of LR/CloseSpec.v, which FOLLOWS THE CODE
   (Itemset::close): below a parent [A -> alpha . B beta] the item [B -> . gamma]
   is present whatever FIRST(beta a) is — with an EMPTY lookahead set when beta
   derives no token string — takes part in goto (so it yields shift cells) and
   hands FIRST(..) lookaheads to its own children.  The property text says
   "LR(1) (the canonical, unmerged LR(1) construction has no conflicts)": the
   textbook notion, over single-lookahead items [A -> alpha . beta, a], where
   such an item does not exist.  This file states the textbook notion
   ([lr1_textbook_grammar]) in exactly the form of [lr1_grammar], with
   [lr1_textbook_rel] in the place of the two closure relations. *)
From Coq Require Import List Arith NArith Bool Lia.
From GV Require Import Common.Outcome Base.Grammar Base.Analyses LR.Automaton LR.Validator LR.Canon
  LR.CloseMirror LR.CloseSpec C02.Model C02.Spec C02.PagerSpec C02.Lr1Model C02.TextbookModel.
Import ListNotations.

(* ---- the textbook canonical collection --------------------------------------------------

   [tb_at g K alpha p d a]: the single-lookahead item [p, d, a] is in the state
   reached from the kernel K along alpha — closure and goto of the textbook
   construction as one inductive relation indexed by the path (the form of
   [la_at] in PagerSpec.v; no intermediate state has to be materialised as a
   list, so no state of the collection is missed):
     base   the items of K (an entry (p, d, []) of K denotes no item at all);
     close  with [A -> alpha . B beta, a] every [B -> . gamma, b], b in FIRST(beta a);
     goto   with [A -> alpha . X beta, a] at alpha, [A -> alpha X . beta, a] at alpha X. *)
Inductive tb_at (g : grammar) (K : itemset) : list sym -> N -> nat -> N -> Prop :=
| tba_base p d la a : In (p, d, la) K -> In a la -> tb_at g K [] p d a
| tba_close alpha p d a r q b :
    tb_at g K alpha p d a -> nth_error (rhs g p) d = Some (R r) ->
    is_prod g q -> lhs g q = r ->
    first_of_form g (skipn (S d) (rhs g p)) a b ->
    tb_at g K alpha q 0%nat b
| tba_goto alpha X p d a :
    tb_at g K alpha p d a -> nth_error (rhs g p) d = Some X -> tb_at g K (alpha ++ [X]) p (S d) a.

(* two candidate actions on one token in the state at alpha: a shift (an item
   with the token after its dot) and a complete item carrying it, or two complete
   items carrying it; the complete start production (Accept) counts like any
   complete item *)
Definition tb_conflict_at (g : grammar) (K : itemset) (alpha : list sym) : Prop :=
  (exists a p d b q, tb_at g K alpha p d b /\ nth_error (rhs g p) d = Some (T a) /\
                     tb_at g K alpha q (length (rhs g q)) a) \/
  (exists a q1 q2, q1 <> q2 /\ tb_at g K alpha q1 (length (rhs g q1)) a /\
                   tb_at g K alpha q2 (length (rhs g q2)) a).

(* the canonical collection of sets of LR(1) items, from {[^ -> . S, $]}, has no conflict *)
Definition lr1_textbook_grammar (g : grammar) : Prop :=
  forall alpha, ~ tb_conflict_at g (start_kernel g) alpha.

(* the same with the states as objects, closure = [lr1_textbook_rel] of
   LR/CloseSpec.v: a state is represented by a kernel K' (only its lookaheads
   matter), K' represents goto(closure(K), X), ... — the form of [lr1_grammar] *)
Definition tb_is_goto (g : grammar) (K : itemset) (X : sym) (K' : itemset) : Prop :=
  forall p d' a, has_la K' (p, d') a <->
    exists d, d' = S d /\ lr1_textbook_rel g K p d a /\ nth_error (rhs g p) d = Some X.

Inductive tb_after (g : grammar) (K : itemset) : list sym -> itemset -> Prop :=
| tb_after_nil : tb_after g K [] K
| tb_after_snoc alpha S0 X S1 :
    tb_after g K alpha S0 -> tb_is_goto g S0 X S1 -> tb_after g K (alpha ++ [X]) S1.

Definition tb_shift_reduce (g : grammar) (S : itemset) : Prop :=
  exists a p d b q, lr1_textbook_rel g S p d b /\ nth_error (rhs g p) d = Some (T a) /\
                    lr1_textbook_rel g S q (length (rhs g q)) a.
Definition tb_reduce_reduce (g : grammar) (S : itemset) : Prop :=
  exists a q1 q2, q1 <> q2 /\ lr1_textbook_rel g S q1 (length (rhs g q1)) a /\
                  lr1_textbook_rel g S q2 (length (rhs g q2)) a.
Definition tb_state_conflict (g : grammar) (S : itemset) : Prop :=
  tb_shift_reduce g S \/ tb_reduce_reduce g S.

(* [tb_after] + [lr1_textbook_rel] is the path-indexed presentation *)
Definition tb_after_characterisation_stmt : Prop :=
  forall g K alpha S, tb_after g K alpha S ->
    (forall p d a, lr1_textbook_rel g S p d a <-> tb_at g K alpha p d a) /\
    (tb_state_conflict g S <-> tb_conflict_at g K alpha).

Definition lr1_textbook_states_stmt : Prop :=
  forall g, lr1_textbook_grammar g ->
    forall alpha S, tb_after g (start_kernel g) alpha S -> ~ tb_state_conflict g S.

(* ---- the certificate checker -------------------------------------------------------------- *)

Definition lr1_textbook_check_sound_stmt : Prop :=
  forall g A, lr1_textbook_check g A = true -> wf_grammar g = true /\ lr1_textbook_grammar g.

(* ---- the two notions ------------------------------------------------------------------------ *)

(* the code's notion is the stronger one, for every grammar: its states contain
   the textbook states *)
Definition lr1_grammar_textbook_stmt : Prop :=
  forall g, wf_grammar g = true -> lr1_grammar g -> lr1_textbook_grammar g.

(* where every rule derives a token string they coincide: every theorem of C02
   (and C01/C04/C16/C20) that assumes [lr1_grammar g] IS a theorem about
   textbook LR(1) grammars as long as g is productive — the hypothesis
   [productive] is exactly what [lr1_textbook_agrees] needs *)
Definition lr1_notions_agree_productive_stmt : Prop :=
  forall g, productive g -> wf_grammar g = true -> (lr1_grammar g <-> lr1_textbook_grammar g).

(* an item without lookahead below a kernel whose items all have one exists only
   when some rule derives no token string *)
Definition phantom_needs_unproductive_stmt : Prop :=
  forall g nl fs keys K fuel C p d, close_pre g nl fs keys K ->
    close_mirror g nl fs keys K fuel = Done C ->
    (forall i, In i K -> it_la i <> []) ->
    In (p, d, []) C -> ~ productive g.
