(* C02 — gc_model never answers OutOfFuel.

   [gc_model] computes `seen` by S (length edges) rounds of [reach_step] from [0]
   and answers OutOfFuel exactly when `seen` is not closed under the edges.  The
   bound always suffices — for EVERY edge vector, without any hypothesis on the
   targets:  with n = length edges, a round either appends an element < n or
   appends only elements >= n; the latter have no row in `edges` (nth s edges [] =
   []), so after such a round the list is closed (one-step completeness for the
   old elements), and a closed list stays closed.  A duplicate-free list holds at
   most n elements < n, so at most n rounds are of the first kind.

   Hence [gcp_gc_model_not_fuel_any]; the statements under the hypotheses that the
   loop invariant supplies ([gc_model_not_fuel], [pager_gc_not_fuel]) are
   corollaries. *)
From Coq Require Import List Arith NArith Bool Lia.
From GV Require Import Common.Outcome Base.Grammar Base.Analyses LR.Automaton LR.CloseMirror
  C02.Model C02.LoopModel C02.LoopSpec.
Import ListNotations.

Lemma gcp_memn_in x l : memn x l = true <-> In x l.
Proof.
  unfold memn. rewrite existsb_exists. split.
  - intros (y & Hy & E). apply Nat.eqb_eq in E. subst y. exact Hy.
  - intros H. exists x. split; [exact H|apply Nat.eqb_refl].
Qed.

Lemma gcp_memn_false x l : memn x l = false -> ~ In x l.
Proof.
  intros E H. apply gcp_memn_in in H. rewrite H in E. discriminate E.
Qed.

(* ---- the two folds of reach_step ------------------------------------------------------------ *)

Definition gcp_inner (acc : list nat) (es : list (sym * nat)) : list nat :=
  fold_left (fun acc2 e => if memn (snd e) acc2 then acc2 else acc2 ++ [snd e]) es acc.

Definition gcp_outer (edges : list (list (sym * nat))) (acc : list nat) (ss : list nat) : list nat :=
  fold_left (fun acc s => gcp_inner acc (nth s edges [])) ss acc.

Lemma gcp_reach_step_outer edges l : reach_step edges l = gcp_outer edges l l.
Proof. reflexivity. Qed.

Lemma gcp_inner_ext : forall es acc, exists ext, gcp_inner acc es = acc ++ ext.
Proof.
  induction es as [|e es IH]; intros acc; unfold gcp_inner; cbn [fold_left].
  - exists []. rewrite app_nil_r. reflexivity.
  - fold (gcp_inner (if memn (snd e) acc then acc else acc ++ [snd e]) es).
    destruct (memn (snd e) acc).
    + exact (IH acc).
    + destruct (IH (acc ++ [snd e])) as (ext & E). exists ([snd e] ++ ext).
      rewrite E, <- app_assoc. reflexivity.
Qed.

Lemma gcp_nodup_snoc (x : nat) : forall l, NoDup l -> ~ In x l -> NoDup (l ++ [x]).
Proof.
  induction l as [|y l IH]; intros Hnd Hn; cbn [app].
  - constructor; [intros F; destruct F|constructor].
  - inversion Hnd as [|y' l' Hy Hl]; subst. constructor.
    + intros F. apply in_app_iff in F. destruct F as [F|[F|[]]].
      * exact (Hy F).
      * subst y. apply Hn. left. reflexivity.
    + apply IH; [exact Hl|]. intros F. apply Hn. right. exact F.
Qed.

Lemma gcp_inner_nodup : forall es acc, NoDup acc -> NoDup (gcp_inner acc es).
Proof.
  induction es as [|e es IH]; intros acc Hnd; unfold gcp_inner; cbn [fold_left].
  - exact Hnd.
  - fold (gcp_inner (if memn (snd e) acc then acc else acc ++ [snd e]) es).
    destruct (memn (snd e) acc) eqn:E.
    + exact (IH acc Hnd).
    + apply IH. apply gcp_nodup_snoc; [exact Hnd|exact (gcp_memn_false _ _ E)].
Qed.

Lemma gcp_inner_in x : forall es acc,
  In x (gcp_inner acc es) <-> In x acc \/ exists e, In e es /\ snd e = x.
Proof.
  induction es as [|e es IH]; intros acc; unfold gcp_inner; cbn [fold_left].
  - split; [intros H; left; exact H|]. intros [H|(e & [] & _)]. exact H.
  - fold (gcp_inner (if memn (snd e) acc then acc else acc ++ [snd e]) es).
    rewrite IH. destruct (memn (snd e) acc) eqn:E.
    + split.
      * intros [H|(e' & He' & Hx)]; [left; exact H|]. right. exists e'. split; [right; exact He'|exact Hx].
      * intros [H|(e' & [He'|He'] & Hx)]; [left; exact H| |].
        -- subst e'. subst x. left. apply gcp_memn_in. exact E.
        -- right. exists e'. split; [exact He'|exact Hx].
    + split.
      * intros [H|(e' & He' & Hx)].
        -- apply in_app_iff in H. destruct H as [H|[H|[]]]; [left; exact H|].
           right. exists e. split; [left; reflexivity|exact H].
        -- right. exists e'. split; [right; exact He'|exact Hx].
      * intros [H|(e' & [He'|He'] & Hx)].
        -- left. apply in_app_iff. left. exact H.
        -- subst e'. left. apply in_app_iff. right. left. exact Hx.
        -- right. exists e'. split; [exact He'|exact Hx].
Qed.

Lemma gcp_outer_ext edges : forall ss acc, exists ext, gcp_outer edges acc ss = acc ++ ext.
Proof.
  induction ss as [|s ss IH]; intros acc; unfold gcp_outer; cbn [fold_left].
  - exists []. rewrite app_nil_r. reflexivity.
  - fold (gcp_outer edges (gcp_inner acc (nth s edges [])) ss).
    destruct (gcp_inner_ext (nth s edges []) acc) as (e1 & E1).
    destruct (IH (gcp_inner acc (nth s edges []))) as (e2 & E2).
    exists (e1 ++ e2). rewrite E2, E1, <- app_assoc. reflexivity.
Qed.

Lemma gcp_outer_nodup edges : forall ss acc, NoDup acc -> NoDup (gcp_outer edges acc ss).
Proof.
  induction ss as [|s ss IH]; intros acc Hnd; unfold gcp_outer; cbn [fold_left].
  - exact Hnd.
  - fold (gcp_outer edges (gcp_inner acc (nth s edges [])) ss).
    apply IH. apply gcp_inner_nodup. exact Hnd.
Qed.

Lemma gcp_outer_in edges x : forall ss acc,
  In x (gcp_outer edges acc ss) <->
  In x acc \/ exists s e, In s ss /\ In e (nth s edges []) /\ snd e = x.
Proof.
  induction ss as [|s ss IH]; intros acc; unfold gcp_outer; cbn [fold_left].
  - split; [intros H; left; exact H|]. intros [H|(s & e & [] & _)]. exact H.
  - fold (gcp_outer edges (gcp_inner acc (nth s edges [])) ss).
    rewrite IH, gcp_inner_in. split.
    + intros [[H|(e & He & Hx)]|(s' & e & Hs' & He & Hx)].
      * left. exact H.
      * right. exists s, e. split; [left; reflexivity|]. split; [exact He|exact Hx].
      * right. exists s', e. split; [right; exact Hs'|]. split; [exact He|exact Hx].
    + intros [H|(s' & e & [Hs'|Hs'] & He & Hx)].
      * left. left. exact H.
      * subst s'. left. right. exists e. split; [exact He|exact Hx].
      * right. exists s', e. split; [exact Hs'|]. split; [exact He|exact Hx].
Qed.

(* ---- reach_step: appends only, keeps NoDup, one-step complete --------------------------------- *)

Lemma gcp_step_ext edges l : exists ext, reach_step edges l = l ++ ext.
Proof. rewrite gcp_reach_step_outer. apply gcp_outer_ext. Qed.

Lemma gcp_step_nodup edges l : NoDup l -> NoDup (reach_step edges l).
Proof. rewrite gcp_reach_step_outer. apply gcp_outer_nodup. Qed.

Lemma gcp_step_in edges l x :
  In x (reach_step edges l) <->
  In x l \/ exists s e, In s l /\ In e (nth s edges []) /\ snd e = x.
Proof. rewrite gcp_reach_step_outer. apply gcp_outer_in. Qed.

Definition gcp_closed (edges : list (list (sym * nat))) (l : list nat) : Prop :=
  forall s e, In s l -> In e (nth s edges []) -> In (snd e) l.

Lemma gcp_closed_step edges l : gcp_closed edges l -> gcp_closed edges (reach_step edges l).
Proof.
  intros Hc.
  assert (Hsame : forall x, In x (reach_step edges l) -> In x l).
  { intros x Hx. apply gcp_step_in in Hx. destruct Hx as [Hx|(s & e & Hs & He & Hx)]; [exact Hx|].
    subst x. exact (Hc s e Hs He). }
  intros s e Hs He. apply gcp_step_in. left. exact (Hc s e (Hsame s Hs) He).
Qed.

Lemma gcp_closed_iter edges : forall k l, gcp_closed edges l ->
  gcp_closed edges (iter k (reach_step edges) l).
Proof.
  induction k as [|k IH]; intros l Hc; cbn [iter].
  - exact Hc.
  - apply IH. apply gcp_closed_step. exact Hc.
Qed.

(* ---- counting the elements below n -------------------------------------------------------------- *)

Definition gcp_cnt (n : nat) (l : list nat) : nat := length (filter (fun x => x <? n) l).

Lemma gcp_cnt_app n l1 l2 : gcp_cnt n (l1 ++ l2) = gcp_cnt n l1 + gcp_cnt n l2.
Proof. unfold gcp_cnt. rewrite filter_app, app_length. reflexivity. Qed.

Lemma gcp_cnt_zero n : forall l, gcp_cnt n l = 0 -> forall x, In x l -> n <= x.
Proof.
  unfold gcp_cnt. induction l as [|y l IH]; intros H x Hx.
  - destruct Hx.
  - cbn [filter] in H. destruct (y <? n) eqn:E; [cbn [length] in H; discriminate H|].
    destruct Hx as [Hx|Hx].
    + subst y. apply Nat.ltb_ge in E. exact E.
    + exact (IH H x Hx).
Qed.

Lemma gcp_cnt_le n l : NoDup l -> gcp_cnt n l <= n.
Proof.
  intros Hnd. unfold gcp_cnt.
  assert (Hlen : length (filter (fun x => x <? n) l) <= length (seq 0 n)).
  { apply NoDup_incl_length.
    - apply NoDup_filter. exact Hnd.
    - intros x Hx. apply filter_In in Hx. destruct Hx as [_ Hx]. apply Nat.ltb_lt in Hx.
      apply in_seq. lia. }
  rewrite seq_length in Hlen. exact Hlen.
Qed.

(* a round appends an element below n, or its result is closed *)
Lemma gcp_round edges l :
  gcp_cnt (length edges) l < gcp_cnt (length edges) (reach_step edges l) \/
  gcp_closed edges (reach_step edges l).
Proof.
  destruct (gcp_step_ext edges l) as (ext & E).
  destruct (gcp_cnt (length edges) ext) as [|c] eqn:Ec.
  - right. intros s e Hs He. apply gcp_step_in.
    rewrite E in Hs. apply in_app_iff in Hs. destruct Hs as [Hs|Hs].
    + right. exists s, e. split; [exact Hs|]. split; [exact He|reflexivity].
    + pose proof (gcp_cnt_zero _ _ Ec s Hs) as Hge.
      rewrite (nth_overflow edges [] Hge) in He. destruct He.
  - left. rewrite E, gcp_cnt_app, Ec. lia.
Qed.

Lemma gcp_iter_closed edges : forall k l, NoDup l ->
  length edges < gcp_cnt (length edges) l + k ->
  gcp_closed edges (iter k (reach_step edges) l).
Proof.
  induction k as [|k IH]; intros l Hnd Hlt.
  - pose proof (gcp_cnt_le (length edges) l Hnd) as Hle. lia.
  - cbn [iter]. destruct (gcp_round edges l) as [Hgrow|Hcl].
    + apply IH; [exact (gcp_step_nodup edges l Hnd)|lia].
    + apply gcp_closed_iter. exact Hcl.
Qed.

Lemma gcp_reachable_closed edges start : gcp_closed edges (reachable edges start).
Proof.
  unfold reachable. apply gcp_iter_closed.
  - constructor; [intros F; destruct F|constructor].
  - lia.
Qed.

Lemma gcp_closed_check edges l : gcp_closed edges l ->
  forallb (fun s => forallb (fun e => memn (snd e) l) (nth s edges [])) l = true.
Proof.
  intros Hc. apply forallb_forall. intros s Hs. apply forallb_forall. intros e He.
  apply gcp_memn_in. exact (Hc s e Hs He).
Qed.

(* ---- gc_model -------------------------------------------------------------------------------------- *)

(* no hypothesis at all is needed *)
Lemma gcp_gc_model_not_fuel_any states edges : gc_model states edges <> OutOfFuel.
Proof.
  unfold gc_model.
  rewrite (gcp_closed_check edges (reachable edges 0) (gcp_reachable_closed edges 0)).
  cbn [negb].
  destruct (Nat.eqb (length states) (length (reachable edges 0))); [intros F; discriminate F|].
  match goal with |- (if ?c then _ else _) <> _ => destruct c end; intros F; discriminate F.
Qed.

Lemma gc_model_not_fuel states edges :
  length edges = length states ->
  (forall s es e, nth_error edges s = Some es -> In e es -> snd e < length edges) ->
  1 <= length edges ->
  gc_model states edges <> OutOfFuel.
Proof.
  intros _ _ _. apply gcp_gc_model_not_fuel_any.
Qed.

Lemma pager_gc_not_fuel g nl fs max_st fuel orders st closed :
  loop_pre g nl fs ->
  main_loop g nl fs max_st fuel orders (init_pst g) = Done st ->
  closed_sts st = map Some closed ->
  gc_model (combine (core_sts st) closed) (edges_st st) <> OutOfFuel.
Proof.
  intros _ _ _. apply gcp_gc_model_not_fuel_any.
Qed.
