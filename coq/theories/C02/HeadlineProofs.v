(* C02 — totality + validation of the mirrored Pager construction, in one statement. *)
From Coq Require Import List Arith NArith Bool Lia.
From GV Require Import Common.Outcome Base.Grammar Base.Analyses Base.AnalysesProofs LR.Automaton
  LR.Validator LR.Spec LR.CloseMirror LR.CloseSpec C02.Model C02.Spec C02.PagerSpec C02.Lr1Model
  C02.LoopModel C02.LoopSpec C02.InducedModel C02.InducedSpec C02.InducedMainProofs C02.LoopTotalProofs.
Import ListNotations.

Lemma pager_construction_correct : pager_construction_correct_stmt.
Proof.
  intros g nl fs max_st orders Hpre Hlr1.
  destruct (pager_mirror_total g nl fs max_st orders Hpre) as [fuel [[pg Hrun]|[Hp Hb]]].
  - exists fuel. left. exists pg. split; [exact Hrun|].
    exact (pager_mirror_validated g nl fs max_st fuel orders pg Hpre Hlr1 Hrun).
  - exists fuel. right. split; assumption.
Qed.
