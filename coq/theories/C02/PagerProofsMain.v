(* C02, stage 2 — Pager's merge-safety theorem in its list form, at the level of
   the mirrors of pager.rs, and for every kernel a Pager-style construction can
   hold. *)
From Coq Require Import List Arith NArith Bool Lia.
From GV Require Import Common.Outcome Base.Grammar Base.GrammarFacts Base.Analyses LR.Automaton LR.CloseMirror
  LR.CloseSpec LR.CloseProofs C02.Model C02.Spec C02.Proofs C02.PagerSpec
  C02.PagerProofsPath C02.PagerProofsBridge C02.PagerProofsExists C02.PagerProofsMisc.
Import ListNotations.

(* ---- tree form <-> path form ------------------------------------------------------------ *)

Lemma path_to_tree g K : path_conflict_free g K -> tree_conflict_free g K.
Proof.
  intros Hp alpha S Ha Hc. apply (Hp alpha).
  destruct (after_characterisation g K alpha S Ha) as (_ & _ & Hiff). apply Hiff. exact Hc.
Qed.

Lemma tree_to_path g K : wf_grammar g = true -> items_ok g K = true ->
  tree_conflict_free g K -> path_conflict_free g K.
Proof.
  intros Hwf Hok Ht alpha Hc. destruct (after_exists g K alpha Hwf Hok) as (S & Ha & _).
  apply (Ht alpha S Ha).
  destruct (after_characterisation g K alpha S Ha) as (_ & _ & Hiff). apply Hiff. exact Hc.
Qed.

Lemma tree_path_conflict_free_iff : tree_path_conflict_free_iff_stmt.
Proof.
  intros g K Hwf Hok. split; [apply tree_to_path; assumption | apply path_to_tree].
Qed.

(* ---- (b) ------------------------------------------------------------------------------------ *)

Lemma weak_merge_safe : weak_merge_safe_stmt.
Proof.
  intros g K1 K2 K12 Hwf Hok1 Hok2 Hw Hu H1 H2.
  apply path_to_tree.
  apply (weak_merge_safe_path g K1 K2 K12 Hw Hu).
  - apply tree_to_path; assumption.
  - apply tree_to_path; assumption.
Qed.

Lemma items_ok_is_map g K : items_ok g K = true -> is_map K.
Proof. intros H. apply items_ok_spec in H. exact (proj1 H). Qed.

(* the union of two maps of items in range, laid out as a map, is in range *)
Lemma union_items_ok g K1 K2 m : items_ok g K1 = true -> items_ok g K2 = true ->
  is_map m -> is_union K1 K2 m -> items_ok g m = true.
Proof.
  intros H1 H2 Hm [Hc Hl]. apply items_ok_spec in H1. apply items_ok_spec in H2.
  destruct H1 as [_ R1], H2 as [_ R2].
  apply items_ok_spec. split; [exact Hm|]. intros p d la Hin.
  assert (Hk : has_core m (p, d)) by (apply has_core_pair; exists la; exact Hin).
  apply (proj2 (Hc (p, d))) in Hk. apply has_core_pair in Hk. destruct Hk as (la1 & Hin1).
  destruct (R1 p d la1 Hin1) as (Hp & Hd & _).
  split; [exact Hp|]. split; [exact Hd|]. intros a Ha.
  assert (Hla : has_la m (p, d) a) by (apply has_la_pair; exists la; split; assumption).
  apply (proj1 (Hl (p, d) a)) in Hla. destruct Hla as [Hla|Hla]; apply has_la_pair in Hla;
    destruct Hla as (la' & Hin' & Ha').
  - destruct (R1 p d la' Hin') as (_ & _ & Hr). exact (Hr a Ha').
  - destruct (R2 p d la' Hin') as (_ & _ & Hr). exact (Hr a Ha').
Qed.

Lemma pager_merge_step_safe : pager_merge_step_safe_stmt.
Proof.
  intros g keys K1 K2 m ch Hwf Hok1 Hok2 Hkeys Hne Hwc Hmg H1 H2.
  pose proof (items_ok_is_map g K1 Hok1) as Hm1. pose proof (items_ok_is_map g K2 Hok2) as Hm2.
  destruct (weakly_compatible_mirror_spec keys K1 K2 Hm1 Hm2 Hkeys Hne) as (b & Hb & Hiff).
  rewrite Hwc in Hb. injection Hb as Hb. subst b.
  assert (Hw : weakly_compatible_spec K1 K2) by (apply Hiff; reflexivity).
  destruct (weakly_merge_is_union K1 K2 Hm1 Hm2 Hw) as (m' & ch' & Hmg' & Hmm & Hu).
  rewrite Hmg in Hmg'. injection Hmg' as Em Ec. subst m' ch'.
  split.
  - exact (weak_merge_safe g K1 K2 m Hwf Hok1 Hok2 Hw Hu H1 H2).
  - exact (union_items_ok g K1 K2 m Hok1 Hok2 Hmm Hu).
Qed.

(* ---- (c) ------------------------------------------------------------------------------------ *)

Lemma start_kernel_items_ok g : wf_grammar g = true -> items_ok g (start_kernel g) = true.
Proof.
  intros Hwf. unfold wf_grammar in Hwf.
  repeat (apply andb_true_iff in Hwf; destruct Hwf as [Hwf ?]).
  apply items_ok_spec. unfold start_kernel. split.
  - simpl. constructor; [intros []|constructor].
  - intros p d la [Hin|[]]. injection Hin as Ep Ed El. subst p d la.
    split; [apply is_prodb_spec; assumption|]. split; [apply Nat.le_0_l|].
    intros a [Ha|[]]. subst a. apply N.ltb_lt. assumption.
Qed.

Lemma pager_reachable_items_ok g K : wf_grammar g = true -> pager_reachable g K -> items_ok g K = true.
Proof.
  intros Hwf H. destruct H as [|K X K' _ _ Hok|K1 K2 K12 _ _ _ _ Hok].
  - apply start_kernel_items_ok. exact Hwf.
  - exact Hok.
  - exact Hok.
Qed.

Lemma tree_conflict_free_goto g K X K' : is_goto g K X K' ->
  tree_conflict_free g K -> tree_conflict_free g K'.
Proof.
  intros Hg Ht alpha S Ha. apply (Ht (X :: alpha) S). exact (after_cons g K X K' alpha S Hg Ha).
Qed.

Lemma pager_reachable_conflict_free : pager_reachable_conflict_free_stmt.
Proof.
  intros g Hwf Hlr1 K HK.
  assert (Ht : tree_conflict_free g K).
  { induction HK as [|K X K' HK IH Hg Hok|K1 K2 K12 HK1 IH1 HK2 IH2 Hw Hu Hok].
    - exact Hlr1.
    - exact (tree_conflict_free_goto g K X K' Hg IH).
    - exact (weak_merge_safe g K1 K2 K12 Hwf (pager_reachable_items_ok g K1 Hwf HK1)
               (pager_reachable_items_ok g K2 Hwf HK2) Hw Hu IH1 IH2). }
  split; [exact Ht|]. exact (Ht [] K (after_nil g K)).
Qed.

(* ---- the hypotheses are satisfiable ------------------------------------------------------------ *)

(* two weakly compatible kernels with different contexts, each with a conflict-free
   tree (grammar and kernels of PagerProofsMisc.v): the hypotheses of
   [pager_merge_step_safe] (hence of [weak_merge_safe]) hold, the merge changes
   the contexts, and the merged kernel is conflict-free *)
Example pager_merge_step_safe_hyps :
  exists g keys K1 K2 m, wf_grammar g = true /\ items_ok g K1 = true /\ items_ok g K2 = true /\
    keys_perm K1 keys /\ K1 <> [] /\
    weakly_compatible_mirror keys K1 K2 = Done true /\
    weakly_merge_mirror K1 K2 = Done (m, true) /\
    tree_conflict_free g K1 /\ tree_conflict_free g K2 /\ tree_conflict_free g m.
Proof.
  exists PagerProofsMisc.g0, [(4%N, 1%nat); (5%N, 1%nat)], (PagerProofsMisc.Kxy 3 4), (PagerProofsMisc.Kxy 0 1),
         [(4%N, 1%nat, [0; 3]%N); (5%N, 1%nat, [1; 4]%N)].
  assert (Hwf : wf_grammar PagerProofsMisc.g0 = true) by (vm_compute; reflexivity).
  assert (Hok1 : items_ok PagerProofsMisc.g0 (PagerProofsMisc.Kxy 3 4) = true) by (vm_compute; reflexivity).
  assert (Hok2 : items_ok PagerProofsMisc.g0 (PagerProofsMisc.Kxy 0 1) = true) by (vm_compute; reflexivity).
  assert (Hkp : keys_perm (PagerProofsMisc.Kxy 3 4) [(4%N, 1%nat); (5%N, 1%nat)]).
  { split.
    - constructor; [intros [E|[]]; discriminate E|]. constructor; [intros []|constructor].
    - intros k. simpl. tauto. }
  assert (Hne : PagerProofsMisc.Kxy 3 4 <> []) by discriminate.
  assert (Hwc : weakly_compatible_mirror [(4%N, 1%nat); (5%N, 1%nat)] (PagerProofsMisc.Kxy 3 4) (PagerProofsMisc.Kxy 0 1)
                = Done true) by (vm_compute; reflexivity).
  assert (Hmg : weakly_merge_mirror (PagerProofsMisc.Kxy 3 4) (PagerProofsMisc.Kxy 0 1)
                = Done ([(4%N, 1%nat, [0; 3]%N); (5%N, 1%nat, [1; 4]%N)], true)) by (vm_compute; reflexivity).
  assert (H1 : tree_conflict_free PagerProofsMisc.g0 (PagerProofsMisc.Kxy 3 4))
    by (apply PagerProofsMisc.Kxy_tree_conflict_free; discriminate).
  assert (H2 : tree_conflict_free PagerProofsMisc.g0 (PagerProofsMisc.Kxy 0 1))
    by (apply PagerProofsMisc.Kxy_tree_conflict_free; discriminate).
  repeat (split; [assumption|]).
  exact (proj1 (pager_merge_step_safe _ _ _ _ _ _ Hwf Hok1 Hok2 Hkp Hne Hwc Hmg H1 H2)).
Qed.
