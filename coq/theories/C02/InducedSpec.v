(* C02 — the automaton induced by a Pager graph is a VALIDATED automaton.

   [graph_facts g pg] collects what the loop theorems (LoopProofs.v,
   LoopEdgeProofs.v) establish about every graph pager_mirror returns; from
   these facts alone — plus conflict-freeness, which Pager's theorem gives for
   LR(1) grammars — the induced automaton passes the validators validS, validC,
   validE and single_candidate of LR/Validator.v.  Their soundness theorems
   (C01_lr_sound, C01_lr_complete, C04's, C02_validated_automata_agree) then
   apply to it: the parser accepts exactly the sentences with their trees,
   reports the first error at the right lexeme, and agrees on every input with
   any other validated automaton of the grammar, e.g. the canonical LR(1) one.
   Statements; proofs in Induced*Proofs.v. *)
From Coq Require Import List Arith NArith Bool Lia.
From GV Require Import Common.Outcome Base.Grammar Base.Analyses Base.AnalysesProofs LR.Automaton
  LR.Validator LR.Spec LR.CloseMirror LR.CloseSpec C02.Model C02.Spec C02.PagerSpec C02.Lr1Model
  C02.LoopModel C02.LoopSpec C02.InducedModel.
Import ListNotations.

Record graph_facts (g : grammar) (pg : pgraph) : Prop := mkGraphFacts {
  gf_wf : wf_grammar g = true;
  gf_len : length (pg_edges pg) = length (pg_states pg);
  gf_start : exists closed0, nth_error (pg_states pg) 0 = Some (start_kernel g, closed0);
  (* every core state is a Pager-reachable kernel (a map of items in range), every closed state a map
     in range holding exactly the closure of its core *)
  gf_reach : forall s core closed, nth_error (pg_states pg) s = Some (core, closed) ->
      pager_reachable g core /\ closed_repr g core closed /\ items_ok g closed = true;
  (* every state but the start state consists of advanced items *)
  gf_kernel : forall s core closed k, nth_error (pg_states pg) s = Some (core, closed) ->
      (1 <= s)%nat -> has_core core k -> (1 <= snd k)%nat;
  gf_nonempty : forall s core closed, nth_error (pg_states pg) s = Some (core, closed) ->
      exists k, has_core core k;
  gf_complete : forall s core closed es X G,
      nth_error (pg_states pg) s = Some (core, closed) -> nth_error (pg_edges pg) s = Some es ->
      is_goto g core X G -> (exists k, has_core G k) ->
      exists t core_t closed_t,
        assoc_sym X es = Some t /\ nth_error (pg_states pg) t = Some (core_t, closed_t) /\
        sub_kernel G core_t;
  gf_sound : forall s core closed es X t,
      nth_error (pg_states pg) s = Some (core, closed) -> nth_error (pg_edges pg) s = Some es ->
      assoc_sym X es = Some t ->
      exists G core_t closed_t,
        is_goto g core X G /\ (exists k, has_core G k) /\
        nth_error (pg_states pg) t = Some (core_t, closed_t) /\ sub_kernel G core_t
}.

Definition graph_conflict_free (g : grammar) (pg : pgraph) : Prop :=
  forall s core closed, nth_error (pg_states pg) s = Some (core, closed) -> ~ state_conflict g core.

(* every graph of the mirror has these facts *)
Definition pager_mirror_graph_facts_stmt : Prop :=
  forall g nl fs max_st fuel orders pg, loop_pre g nl fs ->
    pager_mirror g nl fs max_st fuel orders = Done pg -> graph_facts g pg.

(* the start item's lookahead is end of input in every Pager-reachable kernel *)
Definition pager_reachable_start_la_stmt : Prop :=
  forall g K d a, wf_grammar g = true -> pager_reachable g K ->
    has_la K (start_prod g, d) a -> a = eof g.

Definition induced_validS_stmt : Prop :=
  forall g pg, graph_facts g pg -> validS g (induced g pg) = true.

Definition induced_validC_stmt : Prop :=
  forall g pg, graph_facts g pg -> graph_conflict_free g pg -> validC g (induced g pg) = true.

Definition induced_validE_stmt : Prop :=
  forall g pg, graph_facts g pg -> validE g (induced g pg) = true.

Definition induced_single_candidate_stmt : Prop :=
  forall g pg, graph_facts g pg -> graph_conflict_free g pg ->
    single_candidate g (induced g pg) = true.

(* headline: for an LR(1) grammar, whenever the mirror of pager_stategraph returns a graph, the
   induced automaton is validated and conflict-free *)
Definition pager_mirror_validated_stmt : Prop :=
  forall g nl fs max_st fuel orders pg, loop_pre g nl fs -> lr1_grammar g ->
    pager_mirror g nl fs max_st fuel orders = Done pg ->
    validS g (induced g pg) = true /\ validC g (induced g pg) = true /\
    validE g (induced g pg) = true /\ single_candidate g (induced g pg) = true.

(* hence C02's second sentence for the mirrored construction: the Pager parser gives, on every
   input, the same tree or the same first-error position as ANY validated automaton B of the grammar —
   in particular a canonical LR(1) automaton *)
Definition pager_parser_agrees_stmt : Prop :=
  forall g nl fs max_st fuel orders pg B, loop_pre g nl fs -> lr1_grammar g -> productive g ->
    pager_mirror g nl fs max_st fuel orders = Done pg ->
    validS g B = true -> validC g B = true -> validE g B = true ->
    forall input f1 f2, tokens_in_range g input -> no_eof g input ->
      finished (run g (induced g pg) f1 input) -> finished (run g B f2 input) ->
      same_verdict (run g (induced g pg) f1 input) (run g B f2 input).

(* the same with the premises the correspondence run evaluates per grammar: first_ref's tables, an
   accepted LR(1) certificate (lr1_check on canon_lr1's automaton), validators on B *)
Definition pager_parser_agrees_certified_stmt : Prop :=
  forall g A nl fs max_st fuel orders pg B,
    first_ref g = Some (nl, fs) -> lr1_check g A = true -> productive g ->
    pager_mirror g nl fs max_st fuel orders = Done pg ->
    validS g B = true -> validC g B = true -> validE g B = true ->
    (validS g (induced g pg) = true /\ validC g (induced g pg) = true /\
     validE g (induced g pg) = true /\ single_candidate g (induced g pg) = true) /\
    forall input f1 f2, tokens_in_range g input -> no_eof g input ->
      finished (run g (induced g pg) f1 input) -> finished (run g B f2 input) ->
      same_verdict (run g (induced g pg) f1 input) (run g B f2 input).

(* everything together, for every well-formed LR(1) grammar, every oracle of hash orders and every
   StorageT bound: with enough fuel the mirrored construction either stops at a StorageT size
   check, or returns a graph whose induced automaton is validated and conflict-free *)
Definition pager_construction_correct_stmt : Prop :=
  forall g nl fs max_st orders, loop_pre g nl fs -> lr1_grammar g ->
    exists fuel,
      (exists pg, pager_mirror g nl fs max_st fuel orders = Done pg /\
         validS g (induced g pg) = true /\ validC g (induced g pg) = true /\
         validE g (induced g pg) = true /\ single_candidate g (induced g pg) = true) \/
      (pager_mirror g nl fs max_st fuel orders = Panic /\
       (max_st <= N.of_nat (S (S (fuel * length (all_syms g)))))%N).
