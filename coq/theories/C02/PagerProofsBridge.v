(* C02, stage 2 — the bridge lemmas of PagerSpec.v: [after] + the CloseSpec closure
   is the path-indexed presentation [core_at] / [la_at]; closure, goto and
   state_after are union-homomorphisms in the contexts. *)
From Coq Require Import List Arith NArith Bool Lia.
From GV Require Import Common.Outcome Base.Grammar Base.Analyses LR.Automaton LR.CloseMirror
  LR.CloseSpec LR.CloseProofs C02.Model C02.Spec C02.PagerSpec.
Import ListNotations.

(* ---- has_core / has_la on a pair ------------------------------------------------- *)

Lemma has_core_pd (K : itemset) p d : has_core K (p, d) <-> exists la, In (p, d, la) K.
Proof. unfold has_core; simpl. split; intros H; exact H. Qed.

Lemma has_la_pd (K : itemset) p d a :
  has_la K (p, d) a <-> exists la, In (p, d, la) K /\ In a la.
Proof. unfold has_la; simpl. split; intros H; exact H. Qed.

Lemma has_core_intro (K : itemset) p d la : In (p, d, la) K -> has_core K (p, d).
Proof. intros Hin. apply (proj2 (has_core_pd K p d)). exists la. exact Hin. Qed.

Lemma has_la_intro (K : itemset) p d la a : In (p, d, la) K -> In a la -> has_la K (p, d) a.
Proof.
  intros Hin Ha. apply (proj2 (has_la_pd K p d a)). exists la. split; [exact Hin | exact Ha].
Qed.

Lemma same_cores_sym K1 K2 : same_cores K1 K2 -> same_cores K2 K1.
Proof. intros H k. split; intros Hk; apply (H k); exact Hk. Qed.

Lemma same_cores_trans K1 K2 K3 : same_cores K1 K2 -> same_cores K2 K3 -> same_cores K1 K3.
Proof.
  intros H12 H23 k. split; intros Hk.
  - apply (proj1 (H23 k)). apply (proj1 (H12 k)). exact Hk.
  - apply (proj2 (H12 k)). apply (proj2 (H23 k)). exact Hk.
Qed.

(* ---- monotonicity of the closure --------------------------------------------------- *)

Lemma lr0_closure_mono g (K K' : itemset) :
  (forall p d, has_core K (p, d) -> has_core K' (p, d)) ->
  forall p d, lr0_closure_rel g K p d -> lr0_closure_rel g K' p d.
Proof.
  intros HK p d H. induction H as [p d la Hin | p d r q Hpar IH Hnth Hq Hlq].
  - destruct (proj1 (has_core_pd K' p d) (HK p d (has_core_intro K p d la Hin))) as [la' Hin'].
    exact (c0_base g K' p d la' Hin').
  - exact (c0_step g K' p d r q IH Hnth Hq Hlq).
Qed.

(* the LR(0) part depends on the cores only *)
Lemma lr0_closure_cores g K K' : same_cores K K' ->
  forall p d, lr0_closure_rel g K p d -> lr0_closure_rel g K' p d.
Proof.
  intros HK. apply lr0_closure_mono. intros p d Hc. apply (proj1 (HK (p, d))). exact Hc.
Qed.

Lemma lr1_closure_mono g (K K' : itemset) :
  (forall p d, has_core K (p, d) -> has_core K' (p, d)) ->
  (forall p d a, has_la K (p, d) a -> has_la K' (p, d) a) ->
  forall p d a, lr1_closure_rel g K p d a -> lr1_closure_rel g K' p d a.
Proof.
  intros HC HL p d a H.
  induction H as [p d la a Hin Ha | p d r q b Hpar Hnth Hq Hlq Hf | p d a r q Hpar IH Hnth Hq Hlq Hn].
  - destruct (proj1 (has_la_pd K' p d a) (HL p d a (has_la_intro K p d la a Hin Ha)))
      as [la' [Hin' Ha']].
    exact (c1_base g K' p d la' a Hin' Ha').
  - exact (c1_first g K' p d r q b (lr0_closure_mono g K K' HC p d Hpar) Hnth Hq Hlq Hf).
  - exact (c1_null g K' p d a r q IH Hnth Hq Hlq Hn).
Qed.

(* ---- (a) closure is linear ----------------------------------------------------------- *)

Lemma closure_linear : closure_linear_stmt.
Proof.
  intros g K1 K2 K12 H12 [HU1 HUl].
  assert (HU2 : same_cores K2 K12).
  { apply (same_cores_trans K2 K1 K12); [apply same_cores_sym; exact H12 | exact HU1]. }
  split; [| split].
  - intros p d. split; intros H.
    + exact (lr0_closure_cores g K12 K1 (same_cores_sym _ _ HU1) p d H).
    + exact (lr0_closure_cores g K1 K12 HU1 p d H).
  - intros p d. split; intros H.
    + exact (lr0_closure_cores g K12 K2 (same_cores_sym _ _ HU2) p d H).
    + exact (lr0_closure_cores g K2 K12 HU2 p d H).
  - intros p d a. split.
    + intros H.
      induction H as [p d la a Hin Ha | p d r q b Hpar Hnth Hq Hlq Hf
                     | p d a r q Hpar IH Hnth Hq Hlq Hn].
      * destruct (proj1 (HUl (p, d) a) (has_la_intro K12 p d la a Hin Ha)) as [H1 | H2].
        -- left. destruct (proj1 (has_la_pd K1 p d a) H1) as [la' [Hin' Ha']].
           exact (c1_base g K1 p d la' a Hin' Ha').
        -- right. destruct (proj1 (has_la_pd K2 p d a) H2) as [la' [Hin' Ha']].
           exact (c1_base g K2 p d la' a Hin' Ha').
      * left.
        exact (c1_first g K1 p d r q b
                 (lr0_closure_cores g K12 K1 (same_cores_sym _ _ HU1) p d Hpar) Hnth Hq Hlq Hf).
      * destruct IH as [IH | IH].
        -- left. exact (c1_null g K1 p d a r q IH Hnth Hq Hlq Hn).
        -- right. exact (c1_null g K2 p d a r q IH Hnth Hq Hlq Hn).
    + intros [H | H].
      * apply (lr1_closure_mono g K1 K12); [ | | exact H].
        -- intros p' d' Hc. apply (proj1 (HU1 (p', d'))). exact Hc.
        -- intros p' d' a' Hl. apply (proj2 (HUl (p', d') a')). left. exact Hl.
      * apply (lr1_closure_mono g K2 K12); [ | | exact H].
        -- intros p' d' Hc. apply (proj1 (HU2 (p', d'))). exact Hc.
        -- intros p' d' a' Hl. apply (proj2 (HUl (p', d') a')). right. exact Hl.
Qed.

(* ---- goto is linear -------------------------------------------------------------------- *)

Lemma goto_cores_agree g K K' X G G' :
  (forall p d, lr0_closure_rel g K p d <-> lr0_closure_rel g K' p d) ->
  is_goto g K X G -> is_goto g K' X G' -> same_cores G G'.
Proof.
  intros HK [HG _] [HG' _] [p d']. split; intros Hc.
  - apply (proj2 (HG' p d')). destruct (proj1 (HG p d') Hc) as [d [Hd [H0 Hn]]].
    exists d. split; [exact Hd | split; [apply (proj1 (HK p d)); exact H0 | exact Hn]].
  - apply (proj2 (HG p d')). destruct (proj1 (HG' p d') Hc) as [d [Hd [H0 Hn]]].
    exists d. split; [exact Hd | split; [apply (proj2 (HK p d)); exact H0 | exact Hn]].
Qed.

Lemma goto_linear : goto_linear_stmt.
Proof.
  intros g K1 K2 K12 X G1 G2 G12 H12 HU Hg1 Hg2 Hg12.
  destruct (closure_linear g K1 K2 K12 H12 HU) as [Hc1 [Hc2 Hcl]].
  split; [| split].
  - apply (goto_cores_agree g K1 K2 X G1 G2); [ | exact Hg1 | exact Hg2].
    intros p d. split; intros H.
    + apply (proj1 (Hc2 p d)). apply (proj2 (Hc1 p d)). exact H.
    + apply (proj1 (Hc1 p d)). apply (proj2 (Hc2 p d)). exact H.
  - apply (goto_cores_agree g K1 K12 X G1 G12); [ | exact Hg1 | exact Hg12].
    intros p d. split; intros H.
    + apply (proj2 (Hc1 p d)). exact H.
    + apply (proj1 (Hc1 p d)). exact H.
  - intros [p d'] a. destruct Hg1 as [_ Hl1]. destruct Hg2 as [_ Hl2]. destruct Hg12 as [_ Hl12].
    split.
    + intros H. destruct (proj1 (Hl12 p d' a) H) as [d [Hd [H1 Hn]]].
      destruct (proj1 (Hcl p d a) H1) as [H1' | H1'].
      * left. apply (proj2 (Hl1 p d' a)). exists d.
        split; [exact Hd | split; [exact H1' | exact Hn]].
      * right. apply (proj2 (Hl2 p d' a)). exists d.
        split; [exact Hd | split; [exact H1' | exact Hn]].
    + intros [H | H].
      * destruct (proj1 (Hl1 p d' a) H) as [d [Hd [H1 Hn]]].
        apply (proj2 (Hl12 p d' a)). exists d.
        split; [exact Hd | split; [apply (proj2 (Hcl p d a)); left; exact H1 | exact Hn]].
      * destruct (proj1 (Hl2 p d' a) H) as [d [Hd [H1 Hn]]].
        apply (proj2 (Hl12 p d' a)). exists d.
        split; [exact Hd | split; [apply (proj2 (Hcl p d a)); right; exact H1 | exact Hn]].
Qed.

(* ---- paths --------------------------------------------------------------------------- *)

Lemma after_inv g K beta S : after g K beta S ->
  (beta = [] /\ S = K) \/
  exists alpha X S0, beta = alpha ++ [X] /\ after g K alpha S0 /\ is_goto g S0 X S.
Proof.
  intros H. destruct H as [| alpha S0 X S1 Ha Hg].
  - left. split; reflexivity.
  - right. exists alpha, X, S0. split; [reflexivity | split; [exact Ha | exact Hg]].
Qed.

Lemma after_nil_inv g K S : after g K [] S -> S = K.
Proof.
  intros H. destruct (after_inv g K [] S H) as [[_ HS] | [alpha [X [S0 [Hb _]]]]].
  - exact HS.
  - destruct (app_cons_not_nil alpha [] X Hb).
Qed.

Lemma after_snoc_inv g K alpha X S : after g K (alpha ++ [X]) S ->
  exists S0, after g K alpha S0 /\ is_goto g S0 X S.
Proof.
  intros H. destruct (after_inv g K (alpha ++ [X]) S H) as [[Hb _] | [alpha' [X' [S0 [Hb [Ha Hg]]]]]].
  - symmetry in Hb. destruct (app_cons_not_nil alpha [] X Hb).
  - apply app_inj_tail in Hb. destruct Hb as [Hal HX]. subst alpha' X'.
    exists S0. split; [exact Ha | exact Hg].
Qed.

(* the subtree of a successor is a subtree *)
Lemma after_cons g K X K' alpha S :
  is_goto g K X K' -> after g K' alpha S -> after g K (X :: alpha) S.
Proof.
  intros Hg H. induction H as [| alpha S0 Y S1 Ha IH Hg'].
  - change [X] with ([] ++ [X]). exact (after_snoc g K [] K X K' (after_nil g K) Hg).
  - rewrite app_comm_cons. exact (after_snoc g K (X :: alpha) S0 Y S1 IH Hg').
Qed.

(* ---- after + closure = core_at / la_at --------------------------------------------- *)

Lemma core_at_of_lr0_nil g K p d : lr0_closure_rel g K p d -> core_at g K [] p d.
Proof.
  intros H. induction H as [p d la Hin | p d r q Hpar IH Hnth Hq Hlq].
  - exact (ca_base g K p d la Hin).
  - exact (ca_close g K [] p d r q IH Hnth Hq Hlq).
Qed.

Lemma lr0_of_core_at_nil g K beta p d : core_at g K beta p d -> beta = [] -> lr0_closure_rel g K p d.
Proof.
  intros H. induction H as [p d la Hin | beta p d r q Hpar IH Hnth Hq Hlq | beta Y p d Hpar IH Hnth];
    intros Hb.
  - exact (c0_base g K p d la Hin).
  - exact (c0_step g K p d r q (IH Hb) Hnth Hq Hlq).
  - symmetry in Hb. destruct (app_cons_not_nil beta [] Y Hb).
Qed.

Lemma la_at_of_lr1_nil g K p d a : lr1_closure_rel g K p d a -> la_at g K [] p d a.
Proof.
  intros H.
  induction H as [p d la a Hin Ha | p d r q b Hpar Hnth Hq Hlq Hf | p d a r q Hpar IH Hnth Hq Hlq Hn].
  - exact (la_base g K p d la a Hin Ha).
  - exact (la_first g K [] p d r q b (core_at_of_lr0_nil g K p d Hpar) Hnth Hq Hlq Hf).
  - exact (la_null g K [] p d a r q IH Hnth Hq Hlq Hn).
Qed.

Lemma lr1_of_la_at_nil g K beta p d a :
  la_at g K beta p d a -> beta = [] -> lr1_closure_rel g K p d a.
Proof.
  intros H.
  induction H as [p d la a Hin Ha | beta p d r q b Hpar Hnth Hq Hlq Hf
                 | beta p d a r q Hpar IH Hnth Hq Hlq Hn | beta Y p d a Hpar IH Hnth];
    intros Hb.
  - exact (c1_base g K p d la a Hin Ha).
  - exact (c1_first g K p d r q b (lr0_of_core_at_nil g K beta p d Hpar Hb) Hnth Hq Hlq Hf).
  - exact (c1_null g K p d a r q (IH Hb) Hnth Hq Hlq Hn).
  - symmetry in Hb. destruct (app_cons_not_nil beta [] Y Hb).
Qed.

Lemma core_at_of_lr0_step g K alpha S0 X S1 :
  is_goto g S0 X S1 ->
  (forall p d, lr0_closure_rel g S0 p d -> core_at g K alpha p d) ->
  forall p d, lr0_closure_rel g S1 p d -> core_at g K (alpha ++ [X]) p d.
Proof.
  intros [Hgc _] IH0 p d H. induction H as [p d la Hin | p d r q Hpar IH Hnth Hq Hlq].
  - destruct (proj1 (Hgc p d) (has_core_intro S1 p d la Hin)) as [d0 [Hd [H0 Hn]]].
    subst d. exact (ca_goto g K alpha X p d0 (IH0 p d0 H0) Hn).
  - exact (ca_close g K (alpha ++ [X]) p d r q IH Hnth Hq Hlq).
Qed.

Lemma lr0_of_core_at_step g K alpha S0 X S1 :
  is_goto g S0 X S1 ->
  (forall p d, core_at g K alpha p d -> lr0_closure_rel g S0 p d) ->
  forall beta p d, core_at g K beta p d -> beta = alpha ++ [X] -> lr0_closure_rel g S1 p d.
Proof.
  intros [Hgc _] IH0 beta p d H.
  induction H as [p d la Hin | beta p d r q Hpar IH Hnth Hq Hlq | beta Y p d Hpar IH Hnth];
    intros Hb.
  - destruct (app_cons_not_nil alpha [] X Hb).
  - exact (c0_step g S1 p d r q (IH Hb) Hnth Hq Hlq).
  - apply app_inj_tail in Hb. destruct Hb as [Hal HY]. subst beta Y.
    assert (Hc : has_core S1 (p, S d)).
    { apply (proj2 (Hgc p (S d))). exists d.
      split; [reflexivity | split; [exact (IH0 p d Hpar) | exact Hnth]]. }
    destruct (proj1 (has_core_pd S1 p (S d)) Hc) as [la Hin].
    exact (c0_base g S1 p (S d) la Hin).
Qed.

Lemma la_at_of_lr1_step g K alpha S0 X S1 :
  is_goto g S0 X S1 ->
  (forall p d, lr0_closure_rel g S0 p d -> core_at g K alpha p d) ->
  (forall p d a, lr1_closure_rel g S0 p d a -> la_at g K alpha p d a) ->
  forall p d a, lr1_closure_rel g S1 p d a -> la_at g K (alpha ++ [X]) p d a.
Proof.
  intros Hg IH0 IH1 p d a H.
  induction H as [p d la a Hin Ha | p d r q b Hpar Hnth Hq Hlq Hf | p d a r q Hpar IH Hnth Hq Hlq Hn].
  - destruct Hg as [_ Hgl].
    destruct (proj1 (Hgl p d a) (has_la_intro S1 p d la a Hin Ha)) as [d0 [Hd [H0 Hn]]].
    subst d. exact (la_goto g K alpha X p d0 a (IH1 p d0 a H0) Hn).
  - exact (la_first g K (alpha ++ [X]) p d r q b
             (core_at_of_lr0_step g K alpha S0 X S1 Hg IH0 p d Hpar) Hnth Hq Hlq Hf).
  - exact (la_null g K (alpha ++ [X]) p d a r q IH Hnth Hq Hlq Hn).
Qed.

Lemma lr1_of_la_at_step g K alpha S0 X S1 :
  is_goto g S0 X S1 ->
  (forall p d, core_at g K alpha p d -> lr0_closure_rel g S0 p d) ->
  (forall p d a, la_at g K alpha p d a -> lr1_closure_rel g S0 p d a) ->
  forall beta p d a, la_at g K beta p d a -> beta = alpha ++ [X] -> lr1_closure_rel g S1 p d a.
Proof.
  intros Hg IH0 IH1 beta p d a H.
  induction H as [p d la a Hin Ha | beta p d r q b Hpar Hnth Hq Hlq Hf
                 | beta p d a r q Hpar IH Hnth Hq Hlq Hn | beta Y p d a Hpar IH Hnth];
    intros Hb.
  - destruct (app_cons_not_nil alpha [] X Hb).
  - exact (c1_first g S1 p d r q b
             (lr0_of_core_at_step g K alpha S0 X S1 Hg IH0 beta p d Hpar Hb) Hnth Hq Hlq Hf).
  - exact (c1_null g S1 p d a r q (IH Hb) Hnth Hq Hlq Hn).
  - apply app_inj_tail in Hb. destruct Hb as [Hal HY]. subst beta Y.
    destruct Hg as [_ Hgl].
    assert (Hl : has_la S1 (p, S d) a).
    { apply (proj2 (Hgl p (S d) a)). exists d.
      split; [reflexivity | split; [exact (IH1 p d a Hpar) | exact Hnth]]. }
    destruct (proj1 (has_la_pd S1 p (S d) a) Hl) as [la [Hin Ha]].
    exact (c1_base g S1 p (S d) la a Hin Ha).
Qed.

Lemma conflict_iff g K alpha S :
  (forall p d, lr0_closure_rel g S p d <-> core_at g K alpha p d) ->
  (forall p d a, lr1_closure_rel g S p d a <-> la_at g K alpha p d a) ->
  (state_conflict g S <-> conflict_at g K alpha).
Proof.
  intros H0 H1. unfold state_conflict, shift_reduce, reduce_reduce, conflict_at. split.
  - intros [[a [p [d [q [Hc [Hn Hl]]]]]] | [a [q1 [q2 [Hne [Hl1 Hl2]]]]]].
    + left. exists a, p, d, q.
      split; [exact (proj1 (H0 p d) Hc) | split; [exact Hn | exact (proj1 (H1 _ _ _) Hl)]].
    + right. exists a, q1, q2.
      split; [exact Hne | split; [exact (proj1 (H1 _ _ _) Hl1) | exact (proj1 (H1 _ _ _) Hl2)]].
  - intros [[a [p [d [q [Hc [Hn Hl]]]]]] | [a [q1 [q2 [Hne [Hl1 Hl2]]]]]].
    + left. exists a, p, d, q.
      split; [exact (proj2 (H0 p d) Hc) | split; [exact Hn | exact (proj2 (H1 _ _ _) Hl)]].
    + right. exists a, q1, q2.
      split; [exact Hne | split; [exact (proj2 (H1 _ _ _) Hl1) | exact (proj2 (H1 _ _ _) Hl2)]].
Qed.

Lemma after_characterisation : after_characterisation_stmt.
Proof.
  intros g K alpha S H.
  assert (HH : (forall p d, lr0_closure_rel g S p d <-> core_at g K alpha p d) /\
               (forall p d a, lr1_closure_rel g S p d a <-> la_at g K alpha p d a)).
  { induction H as [| alpha S0 X S1 Ha [IH0 IH1] Hg].
    - split.
      + intros p d. split; intros H.
        * exact (core_at_of_lr0_nil g K p d H).
        * exact (lr0_of_core_at_nil g K [] p d H eq_refl).
      + intros p d a. split; intros H.
        * exact (la_at_of_lr1_nil g K p d a H).
        * exact (lr1_of_la_at_nil g K [] p d a H eq_refl).
    - assert (IH0a : forall p d, lr0_closure_rel g S0 p d -> core_at g K alpha p d).
      { intros p d Hx. exact (proj1 (IH0 p d) Hx). }
      assert (IH0b : forall p d, core_at g K alpha p d -> lr0_closure_rel g S0 p d).
      { intros p d Hx. exact (proj2 (IH0 p d) Hx). }
      assert (IH1a : forall p d a, lr1_closure_rel g S0 p d a -> la_at g K alpha p d a).
      { intros p d a Hx. exact (proj1 (IH1 p d a) Hx). }
      assert (IH1b : forall p d a, la_at g K alpha p d a -> lr1_closure_rel g S0 p d a).
      { intros p d a Hx. exact (proj2 (IH1 p d a) Hx). }
      split.
      + intros p d. split; intros H.
        * exact (core_at_of_lr0_step g K alpha S0 X S1 Hg IH0a p d H).
        * exact (lr0_of_core_at_step g K alpha S0 X S1 Hg IH0b (alpha ++ [X]) p d H eq_refl).
      + intros p d a. split; intros H.
        * exact (la_at_of_lr1_step g K alpha S0 X S1 Hg IH0a IH1a p d a H).
        * exact (lr1_of_la_at_step g K alpha S0 X S1 Hg IH0b IH1b (alpha ++ [X]) p d a H eq_refl). }
  destruct HH as [HH0 HH1].
  split; [exact HH0 | split; [exact HH1 | exact (conflict_iff g K alpha S HH0 HH1)]].
Qed.

(* ---- state_after is linear ----------------------------------------------------------- *)

Lemma after_kernel_linear g K1 K2 K12 : same_cores K1 K2 -> is_union K1 K2 K12 ->
  forall alpha S1, after g K1 alpha S1 -> forall S2 S12,
    after g K2 alpha S2 -> after g K12 alpha S12 ->
    same_cores S1 S2 /\ is_union S1 S2 S12.
Proof.
  intros H12 HU alpha S1 H1.
  induction H1 as [| alpha T1 X S1 Ha1 IH Hg1]; intros S2 S12 H2 H3.
  - apply after_nil_inv in H2. apply after_nil_inv in H3. subst S2 S12.
    split; [exact H12 | exact HU].
  - apply after_snoc_inv in H2. destruct H2 as [T2 [Ha2 Hg2]].
    apply after_snoc_inv in H3. destruct H3 as [T12 [Ha12 Hg12]].
    destruct (IH T2 T12 Ha2 Ha12) as [HT HTU].
    exact (goto_linear g T1 T2 T12 X S1 S2 S12 HT HTU Hg1 Hg2 Hg12).
Qed.

Lemma state_after_linear : state_after_linear_stmt.
Proof.
  intros g K1 K2 K12 alpha S1 S2 S12 H12 HU H1 H2 H3.
  destruct (after_kernel_linear g K1 K2 K12 H12 HU alpha S1 H1 S2 S12 H2 H3) as [HS HSU].
  destruct (closure_linear g S1 S2 S12 HS HSU) as [Hc1 [_ Hcl]].
  split; [exact HS | split; [exact HSU | split; [exact Hc1 | exact Hcl]]].
Qed.
