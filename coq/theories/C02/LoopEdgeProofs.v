(* C02 — proofs of the two edge statements of LoopSpec.v about the mirror of
   pager_stategraph (LoopModel.v): the returned graph is closed under goto, up to
   inclusion of contexts ([pager_mirror_edges_complete]), and every edge is of
   that kind ([pager_mirror_edges_sound]).

   Invariant of the main loop ([Big] = [Inv] of LoopProofs.v + [cnd_pos] + [EInv]),
   on core_states / closed_states / edges, with goto(closure(K), X) read item by
   item ([gcore] / [gla], so that no intermediate itemset has to exist):
     (S0) core_states[0] is the start kernel (state 0 is never a merge candidate);
     (E1) every edge s -X-> t: the cores of core_states[t] are exactly the cores of
          goto(core_states[s], X), and that goto is not empty — a statement about
          cores only, it survives every merge;
     (E2) if closed_states[s] is Some: every lookahead of goto(core_states[s], X) is
          in core_states[t];
     (C)  if closed_states[s] is Some: every X with a non-empty goto has an edge;
   (E2)/(C) exempt the symbols of the state being processed whose successor has not
   been placed yet.  A merge only adds lookaheads to a core state and resets its
   closed state when something changed ([le_EInv_evolve]).  gc renumbers the states
   reachable from state 0 ([le_gc_graph]). *)
From Coq Require Import List Arith NArith Bool Lia.
From GV Require Import Common.Outcome Base.Grammar Base.GrammarFacts Base.Analyses Base.AnalysesProofs LR.Automaton
  LR.Validator LR.CloseMirror LR.CloseSpec LR.CloseProofs C02.Model C02.Spec C02.Proofs
  C02.PagerSpec C02.PagerProofsBridge C02.PagerProofsMisc C02.PagerProofsMain C02.PagerProofsExists
  C02.Lr1Model C02.Lr1Spec C02.Lr1Proofs C02.LoopModel C02.LoopSpec C02.LoopProofs.
Import ListNotations.

(* ---- symbols, edge lists ---------------------------------------------------------------- *)

Lemma le_sym_eqb_refl X : sym_eqb X X = true.
Proof. apply sym_eqb_eq. reflexivity. Qed.

Lemma le_sym_eqb_false X Y : sym_eqb X Y = false <-> X <> Y.
Proof.
  split.
  - intros H E. apply sym_eqb_eq in E. rewrite E in H. discriminate H.
  - intros H. destruct (sym_eqb X Y) eqn:E; [|reflexivity].
    apply sym_eqb_eq in E. exfalso. exact (H E).
Qed.

Lemma le_assoc_insert_eq X t : forall es, assoc_sym X (edge_insert X t es) = Some t.
Proof.
  induction es as [|[Y u] es IH]; cbn [edge_insert assoc_sym].
  - rewrite le_sym_eqb_refl. reflexivity.
  - destruct (sym_eqb X Y) eqn:E; cbn [assoc_sym].
    + rewrite le_sym_eqb_refl. reflexivity.
    + rewrite E. exact IH.
Qed.

Lemma le_assoc_insert_neq X Y t : X <> Y -> forall es,
  assoc_sym Y (edge_insert X t es) = assoc_sym Y es.
Proof.
  intros Hne. induction es as [|[Z u] es IH]; cbn [edge_insert assoc_sym].
  - destruct (sym_eqb Y X) eqn:E; [|reflexivity].
    apply sym_eqb_eq in E. exfalso. apply Hne. symmetry. exact E.
  - destruct (sym_eqb X Z) eqn:E; cbn [assoc_sym].
    + apply sym_eqb_eq in E. subst Z.
      assert (E2 : sym_eqb Y X = false).
      { apply le_sym_eqb_false. intros H. apply Hne. symmetry. exact H. }
      rewrite E2. reflexivity.
    + destruct (sym_eqb Y Z); [reflexivity|exact IH].
Qed.

Lemma le_assoc_in {A : Type} X (t : A) : forall es, assoc_sym X es = Some t -> In (X, t) es.
Proof.
  induction es as [|[Y u] es IH]; cbn [assoc_sym]; intros H.
  - discriminate H.
  - destruct (sym_eqb X Y) eqn:E.
    + apply sym_eqb_eq in E. subst Y. injection H as H. subst u. left. reflexivity.
    + right. exact (IH H).
Qed.

Lemma le_assoc_map {A B : Type} (f : A -> B) X : forall es : list (sym * A),
  assoc_sym X (map (fun e => (fst e, f (snd e))) es) = option_map f (assoc_sym X es).
Proof.
  induction es as [|[Y u] es IH]; cbn [map assoc_sym fst snd].
  - reflexivity.
  - destruct (sym_eqb X Y); [reflexivity|exact IH].
Qed.

(* ---- lists -------------------------------------------------------------------------------- *)

Lemma le_in_set_nth {A : Type} (v x : A) : forall l i, In x (set_nth i v l) -> x = v \/ In x l.
Proof.
  induction l as [|y l IH]; intros [|i] H; simpl in H.
  - contradiction.
  - contradiction.
  - destruct H as [H|H]; [left; symmetry; exact H|right; right; exact H].
  - destruct H as [H|H]; [right; left; exact H|].
    destruct (IH i H) as [H'|H']; [left; exact H'|right; right; exact H'].
Qed.

Lemma le_set_nth_app {A : Type} (v : A) (l' : list A) : forall l i, i < length l ->
  set_nth i v l ++ l' = set_nth i v (l ++ l').
Proof.
  induction l as [|y l IH]; intros [|i] H; simpl in H |- *; try lia.
  - reflexivity.
  - rewrite (IH i) by lia. reflexivity.
Qed.

Lemma le_nth_checked {A : Type} (l : list A) i x : nth_checked l i = Done x -> nth_error l i = Some x.
Proof.
  unfold nth_checked. destruct (nth_error l i) as [y|]; intros H; [|discriminate H].
  injection H as H. subst y. reflexivity.
Qed.

Lemma le_nth_error_lt {A : Type} (l : list A) i x : nth_error l i = Some x -> i < length l.
Proof. intros H. apply nth_error_Some. rewrite H. discriminate. Qed.

Lemma le_nth_error_ex {A : Type} (l : list A) i : i < length l -> exists x, nth_error l i = Some x.
Proof.
  intros H. destruct (nth_error l i) as [x|] eqn:E; [exists x; reflexivity|].
  apply nth_error_None in E. lia.
Qed.

Lemma le_nth_error_combine {A B : Type} (a : A) (b : B) : forall l1 l2 j,
  nth_error (combine l1 l2) j = Some (a, b) <->
  nth_error l1 j = Some a /\ nth_error l2 j = Some b.
Proof.
  induction l1 as [|x l1 IH]; intros [|y l2] [|j]; simpl; split;
    try (intros H; discriminate H); try (intros [H1 H2]; discriminate).
  - intros H. injection H as H1 H2. subst. split; reflexivity.
  - intros [H1 H2]. injection H1 as H1. injection H2 as H2. subst. reflexivity.
  - apply IH.
  - apply IH.
Qed.

(* ---- goto of a kernel, item by item ------------------------------------------------------- *)

Definition gcore (g : grammar) (K : itemset) (X : sym) (p : N) (d' : nat) : Prop :=
  exists d, d' = S d /\ lr0_closure_rel g K p d /\ nth_error (rhs g p) d = Some X.
Definition gla (g : grammar) (K : itemset) (X : sym) (p : N) (d' : nat) (a : N) : Prop :=
  exists d, d' = S d /\ lr1_closure_rel g K p d a /\ nth_error (rhs g p) d = Some X.
Definition gnonempty (g : grammar) (K : itemset) (X : sym) : Prop := exists p d', gcore g K X p d'.

Definition la_sub (A B : itemset) : Prop := forall p d a, has_la A (p, d) a -> has_la B (p, d) a.

Lemma le_same_cores_pd A B : same_cores A B -> forall p d, has_core A (p, d) -> has_core B (p, d).
Proof. intros H p d Hc. exact (proj1 (H (p, d)) Hc). Qed.

Lemma le_gcore_cores g K K' X p d' : same_cores K K' -> gcore g K X p d' -> gcore g K' X p d'.
Proof.
  intros Hs (d & Hd & H0 & Hn). exists d. split; [exact Hd|]. split; [|exact Hn].
  exact (lr0_closure_cores g K K' Hs p d H0).
Qed.

Lemma le_gnonempty_cores g K K' X : same_cores K K' -> gnonempty g K X -> gnonempty g K' X.
Proof.
  intros Hs (p & d' & H). exists p, d'. exact (le_gcore_cores g K K' X p d' Hs H).
Qed.

Lemma le_gla_mono g K K' X p d' a : same_cores K K' -> la_sub K K' ->
  gla g K X p d' a -> gla g K' X p d' a.
Proof.
  intros Hs Hl (d & Hd & H1 & Hn). exists d. split; [exact Hd|]. split; [|exact Hn].
  apply (lr1_closure_mono g K K'); [exact (le_same_cores_pd K K' Hs)|exact Hl|exact H1].
Qed.

Lemma le_la_sub_refl A : la_sub A A.
Proof. intros p d a H. exact H. Qed.

Lemma le_la_sub_trans A B C : la_sub A B -> la_sub B C -> la_sub A C.
Proof. intros H1 H2 p d a H. exact (H2 p d a (H1 p d a H)). Qed.

Lemma le_same_cores_refl A : same_cores A A.
Proof. intros k. split; intros H; exact H. Qed.

(* ---- the invariant on the three vectors ---------------------------------------------------

   [ex s X]: the pair (state, symbol) is exempted from (E2)/(C): X is a symbol of the
   state being processed whose successor has not been placed yet. *)

Record EInv (g : grammar) (cores : list itemset) (closed : list (option itemset))
  (edges : list (list (sym * nat))) (ex : nat -> sym -> Prop) : Prop := mkEInv {
  ei_len_c : length closed = length cores;
  ei_len_e : length edges = length cores;
  ei_s0 : nth_error cores 0 = Some (start_kernel g);
  ei_e1 : forall s cs es X t,
    nth_error cores s = Some cs -> nth_error edges s = Some es -> assoc_sym X es = Some t ->
    exists ct, nth_error cores t = Some ct /\
      (forall p d', has_core ct (p, d') <-> gcore g cs X p d') /\ gnonempty g cs X;
  ei_e2 : forall s cs C es X t ct,
    nth_error cores s = Some cs -> nth_error closed s = Some (Some C) ->
    nth_error edges s = Some es -> assoc_sym X es = Some t -> ~ ex s X ->
    nth_error cores t = Some ct ->
    forall p d' a, gla g cs X p d' a -> has_la ct (p, d') a;
  ei_c : forall s cs C es X,
    nth_error cores s = Some cs -> nth_error closed s = Some (Some C) ->
    nth_error edges s = Some es -> gnonempty g cs X -> ~ ex s X ->
    exists t, assoc_sym X es = Some t
}.

Lemma le_EInv_ex g cores closed edges (ex ex' : nat -> sym -> Prop) :
  (forall s X, ~ ex' s X -> ~ ex s X) ->
  EInv g cores closed edges ex -> EInv g cores closed edges ex'.
Proof.
  intros Hex [H1 H2 H3 H4 H5 H6]. constructor; try assumption.
  - intros s cs C es X t ct Hs HC Hes Ha Hnex Ht. exact (H5 s cs C es X t ct Hs HC Hes Ha (Hex s X Hnex) Ht).
  - intros s cs C es X Hs HC Hes Hne Hnex. exact (H6 s cs C es X Hs HC Hes Hne (Hex s X Hnex)).
Qed.

(* cores only grow in their contexts; a closed entry survives only where nothing changed *)
Lemma le_EInv_evolve g cores closed edges ex cores' closed' :
  EInv g cores closed edges ex ->
  length cores' = length cores -> length closed' = length closed ->
  nth_error cores' 0 = Some (start_kernel g) ->
  (forall s cs', nth_error cores' s = Some cs' ->
     exists cs, nth_error cores s = Some cs /\ same_cores cs cs' /\ la_sub cs cs' /\
       forall C, nth_error closed' s = Some (Some C) ->
         nth_error closed s = Some (Some C) /\ la_sub cs' cs) ->
  EInv g cores' closed' edges ex.
Proof.
  intros [H1 H2 H3 H4 H5 H6] Hlc Hlcl Hs0 Hev. constructor.
  - lia.
  - lia.
  - exact Hs0.
  - intros s cs' es X t Hs Hes Ha.
    destruct (Hev s cs' Hs) as (cs & Hcs & Hsc & _ & _).
    destruct (H4 s cs es X t Hcs Hes Ha) as (ct & Hct & Hcores & Hne).
    assert (Hlt : t < length cores') by (rewrite Hlc; exact (le_nth_error_lt _ _ _ Hct)).
    destruct (le_nth_error_ex cores' t Hlt) as (ct' & Hct').
    destruct (Hev t ct' Hct') as (ct0 & Hct0 & Hsct & _ & _).
    rewrite Hct in Hct0. injection Hct0 as Hct0. subst ct0.
    exists ct'. split; [exact Hct'|]. split.
    + intros p d'. split.
      * intros Hc. apply (le_gcore_cores g cs cs' X p d' Hsc).
        apply (proj1 (Hcores p d')). exact (proj2 (Hsct (p, d')) Hc).
      * intros Hc. apply (proj1 (Hsct (p, d'))). apply (proj2 (Hcores p d')).
        exact (le_gcore_cores g cs' cs X p d' (same_cores_sym _ _ Hsc) Hc).
    + exact (le_gnonempty_cores g cs cs' X Hsc Hne).
  - intros s cs' C es X t ct' Hs HC Hes Ha Hnex Ht p d' a Hg.
    destruct (Hev s cs' Hs) as (cs & Hcs & Hsc & _ & Hcl).
    destruct (Hcl C HC) as [HC0 Hsub].
    destruct (Hev t ct' Ht) as (ct & Hct & _ & Hlat & _).
    apply Hlat. apply (H5 s cs C es X t ct Hcs HC0 Hes Ha Hnex Hct p d' a).
    exact (le_gla_mono g cs' cs X p d' a (same_cores_sym _ _ Hsc) Hsub Hg).
  - intros s cs' C es X Hs HC Hes Hne Hnex.
    destruct (Hev s cs' Hs) as (cs & Hcs & Hsc & _ & Hcl).
    destruct (Hcl C HC) as [HC0 _].
    exact (H6 s cs C es X Hcs HC0 Hes (le_gnonempty_cores g cs' cs X (same_cores_sym _ _ Hsc) Hne) Hnex).
Qed.

Lemma le_EInv_app g cores closed edges ex ns :
  EInv g cores closed edges ex -> EInv g (cores ++ [ns]) (closed ++ [None]) (edges ++ [[]]) ex.
Proof.
  intros [H1 H2 H3 H4 H5 H6].
  assert (Hpos : 0 < length cores) by exact (le_nth_error_lt _ _ _ H3).
  assert (Hold_e : forall s es X (t : nat), nth_error (edges ++ [[]]) s = Some es ->
            assoc_sym X es = Some t -> s < length cores /\ nth_error edges s = Some es).
  { intros s es X t Hes Ha. destruct (lt_dec s (length edges)) as [Hlt|Hge].
    - rewrite nth_error_app1 in Hes by exact Hlt. split; [lia|exact Hes].
    - rewrite nth_error_app2 in Hes by lia.
      destruct (s - length edges) as [|n]; simpl in Hes.
      + injection Hes as Hes. subst es. discriminate Ha.
      + destruct n; discriminate Hes. }
  assert (Hold_c : forall s C, nth_error (closed ++ [None]) s = Some (Some C) ->
            s < length cores /\ nth_error closed s = Some (Some C)).
  { intros s C HC. destruct (lt_dec s (length closed)) as [Hlt|Hge].
    - rewrite nth_error_app1 in HC by exact Hlt. split; [lia|exact HC].
    - rewrite nth_error_app2 in HC by lia.
      destruct (s - length closed) as [|n]; simpl in HC.
      + discriminate HC.
      + destruct n; discriminate HC. }
  constructor.
  - rewrite !app_length. simpl. lia.
  - rewrite !app_length. simpl. lia.
  - rewrite nth_error_app1 by exact Hpos. exact H3.
  - intros s cs es X t Hs Hes Ha.
    destruct (Hold_e s es X t Hes Ha) as [Hlt Hes'].
    rewrite nth_error_app1 in Hs by exact Hlt.
    destruct (H4 s cs es X t Hs Hes' Ha) as (ct & Hct & Hrest).
    exists ct. split; [|exact Hrest].
    rewrite nth_error_app1 by exact (le_nth_error_lt _ _ _ Hct). exact Hct.
  - intros s cs C es X t ct Hs HC Hes Ha Hnex Ht.
    destruct (Hold_e s es X t Hes Ha) as [Hlt Hes'].
    destruct (Hold_c s C HC) as [_ HC'].
    rewrite nth_error_app1 in Hs by exact Hlt.
    destruct (H4 s cs es X t Hs Hes' Ha) as (ct0 & Hct0 & _).
    rewrite nth_error_app1 in Ht by exact (le_nth_error_lt _ _ _ Hct0).
    exact (H5 s cs C es X t ct Hs HC' Hes' Ha Hnex Ht).
  - intros s cs C es X Hs HC Hes Hne Hnex.
    destruct (Hold_c s C HC) as [Hlt HC'].
    rewrite nth_error_app1 in Hs by exact Hlt.
    rewrite nth_error_app1 in Hes by lia.
    exact (H6 s cs C es X Hs HC' Hes Hne Hnex).
Qed.

(* edges[i].insert(X, t), the new edge being of the right kind; X is no longer exempted *)
Lemma le_EInv_insert g cores closed edges (ex ex' : nat -> sym -> Prop) i es ci X t ct :
  EInv g cores closed edges ex ->
  nth_error edges i = Some es -> nth_error cores i = Some ci -> nth_error cores t = Some ct ->
  (forall p d', has_core ct (p, d') <-> gcore g ci X p d') -> gnonempty g ci X ->
  (forall C, nth_error closed i = Some (Some C) ->
     forall p d' a, gla g ci X p d' a -> has_la ct (p, d') a) ->
  (forall s Y, ~ ex' s Y -> (s = i /\ Y = X) \/ ~ ex s Y) ->
  EInv g cores closed (set_nth i (edge_insert X t es) edges) ex'.
Proof.
  intros [H1 H2 H3 H4 H5 H6] Hes Hci Hct Hnc Hnn Hnl Hex.
  assert (Hcase : forall s es', nth_error (set_nth i (edge_insert X t es) edges) s = Some es' ->
            (s = i /\ es' = edge_insert X t es) \/ (s <> i /\ nth_error edges s = Some es')).
  { intros s es' H. rewrite lp_nth_error_set_nth in H. destruct (Nat.eqb i s) eqn:E.
    - apply Nat.eqb_eq in E. subst s. rewrite Hes in H. injection H as H. left. split; [reflexivity|].
      symmetry. exact H.
    - apply Nat.eqb_neq in E. right. split; [intros F; apply E; symmetry; exact F|exact H]. }
  constructor.
  - exact H1.
  - rewrite lp_set_nth_length. exact H2.
  - exact H3.
  - intros s cs es' Y u Hs Hes' Ha.
    destruct (Hcase s es' Hes') as [[Es Ees]|[Ns Hold]].
    + subst s es'. rewrite Hci in Hs. injection Hs as Hs. subst cs.
      destruct (sym_eqb X Y) eqn:EXY.
      * apply sym_eqb_eq in EXY. subst Y. rewrite le_assoc_insert_eq in Ha. injection Ha as Ha. subst u.
        exists ct. split; [exact Hct|]. split; [exact Hnc|exact Hnn].
      * apply le_sym_eqb_false in EXY. rewrite (le_assoc_insert_neq X Y t EXY) in Ha.
        exact (H4 i ci es Y u Hci Hes Ha).
    + exact (H4 s cs es' Y u Hs Hold Ha).
  - intros s cs C es' Y u cu Hs HC Hes' Ha Hnex Hu.
    destruct (Hcase s es' Hes') as [[Es Ees]|[Ns Hold]].
    + subst s es'. rewrite Hci in Hs. injection Hs as Hs. subst cs.
      destruct (sym_eqb X Y) eqn:EXY.
      * apply sym_eqb_eq in EXY. subst Y. rewrite le_assoc_insert_eq in Ha. injection Ha as Ha. subst u.
        rewrite Hct in Hu. injection Hu as Hu. subst cu. exact (Hnl C HC).
      * apply le_sym_eqb_false in EXY. rewrite (le_assoc_insert_neq X Y t EXY) in Ha.
        destruct (Hex i Y Hnex) as [[_ F]|Hn]; [exfalso; apply EXY; symmetry; exact F|].
        exact (H5 i ci C es Y u cu Hci HC Hes Ha Hn Hu).
    + destruct (Hex s Y Hnex) as [[F _]|Hn]; [exfalso; exact (Ns F)|].
      exact (H5 s cs C es' Y u cu Hs HC Hold Ha Hn Hu).
  - intros s cs C es' Y Hs HC Hes' Hne Hnex.
    destruct (Hcase s es' Hes') as [[Es Ees]|[Ns Hold]].
    + subst s es'. rewrite Hci in Hs. injection Hs as Hs. subst cs.
      destruct (sym_eqb X Y) eqn:EXY.
      * apply sym_eqb_eq in EXY. subst Y. exists t. apply le_assoc_insert_eq.
      * apply le_sym_eqb_false in EXY. rewrite (le_assoc_insert_neq X Y t EXY).
        destruct (Hex i Y Hnex) as [[_ F]|Hn]; [exfalso; apply EXY; symmetry; exact F|].
        exact (H6 i ci C es Y Hci HC Hes Hne Hn).
    + destruct (Hex s Y Hnex) as [[F _]|Hn]; [exfalso; exact (Ns F)|].
      exact (H6 s cs C es' Y Hs HC Hold Hne Hn).
Qed.

(* closed[cur] := Some cl; every symbol with a non-empty goto from cur is pending *)
Lemma le_EInv_close g cores closed edges cur ccur cl pend :
  EInv g cores closed edges (fun _ _ => False) ->
  nth_error cores cur = Some ccur ->
  (forall X, gnonempty g ccur X -> In X pend) ->
  EInv g cores (set_nth cur (Some cl) closed) edges (fun s X => s = cur /\ In X pend).
Proof.
  intros [H1 H2 H3 H4 H5 H6] Hcur Hpend.
  assert (Hcase : forall s C, nth_error (set_nth cur (Some cl) closed) s = Some (Some C) ->
            s = cur \/ (s <> cur /\ nth_error closed s = Some (Some C))).
  { intros s C H. rewrite lp_nth_error_set_nth in H. destruct (Nat.eqb cur s) eqn:E.
    - apply Nat.eqb_eq in E. left. symmetry. exact E.
    - apply Nat.eqb_neq in E. right. split; [intros F; apply E; symmetry; exact F|exact H]. }
  constructor.
  - rewrite lp_set_nth_length. exact H1.
  - exact H2.
  - exact H3.
  - exact H4.
  - intros s cs C es X t ct Hs HC Hes Ha Hnex Ht.
    destruct (Hcase s C HC) as [Es|[Ns Hold]].
    + subst s. exfalso. apply Hnex. split; [reflexivity|]. apply Hpend.
      rewrite Hcur in Hs. injection Hs as Hs. subst cs.
      destruct (H4 cur ccur es X t Hcur Hes Ha) as (ct0 & _ & _ & Hne). exact Hne.
    + apply (H5 s cs C es X t ct Hs Hold Hes Ha); [|exact Ht]. intros F. exact F.
  - intros s cs C es X Hs HC Hes Hne Hnex.
    destruct (Hcase s C HC) as [Es|[Ns Hold]].
    + subst s. exfalso. apply Hnex. split; [reflexivity|]. apply Hpend.
      rewrite Hcur in Hs. injection Hs as Hs. subst cs. exact Hne.
    + apply (H6 s cs C es X Hs Hold Hes Hne). intros F. exact F.
Qed.

(* ---- Itemset == Itemset -------------------------------------------------------------------- *)

Lemma le_itemset_same A B : is_map A -> is_map B -> itemset_same A B = true ->
  same_cores B A /\ la_sub B A.
Proof.
  intros HA HB H. unfold itemset_same in H. apply andb_true_iff in H. destruct H as [Hlen Hall].
  apply Nat.eqb_eq in Hlen.
  assert (Hitem : forall p d la, In (p, d, la) A ->
            exists la', lookup p d B = Some la' /\ ctx_eqb la la' = true).
  { intros p d la Hin. pose proof (proj1 (forallb_forall _ A) Hall (p, d, la) Hin) as Hi.
    cbv beta in Hi. change (it_p (p, d, la)) with p in Hi. change (it_d (p, d, la)) with d in Hi.
    change (it_la (p, d, la)) with la in Hi.
    destruct (lookup p d B) as [la'|]; [|discriminate Hi]. exists la'. split; [reflexivity|exact Hi]. }
  assert (HinclAB : incl (keys_of A) (keys_of B)).
  { intros [p d] Hk. apply has_core_keys in Hk. apply has_core_pd in Hk. destruct Hk as [la Hin].
    destruct (Hitem p d la Hin) as (la' & Hl & _). apply lookup_In in Hl.
    apply has_core_keys. exact (has_core_intro B p d la' Hl). }
  assert (HinclBA : incl (keys_of B) (keys_of A)).
  { apply NoDup_length_incl; [exact HA| |exact HinclAB].
    unfold keys_of. rewrite !map_length.
    apply Nat.eq_le_incl. symmetry. exact Hlen. }
  split.
  - intros k. split; intros Hk; apply has_core_keys; apply has_core_keys in Hk.
    + exact (HinclBA k Hk).
    + exact (HinclAB k Hk).
  - intros p d a Hla. apply has_la_pd in Hla. destruct Hla as (la & Hin & Ha).
    assert (HkA : In (p, d) (keys_of A)).
    { apply HinclBA. apply has_core_keys. exact (has_core_intro B p d la Hin). }
    apply has_core_keys in HkA. apply has_core_pd in HkA. destruct HkA as [la0 Hin0].
    destruct (Hitem p d la0 Hin0) as (la' & Hl & Hctx).
    rewrite (In_lookup p d B la HB Hin) in Hl. injection Hl as Hl. subst la'.
    unfold ctx_eqb in Hctx. apply andb_true_iff in Hctx. destruct Hctx as [_ Hsub].
    apply subsetN_incl in Hsub. exact (has_la_intro A p d la0 a Hin0 (Hsub a Ha)).
Qed.

Lemma le_find_same_spec cores ns : forall cnds c, find_same cores ns cnds = Done (Some c) ->
  exists kc, nth_error cores c = Some kc /\ itemset_same kc ns = true.
Proof.
  induction cnds as [|c0 cs IH]; intros c H.
  - cbn [find_same] in H. discriminate H.
  - cbn [find_same] in H. ostep H as kc Ekc.
    destruct (itemset_same kc ns) eqn:Es.
    + injection H as H. subst c0. exists kc. split; [exact (le_nth_checked _ _ _ Ekc)|exact Es].
    + exact (IH c H).
Qed.

Lemma le_find_weak_in cores ns : forall cnds k, find_weak cores ns cnds = Done (Some k) -> In k cnds.
Proof.
  induction cnds as [|c cs IH]; intros k H.
  - cbn [find_weak] in H. discriminate H.
  - cbn [find_weak] in H. ostep H as ck Eck. ostep H as b Eb. destruct b.
    + injection H as H. left. exact H.
    + right. exact (IH k H).
Qed.

(* a positive weakly_compatible followed by weakly_merge: the union, and an exact flag *)
Lemma le_merge_facts g ck ns mr :
  items_ok g ck = true -> items_ok g ns = true ->
  weakly_compatible_mirror (keys_of ck) ck ns = Done true ->
  weakly_merge_mirror ck ns = Done mr ->
  same_cores ck ns /\ is_union ck ns (fst mr) /\ (snd mr = false -> la_sub (fst mr) ck).
Proof.
  intros Hokck Hokns Hwc Hmr.
  pose proof (items_ok_is_map g ck Hokck) as Hmck.
  pose proof (items_ok_is_map g ns Hokns) as Hmns.
  assert (Hne : ck <> []).
  { intros Hnil. subst ck. unfold weakly_compatible_mirror in Hwc.
    destruct ns; simpl in Hwc; discriminate Hwc. }
  assert (Hperm : keys_perm ck (keys_of ck)).
  { split; [exact Hmck|]. intros k. split; intros Hk; exact Hk. }
  destruct (weakly_compatible_mirror_spec (keys_of ck) ck ns Hmck Hmns Hperm Hne) as (b & Hb & Hbs).
  rewrite Hwc in Hb. injection Hb as Hb.
  assert (Hspec : weakly_compatible_spec ck ns).
  { apply (proj1 Hbs). symmetry. exact Hb. }
  destruct (weakly_merge_is_union ck ns Hmck Hmns Hspec) as (m & ch & Hm & Hmm & Hu).
  rewrite Hmr in Hm. injection Hm as Hm. subst mr. cbn [fst snd].
  split; [exact (proj1 Hspec)|]. split; [exact Hu|].
  intros Hch. subst ch.
  destruct (weakly_merge_mirror_spec ck ns Hmck Hmns) as (m' & ch' & Hm' & _ & _ & _ & Hsame).
  { intros k Hk. apply (proj1 (proj1 Hspec k)). exact Hk. }
  rewrite Hmr in Hm'. injection Hm' as Hm1 Hm2. subst m' ch'.
  destruct (proj1 Hsame eq_refl) as [_ Hs1].
  intros p d a Hla. apply has_la_pd. apply (proj1 (Hs1 p d a)). apply has_la_pd. exact Hla.
Qed.

(* ---- the loop over cl_state.items.keys() finds every symbol after a dot ---------------------- *)

Lemma le_mem_key_in k l : mem_key k l = true -> In k l.
Proof.
  unfold mem_key. intros H. apply existsb_exists in H. destruct H as (k' & Hin & He).
  apply andb_true_iff in He. destruct He as [H1 H2].
  apply N.eqb_eq in H1. apply Nat.eqb_eq in H2.
  destruct k as [p d], k' as [p' d']. simpl in H1, H2. subst p' d'. exact Hin.
Qed.

Lemma le_eff_order_keys cl ko k : In k (eff_order cl ko) <-> In k (keys_of cl).
Proof.
  unfold eff_order. destruct ko as [l|]; [|split; intros H; exact H].
  rewrite in_app_iff, !filter_In. split.
  - intros [[_ H]|[H _]]; [apply has_key_keys; exact H|exact H].
  - intros H. destruct (mem_key k l) eqn:E.
    + left. split; [exact (le_mem_key_in k l E)|apply has_key_keys; exact H].
    + right. split; [exact H|reflexivity].
Qed.

Lemma le_gen_new_complete g cl : forall ko seen acc news,
  (forall X, In X seen -> In X (map fst acc)) ->
  gen_new g cl ko seen acc = Done news ->
  (forall X, In X (map fst acc) -> In X (map fst news)) /\
  (forall p d X, In (p, d) ko -> nth_error (rhs g p) d = Some X -> In X (map fst news)).
Proof.
  induction ko as [|[p0 d0] ko IH]; intros seen acc news Hseen H.
  - cbn [gen_new] in H. injection H as H. subst news. split.
    + intros X HX. rewrite map_rev. apply (proj1 (in_rev _ X)). exact HX.
    + intros p d X F. destruct F.
  - cbn [gen_new] in H. cbv zeta in H.
    destruct (negb (is_prodb g p0)); [discriminate H|].
    destruct (Nat.eqb d0 (length (rhs g p0))) eqn:Ed.
    { destruct (IH seen acc news Hseen H) as [IH1 IH2]. split; [exact IH1|].
      intros p d X [Heq|Hin] Hn; [|exact (IH2 p d X Hin Hn)].
      injection Heq as Hp Hd. subst p d. apply Nat.eqb_eq in Ed.
      assert (Hnone : nth_error (rhs g p0) d0 = None) by (apply nth_error_None; lia).
      rewrite Hnone in Hn. discriminate Hn. }
    destruct (nth_error (rhs g p0) d0) as [Y|] eqn:EY; [|discriminate H].
    destruct (negb (sym_in_range g Y)); [discriminate H|].
    destruct (existsb (sym_eqb Y) seen) eqn:Eseen.
    { destruct (IH seen acc news Hseen H) as [IH1 IH2]. split; [exact IH1|].
      intros p d X [Heq|Hin] Hn; [|exact (IH2 p d X Hin Hn)].
      injection Heq as Hp Hd. subst p d. rewrite EY in Hn. injection Hn as Hn. subst Y.
      apply IH1. apply Hseen. apply existsb_exists in Eseen. destruct Eseen as (Z & HZ & HXZ).
      apply sym_eqb_eq in HXZ. subst Z. exact HZ. }
    ostep H as G EG.
    assert (Hseen' : forall X, In X (Y :: seen) -> In X (map fst ((Y, G) :: acc))).
    { intros X [HX|HX]; [left; exact HX|right; exact (Hseen X HX)]. }
    destruct (IH (Y :: seen) ((Y, G) :: acc) news Hseen' H) as [IH1 IH2]. split.
    + intros X HX. apply IH1. right. exact HX.
    + intros p d X [Heq|Hin] Hn; [|exact (IH2 p d X Hin Hn)].
      injection Heq as Hp Hd. subst p d. rewrite EY in Hn. injection Hn as Hn. subst Y.
      apply IH1. left. reflexivity.
Qed.

Lemma le_gen_new_from g cl (P : sym -> Prop) : forall ko seen acc news,
  (forall p d X, In (p, d) ko -> nth_error (rhs g p) d = Some X -> P X) ->
  (forall X ns, In (X, ns) acc -> P X) ->
  gen_new g cl ko seen acc = Done news ->
  forall X ns, In (X, ns) news -> P X.
Proof.
  induction ko as [|[p0 d0] ko IH]; intros seen acc news Hko Hacc H X ns Hin.
  - cbn [gen_new] in H. injection H as H. subst news.
    apply (Hacc X ns). apply (proj2 (in_rev acc (X, ns))). exact Hin.
  - cbn [gen_new] in H. cbv zeta in H.
    assert (Hko' : forall p d X, In (p, d) ko -> nth_error (rhs g p) d = Some X -> P X).
    { intros p d X' Hi Hn. apply (Hko p d X'); [right; exact Hi|exact Hn]. }
    destruct (negb (is_prodb g p0)); [discriminate H|].
    destruct (Nat.eqb d0 (length (rhs g p0))); [exact (IH seen acc news Hko' Hacc H X ns Hin)|].
    destruct (nth_error (rhs g p0) d0) as [Y|] eqn:EY; [|discriminate H].
    destruct (negb (sym_in_range g Y)); [discriminate H|].
    destruct (existsb (sym_eqb Y) seen); [exact (IH seen acc news Hko' Hacc H X ns Hin)|].
    ostep H as G EG.
    apply (IH (Y :: seen) ((Y, G) :: acc) news Hko') with (ns := ns); [|exact H|exact Hin].
    intros X' ns' [Heq|Hin'].
    + injection Heq as HX HG. subst X' ns'. apply (Hko p0 d0 Y); [left; reflexivity|exact EY].
    + exact (Hacc X' ns' Hin').
Qed.

(* ---- candidates ------------------------------------------------------------------------------ *)

Definition cnd_pos (st : pst) : Prop :=
  forall l, In l (cnd_rule st) \/ In l (cnd_tok st) -> forall c, In c l -> 1 <= c.

Lemma le_cnd_of_in st X cnds : cnd_of st X = Done cnds -> In cnds (cnd_rule st) \/ In cnds (cnd_tok st).
Proof.
  destruct X as [t|r]; cbn [cnd_of]; intros H; apply le_nth_checked in H; apply nth_error_In in H.
  - right. exact H.
  - left. exact H.
Qed.

Lemma le_cnd_push_pos st X k : cnd_pos st -> 1 <= k -> cnd_pos (cnd_push st X k).
Proof.
  intros Hpos Hk.
  assert (Hnew : forall (L : list (list nat)) i, (forall l, In l L -> forall c, In c l -> 1 <= c) ->
            forall l, In l (set_nth i (nth i L [] ++ [k]) L) -> forall c, In c l -> 1 <= c).
  { intros L i HL l Hl c Hc. destruct (le_in_set_nth _ _ _ _ Hl) as [E|Hin].
    - subst l. apply in_app_iff in Hc. destruct Hc as [Hc|[Hc|[]]]; [|lia].
      destruct (nth_in_or_default i L []) as [Hn|Hn].
      + exact (HL _ Hn c Hc).
      + rewrite Hn in Hc. destruct Hc.
    - exact (HL l Hin c Hc). }
  destruct X as [t|r]; intros l [Hl|Hl] c Hc; cbn [cnd_push cnd_rule cnd_tok] in Hl.
  - apply (Hpos l); [left; exact Hl|exact Hc].
  - apply (Hnew (cnd_tok st) (N.to_nat t)) with (l := l); [|exact Hl|exact Hc].
    intros l0 Hl0. apply Hpos. right. exact Hl0.
  - apply (Hnew (cnd_rule st) (N.to_nat r)) with (l := l); [|exact Hl|exact Hc].
    intros l0 Hl0. apply Hpos. left. exact Hl0.
  - apply (Hpos l); [right; exact Hl|exact Hc].
Qed.

Lemma le_cnd_push_edges st X k : edges_st (cnd_push st X k) = edges_st st.
Proof. destruct X; reflexivity. Qed.

Lemma le_insert_edge_spec st i X t st' : insert_edge st i X t = Done st' ->
  exists es, nth_error (edges_st st) i = Some es /\
    st' = mkPst (closed_sts st) (core_sts st) (set_nth i (edge_insert X t es) (edges_st st))
                (cnd_rule st) (cnd_tok st) (todo st) (todo_off st).
Proof.
  unfold insert_edge. intros H. ostep H as es E. injection H as H. subst st'.
  exists es. split; [exact (le_nth_checked _ _ _ E)|reflexivity].
Qed.

(* ---- the state being processed ---------------------------------------------------------------

   [core0] is core_states[cur] at the start of the iteration (the kernel whose closure
   produced the successors being placed).  Its cores never change; its contexts can
   only grow, and then closed_states[cur] is reset. *)

Definition CurOK (cores : list itemset) (closed : list (option itemset)) (cur : nat)
  (core0 : itemset) : Prop :=
  exists ccur, nth_error cores cur = Some ccur /\ same_cores core0 ccur /\
    forall C, nth_error closed cur = Some (Some C) -> la_sub ccur core0.

Lemma le_CurOK_evolve cores closed cur core0 cores' closed' :
  CurOK cores closed cur core0 -> length cores' = length cores ->
  (forall s cs', nth_error cores' s = Some cs' ->
     exists cs, nth_error cores s = Some cs /\ same_cores cs cs' /\ la_sub cs cs' /\
       forall C, nth_error closed' s = Some (Some C) ->
         nth_error closed s = Some (Some C) /\ la_sub cs' cs) ->
  CurOK cores' closed' cur core0.
Proof.
  intros (ccur & Hccur & Hsc & Hcl) Hlen Hev.
  assert (Hlt : cur < length cores') by (rewrite Hlen; exact (le_nth_error_lt _ _ _ Hccur)).
  destruct (le_nth_error_ex cores' cur Hlt) as (ccur' & Hccur').
  destruct (Hev cur ccur' Hccur') as (cs & Hcs & Hsc' & _ & Hcl').
  rewrite Hccur in Hcs. injection Hcs as Hcs. subst cs.
  exists ccur'. split; [exact Hccur'|]. split.
  - exact (same_cores_trans _ _ _ Hsc Hsc').
  - intros C HC. destruct (Hcl' C HC) as [HC0 Hsub].
    exact (le_la_sub_trans _ _ _ Hsub (Hcl C HC0)).
Qed.

Lemma le_new_edge g core0 ccur X ns ct :
  is_goto g core0 X ns -> same_cores core0 ccur -> same_cores ns ct -> la_sub ns ct ->
  (forall p d', has_core ct (p, d') <-> gcore g ccur X p d') /\
  (la_sub ccur core0 -> forall p d' a, gla g ccur X p d' a -> has_la ct (p, d') a).
Proof.
  intros [Hg0 Hg1] Hsc Hsn Hln. split.
  - intros p d'. split.
    + intros Hc. apply (le_gcore_cores g core0 ccur X p d' Hsc).
      apply (proj1 (Hg0 p d')). exact (proj2 (Hsn (p, d')) Hc).
    + intros Hc. apply (proj1 (Hsn (p, d'))). apply (proj2 (Hg0 p d')).
      exact (le_gcore_cores g ccur core0 X p d' (same_cores_sym _ _ Hsc) Hc).
  - intros Hsub p d' a Hg. apply Hln. apply (proj2 (Hg1 p d' a)).
    exact (le_gla_mono g ccur core0 X p d' a (same_cores_sym _ _ Hsc) Hsub Hg).
Qed.

(* ---- the body of the loop over new_states ----------------------------------------------------- *)

Lemma le_place g max_st cur st X pend ns core0 st' :
  wf_grammar g = true -> Inv g st -> cnd_pos st ->
  EInv g (core_sts st) (closed_sts st) (edges_st st) (fun s Y => s = cur /\ In Y (X :: pend)) ->
  CurOK (core_sts st) (closed_sts st) cur core0 ->
  is_goto g core0 X ns -> pager_reachable g ns -> gnonempty g core0 X ->
  place max_st cur st X ns = Done st' ->
  cnd_pos st' /\
  EInv g (core_sts st') (closed_sts st') (edges_st st') (fun s Y => s = cur /\ In Y pend) /\
  CurOK (core_sts st') (closed_sts st') cur core0.
Proof.
  intros Hwf HI Hpos HE Hcur Hgoto Hnsr Hne H.
  pose proof (pager_reachable_items_ok g ns Hwf Hnsr) as Hnsok.
  assert (Hex : forall s Y, ~ (s = cur /\ In Y pend) ->
            (s = cur /\ Y = X) \/ ~ (s = cur /\ In Y (X :: pend))).
  { intros s Y Hn. destruct (Nat.eq_dec s cur) as [Es|Ns].
    - destruct (sym_eqb X Y) eqn:EXY.
      + apply sym_eqb_eq in EXY. left. split; [exact Es|symmetry; exact EXY].
      + apply le_sym_eqb_false in EXY. right. intros [_ [F|F]]; [exact (EXY F)|].
        apply Hn. split; [exact Es|exact F].
    - right. intros [F _]. exact (Ns F). }
  pose proof HI as (HIlen & HIr & HIc).
  pose proof Hcur as (ccur & Hccur & Hsc0 & Hcl0).
  unfold place in H.
  ostep H as cnds Ecnd.
  ostep H as same Esame.
  destruct same as [c|].
  - destruct (le_find_same_spec _ _ _ _ Esame) as (kc & Hkc & Hsame).
    destruct (le_insert_edge_spec _ _ _ _ _ H) as (es & Hes & Est'). subst st'.
    cbn [core_sts closed_sts edges_st].
    pose proof (items_ok_is_map g kc (pager_reachable_items_ok g kc Hwf (HIr c kc Hkc))) as Hmkc.
    destruct (le_itemset_same kc ns Hmkc (items_ok_is_map g ns Hnsok) Hsame) as [Hsc Hls].
    destruct (le_new_edge g core0 ccur X ns kc Hgoto Hsc0 Hsc Hls) as [HA HB].
    split; [exact Hpos|]. split; [|exact Hcur].
    apply (le_EInv_insert g _ _ _ _ _ cur es ccur X c kc HE Hes Hccur Hkc HA).
    + exact (le_gnonempty_cores g core0 ccur X Hsc0 Hne).
    + intros C HC. exact (HB (Hcl0 C HC)).
    + exact Hex.
  - ostep H as m Eweak. destruct m as [k|].
    + ostep H as st1 Eins.
      destruct (le_insert_edge_spec _ _ _ _ _ Eins) as (es & Hes & Est1). subst st1.
      cbn [core_sts closed_sts edges_st cnd_rule cnd_tok todo todo_off] in H.
      destruct (lp_find_weak_spec _ _ _ _ Eweak) as (ck & Hck & Hwc).
      assert (Eck : nth_checked (core_sts st) k = Done ck).
      { unfold nth_checked. rewrite Hck. reflexivity. }
      rewrite Eck in H. cbn [obind] in H.
      ostep H as mr Emr. cbv zeta in H.
      destruct (le_merge_facts g ck ns mr (pager_reachable_items_ok g ck Hwf (HIr k ck Hck)) Hnsok Hwc Emr)
        as (Hscn & Hu & Hunch).
      assert (Hk1 : 1 <= k).
      { exact (Hpos cnds (le_cnd_of_in st X cnds Ecnd) k (le_find_weak_in _ _ _ _ Eweak)). }
      assert (Hgen : forall closed' td, length closed' = length (closed_sts st) ->
                (forall s C, nth_error closed' s = Some (Some C) ->
                   nth_error (closed_sts st) s = Some (Some C) /\ (s = k -> snd mr = false)) ->
                cnd_pos (mkPst closed' (set_nth k (fst mr) (core_sts st))
                               (set_nth cur (edge_insert X k es) (edges_st st))
                               (cnd_rule st) (cnd_tok st) td (todo_off st)) /\
                EInv g (set_nth k (fst mr) (core_sts st)) closed'
                     (set_nth cur (edge_insert X k es) (edges_st st)) (fun s Y => s = cur /\ In Y pend) /\
                CurOK (set_nth k (fst mr) (core_sts st)) closed' cur core0).
      { intros closed' td Hlen' Hcl'.
        assert (Hev : forall s cs', nth_error (set_nth k (fst mr) (core_sts st)) s = Some cs' ->
                  exists cs, nth_error (core_sts st) s = Some cs /\ same_cores cs cs' /\ la_sub cs cs' /\
                    forall C, nth_error closed' s = Some (Some C) ->
                      nth_error (closed_sts st) s = Some (Some C) /\ la_sub cs' cs).
        { intros s cs' Hs. rewrite lp_nth_error_set_nth in Hs. destruct (Nat.eqb k s) eqn:E.
          - apply Nat.eqb_eq in E. subst s. rewrite Hck in Hs. injection Hs as Hs. subst cs'.
            exists ck. split; [exact Hck|]. split; [exact (proj1 Hu)|]. split.
            + intros p d a Hl. apply (proj2 (proj2 Hu (p, d) a)). left. exact Hl.
            + intros C HC. destruct (Hcl' k C HC) as [HC0 Hf]. split; [exact HC0|].
              exact (Hunch (Hf eq_refl)).
          - exists cs'. split; [exact Hs|]. split; [apply le_same_cores_refl|].
            split; [apply le_la_sub_refl|]. intros C HC.
            split; [exact (proj1 (Hcl' s C HC))|apply le_la_sub_refl]. }
        assert (Hs0' : nth_error (set_nth k (fst mr) (core_sts st)) 0 = Some (start_kernel g)).
        { rewrite lp_nth_error_set_nth. destruct (Nat.eqb k 0) eqn:E.
          - apply Nat.eqb_eq in E. lia.
          - exact (ei_s0 _ _ _ _ _ HE). }
        pose proof (le_EInv_evolve g _ _ _ _ _ closed' HE (lp_set_nth_length _ _ _) Hlen' Hs0' Hev) as HE'.
        pose proof (le_CurOK_evolve _ _ cur core0 _ closed' Hcur (lp_set_nth_length _ _ _) Hev) as Hcur'.
        split; [exact Hpos|]. split; [|exact Hcur'].
        destruct Hcur' as (ccur' & Hccur' & Hsc' & Hcl0').
        assert (Htgt : nth_error (set_nth k (fst mr) (core_sts st)) k = Some (fst mr)).
        { rewrite lp_nth_error_set_nth, Nat.eqb_refl, Hck. reflexivity. }
        assert (Hsnm : same_cores ns (fst mr)).
        { exact (same_cores_trans _ _ _ (same_cores_sym _ _ Hscn) (proj1 Hu)). }
        assert (Hlnm : la_sub ns (fst mr)).
        { intros p d a Hl. apply (proj2 (proj2 Hu (p, d) a)). right. exact Hl. }
        destruct (le_new_edge g core0 ccur' X ns (fst mr) Hgoto Hsc' Hsnm Hlnm) as [HA HB].
        apply (le_EInv_insert g _ _ _ _ _ cur es ccur' X k (fst mr) HE' Hes Hccur' Htgt HA).
        - exact (le_gnonempty_cores g core0 ccur' X Hsc' Hne).
        - intros C HC. exact (HB (Hcl0' C HC)).
        - exact Hex. }
      destruct (snd mr) eqn:Esnd.
      * ostep H as cl Ecl. apply le_nth_checked in Ecl.
        destruct cl as [c0|]; injection H as H; subst st'; cbn [core_sts closed_sts edges_st];
          apply Hgen.
        -- apply lp_set_nth_length.
        -- intros s C HC. rewrite lp_nth_error_set_nth in HC. destruct (Nat.eqb k s) eqn:E.
           ++ destruct (nth_error (closed_sts st) s); discriminate HC.
           ++ split; [exact HC|]. intros F. subst s. rewrite Nat.eqb_refl in E. discriminate E.
        -- reflexivity.
        -- intros s C HC. split; [exact HC|]. intros F. subst s. rewrite Ecl in HC. discriminate HC.
      * injection H as H. subst st'. cbn [core_sts closed_sts edges_st]. apply Hgen.
        -- reflexivity.
        -- intros s C HC. split; [exact HC|]. intros _. reflexivity.
    + destruct (max_st <=? N.of_nat (length (core_sts st)))%N; [discriminate H|].
      cbn [obind] in H. cbv zeta in H.
      ostep H as st2 Eins.
      destruct (le_insert_edge_spec _ _ _ _ _ Eins) as (es & Hes & Est2). subst st2.
      destruct (lp_cnd_push_same st X (length (core_sts st))) as [E3 E4].
      rewrite le_cnd_push_edges in Hes.
      injection H as H. subst st'. cbn [core_sts closed_sts edges_st].
      rewrite E3, E4, le_cnd_push_edges.
      assert (Hn1 : 1 <= length (core_sts st)).
      { exact (le_nth_error_lt _ _ _ (ei_s0 _ _ _ _ _ HE)). }
      assert (Hcurlt : cur < length (core_sts st)) by exact (le_nth_error_lt _ _ _ Hccur).
      rewrite (le_set_nth_app _ [[]] _ cur (le_nth_error_lt _ _ _ Hes)).
      split; [exact (le_cnd_push_pos st X _ Hpos Hn1)|].
      pose proof (le_EInv_app g _ _ _ _ ns HE) as HE'.
      assert (Hcl_old : forall C, nth_error (closed_sts st ++ [None]) cur = Some (Some C) ->
                nth_error (closed_sts st) cur = Some (Some C)).
      { intros C HC. rewrite nth_error_app1 in HC by lia. exact HC. }
      assert (Hccur' : nth_error (core_sts st ++ [ns]) cur = Some ccur).
      { rewrite nth_error_app1 by exact Hcurlt. exact Hccur. }
      split.
      * assert (Hes' : nth_error (edges_st st ++ [[]]) cur = Some es).
        { rewrite nth_error_app1 by exact (le_nth_error_lt _ _ _ Hes). exact Hes. }
        assert (Htgt : nth_error (core_sts st ++ [ns]) (length (core_sts st)) = Some ns).
        { rewrite nth_error_app2 by lia. rewrite Nat.sub_diag. reflexivity. }
        destruct (le_new_edge g core0 ccur X ns ns Hgoto Hsc0 (le_same_cores_refl ns) (le_la_sub_refl ns))
          as [HA HB].
        apply (le_EInv_insert g _ _ _ _ _ cur es ccur X _ ns HE' Hes' Hccur' Htgt HA).
        -- exact (le_gnonempty_cores g core0 ccur X Hsc0 Hne).
        -- intros C HC. exact (HB (Hcl0 C (Hcl_old C HC))).
        -- exact Hex.
      * exists ccur. split; [exact Hccur'|]. split; [exact Hsc0|].
        intros C HC. exact (Hcl0 C (Hcl_old C HC)).
Qed.

Lemma le_place_all g max_st cur core0 : wf_grammar g = true ->
  forall news st st', Inv g st -> cnd_pos st ->
  EInv g (core_sts st) (closed_sts st) (edges_st st) (fun s Y => s = cur /\ In Y (map fst news)) ->
  CurOK (core_sts st) (closed_sts st) cur core0 ->
  (forall X ns, In (X, ns) news ->
     is_goto g core0 X ns /\ pager_reachable g ns /\ gnonempty g core0 X) ->
  place_all max_st cur st news = Done st' ->
  Inv g st' /\ cnd_pos st' /\
  EInv g (core_sts st') (closed_sts st') (edges_st st') (fun _ _ => False).
Proof.
  intros Hwf. induction news as [|[X ns] news IH]; intros st st' HI Hpos HE Hcur Hnews H.
  - cbn [place_all] in H. injection H as H. subst st'.
    split; [exact HI|]. split; [exact Hpos|].
    apply (le_EInv_ex g _ _ _ (fun s Y => s = cur /\ In Y (map fst (@nil (sym * itemset))))); [|exact HE].
    intros s Y _ [_ F]. exact F.
  - cbn [place_all] in H. ostep H as st1 E1.
    destruct (Hnews X ns (or_introl eq_refl)) as (Hg & Hr & Hne).
    cbn [map fst] in HE.
    destruct (le_place g max_st cur st X (map fst news) ns core0 st1 Hwf HI Hpos HE Hcur Hg Hr Hne E1)
      as (Hpos1 & HE1 & Hcur1).
    pose proof (lp_place_inv g max_st cur st X ns st1 Hwf HI Hr E1) as HI1.
    apply (IH st1 st' HI1 Hpos1 HE1 Hcur1); [|exact H].
    intros X' ns' Hin. apply (Hnews X' ns'). right. exact Hin.
Qed.

Definition Big (g : grammar) (st : pst) : Prop :=
  Inv g st /\ cnd_pos st /\
  EInv g (core_sts st) (closed_sts st) (edges_st st) (fun _ _ => False).

Lemma le_init_big g : Big g (init_pst g).
Proof.
  split; [exact (lp_init_inv g)|]. split.
  - intros l Hl c Hc. unfold init_pst in Hl. cbn [cnd_rule cnd_tok] in Hl.
    destruct Hl as [Hl|Hl]; apply repeat_spec in Hl; subst l; destruct Hc.
  - unfold init_pst. cbn [core_sts closed_sts edges_st]. constructor.
    + reflexivity.
    + reflexivity.
    + reflexivity.
    + intros s cs es X t _ Hes Ha. destruct s as [|s]; simpl in Hes.
      * injection Hes as Hes. subst es. discriminate Ha.
      * destruct s; discriminate Hes.
    + intros s cs C es X t ct _ HC. destruct s as [|s]; simpl in HC.
      * discriminate HC.
      * destruct s; discriminate HC.
    + intros s cs C es X _ HC. destruct s as [|s]; simpl in HC.
      * discriminate HC.
      * destruct s; discriminate HC.
Qed.

Lemma le_iteration_big g nl fs max_st ko st st' : loop_pre g nl fs -> Big g st ->
  iteration g nl fs max_st ko st = Done st' -> Big g st'.
Proof.
  intros Hpre (HI & Hpos & HE) H. pose proof Hpre as (Hwf & _ & _). unfold iteration in H.
  ostep H as state_i Enext.
  destruct (Nat.eqb (todo st) 0); [discriminate H|].
  ostep H as core_i Ecore.
  ostep H as cl Ecl.
  cbv zeta in H.
  ostep H as news Enews.
  apply le_nth_checked in Ecore.
  pose proof HI as (Hlen & Hr & Hc).
  pose proof (Hr state_i core_i Ecore) as Hreach.
  pose proof (pager_reachable_items_ok g core_i Hwf Hreach) as Hok.
  destruct (lp_close_specific g nl fs core_i cl _ Hpre Hok Ecl) as [Hclok Hclrepr].
  pose proof Hclrepr as (_ & Hcl0 & _).
  assert (Hkeys : forall p d, In (p, d) (eff_order cl ko) <-> lr0_closure_rel g core_i p d).
  { intros p d. split; intros Hk.
    - apply (proj1 (Hcl0 p d)). apply has_core_keys. apply le_eff_order_keys in Hk. exact Hk.
    - apply le_eff_order_keys. apply has_core_keys. apply (proj2 (Hcl0 p d)). exact Hk. }
  refine (le_place_all g max_st state_i core_i Hwf news _ st' _ _ _ _ _ H).
  - unfold Inv. cbn [core_sts closed_sts]. apply lp_Inv2_set_closed; [exact HI|].
    intros core C HC Hcore. injection HC as HC. subst C.
    rewrite Ecore in Hcore. injection Hcore as Hcore. subst core. exact Hclrepr.
  - exact Hpos.
  - cbn [core_sts closed_sts edges_st].
    apply (le_EInv_close g _ _ _ state_i core_i cl (map fst news) HE Ecore).
    intros X (p & d' & d & Hd & H0 & Hn).
    assert (Hnil : forall X0 : sym, In X0 (@nil sym) -> In X0 (map fst (@nil (sym * itemset)))).
    { intros X0 F. destruct F. }
    destruct (le_gen_new_complete g cl _ [] [] news Hnil Enews) as [_ Hall].
    exact (Hall p d X (proj2 (Hkeys p d) H0) Hn).
  - cbn [core_sts closed_sts]. exists core_i. split; [exact Ecore|].
    split; [apply le_same_cores_refl|]. intros C _. apply le_la_sub_refl.
  - intros X ns Hin.
    assert (Hnil : forall X0 ns0, In (X0, ns0) (@nil (sym * itemset)) ->
                     is_goto g core_i X0 ns0 /\ items_ok g ns0 = true).
    { intros X0 ns0 F. destruct F. }
    destruct (lp_gen_new_spec g core_i cl Hclrepr Hclok _ [] [] news Hnil Enews X ns Hin)
      as [Hg Hnsok].
    split; [exact Hg|]. split; [exact (pr_goto g core_i X ns Hreach Hg Hnsok)|].
    apply (le_gen_new_from g cl (fun X => gnonempty g core_i X) (eff_order cl ko) [] [] news)
      with (ns := ns); [| |exact Enews|exact Hin].
    + intros p d X0 Hk Hn. exists p, (S d), d. split; [reflexivity|].
      split; [exact (proj1 (Hkeys p d) Hk)|exact Hn].
    + intros X0 ns0 F. destruct F.
Qed.

Lemma le_main_loop_big g nl fs max_st : loop_pre g nl fs ->
  forall fuel orders st st', Big g st ->
  main_loop g nl fs max_st fuel orders st = Done st' -> Big g st'.
Proof.
  intros Hpre. induction fuel as [|f IH]; intros orders st st' HB H.
  - cbn [main_loop] in H. discriminate H.
  - cbn [main_loop] in H. destruct (Nat.eqb (todo st) 0).
    + injection H as H. subst st'. exact HB.
    + destruct orders as [|ko orders'].
      * ostep H as st1 E1.
        exact (IH [] st1 st' (le_iteration_big g nl fs max_st None st st1 Hpre HB E1) H).
      * ostep H as st1 E1.
        exact (IH orders' st1 st' (le_iteration_big g nl fs max_st (Some ko) st st1 Hpre HB E1) H).
Qed.

(* ---- the graph handed to gc, and gc ------------------------------------------------------------ *)

Record GraphOK (g : grammar) (states : list (itemset * itemset)) (edges : list (list (sym * nat)))
  : Prop := mkGraphOK {
  go_len : length edges = length states;
  go_s0 : exists c0, nth_error states 0 = Some (start_kernel g, c0);
  go_e : forall s core closed es X t,
    nth_error states s = Some (core, closed) -> nth_error edges s = Some es ->
    assoc_sym X es = Some t ->
    exists ct clt, nth_error states t = Some (ct, clt) /\
      (forall p d', has_core ct (p, d') <-> gcore g core X p d') /\ gnonempty g core X /\
      (forall p d' a, gla g core X p d' a -> has_la ct (p, d') a);
  go_c : forall s core closed es X,
    nth_error states s = Some (core, closed) -> nth_error edges s = Some es ->
    gnonempty g core X -> exists t, assoc_sym X es = Some t
}.

Lemma le_big_graph g st cl : Big g st -> closed_sts st = map Some cl ->
  GraphOK g (combine (core_sts st) cl) (edges_st st).
Proof.
  intros (_ & _ & [H1 H2 H3 H4 H5 H6]) Hcl.
  assert (Hlcl : length cl = length (core_sts st)).
  { rewrite <- H1, Hcl, map_length. reflexivity. }
  assert (Hclosed : forall s C, nth_error cl s = Some C -> nth_error (closed_sts st) s = Some (Some C)).
  { intros s C HC. rewrite Hcl. apply map_nth_error. exact HC. }
  constructor.
  - rewrite combine_length. lia.
  - assert (Hlt : 0 < length cl) by (rewrite Hlcl; exact (le_nth_error_lt _ _ _ H3)).
    destruct (le_nth_error_ex cl 0 Hlt) as (c0 & Hc0). exists c0.
    apply le_nth_error_combine. split; [exact H3|exact Hc0].
  - intros s core closed es X t Hs Hes Ha.
    apply le_nth_error_combine in Hs. destruct Hs as [Hs HC].
    destruct (H4 s core es X t Hs Hes Ha) as (ct & Hct & Hcores & Hne).
    assert (Hlt : t < length cl) by (rewrite Hlcl; exact (le_nth_error_lt _ _ _ Hct)).
    destruct (le_nth_error_ex cl t Hlt) as (clt & Hclt).
    exists ct, clt. split; [apply le_nth_error_combine; split; assumption|].
    split; [exact Hcores|]. split; [exact Hne|].
    apply (H5 s core closed es X t ct Hs (Hclosed s closed HC) Hes Ha); [|exact Hct].
    intros F. exact F.
  - intros s core closed es X Hs Hes Hne.
    apply le_nth_error_combine in Hs. destruct Hs as [Hs HC].
    apply (H6 s core closed es X Hs (Hclosed s closed HC) Hes Hne). intros F. exact F.
Qed.

Lemma le_memn_in x l : memn x l = true <-> In x l.
Proof.
  unfold memn. rewrite existsb_exists. split.
  - intros (y & Hy & E). apply Nat.eqb_eq in E. subst y. exact Hy.
  - intros H. exists x. split; [exact H|apply Nat.eqb_refl].
Qed.

Lemma le_fold_left_in {A B : Type} (f : list A -> B -> list A) (x : A) :
  (forall acc b, In x acc -> In x (f acc b)) ->
  forall l acc, In x acc -> In x (fold_left f l acc).
Proof.
  intros Hf. induction l as [|b l IH]; intros acc H; cbn [fold_left].
  - exact H.
  - apply IH. apply Hf. exact H.
Qed.

Lemma le_reach_step_in edges x seen : In x seen -> In x (reach_step edges seen).
Proof.
  intros H. unfold reach_step. apply le_fold_left_in; [|exact H].
  intros acc s Hacc. apply le_fold_left_in; [|exact Hacc].
  intros acc2 e Hacc2. destruct (memn (snd e) acc2); [exact Hacc2|].
  apply in_or_app. left. exact Hacc2.
Qed.

Lemma le_iter_in {A : Type} (f : list A -> list A) (x : A) :
  (forall l, In x l -> In x (f l)) -> forall n l, In x l -> In x (iter n f l).
Proof.
  intros Hf. induction n as [|n IH]; intros l H; cbn [iter].
  - exact H.
  - apply IH. apply Hf. exact H.
Qed.

Lemma le_reachable_start edges : memn 0 (reachable edges 0) = true.
Proof.
  apply le_memn_in. unfold reachable. apply le_iter_in.
  - intros l. apply le_reach_step_in.
  - left. reflexivity.
Qed.

(* offsets[i] = the number of kept indices before i *)
Fixpoint offs2 (seen : list nat) (n i pos : nat) : list nat :=
  match n with
  | O => []
  | S n' => pos :: offs2 seen n' (S i) (if memn i seen then S pos else pos)
  end.

Lemma le_offsets_offs2 seen : forall n i off, off <= i ->
  offsets seen n i off = offs2 seen n i (i - off).
Proof.
  induction n as [|n IH]; intros i off Hle; cbn [offsets offs2].
  - reflexivity.
  - f_equal. destruct (memn i seen).
    + rewrite (IH (S i) off) by lia. f_equal. lia.
    + rewrite (IH (S i) (S off)) by lia. f_equal.
Qed.

Lemma le_keep_offs {A : Type} (seen : list nat) : forall (l : list A) i pos pre t,
  length pre = pos -> t < length l -> memn (i + t) seen = true ->
  nth_error (pre ++ keep seen i l) (nth t (offs2 seen (length l) i pos) 0) = nth_error l t.
Proof.
  induction l as [|x l IH]; intros i pos pre t Hpre Ht Hm.
  - simpl in Ht. lia.
  - destruct t as [|t].
    + cbn [length offs2 nth keep nth_error]. rewrite Nat.add_0_r in Hm. rewrite Hm.
      rewrite nth_error_app2 by lia. replace (pos - length pre) with 0 by lia. reflexivity.
    + cbn [length offs2 nth keep nth_error]. simpl in Ht.
      replace (i + S t) with (S i + t) in Hm by lia.
      destruct (memn i seen) eqn:E.
      * change (x :: keep seen (S i) l) with ([x] ++ keep seen (S i) l). rewrite app_assoc.
        apply IH; [|lia|exact Hm]. rewrite app_length. simpl. lia.
      * apply IH; [exact Hpre|lia|exact Hm].
Qed.

Lemma le_keep_inv {A : Type} (seen : list nat) : forall (l : list A) i pos pre j y,
  length pre = pos -> pos <= j -> nth_error (pre ++ keep seen i l) j = Some y ->
  exists s, s < length l /\ memn (i + s) seen = true /\ nth_error l s = Some y /\
            nth s (offs2 seen (length l) i pos) 0 = j.
Proof.
  induction l as [|x l IH]; intros i pos pre j y Hpre Hj H.
  - cbn [keep] in H. rewrite app_nil_r in H.
    assert (Hnone : nth_error pre j = None) by (apply nth_error_None; lia).
    rewrite Hnone in H. discriminate H.
  - cbn [keep] in H. destruct (memn i seen) eqn:E.
    + destruct (Nat.eq_dec j pos) as [Ej|Nj].
      * subst j. rewrite nth_error_app2 in H by lia.
        replace (pos - length pre) with 0 in H by lia. simpl in H. injection H as H. subst y.
        exists 0. split; [simpl; lia|]. split; [rewrite Nat.add_0_r; exact E|].
        split; reflexivity.
      * change (x :: keep seen (S i) l) with ([x] ++ keep seen (S i) l) in H.
        rewrite app_assoc in H.
        destruct (IH (S i) (S pos) (pre ++ [x]) j y) as (s & Hs & Hm & Hn & Ho).
        { rewrite app_length. simpl. lia. }
        { lia. }
        { exact H. }
        exists (S s). split; [simpl; lia|].
        split; [replace (i + S s) with (S i + s) by lia; exact Hm|].
        split; [exact Hn|]. cbn [length offs2 nth]. rewrite E. exact Ho.
    + destruct (IH (S i) pos pre j y Hpre Hj H) as (s & Hs & Hm & Hn & Ho).
      exists (S s). split; [simpl; lia|].
      split; [replace (i + S s) with (S i + s) by lia; exact Hm|].
      split; [exact Hn|]. cbn [length offs2 nth]. rewrite E. exact Ho.
Qed.

Lemma le_keep_combine {A B : Type} (seen : list nat) : forall (l1 : list A) (l2 : list B) i,
  keep seen i (combine l1 l2) = combine (keep seen i l1) (keep seen i l2).
Proof.
  induction l1 as [|x l1 IH]; intros [|y l2] i; cbn [combine keep].
  - reflexivity.
  - reflexivity.
  - destruct (memn i seen); [|destruct (keep seen (S i) l1); reflexivity].
    reflexivity.
  - destruct (memn i seen); cbn [combine]; rewrite IH; reflexivity.
Qed.

Lemma le_keep_length {A B : Type} (seen : list nat) : forall (l1 : list A) (l2 : list B) i,
  length l1 = length l2 -> length (keep seen i l1) = length (keep seen i l2).
Proof.
  induction l1 as [|x l1 IH]; intros [|y l2] i H; simpl in H; try discriminate H.
  - reflexivity.
  - cbn [keep]. destruct (memn i seen); cbn [length]; rewrite (IH l2 (S i)) by lia; reflexivity.
Qed.

Lemma le_gc_graph g states edges pg : GraphOK g states edges ->
  gc_model states edges = Done pg -> GraphOK g (pg_states pg) (pg_edges pg).
Proof.
  intros HG H. unfold gc_model in H.
  set (seen := reachable edges 0) in H.
  destruct (negb (forallb (fun s => forallb (fun e => memn (snd e) seen) (nth s edges [])) seen))
    eqn:Eclosed; [discriminate H|].
  destruct (Nat.eqb (length states) (length seen)).
  { injection H as H. subst pg. exact HG. }
  cbv zeta in H.
  match type of H with (if ?c then _ else _) = _ => destruct c end; [|discriminate H].
  injection H as H. subst pg. cbn [pg_states pg_edges].
  destruct HG as [G1 G2 G3 G4].
  apply negb_false_iff in Eclosed.
  rewrite (le_offsets_offs2 seen (length states) 0 0 (le_n 0)). cbn [Nat.sub].
  set (offs := offs2 seen (length states) 0 0).
  assert (F1 : forall t x, memn t seen = true -> nth_error states t = Some x ->
            nth_error (keep seen 0 states) (nth t offs 0) = Some x).
  { intros t x Hm Hx. rewrite <- Hx.
    exact (le_keep_offs seen states 0 0 [] t eq_refl (le_nth_error_lt _ _ _ Hx) Hm). }
  assert (F2 : forall j a es', nth_error (keep seen 0 states) j = Some a ->
            nth_error (keep seen 0 edges) j = Some es' ->
            exists s, memn s seen = true /\ nth_error states s = Some a /\
                      nth_error edges s = Some es' /\ nth s offs 0 = j).
  { intros j a es' Ha He.
    assert (Hc : nth_error (keep seen 0 (combine states edges)) j = Some (a, es')).
    { rewrite le_keep_combine. apply le_nth_error_combine. split; assumption. }
    destruct (le_keep_inv seen (combine states edges) 0 0 [] j (a, es') eq_refl (Nat.le_0_l j) Hc)
      as (s & _ & Hm & Hn & Ho).
    apply le_nth_error_combine in Hn. destruct Hn as [Hn1 Hn2].
    exists s. split; [exact Hm|]. split; [exact Hn1|]. split; [exact Hn2|].
    rewrite combine_length, G1, Nat.min_id in Ho. exact Ho. }
  assert (F3 : forall s es X t, memn s seen = true -> nth_error edges s = Some es ->
            assoc_sym X es = Some t -> memn t seen = true).
  { intros s es X t Hm Hes Ha.
    pose proof (proj1 (forallb_forall _ seen) Eclosed s (proj1 (le_memn_in s seen) Hm)) as Hs.
    cbv beta in Hs. rewrite (nth_error_nth edges s [] Hes) in Hs.
    exact (proj1 (forallb_forall _ es) Hs (X, t) (le_assoc_in X t es Ha)). }
  assert (Fedge : forall j es', nth_error
            (map (fun l => map (fun e => (fst e, nth (snd e) offs 0)) l) (keep seen 0 edges)) j = Some es' ->
            exists es0, nth_error (keep seen 0 edges) j = Some es0 /\
              forall X, assoc_sym X es' = option_map (fun t => nth t offs 0) (assoc_sym X es0)).
  { intros j es' Hj. rewrite nth_error_map in Hj.
    destruct (nth_error (keep seen 0 edges) j) as [es0|]; [|discriminate Hj].
    cbn [option_map] in Hj. injection Hj as Hj. subst es'.
    exists es0. split; [reflexivity|]. intros X. exact (le_assoc_map (fun t => nth t offs 0) X es0). }
  constructor.
  - rewrite map_length. apply le_keep_length. exact G1.
  - destruct G2 as (c0 & Hc0). exists c0.
    pose proof (F1 0 _ (le_reachable_start edges) Hc0) as Hk.
    assert (Ho : nth 0 offs 0 = 0).
    { unfold offs. destruct states as [|x states]; [discriminate Hc0|reflexivity]. }
    rewrite Ho in Hk. exact Hk.
  - intros j core closed es' X t' Hj Hes' Ha.
    destruct (Fedge j es' Hes') as (es0 & Hes0 & Hassoc).
    destruct (F2 j (core, closed) es0 Hj Hes0) as (s & Hm & Hs & Hes & Ho).
    rewrite Hassoc in Ha. destruct (assoc_sym X es0) as [t|] eqn:Et; [|discriminate Ha].
    cbn [option_map] in Ha. injection Ha as Ha. subst t'.
    destruct (G3 s core closed es0 X t Hs Hes Et) as (ct & clt & Ht & Hrest).
    exists ct, clt. split; [|exact Hrest].
    exact (F1 t (ct, clt) (F3 s es0 X t Hm Hes Et) Ht).
  - intros j core closed es' X Hj Hes' Hne.
    destruct (Fedge j es' Hes') as (es0 & Hes0 & Hassoc).
    destruct (F2 j (core, closed) es0 Hj Hes0) as (s & Hm & Hs & Hes & Ho).
    destruct (G4 s core closed es0 X Hs Hes Hne) as (t & Ht).
    exists (nth t offs 0). rewrite Hassoc, Ht. reflexivity.
Qed.

(* ---- the statements ------------------------------------------------------------------------------ *)

Lemma le_graph_ok g nl fs max_st fuel orders pg : loop_pre g nl fs ->
  pager_mirror g nl fs max_st fuel orders = Done pg -> GraphOK g (pg_states pg) (pg_edges pg).
Proof.
  intros Hpre H. unfold pager_mirror in H.
  ostep H as st Eml. ostep H as cl Ecl. ostep H as pg' Egc.
  destruct (max_st <? N.of_nat (length (pg_states pg')))%N; [discriminate H|].
  destruct (max_st <=? N.of_nat (length (pg_states pg')))%N; [discriminate H|].
  injection H as H. subst pg'.
  pose proof (le_main_loop_big g nl fs max_st Hpre fuel orders (init_pst g) st (le_init_big g) Eml) as HB.
  exact (le_gc_graph g _ _ pg (le_big_graph g st cl HB (lp_unwrap_all _ _ Ecl)) Egc).
Qed.

Lemma le_sub_kernel g core X G ct : is_goto g core X G ->
  (forall p d', has_core ct (p, d') <-> gcore g core X p d') ->
  (forall p d' a, gla g core X p d' a -> has_la ct (p, d') a) ->
  sub_kernel G ct.
Proof.
  intros [Hg0 Hg1] Hc Hl. split.
  - intros [p d']. split; intros H.
    + apply (proj2 (Hc p d')). exact (proj1 (Hg0 p d') H).
    + apply (proj2 (Hg0 p d')). exact (proj1 (Hc p d') H).
  - intros [p d'] a H. apply Hl. exact (proj1 (Hg1 p d' a) H).
Qed.

Lemma pager_mirror_edges_complete : pager_mirror_edges_complete_stmt.
Proof.
  intros g nl fs max_st fuel orders pg Hpre H.
  destruct (le_graph_ok g nl fs max_st fuel orders pg Hpre H) as [G1 G2 G3 G4].
  split; [exact G1|]. split; [exact G2|].
  intros s core closed es X G Hs Hes Hgoto [[p d'] Hk].
  assert (Hne : gnonempty g core X).
  { exists p, d'. exact (proj1 (proj1 Hgoto p d') Hk). }
  destruct (G4 s core closed es X Hs Hes Hne) as (t & Ht).
  destruct (G3 s core closed es X t Hs Hes Ht) as (ct & clt & Hct & Hcores & _ & Hlas).
  exists t, ct, clt. split; [exact Ht|]. split; [exact Hct|].
  exact (le_sub_kernel g core X G ct Hgoto Hcores Hlas).
Qed.

Lemma pager_mirror_edges_sound : pager_mirror_edges_sound_stmt.
Proof.
  intros g nl fs max_st fuel orders pg Hpre H s core closed es X t Hs Hes Ht.
  destruct (le_graph_ok g nl fs max_st fuel orders pg Hpre H) as [G1 G2 G3 G4].
  destruct (G3 s core closed es X t Hs Hes Ht) as (ct & clt & Hct & Hcores & Hne & Hlas).
  pose proof Hpre as (Hwf & _ & _).
  destruct (pager_mirror_reachable g nl fs max_st fuel orders pg Hpre H core closed
              (nth_error_In _ _ Hs)) as [Hreach _].
  destruct (goto_exists g core Hwf (pager_reachable_items_ok g core Hwf Hreach) X) as (G & Hgoto & _).
  exists G, ct, clt. split; [exact Hgoto|]. split.
  - destruct Hne as (p & d' & Hgc). exists (p, d'). exact (proj2 (proj1 Hgoto p d') Hgc).
  - split; [exact Hct|]. exact (le_sub_kernel g core X G ct Hgoto Hcores Hlas).
Qed.
