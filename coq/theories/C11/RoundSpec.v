(* C11 round trip — which abstract specifications and layouts are printable
   (boolean conditions: they are evaluated by the extracted driver on every
   generated case), and the statements proved in Round*.v.

   [wf_aspec awc sp]     conditions on the abstract specification alone:
     - start-state names match the scanner's language ^[a-zA-Z][a-zA-Z0-9_.]*$,
       are pairwise different and different from INITIAL;
     - a rule refers (in its <..> prefix and in its target) to INITIAL or to
       declared states only;
     - a rule name is not empty and contains neither a horizontal blank (the
       line is split at the LAST one) nor a line separator; rule names are
       pairwise different (a repeated name is an error of the format);
     - the written regular expression is printable ([re_printable]): no line
       separator; no unescaped trailing blank (space or tab: any other character,
       a form feed or a NEL included, may end it) and no dangling final backslash
       ([re_trim_ok]); and, for a rule without <..> prefix: not empty, does not
       begin with white space (such a line is "verbatim code"), with `<` (a
       prefix), with `%%` (the end of the section), nor — when whole-line
       comments are allowed — with `//`.
   [wf_layout awc lay sp]  the layout fits the specification: blanks are blanks
     of the right kind, comments only when [awc], line separators are line
     separators, the declaration lines partition the declared states into
     groups of one kind, one rule-line layout per rule, a rule line is followed
     by a line separator unless the text ends there. *)
From Coq Require Import List Arith NArith Bool Lia.
From GV Require Import Common.Outcome C11.Model C11.Spec C11.Print.
Import ListNotations.

(* ---- character classes ------------------------------------------------------ *)
(* white space that does not end a line:  \t \f space U+0085 U+200E U+200F *)
Definition is_iws (c : N) : bool := is_ws c && negb (is_line_sep c).
Definition no_nl (t : text) : bool := forallb (fun c => negb (is_line_sep c)) t.
Definition is_nil {A} (l : list A) : bool := match l with [] => true | _ => false end.

Definition mem_text (n : text) (l : list text) : bool := existsb (text_eqb n) l.
Fixpoint nodup_b (l : list text) : bool :=
  match l with [] => true | n :: l' => negb (mem_text n l') && nodup_b l' end.

(* ---- abstract specifications --------------------------------------------------- *)
(* neither an unescaped blank nor a lone backslash at the end: when the text ends in a space, a
   tab or a backslash, an odd number of backslashes precedes that last character *)
Definition re_trim_ok (w : text) : bool :=
  match rev w with
  | [] => true
  | c :: r => if is_space_sep c || (c =? c_bsl)%N then Nat.odd (length (take_while (N.eqb c_bsl) r)) else true
  end.

Definition re_start_ok (awc : bool) (w : text) : bool :=
  match w with [] => false | c :: _ => negb (is_ws c) && negb (c =? c_lt)%N end
  && negb (starts_with [c_percent; c_percent] w)
  && negb (awc && starts_with [c_slash; c_slash] w).

Definition re_printable (awc has_pre : bool) (w : text) : bool :=
  no_nl w && re_trim_ok w && (has_pre || re_start_ok awc w).

Definition rule_name_ok (n : text) : bool :=
  negb (is_nil n) && forallb (fun c => negb (is_space_sep c) && negb (is_line_sep c)) n.

Definition wf_arule (awc : bool) (names : list text) (r : arule) : bool :=
  forallb (fun n => mem_text n names) (a_pre r)
  && match a_target r with Some (s, _) => mem_text s names | None => true end
  && match a_name r with Some n => rule_name_ok n | None => true end
  && re_printable awc (negb (is_nil (a_pre r))) (a_re r).

Fixpoint rule_names (rs : list arule) : list text :=
  match rs with
  | [] => []
  | r :: rs' => match a_name r with Some n => n :: rule_names rs' | None => rule_names rs' end
  end.

Definition wf_aspec (awc : bool) (sp : aspec) : bool :=
  forallb (fun s => is_start_state_name (fst s)) (a_states sp)
  && nodup_b (state_names sp)
  && forallb (wf_arule awc (state_names sp)) (a_rules sp)
  && nodup_b (rule_names (a_rules sp)).

(* ---- layouts ---------------------------------------------------------------------- *)
Definition wf_comment (awc : bool) (b : text) (nl : N) : bool := awc && no_nl b && is_line_sep nl.
Definition wf_ditem (awc : bool) (it : ditem) : bool :=
  match it with DWs c => is_ws c | DComment b nl => wf_comment awc b nl end.
Definition wf_ritem (awc : bool) (it : ritem) : bool :=
  match it with RNl c => is_line_sep c | RComment b nl => wf_comment awc b nl end.

Definition wf_dline (awc : bool) (dl : dline_lay) : bool :=
  forallb is_alnum (dl_kw dl)
  && negb (is_nil (dl_gap dl)) && forallb is_iws (dl_gap dl)
  && forallb (fun s => negb (is_nil s) && forallb is_iws s) (dl_seps dl)
  && forallb is_iws (dl_trail dl)
  && is_line_sep (dl_nl dl)
  && forallb (wf_ditem awc) (dl_after dl).

(* the lines partition the states; the states of a line are of one kind *)
Fixpoint wf_dlines (awc : bool) (dls : list dline_lay) (sts : list (text * bool)) : bool :=
  match dls with
  | [] => is_nil sts
  | dl :: dls' =>
      (dl_count dl <=? length sts)
      && forallb (fun s => Bool.eqb (snd s) (group_kind (firstn (dl_count dl) sts))) (firstn (dl_count dl) sts)
      && wf_dline awc dl
      && wf_dlines awc dls' (skipn (dl_count dl) sts)
  end.

(* after a rule line: a line separator first, or nothing at all at the very end of the text *)
Definition after_ok (last : bool) (its : list ritem) : bool :=
  match its with [] => last | RNl _ :: _ => true | RComment _ _ :: _ => false end.

Definition wf_rline (awc last : bool) (rl : rline_lay) : bool :=
  forallb (fun p => forallb is_iws (fst p) && forallb is_iws (snd p)) (rl_pads rl)
  && forallb is_space_sep (rl_blanks rl)
  && is_space_sep (rl_sp rl)
  && forallb is_iws (rl_trail rl)
  && forallb (wf_ritem awc) (rl_after rl)
  && after_ok last (rl_after rl).

Fixpoint wf_rlines (awc eof : bool) (rs : list (arule * rline_lay)) : bool :=
  match rs with
  | [] => true
  | (_, rl) :: rs' => wf_rline awc (eof && is_nil rs') rl && wf_rlines awc eof rs'
  end.

Definition final_is_eof (f : final_lay) : bool := match f with FEof None => true | _ => false end.

Definition wf_final (awc : bool) (f : final_lay) : bool :=
  match f with
  | FEof None => true
  | FEof (Some b) => awc && no_nl b
  | FClose ws => forallb is_ws ws
  end.

Definition wf_layout (awc : bool) (lay : layout) (sp : aspec) : bool :=
  forallb (wf_ditem awc) (l_pre lay)
  && wf_dlines awc (l_dlines lay) (a_states sp)
  && forallb is_space_sep (l_sep_blanks lay)
  && forallb (wf_ritem awc) (l_gap0 lay)
  && (length (l_rlines lay) =? length (a_rules sp))
  && wf_rlines awc (final_is_eof (l_final lay)) (combine (a_rules sp) (l_rlines lay))
  && wf_final awc (l_final lay).

(* ---- statements --------------------------------------------------------------------- *)

(* the start states known to the parser are numbered by position and named [names] *)
Definition states_numbered (names : list text) (sts : list start_state) : Prop :=
  map ss_name sts = names /\ map ss_id sts = seq 0 (length names) /\ nodup_b names = true.

(* what may follow a line: the end of the text or a line separator *)
Definition line_end (rest : text) : Prop :=
  match rest with [] => True | c :: _ => is_line_sep c = true end.

(* ONE printed rule line, anywhere in a text, parses to the intended rule: regex = the written
   one with its lex escapes rewritten, start-state ids, target, name, and name_span = where the
   name stands in the text.  The parser is at the start of the line, knows the start states
   [names] and has seen no rule of that name. *)
Definition rule_line_roundtrip_stmt : Prop :=
  forall awc pe iw last src pre rest st errs names rl r,
    src = pre ++ print_rline rl r ++ rest -> line_end rest ->
    wf_arule awc names r = true -> wf_rline awc last rl = true ->
    forallb is_start_state_name names = true ->
    states_numbered names (start_states st) ->
    (forall n, a_name r = Some n -> find_dupe (rules st) n = None) ->
    parse_rule src pe iw [] repaired (byte_len pre) st errs =
      TOk (byte_len (pre ++ print_rline rl r),
           push_rule st (rule_of pe iw names (byte_len pre) rl r)) errs.

(* the span the rule of a printed line carries selects the name in the text *)
Definition rule_line_span_stmt : Prop :=
  forall pe iw names pre rest rl r n, a_name r = Some n ->
    selects (pre ++ print_rline rl r ++ rest) (r_name_span (rule_of pe iw names (byte_len pre) rl r)) n.

(* the declarations section parses to the declared states, in order, numbered from 1 behind
   INITIAL, with their kind and the place of their name; the parser stops behind the blanks
   that follow the %%.  [rest] is any text that does not begin with a space or a tab. *)
Definition declarations_roundtrip_stmt : Prop :=
  forall awc lay sp rest fuel,
    wf_aspec awc sp = true -> wf_layout awc lay sp = true ->
    match rest with [] => True | c :: _ => is_space_sep c = false end ->
    byte_len (print_decl_section lay sp) <= fuel ->
    parse_declarations (print_decl_section lay sp ++ rest) awc repaired fuel 0 initial_state [] =
      TOk (byte_len (print_decl_section lay sp),
           {| rules := []; start_states := states_of_spec lay sp |}) [].

(* the whole round trip, for every setting of allow_wholeline_comments, posix_escapes and
   ignore_whitespace
   (no %grmtools header: the parser starts at offset 0; every regex compiles: re_bad = []) *)
Definition lex_roundtrip_stmt : Prop :=
  forall awc pe iw lay sp,
    wf_aspec awc sp = true -> wf_layout awc lay sp = true ->
    lex_from_str repaired (print_spec lay sp) 0 awc pe iw [] = Done (POk (spec_of pe iw lay sp)).

(* the documented defaults of the three flags *)
Definition lex_roundtrip_default_stmt : Prop :=
  forall lay sp,
    wf_aspec false sp = true -> wf_layout false lay sp = true ->
    lex_from_str repaired (print_spec lay sp) 0 false false false [] = Done (POk (spec_of false false lay sp)).

(* what [spec_of] is, read without the printer: rules in order, one per abstract rule, with
   name, unescaped regex, ids by declaration order, target; states INITIAL + declared, numbered *)
Definition spec_of_faithful_stmt : Prop :=
  forall awc pe iw lay sp, length (l_rlines lay) = length (a_rules sp) ->
    wf_dlines awc (l_dlines lay) (a_states sp) = true ->
    let st := spec_of pe iw lay sp in
    map r_name (rules st) = map a_name (a_rules sp) /\
    map r_re_str (rules st) = map (fun r => map_escapes iw pe (a_re r)) (a_rules sp) /\
    map r_start_states (rules st) =
      map (fun r => map (fun n => index_of n (state_names sp)) (a_pre r)) (a_rules sp) /\
    map r_target (rules st) = map (fun r => target_of (state_names sp) (a_target r)) (a_rules sp) /\
    map ss_name (start_states st) = state_names sp /\
    map ss_id (start_states st) = seq 0 (length (state_names sp)) /\
    map ss_exclusive (start_states st) = false :: map snd (a_states sp).

(* ---- the hypotheses are satisfiable: a specification that uses every construct -------- *)
Definition t (s : list nat) : text := map N.of_nat s.

(* two declaration lines (exclusive Str; inclusive A and B.c), four rules: one with the prefix
   INITIAL, Str, escapes (backslash double-quote, backslash space at the end) and the target +Str;
   one skip rule with a blank inside a class; one whose name contains a quote, with target -A;
   (its regex ends in a form feed, which is kept); one that ends in an escaped backslash, with a
   plain target and the empty-string spelling of no name; the second declaration line separates its
   two names by three blanks (tab, space, form feed); with awc also two comments *)
Definition ex_spec : aspec :=
  {| a_states := [(t [83;116;114], true); (t [65], false); (t [66;46;99], false)];
     a_rules :=
       [ {| a_pre := [initial_name; t [83;116;114]]; a_re := t [92;34;97;92;32];
            a_name := Some (t [79;80;69;78]); a_target := Some (t [83;116;114], Push) |};
         {| a_pre := []; a_re := t [91;32;92;116;93;43]; a_name := None; a_target := None |};
         {| a_pre := [t [83;116;114]]; a_re := t [120;12];
            a_name := Some (t [105;116;39;115]); a_target := Some (t [65], Pop) |};
         {| a_pre := []; a_re := t [98;92;92]; a_name := None;
            a_target := Some (t [66;46;99], ReplaceStack) |} ] |}.

Definition ex_layout (awc : bool) : layout :=
  {| l_pre := [DWs 10%N] ++ (if awc then [DComment (t [32;104;105]) 10%N] else []);
     l_dlines :=
       [ {| dl_upper := false; dl_kw := []; dl_gap := t [32]; dl_seps := []; dl_trail := [];
            dl_nl := 10%N; dl_after := [] |};
         {| dl_upper := true; dl_kw := t [116;52]; dl_gap := t [32;9]; dl_seps := [t [9; 32; 12]]; dl_trail := t [32];
            dl_nl := 13%N; dl_after := [DWs 10%N; DWs 32%N] |} ];
     l_sep_blanks := t [32];
     l_gap0 := [RNl 10%N];
     l_rlines :=
       [ {| rl_pads := [([], []); (t [32], [])]; rl_blanks := t [9]; rl_sp := 32%N; rl_quote := QDq;
            rl_skip := SkSemi; rl_trail := []; rl_after := [RNl 10%N] |};
         {| rl_pads := []; rl_blanks := []; rl_sp := 32%N; rl_quote := QSq; rl_skip := SkSemi;
            rl_trail := t [32]; rl_after := [RNl 13%N; RNl 10%N] |};
         {| rl_pads := []; rl_blanks := []; rl_sp := 32%N; rl_quote := QSq; rl_skip := SkSemi;
            rl_trail := []; rl_after := RNl 10%N :: (if awc then [RComment (t [32;99]) 10%N] else []) |};
         {| rl_pads := []; rl_blanks := t [32]; rl_sp := 32%N; rl_quote := QSq; rl_skip := SkDq;
            rl_trail := []; rl_after := [] |} ];
     l_final := FEof None |}.

Definition roundtrip_example_stmt : Prop :=
  (forall awc, wf_aspec awc ex_spec = true /\ wf_layout awc (ex_layout awc) ex_spec = true) /\
  map r_re_str (rules (spec_of false false (ex_layout true) ex_spec)) =
    [t [34;97;32]; t [91;32;92;116;93;43]; t [120;12]; t [98;92;92]] /\
  map r_start_states (rules (spec_of false false (ex_layout true) ex_spec)) = [[0; 1]; []; [1]; []] /\
  map r_target (rules (spec_of false false (ex_layout true) ex_spec)) =
    [Some (1, Push); None; Some (2, Pop); Some (3, ReplaceStack)].
