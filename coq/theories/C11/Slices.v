(* C11 — facts about byte offsets and slices of texts (lists of code points). *)
From Coq Require Import List Arith NArith Bool Lia.
From GV Require Import Common.Outcome C11.Model.
Import ListNotations.

Lemma len_utf8_pos : forall c, 1 <= len_utf8 c.
Proof.
  intros c. unfold len_utf8.
  destruct (c <? 128)%N; [lia|]. destruct (c <? 2048)%N; [lia|]. destruct (c <? 65536)%N; lia.
Qed.

Lemma byte_len_app : forall a b, byte_len (a ++ b) = byte_len a + byte_len b.
Proof. induction a as [|c a IH]; intros b; simpl; [reflexivity|]. rewrite IH. lia. Qed.

Lemma byte_len_zero : forall a, byte_len a = 0 -> a = [].
Proof.
  intros [|c a] H; [reflexivity|]. simpl in H. pose proof (len_utf8_pos c). lia.
Qed.

Lemma byte_len_rev : forall a, byte_len (rev a) = byte_len a.
Proof.
  induction a as [|c a IH]; simpl; [reflexivity|]. rewrite byte_len_app. simpl. lia.
Qed.

(* ---- slice_from ---- *)
Lemma slice_from_0 : forall s, slice_from s 0 = Done s.
Proof. intros [|c s]; reflexivity. Qed.

Lemma slice_from_S : forall c s i, slice_from (c :: s) (S i) =
  if len_utf8 c <=? S i then slice_from s (S i - len_utf8 c) else Panic.
Proof. reflexivity. Qed.

Lemma slice_to_S : forall c s j, slice_to (c :: s) (S j) =
  if len_utf8 c <=? S j then do r <- slice_to s (S j - len_utf8 c); Done (c :: r) else Panic.
Proof. reflexivity. Qed.

Lemma slice_from_cons : forall c s i, len_utf8 c <= i ->
  slice_from (c :: s) i = slice_from s (i - len_utf8 c).
Proof.
  intros c s i H. pose proof (len_utf8_pos c) as Hp.
  destruct i as [|i]; [lia|]. simpl.
  destruct (len_utf8 c <=? S i) eqn:E; [reflexivity|]. apply Nat.leb_gt in E. lia.
Qed.

Lemma slice_from_app : forall a b, slice_from (a ++ b) (byte_len a) = Done b.
Proof.
  induction a as [|c a IH]; intros b; cbn [app byte_len].
  - apply slice_from_0.
  - rewrite slice_from_cons by lia.
    replace (len_utf8 c + byte_len a - len_utf8 c) with (byte_len a) by lia. apply IH.
Qed.

Lemma slice_from_app' : forall a b i, i = byte_len a -> slice_from (a ++ b) i = Done b.
Proof. intros a b i ->. apply slice_from_app. Qed.

Lemma slice_from_inv : forall s i r, slice_from s i = Done r ->
  exists a, s = a ++ r /\ byte_len a = i.
Proof.
  induction s as [|c s IH]; intros i r H.
  - destruct i; simpl in H; [|discriminate]. inversion H. exists []. auto.
  - destruct i as [|i].
    + simpl in H. inversion H. exists []. auto.
    + rewrite slice_from_S in H. destruct (len_utf8 c <=? S i) eqn:E; [|discriminate].
      apply Nat.leb_le in E. apply IH in H. destruct H as [a [Hs Hl]].
      exists (c :: a). split; [simpl; congruence|]. cbn [byte_len]. lia.
Qed.

Lemma slice_from_shift : forall s i r a b, slice_from s i = Done r -> r = a ++ b ->
  slice_from s (i + byte_len a) = Done b.
Proof.
  intros s i r a b H ->. apply slice_from_inv in H. destruct H as [p [-> Hl]].
  rewrite app_assoc. apply slice_from_app'. rewrite byte_len_app. lia.
Qed.

Lemma slice_from_len : forall s, slice_from s (byte_len s) = Done [].
Proof. intros s. rewrite <- (app_nil_r s) at 1. apply slice_from_app. Qed.

(* ---- slice_to ---- *)
Lemma slice_to_app : forall a b, slice_to (a ++ b) (byte_len a) = Done a.
Proof.
  induction a as [|c a IH]; intros b.
  - destruct b; reflexivity.
  - pose proof (len_utf8_pos c) as Hp. cbn [app byte_len].
    destruct (len_utf8 c + byte_len a) as [|n] eqn:E; [lia|].
    rewrite slice_to_S.
    destruct (len_utf8 c <=? S n) eqn:E2; [|apply Nat.leb_gt in E2; lia].
    replace (S n - len_utf8 c) with (byte_len a) by lia. rewrite IH. reflexivity.
Qed.

Lemma slice_to_app' : forall a b j, j = byte_len a -> slice_to (a ++ b) j = Done a.
Proof. intros a b j ->. apply slice_to_app. Qed.

Lemma slice_to_inv : forall s j a, slice_to s j = Done a ->
  exists b, s = a ++ b /\ byte_len a = j.
Proof.
  induction s as [|c s IH]; intros j a H.
  - destruct j; simpl in H; [|discriminate]. inversion H. exists []. auto.
  - destruct j as [|j].
    + simpl in H. inversion H. exists (c :: s). auto.
    + rewrite slice_to_S in H. destruct (len_utf8 c <=? S j) eqn:E; [|discriminate].
      apply Nat.leb_le in E.
      destruct (slice_to s (S j - len_utf8 c)) as [r| |] eqn:E2; simpl in H; try discriminate.
      inversion H; subst a. apply IH in E2. destruct E2 as [b [Hs Hl]].
      exists b. split; [simpl; congruence|]. cbn [byte_len]. lia.
Qed.

(* ---- slice ---- *)
Lemma slice_app : forall a m b i j, i = byte_len a -> j = byte_len a + byte_len m ->
  slice (a ++ m ++ b) i j = Done m.
Proof.
  intros a m b i j -> ->. unfold slice.
  destruct (byte_len a + byte_len m <? byte_len a) eqn:E; [apply Nat.ltb_lt in E; lia|].
  rewrite slice_from_app. simpl.
  replace (byte_len a + byte_len m - byte_len a) with (byte_len m) by lia.
  apply slice_to_app.
Qed.

Lemma slice_inv : forall s i j m, slice s i j = Done m ->
  exists a b, s = a ++ m ++ b /\ byte_len a = i /\ byte_len a + byte_len m = j.
Proof.
  intros s i j m H. unfold slice in H.
  destruct (j <? i) eqn:E; [discriminate|]. apply Nat.ltb_ge in E.
  destruct (slice_from s i) as [r| |] eqn:E1; simpl in H; try discriminate.
  apply slice_from_inv in E1. destruct E1 as [a [-> Hl]].
  apply slice_to_inv in H. destruct H as [b [-> Hm]].
  exists a, b. repeat split; auto. lia.
Qed.

Lemma slice_prefix : forall m b j, j = byte_len m -> slice (m ++ b) 0 j = Done m.
Proof. intros m b j ->. apply (slice_app [] m b); reflexivity. Qed.

(* a slice of a suffix is a slice of the whole, shifted *)
Lemma slice_of_suffix : forall src pos s i j m, slice_from src pos = Done s ->
  slice s i j = Done m -> slice src (pos + i) (pos + j) = Done m.
Proof.
  intros src pos s i j m H1 H2. apply slice_from_inv in H1. destruct H1 as [p [-> Hp]].
  apply slice_inv in H2. destruct H2 as [a [b [-> [Ha Hm]]]].
  rewrite app_assoc. apply slice_app; rewrite byte_len_app; lia.
Qed.

(* ---- take_while / drop_while / trim ---- *)
Lemma take_drop_while : forall f s, take_while f s ++ drop_while f s = s.
Proof. induction s as [|c s IH]; simpl; [reflexivity|]. destruct (f c); simpl; congruence. Qed.

Lemma take_while_all : forall f s, forallb f (take_while f s) = true.
Proof. induction s as [|c s IH]; simpl; [reflexivity|]. destruct (f c) eqn:E; simpl; [rewrite E; auto|reflexivity]. Qed.

Lemma drop_while_head : forall f s c r, drop_while f s = c :: r -> f c = false.
Proof.
  induction s as [|d s IH]; intros c r H; simpl in H; [discriminate|].
  destruct (f d) eqn:E; [eauto|]. inversion H; subst; assumption.
Qed.

Lemma forallb_rev : forall (f : N -> bool) l, forallb f (rev l) = forallb f l.
Proof.
  induction l as [|c l IH]; simpl; [reflexivity|].
  rewrite forallb_app. simpl. rewrite IH. destruct (f c), (forallb f l); reflexivity.
Qed.

(* s = trim_end f s ++ w, w all f, trim_end f s does not end in an f character *)
Lemma trim_end_split : forall f s, exists w, s = trim_end f s ++ w /\ forallb f w = true.
Proof.
  intros f s. unfold trim_end. exists (rev (take_while f (rev s))). split.
  - rewrite <- rev_app_distr. rewrite take_drop_while. rewrite rev_involutive. reflexivity.
  - rewrite forallb_rev. apply take_while_all.
Qed.

Lemma trim_end_last : forall f s c, ends_with_char c (trim_end f s) = true -> f c = false.
Proof.
  intros f s c H. unfold ends_with_char, trim_end in H. rewrite rev_involutive in H.
  destruct (drop_while f (rev s)) as [|x r] eqn:E; [discriminate|].
  apply N.eqb_eq in H. subst x. eapply drop_while_head; eauto.
Qed.

Lemma trim_end_nil_or_last : forall f s,
  trim_end f s = [] \/ exists p x, trim_end f s = p ++ [x] /\ f x = false.
Proof.
  intros f s. unfold trim_end.
  destruct (drop_while f (rev s)) as [|x r] eqn:E; [left; reflexivity|].
  right. exists (rev r), x. split; [reflexivity|]. eapply drop_while_head; eauto.
Qed.

Lemma drop_while_all : forall f s, forallb f s = true -> drop_while f s = [].
Proof. induction s as [|c s IH]; simpl; intros H; [reflexivity|]. destruct (f c); [auto|discriminate]. Qed.

Lemma drop_while_stop : forall f c r, f c = false -> drop_while f (c :: r) = c :: r.
Proof. intros f c r H. simpl. rewrite H. reflexivity. Qed.

(* trim_end of p ++ [x] ++ w with x not f and w all f *)
Lemma trim_end_app_ws : forall f p x w, f x = false -> forallb f w = true ->
  trim_end f (p ++ [x] ++ w) = p ++ [x].
Proof.
  intros f p x w Hx Hw. unfold trim_end.
  rewrite !rev_app_distr. simpl.
  assert (H : forall a b, forallb f a = true -> drop_while f (a ++ x :: b) = x :: b).
  { induction a as [|c a IH]; intros b Ha; simpl.
    - rewrite Hx. reflexivity.
    - simpl in Ha. destruct (f c); [apply IH; assumption|discriminate]. }
  rewrite <- app_assoc. simpl. rewrite H by (rewrite forallb_rev; assumption).
  simpl. rewrite rev_involutive. reflexivity.
Qed.

Lemma trim_end_all_ws : forall f w, forallb f w = true -> trim_end f w = [].
Proof.
  intros f w H. unfold trim_end. rewrite drop_while_all; [reflexivity|]. rewrite forallb_rev. assumption.
Qed.

(* ---- find / rfind ---- *)
Lemma find_from_spec : forall f s off,
  match find_from f s off with
  | Some k => exists a c b, s = a ++ c :: b /\ forallb (fun x => negb (f x)) a = true /\ f c = true /\ k = off + byte_len a
  | None => forallb (fun x => negb (f x)) s = true
  end.
Proof.
  induction s as [|c s IH]; intros off; simpl; [reflexivity|].
  destruct (f c) eqn:E.
  - exists [], c, s. simpl. repeat split; auto.
  - specialize (IH (off + len_utf8 c)). destruct (find_from f s (off + len_utf8 c)) as [k|].
    + destruct IH as [a [d [b [-> [Ha [Hd Hk]]]]]]. exists (c :: a), d, b. simpl. rewrite E. simpl.
      repeat split; auto. lia.
    + simpl. assumption.
Qed.

Lemma find_spec : forall f s,
  match find f s with
  | Some k => exists a c b, s = a ++ c :: b /\ forallb (fun x => negb (f x)) a = true /\ f c = true /\ k = byte_len a
  | None => forallb (fun x => negb (f x)) s = true
  end.
Proof. intros f s. unfold find. pose proof (find_from_spec f s 0) as H. destruct (find_from f s 0); auto. Qed.

Lemma rfind_from_spec : forall f s off best,
  match rfind_from f s off best with
  | Some k => (exists a c b, s = a ++ c :: b /\ forallb (fun x => negb (f x)) b = true /\ f c = true /\ k = off + byte_len a)
              \/ (forallb (fun x => negb (f x)) s = true /\ best = Some k)
  | None => forallb (fun x => negb (f x)) s = true /\ best = None
  end.
Proof.
  induction s as [|c s IH]; intros off best; simpl.
  - destruct best; auto.
  - specialize (IH (off + len_utf8 c) (if f c then Some off else best)).
    destruct (rfind_from f s (off + len_utf8 c) (if f c then Some off else best)) as [k|].
    + destruct IH as [[a [d [b [-> [Hb [Hd Hk]]]]]] | [Hs Hb]].
      * left. exists (c :: a), d, b. simpl. repeat split; auto. lia.
      * destruct (f c) eqn:E.
        -- left. inversion Hb; subst k. exists [], c, s. simpl. repeat split; auto.
        -- right. simpl. auto.
    + destruct IH as [Hs Hb]. destruct (f c) eqn:E; [discriminate|]. simpl. auto.
Qed.

Lemma rfind_spec : forall f s,
  match rfind f s with
  | Some k => exists a c b, s = a ++ c :: b /\ forallb (fun x => negb (f x)) b = true /\ f c = true /\ k = byte_len a
  | None => forallb (fun x => negb (f x)) s = true
  end.
Proof.
  intros f s. unfold rfind. pose proof (rfind_from_spec f s 0 None) as H.
  destruct (rfind_from f s 0 None) as [k|].
  - destruct H as [H | [_ H]]; [|discriminate]. assumption.
  - tauto.
Qed.
