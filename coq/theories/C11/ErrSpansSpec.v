(* C11/C12 — lex half of "spans of errors are well-formed": every span carried by
   an error of the lex parser satisfies start <= end <= |text| and both ends lie
   on character boundaries OF THE TEXT THE USER WROTE (the full text, header
   included).  Declarative definitions and statements only; proofs in ErrSpans.v.

   NB [boundary] below is the list-membership formulation demanded by C12; it is
   equivalent to [C11.Spec.boundary] (the `slice_from` formulation), see
   [boundary_iff_slice_from] in ErrSpans.v.  This file does not import C11.Spec. *)
From Coq Require Import List Arith NArith Bool Lia.
From GV Require Import Common.Outcome C11.Model.
Import ListNotations.

(* the byte offsets at which a character of [s] starts, and the end of [s];
   [off] is the byte offset of the first character *)
Fixpoint boundaries_from (s : text) (off : nat) : list nat :=
  match s with
  | [] => [off]
  | c :: s' => off :: boundaries_from s' (off + len_utf8 c)
  end.

Definition boundaries (s : text) : list nat := boundaries_from s 0.

Definition boundary (src : text) (i : nat) : Prop := In i (boundaries src).

Definition wf_span (src : text) (sp : span) : Prop :=
  fst sp <= snd sp /\ snd sp <= byte_len src /\ boundary src (fst sp) /\ boundary src (snd sp).

Definition errs_wellformed (src : text) (errs : list err) : Prop :=
  Forall (fun e => Forall (wf_span src) (e_spans e)) errs.

(* ---- the positive statement: with the header repair and the target-span repair,
   whatever the text, the header end, the flags, the set of rejected regexes and
   the other two repairs, every span of every reported error is well-formed in
   the full text *)
Definition lex_error_spans_wellformed_stmt : Prop :=
  forall fx src pos awc pe iw re_bad errs,
    fix_header fx = true -> fix_target_span fx = true ->
    lex_from_str fx src pos awc pe iw re_bad = Done (PErrs errs) ->
    Forall (fun e => Forall (wf_span src) (e_spans e)) errs.

(* ---- the pinned code (no repair): the header is sliced off and the rest is
   parsed from 0, so error spans are relative to the rest, i.e. shifted by [pos]
   with respect to the text the user wrote; they can split a character of it.
   [pos] is a character boundary, as the header parser returns one. *)
Definition lex_error_spans_refuted_stmt : Prop :=
  exists src pos awc pe iw re_bad errs,
    boundary src pos /\
    lex_from_str today src pos awc pe iw re_bad = Done (PErrs errs) /\
    ~ Forall (fun e => Forall (wf_span src) (e_spans e)) errs.

(* ---- the header repair alone is not enough: without the target-span repair the
   span of a rule name behind a `<target>` is computed as if the target were not
   there; in a DuplicateName error it can end inside a character (no header
   involved: pos = 0) *)
Definition header_fixed_only : fixes :=
  mk_fixes true false false false false false false false false.

Definition lex_error_spans_target_refuted_stmt : Prop :=
  exists src awc pe iw re_bad errs,
    lex_from_str header_fixed_only src 0 awc pe iw re_bad = Done (PErrs errs) /\
    ~ Forall (fun e => Forall (wf_span src) (e_spans e)) errs.

(* ---- witnesses ---- *)

(* "%grmtools{}\n%%\né 'ABCDEF'\nx\n"  (é = U+00E9, the two bytes 15 and 16); header end 11.
   The last line has no space: MissingSpace.  Pinned code: span (16,16) — relative to the
   text after the header; in the text the user wrote 16 is the second byte of é.
   Repaired: span (27,27), the start of the line `x`. *)
Definition errspan_src : text :=
  [37;103;114;109;116;111;111;108;115;123;125;10;37;37;10;233;32;39;65;66;67;68;69;70;39;10;120;10]%N.

(* "%x A\n%%\na 'éé'\nb <A>'éé'\n": duplicate rule name éé.  Without the target-span repair the
   second occurrence is reported as (20,24) (the name is at 23..27); 24 is the second byte of
   the first é of the second line. *)
Definition errspan_target_src : text :=
  [37;120;32;65;10;37;37;10;97;32;39;233;233;39;10;98;32;60;65;62;39;233;233;39;10]%N.

(* the positive theorem is not vacuous: a text on which the repaired variant reports an
   error with a span, which is then well-formed *)
Definition lex_error_spans_example_stmt : Prop :=
  lex_from_str repaired errspan_src 11 false false false []
    = Done (PErrs [{| e_kind := MissingSpace; e_spans := [(27, 27)] |}]) /\
  wf_span errspan_src (27, 27) /\
  lex_from_str repaired errspan_target_src 0 false false false []
    = Done (PErrs [{| e_kind := DuplicateName; e_spans := [(11, 15); (23, 27)] |}]) /\
  wf_span errspan_target_src (11, 15) /\ wf_span errspan_target_src (23, 27).
