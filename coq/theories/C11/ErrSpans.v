(* C11/C12 — every span of every error reported by the lex parser is well-formed in
   the text the user wrote (with the header repair and the target-span repair);
   refutations for the pinned code and for the header repair alone.

   Organisation: (1) boundaries as lists vs. as decompositions of the text;
   (2) a partial-correctness invariant per function of the mirror: whenever a
   function holding [errs] returns, the errors it returns are well-formed.  The
   cursor needs no invariant of its own: every loop round starts by slicing the
   text at the cursor, so a round that returns had a boundary as cursor.  The
   state part (spans of declared start states and of named rules) is the
   invariant [inv] of SpanProofs.v (a span that selects a name is well-formed). *)
From Coq Require Import List Arith NArith Bool Lia.
From GV Require Import Common.Outcome C11.Model C11.Spec C11.Slices C11.SpanProofs C11.TotalProofs.
From GV Require Import C11.ErrSpansSpec.
Import ListNotations.

(* ---- boundaries ------------------------------------------------------------- *)

Lemma boundaries_from_iff : forall s off i,
  In i (boundaries_from s off) <-> exists a r, s = a ++ r /\ off + byte_len a = i.
Proof.
  induction s as [|c s IH]; intros off i; cbn [boundaries_from In].
  - split.
    + intros [H|[]]. exists [], []. split; [reflexivity|simpl; lia].
    + intros [a [r [Hs Hi]]]. left. symmetry in Hs. apply app_eq_nil in Hs.
      destruct Hs as [Ha _]. subst a. simpl in Hi. lia.
  - rewrite IH. split.
    + intros [H|[a [r [Hs Hi]]]].
      * exists [], (c :: s). split; [reflexivity|simpl; lia].
      * exists (c :: a), r. split; [simpl; congruence|]. cbn [byte_len]. lia.
    + intros [a [r [Hs Hi]]]. destruct a as [|c' a].
      * left. simpl in Hi. lia.
      * right. simpl in Hs. inversion Hs as [[Hc Hs']]. exists a, r.
        split; [reflexivity|]. cbn [byte_len] in Hi. lia.
Qed.

(* the decomposition form used by the proofs *)
Definition bnd (src : text) (i : nat) : Prop := exists a r, src = a ++ r /\ byte_len a = i.

Lemma boundary_iff_bnd : forall src i, boundary src i <-> bnd src i.
Proof.
  intros src i. unfold boundary, boundaries. rewrite boundaries_from_iff. unfold bnd.
  split; intros [a [r [Hs Hi]]]; exists a, r; (split; [exact Hs|]); simpl in *; lia.
Qed.

(* the same notion as [C11.Spec.boundary] (the hypothesis of [lex_parse_total]) *)
Lemma boundary_iff_slice_from : forall src i, boundary src i <-> C11.Spec.boundary src i.
Proof.
  intros src i. rewrite boundary_iff_bnd. unfold bnd, C11.Spec.boundary. split.
  - intros [a [r [Hs Hi]]]. exists r. rewrite Hs. apply slice_from_app'. lia.
  - intros [r Hr]. apply slice_from_inv in Hr. destruct Hr as [a [Hs Ha]]. exists a, r. auto.
Qed.

Lemma bnd_le : forall src i, bnd src i -> i <= byte_len src.
Proof. intros src i [a [r [Hs Hi]]]. rewrite Hs. rewrite byte_len_app. lia. Qed.

Definition wfs (src : text) (sp : span) : Prop :=
  fst sp <= snd sp /\ bnd src (fst sp) /\ bnd src (snd sp).

Lemma wfs_wf_span : forall src sp, wfs src sp -> wf_span src sp.
Proof.
  intros src sp [Hle [Ha Hb]]. unfold wf_span. split; [exact Hle|]. split; [apply bnd_le; exact Hb|].
  split; apply boundary_iff_bnd; assumption.
Qed.

(* ---- inversion of the monadic plumbing, error side ---- *)
Lemma rbind_err : forall A B (x : res A) (f : A -> res B) e,
  rbind x f = RErr e -> x = RErr e \/ exists v, x = ROk v /\ f v = RErr e.
Proof.
  intros A B x f e H. destruct x as [v|e'| |]; simpl in H; try discriminate.
  - right. eauto.
  - left. inversion H. reflexivity.
Qed.

Lemma rbind_lift_err : forall A B (x : outcome A) (f : A -> res B) e,
  rbind (lift x) f = RErr e -> exists v, x = Done v /\ f v = RErr e.
Proof. intros A B x f e H. destruct x as [v| |]; simpl in H; try discriminate. eauto. Qed.

Section ErrInv.
  Variable src : text.
  Variables awc pe iw : bool.
  Variable re_bad : list nat.
  Variable fx : fixes.
  Hypothesis Hfix : fix_target_span fx = true.

  Definition ewf (e : err) : Prop := Forall (wfs src) (e_spans e).
  Definition errs_wf (errs : list err) : Prop := Forall ewf errs.
  Definition ss_wf (st : pstate) : Prop := Forall (fun s => wfs src (ss_span s)) (start_states st).

  (* ---- where boundaries come from ---- *)
  Lemma bnd_0 : bnd src 0.
  Proof. exists [], src. auto. Qed.

  Lemma bnd_slice_from : forall i r, slice_from src i = Done r -> bnd src i.
  Proof. intros i r H. apply slice_from_inv in H. destruct H as [a [Hs Ha]]. exists a, r. auto. Qed.

  Lemma slice_wfs : forall a b m, slice src a b = Done m -> wfs src (a, b).
  Proof.
    intros a b m H. apply slice_inv in H. destruct H as [p [q [Hs [Hp Hq]]]].
    split; [|split]; cbn [fst snd].
    - lia.
    - exists p, (m ++ q). auto.
    - exists (p ++ m), q. split; [rewrite <- app_assoc; exact Hs | rewrite byte_len_app; lia].
  Qed.

  Lemma selects_wfs : forall sp n, selects src sp n -> wfs src sp.
  Proof. intros [a b] n H. unfold selects in H. cbn [fst snd] in H. eapply slice_wfs. exact H. Qed.

  Lemma take_while_bnd : forall f i rest, slice_from src i = Done rest ->
    bnd src (i + byte_len (take_while f rest)).
  Proof.
    intros f i rest H. apply slice_from_inv in H. destruct H as [a [Hs Ha]].
    exists (a ++ take_while f rest), (drop_while f rest). split.
    - rewrite <- app_assoc. rewrite take_drop_while. exact Hs.
    - rewrite byte_len_app. lia.
  Qed.

  Lemma parse_ws_bnd : forall i j, parse_ws src i = Done j -> bnd src j.
  Proof.
    intros i j H. unfold parse_ws in H. apply obind_ok in H. destruct H as [rest [Hr H]].
    inversion H; subst j. apply take_while_bnd. exact Hr.
  Qed.

  Lemma parse_nl_bnd : forall i j, parse_nl src i = Done j -> bnd src j.
  Proof.
    intros i j H. unfold parse_nl in H. apply obind_ok in H. destruct H as [rest [Hr H]].
    inversion H; subst j. apply take_while_bnd. exact Hr.
  Qed.

  Lemma lookahead_bnd : forall p i la, lookahead_is src p i = Done la -> bnd src i.
  Proof.
    intros p i la H. unfold lookahead_is in H. apply obind_ok in H. destruct H as [rest [Hr _]].
    eapply bnd_slice_from. exact Hr.
  Qed.

  Lemma line_len_bnd : forall i ll, line_len_at src i = Done ll -> bnd src (i + ll).
  Proof.
    intros i ll H. unfold line_len_at in H. apply obind_ok in H. destruct H as [rest [Hr H]].
    apply slice_from_inv in Hr. destruct Hr as [a [Hs Ha]].
    pose proof (find_spec is_line_sep rest) as Hf.
    destruct (find is_line_sep rest) as [k|]; inversion H; subst ll.
    - destruct Hf as [x [c [y [Hrest [_ [_ Hk]]]]]]. exists (a ++ x), (c :: y). split.
      + rewrite <- app_assoc. rewrite <- Hrest. exact Hs.
      + rewrite byte_len_app. lia.
    - exists src, []. split; [rewrite app_nil_r; reflexivity|]. unfold src_len.
      assert (Hle : i <= byte_len src) by (rewrite Hs; rewrite byte_len_app; lia). lia.
  Qed.

  (* ---- errors ---- *)
  Lemma mk_error_wf : forall k i, bnd src i -> ewf (mk_error k i).
  Proof.
    intros k i Hi. unfold ewf, mk_error. cbn [e_spans]. constructor; [|constructor].
    split; [|split]; cbn [fst snd]; [lia|exact Hi|exact Hi].
  Qed.

  Lemma errs_wf_snoc : forall errs e, errs_wf errs -> ewf e -> errs_wf (errs ++ [e]).
  Proof.
    intros errs e He H. apply Forall_app. split; [exact He|]. constructor; [exact H|constructor].
  Qed.

  Lemma add_dup_go_wf : forall errs k o d l, errs_wf errs -> wfs src d ->
    add_dup_go errs k o d = Done (Some l) -> errs_wf l.
  Proof.
    induction errs as [|e errs IH]; intros k o d l He Hd H; simpl in H; [discriminate|].
    inversion He as [|? ? He1 He2]; subst.
    assert (Hrec : (do r <- add_dup_go errs k o d;
                    Done (match r with Some l0 => Some (e :: l0) | None => None end)) = Done (Some l) ->
                   errs_wf l).
    { intros H'. apply obind_ok in H'. destruct H' as [r [Hr H']]. destruct r as [l0|]; [|discriminate].
      inversion H'; subst l. constructor; [exact He1|]. eapply IH; eauto. }
    destruct (kind_eqb (e_kind e) k); [|exact (Hrec H)].
    destruct (e_spans e) as [|s0 sps] eqn:Es; [discriminate|].
    destruct (span_eqb s0 o); [|exact (Hrec H)].
    inversion H; subst l. constructor; [|exact He2].
    unfold ewf. cbn [e_spans]. change (Forall (wfs src) ((s0 :: sps) ++ [d])). apply Forall_app. split.
    - unfold ewf in He1. rewrite Es in He1. exact He1.
    - constructor; [exact Hd|constructor].
  Qed.

  Lemma add_dup_wf : forall errs k o d l, errs_wf errs -> wfs src o -> wfs src d ->
    add_duplicate_occurrence errs k o d = Done l -> errs_wf l.
  Proof.
    intros errs k o d l He Ho Hd H. unfold add_duplicate_occurrence in H.
    apply obind_ok in H. destruct H as [r [Hr H]]. destruct r as [l0|]; inversion H; subst l.
    - eapply add_dup_go_wf; eauto.
    - apply errs_wf_snoc; [exact He|]. unfold ewf. cbn [e_spans].
      constructor; [exact Ho|]. constructor; [exact Hd|constructor].
  Qed.

  (* ---- results of the functions that hold errs ---- *)
  Definition twf {A} (P : A -> Prop) (x : tres A) : Prop :=
    match x with
    | TOk a errs => P a /\ errs_wf errs
    | TErr errs e => errs_wf errs /\ ewf e
    | _ => True
    end.

  Lemma twf_lbind : forall A B (P : B -> Prop) errs (x : res A) (f : A -> tres B),
    errs_wf errs -> (forall e, x = RErr e -> ewf e) -> (forall v, x = ROk v -> twf P (f v)) ->
    twf P (lbind errs x f).
  Proof.
    intros A B P errs x f He Hx Hf. destruct x as [v|e| |]; simpl.
    - apply Hf. reflexivity.
    - split; [exact He|]. apply Hx. reflexivity.
    - exact I.
    - exact I.
  Qed.

  Lemma twf_lbind_lift : forall A B (P : B -> Prop) errs (x : outcome A) (f : A -> tres B),
    (forall v, x = Done v -> twf P (f v)) -> twf P (lbind errs (lift x) f).
  Proof.
    intros A B P errs x f Hf. destruct x as [v| |]; simpl; [|exact I|exact I]. apply Hf. reflexivity.
  Qed.

  (* ---- the state invariant of SpanProofs gives well-formed spans ---- *)
  Lemma inv_ss_wf : forall st, inv src st -> ss_wf st.
  Proof.
    intros st [_ [d [Hd Hf]]]. unfold ss_wf. rewrite Hd. apply Forall_app. split.
    - simpl. constructor; [|constructor]. cbn [ss_span].
      split; [|split]; cbn [fst snd]; [lia|apply bnd_0|apply bnd_0].
    - eapply Forall_impl; [|exact Hf]. intros s Hs. unfold state_ok in Hs. eapply selects_wfs. exact Hs.
  Qed.

  Lemma find_dupe_some : forall rs n r, find_dupe rs n = Some r -> In r rs /\ exists m, r_name r = Some m.
  Proof.
    induction rs as [|r0 rs IH]; intros n r H; simpl in H; [discriminate|].
    destruct (r_name r0) as [m|] eqn:En.
    - destruct (text_eqb m n).
      + inversion H; subst r0. split; [left; reflexivity|eauto].
      + apply IH in H. destruct H as [Hin Hm]. split; [right; exact Hin|exact Hm].
    - apply IH in H. destruct H as [Hin Hm]. split; [right; exact Hin|exact Hm].
  Qed.

  Lemma inv_dupe_wf : forall st n r, inv src st -> find_dupe (rules st) n = Some r -> wfs src (r_name_span r).
  Proof.
    intros st n r [Hr _] H. apply find_dupe_some in H. destruct H as [Hin [m Hm]].
    rewrite Forall_forall in Hr. specialize (Hr r Hin). unfold rule_ok in Hr. rewrite Hm in Hr.
    eapply selects_wfs. exact Hr.
  Qed.

  (* ---- declarations ---- *)
  Lemma declare_loop_wf : forall excl names st errs,
    ss_wf st -> Forall (fun p => wfs src (snd p)) names -> errs_wf errs ->
    twf (fun _ => True) (declare_loop excl names st errs).
  Proof.
    intros excl names. induction names as [|[name sp] rest IH]; intros st errs Hst Hn He.
    - simpl. auto.
    - inversion Hn as [|? ? Hsp Hrest]; subst. cbn [snd] in Hsp.
      cbn [declare_loop]. unfold validate_start_state.
      destruct (negb (is_start_state_name name)).
      + simpl. split; [exact He|]. apply mk_error_wf. apply Hsp.
      + destruct (List.find (fun s => text_eqb (ss_name s) name) (start_states st)) as [s0|] eqn:Ef.
        * apply find_some in Ef. destruct Ef as [Hin _].
          destruct (add_duplicate_occurrence errs DuplicateStartState (ss_span s0) sp) as [l| |] eqn:Ea;
            cbn [lift rbind lbind fst snd]; [|exact I|exact I].
          apply IH; [exact Hst|exact Hrest|].
          eapply add_dup_wf; [exact He| |exact Hsp|exact Ea].
          unfold ss_wf in Hst. rewrite Forall_forall in Hst. apply Hst. exact Hin.
        * cbn [lbind fst snd]. apply IH; [|exact Hrest|exact He].
          unfold ss_wf, push_state. cbn [start_states]. apply Forall_app. split; [exact Hst|].
          constructor; [exact Hsp|constructor].
  Qed.

  Lemma declare_start_states_wf : forall excl i dl ll st errs,
    bnd src i -> ss_wf st -> errs_wf errs ->
    twf (fun _ => True) (declare_start_states src fx excl i dl ll st errs).
  Proof.
    intros excl i dl ll st errs Hi Hst He. unfold declare_start_states.
    apply twf_lbind_lift. intros raw Hraw.
    pose proof (declared_names_selects src (fix_decl_blanks fx) _ _ _ Hraw) as Hsel.
    destruct (trim is_ws raw) as [|c0 params] eqn:Etrim; cbv beta iota zeta.
    - simpl. split; [exact He|]. apply mk_error_wf. exact Hi.
    - assert (Hn : Forall (fun p => wfs src (snd p))
                     (declared_names (fix_decl_blanks fx) (i + dl + byte_len (take_while is_ws raw)) (c0 :: params))).
      { eapply Forall_impl; [|exact Hsel]. intros [n sp] Hs. cbn [fst snd] in *. eapply selects_wfs. exact Hs. }
      pose proof (declare_loop_wf excl _ st errs Hst Hn He) as Hdl.
      destruct (declare_loop excl (declared_names (fix_decl_blanks fx) (i + dl + byte_len (take_while is_ws raw)) (c0 :: params)) st errs)
        as [st' errs'|errs' e| |]; cbn [twf] in Hdl |- *; [|exact Hdl|exact I|exact I].
      destruct Hdl as [_ He']. apply twf_lbind_lift. intros k _. cbn [twf]. split; [exact I|exact He'].
  Qed.

  Lemma parse_declaration_wf : forall i st errs,
    bnd src i -> ss_wf st -> errs_wf errs ->
    twf (fun _ => True) (parse_declaration src fx i st errs).
  Proof.
    intros i st errs Hi Hst He. unfold parse_declaration.
    apply twf_lbind_lift. intros ll _. apply twf_lbind_lift. intros line0 _. cbv zeta.
    apply twf_lbind_lift. intros decl0 _.
    destruct (is_declaration 115 83 (trim_end is_ws decl0)); [apply declare_start_states_wf; assumption|].
    destruct (is_declaration 120 88 (trim_end is_ws decl0)); [apply declare_start_states_wf; assumption|].
    cbn [twf]. split; [exact He|]. apply mk_error_wf. exact Hi.
  Qed.

  Lemma parse_declarations_loop_wf : forall fuel i st errs,
    inv src st -> errs_wf errs ->
    twf (fun x => inv src (snd x)) (parse_declarations_loop src awc fx fuel i st errs).
  Proof.
    induction fuel as [|fuel IH]; intros i st errs Hst He; [exact I|].
    cbn [parse_declarations_loop].
    apply twf_lbind_lift. intros i1 Hi1. pose proof (parse_ws_bnd _ _ Hi1) as Hb.
    apply twf_lbind_lift. intros cmt _. destruct cmt as [j|].
    - apply twf_lbind_lift. intros rest _. apply IH; assumption.
    - destruct (i1 =? src_len src).
      + cbn [twf]. split; [exact He|]. apply mk_error_wf. exact Hb.
      + apply twf_lbind_lift. intros sep _. destruct sep as [j|].
        * apply twf_lbind_lift. intros k _. cbn [twf snd]. split; [exact Hst|exact He].
        * pose proof (parse_declaration_wf i1 st errs Hb (inv_ss_wf _ Hst) He) as Hd.
          destruct (parse_declaration src fx i1 st errs) as [[i2 st2] errs2|errs2 e| |] eqn:Ed;
            cbn [twf] in Hd |- *; [|exact Hd|exact I|exact I].
          apply IH; [|apply Hd]. eapply parse_declaration_inv; eauto.
  Qed.

  Lemma parse_declarations_wf : forall fuel i,
    twf (fun x => inv src (snd x)) (parse_declarations src awc fx fuel i initial_state []).
  Proof.
    intros fuel i. unfold parse_declarations. apply twf_lbind_lift. intros i1 _.
    apply parse_declarations_loop_wf; [apply inv_initial|constructor].
  Qed.

  (* ---- rules ---- *)
  Lemma get_state_err : forall st off n e, bnd src off ->
    get_start_state_by_name st off n = RErr e -> ewf e.
  Proof.
    intros st off n e Hb H. unfold get_start_state_by_name in H.
    destruct (List.find (fun s => text_eqb (ss_name s) n) (start_states st)); [discriminate|].
    inversion H; subst e. apply mk_error_wf. exact Hb.
  Qed.

  Lemma parse_target_err : forall i st line rspace e,
    bnd src (rspace + i) -> bnd src (i + rspace + 1) ->
    parse_target i st line rspace = RErr e -> ewf e.
  Proof.
    intros i st line rspace e Hb0 Hb1 H. unfold parse_target in H.
    apply rbind_lift_err in H. destruct H as [tail [_ H]].
    destruct (starts_with [c_lt] tail); [|discriminate].
    destruct (find (N.eqb c_gt) tail) as [l|].
    - apply rbind_lift_err in H. destruct H as [inner [_ H]].
      apply rbind_lift_err in H. destruct H as [so [_ H]].
      apply rbind_err in H. destruct H as [H|[state [_ H]]].
      + eapply get_state_err; eauto.
      + apply rbind_lift_err in H. destruct H as [on [_ H]]. discriminate.
    - inversion H; subst e. apply mk_error_wf. exact Hb0.
  Qed.

  Lemma parse_name_err : forall i rspace name_off on e,
    bnd src (i + rspace + 1) -> parse_name fx i rspace name_off on = RErr e -> ewf e.
  Proof.
    intros i rspace name_off on e Hb H. unfold parse_name in H.
    destruct ((byte_len on <=? 2) || negb (is_quoted on)).
    - inversion H; subst e. apply mk_error_wf. exact Hb.
    - apply rbind_lift_err in H. destruct H as [nm [_ H]]. discriminate.
  Qed.

  Lemma states_by_name_err : forall st off names e, bnd src off ->
    states_by_name st off names = RErr e -> ewf e.
  Proof.
    intros st off names e Hb. induction names as [|n rest IH]; intros H; simpl in H; [discriminate|].
    apply rbind_err in H. destruct H as [H|[s [_ H]]]; [eapply get_state_err; eauto|].
    apply rbind_err in H. destruct H as [H|[ids [_ H]]]; [apply IH; exact H|discriminate].
  Qed.

  Lemma parse_start_states_err : forall st off re e, bnd src off ->
    parse_start_states pe iw fx st off re = RErr e -> ewf e.
  Proof.
    intros st off re e Hb H. unfold parse_start_states in H.
    destruct (negb (starts_with [c_lt] re)).
    - apply rbind_lift_err in H. destruct H as [u [_ H]]. discriminate.
    - destruct (find (N.eqb c_gt) re) as [j|].
      + apply rbind_lift_err in H. destruct H as [inner [_ H]].
        apply rbind_err in H. destruct H as [H|[ids [_ H]]]; [eapply states_by_name_err; eauto|].
        apply rbind_lift_err in H. destruct H as [rest [_ H]].
        destruct (fix_prefix_unescape fx); [|discriminate].
        apply rbind_lift_err in H. destruct H as [u [_ H]]. discriminate.
      + inversion H; subst e. apply mk_error_wf. exact Hb.
  Qed.

  Lemma parse_rule_wf : forall i st errs,
    bnd src i -> inv src st -> errs_wf errs ->
    twf (fun _ => True) (parse_rule src pe iw re_bad fx i st errs).
  Proof.
    intros i st errs Hi Hst He. unfold parse_rule.
    apply twf_lbind_lift. intros ll _. apply twf_lbind_lift. intros line0 Hl0. cbv zeta.
    pose proof (slice_inv _ _ _ _ Hl0) as [a [b [Hs [Ha Hb]]]].
    assert (Hl0' : slice src i (i + byte_len line0) = Done line0).
    { rewrite Hs. apply slice_app; lia. }
    destruct (trim_end_split is_ws line0) as [w [Hw _]].
    pose proof (rfind_spec is_space_sep (trim_end is_ws line0)) as Hrf.
    destruct (rfind is_space_sep (trim_end is_ws line0)) as [rspace|].
    2: { cbn [twf]. split; [exact He|]. apply mk_error_wf. exact Hi. }
    destruct Hrf as [x [c [y [Hline [_ [Hc Hrs]]]]]].
    pose proof (space_sep_len c Hc) as Hlc.
    assert (Hsrc : src = a ++ x ++ [c] ++ y ++ w ++ b).
    { rewrite Hs. rewrite Hw. rewrite Hline. rewrite <- !app_assoc. reflexivity. }
    assert (Hb0 : bnd src (i + rspace)).
    { exists (a ++ x), ([c] ++ y ++ w ++ b). split; [rewrite <- app_assoc; exact Hsrc|].
      rewrite byte_len_app. lia. }
    assert (Hb1 : bnd src (i + rspace + 1)).
    { exists (a ++ x ++ [c]), (y ++ w ++ b). split; [rewrite <- !app_assoc; exact Hsrc|].
      rewrite !byte_len_app. cbn [byte_len]. lia. }
    apply twf_lbind; [exact He| |].
    { intros e Htg. eapply parse_target_err; [|exact Hb1|exact Htg]. rewrite Nat.add_comm. exact Hb0. }
    intros [[tg on] name_off] Htg. cbv beta iota.
    apply parse_target_name_off in Htg.
    apply twf_lbind; [exact He| |].
    { intros e Hnm. destruct (is_skip_name on); [discriminate|].
      apply rbind_err in Hnm. destruct Hnm as [Hnm|[ns [_ Hnm]]]; [|discriminate].
      eapply parse_name_err; eauto. }
    intros [name name_span] Hnm. cbv beta iota.
    destruct (match name with Some n => find_dupe (rules st) n | None => None end) as [r|] eqn:Edup.
    - apply twf_lbind_lift. intros errs' Hadd. cbn [twf]. split; [exact I|].
      destruct name as [n|]; [|discriminate].
      eapply add_dup_wf; [exact He| | |exact Hadd].
      + eapply inv_dupe_wf; eauto.
      + destruct (is_skip_name on); [discriminate|].
        apply rbind_ok in Hnm. destruct Hnm as [[n' sp] [Hpn Hnm]]. cbn [fst snd] in Hnm.
        inversion Hnm; subst n' sp.
        eapply selects_wfs. eapply parse_name_selects; eauto.
    - apply twf_lbind_lift. intros re0 _. apply twf_lbind_lift. intros re1 _.
      apply twf_lbind; [exact He| |].
      { intros e Hps. eapply parse_start_states_err; [exact Hi|exact Hps]. }
      intros ps _.
      destruct (existsb (Nat.eqb i) re_bad); cbn [twf].
      + split; [exact He|]. apply mk_error_wf. exact Hi.
      + split; [exact I|exact He].
  Qed.

  Lemma parse_rules_wf : forall fuel i st errs,
    inv src st -> errs_wf errs ->
    twf (fun _ => True) (parse_rules src awc pe iw re_bad fx fuel i st errs).
  Proof.
    induction fuel as [|fuel IH]; intros i st errs Hst He; [exact I|].
    cbn [parse_rules].
    apply twf_lbind_lift. intros i1 Hi1. pose proof (parse_nl_bnd _ _ Hi1) as Hb.
    apply twf_lbind_lift. intros ll Hll. pose proof (line_len_bnd _ _ Hll) as Hbl.
    apply twf_lbind_lift. intros cmt _. destruct cmt as [j|]; [apply IH; assumption|].
    apply twf_lbind_lift. intros j _.
    destruct (negb (j =? i1)).
    - apply IH; [exact Hst|]. apply errs_wf_snoc; [exact He|].
      unfold ewf. cbn [e_spans]. constructor; [|constructor].
      split; [|split]; cbn [fst snd]; [lia|exact Hb|exact Hbl].
    - destruct (i1 =? src_len src); [cbn [twf]; split; [exact I|exact He]|].
      apply twf_lbind_lift. intros sep _. destruct sep as [j'|]; [cbn [twf]; split; [exact I|exact He]|].
      pose proof (parse_rule_wf i1 st errs Hb Hst He) as Hr.
      destruct (parse_rule src pe iw re_bad fx i1 st errs) as [[i2 st2] errs2|errs2 e| |] eqn:Er;
        cbn [twf] in Hr |- *; [|exact Hr|exact I|exact I].
      apply IH; [|apply Hr]. eapply parse_rule_inv; eauto.
  Qed.

  (* ---- parse ---- *)
  Lemma parse_wf : forall fuel start errs,
    parse src awc pe iw re_bad fx fuel start = Done (PErrs errs) -> errs_wf errs.
  Proof.
    intros fuel start errs H. unfold parse in H.
    assert (Hf : forall st e, errs_wf e -> Done (finish st e) = Done (PErrs errs) -> errs_wf errs).
    { intros st e He Hfe. unfold finish in Hfe. destruct e as [|e0 e']; inversion Hfe; subst errs. exact He. }
    pose proof (parse_declarations_wf fuel start) as Hd.
    destruct (parse_declarations src awc fx fuel start initial_state []) as [[i1 st1] errs1|errs1 e1| |];
      try discriminate; cbn [twf snd] in Hd.
    - destruct Hd as [Hst1 He1].
      pose proof (parse_rules_wf fuel i1 st1 errs1 Hst1 He1) as Hr.
      destruct (parse_rules src awc pe iw re_bad fx fuel i1 st1 errs1) as [[i2 st2] errs2|errs2 e2| |];
        try discriminate; cbn [twf] in Hr.
      + destruct Hr as [_ He2]. apply obind_ok in H. destruct H as [la [Hla H]]. destruct la as [j|].
        * apply obind_ok in H. destruct H as [k [_ H]].
          destruct (k =? src_len src); [eapply Hf; eauto|].
          inversion H; subst errs. apply errs_wf_snoc; [exact He2|].
          apply mk_error_wf. eapply lookahead_bnd. exact Hla.
        * destruct (i2 =? src_len src); [eapply Hf; eauto|discriminate].
      + destruct Hr as [He2 Hee]. inversion H; subst errs. apply errs_wf_snoc; assumption.
    - destruct Hd as [He1 Hee]. inversion H; subst errs. apply errs_wf_snoc; assumption.
  Qed.
End ErrInv.

(* ---- the statements ------------------------------------------------------------ *)

Lemma lex_error_spans_wellformed : lex_error_spans_wellformed_stmt.
Proof.
  intros fx src pos awc pe iw re_bad errs Hh Ht H. unfold lex_from_str in H.
  apply obind_ok in H. destruct H as [s [_ H]]. rewrite Hh in H.
  apply (parse_wf src awc pe iw re_bad fx Ht) in H.
  eapply Forall_impl; [|exact H]. intros e He.
  eapply Forall_impl; [|exact He]. intros sp Hsp. apply wfs_wf_span. exact Hsp.
Qed.

(* membership in a computed list of offsets *)
Ltac in_list := repeat (first [left; reflexivity | right]).
Ltac not_in_list H := repeat (destruct H as [H|H]; [discriminate H|]); exact H.

Lemma lex_error_spans_refuted : lex_error_spans_refuted_stmt.
Proof.
  exists errspan_src, 11, false, false, false, [].
  eexists. split; [|split].
  - unfold boundary. vm_compute. in_list.
  - vm_compute. reflexivity.
  - intros H. apply Forall_inv in H. cbn [e_spans] in H. apply Forall_inv in H.
    destruct H as [_ [_ [H _]]]. unfold boundary in H. vm_compute in H. not_in_list H.
Qed.

Lemma lex_error_spans_target_refuted : lex_error_spans_target_refuted_stmt.
Proof.
  exists errspan_target_src, false, false, false, [].
  eexists. split.
  - vm_compute. reflexivity.
  - intros H. apply Forall_inv in H. cbn [e_spans] in H. apply Forall_inv_tail in H. apply Forall_inv in H.
    destruct H as [_ [_ [_ H]]]. unfold boundary in H. vm_compute in H. not_in_list H.
Qed.

Lemma wf_span_by_computation : forall src a b,
  a <= b -> b <= byte_len src -> In a (boundaries src) -> In b (boundaries src) -> wf_span src (a, b).
Proof. intros src a b H1 H2 H3 H4. unfold wf_span, boundary. cbn [fst snd]. auto. Qed.

Lemma lex_error_spans_example : lex_error_spans_example_stmt.
Proof.
  unfold lex_error_spans_example_stmt. split; [vm_compute; reflexivity|]. split.
  { apply wf_span_by_computation; [lia|vm_compute; lia|vm_compute; in_list|vm_compute; in_list]. }
  split; [vm_compute; reflexivity|]. split.
  - apply wf_span_by_computation; [lia|vm_compute; lia|vm_compute; in_list|vm_compute; in_list].
  - apply wf_span_by_computation; [lia|vm_compute; lia|vm_compute; in_list|vm_compute; in_list].
Qed.
