(* C11 — proofs about the escape rewriting (unescape) and trim_end_unescaped. *)
From Coq Require Import List Arith NArith Bool Lia Btauto.
From GV Require Import Common.Outcome C11.Model C11.Spec C11.Slices.
Import ListNotations.

(* ---- the scanner over ANY table [lit] of kept escapes that does not list `b` ---------------
   [esc_image_t lit] / [map_escapes_t lit] are [esc_image] / [map_escapes] of Spec.v with the table
   [lit] in the place of the declarative list; the two coincide for the table of the code
   ([esc_table_spec], below). *)
Definition esc_image_t (lit : text -> bool) (iw pe : bool) (c : N) (rest : text) : text :=
  if (c =? c_b)%N then (if pe then [92; 120; 48; 56]%N else [92; 98]%N)
  else if lit (c :: rest) then [c_bsl; c]
  else if rx_special iw c then rx_escape c
  else [c].

Fixpoint map_escapes_t (lit : text -> bool) (iw pe : bool) (re : text) : text :=
  match re with
  | [] => []
  | c :: re1 =>
      if (c =? c_bsl)%N then
        match re1 with
        | [] => [c]
        | c2 :: re2 => esc_image_t lit iw pe c2 re2 ++ map_escapes_t lit iw pe re2
        end
      else c :: map_escapes_t lit iw pe re1
  end.

Section Generic.
Variable lit : text -> bool.
Hypothesis lit_b : forall rest, lit (c_b :: rest) = false.
Notation esc_image := (esc_image_t lit).
Notation map_escapes := (map_escapes_t lit).
Notation unescape_first := (unescape_first_t lit).
Notation unescape_step := (unescape_step_t lit).
Notation unescape_rest := (unescape_rest_t lit).
Notation unescape_gen := (unescape_gen_t lit).

Definition no_bsl (m : text) : bool := forallb (fun c => negb (c =? c_bsl)%N) m.

Lemma map_escapes_no_bsl : forall kw pe m x, no_bsl m = true ->
  map_escapes kw pe (m ++ x) = m ++ map_escapes kw pe x.
Proof.
  intros kw pe. induction m as [|c m IH]; intros x H; simpl; [reflexivity|].
  simpl in H. apply andb_true_iff in H. destruct H as [Hc Hm].
  apply negb_true_iff in Hc. rewrite Hc. rewrite IH by assumption. reflexivity.
Qed.

Lemma map_escapes_plain : forall kw pe c x, (c =? c_bsl)%N = false ->
  map_escapes kw pe (c :: x) = c :: map_escapes kw pe x.
Proof. intros kw pe c x H. simpl. rewrite H. reflexivity. Qed.

Lemma map_escapes_pair : forall kw pe c2 x,
  map_escapes kw pe (c_bsl :: c2 :: x) = esc_image kw pe c2 x ++ map_escapes kw pe x.
Proof. reflexivity. Qed.

(* ---- the declarative image, in the order in which the scanner tests ---- *)
Definition esc_image_op (kw pe : bool) (c : N) (rest : text) : text :=
  if (c =? c_b)%N then (if pe then [92; 120; 48; 56]%N else [92; 98]%N)
  else if is_meta_character c || lit (c :: rest) || ws_kept kw c then [c_bsl; c]
  else if ws_special kw c then [92; 120; 123]%N ++ hex_upper c ++ [125]%N
  else [c].

Lemma mem_bound : forall c l b, mem c l = true -> forallb (fun x => (x <? b)%N) l = true -> (c <? b)%N = true.
Proof.
  intros c l b. unfold mem. induction l as [|x l IH]; intros Hm Hb; [discriminate|].
  simpl in Hm, Hb. apply andb_true_iff in Hb. destruct Hb as [Hx Hl].
  apply orb_true_iff in Hm. destruct Hm as [Hm|Hm].
  - apply N.eqb_eq in Hm. subst x. exact Hx.
  - apply IH; assumption.
Qed.

Lemma meta_ascii : forall c, is_meta_character c = true -> (c <? 128)%N = true.
Proof. intros c H. eapply mem_bound; [exact H|reflexivity]. Qed.

Lemma esc_image_eq : forall kw pe c rest, esc_image kw pe c rest = esc_image_op kw pe c rest.
Proof.
  intros kw pe c rest. unfold esc_image_t, esc_image_op, rx_special, rx_escape, ws_kept, ws_special.
  destruct (c =? c_b)%N; [reflexivity|].
  destruct (lit (c :: rest)); [rewrite orb_true_r; reflexivity|]. rewrite orb_false_r.
  destruct (is_meta_character c) eqn:Em.
  - rewrite (meta_ascii c Em). reflexivity.
  - cbn [orb]. destruct (kw && is_rx_ws c); [|rewrite andb_false_r; reflexivity].
    rewrite andb_true_r. destruct (c <? 128)%N; reflexivity.
Qed.

Lemma len_bsl : len_utf8 c_bsl = 1.
Proof. reflexivity. Qed.

Lemma len_b : len_utf8 c_b = 1.
Proof. reflexivity. Qed.

(* ---- one round of 'outer ---- *)
Lemma unescape_step_spec : forall kw pe re p m c it2 unesc,
  re = p ++ m ++ [c_bsl; c] ++ it2 ->
  unescape_step kw re unesc (byte_len p) (byte_len (p ++ m)) (c :: it2) (byte_len (p ++ m) + 1) c pe
  = Done (unesc ++ m ++ esc_image kw pe c it2, byte_len (p ++ m ++ [c_bsl; c])).
Proof.
  intros kw pe re p m c it2 unesc ->. rewrite esc_image_eq. unfold unescape_step_t, esc_image_op.
  assert (Hl : byte_len (p ++ m ++ [c_bsl; c]) = byte_len (p ++ m) + 1 + len_utf8 c).
  { rewrite !byte_len_app. cbn [byte_len]. rewrite len_bsl. lia. }
  destruct (c =? c_b)%N eqn:Eb.
  - apply N.eqb_eq in Eb. subst c.
    rewrite (slice_app p m ([c_bsl; c_b] ++ it2)) by (rewrite ?byte_len_app; lia).
    cbn [obind]. rewrite Hl. rewrite len_b. repeat f_equal; try lia.
  - destruct (is_meta_character c || lit (c :: it2) || ws_kept kw c) eqn:Ek.
    + replace (p ++ m ++ [c_bsl; c] ++ it2) with (p ++ (m ++ [c_bsl; c]) ++ it2)
        by (rewrite <- !app_assoc; reflexivity).
      rewrite (slice_app p (m ++ [c_bsl; c]) it2);
        [| reflexivity | rewrite !byte_len_app; cbn [byte_len]; rewrite len_bsl; lia ].
      cbn [obind]. rewrite Hl. repeat f_equal; try lia.
    + destruct (ws_special kw c) eqn:Ew.
      * rewrite (slice_app p m ([c_bsl; c] ++ it2)) by (rewrite ?byte_len_app; lia).
        cbn [obind]. rewrite Hl. reflexivity.
      * rewrite (slice_app p m ([c_bsl; c] ++ it2)) by (rewrite ?byte_len_app; lia).
        cbn [obind].
        replace (p ++ m ++ [c_bsl; c] ++ it2) with ((p ++ m ++ [c_bsl]) ++ [c] ++ it2)
          by (rewrite <- !app_assoc; reflexivity).
        rewrite (slice_app (p ++ m ++ [c_bsl]) [c] it2);
          [| rewrite !byte_len_app; cbn [byte_len]; rewrite len_bsl; lia
           | rewrite !byte_len_app; cbn [byte_len]; rewrite len_bsl; lia ].
        cbn [obind]. rewrite Hl. reflexivity.
Qed.

(* ---- the rest of the scan ---- *)
Lemma unescape_rest_spec : forall fixd kw pe re n it p m unesc,
  length it <= n ->
  re = p ++ m ++ it -> no_bsl m = true ->
  match unescape_rest fixd kw re it (byte_len (p ++ m)) unesc (byte_len p) pe with
  | Done r => fixd = true \/ dangling it = false -> r = unesc ++ m ++ map_escapes kw pe it
  | _ => False
  end.
Proof.
  intros fixd kw pe re n. induction n as [|n IH]; intros it p m unesc Hn Hre Hm.
  - destruct it; [|simpl in Hn; lia]. rewrite app_nil_r in Hre. subst re.
    cbn [unescape_rest_t].
    rewrite slice_from_app. cbn [obind]. intros _. simpl. rewrite !app_nil_r. reflexivity.
  - destruct it as [|c it1].
    + rewrite app_nil_r in Hre. subst re.
      cbn [unescape_rest_t].
      rewrite slice_from_app. cbn [obind]. intros _. simpl. rewrite !app_nil_r. reflexivity.
    + cbn [unescape_rest_t]. destruct (c =? c_bsl)%N eqn:Ec.
      * apply N.eqb_eq in Ec. subst c. destruct it1 as [|c2 it2].
        -- destruct fixd.
           ++ rewrite Hre. rewrite slice_from_app. cbn [obind]. intros _. reflexivity.
           ++ intros [H|H]; [discriminate|]. simpl in H. discriminate.
        -- rewrite (unescape_step_spec kw pe re p m c2 it2 unesc) by (rewrite Hre; reflexivity).
           cbn [obind fst snd].
           replace (byte_len (p ++ m) + 1 + len_utf8 c2) with (byte_len ((p ++ m ++ [c_bsl; c2]) ++ []))
             by (rewrite !byte_len_app; cbn [byte_len]; rewrite len_bsl; lia).
           assert (IH' := IH it2 (p ++ m ++ [c_bsl; c2]) [] (unesc ++ m ++ esc_image kw pe c2 it2)).
           destruct (unescape_rest fixd kw re it2 (byte_len ((p ++ m ++ [c_bsl; c2]) ++ []))
                       (unesc ++ m ++ esc_image kw pe c2 it2) (byte_len (p ++ m ++ [c_bsl; c2])) pe) as [r| |].
           ++ intros Hd. rewrite IH'.
              ** rewrite map_escapes_pair. rewrite <- !app_assoc. reflexivity.
              ** simpl in Hn. lia.
              ** rewrite Hre. rewrite <- !app_assoc. reflexivity.
              ** reflexivity.
              ** destruct Hd as [Hd|Hd]; [left; assumption|right]. simpl in Hd. assumption.
           ++ apply IH'; [simpl in Hn; lia | rewrite Hre; rewrite <- !app_assoc; reflexivity | reflexivity].
           ++ apply IH'; [simpl in Hn; lia | rewrite Hre; rewrite <- !app_assoc; reflexivity | reflexivity].
      * replace (byte_len (p ++ m) + len_utf8 c) with (byte_len (p ++ (m ++ [c])))
          by (rewrite !byte_len_app; cbn [byte_len]; lia).
        assert (IH' := IH it1 p (m ++ [c]) unesc).
        assert (Hm' : no_bsl (m ++ [c]) = true).
        { unfold no_bsl. rewrite forallb_app. fold (no_bsl m). rewrite Hm. simpl. rewrite Ec. reflexivity. }
        destruct (unescape_rest fixd kw re it1 (byte_len (p ++ m ++ [c])) unesc (byte_len p) pe) as [r| |].
        -- intros Hd. rewrite IH'.
           ++ rewrite map_escapes_plain by assumption. rewrite <- !app_assoc. reflexivity.
           ++ simpl in Hn. lia.
           ++ rewrite Hre. rewrite <- !app_assoc. reflexivity.
           ++ exact Hm'.
           ++ destruct Hd as [Hd|Hd]; [left; assumption|right]. simpl in Hd. rewrite Ec in Hd. assumption.
        -- apply IH'; [simpl in Hn; lia | rewrite Hre; rewrite <- !app_assoc; reflexivity | exact Hm'].
        -- apply IH'; [simpl in Hn; lia | rewrite Hre; rewrite <- !app_assoc; reflexivity | exact Hm'].
Qed.

(* ---- the first loop ---- *)
Lemma unescape_first_spec : forall kw pe n it off, length it <= n ->
  match unescape_first kw it off with
  | None => map_escapes kw pe it = it
  | Some (i, s, j, c2, it2, off2) =>
      exists m, it = m ++ [c_bsl; c2] ++ it2 /\ s = c2 :: it2 /\ i = off + byte_len m /\ j = i + 1 /\
                off2 = j + len_utf8 c2 /\
                map_escapes kw pe it = m ++ esc_image kw pe c2 it2 ++ map_escapes kw pe it2 /\
                dangling it = dangling it2
  end.
Proof.
  intros kw pe n. induction n as [|n IH]; intros it off Hn.
  - destruct it; [reflexivity|simpl in Hn; lia].
  - destruct it as [|c it1]; [reflexivity|].
    cbn [unescape_first_t]. destruct (c =? c_bsl)%N eqn:Ec.
    + apply N.eqb_eq in Ec. subst c. destruct it1 as [|c2 it2]; [reflexivity|].
      destruct (negb (is_meta_character c2 || lit (c2 :: it2) || ws_kept kw c2)) eqn:Ek.
      * exists []. simpl. repeat split; auto; lia.
      * specialize (IH it2 (off + 1 + len_utf8 c2)).
        assert (Hl : length it2 <= n) by (simpl in Hn; lia). specialize (IH Hl).
        apply negb_false_iff in Ek.
        assert (Hb : (c2 =? c_b)%N = false).
        { destruct (c2 =? c_b)%N eqn:Eb; [|reflexivity]. apply N.eqb_eq in Eb. subst c2.
          rewrite lit_b in Ek. destruct kw; simpl in Ek; discriminate. }
        assert (Himg : esc_image kw pe c2 it2 = [c_bsl; c2]).
        { rewrite esc_image_eq. unfold esc_image_op. rewrite Hb. rewrite Ek. reflexivity. }
        destruct (unescape_first kw it2 (off + 1 + len_utf8 c2)) as [[[[[[i s] j] c3] it3] off3]|].
        -- destruct IH as [m [Hit [Hs [Hi [Hj [Ho [Hm Hd]]]]]]].
           exists (c_bsl :: c2 :: m). subst it2. repeat split; auto.
           ++ cbn [byte_len]. rewrite len_bsl. lia.
           ++ rewrite map_escapes_pair. rewrite Himg. rewrite Hm. reflexivity.
        -- rewrite map_escapes_pair. rewrite Himg. rewrite IH. reflexivity.
    + specialize (IH it1 (off + len_utf8 c)).
      assert (Hl : length it1 <= n) by (simpl in Hn; lia). specialize (IH Hl).
      destruct (unescape_first kw it1 (off + len_utf8 c)) as [[[[[[i s] j] c3] it3] off3]|].
      * destruct IH as [m [Hit [Hs [Hi [Hj [Ho [Hm Hd]]]]]]].
        exists (c :: m). subst it1. repeat split; auto.
        -- cbn [byte_len]. lia.
        -- rewrite map_escapes_plain by assumption. rewrite Hm. reflexivity.
        -- simpl. rewrite Ec. simpl in Hd. exact Hd.
      * rewrite map_escapes_plain by assumption. rewrite IH. reflexivity.
Qed.

Lemma unescape_gen_spec : forall fixd kw pe re,
  match unescape_gen fixd kw re pe with
  | Done r => fixd = true \/ dangling re = false -> r = map_escapes kw pe re
  | _ => False
  end.
Proof.
  intros fixd kw pe re. unfold unescape_gen_t.
  pose proof (unescape_first_spec kw pe (length re) re 0 (le_n _)) as H.
  destruct (unescape_first kw re 0) as [[[[[[i s] j] c2] it2] off2]|].
  - destruct H as [m [Hre [Hs [Hi [Hj [Ho [Hm Hd]]]]]]]. subst s i j off2. cbn [plus].
    pose proof (unescape_step_spec kw pe re [] m c2 it2 [] Hre) as Hst.
    cbn [app byte_len plus] in Hst. rewrite Hst. cbn [obind fst snd].
    pose proof (unescape_rest_spec fixd kw pe re (length it2) it2 (m ++ [c_bsl; c2]) [] (m ++ esc_image kw pe c2 it2)
                  (le_n _)) as Hr.
    replace (byte_len m + 1 + len_utf8 c2) with (byte_len ((m ++ [c_bsl; c2]) ++ []))
      by (rewrite !byte_len_app; cbn [byte_len]; rewrite len_bsl; lia).
    destruct (unescape_rest fixd kw re it2 (byte_len ((m ++ [c_bsl; c2]) ++ [])) (m ++ esc_image kw pe c2 it2)
                (byte_len (m ++ [c_bsl; c2])) pe) as [r| |].
    + intros Hx. rewrite Hr.
      * rewrite Hm. cbn [app]. rewrite <- !app_assoc. reflexivity.
      * rewrite Hre. rewrite <- !app_assoc. reflexivity.
      * reflexivity.
      * rewrite <- Hd. exact Hx.
    + apply Hr; [rewrite Hre; rewrite <- !app_assoc; reflexivity | reflexivity].
    + apply Hr; [rewrite Hre; rewrite <- !app_assoc; reflexivity | reflexivity].
  - intros _. symmetry. exact H.
Qed.


Lemma unescape_gen_t_spec : forall fixd kw pe re, fixd = true \/ dangling re = false ->
  unescape_gen fixd kw re pe = Done (map_escapes kw pe re).
Proof.
  intros fixd kw pe re Hd. pose proof (unescape_gen_spec fixd kw pe re) as H.
  destruct (unescape_gen fixd kw re pe) as [r| |]; try contradiction. f_equal. apply H. exact Hd.
Qed.

Lemma unescape_gen_t_total : forall fixd kw pe re, exists r, unescape_gen fixd kw re pe = Done r.
Proof.
  intros fixd kw pe re. pose proof (unescape_gen_spec fixd kw pe re) as H.
  destruct (unescape_gen fixd kw re pe) as [r| |]; try contradiction. exists r. reflexivity.
Qed.
End Generic.

(* ---- the table of the code is the declarative list ---- *)
Lemma esc_table_spec : esc_table_spec_stmt.
Proof.
  split; [reflexivity|]. intros c rest. unfold lex_esc_literal, lex_esc_table, rx_escape_class, mem, c_bsl.
  cbn [existsb andb].
  generalize (match rest with d :: _ => is_xdigit d || (d =? 123)%N | [] => false end). intros h.
  btauto.
Qed.

Lemma lex_esc_literal_b : forall rest, lex_esc_literal (c_b :: rest) = false.
Proof. reflexivity. Qed.
Lemma lex_esc_literal_orig_b : forall rest, lex_esc_literal_orig (c_b :: rest) = false.
Proof. reflexivity. Qed.
Lemma lex_esc_literal_dec_b : forall rest, lex_esc_literal_dec (c_b :: rest) = false.
Proof. reflexivity. Qed.
Lemma lex_esc_literal_orig_oct_b : forall rest, lex_esc_literal_orig_oct (c_b :: rest) = false.
Proof. reflexivity. Qed.

Lemma esc_image_t_code : forall iw pe c rest, esc_image_t lex_esc_literal iw pe c rest = esc_image iw pe c rest.
Proof.
  intros iw pe c rest. unfold esc_image_t, esc_image, lex_special.
  rewrite (proj2 esc_table_spec). reflexivity.
Qed.

Lemma map_escapes_t_code : forall iw pe re, map_escapes_t lex_esc_literal iw pe re = map_escapes iw pe re.
Proof.
  intros iw pe re. remember (length re) as n eqn:Hn. revert re Hn.
  induction n as [n IH] using lt_wf_ind. intros re Hn.
  destruct re as [|c re1]; [reflexivity|]. cbn [map_escapes_t map_escapes].
  destruct (c =? c_bsl)%N.
  - destruct re1 as [|c2 re2]; [reflexivity|]. rewrite esc_image_t_code. f_equal.
    apply (IH (length re2)); [subst n; simpl; lia|reflexivity].
  - f_equal. apply (IH (length re1)); [subst n; simpl; lia|reflexivity].
Qed.

(* the scanner of the code, any repairs: on a text without a dangling backslash, or with that repair *)
Lemma unescape_gen_code_spec : forall fixd kw pe re, fixd = true \/ dangling re = false ->
  unescape_gen fixd kw re pe = Done (map_escapes kw pe re).
Proof.
  intros fixd kw pe re H. unfold unescape_gen.
  rewrite (unescape_gen_t_spec lex_esc_literal lex_esc_literal_b fixd kw pe re H).
  rewrite map_escapes_t_code. reflexivity.
Qed.

Lemma unescape_spec : unescape_spec_stmt.
Proof. intros pe re Hd. unfold unescape. apply unescape_gen_code_spec. right. exact Hd. Qed.

Lemma unescape_iw_spec : unescape_iw_spec_stmt.
Proof. intros iw pe re. apply unescape_gen_code_spec. left. reflexivity. Qed.

Lemma unescape_fixed_spec : unescape_fixed_spec_stmt.
Proof. intros pe re. apply unescape_iw_spec. Qed.

Lemma unescape_total : unescape_total_stmt.
Proof.
  intros et eo fixd kw pe re. destruct et, eo; cbn [unescape_sel].
  - apply (unescape_gen_t_total lex_esc_literal lex_esc_literal_b).
  - apply (unescape_gen_t_total lex_esc_literal_dec lex_esc_literal_dec_b).
  - apply (unescape_gen_t_total lex_esc_literal_orig_oct lex_esc_literal_orig_oct_b).
  - apply (unescape_gen_t_total lex_esc_literal_orig lex_esc_literal_orig_b).
Qed.

(* `a\Bb`, `\x{41}`, `[\x{41}-\x{43}]+` over the table before the repair *)
Lemma esc_table_orig_refuted : esc_table_orig_refuted_stmt.
Proof.
  split; [split; reflexivity|]. split.
  { intros c Hc rest. unfold mem in Hc. cbn [existsb] in Hc. rewrite orb_false_r in Hc.
    apply orb_true_iff in Hc. destruct Hc as [Hc|Hc]; [apply N.eqb_eq in Hc; subst c; split; reflexivity|].
    apply orb_true_iff in Hc. destruct Hc as [Hc|Hc]; apply N.eqb_eq in Hc; subst c; split; reflexivity. }
  split; [|split].
  - exists false. eexists. eexists. split; [|split; [|split; [|split; reflexivity]]].
    + reflexivity.
    + vm_compute. reflexivity.
    + vm_compute. discriminate.
  - exists false. eexists. eexists. split; [|split; [|split; [|split; reflexivity]]].
    + reflexivity.
    + vm_compute. reflexivity.
    + vm_compute. discriminate.
  - exists false. eexists. eexists. split; [|split; [|split; [|split; reflexivity]]].
    + reflexivity.
    + vm_compute. reflexivity.
    + vm_compute. discriminate.
Qed.

Lemma lex_esc_refuted : lex_esc_refuted_stmt.
Proof.
  eexists. eexists.
  split; [vm_compute; reflexivity|]. split; [vm_compute; reflexivity|].
  split; [vm_compute; reflexivity|]. split; vm_compute; reflexivity.
Qed.

(* `\8` `\9` over the table that lists every digit *)
Lemma esc_table_digit_refuted : esc_table_digit_refuted_stmt.
Proof.
  split.
  { intros c Hc rest. unfold mem in Hc. cbn [existsb] in Hc. rewrite orb_false_r in Hc.
    apply orb_true_iff in Hc. destruct Hc as [Hc|Hc]; apply N.eqb_eq in Hc; subst c; repeat split; reflexivity. }
  split.
  { intros c rest Hc. unfold mem in Hc. cbn [existsb] in Hc. rewrite orb_false_r in Hc.
    apply orb_false_iff in Hc. destruct Hc as [H8 H9].
    unfold lex_esc_literal_dec, lex_esc_literal, lex_esc_table. do 5 f_equal.
    unfold is_digit, is_octal, in_range. apply N.eqb_neq in H8. apply N.eqb_neq in H9.
    destruct (48 <=? c)%N; [|reflexivity]. cbn [andb].
    destruct (c <=? 57)%N eqn:E1; destruct (c <=? 55)%N eqn:E2; try reflexivity.
    - apply N.leb_le in E1. apply N.leb_gt in E2. lia.
    - apply N.leb_gt in E1. apply N.leb_le in E2. lia. }
  split; [|split; [|]].
  - intros pe. eexists. eexists. split; [|split; [|split; [|split; [|split; [reflexivity|split; [reflexivity|]]]]]].
    + reflexivity.
    + destruct pe; vm_compute; reflexivity.
    + destruct pe; vm_compute; discriminate.
    + destruct pe; vm_compute; reflexivity.
    + destruct pe; vm_compute; reflexivity.
  - intros pe. eexists. eexists. split; [|split; [|split; [|split; [reflexivity|split; [reflexivity|]]]]].
    + reflexivity.
    + destruct pe; vm_compute; reflexivity.
    + destruct pe; vm_compute; discriminate.
    + destruct pe; vm_compute; reflexivity.
  - intros pe re Hin. cbn [In] in Hin.
    destruct Hin as [<-|[<-|[<-|[]]]]; destruct pe; split; vm_compute; reflexivity.
Qed.

Lemma lex_esc_digit_refuted : lex_esc_digit_refuted_stmt.
Proof.
  intros pe. eexists. eexists.
  split; [destruct pe; vm_compute; reflexivity|]. split; [destruct pe; vm_compute; reflexivity|].
  split; [destruct pe; vm_compute; reflexivity|]. split; destruct pe; vm_compute; reflexivity.
Qed.

Lemma nonoctal_digit_plain : nonoctal_digit_plain_stmt.
Proof.
  intros iw pe c Hc. unfold mem in Hc. cbn [existsb] in Hc. rewrite orb_false_r in Hc.
  split.
  - intros rest. apply orb_true_iff in Hc.
    destruct Hc as [Hc|Hc]; apply N.eqb_eq in Hc; subst c; destruct iw, pe; reflexivity.
  - apply orb_true_iff in Hc.
    destruct Hc as [Hc|Hc]; apply N.eqb_eq in Hc; subst c; destruct iw, pe; vm_compute; reflexivity.
Qed.

(* `\qx\` : accepted as `q` *)
Lemma unescape_dangling_refuted : unescape_dangling_refuted_stmt.
Proof.
  exists false, [92; 113; 120; 92]%N. split; [reflexivity|].
  exists [113]%N. split; [vm_compute; reflexivity|]. vm_compute. discriminate.
Qed.

(* `a\ b` under ignore_whitespace: rewritten to `a b`, where the engine skips the blank *)
Lemma unescape_iw_refuted : unescape_iw_refuted_stmt.
Proof.
  exists false, [97; 92; 32; 98]%N. split; [reflexivity|].
  exists [97; 32; 98]%N. split; [vm_compute; reflexivity|].
  split; [vm_compute; discriminate|]. split; reflexivity.
Qed.

Lemma lex_iw_refuted : lex_iw_refuted_stmt.
Proof.
  eexists. eexists.
  split; [vm_compute; reflexivity|]. split; [vm_compute; reflexivity|].
  split; [vm_compute; reflexivity|]. split; vm_compute; reflexivity.
Qed.

(* hexadecimal digits are not white space *)
Lemma hex_digit_not_ws : forall d, (d <? 16)%N = true -> is_rx_ws (hex_digit d) = false.
Proof.
  intros d Hd. apply N.ltb_lt in Hd.
  assert (H : forallb (fun k => negb (is_rx_ws (hex_digit (N.of_nat k)))) (seq 0 16) = true) by reflexivity.
  rewrite forallb_forall in H. specialize (H (N.to_nat d)). rewrite N2Nat.id in H.
  apply negb_true_iff. apply H. apply in_seq. lia.
Qed.

Lemma hex_go_not_ws : forall fuel n acc, forallb (fun d => negb (is_rx_ws d)) acc = true ->
  forallb (fun d => negb (is_rx_ws d)) (hex_go fuel n acc) = true.
Proof.
  induction fuel as [|fuel IH]; intros n acc Ha; [exact Ha|].
  cbn [hex_go].
  assert (Hacc : forallb (fun d => negb (is_rx_ws d)) (hex_digit (n mod 16) :: acc) = true).
  { cbn [forallb]. rewrite hex_digit_not_ws; [exact Ha|]. apply N.ltb_lt. apply N.mod_lt. discriminate. }
  destruct (n / 16 =? 0)%N; [exact Hacc|]. apply IH. exact Hacc.
Qed.

Lemma esc_image_cases : esc_image_cases_stmt.
Proof.
  split; [|split].
  - intros iw pe c rest Hb Hl Hr. unfold esc_image. rewrite Hb, Hl, Hr. reflexivity.
  - intros iw pe c rest Hb Hr. unfold esc_image. rewrite Hb, Hr.
    destruct (lex_special c rest); [eexists; split; [reflexivity|left; reflexivity]|].
    unfold rx_escape. destruct (c <? 128)%N; [eexists; split; [reflexivity|left; reflexivity]|].
    eexists. split; [reflexivity|]. right. cbn [app forallb]. cbn [forallb negb is_rx_ws].
    change (forallb (fun d => negb (is_rx_ws d)) (hex_upper c ++ [125]%N) = true).
    rewrite forallb_app. unfold hex_upper. rewrite hex_go_not_ws by reflexivity. reflexivity.
  - intros pe c rest. unfold esc_image, lex_special, rx_special. cbn [andb]. rewrite orb_false_r.
    destruct (c =? c_b)%N; [reflexivity|].
    destruct (rx_escape_class c rest); [rewrite orb_true_r; reflexivity|]. rewrite orb_false_r.
    destruct (is_meta_character c) eqn:Em; [|reflexivity].
    unfold rx_escape. rewrite (meta_ascii c Em). reflexivity.
Qed.

(* ---- trim_end_unescaped ---- *)
Lemma skipn_app_length : forall (a b : text), skipn (length a) (a ++ b) = b.
Proof. induction a as [|c a IH]; intros b; simpl; auto. Qed.

Lemma trim_end_unescaped_aux : forall f t w,
  trim_end f (t ++ w) = t ->
  trim_end_unescaped_gen f (t ++ w) = Done (if Nat.odd (count_trailing_bsl t) then t ++ firstn 1 w else t).
Proof.
  intros f t w Ht. unfold trim_end_unescaped_gen. rewrite Ht.
  destruct (byte_len t =? byte_len (t ++ w)) eqn:E.
  - apply Nat.eqb_eq in E. rewrite byte_len_app in E.
    assert (Hw0 : w = []) by (apply byte_len_zero; lia). subst w. rewrite app_nil_r.
    destruct (Nat.odd (count_trailing_bsl t)); [simpl; rewrite app_nil_r|]; reflexivity.
  - destruct (Nat.odd (count_trailing_bsl t)); [|reflexivity].
    apply Nat.eqb_neq in E.
    destruct w as [|c w]; [rewrite app_nil_r in E; lia|].
    rewrite slice_from_app. cbn [obind].
    replace (t ++ c :: w) with ((t ++ [c]) ++ w) by (rewrite <- app_assoc; reflexivity).
    rewrite slice_to_app' by (rewrite byte_len_app; cbn [byte_len]; lia).
    reflexivity.
Qed.

(* for every set of trimmed characters (the code as it is now: blanks; before: Pattern_White_Space) *)
Lemma trim_end_unescaped_gen_spec : forall f s,
  trim_end_unescaped_gen f s = Done (trim_end_unescaped_ref_gen f s).
Proof.
  intros f s. unfold trim_end_unescaped_ref_gen.
  destruct (trim_end_split f s) as [w [Hs Hw]].
  remember (trim_end f s) as t eqn:Ht.
  assert (Hsk : skipn (length t) s = w) by (rewrite Hs; apply skipn_app_length).
  rewrite Hsk. rewrite Hs. apply trim_end_unescaped_aux. rewrite <- Hs. symmetry. exact Ht.
Qed.

Lemma trim_end_unescaped_spec : trim_end_unescaped_spec_stmt.
Proof. intros s. apply trim_end_unescaped_gen_spec. Qed.

Lemma trim_end_split_lemma : trim_end_split_stmt.
Proof.
  intros s. destruct (trim_end_split is_space_sep s) as [w [Hs Hw]]. exists w. repeat split; auto.
  intros c H. eapply trim_end_last; eauto.
Qed.

(* trim_end_unescaped never panics and returns a prefix of its argument *)
Lemma trim_end_unescaped_prefix : forall f s, exists r w, trim_end_unescaped_gen f s = Done r /\ s = r ++ w.
Proof.
  intros f s. rewrite trim_end_unescaped_gen_spec. unfold trim_end_unescaped_ref_gen.
  destruct (trim_end_split f s) as [w [Hs Hw]].
  remember (trim_end f s) as t eqn:Ht.
  assert (Hsk : skipn (length t) s = w) by (rewrite Hs; apply skipn_app_length).
  rewrite Hsk.
  destruct (Nat.odd (count_trailing_bsl t)).
  - destruct w as [|c w].
    + exists (t ++ []), []. split; [reflexivity|]. rewrite !app_nil_r. rewrite app_nil_r in Hs. exact Hs.
    + exists (t ++ [c]), w. split; [reflexivity|]. rewrite <- app_assoc. exact Hs.
  - exists t, w. split; [reflexivity|exact Hs].
Qed.

Lemma trim_end_keeps : trim_end_keeps_stmt.
Proof.
  intros s c Hc. unfold trim_end_unescaped, trim_end_unescaped_gen.
  assert (Ht : trim_end is_space_sep (s ++ [c]) = s ++ [c]).
  { unfold trim_end. rewrite rev_app_distr. cbn [rev app drop_while]. rewrite Hc.
    change (rev (c :: rev s)) with (rev (rev s) ++ [c]). rewrite rev_involutive. reflexivity. }
  rewrite Ht. rewrite Nat.eqb_refl. reflexivity.
Qed.

Lemma trim_orig_refuted : trim_orig_refuted_stmt.
Proof.
  split; [|vm_compute; reflexivity].
  intros c Hc. unfold mem in Hc. cbn [existsb] in Hc. rewrite orb_false_r in Hc.
  repeat (apply orb_true_iff in Hc; destruct Hc as [Hc|Hc];
          [apply N.eqb_eq in Hc; subst c; split; vm_compute; reflexivity|]).
  apply N.eqb_eq in Hc; subst c; split; vm_compute; reflexivity.
Qed.

Lemma lex_trim_refuted : lex_trim_refuted_stmt.
Proof.
  eexists. eexists.
  split; [vm_compute; reflexivity|]. split; [vm_compute; reflexivity|].
  split; vm_compute; reflexivity.
Qed.
