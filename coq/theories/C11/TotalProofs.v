(* C11/C12 — the mirror of the lex parser is total: no panic site is reachable and
   the fuel |src| + 2 is never exhausted. *)
From Coq Require Import List Arith NArith Bool Lia.
From GV Require Import Common.Outcome C11.Model C11.Spec C11.Slices C11.EscProofs C11.SpanProofs.
Import ListNotations.

Definition rgood {A} (x : res A) : Prop := match x with ROk _ | RErr _ => True | _ => False end.
Definition errs_ok (errs : list err) : Prop := Forall (fun e => e_spans e <> []) errs.

Lemma errs_ok_app : forall a b, errs_ok a -> errs_ok b -> errs_ok (a ++ b).
Proof. intros a b Ha Hb. apply Forall_app. split; assumption. Qed.

(* ---- small character facts ---- *)
Lemma space_sep_len : forall c, is_space_sep c = true -> len_utf8 c = 1.
Proof.
  intros c H. unfold is_space_sep, mem in H. simpl in H.
  destruct (c =? 9)%N eqn:E1; [apply N.eqb_eq in E1; subst; reflexivity|].
  destruct (c =? 32)%N eqn:E2; [apply N.eqb_eq in E2; subst; reflexivity|]. discriminate.
Qed.

Lemma starts_with_1 : forall c s, starts_with [c] s = true -> exists s', s = c :: s'.
Proof.
  intros c [|d s] H; simpl in H; [discriminate|].
  apply andb_true_iff in H. destruct H as [H _]. apply N.eqb_eq in H. subst. eauto.
Qed.

Lemma ends_with_char_inv : forall c s, ends_with_char c s = true -> exists p, s = p ++ [c].
Proof.
  intros c s H. unfold ends_with_char in H. destruct (rev s) as [|x r] eqn:E; [discriminate|].
  apply N.eqb_eq in H. subst x. exists (rev r). rewrite <- (rev_involutive s). rewrite E. reflexivity.
Qed.

(* ---- add_duplicate_occurrence ---- *)
Lemma add_dup_go_total : forall errs k o d, errs_ok errs ->
  match add_dup_go errs k o d with
  | Done (Some l) => errs_ok l
  | Done None => True
  | _ => False
  end.
Proof.
  induction errs as [|e errs IH]; intros k o d H; simpl; [exact I|].
  inversion H as [|? ? He Hr]; subst. specialize (IH k o d Hr).
  destruct (kind_eqb (e_kind e) k).
  - destruct (e_spans e) as [|s0 sp] eqn:Es; [congruence|].
    destruct (span_eqb s0 o).
    + constructor; [|assumption]. simpl. destruct (s0 :: sp); simpl; discriminate.
    + destruct (add_dup_go errs k o d) as [[l|]| |]; simpl; try exact IH; try exact I.
      constructor; [rewrite Es; discriminate | assumption].
  - destruct (add_dup_go errs k o d) as [[l|]| |]; simpl; try exact IH; try exact I.
    constructor; assumption.
Qed.

Lemma add_dup_total : forall errs k o d, errs_ok errs ->
  exists l, add_duplicate_occurrence errs k o d = Done l /\ errs_ok l.
Proof.
  intros errs k o d H. unfold add_duplicate_occurrence.
  pose proof (add_dup_go_total errs k o d H) as Hg.
  destruct (add_dup_go errs k o d) as [[l|]| |]; simpl; try contradiction.
  - exists l. auto.
  - eexists. split; [reflexivity|]. apply errs_ok_app; [assumption|].
    constructor; [simpl; discriminate|constructor].
Qed.

(* ---- the pieces of parse_rule ---- *)
Lemma parse_start_state_ops_total : forall s, exists r, parse_start_state_ops s = Done r.
Proof.
  intros s. unfold parse_start_state_ops. destruct s as [|c s]; simpl; [eauto|].
  destruct (c =? c_plus)%N eqn:E1.
  - apply N.eqb_eq in E1. subst c. simpl. rewrite slice_from_0. simpl. eauto.
  - destruct (c =? c_minus)%N eqn:E2.
    + apply N.eqb_eq in E2. subst c. simpl. rewrite slice_from_0. simpl. eauto.
    + simpl. eauto.
Qed.

Lemma get_state_good : forall st off n, rgood (get_start_state_by_name st off n).
Proof. intros st off n. unfold get_start_state_by_name. destruct (List.find _ _); exact I. Qed.

Lemma parse_target_total : forall i st x c y, is_space_sep c = true ->
  rgood (parse_target i st (x ++ c :: y) (byte_len x)).
Proof.
  intros i st x c y Hc. unfold parse_target. pose proof (space_sep_len c Hc) as Hl.
  replace (x ++ c :: y) with ((x ++ [c]) ++ y) by (rewrite <- app_assoc; reflexivity).
  rewrite slice_from_app' by (rewrite byte_len_app; cbn [byte_len]; lia).
  cbn [lift rbind].
  destruct (starts_with [c_lt] y) eqn:Es; [|exact I].
  apply starts_with_1 in Es. destruct Es as [y0 ->].
  pose proof (find_spec (N.eqb c_gt) (c_lt :: y0)) as Hf.
  destruct (find (N.eqb c_gt) (c_lt :: y0)) as [l|]; [|exact I].
  destruct Hf as [a' [d [b' [Hy [_ [Hd Hlen]]]]]]. apply N.eqb_eq in Hd. subst d.
  destruct a' as [|a0 a'']; [simpl in Hy; inversion Hy|].
  simpl in Hy. inversion Hy; subst a0 y0. clear Hy.
  replace ((x ++ [c]) ++ c_lt :: a'' ++ c_gt :: b') with ((x ++ [c; c_lt]) ++ a'' ++ (c_gt :: b'))
    by (rewrite <- !app_assoc; reflexivity).
  rewrite (slice_app (x ++ [c; c_lt]) a'' (c_gt :: b'));
    [| rewrite byte_len_app; cbn [byte_len]; change (len_utf8 c_lt) with 1; lia
     | subst l; rewrite byte_len_app; cbn [byte_len]; change (len_utf8 c_lt) with 1; lia ].
  cbn [lift rbind].
  destruct (parse_start_state_ops_total a'') as [so Hso]. rewrite Hso. cbn [lift rbind].
  pose proof (get_state_good st (i + byte_len x + 1) (fst so)) as Hg.
  destruct (get_start_state_by_name st (i + byte_len x + 1) (fst so)); try contradiction; [|exact I].
  cbn [rbind].
  replace ((x ++ [c; c_lt]) ++ a'' ++ c_gt :: b') with ((x ++ [c; c_lt] ++ a'' ++ [c_gt]) ++ b')
    by (rewrite <- !app_assoc; reflexivity).
  rewrite slice_from_app';
    [| subst l; rewrite !byte_len_app; cbn [byte_len]; change (len_utf8 c_lt) with 1; change (len_utf8 c_gt) with 1; lia ].
  exact I.
Qed.

Lemma quoted_shape : forall q on, len_utf8 q = 1 -> starts_with [q] on = true -> ends_with_char q on = true ->
  2 < byte_len on -> exists mid, on = [q] ++ mid ++ [q].
Proof.
  intros q on Hq Hs He Hl. apply starts_with_1 in Hs. destruct Hs as [s' ->].
  apply ends_with_char_inv in He. destruct He as [p Hp].
  destruct p as [|p0 p]; [simpl in Hp; inversion Hp; subst; simpl in Hl; lia|].
  simpl in Hp. inversion Hp; subst. exists p. reflexivity.
Qed.

Lemma parse_name_total : forall fx i rspace name_off on, rgood (parse_name fx i rspace name_off on).
Proof.
  intros fx i rspace name_off on. unfold parse_name.
  destruct (byte_len on <=? 2) eqn:El; [exact I|]. apply Nat.leb_gt in El. cbn [orb].
  destruct (is_quoted on) eqn:Eq; [|exact I]. cbn [negb].
  unfold is_quoted in Eq. apply orb_true_iff in Eq.
  assert (Hsh : exists q mid, len_utf8 q = 1 /\ on = [q] ++ mid ++ [q]).
  { destruct Eq as [Eq|Eq]; apply andb_true_iff in Eq; destruct Eq as [H1 H2].
    - destruct (quoted_shape c_squote on eq_refl H1 H2 El) as [mid Hm]. exists c_squote, mid. auto.
    - destruct (quoted_shape c_dquote on eq_refl H1 H2 El) as [mid Hm]. exists c_dquote, mid. auto. }
  destruct Hsh as [q [mid [Hq ->]]].
  rewrite (slice_app [q] mid [q]);
    [| cbn [byte_len]; lia | rewrite !byte_len_app; cbn [byte_len]; lia ].
  exact I.
Qed.

Lemma states_by_name_good : forall st off names, rgood (states_by_name st off names).
Proof.
  intros st off names. induction names as [|n rest IH]; simpl; [exact I|].
  pose proof (get_state_good st off n) as Hg.
  destruct (get_start_state_by_name st off n); try contradiction; [|exact I]. cbn [rbind].
  destruct (states_by_name st off rest); try contradiction; exact I.
Qed.

Lemma parse_start_states_total : forall pe iw fx st off re, rgood (parse_start_states pe iw fx st off re).
Proof.
  intros pe iw fx st off re. unfold parse_start_states.
  destruct (starts_with [c_lt] re) eqn:Es; cbn [negb].
  - apply starts_with_1 in Es. destruct Es as [re0 ->].
    pose proof (find_spec (N.eqb c_gt) (c_lt :: re0)) as Hf.
    destruct (find (N.eqb c_gt) (c_lt :: re0)) as [j|]; [|exact I].
    destruct Hf as [a' [d [b' [Hy [_ [Hd Hlen]]]]]]. apply N.eqb_eq in Hd. subst d.
    destruct a' as [|a0 a'']; [simpl in Hy; inversion Hy|].
    simpl in Hy. inversion Hy; subst a0 re0. clear Hy.
    replace (c_lt :: a'' ++ c_gt :: b') with ([c_lt] ++ a'' ++ (c_gt :: b')) by reflexivity.
    rewrite (slice_app [c_lt] a'' (c_gt :: b'));
      [| reflexivity | subst j; cbn [byte_len]; change (len_utf8 c_lt) with 1; lia ].
    cbn [lift rbind].
    pose proof (states_by_name_good st off (map (fun p => trim is_ws (snd p)) (split (N.eqb c_comma) a''))) as Hg.
    destruct (states_by_name st off _); try contradiction; [|exact I]. cbn [rbind].
    replace ([c_lt] ++ a'' ++ c_gt :: b') with (([c_lt] ++ a'' ++ [c_gt]) ++ b')
      by (rewrite <- !app_assoc; reflexivity).
    rewrite slice_from_app';
      [| subst j; rewrite !byte_len_app; cbn [byte_len]; change (len_utf8 c_lt) with 1; change (len_utf8 c_gt) with 1; lia ].
    cbn [lift rbind].
    destruct (fix_prefix_unescape fx); [|exact I].
    destruct (unescape_total (fix_esc_table fx) (fix_esc_octal fx) (fix_dangling fx) (fix_iw fx && iw) pe b') as [u Hu]. rewrite Hu. exact I.
  - destruct (unescape_total (fix_esc_table fx) (fix_esc_octal fx) (fix_dangling fx) (fix_iw fx && iw) pe re) as [u Hu]. rewrite Hu. exact I.
Qed.

Lemma starts_with_1' : forall c d s, starts_with [c; d] s = true -> exists s', s = c :: s'.
Proof.
  intros c d [|x s] H; simpl in H; [discriminate|].
  apply andb_true_iff in H. destruct H as [H _]. apply N.eqb_eq in H. subst. eauto.
Qed.

Lemma starts_with_2 : forall c d s, starts_with [c; d] s = true -> exists s', s = c :: d :: s'.
Proof.
  intros c d [|x [|y s]] H; simpl in H; try discriminate.
  - apply andb_true_iff in H. destruct H as [_ H]. discriminate.
  - apply andb_true_iff in H. destruct H as [H1 H2]. apply andb_true_iff in H2. destruct H2 as [H2 _].
    apply N.eqb_eq in H1. apply N.eqb_eq in H2. subst. eauto.
Qed.

(* ---- the result of a function that holds errs ---- *)
Definition tgood {A} (P : A -> Prop) (x : tres A) : Prop :=
  match x with TOk a errs => P a /\ errs_ok errs | TErr errs _ => True | _ => False end.

Section Total.
  Variable src : text.
  Variables awc pe iw : bool.
  Variable re_bad : list nat.
  Variable fx : fixes.

  (* parse_rule on a line that starts at a boundary *)
  Lemma parse_rule_total : forall a line0 tl st errs,
    src = a ++ line0 ++ tl ->
    line_len_at src (byte_len a) = Done (byte_len line0) ->
    errs_ok errs ->
    tgood (fun r => fst r = byte_len a + byte_len line0)
          (parse_rule src pe iw re_bad fx (byte_len a) st errs).
  Proof.
    intros a line0 tl st errs Hsrc Hll Herrs. unfold parse_rule.
    rewrite Hll. cbn [lift lbind].
    rewrite Hsrc at 1. rewrite (slice_app a line0 tl) by reflexivity. cbn [lift lbind].
    pose proof (rfind_spec is_space_sep (trim_end is_ws line0)) as Hrf.
    destruct (rfind is_space_sep (trim_end is_ws line0)) as [rspace|]; [|exact I].
    destruct Hrf as [x [c [y [Hline [_ [Hc Hrs]]]]]]. subst rspace. rewrite Hline.
    pose proof (parse_target_total (byte_len a) st x c y Hc) as Htg.
    destruct (parse_target (byte_len a) st (x ++ c :: y) (byte_len x)) as [[[tg on] name_off]| | |];
      try contradiction; [|exact I].
    cbn [lbind].
    assert (Hnm : rgood (if is_skip_name on
                         then ROk (None, (byte_len a + byte_len x + 1, byte_len a + byte_len x + 1))
                         else dor ns <- parse_name fx (byte_len a) (byte_len x) name_off on;
                              ROk (Some (fst ns), snd ns))).
    { destruct (is_skip_name on); [exact I|].
      pose proof (parse_name_total fx (byte_len a) (byte_len x) name_off on) as Hn.
      destruct (parse_name fx (byte_len a) (byte_len x) name_off on); try contradiction; exact I. }
    destruct (if is_skip_name on then _ else _) as [[name name_span]| | |]; try contradiction; [|exact I].
    cbn [lbind].
    destruct (match name with Some n => find_dupe (rules st) n | None => None end) as [r|].
    - destruct (add_dup_total errs DuplicateName (r_name_span r) name_span Herrs) as [l [Hl Hok]].
      rewrite Hl. cbn [lift lbind]. split; [reflexivity|assumption].
    - replace (x ++ c :: y) with (x ++ (c :: y)) by reflexivity.
      rewrite slice_to_app. cbn [lift lbind].
      destruct (trim_end_unescaped_prefix (trim_pred (fix_trim_blank fx)) x) as [re1 [w [Hre1 _]]]. rewrite Hre1. cbn [lift lbind].
      pose proof (parse_start_states_total pe iw fx st (byte_len a) re1) as Hps.
      destruct (parse_start_states pe iw fx st (byte_len a) re1); try contradiction; [|exact I].
      cbn [lbind].
      destruct (existsb (Nat.eqb (byte_len a)) re_bad); [exact I|].
      split; [reflexivity|assumption].
  Qed.

  (* ---- the primitives at a boundary: src = a ++ r, i = byte_len a ---- *)
  Definition nls (c : N) : bool := negb (is_line_sep c).

  Lemma parse_ws_eq : forall a r, src = a ++ r ->
    parse_ws src (byte_len a) = Done (byte_len a + byte_len (take_while is_ws r)).
  Proof. intros a r H. unfold parse_ws. rewrite H. rewrite slice_from_app. reflexivity. Qed.
  Lemma parse_nl_eq : forall a r, src = a ++ r ->
    parse_nl src (byte_len a) = Done (byte_len a + byte_len (take_while is_line_sep r)).
  Proof. intros a r H. unfold parse_nl. rewrite H. rewrite slice_from_app. reflexivity. Qed.
  Lemma parse_spaces_eq : forall a r, src = a ++ r ->
    parse_spaces src (byte_len a) = Done (byte_len a + byte_len (take_while is_space_sep r)).
  Proof. intros a r H. unfold parse_spaces. rewrite H. rewrite slice_from_app. reflexivity. Qed.
  Lemma lookahead_eq : forall p a r, src = a ++ r ->
    lookahead_is src p (byte_len a) = Done (if starts_with p r then Some (byte_len a + byte_len p) else None).
  Proof. intros p a r H. unfold lookahead_is. rewrite H. rewrite slice_from_app. reflexivity. Qed.

  Lemma find_take_while : forall f r,
    match find f r with Some k => k | None => byte_len r end = byte_len (take_while (fun c => negb (f c)) r).
  Proof.
    intros f r. unfold find.
    assert (H : forall s off, match find_from f s off with Some k => k | None => off + byte_len s end
                              = off + byte_len (take_while (fun c => negb (f c)) s)).
    { induction s as [|c s IH]; intros off; cbn [find_from take_while byte_len]; [reflexivity|].
      destruct (f c); cbn [negb take_while byte_len]; [lia|]. specialize (IH (off + len_utf8 c)).
      destruct (find_from f s (off + len_utf8 c)); lia. }
    specialize (H r 0). cbn [plus] in H. exact H.
  Qed.

  Lemma src_len_eq : forall a r, src = a ++ r -> src_len src = byte_len a + byte_len r.
  Proof. intros a r H. unfold src_len. rewrite H. apply byte_len_app. Qed.

  Lemma line_len_eq : forall a r, src = a ++ r ->
    line_len_at src (byte_len a) = Done (byte_len (take_while nls r)).
  Proof.
    intros a r H. unfold line_len_at. rewrite H at 1. rewrite slice_from_app. cbn [obind]. f_equal.
    rewrite (src_len_eq a r H). replace (byte_len a + byte_len r - byte_len a) with (byte_len r) by lia.
    apply find_take_while.
  Qed.

  Lemma eqb_src_len : forall a r, src = a ++ r ->
    (byte_len a =? src_len src) = match r with [] => true | _ => false end.
  Proof.
    intros a r H. rewrite (src_len_eq a r H). destruct r as [|c r].
    - simpl. rewrite Nat.add_0_r. apply Nat.eqb_refl.
    - apply Nat.eqb_neq. cbn [byte_len]. pose proof (len_utf8_pos c). lia.
  Qed.

  Lemma take_while_nonempty : forall f c r, f c = true -> 1 <= byte_len (take_while f (c :: r)).
  Proof. intros f c r H. simpl. rewrite H. cbn [byte_len]. pose proof (len_utf8_pos c). lia. Qed.

  Lemma byte_len_take_drop : forall f r, byte_len r = byte_len (take_while f r) + byte_len (drop_while f r).
  Proof. intros f r. rewrite <- byte_len_app. rewrite take_drop_while. reflexivity. Qed.

  (* where a loop stops: at a boundary followed by nothing or by %% *)
  Definition at_end_or_sep (x : nat * pstate) : Prop :=
    exists a r, src = a ++ r /\ fst x = byte_len a /\ (r = [] \/ starts_with [c_percent; c_percent] r = true).
  Definition at_boundary (x : nat * pstate) : Prop :=
    exists a r, src = a ++ r /\ fst x = byte_len a.

  Lemma tgood_weaken : forall A (P Q : A -> Prop) x, (forall a, P a -> Q a) -> tgood P x -> tgood Q x.
  Proof. intros A P Q x H Hx. destruct x; simpl in *; auto. destruct Hx; auto. Qed.

  Lemma not_line_sep_slash : is_line_sep c_slash = false. Proof. reflexivity. Qed.

  (* ---- parse_rules ---- *)
  Lemma parse_rules_total : forall fuel a r st errs,
    src = a ++ r -> byte_len r < fuel -> errs_ok errs ->
    tgood at_end_or_sep (parse_rules src awc pe iw re_bad fx fuel (byte_len a) st errs).
  Proof.
    induction fuel as [|fuel IH]; intros a r st errs Hsrc Hf Herrs; [lia|].
    cbn [parse_rules].
    rewrite (parse_nl_eq a r Hsrc). cbn [lift lbind].
    set (a1 := a ++ take_while is_line_sep r). set (r1 := drop_while is_line_sep r).
    assert (Hsrc1 : src = a1 ++ r1).
    { unfold a1, r1. rewrite <- app_assoc. rewrite take_drop_while. exact Hsrc. }
    replace (byte_len a + byte_len (take_while is_line_sep r)) with (byte_len a1)
      by (unfold a1; rewrite byte_len_app; reflexivity).
    rewrite (line_len_eq a1 r1 Hsrc1). cbn [lift lbind].
    set (line0 := take_while nls r1). set (tl := drop_while nls r1).
    assert (Hr1 : r1 = line0 ++ tl) by (unfold line0, tl; rewrite take_drop_while; reflexivity).
    assert (Hsrc2 : src = (a1 ++ line0) ++ tl) by (rewrite <- app_assoc; rewrite <- Hr1; exact Hsrc1).
    assert (Hlen : byte_len r = byte_len (take_while is_line_sep r) + byte_len line0 + byte_len tl).
    { rewrite (byte_len_take_drop is_line_sep r). fold r1. rewrite Hr1. rewrite byte_len_app. lia. }
    assert (Hhead : forall c r1', r1 = c :: r1' -> 1 <= byte_len line0).
    { intros c r1' Hc. unfold line0. rewrite Hc. apply take_while_nonempty.
      unfold nls. apply negb_true_iff. eapply drop_while_head. unfold r1 in Hc. exact Hc. }
    assert (Hnext : forall st' errs', errs_ok errs' -> 1 <= byte_len line0 ->
              tgood at_end_or_sep (parse_rules src awc pe iw re_bad fx fuel (byte_len a1 + byte_len line0) st' errs')).
    { intros st' errs' He Hl. replace (byte_len a1 + byte_len line0) with (byte_len (a1 ++ line0))
        by (rewrite byte_len_app; reflexivity).
      apply (IH (a1 ++ line0) tl st' errs' Hsrc2); [lia|assumption]. }
    assert (Hcmt : lift (if awc then lookahead_is src [c_slash; c_slash] (byte_len a1) else Done None)
                   = ROk (if awc && starts_with [c_slash; c_slash] r1 then Some (byte_len a1 + 2) else None)).
    { destruct awc; [|reflexivity]. rewrite (lookahead_eq _ a1 r1 Hsrc1). cbn [lift andb].
      destruct (starts_with [c_slash; c_slash] r1); reflexivity. }
    rewrite Hcmt. cbn [lbind].
    destruct (awc && starts_with [c_slash; c_slash] r1) eqn:Ecm.
    - apply andb_true_iff in Ecm. destruct Ecm as [_ Ecm].
      destruct r1 as [|c r1'] eqn:Er1; [discriminate|].
      apply Hnext; [assumption|]. eapply Hhead. reflexivity.
    - rewrite (parse_ws_eq a1 r1 Hsrc1). cbn [lift lbind].
      destruct (negb (byte_len a1 + byte_len (take_while is_ws r1) =? byte_len a1)) eqn:Ej.
      + apply negb_true_iff in Ej. apply Nat.eqb_neq in Ej.
        destruct r1 as [|c r1'] eqn:Er1; [simpl in Ej; lia|].
        apply Hnext; [|eapply Hhead; reflexivity].
        apply errs_ok_app; [assumption|]. constructor; [simpl; discriminate|constructor].
      + rewrite (eqb_src_len a1 r1 Hsrc1).
        destruct r1 as [|c r1'] eqn:Er1.
        * simpl. split; [|assumption]. exists a1, []. auto.
        * rewrite (lookahead_eq _ a1 (c :: r1') Hsrc1). cbn [lift lbind].
          destruct (starts_with [c_percent; c_percent] (c :: r1')) eqn:Esep.
          -- simpl. split; [|assumption]. exists a1, (c :: r1'). auto.
          -- pose proof (parse_rule_total a1 line0 tl st errs) as Hpr.
             rewrite <- app_assoc in Hsrc2. specialize (Hpr Hsrc2).
             rewrite (line_len_eq a1 (c :: r1') Hsrc1) in Hpr. specialize (Hpr eq_refl Herrs).
             destruct (parse_rule src pe iw re_bad fx (byte_len a1) st errs) as [[k st'] errs'|errs' e| |];
               try contradiction; [|exact I].
             destruct Hpr as [Hk He]. cbn [fst] in Hk. rewrite Hk.
             apply Hnext; [assumption|]. eapply Hhead. reflexivity.
  Qed.

  (* ---- declarations ---- *)
  Lemma declare_loop_total : forall excl names st errs, errs_ok errs ->
    tgood (fun _ => True) (declare_loop excl names st errs).
  Proof.
    intros excl names. induction names as [|[name sp] rest IH]; intros st errs He.
    - simpl. auto.
    - cbn [declare_loop]. unfold validate_start_state.
      destruct (negb (is_start_state_name name)); [exact I|].
      destruct (List.find (fun s0 => text_eqb (ss_name s0) name) (start_states st)) as [s0|].
      + destruct (add_dup_total errs DuplicateStartState (ss_span s0) sp He) as [l [Hl Hok]].
        rewrite Hl. cbn [lift rbind lbind fst snd]. apply IH. assumption.
      + cbn [lbind fst snd]. apply IH. assumption.
  Qed.

  Lemma split_go_nonempty : forall f s off start cur, split_go f s off start cur <> [].
  Proof.
    intros f s. induction s as [|c s IH]; intros off start cur; simpl; [discriminate|].
    destruct (f c); [discriminate|apply IH].
  Qed.

  Lemma declared_names_base : forall fb base params n sp,
    In (n, sp) (declared_names fb base params) -> base <= fst sp.
  Proof.
    intros fb base params n sp H. unfold declared_names in H. apply in_map_iff in H.
    destruct H as [[o piece] [Heq _]]. inversion Heq; subst. cbn [fst]. lia.
  Qed.

  (* the first piece of a text is not empty once a character has been collected *)
  Lemma split_go_first : forall f s off start cur, cur <> [] ->
    exists p rest, split_go f s off start cur = (start, p) :: rest /\ p <> [].
  Proof.
    intros f s. induction s as [|c s IH]; intros off start cur Hc; cbn [split_go].
    - exists (rev cur), []. split; [reflexivity|]. intros E. apply Hc.
      rewrite <- (rev_involutive cur), E. reflexivity.
    - destruct (f c).
      + exists (rev cur), (split_go f s (off + len_utf8 c) (off + len_utf8 c) []). split; [reflexivity|].
        intros E. apply Hc. rewrite <- (rev_involutive cur), E. reflexivity.
      + apply IH. discriminate.
  Qed.

  (* a parameter text that begins with a character other than white space declares at least one name *)
  Lemma declared_names_nonempty : forall fb base c params, is_ws c = false ->
    declared_names fb base (c :: params) <> [].
  Proof.
    intros fb base c params Hc H. unfold declared_names in H. apply map_eq_nil in H.
    unfold split in H. cbn [split_go] in H. rewrite Hc in H.
    destruct (split_go_first is_ws params (0 + len_utf8 c) 0 [c]) as [p [rest [E Hp]]]; [discriminate|].
    rewrite E in H. destruct fb; [|discriminate].
    cbn [filter] in H. unfold nonempty_piece in H. cbn [snd] in H. destruct p; [contradiction|discriminate].
  Qed.

  Lemma trim_head_not_ws : forall raw c params, trim is_ws raw = c :: params -> is_ws c = false.
  Proof.
    intros raw c params H. unfold trim, trim_start in H.
    destruct (drop_while is_ws raw) as [|d r] eqn:Ed.
    - unfold trim_end in H. simpl in H. discriminate.
    - pose proof (drop_while_head _ _ _ _ Ed) as Hd.
      destruct (trim_end_split is_ws (d :: r)) as [w [Hs _]]. rewrite H in Hs.
      inversion Hs; subst. exact Hd.
  Qed.

  Lemma declare_start_states_total : forall excl a1 p rawr tl st errs,
    src = a1 ++ p ++ rawr ++ tl -> 1 <= byte_len p -> errs_ok errs ->
    tgood (fun x => exists a' r', src = a' ++ r' /\ fst x = byte_len a' /\ byte_len a1 < byte_len a')
          (declare_start_states src fx excl (byte_len a1) (byte_len p) (byte_len p + byte_len rawr) st errs).
  Proof.
    intros excl a1 p rawr tl st errs Hsrc Hp He. unfold declare_start_states.
    assert (Hraw : slice src (byte_len a1 + byte_len p) (byte_len a1 + (byte_len p + byte_len rawr)) = Done rawr).
    { rewrite Hsrc. replace (a1 ++ p ++ rawr ++ tl) with ((a1 ++ p) ++ rawr ++ tl) by (rewrite <- app_assoc; reflexivity).
      apply slice_app; rewrite byte_len_app; lia. }
    rewrite Hraw. cbn [lift lbind].
    destruct (trim is_ws rawr) as [|c0 params'] eqn:Etrim; [exact I|]. rewrite <- Etrim.
    pose proof (declared_names_selects src (fix_decl_blanks fx) _ _ _ Hraw) as Hsel.
    set (names := declared_names (fix_decl_blanks fx) (byte_len a1 + byte_len p + byte_len (take_while is_ws rawr)) (trim is_ws rawr)) in *.
    pose proof (declare_loop_total excl names st errs He) as Hdl.
    destruct (declare_loop excl names st errs) as [st' errs'|errs' e| |]; try contradiction; [|exact I].
    destruct Hdl as [_ He'].
    destruct (rev names) as [|[n [s0 e0]] rest] eqn:Erev.
    { exfalso. pose proof (trim_head_not_ws _ _ _ Etrim) as Hc0.
      apply (declared_names_nonempty (fix_decl_blanks fx) (byte_len a1 + byte_len p + byte_len (take_while is_ws rawr)) c0 params' Hc0).
      rewrite <- Etrim. fold names. rewrite <- (rev_involutive names). rewrite Erev. reflexivity. }
    assert (Hin : In (n, (s0, e0)) names).
    { apply (proj2 (in_rev names _)). rewrite Erev. left. reflexivity. }
    pose proof (declared_names_base _ _ _ _ _ Hin) as Hb. cbn [fst] in Hb.
    rewrite Forall_forall in Hsel. specialize (Hsel _ Hin). unfold selects in Hsel. cbn [fst snd] in Hsel.
    apply slice_inv in Hsel. destruct Hsel as [A [B [HA [Hs0 He0]]]].
    assert (Hsrc' : src = (A ++ n) ++ B) by (rewrite <- app_assoc; exact HA).
    replace e0 with (byte_len (A ++ n)) by (rewrite byte_len_app; lia).
    rewrite (parse_ws_eq (A ++ n) B Hsrc'). cbn [lift lbind]. split; [|assumption].
    exists ((A ++ n) ++ take_while is_ws B), (drop_while is_ws B). cbn [fst]. split; [|split].
    - rewrite <- app_assoc. rewrite take_drop_while. exact Hsrc'.
    - rewrite !byte_len_app. lia.
    - rewrite !byte_len_app. lia.
  Qed.

  Lemma trim_end_nil : forall f, trim_end f [] = [].
  Proof. reflexivity. Qed.

  Lemma is_declaration_nonempty : forall k1 k2 d, is_declaration k1 k2 d = true -> d <> [].
  Proof. intros k1 k2 d H. destruct d; [discriminate|discriminate]. Qed.

  Lemma parse_declaration_total : forall a1 c0 r1' st errs,
    src = a1 ++ c0 :: r1' -> errs_ok errs ->
    tgood (fun x => exists a' r', src = a' ++ r' /\ fst x = byte_len a' /\ byte_len a1 < byte_len a')
          (parse_declaration src fx (byte_len a1) st errs).
  Proof.
    intros a1 c0 r1' st errs Hsrc He. unfold parse_declaration.
    rewrite (line_len_eq a1 _ Hsrc). cbn [lift lbind].
    set (r1 := c0 :: r1') in *.
    set (line0 := take_while nls r1). set (tl := drop_while nls r1).
    assert (Hr1 : r1 = line0 ++ tl) by (unfold line0, tl; rewrite take_drop_while; reflexivity).
    assert (Hsrc2 : src = a1 ++ line0 ++ tl) by (rewrite <- Hr1; exact Hsrc).
    rewrite Hsrc2 at 1. rewrite (slice_app a1 line0 tl) by reflexivity. cbn [lift lbind].
    destruct (trim_end_split is_ws line0) as [w [Hl0 _]].
    set (line := trim_end is_ws line0) in *.
    pose proof (find_spec is_ws line) as Hf.
    destruct (find is_ws line) as [k|].
    - destruct Hf as [p [c [q [Hline [_ [_ Hk]]]]]]. subst k.
      assert (Hsrc3 : src = a1 ++ p ++ (c :: q ++ w) ++ tl).
      { rewrite Hsrc2. rewrite Hl0. rewrite Hline. rewrite <- !app_assoc. cbn [app]. rewrite <- !app_assoc. reflexivity. }
      rewrite Hsrc3 at 1. rewrite (slice_app a1 p ((c :: q ++ w) ++ tl)) by reflexivity. cbn [lift lbind].
      assert (Hll : byte_len line0 = byte_len p + byte_len (c :: q ++ w)).
      { rewrite Hl0. rewrite Hline. rewrite !byte_len_app. cbn [byte_len]. rewrite byte_len_app. lia. }
      rewrite Hll.
      assert (Hp : forall k1 k2, is_declaration k1 k2 (trim_end is_ws p) = true -> 1 <= byte_len p).
      { intros k1 k2 H. apply is_declaration_nonempty in H. destruct p as [|p0 p']; [exfalso; apply H; reflexivity|].
        cbn [byte_len]. pose proof (len_utf8_pos p0). lia. }
      destruct (is_declaration 115 83 (trim_end is_ws p)) eqn:E1.
      + apply (declare_start_states_total false a1 p (c :: q ++ w) tl); [exact Hsrc3 | eapply Hp; exact E1 | exact He].
      + destruct (is_declaration 120 88 (trim_end is_ws p)) eqn:E2; [|exact I].
        apply (declare_start_states_total true a1 p (c :: q ++ w) tl); [exact Hsrc3 | eapply Hp; exact E2 | exact He].
    - rewrite Hsrc2 at 1. rewrite (slice_app a1 line0 tl) by reflexivity. cbn [lift lbind].
      assert (Hsrc3 : src = a1 ++ line0 ++ [] ++ tl) by exact Hsrc2.
      assert (Hp : forall k1 k2, is_declaration k1 k2 (trim_end is_ws line0) = true -> 1 <= byte_len line0).
      { intros k1 k2 H. apply is_declaration_nonempty in H. destruct line0 as [|p0 p']; [exfalso; apply H; reflexivity|].
        cbn [byte_len]. pose proof (len_utf8_pos p0). lia. }
      destruct (is_declaration 115 83 (trim_end is_ws line0)) eqn:E1.
      + pose proof (declare_start_states_total false a1 line0 [] tl st errs Hsrc3 (Hp _ _ E1) He) as H.
        cbn [byte_len] in H. rewrite Nat.add_0_r in H. exact H.
      + destruct (is_declaration 120 88 (trim_end is_ws line0)) eqn:E2; [|exact I].
        pose proof (declare_start_states_total true a1 line0 [] tl st errs Hsrc3 (Hp _ _ E2) He) as H.
        cbn [byte_len] in H. rewrite Nat.add_0_r in H. exact H.
  Qed.

  Lemma parse_declarations_loop_total : forall fuel a r st errs,
    src = a ++ r -> byte_len r < fuel -> errs_ok errs ->
    tgood at_boundary (parse_declarations_loop src awc fx fuel (byte_len a) st errs).
  Proof.
    induction fuel as [|fuel IH]; intros a r st errs Hsrc Hf Herrs; [lia|].
    cbn [parse_declarations_loop].
    rewrite (parse_ws_eq a r Hsrc). cbn [lift lbind].
    set (a1 := a ++ take_while is_ws r). set (r1 := drop_while is_ws r).
    assert (Hsrc1 : src = a1 ++ r1).
    { unfold a1, r1. rewrite <- app_assoc. rewrite take_drop_while. exact Hsrc. }
    replace (byte_len a + byte_len (take_while is_ws r)) with (byte_len a1)
      by (unfold a1; rewrite byte_len_app; reflexivity).
    assert (Hlen : byte_len r = byte_len (take_while is_ws r) + byte_len r1).
    { apply byte_len_take_drop. }
    assert (Hcmt : lift (if awc then lookahead_is src [c_slash; c_slash] (byte_len a1) else Done None)
                   = ROk (if awc && starts_with [c_slash; c_slash] r1 then Some (byte_len a1 + 2) else None)).
    { destruct awc; [|reflexivity]. rewrite (lookahead_eq _ a1 r1 Hsrc1). cbn [lift andb].
      destruct (starts_with [c_slash; c_slash] r1); reflexivity. }
    rewrite Hcmt. cbn [lbind].
    destruct (awc && starts_with [c_slash; c_slash] r1) eqn:Ecm.
    - apply andb_true_iff in Ecm. destruct Ecm as [_ Ecm].
      rewrite Hsrc1 at 1. rewrite slice_from_app. cbn [lift lbind].
      set (line0 := take_while nls r1). set (tl := drop_while nls r1).
      assert (Hr1 : r1 = line0 ++ tl) by (unfold line0, tl; rewrite take_drop_while; reflexivity).
      assert (Hsrc2 : src = (a1 ++ line0) ++ tl) by (rewrite <- app_assoc; rewrite <- Hr1; exact Hsrc1).
      assert (Hi' : match find is_line_sep r1 with Some k => k + byte_len a1 | None => src_len src end
                    = byte_len (a1 ++ line0)).
      { pose proof (find_take_while is_line_sep r1) as Hft. fold nls in Hft. fold line0 in Hft.
        rewrite byte_len_app. rewrite (src_len_eq a1 r1 Hsrc1).
        destruct (find is_line_sep r1); lia. }
      rewrite Hi'.
      assert (Hl0 : 1 <= byte_len line0).
      { apply starts_with_1' in Ecm. destruct Ecm as [r1' Hr1']. unfold line0. rewrite Hr1'.
        apply take_while_nonempty. reflexivity. }
      apply (IH (a1 ++ line0) tl st errs Hsrc2); [|assumption].
      rewrite Hr1 in Hlen. rewrite byte_len_app in Hlen. lia.
    - rewrite (eqb_src_len a1 r1 Hsrc1).
      destruct r1 as [|c r1'] eqn:Er1; [exact I|].
      rewrite (lookahead_eq _ a1 (c :: r1') Hsrc1). cbn [lift lbind].
      destruct (starts_with [c_percent; c_percent] (c :: r1')) eqn:Esep.
      + apply starts_with_2 in Esep. destruct Esep as [r2 Hr2].
        assert (Hsrc2 : src = (a1 ++ [c_percent; c_percent]) ++ r2).
        { rewrite <- app_assoc. rewrite Hsrc1. rewrite Hr2. reflexivity. }
        replace (byte_len a1 + byte_len [c_percent; c_percent]) with (byte_len (a1 ++ [c_percent; c_percent]))
          by (rewrite byte_len_app; reflexivity).
        rewrite (parse_spaces_eq _ r2 Hsrc2). cbn [lift lbind]. split; [|assumption].
        exists ((a1 ++ [c_percent; c_percent]) ++ take_while is_space_sep r2), (drop_while is_space_sep r2).
        split; [rewrite <- app_assoc; rewrite take_drop_while; exact Hsrc2|].
        cbn [fst]. rewrite !byte_len_app. lia.
      + pose proof (parse_declaration_total a1 c r1' st errs Hsrc1 Herrs) as Hpd.
        destruct (parse_declaration src fx (byte_len a1) st errs) as [[k st'] errs'|errs' e| |];
          try contradiction; [|exact I].
        destruct Hpd as [[a' [r' [Hs' [Hk Hlt]]]] He']. cbn [fst] in Hk. subst k.
        apply (IH a' r' st' errs' Hs'); [|assumption].
        assert (Hb : byte_len src = byte_len a' + byte_len r') by (rewrite Hs' at 1; apply byte_len_app).
        assert (Hb1 : byte_len src = byte_len a1 + byte_len (c :: r1')) by (rewrite Hsrc1 at 1; apply byte_len_app).
        lia.
  Qed.

  Lemma parse_total : forall a r, src = a ++ r ->
    exists res, parse src awc pe iw re_bad fx (fuel_for src) (byte_len a) = Done res.
  Proof.
    intros a r Hsrc. unfold parse, parse_declarations.
    rewrite (parse_ws_eq a r Hsrc). cbn [lift lbind].
    set (a1 := a ++ take_while is_ws r). set (r1 := drop_while is_ws r).
    assert (Hsrc1 : src = a1 ++ r1).
    { unfold a1, r1. rewrite <- app_assoc. rewrite take_drop_while. exact Hsrc. }
    replace (byte_len a + byte_len (take_while is_ws r)) with (byte_len a1)
      by (unfold a1; rewrite byte_len_app; reflexivity).
    assert (Hfuel : forall x y, src = x ++ y -> byte_len y < fuel_for src).
    { intros x y H. unfold fuel_for. rewrite H at 1. rewrite byte_len_app. lia. }
    pose proof (parse_declarations_loop_total (fuel_for src) a1 r1 initial_state [] Hsrc1 (Hfuel _ _ Hsrc1)
                  (Forall_nil _)) as Hd.
    destruct (parse_declarations_loop src awc fx (fuel_for src) (byte_len a1) initial_state [])
      as [[i st] errs|errs e| |]; try contradiction; [|eauto].
    destruct Hd as [[a2 [r2 [Hsrc2 Hi]]] He]. cbn [fst] in Hi. subst i.
    pose proof (parse_rules_total (fuel_for src) a2 r2 st errs Hsrc2 (Hfuel _ _ Hsrc2) He) as Hr.
    destruct (parse_rules src awc pe iw re_bad fx (fuel_for src) (byte_len a2) st errs)
      as [[i st'] errs'|errs' e| |]; try contradiction; [|eauto].
    destruct Hr as [[a3 [r3 [Hsrc3 [Hi Hend]]]] He']. cbn [fst] in Hi. subst i.
    rewrite (lookahead_eq _ a3 r3 Hsrc3). cbn [obind].
    destruct Hend as [Hend|Hend].
    - subst r3. cbn [starts_with]. rewrite (eqb_src_len a3 [] Hsrc3). eauto.
    - rewrite Hend. apply starts_with_2 in Hend. destruct Hend as [r4 Hr4].
      assert (Hsrc4 : src = (a3 ++ [c_percent; c_percent]) ++ r4).
      { rewrite <- app_assoc. rewrite Hsrc3. rewrite Hr4. reflexivity. }
      replace (byte_len a3 + byte_len [c_percent; c_percent]) with (byte_len (a3 ++ [c_percent; c_percent]))
        by (rewrite byte_len_app; reflexivity).
      rewrite (parse_ws_eq _ r4 Hsrc4). cbn [obind].
      destruct (_ =? src_len src); eauto.
  Qed.
End Total.

Lemma lex_parse_total : lex_parse_total_stmt.
Proof.
  intros fx src pos awc pe iw re_bad [s Hs]. unfold lex_from_str. rewrite Hs. cbn [obind].
  destruct (fix_header fx).
  - apply slice_from_inv in Hs. destruct Hs as [a [Hsrc Ha]]. subst pos.
    eapply parse_total. exact Hsrc.
  - apply (parse_total s awc pe iw re_bad fx [] s). reflexivity.
Qed.
