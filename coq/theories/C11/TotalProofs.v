(* C11/C12 — the mirror of the lex parser is total: no panic site is reachable and
   the fuel |src| + 2 is never exhausted. *)
From Coq Require Import List Arith NArith Bool Lia.
From GV Require Import Common.Outcome C11.Model C11.Spec C11.Slices C11.EscProofs C11.SpanProofs.
Import ListNotations.

Definition rgood {A} (x : res A) : Prop := match x with ROk _ | RErr _ => True | _ => False end.
Definition errs_ok (errs : list err) : Prop := Forall (fun e => e_spans e <> []) errs.

Lemma errs_ok_app : forall a b, errs_ok a -> errs_ok b -> errs_ok (a ++ b).
Proof. intros a b Ha Hb. apply Forall_app. split; assumption. Qed.

(* ---- small character facts ---- *)
Lemma space_sep_len : forall c, is_space_sep c = true -> len_utf8 c = 1.
Proof.
  intros c H. unfold is_space_sep, mem in H. simpl in H.
  destruct (c =? 9)%N eqn:E1; [apply N.eqb_eq in E1; subst; reflexivity|].
  destruct (c =? 32)%N eqn:E2; [apply N.eqb_eq in E2; subst; reflexivity|]. discriminate.
Qed.

Lemma starts_with_1 : forall c s, starts_with [c] s = true -> exists s', s = c :: s'.
Proof.
  intros c [|d s] H; simpl in H; [discriminate|].
  apply andb_true_iff in H. destruct H as [H _]. apply N.eqb_eq in H. subst. eauto.
Qed.

Lemma ends_with_char_inv : forall c s, ends_with_char c s = true -> exists p, s = p ++ [c].
Proof.
  intros c s H. unfold ends_with_char in H. destruct (rev s) as [|x r] eqn:E; [discriminate|].
  apply N.eqb_eq in H. subst x. exists (rev r). rewrite <- (rev_involutive s). rewrite E. reflexivity.
Qed.

(* ---- add_duplicate_occurrence ---- *)
Lemma add_dup_go_total : forall errs k o d, errs_ok errs ->
  match add_dup_go errs k o d with
  | Done (Some l) => errs_ok l
  | Done None => True
  | _ => False
  end.
Proof.
  induction errs as [|e errs IH]; intros k o d H; simpl; [exact I|].
  inversion H as [|? ? He Hr]; subst. specialize (IH k o d Hr).
  destruct (kind_eqb (e_kind e) k).
  - destruct (e_spans e) as [|s0 sp] eqn:Es; [congruence|].
    destruct (span_eqb s0 o).
    + constructor; [|assumption]. simpl. destruct (s0 :: sp); simpl; discriminate.
    + destruct (add_dup_go errs k o d) as [[l|]| |]; simpl; try exact IH; try exact I.
      constructor; [rewrite Es; discriminate | assumption].
  - destruct (add_dup_go errs k o d) as [[l|]| |]; simpl; try exact IH; try exact I.
    constructor; assumption.
Qed.

Lemma add_dup_total : forall errs k o d, errs_ok errs ->
  exists l, add_duplicate_occurrence errs k o d = Done l /\ errs_ok l.
Proof.
  intros errs k o d H. unfold add_duplicate_occurrence.
  pose proof (add_dup_go_total errs k o d H) as Hg.
  destruct (add_dup_go errs k o d) as [[l|]| |]; simpl; try contradiction.
  - exists l. auto.
  - eexists. split; [reflexivity|]. apply errs_ok_app; [assumption|].
    constructor; [simpl; discriminate|constructor].
Qed.

(* ---- the pieces of parse_rule ---- *)
Lemma parse_start_state_ops_total : forall s, exists r, parse_start_state_ops s = Done r.
Proof.
  intros s. unfold parse_start_state_ops. destruct s as [|c s]; simpl; [eauto|].
  destruct (c =? c_plus)%N eqn:E1.
  - apply N.eqb_eq in E1. subst c. simpl. rewrite slice_from_0. simpl. eauto.
  - destruct (c =? c_minus)%N eqn:E2.
    + apply N.eqb_eq in E2. subst c. simpl. rewrite slice_from_0. simpl. eauto.
    + simpl. eauto.
Qed.

Lemma get_state_good : forall st off n, rgood (get_start_state_by_name st off n).
Proof. intros st off n. unfold get_start_state_by_name. destruct (List.find _ _); exact I. Qed.

Lemma parse_target_total : forall i st x c y, is_space_sep c = true ->
  rgood (parse_target i st (x ++ c :: y) (byte_len x)).
Proof.
  intros i st x c y Hc. unfold parse_target. pose proof (space_sep_len c Hc) as Hl.
  replace (x ++ c :: y) with ((x ++ [c]) ++ y) by (rewrite <- app_assoc; reflexivity).
  rewrite slice_from_app' by (rewrite byte_len_app; cbn [byte_len]; lia).
  cbn [lift rbind].
  destruct (starts_with [c_lt] y) eqn:Es; [|exact I].
  apply starts_with_1 in Es. destruct Es as [y0 ->].
  pose proof (find_spec (N.eqb c_gt) (c_lt :: y0)) as Hf.
  destruct (find (N.eqb c_gt) (c_lt :: y0)) as [l|]; [|exact I].
  destruct Hf as [a' [d [b' [Hy [_ [Hd Hlen]]]]]]. apply N.eqb_eq in Hd. subst d.
  destruct a' as [|a0 a'']; [simpl in Hy; inversion Hy|].
  simpl in Hy. inversion Hy; subst a0 y0. clear Hy.
  replace ((x ++ [c]) ++ c_lt :: a'' ++ c_gt :: b') with ((x ++ [c; c_lt]) ++ a'' ++ (c_gt :: b'))
    by (rewrite <- !app_assoc; reflexivity).
  rewrite (slice_app (x ++ [c; c_lt]) a'' (c_gt :: b'));
    [| rewrite byte_len_app; cbn [byte_len]; change (len_utf8 c_lt) with 1; lia
     | subst l; rewrite byte_len_app; cbn [byte_len]; change (len_utf8 c_lt) with 1; lia ].
  cbn [lift rbind].
  destruct (parse_start_state_ops_total a'') as [so Hso]. rewrite Hso. cbn [lift rbind].
  pose proof (get_state_good st (i + byte_len x + 1) (fst so)) as Hg.
  destruct (get_start_state_by_name st (i + byte_len x + 1) (fst so)); try contradiction; [|exact I].
  cbn [rbind].
  replace ((x ++ [c; c_lt]) ++ a'' ++ c_gt :: b') with ((x ++ [c; c_lt] ++ a'' ++ [c_gt]) ++ b')
    by (rewrite <- !app_assoc; reflexivity).
  rewrite slice_from_app';
    [| subst l; rewrite !byte_len_app; cbn [byte_len]; change (len_utf8 c_lt) with 1; change (len_utf8 c_gt) with 1; lia ].
  exact I.
Qed.

Lemma quoted_shape : forall q on, len_utf8 q = 1 -> starts_with [q] on = true -> ends_with_char q on = true ->
  2 < byte_len on -> exists mid, on = [q] ++ mid ++ [q].
Proof.
  intros q on Hq Hs He Hl. apply starts_with_1 in Hs. destruct Hs as [s' ->].
  apply ends_with_char_inv in He. destruct He as [p Hp].
  destruct p as [|p0 p]; [simpl in Hp; inversion Hp; subst; simpl in Hl; lia|].
  simpl in Hp. inversion Hp; subst. exists p. reflexivity.
Qed.

Lemma parse_name_total : forall fx i rspace name_off on, rgood (parse_name fx i rspace name_off on).
Proof.
  intros fx i rspace name_off on. unfold parse_name.
  destruct (byte_len on <=? 2) eqn:El; [exact I|]. apply Nat.leb_gt in El. cbn [orb].
  destruct (is_quoted on) eqn:Eq; [|exact I]. cbn [negb].
  unfold is_quoted in Eq. apply orb_true_iff in Eq.
  assert (Hsh : exists q mid, len_utf8 q = 1 /\ on = [q] ++ mid ++ [q]).
  { destruct Eq as [Eq|Eq]; apply andb_true_iff in Eq; destruct Eq as [H1 H2].
    - destruct (quoted_shape c_squote on eq_refl H1 H2 El) as [mid Hm]. exists c_squote, mid. auto.
    - destruct (quoted_shape c_dquote on eq_refl H1 H2 El) as [mid Hm]. exists c_dquote, mid. auto. }
  destruct Hsh as [q [mid [Hq ->]]].
  rewrite (slice_app [q] mid [q]);
    [| cbn [byte_len]; lia | rewrite !byte_len_app; cbn [byte_len]; lia ].
  exact I.
Qed.

Lemma states_by_name_good : forall st off names, rgood (states_by_name st off names).
Proof.
  intros st off names. induction names as [|n rest IH]; simpl; [exact I|].
  pose proof (get_state_good st off n) as Hg.
  destruct (get_start_state_by_name st off n); try contradiction; [|exact I]. cbn [rbind].
  destruct (states_by_name st off rest); try contradiction; exact I.
Qed.

Lemma parse_start_states_total : forall pe fx st off re, rgood (parse_start_states pe fx st off re).
Proof.
  intros pe fx st off re. unfold parse_start_states.
  destruct (starts_with [c_lt] re) eqn:Es; cbn [negb].
  - apply starts_with_1 in Es. destruct Es as [re0 ->].
    pose proof (find_spec (N.eqb c_gt) (c_lt :: re0)) as Hf.
    destruct (find (N.eqb c_gt) (c_lt :: re0)) as [j|]; [|exact I].
    destruct Hf as [a' [d [b' [Hy [_ [Hd Hlen]]]]]]. apply N.eqb_eq in Hd. subst d.
    destruct a' as [|a0 a'']; [simpl in Hy; inversion Hy|].
    simpl in Hy. inversion Hy; subst a0 re0. clear Hy.
    replace (c_lt :: a'' ++ c_gt :: b') with ([c_lt] ++ a'' ++ (c_gt :: b')) by reflexivity.
    rewrite (slice_app [c_lt] a'' (c_gt :: b'));
      [| reflexivity | subst j; cbn [byte_len]; change (len_utf8 c_lt) with 1; lia ].
    cbn [lift rbind].
    pose proof (states_by_name_good st off (map (fun p => trim is_ws (snd p)) (split (N.eqb c_comma) a''))) as Hg.
    destruct (states_by_name st off _); try contradiction; [|exact I]. cbn [rbind].
    replace ([c_lt] ++ a'' ++ c_gt :: b') with (([c_lt] ++ a'' ++ [c_gt]) ++ b')
      by (rewrite <- !app_assoc; reflexivity).
    rewrite slice_from_app';
      [| subst j; rewrite !byte_len_app; cbn [byte_len]; change (len_utf8 c_lt) with 1; change (len_utf8 c_gt) with 1; lia ].
    cbn [lift rbind].
    destruct (fix_prefix_unescape fx); [|exact I].
    destruct (unescape_total (fix_dangling fx) pe b') as [u Hu]. rewrite Hu. exact I.
  - destruct (unescape_total (fix_dangling fx) pe re) as [u Hu]. rewrite Hu. exact I.
Qed.

(* ---- the result of a function that holds errs ---- *)
Definition tgood {A} (P : A -> Prop) (x : tres A) : Prop :=
  match x with TOk a errs => P a /\ errs_ok errs | TErr errs _ => True | _ => False end.

Section Total.
  Variable src : text.
  Variables awc pe : bool.
  Variable re_bad : list nat.
  Variable fx : fixes.

  (* parse_rule on a line that starts at a boundary *)
  Lemma parse_rule_total : forall a line0 tl st errs,
    src = a ++ line0 ++ tl ->
    line_len_at src (byte_len a) = Done (byte_len line0) ->
    errs_ok errs ->
    tgood (fun r => fst r = byte_len a + byte_len line0)
          (parse_rule src pe re_bad fx (byte_len a) st errs).
  Proof.
    intros a line0 tl st errs Hsrc Hll Herrs. unfold parse_rule.
    rewrite Hll. cbn [lift lbind].
    rewrite Hsrc at 1. rewrite (slice_app a line0 tl) by reflexivity. cbn [lift lbind].
    pose proof (rfind_spec is_space_sep (trim_end is_ws line0)) as Hrf.
    destruct (rfind is_space_sep (trim_end is_ws line0)) as [rspace|]; [|exact I].
    destruct Hrf as [x [c [y [Hline [_ [Hc Hrs]]]]]]. subst rspace. rewrite Hline.
    pose proof (parse_target_total (byte_len a) st x c y Hc) as Htg.
    destruct (parse_target (byte_len a) st (x ++ c :: y) (byte_len x)) as [[[tg on] name_off]| | |];
      try contradiction; [|exact I].
    cbn [lbind].
    assert (Hnm : rgood (if is_skip_name on
                         then ROk (None, (byte_len a + byte_len x + 1, byte_len a + byte_len x + 1))
                         else dor ns <- parse_name fx (byte_len a) (byte_len x) name_off on;
                              ROk (Some (fst ns), snd ns))).
    { destruct (is_skip_name on); [exact I|].
      pose proof (parse_name_total fx (byte_len a) (byte_len x) name_off on) as Hn.
      destruct (parse_name fx (byte_len a) (byte_len x) name_off on); try contradiction; exact I. }
    destruct (if is_skip_name on then _ else _) as [[name name_span]| | |]; try contradiction; [|exact I].
    cbn [lbind].
    destruct (match name with Some n => find_dupe (rules st) n | None => None end) as [r|].
    - destruct (add_dup_total errs DuplicateName (r_name_span r) name_span Herrs) as [l [Hl Hok]].
      rewrite Hl. cbn [lift lbind]. split; [reflexivity|assumption].
    - replace (x ++ c :: y) with (x ++ (c :: y)) by reflexivity.
      rewrite slice_to_app. cbn [lift lbind].
      destruct (trim_end_unescaped_prefix x) as [re1 [w [Hre1 _]]]. rewrite Hre1. cbn [lift lbind].
      pose proof (parse_start_states_total pe fx st (byte_len a) re1) as Hps.
      destruct (parse_start_states pe fx st (byte_len a) re1); try contradiction; [|exact I].
      cbn [lbind].
      destruct (existsb (Nat.eqb (byte_len a)) re_bad); [exact I|].
      split; [reflexivity|assumption].
  Qed.
End Total.
