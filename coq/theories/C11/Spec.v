(* C11 — declarative side: what the escape rewriting, the trailing-space trimming
   and the spans of a parsed lexer specification are supposed to be, and the
   statements proved in Proofs.v / exported in Properties/C11.v. *)
From Coq Require Import List Arith NArith Bool Lia.
From GV Require Import Common.Outcome C11.Model.
Import ListNotations.

(* ---- escapes ---------------------------------------------------------------- *)

(* What `\c` (c followed by [rest]) is rewritten to:
   - `\b` stays `\b` (word boundary), or becomes `\x08` (backspace) under posix_escapes;
   - `\c` is kept when c is a regex meta character or starts a lex escape literal
     (`\x4`, `\u0`, `\U0`, a digit, a f n r t v \, p P, d D s S w W, A z);
   - otherwise it stands for c itself. *)
Definition esc_image (pe : bool) (c : N) (rest : text) : text :=
  if (c =? c_b)%N then (if pe then [92; 120; 48; 56]%N else [92; 98]%N)
  else if is_meta_character c || lex_esc_literal (c :: rest) then [c_bsl; c]
  else [c].

(* The text read left to right: a backslash pairs with the character after it,
   everything else is copied; a lone final backslash is copied. *)
Fixpoint map_escapes (pe : bool) (re : text) : text :=
  match re with
  | [] => []
  | c :: re1 =>
      if (c =? c_bsl)%N then
        match re1 with
        | [] => [c]
        | c2 :: re2 => esc_image pe c2 re2 ++ map_escapes pe re2
        end
      else c :: map_escapes pe re1
  end.

(* the text ends in a backslash that escapes nothing *)
Fixpoint dangling (re : text) : bool :=
  match re with
  | [] => false
  | c :: re1 =>
      if (c =? c_bsl)%N then match re1 with [] => true | _ :: re2 => dangling re2 end
      else dangling re1
  end.

(* today's code, on every text that does not end in a lone backslash *)
Definition unescape_spec_stmt : Prop :=
  forall pe re, dangling re = false -> unescape re pe = Done (map_escapes pe re).

(* the repaired scanner, on every text *)
Definition unescape_fixed_spec_stmt : Prop :=
  forall pe re, unescape_gen true re pe = Done (map_escapes pe re).

(* today's code never panics, whatever the text *)
Definition unescape_total_stmt : Prop :=
  forall fixd pe re, exists r, unescape_gen fixd re pe = Done r.

(* today's code loses text when the regex ends in a lone backslash after an escape that was rewritten *)
Definition unescape_dangling_refuted_stmt : Prop :=
  exists pe re, dangling re = true /\ exists r, unescape re pe = Done r /\ r <> map_escapes pe re.

(* ---- trailing white space ------------------------------------------------------ *)

(* trailing Pattern_White_Space is removed, except that the first removed
   character is put back when an odd number of backslashes precedes it *)
Definition trim_end_unescaped_ref (s : text) : text :=
  let t := trim_end is_ws s in
  if Nat.odd (count_trailing_bsl t) then t ++ firstn 1 (skipn (length t) s) else t.

Definition trim_end_unescaped_spec_stmt : Prop :=
  forall s, trim_end_unescaped s = Done (trim_end_unescaped_ref s).

(* what [trim_end is_ws] is: the split of s into a part not ending in white space and white space *)
Definition trim_end_split_stmt : Prop :=
  forall s, exists w, s = trim_end is_ws s ++ w /\ forallb is_ws w = true /\
    (forall c, ends_with_char c (trim_end is_ws s) = true -> is_ws c = false).

(* ---- spans --------------------------------------------------------------------- *)

Definition selects (src : text) (sp : span) (name : text) : Prop :=
  slice src (fst sp) (snd sp) = Done name.

(* every rule name span selects the rule's name in [src]; a skip rule has an empty span;
   every declared start state's span selects its name (INITIAL, which the user did not write,
   comes first with the empty span (0,0)) *)
Definition names_indexed (src : text) (st : pstate) : Prop :=
  (forall r n, In r (rules st) -> r_name r = Some n -> selects src (r_name_span r) n) /\
  (forall r, In r (rules st) -> r_name r = None -> fst (r_name_span r) = snd (r_name_span r)) /\
  (exists declared, start_states st = start_states initial_state ++ declared /\
     forall s, In s declared -> selects src (ss_span s) (ss_name s)).

(* with the two span repairs, for every text, header end, flag setting: *)
Definition spans_index_source_stmt : Prop :=
  forall fx src pos awc pe re_bad st,
    fix_header fx = true -> fix_target_span fx = true ->
    lex_from_str fx src pos awc pe re_bad = Done (POk st) -> names_indexed src st.

(* today's code: the same holds for the text AFTER the header when no rule has a target ... *)
(* ... but not for the text the user wrote: *)
Definition spans_index_source_refuted_stmt : Prop :=
  exists src pos awc pe st,
    lex_from_str today src pos awc pe [] = Done (POk st) /\ ~ names_indexed src st.

(* and, independently of any header, not next to a target state *)
Definition target_span_refuted_stmt : Prop :=
  exists src awc pe st,
    lex_from_str {| fix_header := true; fix_target_span := false; fix_prefix_unescape := false; fix_dangling := false |}
                 src 0 awc pe [] = Done (POk st) /\ ~ names_indexed src st.

(* ---- totality -------------------------------------------------------------------- *)

(* [pos] is a character boundary of [src] (the header parser returns one) *)
Definition boundary (src : text) (pos : nat) : Prop := exists rest, slice_from src pos = Done rest.

(* the mirror of the lex parser returns a result for every text: no Rust panic site is
   reachable and the fuel |src| + 2 is never exhausted *)
Definition lex_parse_total_stmt : Prop :=
  forall fx src pos awc pe re_bad, boundary src pos ->
    exists r, lex_from_str fx src pos awc pe re_bad = Done r.

(* an Err result carries at least one error (C12) *)
Definition lex_errs_nonempty_stmt : Prop :=
  forall fx src pos awc pe re_bad errs,
    lex_from_str fx src pos awc pe re_bad = Done (PErrs errs) -> errs <> [].
