(* C11 — declarative side: what the escape rewriting, the trailing-space trimming
   and the spans of a parsed lexer specification are supposed to be, and the
   statements proved in Proofs.v / exported in Properties/C11.v. *)
From Coq Require Import List Arith NArith Bool Lia.
From GV Require Import Common.Outcome C11.Model.
Import ListNotations.

(* ---- escapes ---------------------------------------------------------------- *)

(* The escapes `\c…` (c not a punctuation character) to which the regex engine gives a meaning of
   its own — the list of regex-syntax's escape parser, the ones lex shares with it included; after
   any other character a backslash is not an escape of the engine.  [rest] is the text behind c.
     - hexadecimal: `\x` `\u` `\U` followed by a hexadecimal digit (`\x41`, `\u00e9`, `\U0001F600`)
       or by an opening brace (`\x{41}`, `\u{e9}`, `\U{1F600}`);
     - an octal digit 0-7: octal escape (or back reference, which the engine refuses by that name); `\8` and `\9`
       are not in the list: the engine knows no such escape ("unrecognized escape sequence") and to lex they are
       the characters 8 and 9;
     - the C escapes `\a \f \n \r \t \v`;
     - Unicode classes `\p \P`, Perl classes `\d \D \s \S \w \W`;
     - the assertions `\A \z \B` (`\b`, which lex reads as backspace, is treated apart in [esc_image]). *)
Definition rx_escape_class (c : N) (rest : text) : bool :=
  (mem c [120; 117; 85]%N                                   (* x u U *)
   && match rest with d :: _ => is_xdigit d || (d =? 123)%N | [] => false end)
  || is_octal c
  || mem c [97; 102; 110; 114; 116; 118]%N                  (* a f n r t v *)
  || (c =? c_bsl)%N
  || mem c [112; 80]%N                                      (* p P *)
  || mem c [100; 68; 115; 83; 119; 87]%N                    (* d D s S w W *)
  || mem c [65; 122; 66]%N.                                 (* A z B *)

(* special to lex / kept for the engine: `\c` followed by [rest] is one of the escapes above *)
Definition lex_special (c : N) (rest : text) : bool := rx_escape_class c rest.

(* special to the regex engine UNDER THE FLAGS IN FORCE: a meta character, or — when
   ignore_whitespace is on — a character the engine skips in that mode (White_Space; `#`,
   which starts a comment there, is a meta character already) *)
Definition rx_special (iw : bool) (c : N) : bool := is_meta_character c || (iw && is_rx_ws c).

(* the spelling of "c, escaped" that the regex crate accepts: `\c` for ASCII, `\x{HEX}` otherwise *)
Definition rx_escape (c : N) : text :=
  if (c <? 128)%N then [c_bsl; c] else [92; 120; 123]%N ++ hex_upper c ++ [125]%N.

(* What `\c` (c followed by [rest]) is rewritten to:
   - `\b` stays `\b` (word boundary), or becomes `\x08` (backspace) under posix_escapes;
   - `\c` stays escaped when c is special to lex or to the regex engine under the flags in force;
   - otherwise it stands for c itself. *)
Definition esc_image (iw pe : bool) (c : N) (rest : text) : text :=
  if (c =? c_b)%N then (if pe then [92; 120; 48; 56]%N else [92; 98]%N)
  else if lex_special c rest then [c_bsl; c]
  else if rx_special iw c then rx_escape c
  else [c].

(* The text read left to right: a backslash pairs with the character after it,
   everything else is copied; a lone final backslash is copied. *)
Fixpoint map_escapes (iw pe : bool) (re : text) : text :=
  match re with
  | [] => []
  | c :: re1 =>
      if (c =? c_bsl)%N then
        match re1 with
        | [] => [c]
        | c2 :: re2 => esc_image iw pe c2 re2 ++ map_escapes iw pe re2
        end
      else c :: map_escapes iw pe re1
  end.

(* the text ends in a backslash that escapes nothing *)
Fixpoint dangling (re : text) : bool :=
  match re with
  | [] => false
  | c :: re1 =>
      if (c =? c_bsl)%N then match re1 with [] => true | _ :: re2 => dangling re2 end
      else dangling re1
  end.

(* the table of the code (RE_LEX_ESC_LITERAL as it is now) is the list above *)
Definition esc_table_spec_stmt : Prop :=
  lex_esc_literal [] = false /\ forall c rest, lex_esc_literal (c :: rest) = rx_escape_class c rest.

(* the scanner without the lone-backslash and white-space repairs (when ignore_whitespace is off: today's
   behaviour), on every text that does not end in a lone backslash *)
Definition unescape_spec_stmt : Prop :=
  forall pe re, dangling re = false -> unescape re pe = Done (map_escapes false pe re).

(* the scanner with the lone-backslash repair, on every text (ignore_whitespace off) *)
Definition unescape_fixed_spec_stmt : Prop :=
  forall pe re, unescape_gen true false re pe = Done (map_escapes false pe re).

(* the scanner with both repairs, on every text, under every setting of the two flags it reads:
   "special to the regex engine" follows ignore_whitespace *)
Definition unescape_iw_spec_stmt : Prop :=
  forall iw pe re, unescape_gen true iw re pe = Done (map_escapes iw pe re).

(* the scanner never panics, whatever the text, the flags and the repairs *)
Definition unescape_total_stmt : Prop :=
  forall et eo fixd kw pe re, exists r, unescape_sel et eo fixd kw re pe = Done r.

(* the table before the repair lacked `\B` and the braced forms: the escapes of the auditors' rules
   `a\Bb`, `\x{41}`, `\u{e9}`, `\U{1F600}`, `[\x{41}-\x{43}]+` are escapes of the engine, the old table
   did not keep them, and the scanner over it (all other repairs in) rewrote
   `a\Bb` to `aBb` and `\x{41}` to `x{41}` (the letter x forty-one times) *)
Definition esc_table_orig_refuted_stmt : Prop :=
  (rx_escape_class 66%N [98%N] = true /\ lex_esc_literal_orig [66%N; 98%N] = false) /\
  (forall c, mem c [120; 117; 85]%N = true -> forall rest,
     rx_escape_class c (123%N :: rest) = true /\ lex_esc_literal_orig (c :: 123%N :: rest) = false) /\
  (exists pe re r, dangling re = false /\ unescape_gen_orig true false re pe = Done r /\
     r <> map_escapes false pe re /\ re = [97; 92; 66; 98]%N /\ r = [97; 66; 98]%N) /\
  (exists pe re r, dangling re = false /\ unescape_gen_orig true false re pe = Done r /\
     r <> map_escapes false pe re /\ re = [92; 120; 123; 52; 49; 125]%N /\ r = [120; 123; 52; 49; 125]%N) /\
  (exists pe re r, dangling re = false /\ unescape_gen_orig true false re pe = Done r /\
     r <> map_escapes false pe re /\
     re = [91; 92; 120; 123; 52; 49; 125; 45; 92; 120; 123; 52; 51; 125; 93; 43]%N /\
     r = [91; 120; 123; 52; 49; 125; 45; 120; 123; 52; 51; 125; 93; 43]%N).

(* the same seen from the entry point: `%%\na\Bb 'T'\n` yields the rule T with regex `aBb` before the
   repair, `a\Bb` (= what [map_escapes] says) now *)
Definition esc_witness_src : text := [37; 37; 10; 97; 92; 66; 98; 32; 39; 84; 39; 10]%N.
Definition lex_esc_refuted_stmt : Prop :=
  exists st st',
    lex_from_str audited esc_witness_src 0 false false false [] = Done (POk st) /\
    map r_re_str (rules st) = [[97; 66; 98]%N] /\
    lex_from_str repaired esc_witness_src 0 false false false [] = Done (POk st') /\
    map r_re_str (rules st') = [[97; 92; 66; 98]%N] /\
    map r_re_str (rules st') = [map_escapes false false [97; 92; 66; 98]%N].

(* the table the second audit read listed EVERY digit: `\8` and `\9` — escapes of neither side — were kept escaped, and the
   regex engine then refuses the rule.  The scanner over that table (all other repairs in) leaves `a\9b` and `[\8\9]+` as
   they are where the declarative image is `a9b`, `[89]+`; next to octal escapes only the non-octal digit differs
   (`\18` = the escape `\1` followed by 8, `\78` likewise: both tables keep them) *)
Definition esc_table_digit_refuted_stmt : Prop :=
  (forall c, mem c [56; 57]%N = true -> forall rest,
     rx_escape_class c rest = false /\ lex_esc_literal (c :: rest) = false /\ lex_esc_literal_dec (c :: rest) = true) /\
  (forall c rest, mem c [56; 57]%N = false -> lex_esc_literal_dec (c :: rest) = lex_esc_literal (c :: rest)) /\
  (forall pe, exists re r, dangling re = false /\ unescape_gen_dec true false re pe = Done r /\
     r <> map_escapes false pe re /\ unescape_gen true false re pe = Done (map_escapes false pe re) /\
     re = [97; 92; 57; 98]%N /\ r = [97; 92; 57; 98]%N /\ map_escapes false pe re = [97; 57; 98]%N) /\
  (forall pe, exists re r, dangling re = false /\ unescape_gen_dec true false re pe = Done r /\
     r <> map_escapes false pe re /\
     re = [91; 92; 56; 92; 57; 93; 43]%N /\ r = re /\ map_escapes false pe re = [91; 56; 57; 93; 43]%N) /\
  (forall pe re, In re [[92; 49; 56]; [92; 55; 56]; [92; 48; 57]]%N ->
     unescape_gen_dec true false re pe = Done re /\ unescape_gen true false re pe = Done re).

(* the same seen from the entry point: `%%\na\9b 'T'\n` yields the rule T with regex `a\9b` (which Rule::new refuses) before the
   repair, `a9b` (= what [map_escapes] says) now — under posix_escapes too *)
Definition digit_witness_src : text := [37; 37; 10; 97; 92; 57; 98; 32; 39; 84; 39; 10]%N.
Definition lex_esc_digit_refuted_stmt : Prop :=
  forall pe, exists st st',
    lex_from_str audited_b digit_witness_src 0 false pe false [] = Done (POk st) /\
    map r_re_str (rules st) = [[97; 92; 57; 98]%N] /\
    lex_from_str repaired digit_witness_src 0 false pe false [] = Done (POk st') /\
    map r_re_str (rules st') = [[97; 57; 98]%N] /\
    map r_re_str (rules st') = [map_escapes false pe [97; 92; 57; 98]%N].

(* the repaired code, positively: for c = 8, 9, whatever the flags and whatever follows, `\c` stands for c *)
Definition nonoctal_digit_plain_stmt : Prop :=
  forall iw pe c, mem c [56; 57]%N = true ->
    (forall rest, esc_image iw pe c rest = [c]) /\
    unescape_gen true iw [c_bsl; c] pe = Done [c].

(* the code as first read loses text when the regex ends in a lone backslash after an escape that was rewritten *)
Definition unescape_dangling_refuted_stmt : Prop :=
  exists pe re, dangling re = true /\ exists r, unescape re pe = Done r /\ r <> map_escapes false pe re.

(* the code before the white-space repair (lone-backslash repair in) under ignore_whitespace:
   `a\ b` is rewritten to `a b`, in which the engine skips the blank *)
Definition unescape_iw_refuted_stmt : Prop :=
  exists pe re, dangling re = false /\
    exists r, unescape_gen true false re pe = Done r /\ r <> map_escapes true pe re /\
              re = [97; 92; 32; 98]%N /\ r = [97; 32; 98]%N.

(* the same seen from the entry point: `%grmtools{ignore_whitespace}\n%%\na\ b 'T'\n` (header end 28,
   ignore_whitespace in force) yields the single rule T with regex `a b`; with the repair, `a\ b` *)
Definition iw_witness_src : text :=
  [37; 103; 114; 109; 116; 111; 111; 108; 115; 123; 105; 103; 110; 111; 114; 101; 95; 119; 104; 105; 116; 101;
   115; 112; 97; 99; 101; 125; 10; 37; 37; 10; 97; 92; 32; 98; 32; 39; 84; 39; 10]%N.
Definition lex_iw_refuted_stmt : Prop :=
  exists st st',
    lex_from_str pinned iw_witness_src 28 false false true [] = Done (POk st) /\
    map r_re_str (rules st) = [[97; 32; 98]%N] /\
    lex_from_str repaired iw_witness_src 28 false false true [] = Done (POk st') /\
    map r_re_str (rules st') = [[97; 92; 32; 98]%N] /\
    map r_re_str (rules st') = [map_escapes true false [97; 92; 32; 98]%N].

(* what the images guarantee, stated without the scanner:
   (1) a character special to neither side loses its backslash;
   (2) a character special to the regex engine under the flags in force is never left bare: its image
       starts with a backslash and is `\c` itself or contains no skipped character at all;
   (3) with ignore_whitespace off nothing depends on the white-space class *)
Definition esc_image_cases_stmt : Prop :=
  (forall iw pe c rest, (c =? c_b)%N = false -> lex_special c rest = false -> rx_special iw c = false ->
     esc_image iw pe c rest = [c]) /\
  (forall iw pe c rest, (c =? c_b)%N = false -> rx_special iw c = true ->
     exists t, esc_image iw pe c rest = c_bsl :: t /\
               (t = [c] \/ forallb (fun d => negb (is_rx_ws d)) t = true)) /\
  (forall pe c rest, esc_image false pe c rest =
     if (c =? c_b)%N then (if pe then [92; 120; 48; 56]%N else [92; 98]%N)
     else if is_meta_character c || rx_escape_class c rest then [c_bsl; c] else [c]).

(* with the flag off the white-space repair changes nothing: the parser with and without it
   (whatever the other repairs) returns the same result on every text *)
Definition with_iw (b : bool) (fx : fixes) : fixes :=
  {| fix_header := fix_header fx; fix_target_span := fix_target_span fx;
     fix_prefix_unescape := fix_prefix_unescape fx; fix_dangling := fix_dangling fx; fix_iw := b;
     fix_esc_table := fix_esc_table fx; fix_decl_blanks := fix_decl_blanks fx;
     fix_trim_blank := fix_trim_blank fx; fix_esc_octal := fix_esc_octal fx |}.
Definition iw_off_irrelevant_stmt : Prop :=
  forall fx b src pos awc pe re_bad,
    lex_from_str (with_iw b fx) src pos awc pe false re_bad = lex_from_str fx src pos awc pe false re_bad.

(* ---- trailing white space ------------------------------------------------------ *)

(* trailing blanks — space and tab, the characters that separate a regex from its name — are removed,
   except that the first removed character is put back when an odd number of backslashes precedes it *)
Definition trim_end_unescaped_ref_gen (f : N -> bool) (s : text) : text :=
  let t := trim_end f s in
  if Nat.odd (count_trailing_bsl t) then t ++ firstn 1 (skipn (length t) s) else t.
Definition trim_end_unescaped_ref : text -> text := trim_end_unescaped_ref_gen is_space_sep.

Definition trim_end_unescaped_spec_stmt : Prop :=
  forall s, trim_end_unescaped s = Done (trim_end_unescaped_ref s).

(* what [trim_end is_space_sep] is: the split of s into a part not ending in a blank and blanks —
   nothing but spaces and tabs is ever removed from the end of a regex *)
Definition trim_end_split_stmt : Prop :=
  forall s, exists w, s = trim_end is_space_sep s ++ w /\ forallb is_space_sep w = true /\
    (forall c, ends_with_char c (trim_end is_space_sep s) = true -> is_space_sep c = false).

(* hence: a regex that ends in a character other than space, tab and backslash is left alone *)
Definition trim_end_keeps_stmt : Prop :=
  forall s c, is_space_sep c = false -> trim_end_unescaped (s ++ [c]) = Done (s ++ [c]).

(* before the repair every Pattern_White_Space character was removed: the auditor's `a<FF>` and
   `x<LRM>` lost their last character (and so did NEL and RLM), which the repaired function keeps *)
Definition trim_orig_refuted_stmt : Prop :=
  (forall c, mem c [12; 133; 8206; 8207]%N = true ->
     trim_end_unescaped_orig [97; c]%N = Done [97]%N /\ trim_end_unescaped [97; c]%N = Done [97; c]%N) /\
  trim_end_unescaped_orig [120; 8206]%N = Done [120]%N.

(* the same seen from the entry point: `%%\na<FF> 'T'\n` *)
Definition trim_witness_src : text := [37; 37; 10; 97; 12; 32; 39; 84; 39; 10]%N.
Definition lex_trim_refuted_stmt : Prop :=
  exists st st',
    lex_from_str audited trim_witness_src 0 false false false [] = Done (POk st) /\
    map r_re_str (rules st) = [[97]%N] /\
    lex_from_str repaired trim_witness_src 0 false false false [] = Done (POk st') /\
    map r_re_str (rules st') = [[97; 12]%N].

(* ---- start-state declarations ---------------------------------------------------- *)

(* `%s A  B\n%%\n<A,B>a 'a'\n` (two blanks between the names): rejected before the repair with
   InvalidStartStateName at the second blank (5,5); now the states A (3,4) and B (6,7), inclusive,
   and the rule restricted to both.  `%x C \t D\n%%\n<C,D>b 'b'\n` likewise (exclusive) *)
Definition decl_witness_src : text :=
  [37; 115; 32; 65; 32; 32; 66; 10; 37; 37; 10; 60; 65; 44; 66; 62; 97; 32; 39; 97; 39; 10]%N.
Definition decl_witness_src2 : text :=
  [37; 120; 32; 67; 32; 9; 32; 68; 10; 37; 37; 10; 60; 67; 44; 68; 62; 98; 32; 39; 98; 39; 10]%N.
Definition decl_blanks_refuted_stmt : Prop :=
  lex_from_str audited decl_witness_src 0 false false false [] =
    Done (PErrs [{| e_kind := InvalidStartStateName; e_spans := [(5, 5)] |}]) /\
  (exists e, lex_from_str audited decl_witness_src2 0 false false false [] = Done (PErrs [e]) /\
             e_kind e = InvalidStartStateName) /\
  (exists st, lex_from_str repaired decl_witness_src 0 false false false [] = Done (POk st) /\
     map (fun s => (ss_name s, ss_span s, ss_exclusive s)) (start_states st) =
       [([73; 78; 73; 84; 73; 65; 76]%N, (0, 0), false); ([65]%N, (3, 4), false); ([66]%N, (6, 7), false)] /\
     map r_start_states (rules st) = [[1; 2]]) /\
  (exists st, lex_from_str repaired decl_witness_src2 0 false false false [] = Done (POk st) /\
     map (fun s => (ss_name s, ss_span s, ss_exclusive s)) (start_states st) =
       [([73; 78; 73; 84; 73; 65; 76]%N, (0, 0), false); ([67]%N, (3, 4), true); ([68]%N, (7, 8), true)]).

(* what the names of a declaration are, stated without the splitter: the maximal runs of
   non-white-space characters of the parameter text, in order, each with the place where it stands *)
Fixpoint runs_go (s : text) (off start : nat) (cur : text) : list (nat * text) :=
  match s with
  | [] => match cur with [] => [] | _ => [(start, rev cur)] end
  | c :: s' =>
      if is_ws c
      then match cur with
           | [] => runs_go s' (off + len_utf8 c) (off + len_utf8 c) []
           | _ => (start, rev cur) :: runs_go s' (off + len_utf8 c) (off + len_utf8 c) []
           end
      else runs_go s' (off + len_utf8 c) start (c :: cur)
  end.
Definition runs (s : text) : list (nat * text) := runs_go s 0 0 [].
Definition declared_names_spec_stmt : Prop :=
  forall base params,
    declared_names true base params =
    map (fun p => (snd p, (base + fst p, base + fst p + byte_len (snd p)))) (runs params).

(* ---- spans --------------------------------------------------------------------- *)

Definition selects (src : text) (sp : span) (name : text) : Prop :=
  slice src (fst sp) (snd sp) = Done name.

(* every rule name span selects the rule's name in [src]; a skip rule has an empty span;
   every declared start state's span selects its name (INITIAL, which the user did not write,
   comes first with the empty span (0,0)) *)
Definition names_indexed (src : text) (st : pstate) : Prop :=
  (forall r n, In r (rules st) -> r_name r = Some n -> selects src (r_name_span r) n) /\
  (forall r, In r (rules st) -> r_name r = None -> fst (r_name_span r) = snd (r_name_span r)) /\
  (exists declared, start_states st = start_states initial_state ++ declared /\
     forall s, In s declared -> selects src (ss_span s) (ss_name s)).

(* with the two span repairs, for every text, header end, flag setting: *)
Definition spans_index_source_stmt : Prop :=
  forall fx src pos awc pe iw re_bad st,
    fix_header fx = true -> fix_target_span fx = true ->
    lex_from_str fx src pos awc pe iw re_bad = Done (POk st) -> names_indexed src st.

(* today's code: the same holds for the text AFTER the header when no rule has a target ... *)
(* ... but not for the text the user wrote: *)
Definition spans_index_source_refuted_stmt : Prop :=
  exists src pos awc pe iw st,
    lex_from_str today src pos awc pe iw [] = Done (POk st) /\ ~ names_indexed src st.

(* and, independently of any header, not next to a target state *)
Definition target_span_refuted_stmt : Prop :=
  exists src awc pe iw st,
    lex_from_str (mk_fixes true false false false false false false false false)
                 src 0 awc pe iw [] = Done (POk st) /\ ~ names_indexed src st.

(* ---- totality -------------------------------------------------------------------- *)

(* [pos] is a character boundary of [src] (the header parser returns one) *)
Definition boundary (src : text) (pos : nat) : Prop := exists rest, slice_from src pos = Done rest.

(* the mirror of the lex parser returns a result for every text: no Rust panic site is
   reachable and the fuel |src| + 2 is never exhausted *)
Definition lex_parse_total_stmt : Prop :=
  forall fx src pos awc pe iw re_bad, boundary src pos ->
    exists r, lex_from_str fx src pos awc pe iw re_bad = Done r.

(* an Err result carries at least one error (C12) *)
Definition lex_errs_nonempty_stmt : Prop :=
  forall fx src pos awc pe iw re_bad errs,
    lex_from_str fx src pos awc pe iw re_bad = Done (PErrs errs) -> errs <> [].
