(* C11 — declarative side: what the escape rewriting, the trailing-space trimming
   and the spans of a parsed lexer specification are supposed to be, and the
   statements proved in Proofs.v / exported in Properties/C11.v. *)
From Coq Require Import List Arith NArith Bool Lia.
From GV Require Import Common.Outcome C11.Model.
Import ListNotations.

(* ---- escapes ---------------------------------------------------------------- *)

(* special to lex: the character after the backslash starts a lex escape literal
   (`\x4`, `\u0`, `\U0`, a digit, a f n r t v \, p P, d D s S w W, A z) *)
Definition lex_special (c : N) (rest : text) : bool := lex_esc_literal (c :: rest).

(* special to the regex engine UNDER THE FLAGS IN FORCE: a meta character, or — when
   ignore_whitespace is on — a character the engine skips in that mode (White_Space; `#`,
   which starts a comment there, is a meta character already) *)
Definition rx_special (iw : bool) (c : N) : bool := is_meta_character c || (iw && is_rx_ws c).

(* the spelling of "c, escaped" that the regex crate accepts: `\c` for ASCII, `\x{HEX}` otherwise *)
Definition rx_escape (c : N) : text :=
  if (c <? 128)%N then [c_bsl; c] else [92; 120; 123]%N ++ hex_upper c ++ [125]%N.

(* What `\c` (c followed by [rest]) is rewritten to:
   - `\b` stays `\b` (word boundary), or becomes `\x08` (backspace) under posix_escapes;
   - `\c` stays escaped when c is special to lex or to the regex engine under the flags in force;
   - otherwise it stands for c itself. *)
Definition esc_image (iw pe : bool) (c : N) (rest : text) : text :=
  if (c =? c_b)%N then (if pe then [92; 120; 48; 56]%N else [92; 98]%N)
  else if lex_special c rest then [c_bsl; c]
  else if rx_special iw c then rx_escape c
  else [c].

(* The text read left to right: a backslash pairs with the character after it,
   everything else is copied; a lone final backslash is copied. *)
Fixpoint map_escapes (iw pe : bool) (re : text) : text :=
  match re with
  | [] => []
  | c :: re1 =>
      if (c =? c_bsl)%N then
        match re1 with
        | [] => [c]
        | c2 :: re2 => esc_image iw pe c2 re2 ++ map_escapes iw pe re2
        end
      else c :: map_escapes iw pe re1
  end.

(* the text ends in a backslash that escapes nothing *)
Fixpoint dangling (re : text) : bool :=
  match re with
  | [] => false
  | c :: re1 =>
      if (c =? c_bsl)%N then match re1 with [] => true | _ :: re2 => dangling re2 end
      else dangling re1
  end.

(* the code as first read (and today's, when ignore_whitespace is off), on every text that does
   not end in a lone backslash *)
Definition unescape_spec_stmt : Prop :=
  forall pe re, dangling re = false -> unescape re pe = Done (map_escapes false pe re).

(* the scanner with the lone-backslash repair, on every text (ignore_whitespace off) *)
Definition unescape_fixed_spec_stmt : Prop :=
  forall pe re, unescape_gen true false re pe = Done (map_escapes false pe re).

(* the scanner with both repairs, on every text, under every setting of the two flags it reads:
   "special to the regex engine" follows ignore_whitespace *)
Definition unescape_iw_spec_stmt : Prop :=
  forall iw pe re, unescape_gen true iw re pe = Done (map_escapes iw pe re).

(* the scanner never panics, whatever the text, the flags and the repairs *)
Definition unescape_total_stmt : Prop :=
  forall fixd kw pe re, exists r, unescape_gen fixd kw re pe = Done r.

(* the code as first read loses text when the regex ends in a lone backslash after an escape that was rewritten *)
Definition unescape_dangling_refuted_stmt : Prop :=
  exists pe re, dangling re = true /\ exists r, unescape re pe = Done r /\ r <> map_escapes false pe re.

(* today's code (lone-backslash repair in, white-space repair not) under ignore_whitespace:
   `a\ b` is rewritten to `a b`, in which the engine skips the blank *)
Definition unescape_iw_refuted_stmt : Prop :=
  exists pe re, dangling re = false /\
    exists r, unescape_gen true false re pe = Done r /\ r <> map_escapes true pe re /\
              re = [97; 92; 32; 98]%N /\ r = [97; 32; 98]%N.

(* the same seen from the entry point: `%grmtools{ignore_whitespace}\n%%\na\ b 'T'\n` (header end 28,
   ignore_whitespace in force) yields the single rule T with regex `a b`; with the repair, `a\ b` *)
Definition iw_witness_src : text :=
  [37; 103; 114; 109; 116; 111; 111; 108; 115; 123; 105; 103; 110; 111; 114; 101; 95; 119; 104; 105; 116; 101;
   115; 112; 97; 99; 101; 125; 10; 37; 37; 10; 97; 92; 32; 98; 32; 39; 84; 39; 10]%N.
Definition lex_iw_refuted_stmt : Prop :=
  exists st st',
    lex_from_str pinned iw_witness_src 28 false false true [] = Done (POk st) /\
    map r_re_str (rules st) = [[97; 32; 98]%N] /\
    lex_from_str repaired iw_witness_src 28 false false true [] = Done (POk st') /\
    map r_re_str (rules st') = [[97; 92; 32; 98]%N] /\
    map r_re_str (rules st') = [map_escapes true false [97; 92; 32; 98]%N].

(* what the images guarantee, stated without the scanner:
   (1) a character special to neither side loses its backslash;
   (2) a character special to the regex engine under the flags in force is never left bare: its image
       starts with a backslash and is `\c` itself or contains no skipped character at all;
   (3) with ignore_whitespace off nothing depends on the white-space class *)
Definition esc_image_cases_stmt : Prop :=
  (forall iw pe c rest, (c =? c_b)%N = false -> lex_special c rest = false -> rx_special iw c = false ->
     esc_image iw pe c rest = [c]) /\
  (forall iw pe c rest, (c =? c_b)%N = false -> rx_special iw c = true ->
     exists t, esc_image iw pe c rest = c_bsl :: t /\
               (t = [c] \/ forallb (fun d => negb (is_rx_ws d)) t = true)) /\
  (forall pe c rest, esc_image false pe c rest =
     if (c =? c_b)%N then (if pe then [92; 120; 48; 56]%N else [92; 98]%N)
     else if is_meta_character c || lex_esc_literal (c :: rest) then [c_bsl; c] else [c]).

(* with the flag off the white-space repair changes nothing: the parser with and without it
   (whatever the other repairs) returns the same result on every text *)
Definition with_iw (b : bool) (fx : fixes) : fixes :=
  {| fix_header := fix_header fx; fix_target_span := fix_target_span fx;
     fix_prefix_unescape := fix_prefix_unescape fx; fix_dangling := fix_dangling fx; fix_iw := b |}.
Definition iw_off_irrelevant_stmt : Prop :=
  forall fx b src pos awc pe re_bad,
    lex_from_str (with_iw b fx) src pos awc pe false re_bad = lex_from_str fx src pos awc pe false re_bad.

(* ---- trailing white space ------------------------------------------------------ *)

(* trailing Pattern_White_Space is removed, except that the first removed
   character is put back when an odd number of backslashes precedes it *)
Definition trim_end_unescaped_ref (s : text) : text :=
  let t := trim_end is_ws s in
  if Nat.odd (count_trailing_bsl t) then t ++ firstn 1 (skipn (length t) s) else t.

Definition trim_end_unescaped_spec_stmt : Prop :=
  forall s, trim_end_unescaped s = Done (trim_end_unescaped_ref s).

(* what [trim_end is_ws] is: the split of s into a part not ending in white space and white space *)
Definition trim_end_split_stmt : Prop :=
  forall s, exists w, s = trim_end is_ws s ++ w /\ forallb is_ws w = true /\
    (forall c, ends_with_char c (trim_end is_ws s) = true -> is_ws c = false).

(* ---- spans --------------------------------------------------------------------- *)

Definition selects (src : text) (sp : span) (name : text) : Prop :=
  slice src (fst sp) (snd sp) = Done name.

(* every rule name span selects the rule's name in [src]; a skip rule has an empty span;
   every declared start state's span selects its name (INITIAL, which the user did not write,
   comes first with the empty span (0,0)) *)
Definition names_indexed (src : text) (st : pstate) : Prop :=
  (forall r n, In r (rules st) -> r_name r = Some n -> selects src (r_name_span r) n) /\
  (forall r, In r (rules st) -> r_name r = None -> fst (r_name_span r) = snd (r_name_span r)) /\
  (exists declared, start_states st = start_states initial_state ++ declared /\
     forall s, In s declared -> selects src (ss_span s) (ss_name s)).

(* with the two span repairs, for every text, header end, flag setting: *)
Definition spans_index_source_stmt : Prop :=
  forall fx src pos awc pe iw re_bad st,
    fix_header fx = true -> fix_target_span fx = true ->
    lex_from_str fx src pos awc pe iw re_bad = Done (POk st) -> names_indexed src st.

(* today's code: the same holds for the text AFTER the header when no rule has a target ... *)
(* ... but not for the text the user wrote: *)
Definition spans_index_source_refuted_stmt : Prop :=
  exists src pos awc pe iw st,
    lex_from_str today src pos awc pe iw [] = Done (POk st) /\ ~ names_indexed src st.

(* and, independently of any header, not next to a target state *)
Definition target_span_refuted_stmt : Prop :=
  exists src awc pe iw st,
    lex_from_str {| fix_header := true; fix_target_span := false; fix_prefix_unescape := false; fix_dangling := false;
                    fix_iw := false |}
                 src 0 awc pe iw [] = Done (POk st) /\ ~ names_indexed src st.

(* ---- totality -------------------------------------------------------------------- *)

(* [pos] is a character boundary of [src] (the header parser returns one) *)
Definition boundary (src : text) (pos : nat) : Prop := exists rest, slice_from src pos = Done rest.

(* the mirror of the lex parser returns a result for every text: no Rust panic site is
   reachable and the fuel |src| + 2 is never exhausted *)
Definition lex_parse_total_stmt : Prop :=
  forall fx src pos awc pe iw re_bad, boundary src pos ->
    exists r, lex_from_str fx src pos awc pe iw re_bad = Done r.

(* an Err result carries at least one error (C12) *)
Definition lex_errs_nonempty_stmt : Prop :=
  forall fx src pos awc pe iw re_bad errs,
    lex_from_str fx src pos awc pe iw re_bad = Done (PErrs errs) -> errs <> [].
