(* C11 round trip — the formal printer of lexer specifications.

   An ABSTRACT specification [aspec] is what the user means: the declared start
   states (name, exclusive?) in order and the rules in order — the start states
   a rule is restricted to, its regular expression as WRITTEN, its name (None =
   skip rule), its target-state operation.

   A LAYOUT [layout] is everything the `.l` syntax leaves open:
     - the white space / whole-line comments before the first declaration line;
     - how the start states are grouped into declaration lines (a line declares
       1 + |dl_seps| consecutive states of one kind), the spelling of the
       keyword (`%s`, `%S`, `%x`, `%X` followed by any alphanumerics), the blanks
       after the keyword (>= 1), the blanks (>= 1) between two names, the blanks
       after the last name, the line separator, and the white space / comments
       after the line;
     - the horizontal blanks after the `%%`;
     - in the rules section (where a line must not begin with a blank): the line
       separators and whole-line comments before the first rule and after each
       rule line;
     - per rule line: the blanks around each name of the `<A,B>` prefix, the
       blanks after the regular expression, the LAST horizontal blank (space or
       tab — the line is split there), the quoting style of the name ('n' or
       "n"; `;`, `""` or `''` for a skip rule), the blanks after the name;
     - the end of the text: nothing, a comment without line separator, or a
       closing `%%` followed by white space.

   [print_spec lay sp] is the text; [spec_of pe iw lay sp] is the parser state the
   text denotes: rules in order (regex with its lex escapes rewritten
   — [map_escapes] of Spec.v —, start-state and target ids = position of the
   name in INITIAL :: declared names, name_span = where the name stands in the
   text) and the start states INITIAL, then the declared ones in order with
   id = position, kind, span = where the name stands in the text.

   Definitions only (extracted by coq/extract/C11ROUND.v). *)
From Coq Require Import List Arith NArith Bool Lia.
From GV Require Import Common.Outcome C11.Model C11.Spec.
Import ListNotations.

(* ---- abstract specifications ------------------------------------------------ *)
Record arule := {
  a_pre : list text;                 (* start states the rule is restricted to; [] = no <..> prefix *)
  a_re : text;                       (* the regular expression as written *)
  a_name : option text;              (* None = skip rule *)
  a_target : option (text * op) }.   (* <S> = (S, ReplaceStack), <+S> = (S, Push), <-S> = (S, Pop) *)

Record aspec := {
  a_states : list (text * bool);     (* declared start states: (name, exclusive?) *)
  a_rules : list arule }.

(* ---- layouts ------------------------------------------------------------------ *)
Inductive qstyle := QSq | QDq.                 (* 'n'  "n" *)
Inductive skipstyle := SkSemi | SkDq | SkSq.   (* ;  ""  '' *)

(* between declaration lines: any white-space character, or a comment `//body` ended by a line separator *)
Inductive ditem := DWs (c : N) | DComment (body : text) (nl : N).
(* between rule lines: a line separator, or a comment line `//body` ended by a line separator *)
Inductive ritem := RNl (c : N) | RComment (body : text) (nl : N).

Record dline_lay := {
  dl_upper : bool;          (* %S / %X instead of %s / %x *)
  dl_kw : text;             (* the rest of the keyword: alphanumerics *)
  dl_gap : text;            (* blanks between the keyword and the first name (>= 1) *)
  dl_seps : list text;      (* the blanks (>= 1) before the 2nd, 3rd, … name: the line declares 1 + |dl_seps| states *)
  dl_trail : text;          (* blanks after the last name *)
  dl_nl : N;                (* the line separator *)
  dl_after : list ditem }.  (* white space / comments after the line *)

Record rline_lay := {
  rl_pads : list (text * text);   (* blanks before / after the k-th name of the <..> prefix (default: none) *)
  rl_blanks : text;               (* blanks (spaces, tabs) after the regular expression, before the last one *)
  rl_sp : N;                      (* the last horizontal blank: space or tab *)
  rl_quote : qstyle;              (* quoting of the name *)
  rl_skip : skipstyle;            (* spelling of "no name" *)
  rl_trail : text;                (* blanks after the name *)
  rl_after : list ritem }.        (* line separators / comment lines after the line *)

Inductive final_lay :=
| FEof (cmt : option text)        (* end of text, possibly after a comment without line separator *)
| FClose (ws : text).             (* closing %% followed by white space *)

Record layout := {
  l_pre : list ditem;             (* before the first declaration line *)
  l_dlines : list dline_lay;
  l_sep_blanks : text;            (* spaces / tabs after the %% *)
  l_gap0 : list ritem;            (* before the first rule line *)
  l_rlines : list rline_lay;      (* one per rule *)
  l_final : final_lay }.

(* ---- printing ------------------------------------------------------------------- *)
Definition print_ditem (it : ditem) : text :=
  match it with DWs c => [c] | DComment b nl => [c_slash; c_slash] ++ b ++ [nl] end.
Definition print_ditems (its : list ditem) : text := flat_map print_ditem its.

Definition print_ritem (it : ritem) : text :=
  match it with RNl c => [c] | RComment b nl => [c_slash; c_slash] ++ b ++ [nl] end.
Definition print_ritems (its : list ritem) : text := flat_map print_ritem its.

(* s S x X *)
Definition kw_char (excl upper : bool) : N :=
  (if excl then (if upper then 88 else 120) else (if upper then 83 else 115))%N.

(* the 2nd, 3rd, … name of a declaration line, each behind its blanks *)
Fixpoint print_more (seps : list text) (names : list text) : text :=
  match seps, names with
  | s :: seps', n :: names' => s ++ n ++ print_more seps' names'
  | _, _ => []
  end.

Definition group_kind (grp : list (text * bool)) : bool :=
  match grp with (_, e) :: _ => e | [] => false end.
Definition group_first (grp : list (text * bool)) : text :=
  match grp with (n, _) :: _ => n | [] => [] end.

(* keyword and blanks: what precedes the first name *)
Definition dline_head (dl : dline_lay) (grp : list (text * bool)) : text :=
  [c_percent; kw_char (group_kind grp) (dl_upper dl)] ++ dl_kw dl ++ dl_gap dl.

(* the names with their separating blanks *)
Definition dline_names (dl : dline_lay) (grp : list (text * bool)) : text :=
  group_first grp ++ print_more (dl_seps dl) (map fst (tl grp)).

(* what follows the last name *)
Definition dline_tail (dl : dline_lay) : text :=
  dl_trail dl ++ [dl_nl dl] ++ print_ditems (dl_after dl).

Definition print_dline (dl : dline_lay) (grp : list (text * bool)) : text :=
  dline_head dl grp ++ dline_names dl grp ++ dline_tail dl.

Definition dl_count (dl : dline_lay) : nat := S (length (dl_seps dl)).

Fixpoint print_dlines (dls : list dline_lay) (sts : list (text * bool)) : text :=
  match dls with
  | [] => []
  | dl :: dls' =>
      print_dline dl (firstn (dl_count dl) sts) ++ print_dlines dls' (skipn (dl_count dl) sts)
  end.

(* <A , B> *)
Fixpoint pre_pieces (pads : list (text * text)) (names : list text) : list text :=
  match names with
  | [] => []
  | n :: ns =>
      let p := hd ([], []) pads in
      (fst p ++ n ++ snd p) :: pre_pieces (tl pads) ns
  end.

Fixpoint join_comma (pieces : list text) : text :=
  match pieces with
  | [] => []
  | [p] => p
  | p :: ps => p ++ c_comma :: join_comma ps
  end.

Definition print_prefix (pads : list (text * text)) (names : list text) : text :=
  match names with
  | [] => []
  | _ => [c_lt] ++ join_comma (pre_pieces pads names) ++ [c_gt]
  end.

Definition print_op (o : op) : text :=
  match o with ReplaceStack => [] | Push => [c_plus] | Pop => [c_minus] end.

Definition print_target (t : option (text * op)) : text :=
  match t with
  | None => []
  | Some (s, o) => [c_lt] ++ print_op o ++ s ++ [c_gt]
  end.

Definition qchar (q : qstyle) : N := match q with QSq => c_squote | QDq => c_dquote end.

Definition print_name (rl : rline_lay) (n : option text) : text :=
  match n with
  | Some n => [qchar (rl_quote rl)] ++ n ++ [qchar (rl_quote rl)]
  | None =>
      match rl_skip rl with
      | SkSemi => [c_semi] | SkDq => [c_dquote; c_dquote] | SkSq => [c_squote; c_squote]
      end
  end.

(* the line up to and including the last horizontal blank *)
Definition rline_re_field (rl : rline_lay) (r : arule) : text :=
  print_prefix (rl_pads rl) (a_pre r) ++ a_re r ++ rl_blanks rl ++ [rl_sp rl].

(* … and up to the name *)
Definition rline_head (rl : rline_lay) (r : arule) : text :=
  rline_re_field rl r ++ print_target (a_target r).

Definition print_rline (rl : rline_lay) (r : arule) : text :=
  rline_head rl r ++ print_name rl (a_name r) ++ rl_trail rl.

Fixpoint print_rlines (rs : list (arule * rline_lay)) : text :=
  match rs with
  | [] => []
  | (r, rl) :: rs' => print_rline rl r ++ print_ritems (rl_after rl) ++ print_rlines rs'
  end.

Definition print_final (f : final_lay) : text :=
  match f with
  | FEof None => []
  | FEof (Some b) => [c_slash; c_slash] ++ b
  | FClose ws => [c_percent; c_percent] ++ ws
  end.

(* the declarations section, up to and including the blanks after the %% *)
Definition print_decl_section (lay : layout) (sp : aspec) : text :=
  print_ditems (l_pre lay) ++ print_dlines (l_dlines lay) (a_states sp) ++
  [c_percent; c_percent] ++ l_sep_blanks lay.

Definition print_rules_section (lay : layout) (sp : aspec) : text :=
  print_ritems (l_gap0 lay) ++ print_rlines (combine (a_rules sp) (l_rlines lay)) ++ print_final (l_final lay).

Definition print_spec (lay : layout) (sp : aspec) : text :=
  print_decl_section lay sp ++ print_rules_section lay sp.

(* ---- what the text denotes -------------------------------------------------------- *)
Definition initial_name : text := [73; 78; 73; 84; 73; 65; 76]%N.       (* INITIAL *)

(* all start-state names, in id order *)
Definition state_names (sp : aspec) : list text := initial_name :: map fst (a_states sp).

(* id of a start state = position of its name *)
Fixpoint index_of (n : text) (names : list text) : nat :=
  match names with
  | [] => 0
  | m :: names' => if text_eqb m n then 0 else S (index_of n names')
  end.

(* the 2nd, 3rd, … state of a declaration line: [off] is the offset of the blanks before it *)
Fixpoint more_states (excl : bool) (off id : nat) (seps : list text) (names : list text) : list start_state :=
  match seps, names with
  | s :: seps', n :: names' =>
      {| ss_id := id; ss_name := n; ss_span := (off + byte_len s, off + byte_len s + byte_len n);
         ss_exclusive := excl |}
      :: more_states excl (off + byte_len s + byte_len n) (S id) seps' names'
  | _, _ => []
  end.

(* the states of one declaration line that starts at [off]; the first gets [id] *)
Definition dline_states (off id : nat) (dl : dline_lay) (grp : list (text * bool)) : list start_state :=
  let p := off + byte_len (dline_head dl grp) in
  {| ss_id := id; ss_name := group_first grp; ss_span := (p, p + byte_len (group_first grp));
     ss_exclusive := group_kind grp |}
  :: more_states (group_kind grp) (p + byte_len (group_first grp)) (S id) (dl_seps dl) (map fst (tl grp)).

Fixpoint states_of (off id : nat) (dls : list dline_lay) (sts : list (text * bool)) : list start_state :=
  match dls with
  | [] => []
  | dl :: dls' =>
      let grp := firstn (dl_count dl) sts in
      dline_states off id dl grp
      ++ states_of (off + byte_len (print_dline dl grp)) (id + dl_count dl) dls' (skipn (dl_count dl) sts)
  end.

Definition target_of (names : list text) (t : option (text * op)) : option (nat * op) :=
  match t with Some (s, o) => Some (index_of s names, o) | None => None end.

(* the rule a line that starts at [off] denotes *)
Definition rule_of (pe iw : bool) (names : list text) (off : nat) (rl : rline_lay) (r : arule) : rule :=
  {| r_name := a_name r;
     r_name_span :=
       match a_name r with
       | Some n => let p := off + byte_len (rline_head rl r) + 1 in (p, p + byte_len n)
       | None => let p := off + byte_len (rline_re_field rl r) in (p, p)
       end;
     r_re_str := map_escapes iw pe (a_re r);
     r_start_states := map (fun n => index_of n names) (a_pre r);
     r_target := target_of names (a_target r) |}.

Fixpoint rules_of (pe iw : bool) (names : list text) (off : nat) (rs : list (arule * rline_lay)) : list rule :=
  match rs with
  | [] => []
  | (r, rl) :: rs' =>
      rule_of pe iw names off rl r
      :: rules_of pe iw names (off + byte_len (print_rline rl r ++ print_ritems (rl_after rl))) rs'
  end.

Definition initial_start_state : start_state :=
  {| ss_id := 0; ss_name := initial_name; ss_span := (0, 0); ss_exclusive := false |}.

Definition states_of_spec (lay : layout) (sp : aspec) : list start_state :=
  initial_start_state :: states_of (byte_len (print_ditems (l_pre lay))) 1 (l_dlines lay) (a_states sp).

Definition spec_of (pe iw : bool) (lay : layout) (sp : aspec) : pstate :=
  {| rules := rules_of pe iw (state_names sp)
                (byte_len (print_decl_section lay sp ++ print_ritems (l_gap0 lay)))
                (combine (a_rules sp) (l_rlines lay));
     start_states := states_of_spec lay sp |}.
