(* C11 round trip — the declarations section: the printed section parses to the
   declared start states (declarations_roundtrip), and what [states_of_spec] is. *)
From Coq Require Import List Arith NArith Bool Lia.
From GV Require Import Common.Outcome C11.Model C11.Spec C11.Slices C11.Print C11.RoundSpec C11.RoundBase.
Import ListNotations.

(* ---- lists, texts --------------------------------------------------------------------- *)
Ltac assoc := repeat (try rewrite <- !app_assoc; cbn [app]).
Ltac assoc_eq := subst; assoc; reflexivity.
Lemma len_percent : len_utf8 c_percent = 1. Proof. reflexivity. Qed.
Lemma len_slash : len_utf8 c_slash = 1. Proof. reflexivity. Qed.
Lemma len_kw_char : forall e u, len_utf8 (kw_char e u) = 1. Proof. intros [] []; reflexivity. Qed.
Ltac blen := repeat rewrite ?byte_len_app, ?byte_len_cons; cbn [byte_len];
  rewrite ?len_percent, ?len_slash, ?len_kw_char; try lia.

Lemma drop_while_app_all : forall f (w r : text), forallb f w = true -> drop_while f (w ++ r) = drop_while f r.
Proof.
  intros f w r. induction w as [|c w IH]; simpl; intros H; [reflexivity|].
  destruct (f c); [auto|discriminate].
Qed.

Lemma trim_end_app_all : forall f a w, forallb f w = true -> trim_end f (a ++ w) = trim_end f a.
Proof.
  intros f a w H. unfold trim_end. rewrite rev_app_distr. rewrite drop_while_app_all; [reflexivity|].
  rewrite forallb_rev. exact H.
Qed.

Lemma trim_end_nows : forall f a b, b <> [] -> forallb (fun c => negb (f c)) b = true ->
  trim_end f (a ++ b) = a ++ b.
Proof.
  intros f a b Hb Hn. destruct (exists_last Hb) as [b' [x E]]. subst b.
  rewrite forallb_app in Hn. apply andb_prop in Hn. destruct Hn as [_ Hx]. simpl in Hx.
  rewrite andb_true_r in Hx. apply negb_true in Hx. rewrite app_assoc. apply trim_end_id. exact Hx.
Qed.

Lemma take_while_drop_while : forall f (s : text), take_while f (drop_while f s) = [].
Proof.
  intros f s. induction s as [|c s IH]; simpl; [reflexivity|].
  destruct (f c) eqn:E; [exact IH|]. simpl. rewrite E. reflexivity.
Qed.

Lemma take_while_app_all : forall f (w r : text), forallb f w = true -> take_while f (w ++ r) = w ++ take_while f r.
Proof.
  intros f w r. induction w as [|c w IH]; simpl; intros H; [reflexivity|].
  destruct (f c); [|discriminate]. rewrite IH by exact H. reflexivity.
Qed.

Lemma nodup_b_app : forall a b, nodup_b (a ++ b) = true ->
  nodup_b a = true /\ nodup_b b = true /\ (forall n, In n a -> ~ In n b).
Proof.
  induction a as [|x a IH]; intros b H; simpl in *.
  - repeat split; auto.
  - apply andb_prop in H. destruct H as [Hx H]. apply negb_true in Hx.
    unfold mem_text in Hx. rewrite existsb_app in Hx. apply orb_false_elim in Hx. destruct Hx as [Hxa Hxb].
    destruct (IH b H) as [Ha [Hb Hd]]. split; [|split].
    + unfold mem_text at 1. rewrite Hxa, Ha. reflexivity.
    + exact Hb.
    + intros n [Hn|Hn]; [subst n; apply mem_text_false; exact Hxb|auto].
Qed.

(* ---- the parser's small steps, with the text given by an equation -------------------------- *)
Lemma slice_from_eq : forall src pre r, src = pre ++ r -> slice_from src (byte_len pre) = Done r.
Proof. intros; subst. apply slice_from_at. Qed.

Lemma parse_ws_eq : forall src pre w r, src = pre ++ w ++ r -> forallb is_ws w = true -> hd_not is_ws r ->
  parse_ws src (byte_len pre) = Done (byte_len pre + byte_len w).
Proof. intros; subst. apply parse_ws_at; assumption. Qed.

Lemma parse_ws_stay_eq : forall src pre r, src = pre ++ r -> hd_not is_ws r ->
  parse_ws src (byte_len pre) = Done (byte_len pre).
Proof. intros; subst. apply parse_ws_stay; assumption. Qed.

Lemma lookahead_eq : forall src p pre r, src = pre ++ r ->
  lookahead_is src p (byte_len pre) = Done (if starts_with p r then Some (byte_len pre + byte_len p) else None).
Proof. intros; subst. apply lookahead_at. Qed.

Lemma line_len_at_eq : forall src pre line rest, src = pre ++ line ++ rest -> no_nl line = true -> line_end rest ->
  line_len_at src (byte_len pre) = Done (byte_len line).
Proof. intros; subst. apply line_len_at_line; assumption. Qed.

Lemma slice_eq : forall src pre m rest i j, src = pre ++ m ++ rest -> i = byte_len pre -> j = byte_len pre + byte_len m ->
  slice src i j = Done m.
Proof. intros; subst. apply slice_at. Qed.

Lemma parse_ws_idem : forall src p k, parse_ws src p = Done k -> parse_ws src k = Done k.
Proof.
  intros src p k H. unfold parse_ws in *.
  destruct (slice_from src p) as [rest| |] eqn:E; simpl in H; try discriminate.
  inversion H; subst k; clear H.
  rewrite (slice_from_shift src p rest (take_while is_ws rest) (drop_while is_ws rest) E)
    by (symmetry; apply take_drop_while).
  simpl. rewrite take_while_drop_while. simpl. f_equal. lia.
Qed.

(* ---- the loop: one round, white space ------------------------------------------------------ *)
Definition loop_at (src : text) (awc : bool) (fuel' i : nat) (st : pstate) (errs : list err) : tres (nat * pstate) :=
  dol cmt <- lift (if awc then lookahead_is src [c_slash; c_slash] i else Done None) holding errs;
  match cmt with
  | Some _ =>
      dol rest <- lift (slice_from src i) holding errs;
      let i' := match find is_line_sep rest with Some k => k + i | None => src_len src end in
      parse_declarations_loop src awc repaired fuel' i' st errs
  | None =>
      if i =? src_len src then TErr errs (mk_error PrematureEnd i) else
      dol sep <- lift (lookahead_is src [c_percent; c_percent] i) holding errs;
      match sep with
      | Some j => dol k <- lift (parse_spaces src j) holding errs; TOk (k, st) errs
      | None =>
          match parse_declaration src repaired i st errs with
          | TOk (i', st') errs' => parse_declarations_loop src awc repaired fuel' i' st' errs'
          | TErr errs' e => TErr errs' e
          | TPanic => TPanic | TFuel => TFuel
          end
      end
  end.

Lemma loop_S : forall src awc fuel i j st errs, parse_ws src i = Done j ->
  parse_declarations_loop src awc repaired (S fuel) i st errs = loop_at src awc fuel j st errs.
Proof. intros src awc fuel i j st errs H. cbn [parse_declarations_loop]. rewrite H. reflexivity. Qed.

(* the loop begins by skipping white space: it does not matter where in it the position is *)
Lemma loop_ws_same : forall src awc fuel p q st errs, parse_ws src p = parse_ws src q ->
  parse_declarations_loop src awc repaired fuel p st errs = parse_declarations_loop src awc repaired fuel q st errs.
Proof. intros src awc fuel p q st errs H. destruct fuel as [|fuel]; [reflexivity|]. cbn [parse_declarations_loop]. rewrite H. reflexivity. Qed.

Lemma loop_ws_back : forall src awc fuel p k st errs, parse_ws src p = Done k ->
  parse_declarations_loop src awc repaired fuel k st errs = parse_declarations_loop src awc repaired fuel p st errs.
Proof. intros src awc fuel p k st errs H. apply loop_ws_same. rewrite H. eapply parse_ws_idem; eauto. Qed.

Lemma loop_skip : forall src awc fuel pre w r st errs, src = pre ++ w ++ r -> forallb is_ws w = true ->
  parse_declarations_loop src awc repaired fuel (byte_len pre) st errs =
  parse_declarations_loop src awc repaired fuel (byte_len pre + byte_len w) st errs.
Proof.
  intros src awc fuel pre w r st errs Hs Hw. apply loop_ws_same. unfold parse_ws.
  rewrite (slice_from_eq src pre (w ++ r) Hs).
  assert (E : slice_from src (byte_len pre + byte_len w) = Done r).
  { replace (byte_len pre + byte_len w) with (byte_len (pre ++ w)) by blen. apply slice_from_eq. assoc_eq. }
  rewrite E. simpl. rewrite take_while_app_all by exact Hw. f_equal. blen.
Qed.

(* ---- comments, white space between the lines ------------------------------------------------- *)
Lemma loop_comment : forall src fuel pre body nl r st errs,
  src = pre ++ [c_slash; c_slash] ++ body ++ nl :: r -> no_nl body = true -> is_line_sep nl = true ->
  parse_declarations_loop src true repaired (S fuel) (byte_len pre) st errs =
  parse_declarations_loop src true repaired fuel (byte_len pre + byte_len ([c_slash; c_slash] ++ body)) st errs.
Proof.
  intros src fuel pre body nl r st errs Hs Hb Hnl.
  rewrite (loop_S src true fuel (byte_len pre) (byte_len pre)).
  2:{ eapply parse_ws_stay_eq; [exact Hs|]. reflexivity. }
  unfold loop_at.
  rewrite (lookahead_eq src [c_slash; c_slash] pre _ Hs). rewrite starts_with_app. cbn [lift lbind].
  rewrite (slice_from_eq src pre _ Hs). cbn [lift lbind].
  replace ([c_slash; c_slash] ++ body ++ nl :: r) with (([c_slash; c_slash] ++ body) ++ nl :: r) by assoc_eq.
  rewrite find_hit; [|exact Hb|exact Hnl].
  f_equal. lia.
Qed.

Fixpoint ncomments (items : list ditem) : nat :=
  match items with
  | [] => 0
  | DWs _ :: r => ncomments r
  | DComment _ _ :: r => S (ncomments r)
  end.

Lemma loop_ditems : forall awc items src fuel pre r st errs,
  src = pre ++ print_ditems items ++ r -> forallb (wf_ditem awc) items = true ->
  parse_declarations_loop src awc repaired (ncomments items + fuel) (byte_len pre) st errs =
  parse_declarations_loop src awc repaired fuel (byte_len pre + byte_len (print_ditems items)) st errs.
Proof.
  intros awc items. induction items as [|it items IH]; intros src fuel pre r st errs Hs Hw.
  - simpl. f_equal. lia.
  - simpl in Hw. apply andb_prop in Hw. destruct Hw as [Hit Hw].
    destruct it as [c|body nl].
    + simpl in Hit. cbn [ncomments].
      change (print_ditems (DWs c :: items)) with ([c] ++ print_ditems items) in *.
      rewrite (loop_skip src awc _ pre [c] (print_ditems items ++ r)); [|assoc_eq|simpl; rewrite Hit; reflexivity].
      replace (byte_len pre + byte_len [c]) with (byte_len (pre ++ [c])) by blen.
      rewrite (IH src fuel (pre ++ [c]) r st errs); [|assoc_eq|exact Hw].
      f_equal. blen.
    + simpl in Hit. unfold wf_comment in Hit. apply andb_prop in Hit. destruct Hit as [Hit H0].
      apply andb_prop in Hit. destruct Hit as [Hawc H]. subst awc.
      change (print_ditems (DComment body nl :: items))
        with (([c_slash; c_slash] ++ body ++ [nl]) ++ print_ditems items) in *.
      cbn [ncomments plus].
      rewrite (loop_comment src _ pre body nl (print_ditems items ++ r)); [|assoc_eq|assumption|assumption].
      replace (byte_len pre + byte_len ([c_slash; c_slash] ++ body)) with (byte_len (pre ++ [c_slash; c_slash] ++ body)) by blen.
      rewrite (loop_skip src true _ (pre ++ [c_slash; c_slash] ++ body) [nl] (print_ditems items ++ r));
        [|assoc_eq|simpl; rewrite (line_sep_ws _ H0); reflexivity].
      replace (byte_len (pre ++ [c_slash; c_slash] ++ body) + byte_len [nl])
        with (byte_len (pre ++ [c_slash; c_slash] ++ body ++ [nl])) by blen.
      rewrite (IH src fuel (pre ++ [c_slash; c_slash] ++ body ++ [nl]) r st errs); [|assoc_eq|exact Hw].
      f_equal. blen.
Qed.

(* ---- the %% ---------------------------------------------------------------------------------- *)
Lemma loop_sep : forall awc src pre blanks rest st errs fuel,
  src = pre ++ [c_percent; c_percent] ++ blanks ++ rest ->
  forallb is_space_sep blanks = true -> hd_not is_space_sep rest ->
  parse_declarations_loop src awc repaired (S fuel) (byte_len pre) st errs =
  TOk (byte_len pre + 2 + byte_len blanks, st) errs.
Proof.
  intros awc src pre blanks rest st errs fuel Hs Hb Hr.
  rewrite (loop_S src awc fuel (byte_len pre) (byte_len pre)).
  2:{ eapply parse_ws_stay_eq; [exact Hs|]. reflexivity. }
  unfold loop_at.
  assert (Hc : lift (if awc then lookahead_is src [c_slash; c_slash] (byte_len pre) else Done None) = ROk None).
  { destruct awc; [|reflexivity]. rewrite (lookahead_eq src _ pre _ Hs). reflexivity. }
  rewrite Hc. cbn [lift lbind].
  assert (Hl : (byte_len pre =? src_len src) = false).
  { apply Nat.eqb_neq. unfold src_len. rewrite Hs. blen. }
  rewrite Hl.
  rewrite (lookahead_eq src [c_percent; c_percent] pre _ Hs). rewrite starts_with_app. cbn [lift lbind].
  replace (byte_len pre + byte_len [c_percent; c_percent]) with (byte_len (pre ++ [c_percent; c_percent])) by blen.
  assert (Hp : parse_spaces src (byte_len (pre ++ [c_percent; c_percent])) =
               Done (byte_len (pre ++ [c_percent; c_percent]) + byte_len blanks)).
  { subst src. replace (pre ++ [c_percent; c_percent] ++ blanks ++ rest) with ((pre ++ [c_percent; c_percent]) ++ blanks ++ rest) by assoc_eq.
    apply parse_spaces_at; assumption. }
  rewrite Hp. cbn [lift lbind]. f_equal. f_equal. blen.
Qed.

(* ---- the names of a declaration line ------------------------------------------------------------ *)
Definition nows (t : text) : bool := forallb (fun c => negb (is_ws c)) t.

Lemma ssn_nows : forall n, is_start_state_name n = true -> nows n = true.
Proof. intros n H. apply all_name_no_ws. apply (state_name_chars n H). Qed.

Lemma ssn_nonnil : forall n, is_start_state_name n = true -> n <> [].
Proof. intros n H. apply (state_name_chars n H). Qed.

Lemma ssn_hd : forall n r, is_start_state_name n = true -> hd_not is_ws (n ++ r).
Proof.
  intros n r H. destruct (state_name_chars n H) as [_ [_ [c [n' [E Hc]]]]]. subst n. simpl.
  apply name_char_not_ws. apply alpha_name_char. exact Hc.
Qed.

Lemma all_ssn_nows : forall ns, forallb is_start_state_name ns = true -> forallb nows ns = true.
Proof. intros ns. apply forallb_imp. exact ssn_nows. Qed.

Lemma print_more_forallb : forall (P : N -> bool) seps ns,
  forallb (forallb P) seps = true -> forallb (forallb P) ns = true -> forallb P (print_more seps ns) = true.
Proof.
  intros P seps. induction seps as [|s seps IH]; intros ns Hs Hn; [reflexivity|].
  destruct ns as [|n ns]; [reflexivity|]. simpl in Hs, Hn.
  apply andb_prop in Hs. destruct Hs as [Hs Hss]. apply andb_prop in Hn. destruct Hn as [Hn Hns].
  cbn [print_more]. rewrite !forallb_app. rewrite Hs, Hn. apply IH; assumption.
Qed.

(* the blanks between two names: not empty, white space that does not end the line *)
Definition sep_ok (s : text) : bool := negb (is_nil s) && forallb is_iws s.
Definition sep_ws (s : text) : bool := negb (is_nil s) && forallb is_ws s.

Lemma sep_ok_ws : forall seps, forallb sep_ok seps = true -> forallb sep_ws seps = true.
Proof.
  intros seps. apply forallb_imp. intros s H. unfold sep_ok, sep_ws in *.
  apply andb_prop in H. destruct H as [H1 H2]. rewrite H1. apply all_iws_ws. exact H2.
Qed.

Lemma sep_ws_all : forall seps, forallb sep_ws seps = true -> forallb (forallb is_ws) seps = true.
Proof. intros seps. apply forallb_imp. intros s H. unfold sep_ws in H. apply andb_prop in H. apply H. Qed.

Lemma split_go_nows : forall f n rest off start cur, forallb (fun c => negb (f c)) n = true ->
  split_go f (n ++ rest) off start cur = split_go f rest (off + byte_len n) start (rev n ++ cur).
Proof.
  intros f n. induction n as [|c n IH]; intros rest off start cur H.
  - simpl. replace (off + 0) with off by lia. reflexivity.
  - simpl in H. apply andb_prop in H. destruct H as [Hc H]. apply negb_true in Hc.
    cbn [app split_go]. rewrite Hc. rewrite IH by exact H. cbn [byte_len rev].
    replace (off + len_utf8 c + byte_len n) with (off + (len_utf8 c + byte_len n)) by lia.
    rewrite <- app_assoc. reflexivity.
Qed.

(* the 2nd, 3rd, … name with its span: [off] is the offset of the blanks before it *)
Fixpoint more_names (off : nat) (seps : list text) (names : list text) : list (text * span) :=
  match seps, names with
  | s :: seps', n :: names' =>
      (n, (off + byte_len s, off + byte_len s + byte_len n))
      :: more_names (off + byte_len s + byte_len n) seps' names'
  | _, _ => []
  end.

Definition named (base : nat) (p : nat * text) : text * span :=
  (snd p, (base + fst p, base + fst p + byte_len (snd p))).

(* a run of blanks yields empty pieces only: they are filtered out *)
Lemma split_ws_run : forall w rest off, forallb is_ws w = true ->
  filter nonempty_piece (split_go is_ws (w ++ rest) off off []) =
  filter nonempty_piece (split_go is_ws rest (off + byte_len w) (off + byte_len w) []).
Proof.
  induction w as [|c w IH]; intros rest off H.
  - cbn [app byte_len]. rewrite Nat.add_0_r. reflexivity.
  - simpl in H. apply andb_prop in H. destruct H as [Hc H].
    cbn [app split_go]. rewrite Hc. cbn [rev filter nonempty_piece snd].
    rewrite IH by exact H. cbn [byte_len].
    replace (off + len_utf8 c + byte_len w) with (off + (len_utf8 c + byte_len w)) by lia. reflexivity.
Qed.

Lemma nonempty_snoc : forall (a b : text), b <> [] -> nonempty_piece (0, a ++ b) = true.
Proof. intros a b H. unfold nonempty_piece. cbn [snd]. destruct a; [destruct b; [contradiction|reflexivity]|reflexivity]. Qed.

Lemma split_names : forall base seps ns n0 off start cur,
  nows n0 = true -> n0 <> [] -> forallb nows ns = true -> forallb (fun n => negb (is_nil n)) ns = true ->
  forallb sep_ws seps = true ->
  map (named base) (filter nonempty_piece (split_go is_ws (n0 ++ print_more seps ns) off start cur)) =
  (rev cur ++ n0, (base + start, base + start + byte_len (rev cur ++ n0)))
  :: more_names (base + off + byte_len n0) seps ns.
Proof.
  intros base seps. induction seps as [|s seps IH]; intros ns n0 off start cur Hn0 Hnn Hns Hne Hs.
  - cbn [print_more more_names]. rewrite split_go_nows by exact Hn0. cbn [split_go filter].
    rewrite rev_app_distr, rev_involutive.
    assert (E : nonempty_piece (start, rev cur ++ n0) = true) by (apply (nonempty_snoc (rev cur) n0 Hnn)).
    rewrite E. reflexivity.
  - destruct ns as [|n ns].
    + cbn [print_more more_names]. rewrite split_go_nows by exact Hn0. cbn [split_go filter].
      rewrite rev_app_distr, rev_involutive.
      assert (E : nonempty_piece (start, rev cur ++ n0) = true) by (apply (nonempty_snoc (rev cur) n0 Hnn)).
      rewrite E. reflexivity.
    + simpl in Hns, Hs, Hne. apply andb_prop in Hns. destruct Hns as [Hn Hns].
      apply andb_prop in Hne. destruct Hne as [Hnne Hne].
      apply andb_prop in Hs. destruct Hs as [Hs Hss].
      unfold sep_ws in Hs. apply andb_prop in Hs. destruct Hs as [Hsn Hsw].
      destruct s as [|c s]; [discriminate|]. simpl in Hsw. apply andb_prop in Hsw. destruct Hsw as [Hc Hsw].
      cbn [print_more more_names]. rewrite split_go_nows by exact Hn0.
      cbn [app split_go]. rewrite Hc. cbn [filter].
      rewrite rev_app_distr, rev_involutive.
      assert (E : nonempty_piece (start, rev cur ++ n0) = true) by (apply (nonempty_snoc (rev cur) n0 Hnn)).
      rewrite E. cbn [map]. unfold named at 1. cbn [fst snd]. f_equal.
      rewrite split_ws_run by exact Hsw.
      assert (Hn' : n <> []) by (destruct n; [discriminate|discriminate]).
      rewrite (IH ns n _ _ [] Hn Hn' Hns Hne Hss). cbn [rev app byte_len].
      replace (base + (off + byte_len n0 + len_utf8 c + byte_len s))
        with (base + off + byte_len n0 + (len_utf8 c + byte_len s)) by lia.
      reflexivity.
Qed.

Lemma declared_names_eq : forall base seps ns n0,
  nows n0 = true -> n0 <> [] -> forallb nows ns = true -> forallb (fun n => negb (is_nil n)) ns = true ->
  forallb sep_ws seps = true ->
  declared_names true base (n0 ++ print_more seps ns) =
  (n0, (base, base + byte_len n0)) :: more_names (base + byte_len n0) seps ns.
Proof.
  intros base seps ns n0 H0 H0n Hn Hnn Hs. unfold declared_names, split.
  change (fun p : nat * text => (snd p, (base + fst p, base + fst p + byte_len (snd p)))) with (named base).
  rewrite split_names by assumption.
  cbn [rev app]. replace (base + 0) with base by lia. reflexivity.
Qed.

Definition end_of (l : list (text * span)) (d : nat) : nat :=
  match rev l with (_, (_, e)) :: _ => e | [] => d end.

Lemma end_of_cons2 : forall x y l d, end_of (x :: y :: l) d = end_of (y :: l) d.
Proof. intros x y l d. unfold end_of. simpl rev. destruct (rev l) as [|z zs]; reflexivity. Qed.

Lemma end_of_names : forall seps ns n a b d,
  end_of ((n, (a, b)) :: more_names b seps ns) d = b + byte_len (print_more seps ns).
Proof.
  induction seps as [|s seps IH]; intros ns n a b d.
  - cbn. lia.
  - destruct ns as [|n' ns]; [cbn; lia|].
    cbn [more_names print_more]. rewrite end_of_cons2. rewrite IH. blen.
Qed.

Lemma more_names_fst : forall seps ns off, length ns = length seps -> map fst (more_names off seps ns) = ns.
Proof.
  induction seps as [|s seps IH]; intros [|n ns] off H; simpl in H; try discriminate; [reflexivity|].
  cbn [more_names map fst]. f_equal. apply IH. lia.
Qed.

Lemma trim_end_names : forall seps ns a n0 w,
  is_start_state_name n0 = true -> forallb is_start_state_name ns = true -> forallb is_ws w = true ->
  trim_end is_ws (a ++ n0 ++ print_more seps ns ++ w) = a ++ n0 ++ print_more seps ns.
Proof.
  induction seps as [|s seps IH]; intros ns a n0 w H0 Hn Hw.
  - cbn [print_more app]. rewrite app_nil_r. rewrite app_assoc. rewrite trim_end_app_all by exact Hw.
    apply trim_end_nows; [apply ssn_nonnil; exact H0|apply ssn_nows; exact H0].
  - destruct ns as [|n ns].
    + cbn [print_more app]. rewrite app_nil_r. rewrite app_assoc. rewrite trim_end_app_all by exact Hw.
      apply trim_end_nows; [apply ssn_nonnil; exact H0|apply ssn_nows; exact H0].
    + simpl in Hn. apply andb_prop in Hn. destruct Hn as [Hn Hns].
      cbn [print_more].
      replace (a ++ n0 ++ (s ++ n ++ print_more seps ns) ++ w)
        with ((a ++ n0 ++ s) ++ n ++ print_more seps ns ++ w) by assoc_eq.
      rewrite IH by assumption. assoc_eq.
Qed.

(* ---- declare_loop ----------------------------------------------------------------------------------- *)
Fixpoint states_from (e : bool) (id : nat) (nl : list (text * span)) : list start_state :=
  match nl with
  | [] => []
  | (n, sp) :: r => {| ss_id := id; ss_name := n; ss_span := sp; ss_exclusive := e |} :: states_from e (S id) r
  end.

Lemma find_name_none : forall n sts, ~ In n (map ss_name sts) ->
  List.find (fun s => text_eqb (ss_name s) n) sts = None.
Proof.
  intros n sts. induction sts as [|s sts IH]; intros H; [reflexivity|].
  simpl in *. rewrite text_eqb_neq by tauto. apply IH. tauto.
Qed.

Lemma declare_loop_ok : forall e nl st errs,
  forallb is_start_state_name (map fst nl) = true ->
  nodup_b (map fst nl) = true ->
  (forall n, In n (map fst nl) -> ~ In n (map ss_name (start_states st))) ->
  declare_loop e nl st errs =
  TOk {| rules := rules st; start_states := start_states st ++ states_from e (length (start_states st)) nl |} errs.
Proof.
  intros e nl. induction nl as [|[n sp] nl IH]; intros st errs Hv Hd Hf.
  - destruct st as [rs ss]. simpl. rewrite app_nil_r. reflexivity.
  - simpl in Hv, Hd. apply andb_prop in Hv. destruct Hv as [H1 Hv]. apply andb_prop in Hd. destruct Hd as [H Hd].
    apply negb_true in H.
    cbn [declare_loop]. unfold validate_start_state. rewrite H1. cbn [negb].
    rewrite find_name_none by (apply Hf; left; reflexivity). cbn [lbind fst snd].
    rewrite IH; [|assumption|assumption|].
    + unfold push_state. cbn [rules start_states states_from]. rewrite app_length. cbn [length].
      rewrite Nat.add_1_r. rewrite <- app_assoc. reflexivity.
    + intros m Hm. unfold push_state. cbn [start_states]. rewrite map_app. cbn [map ss_name].
      intros Hin. apply in_app_or in Hin. destruct Hin as [Hin|[Hin|[]]].
      * apply (Hf m); [right; exact Hm|exact Hin].
      * subst m. apply (mem_text_false _ _ H). exact Hm.
Qed.

Lemma states_from_more : forall e seps ns off id,
  states_from e id (more_names off seps ns) = more_states e off id seps ns.
Proof.
  induction seps as [|s seps IH]; intros ns off id; [reflexivity|].
  destruct ns as [|n ns]; [reflexivity|]. cbn [more_names states_from more_states]. rewrite IH. reflexivity.
Qed.

(* ---- one declaration line ----------------------------------------------------------------------------- *)
Lemma declare_start_states_eq : forall src e i dlen llen st errs raw,
  slice src (i + dlen) (i + llen) = Done raw ->
  declare_start_states src repaired e i dlen llen st errs =
    if is_nil (trim is_ws raw) then TErr errs (mk_error UnknownDeclaration i) else
    let names := declared_names true (i + dlen + byte_len (take_while is_ws raw)) (trim is_ws raw) in
    match declare_loop e names st errs with
    | TOk st' errs' => dol k <- lift (parse_ws src (end_of names i)) holding errs'; TOk (k, st') errs'
    | TErr errs' e => TErr errs' e
    | TPanic => TPanic | TFuel => TFuel
    end.
Proof. intros src e i dlen llen st errs raw H. unfold declare_start_states. rewrite H. reflexivity. Qed.

Lemma parse_declaration_eq : forall src i st errs llen line0 dlen decl0,
  line_len_at src i = Done llen -> slice src i (i + llen) = Done line0 ->
  find is_ws (trim_end is_ws line0) = Some dlen ->
  slice src i (i + dlen) = Done decl0 ->
  parse_declaration src repaired i st errs =
    if is_declaration 115 83 (trim_end is_ws decl0) then declare_start_states src repaired false i dlen llen st errs
    else if is_declaration 120 88 (trim_end is_ws decl0) then declare_start_states src repaired true i dlen llen st errs
    else TErr errs (mk_error UnknownDeclaration i).
Proof.
  intros src i st errs llen line0 dlen decl0 H1 H2 H3 H4. unfold parse_declaration.
  rewrite H1. cbn [lift lbind]. rewrite H2. cbn [lift lbind]. rewrite H3. rewrite H4. reflexivity.
Qed.

Lemma declare_start_states_line : forall src pre decl gap n0 seps ns trail r e st errs,
  src = pre ++ decl ++ gap ++ (n0 ++ print_more seps ns) ++ trail ++ r ->
  forallb is_ws gap = true -> forallb sep_ws seps = true -> forallb is_ws trail = true ->
  length ns = length seps ->
  forallb is_start_state_name (n0 :: ns) = true ->
  nodup_b (n0 :: ns) = true ->
  (forall n, In n (n0 :: ns) -> ~ In n (map ss_name (start_states st))) ->
  declare_start_states src repaired e (byte_len pre) (byte_len decl)
    (byte_len (decl ++ gap ++ (n0 ++ print_more seps ns) ++ trail)) st errs =
  dol k <- lift (parse_ws src (byte_len pre + byte_len (decl ++ gap ++ n0 ++ print_more seps ns))) holding errs;
  TOk (k, {| rules := rules st;
             start_states := start_states st ++
               {| ss_id := length (start_states st); ss_name := n0;
                  ss_span := (byte_len pre + byte_len (decl ++ gap), byte_len pre + byte_len (decl ++ gap) + byte_len n0);
                  ss_exclusive := e |}
               :: more_states e (byte_len pre + byte_len (decl ++ gap) + byte_len n0) (S (length (start_states st))) seps ns |}) errs.
Proof.
  intros src pre decl gap n0 seps ns trail r e st errs Hs Hg Hsp Ht Hl Hv Hd Hf.
  pose proof Hv as Hv'. simpl in Hv'. apply andb_prop in Hv'. destruct Hv' as [Hv0 Hvn].
  rewrite (declare_start_states_eq _ _ _ _ _ _ _ (gap ++ (n0 ++ print_more seps ns) ++ trail)).
  2:{ apply (slice_eq src (pre ++ decl) _ r); [assoc_eq|blen|blen]. }
  assert (Htrim : trim is_ws (gap ++ (n0 ++ print_more seps ns) ++ trail) = n0 ++ print_more seps ns).
  { unfold trim, trim_start. rewrite drop_while_app by (try exact Hg; rewrite <- app_assoc; apply ssn_hd; exact Hv0).
    pose proof (trim_end_names seps ns [] n0 trail Hv0 Hvn Ht) as E. cbn [app] in E.
    rewrite <- app_assoc. exact E. }
  rewrite Htrim.
  assert (Htake : take_while is_ws (gap ++ (n0 ++ print_more seps ns) ++ trail) = gap).
  { apply take_while_app; [exact Hg|]. rewrite <- app_assoc. apply ssn_hd. exact Hv0. }
  rewrite Htake.
  assert (Hnn : is_nil (n0 ++ print_more seps ns) = false).
  { destruct n0; [discriminate|reflexivity]. }
  rewrite Hnn. cbv zeta.
  rewrite declared_names_eq; [|apply ssn_nows; exact Hv0|apply ssn_nonnil; exact Hv0|apply all_ssn_nows; exact Hvn| |exact Hsp].
  2:{ revert Hvn. apply forallb_imp. intros n Hn. pose proof (ssn_nonnil n Hn). destruct n; [contradiction|reflexivity]. }
  rewrite declare_loop_ok.
  - rewrite end_of_names. cbn [states_from]. rewrite states_from_more.
    replace (byte_len pre + byte_len decl + byte_len gap) with (byte_len pre + byte_len (decl ++ gap)) by blen.
    replace (byte_len pre + byte_len (decl ++ gap) + byte_len n0 + byte_len (print_more seps ns))
      with (byte_len pre + byte_len (decl ++ gap ++ n0 ++ print_more seps ns)) by blen.
    reflexivity.
  - cbn [map fst]. rewrite more_names_fst by exact Hl. exact Hv.
  - cbn [map fst]. rewrite more_names_fst by exact Hl. exact Hd.
  - cbn [map fst]. rewrite more_names_fst by exact Hl. exact Hf.
Qed.

Lemma kw_not_ws : forall e u, is_ws (kw_char e u) = false.
Proof. intros [] []; reflexivity. Qed.

Lemma kw_not_percent : forall e u, (c_percent =? kw_char e u)%N = false.
Proof. intros [] []; reflexivity. Qed.

Lemma is_declaration_kw : forall e u kw, forallb is_alnum kw = true ->
  is_declaration 115 83 ([c_percent; kw_char e u] ++ kw) = negb e /\
  is_declaration 120 88 ([c_percent; kw_char e u] ++ kw) = e.
Proof. intros e u kw H. unfold is_declaration. cbn [app]. rewrite H. destruct e, u; split; reflexivity. Qed.

Lemma alnum_nows : forall kw, forallb is_alnum kw = true -> nows kw = true.
Proof. intros kw. apply forallb_imp. intros c H. rewrite (name_char_not_ws c (alnum_name_char c H)). reflexivity. Qed.

Lemma nows_no_nl : forall t, nows t = true -> no_nl t = true.
Proof.
  intros t. apply forallb_imp. intros c H. apply negb_true in H. rewrite (not_ws_not_nl c H). reflexivity.
Qed.

Lemma no_nl_app : forall a b, no_nl a = true -> no_nl b = true -> no_nl (a ++ b) = true.
Proof. intros a b Ha Hb. unfold no_nl in *. apply forallb_app'; assumption. Qed.

Lemma parse_declaration_line : forall awc src pre dl n0 e gt r st errs,
  src = pre ++ dline_head dl ((n0, e) :: gt) ++ dline_names dl ((n0, e) :: gt) ++ dl_trail dl ++ dl_nl dl :: r ->
  wf_dline awc dl = true ->
  length gt = length (dl_seps dl) ->
  forallb is_start_state_name (n0 :: map fst gt) = true ->
  nodup_b (n0 :: map fst gt) = true ->
  (forall n, In n (n0 :: map fst gt) -> ~ In n (map ss_name (start_states st))) ->
  parse_declaration src repaired (byte_len pre) st errs =
    dol k <- lift (parse_ws src (byte_len pre +
                     byte_len (dline_head dl ((n0, e) :: gt) ++ dline_names dl ((n0, e) :: gt)))) holding errs;
    TOk (k, {| rules := rules st;
               start_states := start_states st ++
                 dline_states (byte_len pre) (length (start_states st)) dl ((n0, e) :: gt) |}) errs.
Proof.
  intros awc src pre dl n0 e gt r st errs Hs Hw Hl Hv Hd Hf.
  unfold wf_dline in Hw.
  apply andb_prop in Hw. destruct Hw as [Hw Hafter]. apply andb_prop in Hw. destruct Hw as [Hw Hnl].
  apply andb_prop in Hw. destruct Hw as [Hw Htrail]. apply andb_prop in Hw. destruct Hw as [Hw Hseps].
  apply andb_prop in Hw. destruct Hw as [Hw Hgap]. apply andb_prop in Hw. destruct Hw as [Hkw Hgapnn].
  pose proof Hv as Hv'. simpl in Hv'. apply andb_prop in Hv'. destruct Hv' as [Hv0 Hvn].
  unfold dline_head, dline_names, dline_states in *. cbn [group_kind group_first tl] in *.
  destruct dl as [up kw gap seps trail nl after]. cbn [dl_upper dl_kw dl_gap dl_seps dl_trail dl_nl dl_after] in *.
  destruct gap as [|g gap]; [discriminate|]. clear Hgapnn.
  simpl in Hgap. apply andb_prop in Hgap. destruct Hgap as [Hg Hgap].
  assert (Hgws : forallb is_ws (g :: gap) = true).
  { simpl. rewrite (iws_ws g Hg). apply all_iws_ws. exact Hgap. }
  assert (Hdecl_nows : nows ([c_percent; kw_char e up] ++ kw) = true).
  { unfold nows. cbn [app forallb]. rewrite kw_not_ws. apply alnum_nows. exact Hkw. }
  rewrite (parse_declaration_eq src (byte_len pre) st errs
             (byte_len (([c_percent; kw_char e up] ++ kw) ++ (g :: gap) ++ (n0 ++ print_more seps (map fst gt)) ++ trail))
             (([c_percent; kw_char e up] ++ kw) ++ (g :: gap) ++ (n0 ++ print_more seps (map fst gt)) ++ trail)
             (byte_len ([c_percent; kw_char e up] ++ kw))
             ([c_percent; kw_char e up] ++ kw)).
  - assert (Htd : trim_end is_ws ([c_percent; kw_char e up] ++ kw) = [c_percent; kw_char e up] ++ kw).
    { apply (trim_end_nows is_ws [] ([c_percent; kw_char e up] ++ kw)); [discriminate|exact Hdecl_nows]. }
    rewrite Htd. cbn [app]. destruct (is_declaration_kw e up kw Hkw) as [E1 E2]. cbn [app] in E1, E2. rewrite E1, E2.
    assert (Hstep : declare_start_states src repaired e (byte_len pre) (byte_len (c_percent :: kw_char e up :: kw))
       (byte_len ((c_percent :: kw_char e up :: kw) ++ (g :: gap) ++ (n0 ++ print_more seps (map fst gt)) ++ trail)) st errs = 
       dol k <- lift (parse_ws src (byte_len pre +
                     byte_len (([c_percent; kw_char e up] ++ kw ++ g :: gap) ++ n0 ++ print_more seps (map fst gt)))) holding errs;
    TOk (k, {| rules := rules st;
               start_states := start_states st ++
                {|
           ss_id := length (start_states st);
           ss_name := n0;
           ss_span :=
             (byte_len pre +
              byte_len ([c_percent; kw_char e up] ++ kw ++ g :: gap),
              byte_len pre +
              byte_len ([c_percent; kw_char e up] ++ kw ++ g :: gap) +
              byte_len n0);
           ss_exclusive := e
         |}
         :: more_states e
              (byte_len pre +
               byte_len ([c_percent; kw_char e up] ++ kw ++ g :: gap) +
               byte_len n0) (S (length (start_states st))) seps
              (map fst gt) |}) errs).
    { rewrite (declare_start_states_line src pre (c_percent :: kw_char e up :: kw) (g :: gap) n0 seps (map fst gt) trail (nl :: r));
        try assumption.
      - assoc. reflexivity.
      - rewrite Hs. assoc. reflexivity.
      - apply sep_ok_ws. exact Hseps.
      - apply all_iws_ws. exact Htrail.
      - rewrite map_length. exact Hl. }
    destruct e; cbn [negb]; exact Hstep.
  - apply (line_len_at_eq src pre _ (nl :: r)); [rewrite Hs; assoc; reflexivity| |exact Hnl].
    apply no_nl_app; [apply nows_no_nl; exact Hdecl_nows|].
    apply no_nl_app; [apply all_iws_no_nl; simpl; rewrite Hg; exact Hgap|].
    apply no_nl_app; [|apply all_iws_no_nl; exact Htrail].
    apply no_nl_app; [apply nows_no_nl; apply ssn_nows; exact Hv0|].
    unfold no_nl. apply print_more_forallb.
    + revert Hseps. apply forallb_imp. intros sp H. apply andb_prop in H. destruct H as [_ H].
      revert H. apply forallb_imp. intros c H. rewrite (iws_not_nl c H). reflexivity.
    + revert Hvn. apply forallb_imp. intros n H. apply nows_no_nl. apply ssn_nows. exact H.
  - apply (slice_eq src pre _ (nl :: r)); [rewrite Hs; assoc; reflexivity|reflexivity|reflexivity].
  - replace (([c_percent; kw_char e up] ++ kw) ++ (g :: gap) ++ (n0 ++ print_more seps (map fst gt)) ++ trail)
      with ((([c_percent; kw_char e up] ++ kw) ++ g :: gap) ++ n0 ++ print_more seps (map fst gt) ++ trail) by (assoc; reflexivity).
    rewrite trim_end_names; [|exact Hv0|exact Hvn|apply all_iws_ws; exact Htrail].
    rewrite <- app_assoc. cbn [app]. 
    change (c_percent :: kw_char e up :: kw ++ g :: gap ++ n0 ++ print_more seps (map fst gt))
      with (([c_percent; kw_char e up] ++ kw) ++ g :: (gap ++ n0 ++ print_more seps (map fst gt))).
    apply find_hit; [exact Hdecl_nows|apply iws_ws; exact Hg].
  - apply (slice_eq src pre _ ((g :: gap) ++ (n0 ++ print_more seps (map fst gt)) ++ trail ++ nl :: r));
      [rewrite Hs; assoc; reflexivity|reflexivity|reflexivity].
Qed.

Lemma loop_dline : forall awc src pre dl n0 e gt r st errs fuel,
  src = pre ++ print_dline dl ((n0, e) :: gt) ++ r ->
  wf_dline awc dl = true ->
  length gt = length (dl_seps dl) ->
  forallb is_start_state_name (n0 :: map fst gt) = true ->
  nodup_b (n0 :: map fst gt) = true ->
  (forall n, In n (n0 :: map fst gt) -> ~ In n (map ss_name (start_states st))) ->
  parse_declarations_loop src awc repaired (S (ncomments (dl_after dl) + fuel)) (byte_len pre) st errs =
  parse_declarations_loop src awc repaired fuel (byte_len pre + byte_len (print_dline dl ((n0, e) :: gt)))
    {| rules := rules st;
       start_states := start_states st ++
         dline_states (byte_len pre) (length (start_states st)) dl ((n0, e) :: gt) |} errs.
Proof.
  intros awc src pre dl n0 e gt r st errs fuel Hs Hw Hl Hv Hd Hf.
  unfold print_dline, dline_tail in *.
  set (head := dline_head dl ((n0, e) :: gt)) in *. set (names := dline_names dl ((n0, e) :: gt)) in *.
  assert (A1 : src = pre ++ head ++ names ++ dl_trail dl ++ dl_nl dl :: (print_ditems (dl_after dl) ++ r)).
  { rewrite Hs. assoc. reflexivity. }
  assert (Hhead : exists t, head = c_percent :: kw_char e (dl_upper dl) :: t).
  { eexists. reflexivity. }
  destruct Hhead as [t Hhead].
  rewrite (loop_S src awc _ (byte_len pre) (byte_len pre)).
  2:{ apply (parse_ws_stay_eq src pre _ A1). rewrite Hhead. reflexivity. }
  unfold loop_at.
  assert (Hc : lift (if awc then lookahead_is src [c_slash; c_slash] (byte_len pre) else Done None) = ROk None).
  { destruct awc; [|reflexivity]. rewrite (lookahead_eq src _ pre _ A1). rewrite Hhead. reflexivity. }
  rewrite Hc. cbn [lift lbind].
  assert (Hlen : (byte_len pre =? src_len src) = false).
  { apply Nat.eqb_neq. unfold src_len. rewrite A1. rewrite Hhead. blen. }
  rewrite Hlen.
  rewrite (lookahead_eq src [c_percent; c_percent] pre _ A1).
  assert (Hsw : starts_with [c_percent; c_percent] (head ++ names ++ dl_trail dl ++ dl_nl dl :: print_ditems (dl_after dl) ++ r) = false).
  { rewrite Hhead. cbn [app starts_with]. rewrite kw_not_percent. rewrite N.eqb_refl. reflexivity. }
  rewrite Hsw. cbn [lift lbind].
  rewrite (parse_declaration_line awc src pre dl n0 e gt (print_ditems (dl_after dl) ++ r) st errs A1 Hw Hl Hv Hd Hf).
  fold head. fold names.
  assert (Hk : exists k, parse_ws src (byte_len pre + byte_len (head ++ names)) = Done k).
  { unfold parse_ws. replace (byte_len pre + byte_len (head ++ names)) with (byte_len (pre ++ head ++ names)) by blen.
    rewrite (slice_from_eq src (pre ++ head ++ names) (dl_trail dl ++ dl_nl dl :: print_ditems (dl_after dl) ++ r)).
    - simpl. eexists. reflexivity.
    - rewrite A1. assoc. reflexivity. }
  destruct Hk as [k Hk]. rewrite Hk. cbn [lift lbind].
  rewrite (loop_ws_back _ _ _ _ _ _ _ Hk).
  unfold wf_dline in Hw.
  apply andb_prop in Hw. destruct Hw as [Hw Hafter]. apply andb_prop in Hw. destruct Hw as [Hw Hnl].
  apply andb_prop in Hw. destruct Hw as [Hw Htrail].
  replace (byte_len pre + byte_len (head ++ names)) with (byte_len (pre ++ head ++ names)) by blen.
  rewrite (loop_skip src awc _ (pre ++ head ++ names) (dl_trail dl ++ [dl_nl dl]) (print_ditems (dl_after dl) ++ r)).
  2:{ rewrite A1. assoc. reflexivity. }
  2:{ apply forallb_app'; [apply all_iws_ws; exact Htrail|]. simpl. rewrite (line_sep_ws _ Hnl). reflexivity. }
  replace (byte_len (pre ++ head ++ names) + byte_len (dl_trail dl ++ [dl_nl dl]))
    with (byte_len (pre ++ head ++ names ++ dl_trail dl ++ [dl_nl dl])) by blen.
  rewrite (loop_ditems awc (dl_after dl) src fuel (pre ++ head ++ names ++ dl_trail dl ++ [dl_nl dl]) r).
  2:{ rewrite A1. assoc. reflexivity. }
  2:{ exact Hafter. }
  f_equal. blen.
Qed.

(* ---- what the states of a line are --------------------------------------------------------------------- *)
Lemma more_states_maps : forall seps gt e off id, length gt = length seps ->
  map ss_name (more_states e off id seps (map fst gt)) = map fst gt /\
  map ss_id (more_states e off id seps (map fst gt)) = seq id (length gt) /\
  (forallb (fun s => Bool.eqb (snd s) e) gt = true ->
   map ss_exclusive (more_states e off id seps (map fst gt)) = map snd gt).
Proof.
  induction seps as [|s seps IH]; intros [|[n x] gt] e off id H; simpl in H; try discriminate.
  - repeat split; reflexivity.
  - assert (H' : length gt = length seps) by lia.
    destruct (IH gt e (off + byte_len s + byte_len n) (S id) H') as [A [B C]].
    cbn [map fst snd more_states ss_name ss_id ss_exclusive length seq forallb].
    rewrite A, B. repeat split; try reflexivity.
    intros Hk. apply andb_prop in Hk. destruct Hk as [Hx Hk]. apply eqb_prop in Hx. subst x.
    rewrite (C Hk). reflexivity.
Qed.

Lemma dline_states_maps : forall off id dl n0 e gt, length gt = length (dl_seps dl) ->
  map ss_name (dline_states off id dl ((n0, e) :: gt)) = n0 :: map fst gt /\
  map ss_id (dline_states off id dl ((n0, e) :: gt)) = seq id (S (length gt)) /\
  (forallb (fun s => Bool.eqb (snd s) e) gt = true ->
   map ss_exclusive (dline_states off id dl ((n0, e) :: gt)) = e :: map snd gt).
Proof.
  intros off id dl n0 e gt H. unfold dline_states. cbn [group_kind group_first tl map ss_name ss_id ss_exclusive seq].
  destruct (more_states_maps (dl_seps dl) gt e
              (off + byte_len (dline_head dl ((n0, e) :: gt)) + byte_len n0) (S id) H) as [A [B C]].
  rewrite A, B. repeat split; try reflexivity. intros Hk. rewrite (C Hk). reflexivity.
Qed.

Lemma dline_states_length : forall off id dl n0 e gt, length gt = length (dl_seps dl) ->
  length (dline_states off id dl ((n0, e) :: gt)) = dl_count dl.
Proof.
  intros off id dl n0 e gt H. destruct (dline_states_maps off id dl n0 e gt H) as [A _].
  rewrite <- (map_length ss_name). rewrite A. cbn [length]. rewrite map_length. unfold dl_count. lia.
Qed.

(* the first line of a partition *)
Lemma wf_dlines_cons : forall awc dl dls sts, wf_dlines awc (dl :: dls) sts = true ->
  exists n0 e gt rest,
    sts = (n0, e) :: gt ++ rest /\
    firstn (dl_count dl) sts = (n0, e) :: gt /\ skipn (dl_count dl) sts = rest /\
    length gt = length (dl_seps dl) /\
    forallb (fun s => Bool.eqb (snd s) e) gt = true /\
    wf_dline awc dl = true /\ wf_dlines awc dls rest = true.
Proof.
  intros awc dl dls sts H. cbn [wf_dlines] in H.
  apply andb_prop in H. destruct H as [H Hrest]. apply andb_prop in H. destruct H as [H Hdl].
  apply andb_prop in H. destruct H as [Hlen Hkind]. apply Nat.leb_le in Hlen.
  unfold dl_count in *. destruct sts as [|[n0 e] sts']; [simpl in Hlen; lia|].
  cbn [firstn skipn] in *. cbn [group_kind forallb snd] in Hkind.
  apply andb_prop in Hkind. destruct Hkind as [_ Hkind].
  exists n0, e, (firstn (length (dl_seps dl)) sts'), (skipn (length (dl_seps dl)) sts').
  repeat split; try assumption.
  - rewrite firstn_skipn. reflexivity.
  - apply firstn_length_le. simpl in Hlen. lia.
Qed.

Fixpoint need_dlines (dls : list dline_lay) : nat :=
  match dls with
  | [] => 0
  | dl :: dls' => S (ncomments (dl_after dl) + need_dlines dls')
  end.

Lemma loop_dlines : forall awc dls sts src pre r st errs fuel,
  src = pre ++ print_dlines dls sts ++ r ->
  wf_dlines awc dls sts = true ->
  forallb is_start_state_name (map fst sts) = true ->
  nodup_b (map fst sts) = true ->
  (forall n, In n (map fst sts) -> ~ In n (map ss_name (start_states st))) ->
  parse_declarations_loop src awc repaired (need_dlines dls + fuel) (byte_len pre) st errs =
  parse_declarations_loop src awc repaired fuel (byte_len pre + byte_len (print_dlines dls sts))
    {| rules := rules st;
       start_states := start_states st ++ states_of (byte_len pre) (length (start_states st)) dls sts |} errs.
Proof.
  intros awc dls. induction dls as [|dl dls IH]; intros sts src pre r st errs fuel Hs Hw Hv Hd Hf.
  - destruct st as [rs ss]. cbn [print_dlines states_of need_dlines byte_len rules start_states plus].
    rewrite app_nil_r. rewrite Nat.add_0_r. reflexivity.
  - destruct (wf_dlines_cons awc dl dls sts Hw) as [n0 [e [gt [rest [Ests [Ef [Esk [Hl [Hk [Hdl Hrest]]]]]]]]]].
    cbn [print_dlines states_of need_dlines] in *. rewrite Ef, Esk in *. clear Ef Esk Hw.
    subst sts. cbn [map fst] in Hv, Hd, Hf. rewrite map_app in Hv, Hd, Hf.
    change (n0 :: map fst gt ++ map fst rest) with ((n0 :: map fst gt) ++ map fst rest) in Hv, Hd, Hf.
    rewrite forallb_app in Hv. apply andb_prop in Hv. destruct Hv as [Hv1 Hv2].
    apply nodup_b_app in Hd. destruct Hd as [Hd1 [Hd2 Hd3]].
    replace (S (ncomments (dl_after dl) + need_dlines dls) + fuel)
      with (S (ncomments (dl_after dl) + (need_dlines dls + fuel))) by lia.
    rewrite (loop_dline awc src pre dl n0 e gt (print_dlines dls rest ++ r) st errs (need_dlines dls + fuel)).
    + replace (byte_len pre + byte_len (print_dline dl ((n0, e) :: gt)))
        with (byte_len (pre ++ print_dline dl ((n0, e) :: gt))) by blen.
      rewrite (IH rest src (pre ++ print_dline dl ((n0, e) :: gt)) r).
      * cbn [rules start_states]. rewrite app_length. rewrite (dline_states_length _ _ _ _ _ _ Hl).
        rewrite <- app_assoc. f_equal. blen.
      * rewrite Hs. assoc. reflexivity.
      * exact Hrest.
      * exact Hv2.
      * exact Hd2.
      * intros n Hn. cbn [start_states]. rewrite map_app. intros Hin. apply in_app_or in Hin.
        destruct Hin as [Hin|Hin].
        -- apply (Hf n); [apply in_or_app; right; exact Hn|exact Hin].
        -- destruct (dline_states_maps (byte_len pre) (length (start_states st)) dl n0 e gt Hl) as [A _].
           rewrite A in Hin. apply (Hd3 n Hin Hn).
    + rewrite Hs. assoc. reflexivity.
    + exact Hdl.
    + exact Hl.
    + exact Hv1.
    + exact Hd1.
    + intros n Hn. apply Hf. apply in_or_app. left. exact Hn.
Qed.

(* ---- fuel ------------------------------------------------------------------------------------------------ *)
Lemma ncomments_le : forall items, ncomments items <= byte_len (print_ditems items).
Proof.
  induction items as [|[c|b nl] items IH]; cbn [ncomments].
  - lia.
  - change (print_ditems (DWs c :: items)) with ([c] ++ print_ditems items). blen.
  - change (print_ditems (DComment b nl :: items)) with (([c_slash; c_slash] ++ b ++ [nl]) ++ print_ditems items). blen.
Qed.

Lemma need_dlines_le : forall dls sts, need_dlines dls <= byte_len (print_dlines dls sts).
Proof.
  induction dls as [|dl dls IH]; intros sts; cbn [need_dlines print_dlines]; [lia|].
  specialize (IH (skipn (dl_count dl) sts)). pose proof (ncomments_le (dl_after dl)).
  unfold print_dline, dline_tail, dline_head. blen.
Qed.

Lemma forallb_map : forall (A B : Type) (f : B -> bool) (g : A -> B) l,
  forallb f (map g l) = forallb (fun x => f (g x)) l.
Proof. intros A B f g l. induction l as [|x l IH]; simpl; [reflexivity|]. rewrite IH. reflexivity. Qed.

(* ---- the declarations section ------------------------------------------------------------------------------ *)
Lemma declarations_roundtrip : declarations_roundtrip_stmt.
Proof.
  intros awc lay sp rest fuel Hsp Hlay Hrest Hfuel.
  unfold wf_aspec in Hsp.
  apply andb_prop in Hsp. destruct Hsp as [Hsp _]. apply andb_prop in Hsp. destruct Hsp as [Hsp _].
  apply andb_prop in Hsp. destruct Hsp as [Hnames Hnodup].
  unfold wf_layout in Hlay.
  apply andb_prop in Hlay. destruct Hlay as [Hlay _]. apply andb_prop in Hlay. destruct Hlay as [Hlay _].
  apply andb_prop in Hlay. destruct Hlay as [Hlay _]. apply andb_prop in Hlay. destruct Hlay as [Hlay _].
  apply andb_prop in Hlay. destruct Hlay as [Hlay Hblanks]. apply andb_prop in Hlay. destruct Hlay as [Hpre Hdls].
  unfold state_names in Hnodup. cbn [nodup_b] in Hnodup.
  apply andb_prop in Hnodup. destruct Hnodup as [Hinit Hnodup]. apply negb_true in Hinit.
  rewrite <- forallb_map in Hnames.
  remember (print_decl_section lay sp ++ rest) as src eqn:Esrc.
  assert (Hs : src = [] ++ print_ditems (l_pre lay) ++
                 (print_dlines (l_dlines lay) (a_states sp) ++ [c_percent; c_percent] ++ l_sep_blanks lay ++ rest)).
  { rewrite Esrc. unfold print_decl_section. assoc. reflexivity. }
  assert (Hs2 : src = print_ditems (l_pre lay) ++ print_dlines (l_dlines lay) (a_states sp) ++
                  ([c_percent; c_percent] ++ l_sep_blanks lay ++ rest)).
  { exact Hs. }
  assert (Hs3 : src = (print_ditems (l_pre lay) ++ print_dlines (l_dlines lay) (a_states sp)) ++
                  [c_percent; c_percent] ++ l_sep_blanks lay ++ rest).
  { rewrite Hs. assoc. reflexivity. }
  assert (Hf : exists extra, fuel = ncomments (l_pre lay) + (need_dlines (l_dlines lay) + S extra)).
  { pose proof (ncomments_le (l_pre lay)). pose proof (need_dlines_le (l_dlines lay) (a_states sp)).
    unfold print_decl_section in Hfuel. revert Hfuel. blen. intros Hfuel.
    exists (fuel - ncomments (l_pre lay) - need_dlines (l_dlines lay) - 1). lia. }
  destruct Hf as [extra Hf].
  unfold parse_declarations.
  assert (Hk : exists k, parse_ws src 0 = Done k).
  { unfold parse_ws. rewrite slice_from_0. simpl. eexists. reflexivity. }
  destruct Hk as [k Hk]. rewrite Hk. cbn [lift lbind]. rewrite (loop_ws_back _ _ _ _ _ _ _ Hk).
  rewrite Hf.
  eapply eq_trans; [exact (loop_ditems awc (l_pre lay) src _ [] _ initial_state [] Hs Hpre)|].
  cbn [byte_len plus].
  eapply eq_trans.
  { apply (loop_dlines awc (l_dlines lay) (a_states sp) src (print_ditems (l_pre lay)) _ initial_state [] (S extra) Hs2 Hdls Hnames Hnodup).
    intros n Hn Hin. cbn in Hin. destruct Hin as [Hin|[]]. subst n.
    apply (mem_text_false _ _ Hinit). exact Hn. }
  replace (byte_len (print_ditems (l_pre lay)) + byte_len (print_dlines (l_dlines lay) (a_states sp)))
    with (byte_len (print_ditems (l_pre lay) ++ print_dlines (l_dlines lay) (a_states sp))) by blen.
  rewrite (loop_sep awc src _ (l_sep_blanks lay) rest _ _ extra Hs3 Hblanks Hrest).
  f_equal. f_equal. unfold print_decl_section. blen.
Qed.

(* ---- what [states_of_spec] is ------------------------------------------------------------------------------- *)
Lemma states_of_maps : forall awc dls sts off id, wf_dlines awc dls sts = true ->
  map ss_name (states_of off id dls sts) = map fst sts /\
  map ss_id (states_of off id dls sts) = seq id (length sts) /\
  map ss_exclusive (states_of off id dls sts) = map snd sts.
Proof.
  intros awc dls. induction dls as [|dl dls IH]; intros sts off id Hw.
  - destruct sts; [|discriminate]. repeat split; reflexivity.
  - destruct (wf_dlines_cons awc dl dls sts Hw) as [n0 [e [gt [rest [Ests [Ef [Esk [Hl [Hk [Hdl Hrest]]]]]]]]]].
    cbn [states_of]. rewrite Ef, Esk. rewrite !map_app.
    destruct (dline_states_maps off id dl n0 e gt Hl) as [A [B C]].
    destruct (IH rest (off + byte_len (print_dline dl ((n0, e) :: gt))) (id + dl_count dl) Hrest) as [A' [B' C']].
    rewrite A, B, (C Hk), A', B', C'. subst sts. cbn [map fst snd length]. rewrite !map_app, app_length.
    repeat split; try reflexivity.
    change (S (length gt + length rest)) with (S (length gt) + length rest). rewrite seq_app.
    unfold dl_count. rewrite Hl. reflexivity.
Qed.

Lemma states_of_spec_kinds : forall awc lay sp,
  wf_dlines awc (l_dlines lay) (a_states sp) = true ->
  map ss_name (states_of_spec lay sp) = state_names sp /\
  map ss_id (states_of_spec lay sp) = seq 0 (length (state_names sp)) /\
  map ss_exclusive (states_of_spec lay sp) = false :: map snd (a_states sp).
Proof.
  intros awc lay sp Hw. unfold states_of_spec, state_names.
  destruct (states_of_maps awc (l_dlines lay) (a_states sp) (byte_len (print_ditems (l_pre lay))) 1 Hw) as [A [B C]].
  cbn [map ss_name ss_id ss_exclusive initial_start_state length seq]. rewrite A, B, C. rewrite map_length.
  repeat split; reflexivity.
Qed.

Lemma states_of_spec_numbered : forall awc lay sp,
  wf_aspec awc sp = true -> wf_layout awc lay sp = true ->
  states_numbered (state_names sp) (states_of_spec lay sp).
Proof.
  intros awc lay sp Hsp Hlay.
  unfold wf_aspec in Hsp.
  apply andb_prop in Hsp. destruct Hsp as [Hsp _]. apply andb_prop in Hsp. destruct Hsp as [Hsp _].
  apply andb_prop in Hsp. destruct Hsp as [_ Hnodup].
  unfold wf_layout in Hlay.
  apply andb_prop in Hlay. destruct Hlay as [Hlay _]. apply andb_prop in Hlay. destruct Hlay as [Hlay _].
  apply andb_prop in Hlay. destruct Hlay as [Hlay _]. apply andb_prop in Hlay. destruct Hlay as [Hlay _].
  apply andb_prop in Hlay. destruct Hlay as [Hlay _]. apply andb_prop in Hlay. destruct Hlay as [_ Hdls].
  destruct (states_of_spec_kinds awc lay sp Hdls) as [A [B _]].
  unfold states_numbered. repeat split; assumption.
Qed.
