(* C11 — the spans of a successfully parsed specification index the source text
   (for the repaired variant), and the refutations for today's code. *)
From Coq Require Import List Arith NArith Bool Lia.
From GV Require Import Common.Outcome C11.Model C11.Spec C11.Slices.
Import ListNotations.

(* ---- inversion of the monadic plumbing ---- *)
Lemma lbind_ok : forall A B errs (x : res A) (f : A -> tres B) b e',
  lbind errs x f = TOk b e' -> exists v, x = ROk v /\ f v = TOk b e'.
Proof. intros A B errs x f b e' H. destruct x; simpl in H; try discriminate. eauto. Qed.

Lemma rbind_ok : forall A B (x : res A) (f : A -> res B) b,
  rbind x f = ROk b -> exists v, x = ROk v /\ f v = ROk b.
Proof. intros A B x f b H. destruct x; simpl in H; try discriminate. eauto. Qed.

Lemma lift_ok : forall A (x : outcome A) v, lift x = ROk v -> x = Done v.
Proof. intros A x v H. destruct x; simpl in H; try discriminate. congruence. Qed.

Lemma obind_ok : forall A B (x : outcome A) (f : A -> outcome B) b,
  obind x f = Done b -> exists v, x = Done v /\ f v = Done b.
Proof. intros A B x f b H. destruct x; simpl in H; try discriminate. eauto. Qed.

(* ---- slices of slices ---- *)
Lemma slice_of_slice : forall src a b s i j m, slice src a b = Done s ->
  slice s i j = Done m -> slice src (a + i) (a + j) = Done m.
Proof.
  intros src a b s i j m H1 H2. apply slice_inv in H1. destruct H1 as [p [q [-> [Hp Hq]]]].
  apply slice_inv in H2. destruct H2 as [x [y [-> [Hx Hy]]]].
  replace (p ++ (x ++ m ++ y) ++ q) with ((p ++ x) ++ m ++ (y ++ q)) by (rewrite <- !app_assoc; reflexivity).
  apply slice_app; rewrite byte_len_app; lia.
Qed.

Lemma slice_from_as_slice : forall s i r, slice_from s i = Done r -> slice s i (i + byte_len r) = Done r.
Proof.
  intros s i r H. apply slice_from_inv in H. destruct H as [a [-> Ha]].
  rewrite <- (app_nil_r r) at 1. apply slice_app; lia.
Qed.

Lemma slice_prefix_of : forall s t w, s = t ++ w -> slice s 0 (byte_len t) = Done t.
Proof. intros s t w ->. apply slice_prefix. reflexivity. Qed.

(* ---- split: every piece is where its offset says ---- *)
Lemma split_go_selects : forall f s pre cur off start,
  off = byte_len pre + byte_len cur -> start = byte_len pre ->
  forall o piece, In (o, piece) (split_go f s off start cur) ->
    slice (pre ++ rev cur ++ s) o (o + byte_len piece) = Done piece.
Proof.
  intros f s. induction s as [|c s IH]; intros pre cur off start Hoff Hst o piece Hin; subst off start.
  - simpl in Hin. destruct Hin as [Hin|[]]. inversion Hin; subst o piece.
    rewrite app_nil_r. rewrite <- (app_nil_r (rev cur)) at 1. apply slice_app; reflexivity.
  - simpl in Hin. destruct (f c) eqn:E.
    + destruct Hin as [Hin|Hin].
      * inversion Hin; subst o piece. apply slice_app; reflexivity.
      * replace (pre ++ rev cur ++ c :: s) with ((pre ++ rev cur ++ [c]) ++ rev [] ++ s)
          by (simpl; rewrite <- !app_assoc; reflexivity).
        eapply IH; [| |exact Hin]; rewrite !byte_len_app; rewrite byte_len_rev; cbn [byte_len]; lia.
    + replace (pre ++ rev cur ++ c :: s) with (pre ++ rev (c :: cur) ++ s)
        by (simpl; rewrite <- !app_assoc; reflexivity).
      eapply IH; [| |exact Hin]; cbn [byte_len]; lia.
Qed.

Lemma split_selects : forall f s o piece, In (o, piece) (split f s) ->
  slice s o (o + byte_len piece) = Done piece.
Proof.
  intros f s o piece H. unfold split in H.
  apply (split_go_selects f s [] [] 0 0 eq_refl eq_refl) in H. exact H.
Qed.

(* ---- the invariant ---- *)
Section Inv.
  Variable src : text.
  Variables awc pe iw : bool.
  Variable re_bad : list nat.
  Variable fx : fixes.
  Hypothesis Hfix : fix_target_span fx = true.

  Definition rule_ok (r : rule) : Prop :=
    match r_name r with
    | Some n => selects src (r_name_span r) n
    | None => fst (r_name_span r) = snd (r_name_span r)
    end.

  Definition state_ok (s : start_state) : Prop := selects src (ss_span s) (ss_name s).

  Definition inv (st : pstate) : Prop :=
    Forall rule_ok (rules st) /\
    exists declared, start_states st = start_states initial_state ++ declared /\ Forall state_ok declared.

  Lemma inv_initial : inv initial_state.
  Proof. split; [constructor|]. exists []. split; [reflexivity|constructor]. Qed.

  Lemma inv_push_state : forall st s, inv st -> state_ok s -> inv (push_state st s).
  Proof.
    intros st s [Hr [d [Hd Hf]]] Hs. split; [exact Hr|].
    exists (d ++ [s]). split.
    - simpl. rewrite Hd. rewrite <- app_assoc. reflexivity.
    - apply Forall_app. split; [assumption|]. constructor; [assumption|constructor].
  Qed.

  Lemma inv_push_rule : forall st r, inv st -> rule_ok r -> inv (push_rule st r).
  Proof.
    intros st r [Hr Hd] Hk. split; [|exact Hd].
    simpl. apply Forall_app. split; [assumption|]. constructor; [assumption|constructor].
  Qed.

  (* declare_loop *)
  Lemma declare_loop_inv : forall excl names st errs st' errs',
    inv st -> Forall (fun p => selects src (snd p) (fst p)) names ->
    declare_loop excl names st errs = TOk st' errs' -> inv st'.
  Proof.
    intros excl names. induction names as [|[name sp] rest IH]; intros st errs st' errs' Hi Hn H.
    - simpl in H. inversion H; subst. assumption.
    - cbn [declare_loop] in H. apply lbind_ok in H. destruct H as [v [Hv H]].
      inversion Hn as [|? ? Hhd Htl]; subst.
      eapply IH; [| exact Htl | exact H].
      destruct (fst v); [|assumption].
      apply inv_push_state; [assumption|]. exact Hhd.
  Qed.

  Lemma declared_names_selects : forall fb a b raw,
    slice src a b = Done raw ->
    Forall (fun p => selects src (snd p) (fst p))
           (declared_names fb (a + byte_len (take_while is_ws raw)) (trim is_ws raw)).
  Proof.
    intros fb a b raw Hraw. unfold declared_names. apply Forall_forall. intros [name sp] Hin.
    apply in_map_iff in Hin. destruct Hin as [[o piece] [Heq Hin]]. inversion Heq; subst name sp. clear Heq.
    assert (Hin' : In (o, piece) (split is_ws (trim is_ws raw))).
    { destruct fb; [apply filter_In in Hin; destruct Hin as [Hin _]|]; exact Hin. }
    clear Hin. rename Hin' into Hin.
    apply split_selects in Hin. unfold selects. cbn [fst snd].
    (* raw = lead ++ params ++ w *)
    set (lead := take_while is_ws raw).
    assert (Hp : slice raw (byte_len lead) (byte_len lead + byte_len (trim is_ws raw)) = Done (trim is_ws raw)).
    { unfold trim, trim_start. destruct (trim_end_split is_ws (drop_while is_ws raw)) as [w [Hs _]].
      rewrite <- (take_drop_while is_ws raw) at 1. fold lead. rewrite Hs at 1. apply slice_app; reflexivity. }
    pose proof (slice_of_slice _ _ _ _ _ _ _ Hraw Hp) as H1.
    pose proof (slice_of_slice _ _ _ _ _ _ _ H1 Hin) as H2.
    fold lead. replace (a + byte_len lead + o + byte_len piece) with (a + byte_len lead + (o + byte_len piece)) by lia.
    exact H2.
  Qed.

  Lemma declare_start_states_inv : forall excl i dl ll st errs k st' errs',
    inv st -> declare_start_states src fx excl i dl ll st errs = TOk (k, st') errs' -> inv st'.
  Proof.
    intros excl i dl ll st errs k st' errs' Hi H. unfold declare_start_states in H.
    apply lbind_ok in H. destruct H as [raw [Hraw H]]. apply lift_ok in Hraw.
    destruct (trim is_ws raw) as [|c0 params] eqn:Etrim; [discriminate|]. rewrite <- Etrim in H.
    destruct (declare_loop excl (declared_names (fix_decl_blanks fx) (i + dl + byte_len (take_while is_ws raw)) (trim is_ws raw)) st errs)
      as [st1 errs1| | |] eqn:El; try discriminate.
    apply lbind_ok in H. destruct H as [k' [_ H]]. inversion H; subst.
    eapply declare_loop_inv; [exact Hi| |exact El].
    eapply declared_names_selects. exact Hraw.
  Qed.

  Lemma parse_declaration_inv : forall i st errs k st' errs',
    inv st -> parse_declaration src fx i st errs = TOk (k, st') errs' -> inv st'.
  Proof.
    intros i st errs k st' errs' Hi H. unfold parse_declaration in H.
    apply lbind_ok in H. destruct H as [ll [_ H]].
    apply lbind_ok in H. destruct H as [line0 [_ H]].
    apply lbind_ok in H. destruct H as [decl0 [_ H]].
    destruct (is_declaration 115 83 (trim_end is_ws decl0)).
    - eapply declare_start_states_inv; eauto.
    - destruct (is_declaration 120 88 (trim_end is_ws decl0)); [|discriminate].
      eapply declare_start_states_inv; eauto.
  Qed.

  Lemma parse_declarations_loop_inv : forall fuel i st errs k st' errs',
    inv st -> parse_declarations_loop src awc fx fuel i st errs = TOk (k, st') errs' -> inv st'.
  Proof.
    induction fuel as [|fuel IH]; intros i st errs k st' errs' Hi H; [discriminate|].
    cbn [parse_declarations_loop] in H.
    apply lbind_ok in H. destruct H as [i1 [_ H]].
    apply lbind_ok in H. destruct H as [cmt [_ H]].
    destruct cmt as [j|].
    - apply lbind_ok in H. destruct H as [rest [_ H]]. eapply IH; eauto.
    - destruct (i1 =? src_len src); [discriminate|].
      apply lbind_ok in H. destruct H as [sep [_ H]]. destruct sep as [j|].
      + apply lbind_ok in H. destruct H as [k' [_ H]]. inversion H; subst. assumption.
      + destruct (parse_declaration src fx i1 st errs) as [[i2 st2] errs2| | |] eqn:Ed; try discriminate.
        eapply IH; [|exact H]. eapply parse_declaration_inv; eauto.
  Qed.

  (* parse_target: orig_name sits at name_off in the line *)
  Lemma parse_target_name_off : forall i st line rspace tg on name_off,
    parse_target i st line rspace = ROk (tg, on, name_off) -> slice_from line name_off = Done on.
  Proof.
    intros i st line rspace tg on name_off H. unfold parse_target in H.
    apply rbind_ok in H. destruct H as [tail [Htail H]]. apply lift_ok in Htail.
    destruct (starts_with [c_lt] tail).
    - destruct (find (N.eqb c_gt) tail) as [l|]; [|discriminate].
      apply rbind_ok in H. destruct H as [inner [_ H]].
      apply rbind_ok in H. destruct H as [so [_ H]].
      apply rbind_ok in H. destruct H as [state [_ H]].
      apply rbind_ok in H. destruct H as [on' [Hon H]]. apply lift_ok in Hon.
      inversion H; subst. exact Hon.
    - inversion H; subst. exact Htail.
  Qed.

  Lemma parse_name_selects : forall i rspace name_off line0 line on name sp,
    slice src i (i + byte_len line0) = Done line0 -> line = trim_end is_ws line0 ->
    slice_from line name_off = Done on ->
    parse_name fx i rspace name_off on = ROk (name, sp) -> selects src sp name.
  Proof.
    intros i rspace name_off line0 line on name sp Hl0 Hline Hon H. unfold parse_name in H.
    destruct ((byte_len on <=? 2) || negb (is_quoted on)); [discriminate|].
    apply rbind_ok in H. destruct H as [nm [Hnm H]]. apply lift_ok in Hnm.
    rewrite Hfix in H. inversion H; subst name sp. clear H. unfold selects. cbn [fst snd].
    destruct (trim_end_split is_ws line0) as [w [Hs _]]. rewrite <- Hline in Hs.
    assert (Hline_sl : slice line0 0 (byte_len line) = Done line) by (eapply slice_prefix_of; eauto).
    apply slice_from_as_slice in Hon.
    pose proof (slice_of_slice _ _ _ _ _ _ _ Hline_sl Hon) as H1. simpl in H1.
    pose proof (slice_of_slice _ _ _ _ _ _ _ H1 Hnm) as H2.
    pose proof (slice_of_slice _ _ _ _ _ _ _ Hl0 H2) as H3.
    pose proof (slice_inv _ _ _ _ Hnm) as [a [b [_ [Ha Hb]]]].
    replace (i + name_off + 1) with (i + (name_off + 1)) by lia.
    replace (i + name_off + byte_len on - 1) with (i + (name_off + (byte_len on - 1))) by lia.
    exact H3.
  Qed.

  Lemma parse_rule_inv : forall i st errs k st' errs',
    inv st -> parse_rule src pe iw re_bad fx i st errs = TOk (k, st') errs' -> inv st'.
  Proof.
    intros i st errs k st' errs' Hi H. unfold parse_rule in H.
    apply lbind_ok in H. destruct H as [ll [_ H]].
    apply lbind_ok in H. destruct H as [line0 [Hl0 H]]. apply lift_ok in Hl0.
    assert (Hl0' : slice src i (i + byte_len line0) = Done line0).
    { pose proof (slice_inv _ _ _ _ Hl0) as [a [b [Hs [Ha Hb]]]]. rewrite Hs. apply slice_app; lia. }
    destruct (rfind is_space_sep (trim_end is_ws line0)) as [rspace|]; [|discriminate].
    apply lbind_ok in H. destruct H as [[[tg on] name_off] [Htg H]].
    apply parse_target_name_off in Htg.
    apply lbind_ok in H. destruct H as [[name name_span] [Hnm H]].
    assert (Hrk : forall re ss, rule_ok {| r_name := name; r_name_span := name_span; r_re_str := re;
                                          r_start_states := ss; r_target := tg |}).
    { intros re ss. unfold rule_ok. cbn [r_name r_name_span].
      destruct (is_skip_name on).
      - inversion Hnm; subst. reflexivity.
      - apply rbind_ok in Hnm. destruct Hnm as [[n sp] [Hpn Hnm]]. inversion Hnm; subst. cbn [fst snd].
        eapply parse_name_selects; eauto. }
    destruct (match name with Some n => find_dupe (rules st) n | None => None end).
    - apply lbind_ok in H. destruct H as [errs1 [_ H]]. inversion H; subst. assumption.
    - apply lbind_ok in H. destruct H as [re0 [_ H]].
      apply lbind_ok in H. destruct H as [re1 [_ H]].
      apply lbind_ok in H. destruct H as [ps [_ H]].
      destruct (existsb (Nat.eqb i) re_bad); [discriminate|].
      inversion H; subst. apply inv_push_rule; [assumption|]. apply Hrk.
  Qed.

  Lemma parse_rules_inv : forall fuel i st errs k st' errs',
    inv st -> parse_rules src awc pe iw re_bad fx fuel i st errs = TOk (k, st') errs' -> inv st'.
  Proof.
    induction fuel as [|fuel IH]; intros i st errs k st' errs' Hi H; [discriminate|].
    cbn [parse_rules] in H.
    apply lbind_ok in H. destruct H as [i1 [_ H]].
    apply lbind_ok in H. destruct H as [ll [_ H]].
    apply lbind_ok in H. destruct H as [cmt [_ H]].
    destruct cmt as [j|]; [eapply IH; eauto|].
    apply lbind_ok in H. destruct H as [j [_ H]].
    destruct (negb (j =? i1)); [eapply IH; eauto|].
    destruct (i1 =? src_len src); [inversion H; subst; assumption|].
    apply lbind_ok in H. destruct H as [sep [_ H]]. destruct sep as [j'|].
    - inversion H; subst; assumption.
    - destruct (parse_rule src pe iw re_bad fx i1 st errs) as [[i2 st2] errs2| | |] eqn:Er; try discriminate.
      eapply IH; [|exact H]. eapply parse_rule_inv; eauto.
  Qed.

  Lemma parse_inv : forall fuel start st,
    parse src awc pe iw re_bad fx fuel start = Done (POk st) -> inv st.
  Proof.
    intros fuel start st H. unfold parse in H.
    destruct (parse_declarations src awc fx fuel start initial_state []) as [[i1 st1] errs1| | |] eqn:Ed; try discriminate.
    unfold parse_declarations in Ed. apply lbind_ok in Ed. destruct Ed as [i0 [_ Ed]].
    apply parse_declarations_loop_inv in Ed; [|apply inv_initial].
    destruct (parse_rules src awc pe iw re_bad fx fuel i1 st1 errs1) as [[i2 st2] errs2| | |] eqn:Er; try discriminate.
    apply parse_rules_inv in Er; [|assumption].
    assert (Hf : forall e, Done (finish st2 e) = Done (POk st) -> inv st).
    { intros e He. unfold finish in He. destruct e; inversion He; subst; assumption. }
    apply obind_ok in H. destruct H as [la [_ H]]. destruct la as [j|].
    - apply obind_ok in H. destruct H as [k [_ H]].
      destruct (k =? src_len src); [eapply Hf; eauto|discriminate].
    - destruct (i2 =? src_len src); [eapply Hf; eauto|discriminate].
  Qed.
End Inv.

Lemma inv_names_indexed : forall src st, inv src st -> names_indexed src st.
Proof.
  intros src st [Hr [d [Hd Hf]]]. rewrite Forall_forall in Hr, Hf. split; [|split].
  - intros r n Hin Hn. specialize (Hr r Hin). unfold rule_ok in Hr. rewrite Hn in Hr. exact Hr.
  - intros r Hin Hn. specialize (Hr r Hin). unfold rule_ok in Hr. rewrite Hn in Hr. exact Hr.
  - exists d. split; [exact Hd|]. intros s Hin. apply Hf. exact Hin.
Qed.

Lemma spans_index_source : spans_index_source_stmt.
Proof.
  intros fx src pos awc pe iw re_bad st Hh Ht H. unfold lex_from_str in H.
  apply obind_ok in H. destruct H as [s [_ H]]. rewrite Hh in H.
  apply inv_names_indexed. eapply parse_inv; eauto.
Qed.

(* ---- today's code ---- *)
(* "%grmtools{}\n%%\na 'ID'\n", header end 11: name_span (7,9) selects "ls" *)
Definition refute_src : text :=
  [37;103;114;109;116;111;111;108;115;123;125;10;37;37;10;97;32;39;73;68;39;10]%N.

Lemma spans_index_source_refuted : spans_index_source_refuted_stmt.
Proof.
  exists refute_src, 11, false, false, false.
  eexists. split; [vm_compute; reflexivity|].
  intros [H _]. specialize (H _ [73; 68]%N (or_introl eq_refl) eq_refl).
  unfold selects in H. vm_compute in H. discriminate.
Qed.

(* "%x A\n%%\na <A>'TOK'\n": name_span (11,14) selects "A>'" *)
Definition refute_target_src : text :=
  [37;120;32;65;10;37;37;10;97;32;60;65;62;39;84;79;75;39;10]%N.

Lemma target_span_refuted : target_span_refuted_stmt.
Proof.
  exists refute_target_src, false, false, false.
  eexists. split; [vm_compute; reflexivity|].
  intros [H _]. specialize (H _ [84; 79; 75]%N (or_introl eq_refl) eq_refl).
  unfold selects in H. vm_compute in H. discriminate.
Qed.
