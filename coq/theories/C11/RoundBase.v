(* C11 round trip — generic facts used by RoundRule.v / RoundDecl.v / Round.v:
   booleans, character classes, scanning functions (find, rfind, take_while,
   split, trim) on concatenations, and the parser's small steps at a known
   position of a text  src = pre ++ …  *)
From Coq Require Import List Arith NArith Bool Lia.
From GV Require Import Common.Outcome C11.Model C11.Spec C11.Slices C11.Print C11.RoundSpec.
Import ListNotations.

(* ---- booleans ---------------------------------------------------------------- *)
Ltac split_andb :=
  repeat match goal with
  | H : _ && _ = true |- _ => apply andb_prop in H; destruct H
  end.

Lemma negb_true : forall b, negb b = true -> b = false.
Proof. intros []; simpl; congruence. Qed.

Lemma forallb_app' : forall (A : Type) (f : A -> bool) a b,
  forallb f a = true -> forallb f b = true -> forallb f (a ++ b) = true.
Proof. intros A f a b Ha Hb. rewrite forallb_app, Ha, Hb. reflexivity. Qed.

Lemma forallb_imp : forall (A : Type) (f g : A -> bool) l,
  (forall x, f x = true -> g x = true) -> forallb f l = true -> forallb g l = true.
Proof.
  intros A f g l H. induction l as [|x l IH]; simpl; intros Hl; [reflexivity|].
  apply andb_prop in Hl. destruct Hl as [Hx Hl]. rewrite (H _ Hx), (IH Hl). reflexivity.
Qed.

(* what follows does not begin with an [f] character *)
Definition hd_not (f : N -> bool) (r : text) : Prop :=
  match r with [] => True | c :: _ => f c = false end.

(* ---- text equality -------------------------------------------------------------- *)
Lemma text_eqb_refl : forall a, text_eqb a a = true.
Proof. induction a as [|x a IH]; simpl; [reflexivity|]. rewrite N.eqb_refl. exact IH. Qed.

Lemma text_eqb_eq : forall a b, text_eqb a b = true -> a = b.
Proof.
  induction a as [|x a IH]; intros [|y b] H; simpl in H; try discriminate; [reflexivity|].
  apply andb_prop in H. destruct H as [Hx H]. apply N.eqb_eq in Hx. subst y. f_equal. auto.
Qed.

Lemma text_eqb_neq : forall a b, a <> b -> text_eqb a b = false.
Proof. intros a b H. destruct (text_eqb a b) eqn:E; [|reflexivity]. apply text_eqb_eq in E. contradiction. Qed.

Lemma text_eqb_sym : forall a b, text_eqb a b = text_eqb b a.
Proof.
  intros a b. destruct (text_eqb a b) eqn:E.
  - apply text_eqb_eq in E. subst. symmetry. apply text_eqb_refl.
  - destruct (text_eqb b a) eqn:E2; [|reflexivity]. apply text_eqb_eq in E2. subst. rewrite text_eqb_refl in E. discriminate.
Qed.

Lemma mem_text_In : forall n l, mem_text n l = true -> In n l.
Proof.
  intros n l H. unfold mem_text in H. apply existsb_exists in H. destruct H as [x [Hx He]].
  apply text_eqb_eq in He. subst. exact Hx.
Qed.

Lemma mem_text_false : forall n l, mem_text n l = false -> ~ In n l.
Proof.
  intros n l H Hin. unfold mem_text in H.
  assert (existsb (text_eqb n) l = true) as E.
  { apply existsb_exists. exists n. split; [exact Hin|apply text_eqb_refl]. }
  congruence.
Qed.

(* ---- character classes ------------------------------------------------------------ *)
Lemma mem_false_iff : forall c l, mem c l = false <-> ~ In c l.
Proof.
  intros c l. unfold mem. split.
  - intros H Hin. assert (existsb (N.eqb c) l = true) as E.
    { apply existsb_exists. exists c. split; [exact Hin|apply N.eqb_refl]. }
    congruence.
  - intros H. destruct (existsb (N.eqb c) l) eqn:E; [|reflexivity].
    apply existsb_exists in E. destruct E as [x [Hx He]]. apply N.eqb_eq in He. subst. contradiction.
Qed.

Lemma mem_true_In : forall c l, mem c l = true -> In c l.
Proof.
  intros c l H. unfold mem in H. apply existsb_exists in H. destruct H as [x [Hx He]].
  apply N.eqb_eq in He. subst. exact Hx.
Qed.

(* decide a fact about every member of a concrete list of characters *)
Ltac by_members H :=
  apply mem_true_In in H; simpl in H;
  repeat (destruct H as [H|H]; [subst; vm_compute; try reflexivity; try discriminate|]); try contradiction.

Lemma line_sep_ws : forall c, is_line_sep c = true -> is_ws c = true.
Proof. intros c H. unfold is_line_sep in H. by_members H. Qed.

Lemma space_sep_ws : forall c, is_space_sep c = true -> is_ws c = true.
Proof. intros c H. unfold is_space_sep in H. by_members H. Qed.

Lemma space_sep_not_nl : forall c, is_space_sep c = true -> is_line_sep c = false.
Proof. intros c H. unfold is_space_sep in H. by_members H. Qed.

Lemma space_sep_iws : forall c, is_space_sep c = true -> is_iws c = true.
Proof. intros c H. unfold is_iws. rewrite (space_sep_ws _ H), (space_sep_not_nl _ H). reflexivity. Qed.

Lemma iws_ws : forall c, is_iws c = true -> is_ws c = true.
Proof. intros c H. unfold is_iws in H. apply andb_prop in H. tauto. Qed.

Lemma iws_not_nl : forall c, is_iws c = true -> is_line_sep c = false.
Proof. intros c H. unfold is_iws in H. apply andb_prop in H. destruct H as [_ H]. apply negb_true in H. exact H. Qed.

Lemma not_ws_not_nl : forall c, is_ws c = false -> is_line_sep c = false.
Proof. intros c H. destruct (is_line_sep c) eqn:E; [|reflexivity]. apply line_sep_ws in E. congruence. Qed.

Lemma not_ws_not_space : forall c, is_ws c = false -> is_space_sep c = false.
Proof. intros c H. destruct (is_space_sep c) eqn:E; [|reflexivity]. apply space_sep_ws in E. congruence. Qed.

Lemma all_iws_ws : forall w, forallb is_iws w = true -> forallb is_ws w = true.
Proof. intros w. apply forallb_imp. exact iws_ws. Qed.

Lemma all_iws_no_nl : forall w, forallb is_iws w = true -> no_nl w = true.
Proof. intros w. apply forallb_imp. intros c H. rewrite (iws_not_nl _ H). reflexivity. Qed.

Lemma all_space_ws : forall w, forallb is_space_sep w = true -> forallb is_ws w = true.
Proof. intros w. apply forallb_imp. exact space_sep_ws. Qed.

(* a character of a start-state name / keyword *)
Definition is_name_char (d : N) : bool := is_alnum d || (d =? c_underscore)%N || (d =? c_dot)%N.

Lemma in_range_bounds : forall c lo hi, in_range c lo hi = true -> (lo <= c /\ c <= hi)%N.
Proof. intros c lo hi H. unfold in_range in H. apply andb_prop in H. destruct H as [H1 H2]. apply N.leb_le in H1, H2. tauto. Qed.

Lemma name_char_cases : forall c, is_name_char c = true ->
  (48 <= c <= 57 \/ 65 <= c <= 90 \/ 97 <= c <= 122 \/ c = 95 \/ c = 46)%N.
Proof.
  intros c H. unfold is_name_char, is_alnum, is_alpha, is_digit in H.
  repeat (apply orb_prop in H; destruct H as [H|H]);
    try (apply in_range_bounds in H; lia); apply N.eqb_eq in H; unfold c_underscore, c_dot in H; lia.
Qed.

Lemma alnum_name_char : forall c, is_alnum c = true -> is_name_char c = true.
Proof. intros c H. unfold is_name_char. rewrite H. reflexivity. Qed.

Lemma alpha_name_char : forall c, is_alpha c = true -> is_name_char c = true.
Proof. intros c H. unfold is_name_char, is_alnum. rewrite H. reflexivity. Qed.

(* a name character is none of the characters of a concrete list that avoids the name ranges *)
Lemma name_char_not_mem : forall c l, is_name_char c = true ->
  forallb (fun x => negb (is_name_char x)) l = true -> mem c l = false.
Proof.
  intros c l Hc Hl. apply mem_false_iff. intros Hin.
  rewrite forallb_forall in Hl. specialize (Hl _ Hin). rewrite Hc in Hl. discriminate.
Qed.

Lemma name_char_not_ws : forall c, is_name_char c = true -> is_ws c = false.
Proof. intros c H. unfold is_ws. apply name_char_not_mem; [exact H|vm_compute; reflexivity]. Qed.

Lemma name_char_neq : forall c k, is_name_char c = true -> is_name_char k = false -> (c =? k)%N = false.
Proof. intros c k Hc Hk. apply N.eqb_neq. intros ->. congruence. Qed.

Lemma state_name_chars : forall n, is_start_state_name n = true ->
  n <> [] /\ forallb is_name_char n = true /\ exists c n', n = c :: n' /\ is_alpha c = true.
Proof.
  intros [|c n'] H; simpl in H; [discriminate|].
  apply andb_prop in H. destruct H as [Hc Hn]. split; [discriminate|]. split.
  - simpl. rewrite (alpha_name_char _ Hc). exact Hn.
  - eauto.
Qed.

Lemma all_name_no_ws : forall n, forallb is_name_char n = true -> forallb (fun c => negb (is_ws c)) n = true.
Proof. intros n. apply forallb_imp. intros c H. rewrite (name_char_not_ws _ H). reflexivity. Qed.

(* ---- byte lengths ------------------------------------------------------------------ *)
Lemma byte_len_cons : forall c s, byte_len (c :: s) = len_utf8 c + byte_len s.
Proof. reflexivity. Qed.

Lemma len_space_sep : forall c, is_space_sep c = true -> len_utf8 c = 1.
Proof. intros c H. unfold is_space_sep in H. by_members H. Qed.

(* ---- find / rfind on concatenations -------------------------------------------------- *)
Lemma find_from_hit : forall f a c b off,
  forallb (fun x => negb (f x)) a = true -> f c = true ->
  find_from f (a ++ c :: b) off = Some (off + byte_len a).
Proof.
  intros f a. induction a as [|x a IH]; intros c b off Ha Hc; simpl.
  - rewrite Hc. f_equal. lia.
  - simpl in Ha. apply andb_prop in Ha. destruct Ha as [Hx Ha]. apply negb_true in Hx. rewrite Hx.
    rewrite IH by assumption. f_equal. lia.
Qed.

Lemma find_hit : forall f a c b,
  forallb (fun x => negb (f x)) a = true -> f c = true -> find f (a ++ c :: b) = Some (byte_len a).
Proof. intros. unfold find. rewrite find_from_hit by assumption. reflexivity. Qed.

Lemma find_from_none : forall f a off, forallb (fun x => negb (f x)) a = true -> find_from f a off = None.
Proof.
  intros f a. induction a as [|x a IH]; intros off Ha; simpl; [reflexivity|].
  simpl in Ha. apply andb_prop in Ha. destruct Ha as [Hx Ha]. apply negb_true in Hx. rewrite Hx. auto.
Qed.

Lemma find_none : forall f a, forallb (fun x => negb (f x)) a = true -> find f a = None.
Proof. intros. apply find_from_none. assumption. Qed.

Lemma rfind_from_none : forall f b off best,
  forallb (fun x => negb (f x)) b = true -> rfind_from f b off best = best.
Proof.
  intros f b. induction b as [|x b IH]; intros off best Hb; simpl; [reflexivity|].
  simpl in Hb. apply andb_prop in Hb. destruct Hb as [Hx Hb]. apply negb_true in Hx. rewrite Hx. auto.
Qed.

Lemma rfind_from_last : forall f a c b off best,
  f c = true -> forallb (fun x => negb (f x)) b = true ->
  rfind_from f (a ++ c :: b) off best = Some (off + byte_len a).
Proof.
  intros f a. induction a as [|x a IH]; intros c b off best Hc Hb; simpl.
  - rewrite Hc. rewrite rfind_from_none by assumption. f_equal. lia.
  - rewrite IH by assumption. f_equal. lia.
Qed.

Lemma rfind_last : forall f a c b,
  f c = true -> forallb (fun x => negb (f x)) b = true -> rfind f (a ++ c :: b) = Some (byte_len a).
Proof. intros. unfold rfind. rewrite rfind_from_last by assumption. reflexivity. Qed.

(* ---- take_while / drop_while / trim --------------------------------------------------- *)
Lemma take_while_app : forall f w r, forallb f w = true -> hd_not f r -> take_while f (w ++ r) = w.
Proof.
  intros f w. induction w as [|c w IH]; intros r Hw Hr; simpl.
  - destruct r as [|c r]; [reflexivity|]. simpl in Hr. simpl. rewrite Hr. reflexivity.
  - simpl in Hw. apply andb_prop in Hw. destruct Hw as [Hc Hw]. rewrite Hc. f_equal. auto.
Qed.

Lemma take_while_all' : forall f w, forallb f w = true -> take_while f w = w.
Proof. intros f w H. rewrite <- (app_nil_r w) at 1. apply take_while_app; [exact H|exact I]. Qed.

Lemma drop_while_app : forall f w r, forallb f w = true -> hd_not f r -> drop_while f (w ++ r) = r.
Proof.
  intros f w. induction w as [|c w IH]; intros r Hw Hr; simpl.
  - destruct r as [|c r]; [reflexivity|]. simpl in Hr. simpl. rewrite Hr. reflexivity.
  - simpl in Hw. apply andb_prop in Hw. destruct Hw as [Hc Hw]. rewrite Hc. auto.
Qed.

(* a text that ends in a non-[f] character, followed by [f] characters *)
Lemma trim_end_snoc : forall f p x w, f x = false -> forallb f w = true ->
  trim_end f ((p ++ [x]) ++ w) = p ++ [x].
Proof. intros f p x w Hx Hw. rewrite <- app_assoc. apply trim_end_app_ws; assumption. Qed.

Lemma trim_end_id : forall f p x, f x = false -> trim_end f (p ++ [x]) = p ++ [x].
Proof.
  intros f p x Hx. rewrite <- (app_nil_r (p ++ [x])) at 1. apply trim_end_snoc; [exact Hx|reflexivity].
Qed.

Lemma ends_with_snoc : forall c p, ends_with_char c (p ++ [c]) = true.
Proof. intros c p. unfold ends_with_char. rewrite rev_app_distr. simpl. apply N.eqb_refl. Qed.

(* ---- the parser's small steps at a known position -------------------------------------- *)
Lemma slice_from_at : forall pre rest, slice_from (pre ++ rest) (byte_len pre) = Done rest.
Proof. intros. apply slice_from_app. Qed.

Lemma scan_at : forall f pre w r, forallb f w = true -> hd_not f r ->
  (do rest <- slice_from (pre ++ w ++ r) (byte_len pre); Done (byte_len pre + byte_len (take_while f rest)))
  = Done (byte_len pre + byte_len w).
Proof. intros f pre w r Hw Hr. rewrite slice_from_at. simpl. rewrite take_while_app by assumption. reflexivity. Qed.

Lemma parse_ws_at : forall pre w r, forallb is_ws w = true -> hd_not is_ws r ->
  parse_ws (pre ++ w ++ r) (byte_len pre) = Done (byte_len pre + byte_len w).
Proof. intros. unfold parse_ws. apply scan_at; assumption. Qed.

Lemma parse_nl_at : forall pre w r, forallb is_line_sep w = true -> hd_not is_line_sep r ->
  parse_nl (pre ++ w ++ r) (byte_len pre) = Done (byte_len pre + byte_len w).
Proof. intros. unfold parse_nl. apply scan_at; assumption. Qed.

Lemma parse_spaces_at : forall pre w r, forallb is_space_sep w = true -> hd_not is_space_sep r ->
  parse_spaces (pre ++ w ++ r) (byte_len pre) = Done (byte_len pre + byte_len w).
Proof. intros. unfold parse_spaces. apply scan_at; assumption. Qed.

Lemma parse_ws_stay : forall pre r, hd_not is_ws r -> parse_ws (pre ++ r) (byte_len pre) = Done (byte_len pre).
Proof. intros pre r H. pose proof (parse_ws_at pre [] r eq_refl H) as E. simpl in E. rewrite E. f_equal. lia. Qed.

Lemma parse_nl_stay : forall pre r, hd_not is_line_sep r -> parse_nl (pre ++ r) (byte_len pre) = Done (byte_len pre).
Proof. intros pre r H. pose proof (parse_nl_at pre [] r eq_refl H) as E. simpl in E. rewrite E. f_equal. lia. Qed.

Lemma lookahead_at : forall p pre r,
  lookahead_is (pre ++ r) p (byte_len pre) =
  Done (if starts_with p r then Some (byte_len pre + byte_len p) else None).
Proof. intros. unfold lookahead_is. rewrite slice_from_at. reflexivity. Qed.

Lemma starts_with_app : forall p r, starts_with p (p ++ r) = true.
Proof. induction p as [|c p IH]; intros r; simpl; [reflexivity|]. rewrite N.eqb_refl. apply IH. Qed.

(* the line that starts at [pre] is [line] *)
Lemma line_len_at_line : forall pre line rest, no_nl line = true -> line_end rest ->
  line_len_at (pre ++ line ++ rest) (byte_len pre) = Done (byte_len line).
Proof.
  intros pre line rest Hl Hr. unfold line_len_at. rewrite slice_from_at. simpl. f_equal.
  destruct rest as [|c rest].
  - rewrite app_nil_r. rewrite find_none by exact Hl. unfold src_len. rewrite byte_len_app. lia.
  - simpl in Hr. rewrite find_hit by assumption. reflexivity.
Qed.

Lemma slice_at : forall pre m rest, slice (pre ++ m ++ rest) (byte_len pre) (byte_len pre + byte_len m) = Done m.
Proof. intros. apply slice_app; reflexivity. Qed.

(* ---- start states numbered by position --------------------------------------------------- *)
Lemma find_state_numbered : forall sts names k n,
  map ss_name sts = names -> map ss_id sts = seq k (length names) -> In n names ->
  exists s, List.find (fun s => text_eqb (ss_name s) n) sts = Some s /\ ss_id s = k + index_of n names.
Proof.
  induction sts as [|s sts IH]; intros names k n Hn Hi Hin.
  - simpl in Hn. subst names. destruct Hin.
  - destruct names as [|m names]; [discriminate|]. simpl in Hn, Hi. inversion Hn as [[Hm Hn']]. inversion Hi as [[Hk Hi']].
    simpl. rewrite Hm. destruct (text_eqb m n) eqn:E.
    + exists s. split; [reflexivity|]. lia.
    + destruct Hin as [Hin|Hin]; [subst; rewrite text_eqb_refl in E; discriminate|].
      rewrite Hk in Hi'. rewrite Hn'. destruct (IH names (S k) n Hn' Hi' Hin) as [s' [Hf Hid]].
      exists s'. split; [exact Hf|]. lia.
Qed.

Lemma get_state_numbered : forall st names off n,
  states_numbered names (start_states st) -> In n names ->
  exists s, get_start_state_by_name st off n = ROk s /\ ss_id s = index_of n names.
Proof.
  intros st names off n [Hn [Hi _]] Hin.
  destruct (find_state_numbered _ _ 0 n Hn Hi Hin) as [s [Hf Hid]].
  exists s. unfold get_start_state_by_name. rewrite Hf. split; [reflexivity|exact Hid].
Qed.
