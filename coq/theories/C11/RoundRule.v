(* C11 round trip — one printed rule line parses to the intended rule
   ([rule_line_roundtrip], [rule_line_span]): the regex field and its trailing
   blanks ([trim_end_unescaped_printed]), the <target> and the name behind the
   last horizontal blank, the <A,B> prefix (split at commas, names trimmed). *)
From Coq Require Import List Arith NArith Bool Lia.
From GV Require Import Common.Outcome C11.Model C11.Spec C11.Slices C11.EscProofs C11.Print C11.RoundSpec C11.RoundBase.
Import ListNotations.

(* ---- trailing blanks of the regex field ------------------------------------------------ *)
Lemma take_while_len_app : forall f a b, hd_not f b ->
  length (take_while f (a ++ b)) = length (take_while f a).
Proof.
  intros f a b Hb. induction a as [|c a IH]; simpl.
  - destruct b as [|x b]; [reflexivity|]. simpl in Hb. simpl. rewrite Hb. reflexivity.
  - destruct (f c); simpl; [f_equal; exact IH|reflexivity].
Qed.

(* the prefix before the written regex: nothing, or a text that ends in a character that is
   neither white space nor a backslash *)
Definition prefix_end_ok (p : text) : Prop :=
  p = [] \/ exists p' x, p = p' ++ [x] /\ is_ws x = false /\ (x =? c_bsl)%N = false.

Lemma count_bsl_behind : forall p w, prefix_end_ok p ->
  count_trailing_bsl (p ++ w) = length (take_while (N.eqb c_bsl) (rev w)).
Proof.
  intros p w Hp. unfold count_trailing_bsl. rewrite rev_app_distr. apply take_while_len_app.
  destruct Hp as [->|[p' [x [-> [_ Hx]]]]]; [exact I|].
  rewrite rev_app_distr. change (hd_not (N.eqb c_bsl) (x :: rev p')). unfold hd_not. rewrite N.eqb_sym. exact Hx.
Qed.

Lemma count_bsl_snoc_other : forall q x, (x =? c_bsl)%N = false -> count_trailing_bsl (q ++ [x]) = 0.
Proof.
  intros q x Hx. unfold count_trailing_bsl. rewrite rev_app_distr.
  change (rev [x] ++ rev q) with (x :: rev q). cbn [take_while]. rewrite N.eqb_sym, Hx. reflexivity.
Qed.

Lemma ws_not_bsl : forall c, is_ws c = true -> (c =? c_bsl)%N = false.
Proof. intros c H. unfold is_ws in H. by_members H. Qed.

Lemma bsl_not_ws : is_ws c_bsl = false.
Proof. reflexivity. Qed.

Lemma bsl_not_space : is_space_sep c_bsl = false.
Proof. reflexivity. Qed.

(* the blanks (spaces, tabs) behind the written regex are trimmed, the regex is not — whatever its
   last character is, as long as it is not an unescaped blank or a lone backslash *)
Lemma trim_end_unescaped_printed : forall p w blanks,
  prefix_end_ok p -> re_trim_ok w = true -> forallb is_space_sep blanks = true ->
  trim_end_unescaped (p ++ w ++ blanks) = Done (p ++ w).
Proof.
  intros p w blanks Hp Hw Hb. rewrite trim_end_unescaped_spec. f_equal.
  unfold trim_end_unescaped_ref, trim_end_unescaped_ref_gen.
  unfold re_trim_ok in Hw.
  destruct (rev w) as [|c r] eqn:Er.
  - (* w = [] *)
    assert (w = []) as -> by (rewrite <- (rev_involutive w), Er; reflexivity).
    simpl. rewrite app_nil_r.
    destruct Hp as [->|[p' [x [-> [Hx Hx']]]]].
    + simpl. rewrite trim_end_all_ws by exact Hb. reflexivity.
    + rewrite trim_end_snoc; [|apply not_ws_not_space; exact Hx|exact Hb].
      rewrite count_bsl_snoc_other by exact Hx'. reflexivity.
  - assert (w = rev r ++ [c]) as -> by (rewrite <- (rev_involutive w), Er; reflexivity).
    set (w' := rev r) in *.
    assert (Hk : count_trailing_bsl (p ++ w') = length (take_while (N.eqb c_bsl) r)).
    { rewrite count_bsl_behind by exact Hp. unfold w'. rewrite rev_involutive. reflexivity. }
    destruct (is_space_sep c) eqn:Ec.
    + (* escaped blank *)
      cbn [orb] in Hw.
      destruct r as [|d r'] eqn:Er'; [simpl in Hw; discriminate|].
      cbn [take_while] in Hw. destruct (c_bsl =? d)%N eqn:Ed; [|simpl in Hw; discriminate].
      apply N.eqb_eq in Ed. subst d.
      assert (Hw' : w' = rev r' ++ [c_bsl]) by (unfold w'; reflexivity).
      assert (Ht : trim_end is_space_sep (p ++ (w' ++ [c]) ++ blanks) = p ++ w').
      { rewrite Hw'. replace (p ++ ((rev r' ++ [c_bsl]) ++ [c]) ++ blanks)
          with (((p ++ rev r') ++ [c_bsl]) ++ (c :: blanks)) by (rewrite <- !app_assoc; reflexivity).
        rewrite trim_end_snoc; [rewrite <- app_assoc; reflexivity|reflexivity|simpl; rewrite Ec; exact Hb]. }
      rewrite Ht, Hk. cbn [take_while]. rewrite N.eqb_refl. rewrite Hw.
      replace (p ++ (w' ++ [c]) ++ blanks) with ((p ++ w') ++ c :: blanks) by (rewrite <- !app_assoc; reflexivity).
      rewrite skipn_app_length. simpl. rewrite <- app_assoc. reflexivity.
    + assert (Ht : trim_end is_space_sep (p ++ (w' ++ [c]) ++ blanks) = p ++ w' ++ [c]).
      { replace (p ++ (w' ++ [c]) ++ blanks) with (((p ++ w') ++ [c]) ++ blanks) by (rewrite <- !app_assoc; reflexivity).
        rewrite trim_end_snoc by assumption. rewrite <- app_assoc. reflexivity. }
      rewrite Ht. cbn [orb] in Hw.
      destruct (c =? c_bsl)%N eqn:Eb.
      * apply N.eqb_eq in Eb. subst c.
        replace (p ++ w' ++ [c_bsl]) with ((p ++ w') ++ [c_bsl]) by (rewrite <- app_assoc; reflexivity).
        unfold count_trailing_bsl at 1. rewrite rev_app_distr. simpl.
        fold (count_trailing_bsl (p ++ w')). rewrite Hk.
        rewrite Nat.odd_succ. rewrite <- Nat.negb_odd, Hw. simpl. reflexivity.
      * replace (p ++ w' ++ [c]) with ((p ++ w') ++ [c]) by (rewrite <- app_assoc; reflexivity).
        rewrite count_bsl_snoc_other by exact Eb. reflexivity.
Qed.
(* ---- scanning a printed piece -------------------------------------------------------------- *)
Lemma length_neq_text : forall a b, length a <> length b -> text_eqb a b = false.
Proof. intros a b H. apply text_eqb_neq. intros ->. apply H. reflexivity. Qed.

Lemma byte_len_pos : forall m, m <> [] -> 1 <= byte_len m.
Proof. intros [|c m] H; [contradiction|]. simpl. pose proof (len_utf8_pos c). lia. Qed.

Lemma snoc_of_nonempty : forall (m : text), m <> [] -> exists q x, m = q ++ [x].
Proof. intros m H. destruct (exists_last H) as [q [x E]]. eauto. Qed.

Lemma forallb_last : forall (f : N -> bool) q x, forallb f (q ++ [x]) = true -> f x = true.
Proof. intros f q x H. rewrite forallb_app in H. apply andb_prop in H. destruct H as [_ H]. simpl in H. rewrite andb_true_r in H. exact H. Qed.

(* trim of a padded name *)
Lemma trim_padded : forall l n r, n <> [] -> forallb (fun c => negb (is_ws c)) n = true ->
  forallb is_ws l = true -> forallb is_ws r = true -> trim is_ws (l ++ n ++ r) = n.
Proof.
  intros l n r Hn Hc Hl Hr. unfold trim, trim_start.
  rewrite drop_while_app; [|exact Hl|].
  - destruct (snoc_of_nonempty n Hn) as [q [x ->]].
    apply trim_end_snoc; [|exact Hr]. apply forallb_last in Hc. apply negb_true in Hc. exact Hc.
  - destruct n as [|c n]; [contradiction|]. simpl in Hc. apply andb_prop in Hc. destruct Hc as [Hc _].
    apply negb_true in Hc. exact Hc.
Qed.

(* split on a separator that the pieces do not contain *)
Lemma split_go_skip : forall f p rest off start cur, forallb (fun x => negb (f x)) p = true ->
  split_go f (p ++ rest) off start cur = split_go f rest (off + byte_len p) start (rev p ++ cur).
Proof.
  intros f p. induction p as [|c p IH]; intros rest off start cur Hp; simpl.
  - f_equal. lia.
  - simpl in Hp. apply andb_prop in Hp. destruct Hp as [Hc Hp]. apply negb_true in Hc. rewrite Hc.
    rewrite IH by exact Hp. rewrite <- app_assoc. simpl. f_equal. lia.
Qed.

Lemma split_go_join : forall ps p off start,
  forallb (fun q => forallb (fun x => negb (x =? c_comma)%N) q) (p :: ps) = true ->
  map snd (split_go (N.eqb c_comma) (join_comma (p :: ps)) off start []) = p :: ps.
Proof.
  induction ps as [|p2 ps IH]; intros p off start H.
  - simpl in H. rewrite andb_true_r in H. cbn [join_comma].
    rewrite <- (app_nil_r p) at 1. rewrite split_go_skip.
    + simpl. rewrite app_nil_r, rev_involutive. reflexivity.
    + eapply forallb_imp; [|exact H]. intros x Hx. cbn beta in *. rewrite N.eqb_sym. exact Hx.
  - cbn [forallb] in H. apply andb_prop in H. destruct H as [Hp H].
    change (join_comma (p :: p2 :: ps)) with (p ++ c_comma :: join_comma (p2 :: ps)).
    rewrite split_go_skip.
    + cbn [split_go]. rewrite N.eqb_refl. cbn [map snd]. rewrite app_nil_r, rev_involutive. f_equal.
      apply IH. exact H.
    + eapply forallb_imp; [|exact Hp]. intros x Hx. cbn beta in *. rewrite N.eqb_sym. exact Hx.
Qed.

Lemma split_join : forall p ps,
  forallb (fun q => forallb (fun x => negb (x =? c_comma)%N) q) (p :: ps) = true ->
  map snd (split (N.eqb c_comma) (join_comma (p :: ps))) = p :: ps.
Proof. intros. unfold split. apply split_go_join. assumption. Qed.

(* ---- names of start states inside a rule line ------------------------------------------------- *)
Lemma state_name_no : forall n k, is_start_state_name n = true -> is_name_char k = false ->
  forallb (fun x => negb (x =? k)%N) n = true.
Proof.
  intros n k Hn Hk. destruct (state_name_chars n Hn) as [_ [Hc _]].
  eapply forallb_imp; [|exact Hc]. intros x Hx. cbn beta. rewrite (name_char_neq _ _ Hx Hk). reflexivity.
Qed.

Lemma state_name_no_ws : forall n, is_start_state_name n = true -> forallb (fun c => negb (is_ws c)) n = true.
Proof. intros n Hn. destruct (state_name_chars n Hn) as [_ [Hc _]]. apply all_name_no_ws. exact Hc. Qed.

Lemma state_name_no_nl : forall n, is_start_state_name n = true -> no_nl n = true.
Proof.
  intros n Hn. eapply forallb_imp; [|apply state_name_no_ws; exact Hn].
  intros c Hc. cbn beta in *. apply negb_true in Hc. rewrite (not_ws_not_nl _ Hc). reflexivity.
Qed.

Lemma state_name_no_space : forall n, is_start_state_name n = true -> forallb (fun c => negb (is_space_sep c)) n = true.
Proof.
  intros n Hn. eapply forallb_imp; [|apply state_name_no_ws; exact Hn].
  intros c Hc. cbn beta in *. apply negb_true in Hc. rewrite (not_ws_not_space _ Hc). reflexivity.
Qed.

Lemma names_valid_In : forall names n, forallb is_start_state_name names = true -> In n names -> is_start_state_name n = true.
Proof. intros names n H Hin. rewrite forallb_forall in H. auto. Qed.

Lemma states_by_name_numbered : forall st names off ns,
  states_numbered names (start_states st) -> (forall n, In n ns -> In n names) ->
  states_by_name st off ns = ROk (map (fun n => index_of n names) ns).
Proof.
  intros st names off ns Hst. induction ns as [|n ns IH]; intros Hin; simpl; [reflexivity|].
  destruct (get_state_numbered st names off n Hst (Hin n (or_introl eq_refl))) as [s [Hs Hid]].
  rewrite Hs. simpl. rewrite IH by (intros m Hm; apply Hin; right; exact Hm). simpl. rewrite Hid. reflexivity.
Qed.
Ltac lens :=
  try change (len_utf8 c_lt) with 1; try change (len_utf8 c_gt) with 1; try change (len_utf8 c_comma) with 1;
  try change (len_utf8 c_percent) with 1; try change (len_utf8 c_slash) with 1.
Ltac blen := repeat first [rewrite !byte_len_app | progress cbn [byte_len app]]; lens.

(* ---- the name field ------------------------------------------------------------------------------ *)
Definition name_ok (n : option text) : Prop :=
  match n with Some m => rule_name_ok m = true | None => True end.

Lemma qchar_facts : forall q, is_ws (qchar q) = false /\ is_space_sep (qchar q) = false /\
  is_line_sep (qchar q) = false /\ (c_lt =? qchar q)%N = false /\ len_utf8 (qchar q) = 1.
Proof. intros []; repeat split; reflexivity. Qed.

Lemma print_name_shape : forall rl n, name_ok n ->
  (exists q x, print_name rl n = q ++ [x] /\ is_ws x = false) /\
  forallb (fun c => negb (is_space_sep c)) (print_name rl n) = true /\
  no_nl (print_name rl n) = true /\
  starts_with [c_lt] (print_name rl n) = false.
Proof.
  intros rl [m|] Hn; simpl in Hn.
  - unfold rule_name_ok in Hn. apply andb_prop in Hn. destruct Hn as [_ Hn].
    destruct (qchar_facts (rl_quote rl)) as [Hw [Hs [Hl [Hlt _]]]].
    cbn [print_name]. repeat split.
    + exists ([qchar (rl_quote rl)] ++ m), (qchar (rl_quote rl)). split; [rewrite <- app_assoc; reflexivity|exact Hw].
    + rewrite !forallb_app. cbn [forallb]. rewrite Hs. cbn [negb andb].
      rewrite andb_true_r. eapply forallb_imp; [|exact Hn]. intros c Hc. cbn beta in Hc. apply andb_prop in Hc. tauto.
    + unfold no_nl. rewrite !forallb_app. cbn [forallb]. rewrite Hl. cbn [negb andb].
      rewrite andb_true_r. eapply forallb_imp; [|exact Hn]. intros c Hc. cbn beta in Hc. apply andb_prop in Hc. tauto.
    + cbn [app starts_with]. rewrite Hlt. reflexivity.
  - cbn [print_name]. destruct (rl_skip rl); repeat split; try reflexivity.
    + exists [], c_semi. split; reflexivity.
    + exists [c_dquote], c_dquote. split; reflexivity.
    + exists [c_squote], c_squote. split; reflexivity.
Qed.

Lemma skip_name_is_skip : forall rl, is_skip_name (print_name rl None) = true.
Proof. intros rl. cbn [print_name]. destruct (rl_skip rl); reflexivity. Qed.

Lemma quoted_not_skip : forall q m, m <> [] -> is_skip_name ([qchar q] ++ m ++ [qchar q]) = false.
Proof.
  intros q m Hm. destruct m as [|c m]; [contradiction|]. unfold is_skip_name.
  rewrite !length_neq_text; [reflexivity| | |]; cbn [app length]; rewrite app_length; simpl; lia.
Qed.

Lemma quoted_is_quoted : forall q m, is_quoted ([qchar q] ++ m ++ [qchar q]) = true.
Proof.
  intros q m. unfold is_quoted.
  replace ([qchar q] ++ m ++ [qchar q]) with (([qchar q] ++ m) ++ [qchar q]) by (rewrite <- app_assoc; reflexivity).
  destruct q; cbn [qchar].
  - rewrite ends_with_snoc. cbn [app starts_with]. rewrite N.eqb_refl. reflexivity.
  - rewrite (ends_with_snoc c_dquote). cbn [app starts_with]. rewrite N.eqb_refl. rewrite orb_true_r. reflexivity.
Qed.

Lemma parse_name_quoted : forall i rspace name_off q m, m <> [] ->
  parse_name repaired i rspace name_off ([qchar q] ++ m ++ [qchar q]) =
  ROk (m, (i + name_off + 1, i + name_off + 1 + byte_len m)).
Proof.
  intros i rspace name_off q m Hm. unfold parse_name.
  destruct (qchar_facts q) as [_ [_ [_ [_ Hlen]]]].
  assert (Hb : byte_len ([qchar q] ++ m ++ [qchar q]) = 2 + byte_len m).
  { rewrite !byte_len_app. cbn [byte_len]. rewrite Hlen. lia. }
  pose proof (byte_len_pos m Hm) as Hp.
  rewrite quoted_is_quoted, Hb.
  destruct (2 + byte_len m <=? 2) eqn:E; [apply Nat.leb_le in E; lia|]. cbn [orb negb].
  rewrite slice_app; [|cbn [byte_len]; lia|cbn [byte_len]; lia].
  cbn [lift rbind]. cbn [fix_target_span repaired mk_fixes]. do 3 f_equal; lia.
Qed.

Lemma flip_neq : forall k l, forallb (fun x => negb (x =? k)%N) l = true ->
  forallb (fun x => negb (N.eqb k x)) l = true.
Proof. intros k l. apply forallb_imp. intros x Hx. rewrite N.eqb_sym. exact Hx. Qed.

(* ---- the target ------------------------------------------------------------------------------------- *)
Definition target_ok (names : list text) (t : option (text * op)) : Prop :=
  match t with Some (s, _) => In s names | None => True end.

Lemma print_op_facts : forall o, forallb (fun x => negb (x =? c_gt)%N) (print_op o) = true /\
  forallb (fun c => negb (is_space_sep c)) (print_op o) = true /\ no_nl (print_op o) = true.
Proof. intros []; repeat split; reflexivity. Qed.

Lemma print_target_shape : forall names t, forallb is_start_state_name names = true -> target_ok names t ->
  forallb (fun c => negb (is_space_sep c)) (print_target t) = true /\ no_nl (print_target t) = true.
Proof.
  intros names [[s o]|] Hv Ht; [|split; reflexivity]. simpl in Ht.
  pose proof (names_valid_In _ _ Hv Ht) as Hs.
  destruct (print_op_facts o) as [_ [Ho1 Ho2]].
  cbn [print_target]. split.
  - rewrite !forallb_app. rewrite Ho1, (state_name_no_space _ Hs). reflexivity.
  - pose proof (state_name_no_nl _ Hs) as Hs2. unfold no_nl in *. rewrite !forallb_app. rewrite Ho2, Hs2. reflexivity.
Qed.

Lemma parse_ops_printed : forall o s, is_start_state_name s = true ->
  parse_start_state_ops (print_op o ++ s) = Done (s, o).
Proof.
  intros o s Hs. destruct (state_name_chars s Hs) as [_ [_ [c [s' [-> Hc]]]]].
  pose proof (alpha_name_char _ Hc) as Hn.
  destruct o; cbn [print_op app]; unfold parse_start_state_ops.
  - rewrite (name_char_neq c c_plus Hn eq_refl), (name_char_neq c c_minus Hn eq_refl). reflexivity.
  - rewrite N.eqb_refl. reflexivity.
  - change (c_minus =? c_plus)%N with false. rewrite N.eqb_refl. reflexivity.
Qed.

(* [body] = A ++ sp :: B is the trimmed line; B = target ++ name *)
Lemma parse_target_printed : forall i st names A sp t nm,
  is_space_sep sp = true -> forallb is_start_state_name names = true ->
  states_numbered names (start_states st) -> target_ok names t ->
  starts_with [c_lt] nm = false ->
  parse_target i st (A ++ sp :: print_target t ++ nm) (byte_len A) =
  ROk (target_of names t, nm, byte_len (A ++ sp :: print_target t)).
Proof.
  intros i st names A sp t nm Hsp Hv Hst Ht Hnm. unfold parse_target.
  pose proof (len_space_sep _ Hsp) as Hl.
  assert (Hsf : slice_from (A ++ sp :: print_target t ++ nm) (byte_len A + 1) = Done (print_target t ++ nm)).
  { replace (A ++ sp :: print_target t ++ nm) with ((A ++ [sp]) ++ print_target t ++ nm) by (rewrite <- app_assoc; reflexivity).
    apply slice_from_app'. rewrite byte_len_app. cbn [byte_len]. lia. }
  rewrite Hsf. cbn [lift rbind].
  destruct t as [[s o]|].
  - simpl in Ht. pose proof (names_valid_In _ _ Hv Ht) as Hs.
    destruct (print_op_facts o) as [Ho _].
    cbn [print_target target_of].
    change (([c_lt] ++ print_op o ++ s ++ [c_gt]) ++ nm) with (c_lt :: (print_op o ++ s ++ [c_gt]) ++ nm).
    cbn [starts_with]. rewrite N.eqb_refl. cbn [andb].
    replace (c_lt :: (print_op o ++ s ++ [c_gt]) ++ nm) with ((c_lt :: print_op o ++ s) ++ c_gt :: nm)
      by (cbn [app]; rewrite <- !app_assoc; reflexivity).
    rewrite find_hit; [| |apply N.eqb_refl].
    2:{ cbn [forallb]. change (c_gt =? c_lt)%N with false. cbn [negb andb]. rewrite forallb_app.
        rewrite (flip_neq _ _ Ho), (flip_neq _ _ (state_name_no s c_gt Hs eq_refl)). reflexivity. }
    replace (A ++ sp :: (c_lt :: print_op o ++ s) ++ c_gt :: nm)
      with ((A ++ [sp; c_lt]) ++ (print_op o ++ s) ++ c_gt :: nm) by (cbn [app]; rewrite <- !app_assoc; reflexivity).
    rewrite slice_app; [| rewrite byte_len_app; cbn [byte_len]; change (len_utf8 c_lt) with 1; lia
                        | rewrite byte_len_app; cbn [byte_len]; change (len_utf8 c_lt) with 1; lia].
    cbn [lift rbind]. rewrite parse_ops_printed by exact Hs. cbn [lift rbind fst snd].
    destruct (get_state_numbered st names (i + byte_len A + 1) s Hst Ht) as [state [Hg Hid]].
    rewrite Hg. cbn [rbind].
    replace ((A ++ [sp; c_lt]) ++ (print_op o ++ s) ++ c_gt :: nm)
      with ((A ++ sp :: c_lt :: print_op o ++ s ++ [c_gt]) ++ nm) by (cbn [app]; rewrite <- !app_assoc; cbn [app]; rewrite <- !app_assoc; reflexivity).
    rewrite slice_from_app'.
    + cbn [lift rbind]. rewrite Hid. f_equal. f_equal.
      blen. lia.
    + blen. lia.
  - cbn [print_target target_of app]. rewrite Hnm. f_equal. f_equal. rewrite byte_len_app. cbn [byte_len]. lia.
Qed.
(* ---- the <A,B> prefix ------------------------------------------------------------------------------- *)
Definition pads_ok (pads : list (text * text)) : bool :=
  forallb (fun p => forallb is_iws (fst p) && forallb is_iws (snd p)) pads.

Lemma pads_ok_hd_tl : forall pads, pads_ok pads = true ->
  forallb is_iws (fst (hd ([], []) pads)) = true /\ forallb is_iws (snd (hd ([], []) pads)) = true /\
  pads_ok (tl pads) = true.
Proof.
  intros [|p pads] H; simpl; [repeat split; reflexivity|].
  unfold pads_ok in H. simpl in H. apply andb_prop in H. destruct H as [Hp H]. apply andb_prop in Hp. tauto.
Qed.

Lemma ws_neq : forall x k, is_ws x = true -> is_ws k = false -> (x =? k)%N = false.
Proof. intros x k Hx Hk. apply N.eqb_neq. intros ->. congruence. Qed.

(* a character that is neither white space nor a name character does not occur in a padded name *)
Lemma piece_no : forall k l n r, is_ws k = false -> is_name_char k = false ->
  forallb is_iws l = true -> forallb is_iws r = true -> is_start_state_name n = true ->
  forallb (fun x => negb (x =? k)%N) (l ++ n ++ r) = true.
Proof.
  intros k l n r Hw Hk Hl Hr Hn. rewrite !forallb_app.
  assert (Hi : forall w, forallb is_iws w = true -> forallb (fun x => negb (x =? k)%N) w = true).
  { intros w. apply forallb_imp. intros x Hx. rewrite (ws_neq x k (iws_ws _ Hx) Hw). reflexivity. }
  rewrite (Hi l Hl), (Hi r Hr), (state_name_no n k Hn Hk). reflexivity.
Qed.

Lemma piece_no_nl : forall l n r, forallb is_iws l = true -> forallb is_iws r = true ->
  is_start_state_name n = true -> no_nl (l ++ n ++ r) = true.
Proof.
  intros l n r Hl Hr Hn. pose proof (all_iws_no_nl _ Hl) as H1. pose proof (all_iws_no_nl _ Hr) as H2.
  pose proof (state_name_no_nl _ Hn) as H3. unfold no_nl in *. rewrite !forallb_app, H1, H2, H3. reflexivity.
Qed.

Lemma pre_pieces_facts : forall k names pre pads, is_ws k = false -> is_name_char k = false ->
  forallb is_start_state_name names = true -> (forall n, In n pre -> In n names) -> pads_ok pads = true ->
  forallb (fun q => forallb (fun x => negb (x =? k)%N) q) (pre_pieces pads pre) = true /\
  forallb no_nl (pre_pieces pads pre) = true /\
  map (trim is_ws) (pre_pieces pads pre) = pre.
Proof.
  intros k names pre. induction pre as [|n ns IH]; intros pads Hw Hk Hv Hin Hp; [repeat split; reflexivity|].
  destruct (pads_ok_hd_tl pads Hp) as [Hl [Hr Ht]].
  pose proof (names_valid_In _ _ Hv (Hin n (or_introl eq_refl))) as Hn.
  destruct (IH (tl pads) Hw Hk Hv (fun m Hm => Hin m (or_intror Hm)) Ht) as [I1 [I2 I3]].
  cbn [pre_pieces forallb map]. rewrite I1, I2, I3.
  rewrite (piece_no k _ n _ Hw Hk Hl Hr Hn), (piece_no_nl _ n _ Hl Hr Hn).
  rewrite trim_padded; [repeat split; reflexivity| | | |].
  - destruct (state_name_chars n Hn) as [H _]. exact H.
  - apply state_name_no_ws. exact Hn.
  - apply all_iws_ws. exact Hl.
  - apply all_iws_ws. exact Hr.
Qed.

Lemma join_comma_all : forall (f : N -> bool) ps, f c_comma = true -> forallb (forallb f) ps = true ->
  forallb f (join_comma ps) = true.
Proof.
  intros f ps Hc. induction ps as [|p ps IH]; intros H; [reflexivity|].
  cbn [forallb] in H. apply andb_prop in H. destruct H as [Hp H].
  destruct ps as [|p2 ps]; [exact Hp|].
  change (join_comma (p :: p2 :: ps)) with (p ++ c_comma :: join_comma (p2 :: ps)).
  rewrite forallb_app. cbn [forallb]. rewrite Hp, Hc, (IH H). reflexivity.
Qed.

Lemma split_join' : forall ps, ps <> [] ->
  forallb (fun q => forallb (fun x => negb (x =? c_comma)%N) q) ps = true ->
  map snd (split (N.eqb c_comma) (join_comma ps)) = ps.
Proof. intros [|p ps] Hn H; [contradiction|]. apply split_join. exact H. Qed.

Lemma print_prefix_shape : forall names pads pre,
  forallb is_start_state_name names = true -> (forall n, In n pre -> In n names) -> pads_ok pads = true ->
  no_nl (print_prefix pads pre) = true /\ prefix_end_ok (print_prefix pads pre).
Proof.
  intros names pads pre Hv Hin Hp. destruct pre as [|n ns]; [split; [reflexivity|left; reflexivity]|].
  destruct (pre_pieces_facts c_gt names (n :: ns) pads eq_refl eq_refl Hv Hin Hp) as [_ [H2 _]].
  unfold print_prefix. split.
  - unfold no_nl. rewrite !forallb_app. cbn [forallb]. change (negb (is_line_sep c_lt)) with true.
    change (negb (is_line_sep c_gt)) with true. cbn [andb]. rewrite andb_true_r.
    apply join_comma_all; [reflexivity|exact H2].
  - right. exists ([c_lt] ++ join_comma (pre_pieces pads (n :: ns))), c_gt.
    split; [rewrite <- app_assoc; reflexivity|split; reflexivity].
Qed.

Lemma parse_start_states_printed : forall pe iw st i names pads pre re,
  forallb is_start_state_name names = true -> states_numbered names (start_states st) ->
  (forall n, In n pre -> In n names) -> pads_ok pads = true ->
  (pre = [] -> starts_with [c_lt] re = false) ->
  parse_start_states pe iw repaired st i (print_prefix pads pre ++ re) =
  ROk (map (fun n => index_of n names) pre, map_escapes iw pe re).
Proof.
  intros pe iw st i names pads pre re Hv Hst Hin Hp Hre. unfold parse_start_states.
  destruct pre as [|n ns].
  - cbn [print_prefix app]. rewrite (Hre eq_refl). cbn [negb]. cbn [fix_dangling fix_iw fix_esc_table fix_esc_octal repaired mk_fixes andb unescape_sel].
    rewrite unescape_iw_spec. reflexivity.
  - destruct (pre_pieces_facts c_gt names (n :: ns) pads eq_refl eq_refl Hv Hin Hp) as [G1 _].
    destruct (pre_pieces_facts c_comma names (n :: ns) pads eq_refl eq_refl Hv Hin Hp) as [C1 [_ C3]].
    set (pieces := pre_pieces pads (n :: ns)) in *.
    unfold print_prefix. fold pieces.
    replace (([c_lt] ++ join_comma pieces ++ [c_gt]) ++ re) with (c_lt :: join_comma pieces ++ c_gt :: re)
      by (cbn [app]; rewrite <- app_assoc; reflexivity).
    cbn [starts_with]. rewrite N.eqb_refl. cbn [andb negb].
    replace (c_lt :: join_comma pieces ++ c_gt :: re) with ((c_lt :: join_comma pieces) ++ c_gt :: re) by reflexivity.
    rewrite find_hit; [| |apply N.eqb_refl].
    2:{ cbn [forallb]. change (c_gt =? c_lt)%N with false. cbn [negb andb].
        apply flip_neq. apply join_comma_all; [reflexivity|exact G1]. }
    replace ((c_lt :: join_comma pieces) ++ c_gt :: re) with ([c_lt] ++ join_comma pieces ++ c_gt :: re) by reflexivity.
    rewrite slice_app; [|reflexivity|blen; lia]. cbn [lift rbind].
    rewrite <- (map_map snd (trim is_ws)).
    rewrite split_join' by (exact C1 || (unfold pieces; cbn [pre_pieces]; discriminate)).
    rewrite C3.
    rewrite (states_by_name_numbered st names i (n :: ns) Hst Hin). cbn [rbind].
    replace ([c_lt] ++ join_comma pieces ++ c_gt :: re) with ((c_lt :: join_comma pieces ++ [c_gt]) ++ re)
      by (cbn [app]; rewrite <- app_assoc; reflexivity).
    rewrite slice_from_app' by (blen; lia). cbn [lift rbind]. cbn [fix_prefix_unescape fix_dangling fix_iw fix_esc_table fix_esc_octal repaired mk_fixes andb unescape_sel].
    rewrite unescape_iw_spec. reflexivity.
Qed.
(* ---- one rule line ------------------------------------------------------------------------------------ *)
Lemma no_nl_app : forall a b, no_nl a = true -> no_nl b = true -> no_nl (a ++ b) = true.
Proof. intros a b Ha Hb. unfold no_nl in *. rewrite forallb_app, Ha, Hb. reflexivity. Qed.

Lemma re_start_not_lt : forall awc re, re_start_ok awc re = true -> starts_with [c_lt] re = false.
Proof.
  intros awc [|c re] H; unfold re_start_ok in H; [discriminate|].
  apply andb_prop in H. destruct H as [H _]. apply andb_prop in H. destruct H as [H _].
  apply andb_prop in H. destruct H as [_ H]. apply negb_true in H.
  cbn [starts_with]. rewrite N.eqb_sym, H. reflexivity.
Qed.

Lemma rule_line_roundtrip : rule_line_roundtrip_stmt.
Proof.
  intros awc pe iw last src pre rest st errs names rl r Hsrc Hend Hr Hrl Hv Hst Hdup.
  (* the hypotheses, unpacked *)
  unfold wf_arule in Hr.
  apply andb_prop in Hr. destruct Hr as [Hr Hre]. apply andb_prop in Hr. destruct Hr as [Hr Hnm].
  apply andb_prop in Hr. destruct Hr as [Hpre Htg].
  unfold wf_rline in Hrl.
  apply andb_prop in Hrl. destruct Hrl as [Hrl _]. apply andb_prop in Hrl. destruct Hrl as [Hrl _].
  apply andb_prop in Hrl. destruct Hrl as [Hrl Htrail]. apply andb_prop in Hrl. destruct Hrl as [Hrl Hsp].
  apply andb_prop in Hrl. destruct Hrl as [Hpads Hblanks].
  assert (Hin : forall n, In n (a_pre r) -> In n names).
  { intros n Hn. rewrite forallb_forall in Hpre. apply mem_text_In. apply Hpre. exact Hn. }
  assert (Htok : target_ok names (a_target r)).
  { destruct (a_target r) as [[s o]|]; [|exact I]. simpl. apply mem_text_In. exact Htg. }
  assert (Hnok : name_ok (a_name r)).
  { destruct (a_name r); [exact Hnm|exact I]. }
  unfold re_printable in Hre.
  apply andb_prop in Hre. destruct Hre as [Hre Hstart]. apply andb_prop in Hre. destruct Hre as [Hrenl Htrim].
  assert (Hstart' : a_pre r = [] -> starts_with [c_lt] (a_re r) = false).
  { intros E. rewrite E in Hstart. simpl in Hstart. eapply re_start_not_lt. exact Hstart. }
  (* the pieces of the line *)
  destruct (print_prefix_shape names (rl_pads rl) (a_pre r) Hv Hin Hpads) as [HPnl HPend].
  destruct (print_target_shape names (a_target r) Hv Htok) as [HTsp HTnl].
  destruct (print_name_shape rl (a_name r) Hnok) as [[q [x [HNMe HNMx]]] [HNMsp [HNMnl HNMlt]]].
  set (P := print_prefix (rl_pads rl) (a_pre r)) in *.
  set (T := print_target (a_target r)) in *.
  set (NM := print_name rl (a_name r)) in *.
  set (A := P ++ a_re r ++ rl_blanks rl).
  set (body := A ++ rl_sp rl :: T ++ NM).
  assert (Hline : print_rline rl r = body ++ rl_trail rl).
  { unfold print_rline, rline_head, rline_re_field, body, A. fold P T NM.
    rewrite <- !app_assoc. cbn [app]. rewrite <- !app_assoc. reflexivity. }
  assert (Hlinenl : no_nl (print_rline rl r) = true).
  { rewrite Hline. unfold body, A. repeat apply no_nl_app; try assumption.
    - apply all_iws_no_nl. revert Hblanks. apply forallb_imp. exact space_sep_iws.
    - change (rl_sp rl :: T ++ NM) with ([rl_sp rl] ++ T ++ NM). repeat apply no_nl_app; try assumption.
      unfold no_nl. cbn [forallb]. rewrite (space_sep_not_nl _ Hsp). reflexivity.
    - apply all_iws_no_nl. exact Htrail. }
  assert (Hbody : trim_end is_ws (body ++ rl_trail rl) = body).
  { unfold body. rewrite HNMe.
    replace (A ++ rl_sp rl :: T ++ q ++ [x]) with ((A ++ rl_sp rl :: T ++ q) ++ [x])
      by (rewrite <- !app_assoc; cbn [app]; rewrite <- !app_assoc; reflexivity).
    apply trim_end_snoc; [exact HNMx|apply all_iws_ws; exact Htrail]. }
  subst src. set (i := byte_len pre).
  unfold parse_rule.
  rewrite line_len_at_line by assumption. cbn [lift lbind].
  fold i. rewrite slice_at. cbn [lift lbind].
  rewrite Hline, Hbody.
  assert (Hrf : rfind is_space_sep body = Some (byte_len A)).
  { unfold body. apply rfind_last; [exact Hsp|]. rewrite forallb_app, HTsp, HNMsp. reflexivity. }
  rewrite Hrf.
  pose proof (parse_target_printed i st names A (rl_sp rl) (a_target r) NM Hsp Hv Hst Htok HNMlt) as Hpt.
  fold T in Hpt. fold body in Hpt. rewrite Hpt. clear Hpt. cbn [lbind].
  (* the regex field *)
  assert (Hre0 : slice_to body (byte_len A) = Done A).
  { unfold body. apply slice_to_app. }
  assert (Hre1 : trim_end_unescaped_gen (trim_pred (fix_trim_blank repaired)) A = Done (P ++ a_re r)).
  { unfold A. apply trim_end_unescaped_printed; [exact HPend|exact Htrim|exact Hblanks]. }
  assert (Hps : parse_start_states pe iw repaired st i (P ++ a_re r) =
                ROk (map (fun n => index_of n names) (a_pre r), map_escapes iw pe (a_re r))).
  { unfold P. apply parse_start_states_printed; assumption. }
  assert (Hlen : i + byte_len (body ++ rl_trail rl) = byte_len (pre ++ body ++ rl_trail rl)).
  { unfold i. rewrite (byte_len_app pre). reflexivity. }
  pose proof (len_space_sep _ Hsp) as Hlsp.
  destruct (a_name r) as [m|] eqn:En.
  - (* a named rule *)
    assert (Hm : m <> []).
    { simpl in Hnok. unfold rule_name_ok in Hnok. apply andb_prop in Hnok. destruct Hnok as [Hm _].
      destruct m; [discriminate|discriminate]. }
    unfold NM at 1 2. cbn [print_name]. rewrite quoted_not_skip by exact Hm.
    rewrite parse_name_quoted by exact Hm. cbn [rbind lbind fst snd].
    rewrite (Hdup m eq_refl).
    rewrite Hre0. cbn [lift lbind]. rewrite Hre1. cbn [lift lbind]. rewrite Hps. cbn [lbind existsb fst snd].
    rewrite Hlen. f_equal. f_equal. f_equal. unfold rule_of. rewrite En. f_equal.
    unfold rline_head, rline_re_field. fold P T. unfold A, i. f_equal; blen; lia.
  - (* a skip rule *)
    unfold NM at 1. rewrite skip_name_is_skip. cbn [lbind].
    rewrite Hre0. cbn [lift lbind]. rewrite Hre1. cbn [lift lbind]. rewrite Hps. cbn [lbind existsb fst snd].
    rewrite Hlen. f_equal. f_equal. f_equal. unfold rule_of. rewrite En. f_equal.
    unfold rline_re_field. fold P. unfold A, i. f_equal; blen; lia.
Qed.

(* the span of a named rule selects the name in the text *)
Lemma rule_line_span : rule_line_span_stmt.
Proof.
  intros pe iw names pre rest rl r n En. unfold selects, rule_of. cbn [r_name_span]. rewrite En. cbn [fst snd].
  unfold print_rline. rewrite En. cbn [print_name].
  replace (pre ++ (rline_head rl r ++ ([qchar (rl_quote rl)] ++ n ++ [qchar (rl_quote rl)]) ++ rl_trail rl) ++ rest)
    with ((pre ++ rline_head rl r ++ [qchar (rl_quote rl)]) ++ n ++ (qchar (rl_quote rl) :: rl_trail rl ++ rest))
    by (repeat first [rewrite <- app_assoc | progress cbn [app]]; reflexivity).
  destruct (qchar_facts (rl_quote rl)) as [_ [_ [_ [_ Hl]]]].
  apply slice_app; blen; lia.
Qed.
