(* C11 round trip — under construction *)
From Coq Require Import List Arith NArith Bool Lia.
From GV Require Import Common.Outcome C11.Model C11.Spec C11.Slices C11.Print C11.RoundSpec C11.RoundBase.
Import ListNotations.
