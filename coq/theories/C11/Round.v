(* C11 round trip — the loop over the rules section (line separators and
   comment lines cost nothing / one round; a rule line one round by
   [rule_line_roundtrip]; the end of the text), the whole theorem
   [lex_roundtrip] on top of [declarations_roundtrip] (RoundDecl.v), what
   [spec_of] is ([spec_of_faithful]) and the example that shows the hypotheses
   satisfiable. *)
From Coq Require Import List Arith NArith Bool Lia.
From GV Require Import Common.Outcome C11.Model C11.Spec C11.Slices C11.EscProofs C11.Print C11.RoundSpec C11.RoundBase C11.RoundRule C11.RoundDecl.
Import ListNotations.

(* ---- the loop of parse_rules ------------------------------------------------------------ *)
Lemma take_while_prefix : forall f w r, forallb f w = true -> take_while f (w ++ r) = w ++ take_while f r.
Proof.
  intros f w r Hw. induction w as [|c w IH]; simpl; [reflexivity|].
  simpl in Hw. apply andb_prop in Hw. destruct Hw as [Hc Hw]. rewrite Hc, IH by exact Hw. reflexivity.
Qed.

Section Loop.
  Variable src : text.
  Variables awc pe iw : bool.

  Notation loop := (parse_rules src awc pe iw [] repaired).

  (* line separators before the position cost nothing *)
  Lemma rules_skip_nl : forall pre w r fuel st errs,
    src = pre ++ w ++ r -> forallb is_line_sep w = true ->
    loop fuel (byte_len pre) st errs = loop fuel (byte_len (pre ++ w)) st errs.
  Proof.
    intros pre w r fuel st errs Hsrc Hw. destruct fuel as [|fuel]; [reflexivity|].
    cbn [parse_rules].
    assert (E : parse_nl src (byte_len pre) = parse_nl src (byte_len (pre ++ w))).
    { unfold parse_nl. rewrite Hsrc. rewrite slice_from_at.
      replace (pre ++ w ++ r) with ((pre ++ w) ++ r) by (rewrite <- app_assoc; reflexivity).
      rewrite slice_from_at. cbn [obind]. rewrite take_while_prefix by exact Hw.
      rewrite !byte_len_app. f_equal. lia. }
    rewrite E. reflexivity.
  Qed.

  Lemma slash_not_nl : is_line_sep c_slash = false. Proof. reflexivity. Qed.
  Lemma slash_not_ws : is_ws c_slash = false. Proof. reflexivity. Qed.

  (* a comment line costs one round *)
  Lemma rules_comment : forall pre body rest fuel st errs,
    awc = true -> src = pre ++ ([c_slash; c_slash] ++ body) ++ rest -> no_nl body = true -> line_end rest ->
    loop (S fuel) (byte_len pre) st errs = loop fuel (byte_len (pre ++ [c_slash; c_slash] ++ body)) st errs.
  Proof.
    intros pre body rest fuel st errs Hawc Hsrc Hb Hr. cbn [parse_rules]. rewrite Hsrc.
    rewrite parse_nl_stay by (cbn [app hd_not]; reflexivity). cbn [lift lbind].
    rewrite line_len_at_line; [|cbn [app]; exact Hb|exact Hr]. cbn [lift lbind].
    rewrite Hawc. rewrite lookahead_at. cbn [app starts_with]. rewrite !N.eqb_refl. cbn [andb lift lbind].
    rewrite (byte_len_app pre). reflexivity.
  Qed.

  Fixpoint rcomments (its : list ritem) : nat :=
    match its with [] => 0 | RNl _ :: its' => rcomments its' | RComment _ _ :: its' => S (rcomments its') end.

  Lemma rules_items : forall its pre rest fuel st errs,
    src = pre ++ print_ritems its ++ rest -> forallb (wf_ritem awc) its = true ->
    loop (rcomments its + fuel) (byte_len pre) st errs = loop fuel (byte_len (pre ++ print_ritems its)) st errs.
  Proof.
    induction its as [|it its IH]; intros pre rest fuel st errs Hsrc Hwf.
    - cbn [print_ritems flat_map rcomments]. rewrite app_nil_r. reflexivity.
    - cbn [forallb] in Hwf. apply andb_prop in Hwf. destruct Hwf as [Hit Hwf].
      change (print_ritems (it :: its)) with (print_ritem it ++ print_ritems its) in *.
      destruct it as [c|body nl]; cbn [print_ritem rcomments wf_ritem] in *.
      + rewrite (rules_skip_nl pre [c] (print_ritems its ++ rest)).
        * rewrite (IH (pre ++ [c]) rest fuel st errs); [rewrite <- app_assoc; reflexivity| |exact Hwf].
          rewrite Hsrc. rewrite <- !app_assoc. reflexivity.
        * rewrite Hsrc. rewrite <- !app_assoc. reflexivity.
        * cbn [forallb]. rewrite Hit. reflexivity.
      + unfold wf_comment in Hit. apply andb_prop in Hit. destruct Hit as [Hit Hnl].
        apply andb_prop in Hit. destruct Hit as [Hawc Hb].
        cbn [plus]. rewrite (rules_comment pre body (nl :: print_ritems its ++ rest)); [|exact Hawc| |exact Hb|exact Hnl].
        2:{ rewrite Hsrc. repeat first [rewrite <- app_assoc | progress cbn [app]]. reflexivity. }
        rewrite (rules_skip_nl (pre ++ [c_slash; c_slash] ++ body) [nl] (print_ritems its ++ rest)).
        * rewrite (IH ((pre ++ [c_slash; c_slash] ++ body) ++ [nl]) rest fuel st errs); [| |exact Hwf].
          -- f_equal. f_equal. repeat first [rewrite <- app_assoc | progress cbn [app]]. reflexivity.
          -- rewrite Hsrc. repeat first [rewrite <- app_assoc | progress cbn [app]]. reflexivity.
        * rewrite Hsrc. repeat first [rewrite <- app_assoc | progress cbn [app]]. reflexivity.
        * cbn [forallb]. rewrite Hnl. reflexivity.
  Qed.

  Lemma rcomments_le : forall its, rcomments its <= byte_len (print_ritems its).
  Proof.
    induction its as [|[c|b nl] its IH]; [simpl; lia| |];
      change (print_ritems (?x :: its)) with (print_ritem x ++ print_ritems its);
      rewrite byte_len_app; cbn [rcomments print_ritem].
    - lia.
    - rewrite !byte_len_app. cbn [byte_len]. change (len_utf8 c_slash) with 1. lia.
  Qed.

  (* ---- how a rule line begins ---- *)
  Lemma starts_with2_app : forall x y re more, re <> [] -> starts_with [x; y] re = false ->
    hd_not (N.eqb y) more -> starts_with [x; y] (re ++ more) = false.
  Proof.
    intros x y re more Hre H Hm. destruct re as [|c [|d re]]; [contradiction| |exact H].
    cbn [app starts_with]. destruct more as [|m more]; [apply andb_false_r|].
    cbn [hd_not] in Hm. rewrite Hm. cbn [andb]. apply andb_false_r.
  Qed.

  Lemma ws_head : forall k w rest, w <> [] -> forallb is_ws w = true -> is_ws k = false ->
    hd_not (N.eqb k) (w ++ rest).
  Proof.
    intros k [|c w] rest Hw Hall Hk; [contradiction|]. cbn [app hd_not].
    cbn [forallb] in Hall. apply andb_prop in Hall. destruct Hall as [Hc _].
    rewrite N.eqb_sym. apply ws_neq; assumption.
  Qed.

  Lemma rline_start : forall names last rl r rest,
    wf_arule awc names r = true -> wf_rline awc last rl = true ->
    (exists c tl, print_rline rl r = c :: tl /\ is_ws c = false) /\
    starts_with [c_percent; c_percent] (print_rline rl r ++ rest) = false /\
    (awc = true -> starts_with [c_slash; c_slash] (print_rline rl r ++ rest) = false).
  Proof.
    intros names last rl r rest Hr Hrl.
    unfold wf_arule in Hr. apply andb_prop in Hr. destruct Hr as [_ Hre].
    unfold wf_rline in Hrl.
    apply andb_prop in Hrl. destruct Hrl as [Hrl _]. apply andb_prop in Hrl. destruct Hrl as [Hrl _].
    apply andb_prop in Hrl. destruct Hrl as [Hrl _]. apply andb_prop in Hrl. destruct Hrl as [Hrl Hsp].
    apply andb_prop in Hrl. destruct Hrl as [_ Hblanks].
    unfold print_rline, rline_head, rline_re_field.
    destruct (a_pre r) as [|n ns].
    - unfold re_printable in Hre. apply andb_prop in Hre. destruct Hre as [_ Hst]. cbn [is_nil negb orb] in Hst.
      unfold re_start_ok in Hst. apply andb_prop in Hst. destruct Hst as [Hst Hcm]. apply andb_prop in Hst. destruct Hst as [Hc Hpc].
      assert (Hre' : a_re r <> []) by (destruct (a_re r); [discriminate|discriminate]).
      assert (Hhd : exists c re, a_re r = c :: re /\ is_ws c = false).
      { destruct (a_re r) as [|c re]; [discriminate|]. apply andb_prop in Hc. destruct Hc as [Hc _]. apply negb_true in Hc. eauto. }
      apply negb_true in Hpc.
      cbn [print_prefix app].
      set (more := print_target (a_target r) ++ print_name rl (a_name r) ++ rl_trail rl ++ rest).
      assert (E : (((a_re r ++ rl_blanks rl ++ [rl_sp rl]) ++ print_target (a_target r)) ++ print_name rl (a_name r) ++ rl_trail rl) ++ rest
                  = a_re r ++ (rl_blanks rl ++ [rl_sp rl]) ++ more).
      { unfold more. repeat first [rewrite <- app_assoc | progress cbn [app]]. reflexivity. }
      assert (Hw : forallb is_ws (rl_blanks rl ++ [rl_sp rl]) = true).
      { rewrite forallb_app. rewrite (all_space_ws _ Hblanks). cbn [forallb]. rewrite (space_sep_ws _ Hsp). reflexivity. }
      assert (Hne : rl_blanks rl ++ [rl_sp rl] <> []) by (destruct (rl_blanks rl); discriminate).
      split; [|split].
      + destruct Hhd as [c [re [Ere Hcw]]]. rewrite Ere. cbn [app]. eauto.
      + rewrite E. apply starts_with2_app; [exact Hre'|exact Hpc|]. apply ws_head; [exact Hne|exact Hw|reflexivity].
      + intros Hawc. rewrite Hawc in Hcm. cbn [andb] in Hcm. apply negb_true in Hcm.
        rewrite E. apply starts_with2_app; [exact Hre'|exact Hcm|]. apply ws_head; [exact Hne|exact Hw|reflexivity].
    - unfold print_prefix. cbn [app]. split; [|split; [reflexivity|intros _; reflexivity]].
      eexists _, _. split; reflexivity.
  Qed.

  (* a rule line costs one round *)
  Lemma rules_rule_line : forall last pre rest fuel st errs names rl r,
    src = pre ++ print_rline rl r ++ rest -> line_end rest ->
    wf_arule awc names r = true -> wf_rline awc last rl = true ->
    forallb is_start_state_name names = true -> states_numbered names (start_states st) ->
    (forall n, a_name r = Some n -> find_dupe (rules st) n = None) ->
    loop (S fuel) (byte_len pre) st errs =
    loop fuel (byte_len (pre ++ print_rline rl r)) (push_rule st (rule_of pe iw names (byte_len pre) rl r)) errs.
  Proof.
    intros last pre rest fuel st errs names rl r Hsrc Hend Hr Hrl Hv Hst Hdup.
    destruct (rline_start names last rl r rest Hr Hrl) as [[c [tl [Hl Hc]]] [Hpc Hcm]].
    pose proof (rule_line_roundtrip awc pe iw last src pre rest st errs names rl r Hsrc Hend Hr Hrl Hv Hst Hdup) as Hrule.
    cbn [parse_rules]. rewrite Hsrc in *.
    assert (Hws : hd_not is_ws (print_rline rl r ++ rest)) by (rewrite Hl; exact Hc).
    assert (Hnl : hd_not is_line_sep (print_rline rl r ++ rest)) by (rewrite Hl; apply not_ws_not_nl; exact Hc).
    rewrite parse_nl_stay by exact Hnl. cbn [lift lbind].
    unfold line_len_at. rewrite slice_from_at. cbn [obind lift lbind].
    assert (Hcmt : (if awc then lookahead_is (pre ++ print_rline rl r ++ rest) [c_slash; c_slash] (byte_len pre) else Done None) = Done None).
    { destruct awc; [|reflexivity]. rewrite lookahead_at. rewrite (Hcm eq_refl). reflexivity. }
    rewrite Hcmt. cbn [lift lbind].
    rewrite parse_ws_stay by exact Hws. cbn [lift lbind]. rewrite Nat.eqb_refl. cbn [negb].
    assert (Hlen : byte_len pre =? src_len (pre ++ print_rline rl r ++ rest) = false).
    { apply Nat.eqb_neq. unfold src_len. rewrite !byte_len_app. rewrite Hl. cbn [byte_len]. pose proof (len_utf8_pos c). lia. }
    rewrite Hlen. rewrite lookahead_at, Hpc. cbn [lift lbind].
    rewrite Hrule. reflexivity.
  Qed.

  (* ---- the end of the text ---- *)
  Definition parse_tail (i : nat) (st : pstate) (errs : list err) : outcome parsed :=
    do la <- lookahead_is src [c_percent; c_percent] i;
    match la with
    | Some j =>
        do k <- parse_ws src j;
        if k =? src_len src then Done (finish st errs)
        else Done (PErrs (errs ++ [mk_error RoutinesNotSupported i]))
    | None => if i =? src_len src then Done (finish st errs) else Panic
    end.

  Lemma rules_at_end : forall fuel st errs,
    loop (S fuel) (byte_len src) st errs = TOk (byte_len src, st) errs.
  Proof.
    intros fuel st errs. cbn [parse_rules].
    assert (E : src = src ++ []) by (rewrite app_nil_r; reflexivity).
    rewrite E at 1. rewrite parse_nl_stay by exact I. cbn [lift lbind].
    unfold line_len_at. rewrite E at 1. rewrite slice_from_at. cbn [obind lift lbind].
    assert (Hcmt : (if awc then lookahead_is src [c_slash; c_slash] (byte_len src) else Done None) = Done None).
    { destruct awc; [|reflexivity]. rewrite E at 1. rewrite lookahead_at. reflexivity. }
    rewrite Hcmt. cbn [lift lbind].
    rewrite E at 1. rewrite parse_ws_stay by exact I. cbn [lift lbind]. rewrite Nat.eqb_refl. cbn [negb].
    unfold src_len. rewrite Nat.eqb_refl. reflexivity.
  Qed.

  Lemma tail_at_end : forall st, parse_tail (byte_len src) st [] = Done (POk st).
  Proof.
    intros st. unfold parse_tail.
    assert (E : src = src ++ []) by (rewrite app_nil_r; reflexivity).
    rewrite E at 1. rewrite lookahead_at. cbn [starts_with obind]. unfold src_len. rewrite Nat.eqb_refl. reflexivity.
  Qed.

  Lemma rules_final : forall f pre fuel st,
    src = pre ++ print_final f -> wf_final awc f = true ->
    exists i, loop (2 + fuel) (byte_len pre) st [] = TOk (i, st) [] /\ parse_tail i st [] = Done (POk st).
  Proof.
    intros f pre fuel st Hsrc Hf. destruct f as [[b|]|ws]; cbn [print_final wf_final] in *.
    - apply andb_prop in Hf. destruct Hf as [Hawc Hb].
      exists (byte_len src). split; [|apply tail_at_end].
      cbn [plus]. rewrite (rules_comment pre b [] (S fuel) st [] Hawc); [| |exact Hb|exact I].
      + replace (pre ++ [c_slash; c_slash] ++ b) with src by (rewrite Hsrc; reflexivity). apply rules_at_end.
      + rewrite Hsrc, app_nil_r. reflexivity.
    - exists (byte_len src). split; [|apply tail_at_end].
      rewrite app_nil_r in Hsrc. rewrite <- Hsrc. apply rules_at_end.
    - exists (byte_len pre). split.
      + cbn [plus parse_rules]. rewrite Hsrc.
        rewrite parse_nl_stay by (cbn [app hd_not]; reflexivity). cbn [lift lbind].
        unfold line_len_at. rewrite slice_from_at. cbn [obind lift lbind].
        assert (Hcmt : (if awc then lookahead_is (pre ++ [c_percent; c_percent] ++ ws) [c_slash; c_slash] (byte_len pre) else Done None) = Done None).
        { destruct awc; [|reflexivity]. rewrite lookahead_at. reflexivity. }
        rewrite Hcmt. cbn [lift lbind].
        rewrite parse_ws_stay by (cbn [app hd_not]; reflexivity). cbn [lift lbind]. rewrite Nat.eqb_refl. cbn [negb].
        assert (Hlen : byte_len pre =? src_len (pre ++ [c_percent; c_percent] ++ ws) = false).
        { apply Nat.eqb_neq. unfold src_len. rewrite !byte_len_app. cbn [byte_len]. change (len_utf8 c_percent) with 1. lia. }
        rewrite Hlen. rewrite lookahead_at. cbn [app starts_with]. rewrite !N.eqb_refl. cbn [andb lift lbind]. reflexivity.
      + unfold parse_tail. rewrite Hsrc. rewrite lookahead_at. cbn [app starts_with]. rewrite !N.eqb_refl. cbn [andb obind].
        replace (pre ++ c_percent :: c_percent :: ws) with ((pre ++ [c_percent; c_percent]) ++ ws ++ [])
          by (rewrite app_nil_r, <- app_assoc; reflexivity).
        replace (byte_len pre + byte_len [c_percent; c_percent]) with (byte_len (pre ++ [c_percent; c_percent]))
          by (rewrite byte_len_app; reflexivity).
        rewrite parse_ws_at; [|exact Hf|exact I]. cbn [obind].
        unfold src_len. rewrite app_nil_r. rewrite (byte_len_app (pre ++ [c_percent; c_percent]) ws).
        rewrite Nat.eqb_refl. reflexivity.
  Qed.

  (* ---- all rule lines ---- *)
  Fixpoint rfuel (rs : list (arule * rline_lay)) : nat :=
    match rs with [] => 0 | (_, rl) :: rs' => S (rcomments (rl_after rl) + rfuel rs') end.

  Lemma find_dupe_snoc : forall rs r m, find_dupe rs m = None ->
    find_dupe (rs ++ [r]) m =
    match r_name r with Some n => if text_eqb n m then Some r else None | None => None end.
  Proof.
    induction rs as [|x rs IH]; intros r m H; cbn [app find_dupe] in *; [reflexivity|].
    destruct (r_name x) as [n|]; [destruct (text_eqb n m); [discriminate|]|]; apply IH; exact H.
  Qed.

  Lemma rules_lines : forall names eof fin rs pre fuel st,
    src = pre ++ print_rlines rs ++ fin -> (eof = true -> fin = []) ->
    forallb (fun p => wf_arule awc names (fst p)) rs = true -> wf_rlines awc eof rs = true ->
    forallb is_start_state_name names = true -> states_numbered names (start_states st) ->
    nodup_b (rule_names (map fst rs)) = true ->
    (forall n, In n (rule_names (map fst rs)) -> find_dupe (rules st) n = None) ->
    loop (rfuel rs + fuel) (byte_len pre) st [] =
    loop fuel (byte_len (pre ++ print_rlines rs))
      {| rules := rules st ++ rules_of pe iw names (byte_len pre) rs; start_states := start_states st |} [].
  Proof.
    intros names eof fin rs. induction rs as [|[r rl] rs IH]; intros pre fuel st Hsrc Hfin Hwr Hwl Hv Hst Hnd Hdup.
    - cbn [rfuel print_rlines rules_of plus]. rewrite !app_nil_r. destruct st; reflexivity.
    - cbn [forallb fst] in Hwr. apply andb_prop in Hwr. destruct Hwr as [Hr Hwr].
      cbn [wf_rlines] in Hwl. apply andb_prop in Hwl. destruct Hwl as [Hrl Hwl].
      cbn [print_rlines] in *.
      set (line := print_rline rl r) in *. set (after := print_ritems (rl_after rl)) in *.
      (* what follows the line *)
      assert (Hend : line_end (after ++ print_rlines rs ++ fin)).
      { pose proof Hrl as Hrl'. unfold wf_rline in Hrl'. apply andb_prop in Hrl'. destruct Hrl' as [Hrl' Hao].
        apply andb_prop in Hrl'. destruct Hrl' as [_ Hitems].
        unfold after. destruct (rl_after rl) as [|[c|b nl] its]; cbn [after_ok] in Hao; [| |discriminate].
        - apply andb_prop in Hao. destruct Hao as [He Hn]. destruct rs; [|discriminate].
          rewrite (Hfin He). exact I.
        - cbn [forallb wf_ritem] in Hitems. apply andb_prop in Hitems. destruct Hitems as [Hc _].
          cbn [print_ritems flat_map print_ritem app line_end]. exact Hc. }
      assert (Hitems : forallb (wf_ritem awc) (rl_after rl) = true).
      { unfold wf_rline in Hrl. apply andb_prop in Hrl. destruct Hrl as [Hrl _]. apply andb_prop in Hrl. tauto. }
      assert (Hdup1 : forall n, a_name r = Some n -> find_dupe (rules st) n = None).
      { intros n En. apply Hdup. cbn [map fst rule_names]. rewrite En. left. reflexivity. }
      cbn [rfuel]. replace (S (rcomments (rl_after rl) + rfuel rs) + fuel) with (S (rcomments (rl_after rl) + (rfuel rs + fuel))) by lia.
      rewrite (rules_rule_line (eof && is_nil rs) pre (after ++ print_rlines rs ++ fin) _ st [] names rl r); try assumption.
      2:{ rewrite Hsrc. repeat rewrite <- app_assoc. reflexivity. }
      fold line.
      set (st1 := push_rule st (rule_of pe iw names (byte_len pre) rl r)).
      rewrite (rules_items (rl_after rl) (pre ++ line) (print_rlines rs ++ fin) _ st1 []); [| |exact Hitems].
      2:{ rewrite Hsrc. repeat rewrite <- app_assoc. reflexivity. }
      fold after.
      rewrite (IH ((pre ++ line) ++ after) fuel st1); try assumption.
      + f_equal.
        * repeat rewrite <- app_assoc. reflexivity.
        * unfold st1. cbn [push_rule rules start_states rules_of]. f_equal. rewrite <- app_assoc. cbn [app]. f_equal. f_equal.
          f_equal. fold line after. repeat rewrite byte_len_app. lia.
      + rewrite Hsrc. repeat rewrite <- app_assoc. reflexivity.
      + cbn [map fst rule_names] in Hnd. destruct (a_name r); [|exact Hnd]. cbn [nodup_b] in Hnd. apply andb_prop in Hnd. tauto.
      + intros n Hn. unfold st1. cbn [push_rule rules].
        rewrite find_dupe_snoc.
        * cbn [rule_of r_name]. destruct (a_name r) as [m|] eqn:Em; [|reflexivity].
          cbn [map fst rule_names] in Hnd. rewrite Em in Hnd. cbn [nodup_b] in Hnd. apply andb_prop in Hnd. destruct Hnd as [Hm _].
          apply negb_true in Hm. rewrite text_eqb_neq; [reflexivity|]. intros ->. apply (mem_text_false _ _ Hm). exact Hn.
        * apply Hdup. cbn [map fst rule_names]. destruct (a_name r); [right; exact Hn|exact Hn].
  Qed.

  Lemma rline_nonempty : forall rl r, 1 <= byte_len (print_rline rl r).
  Proof.
    intros rl r. unfold print_rline, rline_head, rline_re_field. rewrite !byte_len_app. cbn [byte_len].
    pose proof (len_utf8_pos (rl_sp rl)). lia.
  Qed.

  Lemma rfuel_le : forall rs, rfuel rs <= byte_len (print_rlines rs).
  Proof.
    induction rs as [|[r rl] rs IH]; [simpl; lia|]. cbn [rfuel print_rlines]. rewrite !byte_len_app.
    pose proof (rcomments_le (rl_after rl)). pose proof (rline_nonempty rl r). lia.
  Qed.
End Loop.

(* ---- the whole text ------------------------------------------------------------------------------ *)
Lemma map_fst_combine : forall (A B : Type) (a : list A) (b : list B),
  length a = length b -> map fst (combine a b) = a.
Proof.
  intros A B a. induction a as [|x a IH]; intros [|y b] H; simpl in *; try reflexivity; try discriminate.
  f_equal. apply IH. lia.
Qed.

Lemma forallb_combine_fst : forall (A B : Type) (f : A -> bool) (a : list A) (b : list B),
  forallb f a = true -> forallb (fun p => f (fst p)) (combine a b) = true.
Proof.
  intros A B f a. induction a as [|x a IH]; intros [|y b] H; simpl in *; try reflexivity.
  apply andb_prop in H. destruct H as [Hx H]. rewrite Hx, (IH b H). reflexivity.
Qed.

Lemma line_sep_not_space : forall c, is_line_sep c = true -> is_space_sep c = false.
Proof. intros c H. unfold is_line_sep in H. by_members H. Qed.

Lemma rules_section_start : forall awc lay sp,
  wf_aspec awc sp = true -> wf_layout awc lay sp = true ->
  hd_not is_space_sep (print_rules_section lay sp).
Proof.
  intros awc lay sp Hsp Hlay. unfold print_rules_section.
  unfold wf_layout in Hlay.
  apply andb_prop in Hlay. destruct Hlay as [Hlay _]. apply andb_prop in Hlay. destruct Hlay as [Hlay Hrl].
  apply andb_prop in Hlay. destruct Hlay as [Hlay _]. apply andb_prop in Hlay. destruct Hlay as [_ Hg0].
  destruct (l_gap0 lay) as [|[c|b nl] its].
  - cbn [print_ritems flat_map app].
    destruct (combine (a_rules sp) (l_rlines lay)) as [|[r rl] rs] eqn:Ec.
    + cbn [print_rlines app]. destruct (l_final lay) as [[b|]|ws]; cbn [print_final app hd_not]; reflexivity || exact I.
    + cbn [print_rlines wf_rlines] in *. apply andb_prop in Hrl. destruct Hrl as [Hrl _].
      assert (Hr : wf_arule awc (state_names sp) r = true).
      { unfold wf_aspec in Hsp. apply andb_prop in Hsp. destruct Hsp as [Hsp _]. apply andb_prop in Hsp. destruct Hsp as [_ Hrs].
        rewrite forallb_forall in Hrs. apply Hrs.
        apply (in_combine_l (a_rules sp) (l_rlines lay) r rl). rewrite Ec. left. reflexivity. }
      destruct (rline_start awc (state_names sp) _ rl r [] Hr Hrl) as [[c [tl [Hl Hc]]] _].
      rewrite Hl. cbn [app hd_not]. apply not_ws_not_space. exact Hc.
  - cbn [forallb wf_ritem] in Hg0. apply andb_prop in Hg0. destruct Hg0 as [Hc _].
    cbn [print_ritems flat_map print_ritem app hd_not]. apply line_sep_not_space. exact Hc.
  - cbn [print_ritems flat_map print_ritem app hd_not]. reflexivity.
Qed.

Lemma state_names_valid : forall awc sp, wf_aspec awc sp = true -> forallb is_start_state_name (state_names sp) = true.
Proof.
  intros awc sp H. unfold wf_aspec in H. apply andb_prop in H. destruct H as [H _]. apply andb_prop in H. destruct H as [H _].
  apply andb_prop in H. destruct H as [H _]. unfold state_names. cbn [forallb].
  change (is_start_state_name initial_name) with true. cbn [andb].
  induction (a_states sp) as [|s l IH]; [reflexivity|]. cbn [map forallb] in *. apply andb_prop in H. destruct H as [Hs H].
  rewrite Hs, (IH H). reflexivity.
Qed.

Lemma lex_roundtrip : lex_roundtrip_stmt.
Proof.
  intros awc pe iw lay sp Hsp Hlay.
  unfold lex_from_str. rewrite slice_from_0. cbn [obind fix_header repaired].
  set (src := print_spec lay sp).
  set (D := print_decl_section lay sp).
  set (rs := combine (a_rules sp) (l_rlines lay)).
  set (G := print_ritems (l_gap0 lay)).
  set (names := state_names sp).
  assert (Hsrc : src = D ++ G ++ print_rlines rs ++ print_final (l_final lay)) by reflexivity.
  (* the layout, unpacked *)
  pose proof Hlay as Hlay'. unfold wf_layout in Hlay'.
  apply andb_prop in Hlay'. destruct Hlay' as [Hlay' Hfinal]. apply andb_prop in Hlay'. destruct Hlay' as [Hlay' Hrl].
  apply andb_prop in Hlay'. destruct Hlay' as [Hlay' Hlen]. apply andb_prop in Hlay'. destruct Hlay' as [_ Hg0].
  apply Nat.eqb_eq in Hlen.
  pose proof Hsp as Hsp'. unfold wf_aspec in Hsp'.
  apply andb_prop in Hsp'. destruct Hsp' as [Hsp' Hnd]. apply andb_prop in Hsp'. destruct Hsp' as [_ Hrules].
  (* declarations *)
  unfold parse.
  assert (Hdecl : parse_declarations src awc repaired (fuel_for src) 0 initial_state [] =
                  TOk (byte_len D, {| rules := []; start_states := states_of_spec lay sp |}) []).
  { apply (declarations_roundtrip awc lay sp (print_rules_section lay sp) (fuel_for src) Hsp Hlay).
    - pose proof (rules_section_start awc lay sp Hsp Hlay) as H. destruct (print_rules_section lay sp); exact H.
    - unfold fuel_for, src, print_spec. rewrite byte_len_app. lia. }
  rewrite Hdecl.
  set (st0 := {| rules := []; start_states := states_of_spec lay sp |}).
  (* fuel *)
  assert (Hfuel : exists extra, fuel_for src = rcomments (l_gap0 lay) + (rfuel rs + (2 + extra))).
  { exists (fuel_for src - (rcomments (l_gap0 lay) + (rfuel rs + 2))).
    pose proof (rcomments_le (l_gap0 lay)). pose proof (rfuel_le rs).
    unfold fuel_for. rewrite Hsrc. rewrite !byte_len_app. unfold G. lia. }
  destruct Hfuel as [extra Hfuel]. rewrite Hfuel.
  rewrite (rules_items src awc pe iw (l_gap0 lay) D (print_rlines rs ++ print_final (l_final lay)) _ st0 [] Hsrc Hg0).
  fold G.
  rewrite (rules_lines src awc pe iw names (final_is_eof (l_final lay)) (print_final (l_final lay)) rs (D ++ G) (2 + extra) st0).
  - destruct (rules_final src awc pe iw (l_final lay) ((D ++ G) ++ print_rlines rs) extra
               {| rules := rules st0 ++ rules_of pe iw names (byte_len (D ++ G)) rs; start_states := start_states st0 |})
      as [i [Hloop Htail]]; [rewrite Hsrc; repeat rewrite <- app_assoc; reflexivity|exact Hfinal|].
    rewrite Hloop. exact Htail.
  - rewrite Hsrc. repeat rewrite <- app_assoc. reflexivity.
  - intros He. destruct (l_final lay) as [[b|]|ws]; try discriminate. reflexivity.
  - apply forallb_combine_fst. exact Hrules.
  - exact Hrl.
  - apply (state_names_valid awc). exact Hsp.
  - apply (states_of_spec_numbered awc). exact Hsp. exact Hlay.
  - unfold rs. rewrite map_fst_combine by (symmetry; exact Hlen). exact Hnd.
  - intros n _. reflexivity.
Qed.

Lemma lex_roundtrip_default : lex_roundtrip_default_stmt.
Proof. intros lay sp H1 H2. apply lex_roundtrip; assumption. Qed.

(* ---- what spec_of is ---------------------------------------------------------------------------------- *)
Lemma rules_of_maps : forall pe iw names rs off,
  map r_name (rules_of pe iw names off rs) = map (fun p => a_name (fst p)) rs /\
  map r_re_str (rules_of pe iw names off rs) = map (fun p => map_escapes iw pe (a_re (fst p))) rs /\
  map r_start_states (rules_of pe iw names off rs) =
    map (fun p => map (fun n => index_of n names) (a_pre (fst p))) rs /\
  map r_target (rules_of pe iw names off rs) = map (fun p => target_of names (a_target (fst p))) rs.
Proof.
  intros pe iw names rs. induction rs as [|[r rl] rs IH]; intros off; [repeat split; reflexivity|].
  cbn [rules_of map fst]. destruct (IH (off + byte_len (print_rline rl r ++ print_ritems (rl_after rl)))) as [H1 [H2 [H3 H4]]].
  rewrite H1, H2, H3, H4. repeat split; reflexivity.
Qed.

Lemma map_combine_fst : forall (A B C : Type) (F : A -> C) (a : list A) (b : list B),
  length a = length b -> map (fun p => F (fst p)) (combine a b) = map F a.
Proof. intros A B C F a b H. rewrite <- (map_map fst F). rewrite map_fst_combine by exact H. reflexivity. Qed.

Lemma spec_of_faithful : spec_of_faithful_stmt.
Proof.
  intros awc pe iw lay sp Hlen Hd st. unfold st, spec_of. cbn [rules start_states].
  destruct (rules_of_maps pe iw (state_names sp)
              (combine (a_rules sp) (l_rlines lay))
              (byte_len (print_decl_section lay sp ++ print_ritems (l_gap0 lay)))) as [H1 [H2 [H3 H4]]].
  destruct (states_of_spec_kinds awc lay sp Hd) as [S1 [S2 S3]].
  rewrite H1, H2, H3, H4. symmetry in Hlen.
  repeat split; try assumption.
  - apply (map_combine_fst _ _ _ a_name). exact Hlen.
  - apply (map_combine_fst _ _ _ (fun r => map_escapes iw pe (a_re r))). exact Hlen.
  - apply (map_combine_fst _ _ _ (fun r => map (fun n => index_of n (state_names sp)) (a_pre r))). exact Hlen.
  - apply (map_combine_fst _ _ _ (fun r => target_of (state_names sp) (a_target r))). exact Hlen.
Qed.

(* ---- the hypotheses are satisfiable --------------------------------------------------------------------- *)
Lemma roundtrip_example : roundtrip_example_stmt.
Proof.
  split; [intros []; split; vm_compute; reflexivity|].
  repeat split; vm_compute; reflexivity.
Qed.

(* the example text, parsed: the theorem applies to it under both settings of awc *)
Example roundtrip_example_parsed :
  lex_from_str repaired (print_spec (ex_layout true) ex_spec) 0 true false false [] =
    Done (POk (spec_of false false (ex_layout true) ex_spec)).
Proof.
  destruct roundtrip_example as [Hwf _]. destruct (Hwf true) as [H1 H2].
  exact (lex_roundtrip true false false (ex_layout true) ex_spec H1 H2).
Qed.
