(* C11 — character-level mirror of lrlex/src/lib/parser.rs (LexParser) and of the
   header slicing done by lrlex/src/lib/lexer.rs (from_str / new_with_options).

   Texts are lists of Unicode code points (N); byte offsets are UTF-8 byte
   offsets ([len_utf8]).  Every Rust slice / index / unwrap / assert is an
   explicit [Panic] result, the two hand-written loops over the source
   (parse_declarations, parse_rules) run on fuel.  Function names are the Rust
   ones.  Definitions only — statements are in Spec.v, proofs in Proofs.v.

   Parameters of the mirror that stand for code mirrored elsewhere / opaque:
   - [pos]     the end of the %grmtools section as returned by
               GrmtoolsSectionParser::parse (mirrored under theories/C12);
   - [awc],[pe],[iw] the flags allow_wholeline_comments, posix_escapes and
               ignore_whitespace (= Some(true)) after defaulting
               (LexParser::new_with_lex_flags);
   - [re_bad]  the offsets of rule lines whose regular expression the regex
               crate refuses to compile (Rule::new is opaque here);
   - [fx]      which of the nine repairs are applied (record [fixes];
               all false = the code as it was first read, [pinned] = that code with the
               first four repairs, [audited] = the first five (the code the auditors
               read), [audited_b] = the first eight (the code the second audit read),
               [repaired] = all of them = the code as it is now).
   The escape table, the trimming of a regex and the splitting of a declaration exist in
   two variants each: the plain name is the code as it is now, [*_orig] the code before
   the repair (kept for the [*_refuted] theorems and for the correspondence with an
   unrepaired tree). *)
From Coq Require Import List Arith NArith Bool Lia.
From GV Require Import Common.Outcome.
Import ListNotations.

Definition text := list N.

(* ---- characters ---------------------------------------------------------- *)
Definition c_tab : N := 9%N.      Definition c_nl : N := 10%N.
Definition c_space : N := 32%N.   Definition c_dquote : N := 34%N.
Definition c_percent : N := 37%N. Definition c_squote : N := 39%N.
Definition c_plus : N := 43%N.    Definition c_comma : N := 44%N.
Definition c_minus : N := 45%N.   Definition c_dot : N := 46%N.
Definition c_slash : N := 47%N.   Definition c_semi : N := 59%N.
Definition c_lt : N := 60%N.      Definition c_gt : N := 62%N.
Definition c_bsl : N := 92%N.     Definition c_underscore : N := 95%N.
Definition c_b : N := 98%N.

Definition mem (c : N) (l : list N) : bool := existsb (N.eqb c) l.

(* char::len_utf8 *)
Definition len_utf8 (c : N) : nat :=
  if (c <? 128)%N then 1
  else if (c <? 2048)%N then 2
  else if (c <? 65536)%N then 3
  else 4.

Fixpoint byte_len (s : text) : nat :=
  match s with [] => 0 | c :: s' => len_utf8 c + byte_len s' end.

(* \p{Pattern_White_Space} *)
Definition is_ws (c : N) : bool := mem c [9; 10; 11; 12; 13; 32; 133; 8206; 8207; 8232; 8233]%N.
(* [\p{Pattern_White_Space}&&[\p{Zl}\p{Zp}\n\r\v]] *)
Definition is_line_sep (c : N) : bool := mem c [10; 11; 13; 8232; 8233]%N.
(* [\p{Pattern_White_Space}&&[\p{Zs}\t]] *)
Definition is_space_sep (c : N) : bool := mem c [9; 32]%N.

Definition in_range (c lo hi : N) : bool := ((lo <=? c) && (c <=? hi))%N.
Definition is_digit (c : N) : bool := in_range c 48 57.
Definition is_alpha (c : N) : bool := in_range c 65 90 || in_range c 97 122.
Definition is_alnum (c : N) : bool := is_alpha c || is_digit c.
Definition is_xdigit (c : N) : bool := is_digit c || in_range c 65 70 || in_range c 97 102.

(* regex_syntax::is_meta_character:  \ . + * ? ( ) | [ ] { } ^ $ # & - ~ *)
Definition is_meta_character (c : N) : bool :=
  mem c [92; 46; 43; 42; 63; 40; 41; 124; 91; 93; 123; 125; 94; 36; 35; 38; 45; 126]%N.

(* char::is_whitespace (\p{White_Space}): what the regex crate skips outside and inside
   character classes when ignore_whitespace (x mode) is on (regex-syntax ast/parse.rs bump_space) *)
Definition is_rx_ws (c : N) : bool :=
  mem c [9; 10; 11; 12; 13; 32; 133; 160; 5760; 8232; 8233; 8239; 8287; 12288]%N || in_range c 8192 8202.

(* format!("{:X}", c as u32): upper-case hexadecimal, no leading zeros (a u32 has at most 8 digits) *)
Definition hex_digit (d : N) : N := if (d <? 10)%N then (48 + d)%N else (55 + d)%N.
Fixpoint hex_go (fuel : nat) (n : N) (acc : text) : text :=
  match fuel with
  | 0 => acc
  | S fuel' =>
      let acc' := hex_digit (n mod 16) :: acc in
      if (n / 16 =? 0)%N then acc' else hex_go fuel' (n / 16) acc'
  end.
Definition hex_upper (n : N) : text := hex_go 8 n [].

(* [0-7] *)
Definition is_octal (c : N) : bool := in_range c 48 55.

(* RE_LEX_ESC_LITERAL = ^(([xuU]([[:xdigit:]]|\{))|[0-7]|[afnrtv\\]|[pP]|[dDsSwW]|[ABz])
   matched against the text that starts at the escaped character.  The table went through two repairs:
   [et] = it keeps `\B` and the braced `\x{` `\u{` `\U{` (1205854), [eo] = of the digits it lists only the
   octal ones (a1aadcd: `\8`, `\9` are escapes neither of lex nor of the regex engine). *)
Definition lex_esc_table (et eo : bool) (s : text) : bool :=
  match s with
  | [] => false
  | c :: rest =>
      (mem c [120; 117; 85]%N
       && match rest with d :: _ => is_xdigit d || (et && (d =? 123)%N) | [] => false end)
      || (if eo then is_octal c else is_digit c)
      || mem c [97; 102; 110; 114; 116; 118; 92]%N      (* a f n r t v \ *)
      || mem c [112; 80]%N                              (* p P *)
      || mem c [100; 68; 115; 83; 119; 87]%N            (* d D s S w W *)
      || mem c (if et then [65; 66; 122]%N else [65; 122]%N)    (* A B z  /  A z *)
  end.

(* the code as it is now *)
Definition lex_esc_literal : text -> bool := lex_esc_table true true.
(* the table the second audit read:  ^(([xuU]([[:xdigit:]]|\{))|[[:digit:]]|[afnrtv\\]|[pP]|[dDsSwW]|[ABz]) *)
Definition lex_esc_literal_dec : text -> bool := lex_esc_table true false.
(* the table before both repairs:  ^(([xuU][[:xdigit:]])|[[:digit:]]|[afnrtv\\]|[pP]|[dDsSwW]|[Az]) *)
Definition lex_esc_literal_orig : text -> bool := lex_esc_table false false.
(* (the digit repair on the table before the first one: only for the correspondence with such a tree) *)
Definition lex_esc_literal_orig_oct : text -> bool := lex_esc_table false true.

(* ---- strings -------------------------------------------------------------- *)
Fixpoint text_eqb (a b : text) : bool :=
  match a, b with
  | [], [] => true
  | x :: a', y :: b' => (x =? y)%N && text_eqb a' b'
  | _, _ => false
  end.

Fixpoint take_while (f : N -> bool) (s : text) : text :=
  match s with [] => [] | c :: s' => if f c then c :: take_while f s' else [] end.
Fixpoint drop_while (f : N -> bool) (s : text) : text :=
  match s with [] => [] | c :: s' => if f c then drop_while f s' else s end.

(* str::trim_end_matches / trim_start_matches / trim_matches with a char predicate *)
Definition trim_end (f : N -> bool) (s : text) : text := rev (drop_while f (rev s)).
Definition trim_start (f : N -> bool) (s : text) : text := drop_while f s.
Definition trim (f : N -> bool) (s : text) : text := trim_end f (trim_start f s).

Fixpoint starts_with (p s : text) : bool :=
  match p, s with
  | [], _ => true
  | x :: p', y :: s' => (x =? y)%N && starts_with p' s'
  | _ :: _, [] => false
  end.

Definition ends_with_char (c : N) (s : text) : bool :=
  match rev s with x :: _ => (x =? c)%N | [] => false end.

(* &s[i..] : panics when i is past the end or not on a char boundary *)
Fixpoint slice_from (s : text) (i : nat) : outcome text :=
  match i with
  | 0 => Done s
  | _ => match s with
         | [] => Panic
         | c :: s' => if len_utf8 c <=? i then slice_from s' (i - len_utf8 c) else Panic
         end
  end.

(* &s[..j] *)
Fixpoint slice_to (s : text) (j : nat) : outcome text :=
  match j with
  | 0 => Done []
  | _ => match s with
         | [] => Panic
         | c :: s' => if len_utf8 c <=? j
                      then do r <- slice_to s' (j - len_utf8 c); Done (c :: r)
                      else Panic
         end
  end.

(* &s[i..j] : also panics when j < i *)
Definition slice (s : text) (i j : nat) : outcome text :=
  if j <? i then Panic else
  do r <- slice_from s i; slice_to r (j - i).

(* byte offset of the first / last character satisfying f (str::find / rfind, Regex::find(..).start()) *)
Fixpoint find_from (f : N -> bool) (s : text) (off : nat) : option nat :=
  match s with
  | [] => None
  | c :: s' => if f c then Some off else find_from f s' (off + len_utf8 c)
  end.
Definition find (f : N -> bool) (s : text) : option nat := find_from f s 0.

Fixpoint rfind_from (f : N -> bool) (s : text) (off : nat) (best : option nat) : option nat :=
  match s with
  | [] => best
  | c :: s' => rfind_from f s' (off + len_utf8 c) (if f c then Some off else best)
  end.
Definition rfind (f : N -> bool) (s : text) : option nat := rfind_from f s 0 None.

(* s.split(p) on a single-character pattern: pieces with the byte offset (in s) at which each starts *)
Fixpoint split_go (f : N -> bool) (s : text) (off start : nat) (cur : text) : list (nat * text) :=
  match s with
  | [] => [(start, rev cur)]
  | c :: s' =>
      if f c then (start, rev cur) :: split_go f s' (off + len_utf8 c) (off + len_utf8 c) []
      else split_go f s' (off + len_utf8 c) start (c :: cur)
  end.
Definition split (f : N -> bool) (s : text) : list (nat * text) := split_go f s 0 0 [].

(* ---- data ----------------------------------------------------------------- *)
Definition span := (nat * nat)%type.

Inductive op := ReplaceStack | Push | Pop.

Record start_state := {
  ss_id : nat; ss_name : text; ss_span : span; ss_exclusive : bool }.

Record rule := {
  r_name : option text; r_name_span : span; r_re_str : text;
  r_start_states : list nat; r_target : option (nat * op) }.

Inductive err_kind :=
| PrematureEnd | RoutinesNotSupported | UnknownDeclaration | MissingSpace | InvalidName
| UnknownStartState | DuplicateStartState | InvalidStartState | InvalidStartStateName
| DuplicateName | RegexError | VerbatimNotSupported.

Definition kind_eqb (a b : err_kind) : bool :=
  match a, b with
  | PrematureEnd, PrematureEnd | RoutinesNotSupported, RoutinesNotSupported
  | UnknownDeclaration, UnknownDeclaration | MissingSpace, MissingSpace
  | InvalidName, InvalidName | UnknownStartState, UnknownStartState
  | DuplicateStartState, DuplicateStartState | InvalidStartState, InvalidStartState
  | InvalidStartStateName, InvalidStartStateName | DuplicateName, DuplicateName
  | RegexError, RegexError | VerbatimNotSupported, VerbatimNotSupported => true
  | _, _ => false
  end.

Record err := { e_kind : err_kind; e_spans : list span }.

Definition span_eqb (a b : span) : bool := (fst a =? fst b) && (snd a =? snd b).

(* struct LexParser { src, rules, start_states, lex_flags } — the mutable part *)
Record pstate := { rules : list rule; start_states : list start_state }.

(* LexInternalBuildResult<T> on top of the outcome of the mirror *)
Inductive res (A : Type) : Type :=
| ROk (a : A) | RErr (e : err) | RPanic | RFuel.
Arguments ROk {A} a. Arguments RErr {A} e. Arguments RPanic {A}. Arguments RFuel {A}.

Definition rbind {A B} (x : res A) (f : A -> res B) : res B :=
  match x with ROk a => f a | RErr e => RErr e | RPanic => RPanic | RFuel => RFuel end.
Notation "'dor' x <- e1 ; e2" := (rbind e1 (fun x => e2))
  (at level 200, x pattern, e1 at level 100, e2 at level 200, right associativity).

Definition lift {A} (x : outcome A) : res A :=
  match x with Done a => ROk a | Panic => RPanic | OutOfFuel => RFuel end.

(* Functions that receive `errs: &mut Vec<LexBuildError>`: the list survives a failing `?`,
   so both results carry it. *)
Inductive tres (A : Type) : Type :=
| TOk (a : A) (errs : list err) | TErr (errs : list err) (e : err) | TPanic | TFuel.
Arguments TOk {A} a errs. Arguments TErr {A} errs e. Arguments TPanic {A}. Arguments TFuel {A}.

(* call of a function that does not touch errs, from one that holds [errs] *)
Definition lbind {A B} (errs : list err) (x : res A) (f : A -> tres B) : tres B :=
  match x with ROk a => f a | RErr e => TErr errs e | RPanic => TPanic | RFuel => TFuel end.
Notation "'dol' x <- e1 'holding' errs ; e2" := (lbind errs e1 (fun x => e2))
  (at level 200, x pattern, e1 at level 100, errs at level 9, e2 at level 200, right associativity).

(* mk_error *)
Definition mk_error (k : err_kind) (off : nat) : err := {| e_kind := k; e_spans := [(off, off)] |}.

(* add_duplicate_occurrence; [e.spans[0]] is an index panic on an error without spans *)
Fixpoint add_dup_go (errs : list err) (k : err_kind) (orig dup : span) : outcome (option (list err)) :=
  match errs with
  | [] => Done None
  | e :: errs' =>
      if kind_eqb (e_kind e) k then
        match e_spans e with
        | [] => Panic
        | s0 :: _ =>
            if span_eqb s0 orig
            then Done (Some ({| e_kind := e_kind e; e_spans := e_spans e ++ [dup] |} :: errs'))
            else do r <- add_dup_go errs' k orig dup;
                 Done (match r with Some l => Some (e :: l) | None => None end)
        end
      else do r <- add_dup_go errs' k orig dup;
           Done (match r with Some l => Some (e :: l) | None => None end)
  end.

Definition add_duplicate_occurrence (errs : list err) (k : err_kind) (orig dup : span) : outcome (list err) :=
  do r <- add_dup_go errs k orig dup;
  match r with
  | Some l => Done l
  | None => Done (errs ++ [{| e_kind := k; e_spans := [orig; dup] |}])
  end.

(* ---- the escape rewriting (parser.rs:543 unescape) -------------------------- *)

(* [kw] ("keep white space"): repair, in force when the flag ignore_whitespace is
   Some(true) — the closure `ws_special` of the repaired code.  The escape before a character the
   regex engine skips in that mode is kept; kept as it is for ASCII ([ws_kept]: the regex crate
   accepts `\c` for ASCII non-alphanumerics only), respelled `\x{..}` otherwise. *)
Definition ws_special (kw : bool) (c : N) : bool := kw && is_rx_ws c.
Definition ws_kept (kw : bool) (c : N) : bool := (c <? 128)%N && ws_special kw c.

(* The scanner is written once, over the table [lit] of escapes that are kept. *)
Section Unescape.
  Variable lit : text -> bool.

(* first loop: look for an escape sequence which needs unescaping.  Returns the
   cursor (i, s, j, c2) and the state of the char_indices iterator after it. *)
Fixpoint unescape_first_t (kw : bool) (it : text) (off : nat) : option (nat * text * nat * N * text * nat) :=
  match it with
  | [] => None
  | c :: it1 =>
      if (c =? c_bsl)%N then
        match it1 with
        | [] => None
        | c2 :: it2 =>
            if negb (is_meta_character c2 || lit (c2 :: it2) || ws_kept kw c2)
            then Some (off, c2 :: it2, off + 1, c2, it2, off + 1 + len_utf8 c2)
            else unescape_first_t kw it2 (off + 1 + len_utf8 c2)
        end
      else unescape_first_t kw it1 (off + len_utf8 c)
  end.

(* body of 'outer for one cursor: returns the new (unescaped, last_pos) *)
Definition unescape_step_t (kw : bool) (re unescaped : text) (last_pos i : nat) (s : text) (j : nat) (c : N) (pe : bool)
  : outcome (text * nat) :=
  if (c =? c_b)%N then
    do a <- slice re last_pos i;
    Done (unescaped ++ a ++ (if pe then [92; 120; 48; 56]%N else [92; 98]%N), j + 1)
  else if is_meta_character c || lit s || ws_kept kw c then
    do a <- slice re last_pos (j + len_utf8 c);
    Done (unescaped ++ a, j + len_utf8 c)
  else if ws_special kw c then                    (* non-ASCII white space: \x{HEX} *)
    do a <- slice re last_pos i;
    Done (unescaped ++ a ++ [92; 120; 123]%N ++ hex_upper c ++ [125]%N, j + len_utf8 c)
  else
    do a <- slice re last_pos i;
    let last_pos' := j + len_utf8 c in
    do b <- slice re j last_pos';
    Done (unescaped ++ a ++ b, last_pos').

(* the inner loop (look for the next backslash) followed by the next round of 'outer *)
(* [fixd = true]: repair — a lone final backslash no longer loses the text since the
   last rewritten escape (the trailing copy is also done when the cursor runs out) *)
Fixpoint unescape_rest_t (fixd kw : bool) (re it : text) (off : nat) (unescaped : text) (last_pos : nat) (pe : bool)
  : outcome text :=
  match it with
  | [] => do tl <- slice_from re last_pos; Done (unescaped ++ tl)
  | c :: it1 =>
      if (c =? c_bsl)%N then
        match it1 with
        | [] =>                          (* cursor = None; `continue 'outer` leaves the while-let *)
            if fixd then do tl <- slice_from re last_pos; Done (unescaped ++ tl)
            else Done unescaped
        | c2 :: it2 =>
            do r <- unescape_step_t kw re unescaped last_pos off (c2 :: it2) (off + 1) c2 pe;
            unescape_rest_t fixd kw re it2 (off + 1 + len_utf8 c2) (fst r) (snd r) pe
        end
      else unescape_rest_t fixd kw re it1 (off + len_utf8 c) unescaped last_pos pe
  end.

Definition unescape_gen_t (fixd kw : bool) (re : text) (pe : bool) : outcome text :=
  match unescape_first_t kw re 0 with
  | None => Done re
  | Some (i, s, j, c2, it2, off2) =>
      do r <- unescape_step_t kw re [] 0 i s j c2 pe;
      unescape_rest_t fixd kw re it2 off2 (fst r) (snd r) pe
  end.
End Unescape.

(* the scanner as it is now (the repaired table), with or without the two older repairs *)
Definition unescape_gen : bool -> bool -> text -> bool -> outcome text := unescape_gen_t lex_esc_literal.
(* ... over the table that lists every digit (the code the second audit read) *)
Definition unescape_gen_dec : bool -> bool -> text -> bool -> outcome text := unescape_gen_t lex_esc_literal_dec.
(* ... and over the table before both repairs *)
Definition unescape_gen_orig : bool -> bool -> text -> bool -> outcome text := unescape_gen_t lex_esc_literal_orig.
Definition unescape_gen_orig_oct : bool -> bool -> text -> bool -> outcome text := unescape_gen_t lex_esc_literal_orig_oct.
(* [et]: the escape-table repair (`\B`, braces); [eo]: the digit repair (octal digits only) *)
Definition unescape_sel (et eo : bool) : bool -> bool -> text -> bool -> outcome text :=
  if et then (if eo then unescape_gen else unescape_gen_dec)
  else (if eo then unescape_gen_orig_oct else unescape_gen_orig).

(* the scanner without the lone-backslash and white-space repairs *)
Definition unescape := unescape_gen false false.
(* the code as it was first read *)
Definition unescape_orig := unescape_gen_orig false false.

(* parser.rs:688 trim_end_unescaped *)
Definition count_trailing_bsl (s : text) : nat := length (take_while (N.eqb c_bsl) (rev s)).

(* [f]: which characters are trimmed *)
Definition trim_end_unescaped_gen (f : N -> bool) (s : text) : outcome text :=
  let trimmed := trim_end f s in
  if byte_len trimmed =? byte_len s then Done s else
  if Nat.odd (count_trailing_bsl trimmed) then
    do rest <- slice_from s (byte_len trimmed);
    match rest with
    | [] => Panic                                            (* .chars().next().unwrap() *)
    | c :: _ => slice_to s (byte_len trimmed + len_utf8 c)
    end
  else Done trimmed.

(* the code as it is now: only what separates a regex from its name (RE_SPACE_SEP: space, tab) is layout *)
Definition trim_end_unescaped : text -> outcome text := trim_end_unescaped_gen is_space_sep.
(* before the repair: every Pattern_White_Space character (matches_whitespace) *)
Definition trim_end_unescaped_orig : text -> outcome text := trim_end_unescaped_gen is_ws.
Definition trim_pred (tb : bool) : N -> bool := if tb then is_space_sep else is_ws.

(* ---- the repairs (all false = the code as it was first read) ----------------- *)
Record fixes := {
  fix_header : bool;         (* parse the whole text starting at the header end instead of slicing it off *)
  fix_target_span : bool;    (* name_span computed from where the name is, also behind a <target> *)
  fix_prefix_unescape : bool;(* unescape also the regex of a rule with a <A,B> prefix *)
  fix_dangling : bool;       (* unescape: trailing copy also when the scan ends on a lone backslash *)
  fix_iw : bool;             (* unescape: under ignore_whitespace the escape before white space is kept *)
  fix_esc_table : bool;      (* RE_LEX_ESC_LITERAL keeps \B and the braced \x{ \u{ \U{ *)
  fix_decl_blanks : bool;    (* declare_start_states: empty pieces between adjacent blanks are skipped *)
  fix_trim_blank : bool;     (* trim_end_unescaped trims space and tab only *)
  fix_esc_octal : bool       (* RE_LEX_ESC_LITERAL lists the octal digits only: `\8` `\9` stand for 8, 9 *)
}.
Definition mk_fixes (a b c d e f g h k : bool) : fixes :=
  {| fix_header := a; fix_target_span := b; fix_prefix_unescape := c; fix_dangling := d; fix_iw := e;
     fix_esc_table := f; fix_decl_blanks := g; fix_trim_blank := h; fix_esc_octal := k |}.
Definition today : fixes := mk_fixes false false false false false false false false false.
(* the first four repairs *)
Definition pinned : fixes := mk_fixes true true true true false false false false false.
(* the first five: the code the auditors read *)
Definition audited : fixes := mk_fixes true true true true true false false false false.
(* the first eight: the code the second audit read *)
Definition audited_b : fixes := mk_fixes true true true true true true true true false.
(* the code as it is now *)
Definition repaired : fixes := mk_fixes true true true true true true true true true.

(* ---- the parser -------------------------------------------------------------- *)
Section Parser.
  Variable src : text.              (* self.src *)
  Variable awc pe iw : bool.        (* allow_wholeline_comments, posix_escapes, ignore_whitespace = Some(true) *)
  Variable re_bad : list nat.       (* rule lines whose regex does not compile *)
  Variable fx : fixes.

  Definition src_len : nat := byte_len src.

  Definition parse_ws (i : nat) : outcome nat :=
    do rest <- slice_from src i; Done (i + byte_len (take_while is_ws rest)).
  Definition parse_nl (i : nat) : outcome nat :=
    do rest <- slice_from src i; Done (i + byte_len (take_while is_line_sep rest)).
  Definition parse_spaces (i : nat) : outcome nat :=
    do rest <- slice_from src i; Done (i + byte_len (take_while is_space_sep rest)).
  Definition lookahead_is (p : text) (i : nat) : outcome (option nat) :=
    do rest <- slice_from src i;
    Done (if starts_with p rest then Some (i + byte_len p) else None).

  (* RE_LINE_SEP.find(&self.src[i..]).map(|m| m.start()).unwrap_or(self.src.len() - i) *)
  Definition line_len_at (i : nat) : outcome nat :=
    do rest <- slice_from src i;
    Done (match find is_line_sep rest with Some k => k | None => src_len - i end).

  Definition get_start_state_by_name (st : pstate) (off : nat) (name : text) : res start_state :=
    match List.find (fun s => text_eqb (ss_name s) name) (start_states st) with
    | Some s => ROk s
    | None => RErr (mk_error UnknownStartState off)
    end.

  (* RE_START_STATE_NAME = ^[a-zA-Z][a-zA-Z0-9_.]*$ *)
  Definition is_start_state_name (n : text) : bool :=
    match n with
    | [] => false
    | c :: n' => is_alpha c && forallb (fun d => is_alnum d || (d =? c_underscore)%N || (d =? c_dot)%N) n'
    end.

  (* ^%[sS][a-zA-Z0-9]*$  /  ^%[xX][a-zA-Z0-9]*$ *)
  Definition is_declaration (k1 k2 : N) (d : text) : bool :=
    match d with
    | p :: k :: d' => (p =? c_percent)%N && ((k =? k1)%N || (k =? k2)%N) && forallb is_alnum d'
    | _ => false
    end.

  (* validate_start_state: fails (InvalidStartStateName) before it touches errs *)
  Definition validate_start_state (st : pstate) (sp : span) (name : text) (errs : list err)
    : res (bool * list err) :=
    if negb (is_start_state_name name) then RErr (mk_error InvalidStartStateName (fst sp)) else
    match List.find (fun s => text_eqb (ss_name s) name) (start_states st) with
    | Some s =>
        dor errs' <- lift (add_duplicate_occurrence errs DuplicateStartState (ss_span s) sp);
        ROk (false, errs')
    | None => ROk (true, errs)
    end.

  Definition push_state (st : pstate) (s : start_state) : pstate :=
    {| rules := rules st; start_states := start_states st ++ [s] |}.
  Definition push_rule (st : pstate) (r : rule) : pstate :=
    {| rules := rules st ++ [r]; start_states := start_states st |}.

  Fixpoint declare_loop (exclusive : bool) (names : list (text * span)) (st : pstate) (errs : list err)
    : tres pstate :=
    match names with
    | [] => TOk st errs
    | (name, sp) :: rest =>
        let id := length (start_states st) in
        dol v <- validate_start_state st sp name errs holding errs;
        let st' := if fst v
                   then push_state st {| ss_id := id; ss_name := name; ss_span := sp; ss_exclusive := exclusive |}
                   else st in
        declare_loop exclusive rest st' (snd v)
    end.

  (* the names of a declaration with their spans; the pointer differences
     `name.as_ptr() - src.as_ptr()` are index arithmetic.  [fb]: the empty pieces that two adjacent
     blanks give are filtered out (`.filter(|name| !name.is_empty())`) *)
  Definition nonempty_piece (p : nat * text) : bool := match snd p with [] => false | _ => true end.
  Definition declared_names (fb : bool) (base : nat) (params : text) : list (text * span) :=
    map (fun p => (snd p, (base + fst p, base + fst p + byte_len (snd p))))
        (if fb then filter nonempty_piece (split is_ws params) else split is_ws params).

  (* declare_start_states *)
  Definition declare_start_states (exclusive : bool) (i declaration_len line_len : nat)
             (st : pstate) (errs : list err) : tres (nat * pstate) :=
    let line_end := i + line_len in
    dol raw <- lift (slice src (i + declaration_len) line_end) holding errs;
    let declaration_parameters := trim is_ws raw in
    if match declaration_parameters with [] => true | _ => false end
    then TErr errs (mk_error UnknownDeclaration i) else
    let base := i + declaration_len + byte_len (take_while is_ws raw) in
    let names := declared_names (fix_decl_blanks fx) base declaration_parameters in
    let i' := match rev names with (_, (_, e)) :: _ => e | [] => i end in
    match declare_loop exclusive names st errs with
    | TOk st' errs' => dol k <- lift (parse_ws i') holding errs'; TOk (k, st') errs'
    | TErr errs' e => TErr errs' e
    | TPanic => TPanic | TFuel => TFuel
    end.

  Definition parse_declaration (i : nat) (st : pstate) (errs : list err) : tres (nat * pstate) :=
    dol line_len <- lift (line_len_at i) holding errs;
    dol line0 <- lift (slice src i (i + line_len)) holding errs;
    let line := trim_end is_ws line0 in
    let declaration_len := match find is_ws line with Some k => k | None => line_len end in
    dol decl0 <- lift (slice src i (i + declaration_len)) holding errs;
    let declaration := trim_end is_ws decl0 in
    if is_declaration 115 83 declaration then declare_start_states false i declaration_len line_len st errs
    else if is_declaration 120 88 declaration then declare_start_states true i declaration_len line_len st errs
    else TErr errs (mk_error UnknownDeclaration i).

  Fixpoint parse_declarations_loop (fuel : nat) (i : nat) (st : pstate) (errs : list err)
    : tres (nat * pstate) :=
    match fuel with
    | 0 => TFuel
    | S fuel' =>
        dol i <- lift (parse_ws i) holding errs;
        dol cmt <- lift (if awc then lookahead_is [c_slash; c_slash] i else Done None) holding errs;
        match cmt with
        | Some _ =>
            dol rest <- lift (slice_from src i) holding errs;
            let i' := match find is_line_sep rest with Some k => k + i | None => src_len end in
            parse_declarations_loop fuel' i' st errs
        | None =>
            if i =? src_len then TErr errs (mk_error PrematureEnd i) else
            dol sep <- lift (lookahead_is [c_percent; c_percent] i) holding errs;
            match sep with
            | Some j => dol k <- lift (parse_spaces j) holding errs; TOk (k, st) errs
            | None =>
                match parse_declaration i st errs with
                | TOk (i', st') errs' => parse_declarations_loop fuel' i' st' errs'
                | TErr errs' e => TErr errs' e
                | TPanic => TPanic | TFuel => TFuel
                end
            end
        end
    end.

  Definition parse_declarations (fuel : nat) (i : nat) (st : pstate) (errs : list err) : tres (nat * pstate) :=
    dol i <- lift (parse_ws i) holding errs;
    parse_declarations_loop fuel i st errs.

  (* parse_start_state_ops *)
  Definition parse_start_state_ops (s : text) : outcome (text * op) :=
    let d :=
      match s with
      | c :: _ => if (c =? c_plus)%N then (1, Push) else if (c =? c_minus)%N then (1, Pop) else (0, ReplaceStack)
      | [] => (0, ReplaceStack)                        (* unwrap_or_default: '\0' *)
      end in
    do r <- slice_from s (fst d); Done (r, snd d).

  Fixpoint states_by_name (st : pstate) (off : nat) (names : list text) : res (list nat) :=
    match names with
    | [] => ROk []
    | n :: rest =>
        dor s <- get_start_state_by_name st off n;
        dor ids <- states_by_name st off rest;
        ROk (ss_id s :: ids)
    end.

  (* parse_start_states *)
  Definition parse_start_states (st : pstate) (off : nat) (re_str : text) : res (list nat * text) :=
    if negb (starts_with [c_lt] re_str) then
      dor u <- lift (unescape_sel (fix_esc_table fx) (fix_esc_octal fx) (fix_dangling fx) (fix_iw fx && iw) re_str pe); ROk ([], u)
    else
      match find (N.eqb c_gt) re_str with
      | None => RErr (mk_error InvalidStartState off)
      | Some j =>
          dor inner <- lift (slice re_str 1 j);
          let names := map (fun p => trim is_ws (snd p)) (split (N.eqb c_comma) inner) in
          dor ids <- states_by_name st off names;
          dor rest <- lift (slice_from re_str (j + 1));
          if fix_prefix_unescape fx
          then dor u <- lift (unescape_sel (fix_esc_table fx) (fix_esc_octal fx) (fix_dangling fx) (fix_iw fx && iw) rest pe); ROk (ids, u)
          else ROk (ids, rest)
      end.

  (* the duplicate search of parse_rule: rules.iter().any(..) stops at the first rule of that name *)
  Fixpoint find_dupe (rs : list rule) (name : text) : option rule :=
    match rs with
    | [] => None
    | r :: rs' =>
        match r_name r with
        | Some n => if text_eqb n name then Some r else find_dupe rs' name
        | None => find_dupe rs' name
        end
    end.

  Definition is_skip_name (n : text) : bool :=
    text_eqb n [c_semi] || text_eqb n [c_dquote; c_dquote] || text_eqb n [c_squote; c_squote].

  Definition is_quoted (n : text) : bool :=
    (starts_with [c_squote] n && ends_with_char c_squote n)
    || (starts_with [c_dquote] n && ends_with_char c_dquote n).

  (* the part of parse_rule after the last horizontal space: optional <target>, then the name.
     Returns target_state, orig_name and the offset of orig_name in the line. *)
  Definition parse_target (i : nat) (st : pstate) (line : text) (rspace : nat)
    : res (option (nat * op) * text * nat) :=
    dor tail <- lift (slice_from line (rspace + 1));
    if starts_with [c_lt] tail then
      match find (N.eqb c_gt) tail with
      | Some l =>
          dor inner <- lift (slice line (rspace + 2) (rspace + 1 + l));
          dor so <- lift (parse_start_state_ops inner);
          dor state <- get_start_state_by_name st (i + rspace + 1) (fst so);
          dor on <- lift (slice_from line (rspace + 1 + l + 1));
          ROk (Some (ss_id state, snd so), on, rspace + 1 + l + 1)
      | None => RErr (mk_error InvalidStartState (rspace + i))
      end
    else ROk (None, tail, rspace + 1).

  (* name, name_span of a non-skip rule *)
  Definition parse_name (i rspace name_off : nat) (orig_name : text) : res (text * span) :=
    if (byte_len orig_name <=? 2) || negb (is_quoted orig_name)
    then RErr (mk_error InvalidName (i + rspace + 1))
    else
      dor name <- lift (slice orig_name 1 (byte_len orig_name - 1));
      ROk (name,
           if fix_target_span fx
           then (i + name_off + 1, i + name_off + byte_len orig_name - 1)
           else (i + rspace + 2, i + rspace + byte_len orig_name)).

  (* parse_rule *)
  Definition parse_rule (i : nat) (st : pstate) (errs : list err) : tres (nat * pstate) :=
    dol line_len <- lift (line_len_at i) holding errs;
    dol line0 <- lift (slice src i (i + line_len)) holding errs;
    let line := trim_end is_ws line0 in
    match rfind is_space_sep line with
    | None => TErr errs (mk_error MissingSpace i)
    | Some rspace =>
        dol tg <- parse_target i st line rspace holding errs;
        let '(target_state, orig_name, name_off) := tg in
        dol nm <- (if is_skip_name orig_name
                   then ROk (None, (i + rspace + 1, i + rspace + 1))
                   else dor ns <- parse_name i rspace name_off orig_name; ROk (Some (fst ns), snd ns))
               holding errs;
        let '(name, name_span) := nm in
        match (match name with Some n => find_dupe (rules st) n | None => None end) with
        | Some r =>
            dol errs' <- lift (add_duplicate_occurrence errs DuplicateName (r_name_span r) name_span) holding errs;
            TOk (i + line_len, st) errs'
        | None =>
            dol re0 <- lift (slice_to line rspace) holding errs;
            dol re1 <- lift (trim_end_unescaped_gen (trim_pred (fix_trim_blank fx)) re0) holding errs;
            dol ps <- parse_start_states st i re1 holding errs;
            if existsb (Nat.eqb i) re_bad then TErr errs (mk_error RegexError i) else
            TOk (i + line_len,
                 push_rule st {| r_name := name; r_name_span := name_span; r_re_str := snd ps;
                                 r_start_states := fst ps; r_target := target_state |}) errs
        end
    end.

  Fixpoint parse_rules (fuel : nat) (i : nat) (st : pstate) (errs : list err) : tres (nat * pstate) :=
    match fuel with
    | 0 => TFuel
    | S fuel' =>
        dol i <- lift (parse_nl i) holding errs;
        dol line_len <- lift (line_len_at i) holding errs;
        dol cmt <- lift (if awc then lookahead_is [c_slash; c_slash] i else Done None) holding errs;
        match cmt with
        | Some _ => parse_rules fuel' (i + line_len) st errs
        | None =>
            dol j <- lift (parse_ws i) holding errs;
            if negb (j =? i) then
              parse_rules fuel' (i + line_len) st
                (errs ++ [{| e_kind := VerbatimNotSupported; e_spans := [(i, i + line_len)] |}])
            else if i =? src_len then TOk (i, st) errs else
            dol sep <- lift (lookahead_is [c_percent; c_percent] i) holding errs;
            match sep with
            | Some _ => TOk (i, st) errs
            | None =>
                match parse_rule i st errs with
                | TOk (i', st') errs' => parse_rules fuel' i' st' errs'
                | TErr errs' e => TErr errs' e
                | TPanic => TPanic | TFuel => TFuel
                end
            end
        end
    end.

  Inductive parsed := POk (st : pstate) | PErrs (errs : list err).

  Definition initial_state : pstate :=
    {| rules := [];
       start_states := [{| ss_id := 0; ss_name := [73; 78; 73; 84; 73; 65; 76]%N; ss_span := (0, 0);
                           ss_exclusive := false |}] |}.

  Definition finish (st : pstate) (errs : list err) : parsed :=
    match errs with [] => POk st | _ => PErrs errs end.

  (* parse; [start] is 0 in today's code *)
  Definition parse (fuel : nat) (start : nat) : outcome parsed :=
    match parse_declarations fuel start initial_state [] with
    | TPanic => Panic | TFuel => OutOfFuel
    | TErr errs e => Done (PErrs (errs ++ [e]))
    | TOk (i, st) errs =>
        match parse_rules fuel i st errs with
        | TPanic => Panic | TFuel => OutOfFuel
        | TErr errs e => Done (PErrs (errs ++ [e]))
        | TOk (i, st) errs =>
            do la <- lookahead_is [c_percent; c_percent] i;
            match la with
            | Some j =>
                do k <- parse_ws j;
                if k =? src_len then Done (finish st errs)
                else Done (PErrs (errs ++ [mk_error RoutinesNotSupported i]))
            | None =>
                if i =? src_len then Done (finish st errs) else Panic      (* assert_eq!(i, self.src.len()) *)
            end
        end
    end.
End Parser.

(* ---- lexer.rs from_str / new_with_options: the header is parsed, then the
   source is sliced at its end.  With [fix_header] the parser keeps the whole
   text and starts at [pos]. *)
Definition fuel_for (src : text) : nat := byte_len src + 2.

Definition lex_from_str (fx : fixes) (src : text) (pos : nat) (awc pe iw : bool) (re_bad : list nat)
  : outcome parsed :=
  do s <- slice_from src pos;                                (* s[pos..] *)
  if fix_header fx
  then parse src awc pe iw re_bad fx (fuel_for src) pos
  else parse s awc pe iw re_bad fx (fuel_for s) 0.
