(* C11 — the lemmas named by the statements of Spec.v (proved in EscProofs.v,
   SpanProofs.v, TotalProofs.v), the remaining small ones, and Examples showing
   that the hypotheses of the conditional theorems are satisfiable. *)
From Coq Require Import List Arith NArith Bool Lia.
From GV Require Import Common.Outcome C11.Model C11.Spec C11.Slices.
From GV Require Export C11.EscProofs C11.SpanProofs C11.TotalProofs.
Import ListNotations.

Lemma snoc_not_nil : forall (A : Type) (l : list A) (x : A), l ++ [x] <> [].
Proof. intros A l x H. destruct l; discriminate. Qed.

Lemma parse_errs_nonempty : forall src awc pe iw re_bad fx fuel start errs,
  parse src awc pe iw re_bad fx fuel start = Done (PErrs errs) -> errs <> [].
Proof.
  intros src awc pe iw re_bad fx fuel start errs H. unfold parse in H.
  assert (Hf : forall st e, Done (finish st e) = Done (PErrs errs) -> errs <> []).
  { intros st e He. unfold finish in He. destruct e; inversion He; subst; discriminate. }
  destruct (parse_declarations src awc fx fuel start initial_state []) as [[i1 st1] errs1|errs1 e1| |];
    try discriminate.
  - destruct (parse_rules src awc pe iw re_bad fx fuel i1 st1 errs1) as [[i2 st2] errs2|errs2 e2| |];
      try discriminate.
    + apply obind_ok in H. destruct H as [la [_ H]]. destruct la as [j|].
      * apply obind_ok in H. destruct H as [k [_ H]].
        destruct (k =? src_len src); [eapply Hf; eauto|]. inversion H; subst. apply snoc_not_nil.
      * destruct (i2 =? src_len src); [eapply Hf; eauto|discriminate].
    + inversion H; subst. apply snoc_not_nil.
  - inversion H; subst. apply snoc_not_nil.
Qed.

Lemma lex_errs_nonempty : lex_errs_nonempty_stmt.
Proof.
  intros fx src pos awc pe iw re_bad errs H. unfold lex_from_str in H.
  apply obind_ok in H. destruct H as [s [_ H]].
  destruct (fix_header fx); eapply parse_errs_nonempty; eauto.
Qed.

(* ---- ignore_whitespace off: the white-space repair is invisible ---- *)
Ltac same := match goal with |- ?a = ?a => reflexivity | _ => idtac end.
Ltac iw_step := match goal with
  | |- lbind _ ?x _ = lbind _ ?x _ => destruct x; cbn [lbind]; same
  | |- match ?x with _ => _ end = match ?x with _ => _ end => destruct x; same
  | |- (if ?x then _ else _) = (if ?x then _ else _) => destruct x; same
  end.

Lemma parse_start_states_iw_off : forall pe fx b st off re,
  parse_start_states pe false (with_iw b fx) st off re = parse_start_states pe false fx st off re.
Proof.
  intros pe fx b st off re. unfold parse_start_states.
  cbn [with_iw fix_dangling fix_iw fix_prefix_unescape fix_esc_table fix_esc_octal]. rewrite !andb_false_r. reflexivity.
Qed.

Lemma parse_name_iw : forall fx b i rspace name_off orig_name,
  parse_name (with_iw b fx) i rspace name_off orig_name = parse_name fx i rspace name_off orig_name.
Proof. reflexivity. Qed.

Lemma parse_rule_iw_off : forall src pe re_bad fx b i st errs,
  parse_rule src pe false re_bad (with_iw b fx) i st errs = parse_rule src pe false re_bad fx i st errs.
Proof.
  intros src pe re_bad fx b i st errs. unfold parse_rule.
  do 4 iw_step.
  match goal with |- match ?x with _ => _ end = _ => destruct x as [[ts on] no] end.
  rewrite parse_name_iw. iw_step.
  match goal with |- match ?x with _ => _ end = _ => destruct x as [name name_span] end.
  iw_step. iw_step. cbn [with_iw fix_trim_blank]. iw_step.
  rewrite parse_start_states_iw_off. reflexivity.
Qed.

(* the declarations section reads one repair only: the skipping of empty pieces *)
Lemma declare_start_states_fx : forall src fx fx' excl i dl ll st errs,
  fix_decl_blanks fx = fix_decl_blanks fx' ->
  declare_start_states src fx excl i dl ll st errs = declare_start_states src fx' excl i dl ll st errs.
Proof. intros src fx fx' excl i dl ll st errs H. unfold declare_start_states. rewrite H. reflexivity. Qed.

Lemma parse_declaration_fx : forall src fx fx' i st errs,
  fix_decl_blanks fx = fix_decl_blanks fx' ->
  parse_declaration src fx i st errs = parse_declaration src fx' i st errs.
Proof.
  intros src fx fx' i st errs H. unfold parse_declaration.
  do 3 iw_step. iw_step; [apply declare_start_states_fx; exact H|].
  iw_step. apply declare_start_states_fx; exact H.
Qed.

Lemma parse_declarations_loop_fx : forall src awc fx fx' fuel i st errs,
  fix_decl_blanks fx = fix_decl_blanks fx' ->
  parse_declarations_loop src awc fx fuel i st errs = parse_declarations_loop src awc fx' fuel i st errs.
Proof.
  intros src awc fx fx' fuel. induction fuel as [|fuel IH]; intros i st errs H; [reflexivity|].
  cbn [parse_declarations_loop]. iw_step. iw_step. iw_step; [iw_step; apply IH; exact H|].
  iw_step. iw_step. iw_step.
  rewrite (parse_declaration_fx src fx fx' _ _ _ H).
  match goal with |- match ?x with _ => _ end = _ => destruct x as [[i' st'] errs'|errs' e| |] end;
    same. apply IH. exact H.
Qed.

Lemma parse_declarations_fx : forall src awc fx fx' fuel i st errs,
  fix_decl_blanks fx = fix_decl_blanks fx' ->
  parse_declarations src awc fx fuel i st errs = parse_declarations src awc fx' fuel i st errs.
Proof.
  intros src awc fx fx' fuel i st errs H. unfold parse_declarations. iw_step.
  apply parse_declarations_loop_fx. exact H.
Qed.
Lemma parse_rules_iw_off : forall src awc pe re_bad fx b fuel i st errs,
  parse_rules src awc pe false re_bad (with_iw b fx) fuel i st errs =
  parse_rules src awc pe false re_bad fx fuel i st errs.
Proof.
  intros src awc pe re_bad fx b fuel. induction fuel as [|fuel IH]; intros i st errs; [reflexivity|].
  cbn [parse_rules]. do 3 iw_step. iw_step; [apply IH|].
  iw_step. iw_step; [apply IH|]. iw_step. iw_step. iw_step.
  rewrite parse_rule_iw_off.
  match goal with |- match ?x with _ => _ end = _ => destruct x as [[i' st'] errs'|errs' e| |] end;
    same. apply IH.
Qed.

Lemma parse_iw_off : forall src awc pe re_bad fx b fuel start,
  parse src awc pe false re_bad (with_iw b fx) fuel start = parse src awc pe false re_bad fx fuel start.
Proof.
  intros src awc pe re_bad fx b fuel start. unfold parse.
  rewrite (parse_declarations_fx src awc (with_iw b fx) fx) by reflexivity.
  match goal with |- match ?x with _ => _ end = _ => destruct x as [[i st] errs|errs e| |] end;
    same. rewrite parse_rules_iw_off. reflexivity.
Qed.

Lemma iw_off_irrelevant : iw_off_irrelevant_stmt.
Proof.
  intros fx b src pos awc pe re_bad. unfold lex_from_str.
  destruct (slice_from src pos) as [s| |]; cbn [obind]; same.
  cbn [with_iw fix_header]. destruct (fix_header fx); apply parse_iw_off.
Qed.

(* ---- start-state declarations: the names are the maximal runs of non-white-space ---- *)
Lemma nonempty_rev_cons : forall start x (cur : text), nonempty_piece (start, rev (x :: cur)) = true.
Proof. intros start x cur. unfold nonempty_piece. cbn [snd rev]. destruct (rev cur); reflexivity. Qed.

Lemma filter_split_runs : forall s off start cur,
  filter nonempty_piece (split_go is_ws s off start cur) = runs_go s off start cur.
Proof.
  induction s as [|c s IH]; intros off start cur.
  - cbn [split_go runs_go filter]. destruct cur as [|x cur]; [reflexivity|].
    rewrite nonempty_rev_cons. reflexivity.
  - cbn [split_go runs_go]. destruct (is_ws c).
    + cbn [filter]. rewrite IH. destruct cur as [|x cur]; [reflexivity|].
      rewrite nonempty_rev_cons. reflexivity.
    + apply IH.
Qed.

Lemma declared_names_spec : declared_names_spec_stmt.
Proof. intros base params. unfold declared_names, split, runs. rewrite filter_split_runs. reflexivity. Qed.

(* `%s A  B` / `%x C \t D`: rejected before the repair, the declared states now *)
Lemma decl_blanks_refuted : decl_blanks_refuted_stmt.
Proof.
  split; [vm_compute; reflexivity|]. split; [|split].
  - eexists. split; [vm_compute; reflexivity|reflexivity].
  - eexists. split; [vm_compute; reflexivity|]. split; vm_compute; reflexivity.
  - eexists. split; [vm_compute; reflexivity|]. vm_compute; reflexivity.
Qed.

(* the names of `A \t  Bc<NEL>D`, with their places *)
Example declared_names_applies :
  declared_names true 3 [65; 32; 9; 32; 32; 66; 99; 133; 68]%N =
    [([65]%N, (3, 4)); ([66; 99]%N, (8, 10)); ([68]%N, (12, 13))] /\
  map fst (declared_names false 3 [65; 32; 9; 66]%N) = [[65]%N; []; [66]%N].
Proof. split; vm_compute; reflexivity. Qed.

(* ---- the hypotheses of the conditional theorems are satisfiable ---- *)

(* unescape_spec: a text that does not end in a lone backslash and needs rewriting:  \"a\é  ->  "aé ;
   and one whose escapes are all escapes of the engine:  a\Bb\x{41}\u{e9}\U{1F600}\q  ->  the same without the last backslash *)
Example unescape_spec_applies :
  dangling [92; 34; 97; 92; 233]%N = false /\
  unescape [92; 34; 97; 92; 233]%N false = Done [34; 97; 233]%N /\
  unescape [97; 92; 66; 98; 92; 120; 123; 52; 49; 125; 92; 117; 123; 101; 57; 125; 92; 85; 123; 49; 70; 125; 92; 113]%N false =
    Done [97; 92; 66; 98; 92; 120; 123; 52; 49; 125; 92; 117; 123; 101; 57; 125; 92; 85; 123; 49; 70; 125; 113]%N.
Proof. split; [|split]; vm_compute; reflexivity. Qed.

(* unescape_iw_spec, ignore_whitespace on:  a\<NBSP>\<U+3000>\<TAB>\#\"  ->  a\x{A0}\x{3000}\<TAB>\#"
   (and off: the four non-meta characters lose their backslash) *)
Example unescape_iw_applies :
  unescape_gen true true [97; 92; 160; 92; 12288; 92; 9; 92; 35; 92; 34]%N false =
    Done [97; 92; 120; 123; 65; 48; 125; 92; 120; 123; 51; 48; 48; 48; 125; 92; 9; 92; 35; 34]%N /\
  unescape_gen true false [97; 92; 160; 92; 12288; 92; 9; 92; 35; 92; 34]%N false =
    Done [97; 160; 12288; 9; 92; 35; 34]%N.
Proof. split; vm_compute; reflexivity. Qed.

(* trim_end_keeps / trim_end_unescaped_spec: `a<FF>` and `a<NEL><space><tab>` keep everything but the blanks; an escaped
   blank is put back *)
Example trim_end_unescaped_applies :
  trim_end_unescaped [97; 12]%N = Done [97; 12]%N /\
  trim_end_unescaped [97; 133; 32; 9]%N = Done [97; 133]%N /\
  trim_end_unescaped [97; 92; 32; 32]%N = Done [97; 92; 32]%N.
Proof. repeat split; vm_compute; reflexivity. Qed.

(* spans_index_source: the repaired variant accepts the text on which today's code is refuted,
   and its name span (18,20) selects "ID" in the text the user wrote *)
Example spans_index_source_applies :
  exists st, lex_from_str repaired refute_src 11 false false false [] = Done (POk st) /\
             map r_name_span (rules st) = [(18, 20)].
Proof. eexists. split; vm_compute; reflexivity. Qed.

(* lex_parse_total: every byte offset returned by the header parser is a boundary; 11 is one here *)
Example boundary_applies : boundary refute_src 11.
Proof. eexists. vm_compute. reflexivity. Qed.
