(* C06 — the exhaustive reference for "complete minimum-cost repair set, ranked as
   documented" (lrpar/src/lib/cpctplus.rs, dijkstra.rs).  Executable definitions only.

   The reference works on SEQUENCES of moves with the replay semantics of
   Repair/Semantics.v (apply_repairs / lr_upto), no nodes, no merging, no buckets:
     Ins t  parse with lookahead t (reductions), then shift the inserted lexeme   cost c(t)
     Del    skip the next real lexeme, only if one remains                        cost c(that token)
     Shf    parse the next real lexeme (reductions, then shift it)                cost 0
   in the documented normal form (never Ins directly after Del, never Ins eof, only
   tokens of the grammar).  A sequence is DONE (a success) when it ends in PN = PARSE_AT_LEAST
   consecutive Shf or parsing the next lexeme from the configuration it reaches ends in
   Accept; the enumeration stops at the first success along a sequence (the search never
   expands a success node).  Then: minimum cost, rank by distance parsed (rank_cnds) — the
   distance of EVERY candidate capped at in_laidx + TRY_PARSE_AT_MOST, the documented look-ahead
   of the ranking ([far], [cap_dist]; /repo 00915cc; [far_orig] & co. keep the pinned comparison,
   in which a candidate whose own repairs end beyond that limit was parsed on without limit:
   C06/RankCapSpec.v) —, strip trailing shifts, dedup, sort by (inserts a %avoid_insert token,
   length) (simplify_repairs). *)
From Coq Require Import List Arith NArith Bool Lia.
From GV Require Import Common.Outcome Base.Grammar LR.Automaton Repair.Semantics Repair.Search.
Import ListNotations.

(* (self.parser.token_cost)(tidx); RTParserBuilder's default is 1 *)
Definition tcost (costs : list N) (t : N) : N := nth (N.to_nat t) costs 1%N.

Definition repair_eq_dec : forall a b : repair, {a = b} + {a <> b}.
Proof. decide equality; apply N.eq_dec. Defined.
Definition seq_eq_dec : forall a b : list repair, {a = b} + {a <> b} := list_eq_dec repair_eq_dec.

Definition is_acc (r : adv) : bool := match r with AAccept _ => true | _ => false end.
Definition next_k (k : nat) (m : repair) : nat := match m with Shf => S k | _ => O end.

Section Ref.
Variable g : grammar.
Variable A : automaton.
Variable input : list N.
Variable ifuel : nat.
Variable PN : nat.              (* PARSE_AT_LEAST *)
Variable costs : list N.

(* one move that really does what it says (the search records an Insert/Shift only if the
   lexeme was shifted, a Delete only if a real lexeme remains) *)
Definition sstep (m : repair) (stk : vstack) (p : nat) : option (vstack * nat) :=
  match m with
  | Ins t => match lr_upto1 g A input ifuel (Some t) stk p with AShift stk' => Some (stk', p) | _ => None end
  | Del => if (p <? length input)%nat then Some (stk, S p) else None
  | Shf => match lr_upto1 g A input ifuel None stk p with AShift stk' => Some (stk', S p) | _ => None end
  end.

Fixpoint srun (s : list repair) (stk : vstack) (p : nat) : option (vstack * nat) :=
  match s with
  | [] => Some (stk, p)
  | m :: s' => match sstep m stk p with Some (stk', p') => srun s' stk' p' | None => None end
  end.

(* cost and position bookkeeping do not depend on the stack *)
Definition mcost (m : repair) (p : nat) : N :=
  match m with Ins t => tcost costs t | Del => tcost costs (la g input p) | Shf => 0%N end.
Definition mpos (m : repair) (p : nat) : nat := match m with Ins _ => p | _ => S p end.
Fixpoint scost (s : list repair) (p : nat) : N :=
  match s with [] => 0%N | m :: s' => (mcost m p + scost s' (mpos m p))%N end.

(* success test of the search at a configuration reached with k trailing shifts:
   ends_with_parse_at_least_shifts, or Accept (after the reductions the search makes
   through its no-progress shift neighbour) *)
Definition done_at (k : nat) (stk : vstack) (p : nat) : bool :=
  (PN <=? k)%nat || is_acc (lr_upto1 g A input ifuel None stk p).

(* which moves are offered where: never Insert after Delete, never the end-of-input token *)
Definition allowed (ld : bool) (m : repair) : bool :=
  match m with
  | Ins t => negb ld && negb (N.eqb t (eof g)) && (t <? ntoks g)%N
  | _ => true
  end.

Definition moves : list repair := map Ins (tidxs g) ++ [Del; Shf].

(* all first successes of cost <= c and length <= d from (stk, p), as move lists;
   k = trailing shifts so far, ld = the last move was a Delete *)
Fixpoint enum (d : nat) (c : N) (stk : vstack) (p : nat) (k : nat) (ld : bool) : list (list repair) :=
  if done_at k stk p then [[]] else
  match d with
  | O => []
  | S d' =>
      flat_map (fun m =>
        if allowed ld m && (mcost m p <=? c)%N then
          match sstep m stk p with
          | Some (stk', p') => map (cons m) (enum d' (c - mcost m p) stk' p' (next_k k m) (is_del m))
          | None => []
          end
        else []) moves
  end.

(* a first success of cost c has at most (c+1)*PN moves (C06/Proofs.v), so this depth loses nothing *)
Definition depth_for (c : N) : nat := (N.to_nat c + 1) * PN.
Definition cands (c : N) (stk : vstack) (p : nat) : list (list repair) :=
  enum (depth_for c) c stk p 0 false.

Fixpoint min_cost_of (l : list (list repair)) (p : nat) : option N :=
  match l with
  | [] => None
  | s :: l' => match min_cost_of l' p with
               | None => Some (scost s p)
               | Some m => Some (N.min (scost s p) m)
               end
  end.

(* iterative deepening on cost: the first bound of the schedule under which a success exists *)
Fixpoint first_bound (sched : list N) (stk : vstack) (p : nat) : option (N * list (list repair)) :=
  match sched with
  | [] => None
  | c :: r => match cands c stk p with
              | [] => first_bound r stk p
              | l => Some (c, l)
              end
  end.

Definition min_successes (sched : list N) (stk : vstack) (p : nat) : option (N * list (list repair)) :=
  match first_bound sched stk p with
  | None => None
  | Some (_, l) =>
      match min_cost_of l p with
      | None => None
      | Some m => Some (m, filter (fun s => N.eqb (scost s p) m) l)
      end
  end.

(* lr_upto(None, laidx, endp, …): the lexeme index at which plain parsing stops *)
Fixpoint parse_far (n : nat) (stk : vstack) (laidx endp : nat) : nat :=
  match n with
  | O => laidx
  | S n' =>
      if Nat.eqb laidx endp then laidx else
      match lr_upto1 g A input ifuel None stk laidx with
      | AShift stk' => parse_far n' stk' (S laidx) endp
      | _ => laidx
      end
  end.

(* rank_cnds as repaired by /repo 00915cc:
     let limit = in_laidx + TRY_PARSE_AT_MOST;
     if laidx < limit { laidx = lr_upto(None, laidx, limit, ..) }
     let laidx = laidx.min(limit);
   [d] = where lr_upto stops when it is called, [laidx] = where the candidate's own repairs ended *)
Definition cap_dist (d laidx limit : nat) : nat :=
  Nat.min (if (laidx <? limit)%nat then d else laidx) limit.

(* rank_cnds: apply the sequence, then parse on up to in_laidx + TRY_PARSE_AT_MOST, the distance
   capped there (the code as it is now) *)
Definition far (TRY : nat) (stk : vstack) (p : nat) (s : list repair) : nat :=
  match srun s stk p with
  | Some (stk', p') => cap_dist (parse_far (length input + 2) stk' p' (p + TRY)) p' (p + TRY)
  | None => O
  end.

(* the code as it was pinned: lr_upto called unconditionally (it stops at [endp] only when it meets
   it: a candidate whose repairs end beyond is parsed on without limit), the distance not capped *)
Definition far_orig (TRY : nat) (stk : vstack) (p : nat) (s : list repair) : nat :=
  match srun s stk p with
  | Some (stk', p') => parse_far (length input + 2) stk' p' (p + TRY)
  | None => O
  end.

Definition ranked_successes (TRY : nat) (sched : list N) (stk : vstack) (p : nat)
  : option (N * nat * list (list repair)) :=
  match min_successes sched stk p with
  | None => None
  | Some (m, l) =>
      let fm := list_max (map (far TRY stk p) l) in
      Some (m, fm, filter (fun s => Nat.eqb (far TRY stk p s) fm) l)
  end.

(* the reference as it was before the repair: the pinned (uncapped) comparison was built in *)
Definition ranked_successes_orig (TRY : nat) (sched : list N) (stk : vstack) (p : nat)
  : option (N * nat * list (list repair)) :=
  match min_successes sched stk p with
  | None => None
  | Some (m, l) =>
      let fm := list_max (map (far_orig TRY stk p) l) in
      Some (m, fm, filter (fun s => Nat.eqb (far_orig TRY stk p s) fm) l)
  end.

(* does some Shift of the sequence leave the state stack equal to the one before it?
   (the condition under which CPCTPlus::shift drops the neighbour, cpctplus.rs `n.pstack != n_pstack`) *)
Fixpoint shift_returns (s : list repair) (stk : vstack) (p : nat) : bool :=
  match s with
  | [] => false
  | m :: s' =>
      match sstep m stk p with
      | Some (stk', p') =>
          (is_shf m && listN_eqb (map fst stk) (map fst stk')) || shift_returns s' stk' p'
      | None => false
      end
  end.

End Ref.

(* ---- simplify_repairs -------------------------------------------------------------- *)
Definition inserts_avoided (avoid : list N) (s : list repair) : bool :=
  existsb (fun m => match m with Ins t => existsb (N.eqb t) avoid | _ => false end) s.

(* the comparison closure of sort_unstable_by, as "x may come before y" *)
Definition key_leb (avoid : list N) (x y : list repair) : bool :=
  match inserts_avoided avoid x, inserts_avoided avoid y with
  | true, false => false
  | false, true => true
  | _, _ => (length x <=? length y)%nat
  end.

Fixpoint insert_sorted (avoid : list N) (x : list repair) (l : list (list repair)) : list (list repair) :=
  match l with
  | [] => [x]
  | y :: l' => if key_leb avoid x y then x :: l else y :: insert_sorted avoid x l'
  end.
Fixpoint isort (avoid : list N) (l : list (list repair)) : list (list repair) :=
  match l with [] => [] | x :: l' => insert_sorted avoid x (isort avoid l') end.

(* strip trailing shifts, dedup (the HashSet), sort *)
Definition simplify (avoid : list N) (l : list (list repair)) : list (list repair) :=
  isort avoid (nodup seq_eq_dec (map strip l)).

Definition all_min_repairs (g : grammar) (A : automaton) (input : list N) (ifuel PN : nat) (costs : list N)
    (TRY : nat) (avoid : list N) (sched : list N) (stk : vstack) (p : nat)
  : option (N * nat * list (list repair)) :=
  match ranked_successes g A input ifuel PN costs TRY sched stk p with
  | None => None
  | Some (m, fm, l) => Some (m, fm, simplify avoid l)
  end.

Definition all_min_repairs_orig (g : grammar) (A : automaton) (input : list N) (ifuel PN : nat) (costs : list N)
    (TRY : nat) (avoid : list N) (sched : list N) (stk : vstack) (p : nat)
  : option (N * nat * list (list repair)) :=
  match ranked_successes_orig g A input ifuel PN costs TRY sched stk p with
  | None => None
  | Some (m, fm, l) => Some (m, fm, simplify avoid l)
  end.
