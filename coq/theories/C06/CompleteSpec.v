(* C06 — COMPLETENESS / MINIMALITY of the search mirror ([fixed = true]: the code as it is now): statements.
   Proved in C06/CompleteProofs.v (+ C06/CompleteIds.v, C06/CompleteRank.v), exported by Properties/C06.v.

   Together with the soundness half (C06/SearchSpec.v) these close the gap that C06/Refuted.v only STATED
   ([search_complete_stmt true]), under two explicit conditions that the statement there lacks and needs:
     * the minimum cost fits the cost type: the search skips every neighbour whose cost exceeds 65535
       (cpctplus.rs: `n.cf.checked_add(..)`), so a repair that costs more is never found
       ([search_complete_needs_cost_bound]: the statement of Refuted.v is FALSE without this);
     * every run of reductions ends within the reduction fuel of the model ((1 <= ifuel) and, for the part
       that needs soundness, reduce-confluence at that fuel, as in C06/SearchSpec.v). *)
From Coq Require Import List Arith NArith Bool Lia Sorted.
From GV Require Import Common.Outcome Base.Grammar LR.Automaton LR.Validator
  Repair.Semantics Repair.Spec Repair.Search Repair.Confluent
  C06.Model C06.Spec C06.Mirror C06.SearchSpec.
Import ListNotations.

(* the start configuration is not itself a success (at an error it never is: [error_not_success_stmt]) *)
Definition start_open (g : grammar) (A : automaton) (input : list N) (ifuel PN : nat) (stk : vstack) (p : nat) : Prop :=
  ~ success g A input ifuel PN stk p [].

(* 1. The Dijkstra invariant, at the level of the candidate nodes the search returns.  For EVERY table
      (no validation, no confluence), every cost function with positive costs, every fuel: if the run of
      the mirror returns at all (no panic, budget not exhausted) and [s] is a normal-form first success of
      the replay semantics whose cost fits u16, then the search returns at least one node, none of the
      returned nodes costs more than s, and if they cost the same, s is — move for move — one of the
      sequences `collect_repairs` unfolds from one of them.
      The reference may run at a larger reduction fuel [rf] than the search ([ifuel]): the code has no
      such fuel, a run of the mirror that returns has met no exhausted run of reductions, and the
      validated tables need the reference at "every sufficiently large fuel" (Repair/ConfluentSpec.v). *)
Definition dijkstra_complete_stmt : Prop :=
  forall g A input ifuel rf PN costs fuel stk p cnds s,
    costs_pos costs -> (1 <= ifuel)%nat -> (ifuel <= rf)%nat ->
    dijkstra true g A input ifuel PN costs fuel stk p = Done cnds ->
    first_success g A input rf PN stk p s -> s <> [] ->
    (scost g input costs s p <= u16max)%N ->
    cnds <> [] /\
    (forall n, In n cnds -> (n_cf n <= scost g input costs s p)%N) /\
    ((exists n, In n cnds /\ n_cf n = scost g input costs s p) ->
     exists n, In n cnds /\ In s (unfold (n_rep n))).

(* 2. MINIMALITY of what is reported ("no valid repair of lower cost exists"), again for every table: the
      search reports something, and nothing it reports costs more than ANY normal-form success of the
      replay semantics (of any shape, at any reduction fuel >= the search's) whose cost fits u16. *)
Definition reported_cost_minimal_stmt : Prop :=
  forall g A input ifuel rf PN costs TRY avoid fuel stk p out s,
    costs_pos costs -> (1 <= ifuel)%nat -> (ifuel <= rf)%nat ->
    start_open g A input rf PN stk p ->
    search_mirror true g A input ifuel PN costs TRY avoid fuel stk p = Done out ->
    nf g s -> success g A input rf PN stk p s ->
    (scost g input costs s p <= u16max)%N ->
    out <> [] /\ forall rs, In rs out -> (scost g input costs rs p <= scost g input costs s p)%N.

(* 3. … hence, with C06_reported_cost_ge_reference (which needs reduce-confluence), the reported cost IS
      the reference minimum *)
Definition reported_cost_eq_reference_stmt : Prop :=
  forall g A input ifuel PN costs TRY avoid sched fuel stk p out cmin fmax ref,
    costs_pos costs -> (1 <= PN)%nat -> (1 <= ifuel)%nat ->
    reduce_confluent g A ifuel -> no_shift_eof g A -> (p <= length input)%nat ->
    start_open g A input ifuel PN stk p ->
    search_mirror true g A input ifuel PN costs TRY avoid fuel stk p = Done out ->
    all_min_repairs g A input ifuel PN costs TRY avoid sched stk p = Some (cmin, fmax, ref) ->
    (cmin <= u16max)%N ->
    out <> [] /\ forall rs, In rs out -> scost g input costs rs p = cmin.

(* 4. COMPLETENESS of the candidate set: every minimum-cost first success of the reference is one of the
      sequences unfolded from the returned nodes (before rank_cnds filters them) *)
Definition candidates_complete_stmt : Prop :=
  forall g A input ifuel PN costs fuel stk p cnds s,
    costs_pos costs -> (1 <= ifuel)%nat ->
    reduce_confluent g A ifuel -> no_shift_eof g A -> (p <= length input)%nat ->
    dijkstra true g A input ifuel PN costs fuel stk p = Done cnds ->
    min_cost_success g A input ifuel PN costs stk p s -> s <> [] ->
    (scost g input costs s p <= u16max)%N ->
    exists n, In n cnds /\ In s (unfold (n_rep n)).

(* 5. THE SET: what the mirror reports is, as a set, what the verified reference reports.  This is
      [search_complete_stmt true] of C06/Refuted.v with the validators replaced by what they are used
      for (reduce-confluence at the model's reduction fuel, a start configuration that is not a success)
      and with the cost bound it lacks. *)
Definition search_complete_bounded_stmt : Prop :=
  forall g A input ifuel PN costs TRY avoid sched fuel stk p out cmin fmax ref,
    costs_pos costs -> (1 <= PN)%nat -> (1 <= ifuel)%nat ->
    reduce_confluent g A ifuel -> no_shift_eof g A -> (p <= length input)%nat ->
    start_open g A input ifuel PN stk p ->
    search_mirror true g A input ifuel PN costs TRY avoid fuel stk p = Done out ->
    all_min_repairs g A input ifuel PN costs TRY avoid sched stk p = Some (cmin, fmax, ref) ->
    (cmin <= u16max)%N ->
    forall rs, In rs out <-> In rs ref.

(* … and, the reference being exact (C06_reference_complete), in the words of the property: the reported
   sequences are exactly the (stripped) minimum-cost first successes that parse furthest *)
Definition search_reports_exactly_stmt : Prop :=
  forall g A input ifuel PN costs TRY avoid sched fuel stk p out cmin fmax ref,
    costs_pos costs -> (1 <= PN)%nat -> (1 <= ifuel)%nat ->
    reduce_confluent g A ifuel -> no_shift_eof g A -> (p <= length input)%nat ->
    start_open g A input ifuel PN stk p ->
    search_mirror true g A input ifuel PN costs TRY avoid fuel stk p = Done out ->
    all_min_repairs g A input ifuel PN costs TRY avoid sched stk p = Some (cmin, fmax, ref) ->
    (cmin <= u16max)%N ->
    (forall rs, In rs out <->
       exists s, rs = strip s /\ min_cost_success g A input ifuel PN costs stk p s /\
                 parses_furthest g A input ifuel PN costs TRY stk p s) /\
    (forall rs, In rs out -> scost g input costs rs p = cmin) /\
    (forall s, nf g s -> success g A input ifuel PN stk p s -> (cmin <= scost g input costs s p)%N).
