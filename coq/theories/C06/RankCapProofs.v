(* C06 — the look-ahead cap of the ranking: proofs of C06/RankCapSpec.v, and the witness against the pinned
   ranking.  Witness (the table of C06/Refuted.v; the cap is a parameter of the mirror, K = 4 here, the check
   runs K = 250 = TRY_PARSE_AT_MOST):  S: S 'a' B | B;  B: 'b' C | ;  C: 'c' | 'c' C;  input  b a a a a c a b c,
   cost(a) = cost(b) = 1, cost(c) = 4.  The error is at the first 'a' (lexeme 1).  Two repairs cost 4:
   [Insert c] (then a a a a are shifted: the parse stops at the 'c', lexeme 5 = 1 + K, exactly the cap) and
   [Delete x4] (its three trailing shifts end at lexeme 8, beyond the cap).  The pinned ranking parses the second
   on without limit (to lexeme 9), stops the first at 5, and drops [Insert c]; with one yardstick both are worth 5. *)
From Coq Require Import List Arith NArith Bool Lia.
From GV Require Import Common.Outcome Base.Grammar LR.Automaton LR.Validator
  Repair.Semantics Repair.Spec Repair.Proofs Repair.Search
  C06.Model C06.Spec C06.Proofs C06.RefProofs C06.Mirror C06.Refuted C06.RankCapSpec.
Import ListNotations.

(* ---- the yardstick --------------------------------------------------------------------------------------- *)
Lemma parse_below_within : parse_below_within_stmt.
Proof.
  intros g A input ifuel n. induction n as [|n IH]; intros stk q e; cbn [parse_below].
  - repeat split; intros; lia.
  - destruct (e <=? q)%nat eqn:E.
    + repeat split; intros; lia.
    + apply Nat.leb_gt in E.
      destruct (lr_upto1 g A input ifuel None stk q) as [x|x|x|x| |]; try (repeat split; intros; lia).
      destruct (IH x (S q) e) as (H1 & H2 & H3). repeat split; intros; lia.
Qed.

Lemma parse_far_below g A input ifuel : forall n stk q e, (q <= e)%nat ->
  parse_far g A input ifuel n stk q e = parse_below g A input ifuel n stk q e.
Proof.
  induction n as [|n IH]; intros stk q e H; cbn [parse_far parse_below]; [reflexivity|].
  destruct (Nat.eqb q e) eqn:E.
  - apply Nat.eqb_eq in E. subst q. rewrite Nat.leb_refl. reflexivity.
  - apply Nat.eqb_neq in E. replace (e <=? q)%nat with false by (symmetry; apply Nat.leb_gt; lia).
    destruct (lr_upto1 g A input ifuel None stk q); try reflexivity. apply IH. lia.
Qed.

Lemma cap_dist_is_capped_distance : cap_dist_is_capped_distance_stmt.
Proof.
  intros g A input ifuel stk q e. unfold cap_dist, dist_capped.
  destruct (q <? e)%nat eqn:E.
  - apply Nat.ltb_lt in E. rewrite parse_far_below by lia. reflexivity.
  - apply Nat.ltb_ge in E.
    rewrite (proj2 (proj2 (parse_below_within g A input ifuel (length input + 2) stk q e)) E). reflexivity.
Qed.

Lemma far_is_capped_distance : far_is_capped_distance_stmt.
Proof.
  intros g A input ifuel K stk p s stk' p' H. unfold far. rewrite H, cap_dist_is_capped_distance.
  split; [reflexivity|]. unfold dist_capped. apply Nat.le_min_r.
Qed.

(* ---- the repaired ranking ------------------------------------------------------------------------------ *)
Lemma rank_each_capped g A input ifuel K stk p : forall cnds ranked,
  rank_each g A input ifuel K stk p cnds = Done ranked ->
  Forall2 (fun seqs r => snd r = seqs /\
             exists s0 rest, seqs = s0 :: rest /\ capped_dist g A input ifuel K stk p s0 = Done (fst r))
          cnds ranked.
Proof.
  induction cnds as [|seqs cnds IH]; intros ranked H; cbn [rank_each] in H.
  - injection H as <-. constructor.
  - destruct seqs as [|s0 rest]; [discriminate|].
    destruct (apply_seq g A input ifuel s0 0 stk p None) as [[[stk' p'] fl]| |] eqn:Ea; try discriminate.
    destruct (rank_each g A input ifuel K stk p cnds) as [rk| |] eqn:Er; cbn [obind] in H; try discriminate.
    injection H as <-. constructor; [|apply IH; reflexivity].
    cbn [fst snd]. split; [reflexivity|]. exists s0, rest. split; [reflexivity|].
    unfold capped_dist. rewrite Ea, cap_dist_is_capped_distance. reflexivity.
Qed.

Lemma rank_keep_spec ranked seqs :
  In seqs (rank_keep ranked) <->
  exists d, In (d, seqs) ranked /\ forall r, In r ranked -> (fst r <= d)%nat.
Proof.
  unfold rank_keep. rewrite in_map_iff. split.
  - intros ((d & sq) & E & Hin). cbn [snd] in E. subst sq. apply filter_In in Hin. destruct Hin as (Hin & Hd).
    cbn [fst] in Hd. apply Nat.eqb_eq in Hd. exists d. split; [exact Hin|].
    intros r Hr. rewrite Hd. apply list_max_ge. apply in_map. exact Hr.
  - intros (d & Hin & Hmax). exists (d, seqs). split; [reflexivity|]. apply filter_In. split; [exact Hin|].
    cbn [fst]. apply Nat.eqb_eq. apply Nat.le_antisymm.
    + apply (list_max_ge (map fst ranked) d). apply (in_map fst _ _ Hin).
    + apply list_max_le. apply Forall_forall. intros x Hx. apply in_map_iff in Hx.
      destruct Hx as (r & <- & Hr). apply Hmax. exact Hr.
Qed.

Lemma rank_fixed_spec : rank_fixed_spec_stmt.
Proof.
  intros g A input ifuel K stk p cnds ranked H.
  pose proof (rank_each_capped g A input ifuel K stk p cnds ranked H) as HF.
  split; [exact HF|]. split; [|apply rank_keep_spec].
  intros r Hr. clear H. induction HF as [|seqs r0 cnds0 ranked0 (_ & s0 & rest & _ & Hc) _ IH]; [destruct Hr|].
  destruct Hr as [<-|Hr]; [|apply IH; exact Hr].
  unfold capped_dist in Hc. destruct (apply_seq g A input ifuel s0 0 stk p None) as [[[stk' p'] fl]| |]; try discriminate.
  injection Hc as <-. unfold dist_capped. apply Nat.le_min_r.
Qed.

Lemma search_mirror_keeps : search_mirror_keeps_stmt.
Proof.
  intros fixed g A input ifuel PN costs K avoid fuel stk p. unfold search_mirror.
  destruct (dijkstra fixed g A input ifuel PN costs fuel stk p) as [cnds| |]; cbn [obind]; try reflexivity.
  destruct cnds as [|n cnds]; [reflexivity|].
  destruct (rank_each g A input ifuel K stk p (map (fun n0 => unfold (n_rep n0)) (n :: cnds))) as [ranked| |];
    cbn [obind]; try reflexivity.
  unfold rank_keep. rewrite flat_map_concat_map. reflexivity.
Qed.

(* ---- the witness against the pinned ranking --------------------------------------------------------------- *)
Local Open Scope N_scope.
Definition k_input : list N := [1; 0; 0; 0; 0; 2; 0; 1; 2].      (* b a a a a c a b c *)
Definition k_costs : list N := [1; 1; 4; 1].
Definition k_sched : list N := [0; 1; 2; 3; 4].
Definition k_K : nat := 4.

Lemma k_costs_pos : costs_pos k_costs.
Proof.
  intros t. unfold tcost, k_costs.
  destruct (N.to_nat t) as [|[|[|[|[|n]]]]]; cbn [nth]; lia.
Qed.

Lemma k_first_error :
  run_recover w_g w_A k_input 100 3 10 [None] [] 0 = DDone None [mkErr 1 3 false false w_stk].
Proof. vm_compute. reflexivity. Qed.

Lemma k_search_pinned :
  search_mirror_orig true w_g w_A k_input 100 3 k_costs k_K [] 2000 w_stk 1 = Done [[Del; Del; Del; Del]].
Proof. vm_compute. reflexivity. Qed.

Lemma k_search_fixed :
  search_mirror true w_g w_A k_input 100 3 k_costs k_K [] 2000 w_stk 1 = Done [[Ins 2]; [Del; Del; Del; Del]].
Proof. vm_compute. reflexivity. Qed.

Lemma k_reference :
  all_min_repairs w_g w_A k_input 100 3 k_costs k_K [] k_sched w_stk 1 = Some (4, 5%nat, [[Ins 2]; [Del; Del; Del; Del]]).
Proof. vm_compute. reflexivity. Qed.

Lemma k_reference_orig :
  all_min_repairs_orig w_g w_A k_input 100 3 k_costs k_K [] k_sched w_stk 1 = Some (4, 9%nat, [[Del; Del; Del; Del]]).
Proof. vm_compute. reflexivity. Qed.

(* the two candidates and what each ranking makes of them: the deleting one ends at lexeme 8 > 1 + 4 *)
Definition k_cnds : list (list (list repair)) := [[[Ins 2; Shf; Shf; Shf]]; [[Del; Del; Del; Del; Shf; Shf; Shf]]].
Lemma k_rank_orig :
  rank_each_orig w_g w_A k_input 100 k_K w_stk 1 k_cnds =
  Done [(5%nat, [[Ins 2; Shf; Shf; Shf]]); (9%nat, [[Del; Del; Del; Del; Shf; Shf; Shf]])].
Proof. vm_compute. reflexivity. Qed.
Lemma k_rank_fixed :
  rank_each w_g w_A k_input 100 k_K w_stk 1 k_cnds =
  Done [(5%nat, [[Ins 2; Shf; Shf; Shf]]); (5%nat, [[Del; Del; Del; Del; Shf; Shf; Shf]])].
Proof. vm_compute. reflexivity. Qed.

(* both are repairs in the sense of C05; [Delete x4] makes b c a b c, a sentence *)
Lemma k_both_valid :
  valid_repair w_g w_A k_input 100 3 w_stk 1 [Ins 2] = true /\
  valid_repair w_g w_A k_input 100 3 w_stk 1 [Del; Del; Del; Del] = true /\
  scost w_g k_input k_costs [Ins 2] 1 = 4 /\ scost w_g k_input k_costs [Del; Del; Del; Del] 1 = 4.
Proof. vm_compute. repeat split. Qed.

Lemma rank_cap_refuted_orig : rank_cap_refuted_orig_stmt.
Proof.
  destruct w_validated as (H1 & H2 & H3 & H4 & H5 & H6).
  exists w_g, w_A, k_input, 100%nat, 10%nat, 3%nat, k_costs, k_K, [], 2000%nat, (mkErr 1 3 false false w_stk),
    [[Del; Del; Del; Del]], [Ins 2].
  repeat (split; [assumption|]).
  split; [exact (dump_no_shift_eof_ok w_g w_d H6)|]. split; [exact k_costs_pos|]. split; [lia|].
  split; [exact k_first_error|]. cbn [e_stk e_pos]. split; [exact k_search_pinned|].
  split.
  - destruct (RefProofs.reference_complete w_g w_A k_input 100%nat 3%nat k_costs k_K [] k_sched w_stk 1%nat
                4 5%nat [[Ins 2]; [Del; Del; Del; Del]] k_costs_pos ltac:(lia) k_reference) as (Hin & _).
    apply Hin. left. reflexivity.
  - split; [intros [E|[]]; discriminate|].
    exists k_cnds. eexists. split; [exact k_rank_orig|].
    exists (9%nat, [[Del; Del; Del; Del; Shf; Shf; Shf]]). split; [right; left; reflexivity|].
    cbn [fst]. unfold k_K. lia.
Qed.

Lemma reference_orig_uncapped : reference_orig_uncapped_stmt.
Proof.
  exists w_g, w_A, k_input, 100%nat, 3%nat, k_costs, k_K, [], k_sched, 2000%nat, w_stk, 1%nat, 4, 9%nat,
    [[Del; Del; Del; Del]], [[Del; Del; Del; Del]].
  split; [exact k_reference_orig|]. split; [exact k_search_pinned|]. split; [reflexivity|].
  split; [unfold k_K; lia|].
  exists [[Ins 2]; [Del; Del; Del; Del]]. split; [exact k_reference|]. split; [exact k_search_fixed|].
  exists [Ins 2]. split; [left; reflexivity|]. intros [E|[]]; discriminate.
Qed.

(* non-vacuity of rank_fixed_spec on the witness: its hypothesis holds for the two candidates, and its conclusion
   says both are kept, each worth 5 = 1 + K *)
Example k_rank_fixed_spec_instance :
  forall seqs, In seqs (rank_keep [(5%nat, [[Ins 2; Shf; Shf; Shf]]); (5%nat, [[Del; Del; Del; Del; Shf; Shf; Shf]])])
               <-> In seqs k_cnds.
Proof.
  intros seqs. destruct (rank_fixed_spec w_g w_A k_input 100%nat k_K w_stk 1%nat k_cnds _ k_rank_fixed) as (_ & _ & Hk).
  rewrite Hk. split.
  - intros (d & [E|[E|[]]] & _); injection E as _ <-; [left|right; left]; reflexivity.
  - intros [<-|[<-|[]]]; exists 5%nat; (split; [cbn; tauto|]); intros r [<-|[<-|[]]]; cbn [fst]; lia.
Qed.

(* the hypothesis of far_is_capped_distance is satisfiable; the pinned distance of the same sequence is beyond the cap *)
Example k_far_instance :
  far w_g w_A k_input 100 k_K w_stk 1 [Del; Del; Del; Del; Shf; Shf; Shf] = 5%nat /\
  far_orig w_g w_A k_input 100 k_K w_stk 1 [Del; Del; Del; Del; Shf; Shf; Shf] = 9%nat /\
  srun w_g w_A k_input 100 [Del; Del; Del; Del; Shf; Shf; Shf] w_stk 1 <> None.
Proof. vm_compute. repeat split. discriminate. Qed.
