(* C06 — declarative definitions and statements.  Proved in C06/Proofs.v (the
   statements named …_stmt).  The universal claim about the SEARCH, [search_complete_stmt], needs
   the mirror of the search (C06/Mirror.v) and lives in C06/Refuted.v (refuted there for the code as
   pinned); for the code as it is now it is proved, with the cost bound it needs, in C06/Complete*.v. *)
From Coq Require Import List Arith NArith Bool Lia Sorted.
From GV Require Import Common.Outcome Base.Grammar LR.Automaton Repair.Semantics Repair.Spec Repair.Search C06.Model.
Import ListNotations.

(* every token costs at least 1 (lrpar/src/lib/parser.rs refuses a zero cost) *)
Definition costs_pos (costs : list N) : Prop := forall t, (1 <= tcost costs t)%N.

(* documented normal form: never Insert directly after Delete, never insert the
   end-of-input token, only tokens of the grammar *)
Fixpoint nf_from (g : grammar) (ld : bool) (s : list repair) : bool :=
  match s with
  | [] => true
  | m :: s' => allowed g ld m && nf_from g (is_del m) s'
  end.
Definition nf (g : grammar) (s : list repair) : Prop := nf_from g false s = true.

(* number of Shift moves at the end of a sequence *)
Fixpoint lead_shf (l : list repair) : nat :=
  match l with Shf :: l' => S (lead_shf l') | _ => O end.
Definition trail_shf (s : list repair) : nat := lead_shf (rev s).

Section Spec.
Variable g : grammar.
Variable A : automaton.
Variable input : list N.
Variable ifuel : nat.
Variable PN : nat.
Variable costs : list N.

(* the search's success test on a whole sequence and the configuration it reaches *)
Definition succ_end (s : list repair) (stk' : vstack) (p' : nat) : bool :=
  ends_with_shifts PN s || is_acc (lr_upto1 g A input ifuel None stk' p').

(* [s] is a repair found from (stk, p): every move does what it says, and the result passes
   the success test *)
Definition success (stk : vstack) (p : nat) (s : list repair) : Prop :=
  exists stk' p', srun g A input ifuel s stk p = Some (stk', p') /\ succ_end s stk' p' = true.

(* … and no proper prefix already is one (the search does not expand success nodes) *)
Definition first_success (stk : vstack) (p : nat) (s : list repair) : Prop :=
  nf g s /\ success stk p s /\ forall s1 s2, s = s1 ++ s2 -> s2 <> [] -> ~ success stk p s1.

(* the same, threaded along the sequence (what the enumeration follows) *)
Fixpoint first_succ (s : list repair) (stk : vstack) (p : nat) (k : nat) (ld : bool) : Prop :=
  match s with
  | [] => done_at g A input ifuel PN k stk p = true
  | m :: s' =>
      done_at g A input ifuel PN k stk p = false /\ allowed g ld m = true /\
      exists stk' p', sstep g A input ifuel m stk p = Some (stk', p') /\
                      first_succ s' stk' p' (next_k k m) (is_del m)
  end.

Definition min_cost_success (stk : vstack) (p : nat) (s : list repair) : Prop :=
  first_success stk p s /\
  forall s', first_success stk p s' -> (scost g input costs s p <= scost g input costs s' p)%N.

(* "lets parsing continue as far as the best of them": [far] is the distance capped at p + TRY, the look-ahead
   of the ranking (RankCapSpec.far_is_capped_distance_stmt) *)
Definition parses_furthest (TRY : nat) (stk : vstack) (p : nat) (s : list repair) : Prop :=
  forall s', min_cost_success stk p s' ->
             (far g A input ifuel TRY stk p s' <= far g A input ifuel TRY stk p s)%nat.

End Spec.

(* ---- statements ------------------------------------------------------------------------ *)

(* the strict sequence semantics is apply_repairs with every step doing what it says *)
Definition srun_is_apply_seq_stmt : Prop :=
  forall g A input ifuel s i stk p stk' p',
    srun g A input ifuel s stk p = Some (stk', p') <->
    apply_seq g A input ifuel s i stk p None = Done (stk', p', None).

(* the threaded and the global reading of "first success" coincide *)
Definition first_succ_global_stmt : Prop :=
  forall g A input ifuel PN s stk p,
    first_succ g A input ifuel PN s stk p 0 false <-> first_success g A input ifuel PN stk p s.

(* the enumeration is exact for its bounds: every normal-form first success of cost <= c and
   length <= d is enumerated, and nothing else *)
Definition enum_exact_stmt : Prop :=
  forall g A input ifuel PN costs d c s stk p k ld,
    In s (enum g A input ifuel PN costs d c stk p k ld) <->
    first_succ g A input ifuel PN s stk p k ld /\ (scost g input costs s p <= c)%N /\ (length s <= d)%nat.

(* reference_terminates: no arbitrary length bound is needed *)
Definition first_success_length_stmt : Prop :=
  forall g A input ifuel PN costs s stk p,
    costs_pos costs -> (1 <= PN)%nat ->
    first_succ g A input ifuel PN s stk p 0 false ->
    (length s <= (N.to_nat (scost g input costs s p) + 1) * PN)%nat.

Definition cands_exact_stmt : Prop :=
  forall g A input ifuel PN costs c s stk p,
    costs_pos costs -> (1 <= PN)%nat ->
    (In s (cands g A input ifuel PN costs c stk p) <->
     first_success g A input ifuel PN stk p s /\ (scost g input costs s p <= c)%N).

(* every success (of any shape: a success prefix may have been extended) has a first-success
   prefix that costs no more; if it costs the same, both are reported as the same sequence *)
Definition success_has_first_prefix_stmt : Prop :=
  forall g A input ifuel PN costs s stk p,
    costs_pos costs ->
    nf g s -> success g A input ifuel PN stk p s ->
    exists s1 s2, s = s1 ++ s2 /\ first_success g A input ifuel PN stk p s1 /\
      (scost g input costs s1 p <= scost g input costs s p)%N /\
      (scost g input costs s1 p = scost g input costs s p -> strip s = strip s1).

(* reference_complete.  [all_min_repairs] = Some (cmin, fmax, out):
   cmin is the least cost of any normal-form success, out is exactly the set of (stripped)
   minimum-cost first successes that parse furthest.  None: no success within the schedule. *)
Definition reference_complete_stmt : Prop :=
  forall g A input ifuel PN costs TRY avoid sched stk p cmin fmax out,
    costs_pos costs -> (1 <= PN)%nat ->
    all_min_repairs g A input ifuel PN costs TRY avoid sched stk p = Some (cmin, fmax, out) ->
    (* membership *)
    (forall rs, In rs out <->
       exists s, rs = strip s /\ min_cost_success g A input ifuel PN costs stk p s /\
                 parses_furthest g A input ifuel PN costs TRY stk p s) /\
    (* soundness: same cost, a success *)
    (forall s, min_cost_success g A input ifuel PN costs stk p s -> scost g input costs s p = cmin) /\
    (* minimality over ALL normal-form successes *)
    (forall s, nf g s -> success g A input ifuel PN stk p s -> (cmin <= scost g input costs s p)%N) /\
    (* the rank *)
    (forall s, min_cost_success g A input ifuel PN costs stk p s ->
               parses_furthest g A input ifuel PN costs TRY stk p s <-> far g A input ifuel TRY stk p s = fmax) /\
    out <> [].

Definition reference_none_stmt : Prop :=
  forall g A input ifuel PN costs TRY avoid sched stk p,
    costs_pos costs -> (1 <= PN)%nat ->
    all_min_repairs g A input ifuel PN costs TRY avoid sched stk p = None ->
    forall c s, In c sched -> nf g s -> success g A input ifuel PN stk p s -> (c < scost g input costs s p)%N.

(* Delete;Insert and Insert;Delete: same stack, same position, same cost — the normal form
   loses no cheaper repair *)
Definition del_ins_commute_cost_stmt : Prop :=
  forall g A input ifuel costs t stk p stk1 p1 stk2 p2,
    srun g A input ifuel [Del; Ins t] stk p = Some (stk1, p1) ->
    srun g A input ifuel [Ins t; Del] stk p = Some (stk2, p2) ->
    map fst stk1 = map fst stk2 /\ p1 = p2 /\
    scost g input costs [Del; Ins t] p = scost g input costs [Ins t; Del] p.
(* … and one is applicable iff the other is *)
Definition del_ins_both_stmt : Prop :=
  forall g A input ifuel t stk p,
    (srun g A input ifuel [Del; Ins t] stk p <> None <-> srun g A input ifuel [Ins t; Del] stk p <> None).

(* simplify_repairs (on sequences of one cost that never insert the end-of-input token) *)
Definition ends_in_shf (s : list repair) : bool := match rev s with Shf :: _ => true | _ => false end.
Definition inserts_tok (e : N) (s : list repair) : bool :=
  existsb (fun m => match m with Ins t => N.eqb t e | _ => false end) s.

Definition simplify_postconditions_stmt : Prop :=
  forall g input costs avoid l p c,
    Forall (fun s => scost g input costs s p = c /\ inserts_tok (eof g) s = false) l ->
    let out := simplify avoid l in
    NoDup out /\
    Forall (fun s => ends_in_shf s = false) out /\
    StronglySorted (fun x y => key_leb avoid x y = true) out /\
    Forall (fun s => inserts_tok (eof g) s = false) out /\
    Forall (fun s => scost g input costs s p = c) out /\
    (forall rs, In rs out <-> exists s, In s l /\ rs = strip s).

(* what the check tests on the implementation's list is what the sort establishes *)
Definition sorted_means_stmt : Prop :=
  forall avoid out, StronglySorted (fun x y => key_leb avoid x y = true) out ->
    forall i j d, (i < j < length out)%nat ->
      let x := nth i out d in let y := nth j out d in
      (inserts_avoided avoid x = true -> inserts_avoided avoid y = true) /\
      (inserts_avoided avoid x = inserts_avoided avoid y -> (length x <= length y)%nat).

(* the reference's output has the documented form *)
Definition reference_form_stmt : Prop :=
  forall g A input ifuel PN costs TRY avoid sched stk p cmin fmax out,
    all_min_repairs g A input ifuel PN costs TRY avoid sched stk p = Some (cmin, fmax, out) ->
    NoDup out /\
    Forall (fun s => ends_in_shf s = false) out /\
    StronglySorted (fun x y => key_leb avoid x y = true) out /\
    Forall (fun s => inserts_tok (eof g) s = false) out /\
    Forall (fun s => scost g input costs s p = cmin) out.
