(* C06 — mirror of the CPCT+ search as the code runs it: dijkstra (lrpar/src/lib/dijkstra.rs:
   cost buckets as IndexMaps popped from the end, first success fixes the cost, same-cost sweep
   with explore_all = false), CPCTPlus::{insert, delete, shift}, node compatibility (PartialEq of
   PathFNode) and merge, collect_repairs/traverse, rank_cnds, simplify_repairs
   (lrpar/src/lib/cpctplus.rs).  Executable definitions only.

   [fixed = true] is the code as it is now (/repo cf71a95): `shift` keeps its neighbour
   `if n.pstack != n_pstack || new_laidx > laidx`.  [fixed = false] is the code as it was pinned:
   only `if n.pstack != n_pstack` (refuted in C06/Refuted.v).
   Fuel stands for the time budget (one unit per node popped); u16 cost arithmetic is explicit
   (a neighbour whose cost exceeds 65535 is skipped, the search ends when the cost counter would). *)
From Coq Require Import List Arith NArith Bool Lia.
From GV Require Import Common.Outcome Base.Grammar LR.Automaton Repair.Semantics Repair.Search C06.Model.
Import ListNotations.

(* Cactus<RepairMerge>: a node and its parent chain; Merge carries the alternative chains
   (newest first, as Cactus::vals() yields them) *)
(* every node carries the identity of its allocation ([id], a counter threaded through the search):
   Cactus::eq returns true at once on pointer-equal nodes, which is what keeps comparing merged
   chains (they share most of their structure) affordable; ids are equal only for the same node,
   so the result is the structural equality *)
Inductive rtree :=
| RTerm
| RRep (id : N) (r : repair) (parent : rtree)
| RMrg (id : N) (r : repair) (alts : list rtree) (parent : rtree).

Definition repair_eqb (a b : repair) : bool :=
  match a, b with
  | Ins x, Ins y => N.eqb x y
  | Del, Del => true
  | Shf, Shf => true
  | _, _ => false
  end.

(* PartialEq of Cactus<RepairMerge>: structural, with the RefCnt::ptr_eq shortcut *)
Fixpoint rtree_eqb (a b : rtree) : bool :=
  match a, b with
  | RTerm, RTerm => true
  | RRep i r pa, RRep j s pb => N.eqb i j || (repair_eqb r s && rtree_eqb pa pb)
  | RMrg i r al pa, RMrg j s bl pb =>
      N.eqb i j ||
      (repair_eqb r s &&
       (fix go (x y : list rtree) : bool :=
          match x, y with
          | [], [] => true
          | a1 :: x', b1 :: y' => rtree_eqb a1 b1 && go x' y'
          | _, _ => false
          end) al bl &&
       rtree_eqb pa pb)
  | _, _ => false
  end.

Definition last_repair (t : rtree) : option repair :=
  match t with RTerm => None | RRep _ r _ => Some r | RMrg _ r _ _ => Some r end.

(* num_shifts in PathFNode::eq *)
Fixpoint rt_shifts (t : rtree) : nat :=
  match t with
  | RRep _ Shf pa => S (rt_shifts pa)
  | RMrg _ Shf _ pa => S (rt_shifts pa)
  | _ => O
  end.

(* ends_with_parse_at_least_shifts: the first PN values of the chain are all shifts *)
Fixpoint rt_ends (n : nat) (t : rtree) : bool :=
  match n with
  | O => true
  | S n' => match t with
            | RRep _ Shf pa => rt_ends n' pa
            | RMrg _ Shf _ pa => rt_ends n' pa
            | _ => false
            end
  end.

(* collect_repairs / traverse *)
Fixpoint unfold (t : rtree) : list (list repair) :=
  match t with
  | RTerm => []
  | RRep _ r pa =>
      match unfold pa with
      | [] => [[r]]
      | ps => map (fun pc => pc ++ [r]) ps
      end
  | RMrg _ r alts pa =>
      (match unfold pa with
       | [] => [[r]]
       | ps => map (fun pc => pc ++ [r]) ps
       end) ++
      (fix go (l : list rtree) : list (list repair) :=
         match l with [] => [] | a :: l' => unfold a ++ go l' end) alts
  end.

Record node := mkNode { n_stk : vstack; n_la : nat; n_rep : rtree; n_cf : N }.

(* PathFNode::eq (the IndexMap key equality) *)
Definition key_eqb (a b : node) : bool :=
  Nat.eqb (n_la a) (n_la b) &&
  listN_eqb (map fst (n_stk a)) (map fst (n_stk b)) &&
  match last_repair (n_rep a), last_repair (n_rep b) with
  | Some Del, Some Del => true
  | Some Del, _ => false
  | _, Some Del => false
  | _, _ => true
  end &&
  Nat.eqb (rt_shifts (n_rep a)) (rt_shifts (n_rep b)).

(* the merge closure *)
Definition merge_node (old new : node) (ctr : N) : node * N :=
  if rtree_eqb (n_rep old) (n_rep new) then (old, ctr) else
  match n_rep old with
  | RRep _ r pa => (mkNode (n_stk old) (n_la old) (RMrg ctr r [n_rep new] pa) (n_cf old), (ctr + 1)%N)
  | RMrg _ r v pa => (mkNode (n_stk old) (n_la old) (RMrg ctr r (n_rep new :: v) pa) (n_cf old), (ctr + 1)%N)
  | RTerm => (old, ctr)                        (* unreachable!() *)
  end.

(* a bucket: most recently inserted first (IndexMap::pop takes the last) *)
Fixpoint find_merge (nbr : node) (l : list node) (ctr : N) : option (list node * N) :=
  match l with
  | [] => None
  | x :: r => if key_eqb x nbr then (let (m, c') := merge_node x nbr ctr in Some (m :: r, c'))
              else match find_merge nbr r ctr with Some (r', c') => Some (x :: r', c') | None => None end
  end.
Definition upsert (nbr : node) (l : list node) (ctr : N) : list node * N :=
  match find_merge nbr l ctr with Some lc => lc | None => (nbr :: l, ctr) end.

Definition buckets := list (N * list node).
Definition bget (b : buckets) (c : N) : list node :=
  match assocN c b with Some l => l | None => [] end.
Fixpoint bset (b : buckets) (c : N) (l : list node) : buckets :=
  match b with
  | [] => [(c, l)]
  | (c', l') :: r => if N.eqb c c' then (c, l) :: r else (c', l') :: bset r c l
  end.

Definition u16max : N := 65535%N.

Section Mirror.
Variable fixed : bool.
Variable g : grammar.
Variable A : automaton.
Variable input : list N.
Variable ifuel : nat.
Variable PN : nat.
Variable costs : list N.

Definition is_err (a : act) : bool := match a with Err => true | _ => false end.
(* StateTable::state_actions: tokens with a non-empty action, ascending *)
Definition state_actions (s : N) : list N := filter (fun t => negb (is_err (action A s t))) (tidxs g).

Definition same_states (a b : vstack) : bool := listN_eqb (map fst a) (map fst b).

(* n.cf.checked_add(cost): None when the u16 cost would overflow (the neighbour is skipped) *)
Definition add_cost (cf c : N) : option N :=
  if (u16max <? cf + c)%N then None else Some (cf + c)%N.

(* each neighbour allocates one repair node: [ctr] = the next free identity *)
Fixpoint nb_insert (n : node) (toks : list N) (ctr : N) : outcome (list (N * node) * N) :=
  match toks with
  | [] => Done ([], ctr)
  | t :: ts =>
      if N.eqb t (eof g) then nb_insert n ts ctr else
      match lr_cactus1 g A input ifuel (Some t) (n_stk n) (n_la n) with
      | AShift stk' =>
          match add_cost (n_cf n) (tcost costs t) with
          | None => nb_insert n ts ctr
          | Some cf =>
              do rc <- nb_insert n ts (ctr + 1)%N;
              Done ((cf, mkNode stk' (n_la n) (RRep ctr (Ins t) (n_rep n)) cf) :: fst rc, snd rc)
          end
      | APanic => Panic
      | AFuel => OutOfFuel
      | _ => nb_insert n ts ctr
      end
  end.

Definition nb_delete (n : node) (ctr : N) : outcome (list (N * node) * N) :=
  if Nat.eqb (n_la n) (length input) then Done ([], ctr) else
  match add_cost (n_cf n) (tcost costs (la g input (n_la n))) with
  | None => Done ([], ctr)
  | Some cf => Done ([(cf, mkNode (n_stk n) (S (n_la n)) (RRep ctr Del (n_rep n)) cf)], (ctr + 1)%N)
  end.

Definition nb_shift (n : node) (ctr : N) : outcome (list (N * node) * N) :=
  match lr_cactus1 g A input ifuel None (n_stk n) (n_la n) with
  | AShift stk' =>
      if fixed || negb (same_states (n_stk n) stk')
      then Done ([(n_cf n, mkNode stk' (S (n_la n)) (RRep ctr Shf (n_rep n)) (n_cf n))], (ctr + 1)%N)
      else Done ([], ctr)
  | AAccept stk' | AError stk' =>
      if negb (same_states (n_stk n) stk')
      then Done ([(n_cf n, mkNode stk' (n_la n) (n_rep n) (n_cf n))], ctr)
      else Done ([], ctr)
  | APast _ => Done ([], ctr)
  | APanic => Panic
  | AFuel => OutOfFuel
  end.

Definition neighbours (explore_all : bool) (n : node) (ctr : N) : outcome (list (N * node) * N) :=
  do ins <- match last_repair (n_rep n) with
            | Some Del => Done ([], ctr)
            | _ => if explore_all then nb_insert n (state_actions (vtop A (n_stk n))) ctr else Done ([], ctr)
            end;
  do del <- (if explore_all then nb_delete n (snd ins) else Done ([], snd ins));
  do shf <- nb_shift n (snd del);
  Done (fst ins ++ fst del ++ fst shf, snd shf).

Definition node_success (n : node) : bool :=
  rt_ends PN (n_rep n) ||
  match action A (vtop A (n_stk n)) (la g input (n_la n)) with Accept => true | _ => false end.

(* the same-cost sweep *)
Fixpoint phase2 (fuel : nat) (bucket : list node) (c : N) (acc : list node) (ctr : N) : outcome (list node) :=
  match fuel with
  | O => OutOfFuel
  | S f =>
      match bucket with
      | [] => Done (rev acc)
      | n :: rest =>
          if node_success n then phase2 f rest c (n :: acc) ctr else
          do nbrs <- neighbours false n ctr;
          let st := fold_left (fun (s : list node * N) cn =>
                                 if N.eqb (fst cn) c then upsert (snd cn) (fst s) (snd s) else s)
                              (fst nbrs) (rest, snd nbrs) in
          phase2 f (fst st) c acc (snd st)
      end
  end.

(* the main loop; [tlen] = todo.len() *)
Fixpoint phase1 (fuel : nat) (todo : buckets) (tlen : N) (c : N) (ctr : N) : outcome (list node) :=
  match fuel with
  | O => OutOfFuel
  | S f =>
      match bget todo c with
      | [] =>
          if (u16max <=? c)%N then Done [] else          (* c.checked_add(1) is None *)
          if N.eqb (c + 1) tlen then Done [] else phase1 f todo tlen (c + 1)%N ctr
      | n :: rest =>
          let todo1 := bset todo c rest in
          if node_success n then phase2 f rest c [n] ctr else
          do nbrs <- neighbours true n ctr;
          let st := fold_left (fun (s : buckets * N * N) cn =>
                                 let '(td, tl, k) := s in
                                 let (b', k') := upsert (snd cn) (bget td (fst cn)) k in
                                 (bset td (fst cn) b', (tl + fst cn + 1)%N, k'))
                              (fst nbrs) (todo1, tlen, snd nbrs) in
          phase1 f (fst (fst st)) (snd (fst st)) c (snd st)
      end
  end.

Definition dijkstra (fuel : nat) (stk : vstack) (p : nat) : outcome (list node) :=
  phase1 fuel [(0%N, [mkNode stk p RTerm 0%N])] 1%N 0%N 1%N.

(* rank_cnds: rpr_seqs[0] of every candidate is applied (apply_repairs, failures ignored), then
   plain parsing up to limit = in_laidx + TRY_PARSE_AT_MOST — only if the candidate's own repairs ended
   before the limit — and the distance is min(laidx, limit) (/repo 00915cc; Model.cap_dist); only the
   furthest survive.  [rank_each_orig] / [search_mirror_orig] below: the code as it was pinned. *)
Fixpoint rank_each (TRY : nat) (stk : vstack) (p : nat) (cnds : list (list (list repair)))
  : outcome (list (nat * list (list repair))) :=
  match cnds with
  | [] => Done []
  | seqs :: r =>
      match seqs with
      | [] => Panic                                   (* &rpr_seqs[0] *)
      | s0 :: _ =>
          match apply_seq g A input ifuel s0 0 stk p None with
          | Done (stk', p', _) =>
              do rest <- rank_each TRY stk p r;
              Done ((cap_dist (parse_far g A input ifuel (length input + 2) stk' p' (p + TRY)) p' (p + TRY), seqs) :: rest)
          | Panic => Panic
          | OutOfFuel => OutOfFuel
          end
      end
  end.

Definition search_mirror (TRY : nat) (avoid : list N) (fuel : nat) (stk : vstack) (p : nat)
  : outcome (list (list repair)) :=
  do cnds <- dijkstra fuel stk p;
  match cnds with
  | [] => Done []
  | _ =>
      do ranked <- rank_each TRY stk p (map (fun n => unfold (n_rep n)) cnds);
      let furthest := list_max (map fst ranked) in
      let kept := flat_map snd (filter (fun x => Nat.eqb (fst x) furthest) ranked) in
      Done (simplify avoid kept)
  end.

(* the ranking as it was pinned: `laidx = lr_upto(None, laidx, in_laidx + TRY_PARSE_AT_MOST, ..)` for every
   candidate, `while laidx != end_laidx && ..`: no stop for a candidate that starts beyond the limit *)
Fixpoint rank_each_orig (TRY : nat) (stk : vstack) (p : nat) (cnds : list (list (list repair)))
  : outcome (list (nat * list (list repair))) :=
  match cnds with
  | [] => Done []
  | seqs :: r =>
      match seqs with
      | [] => Panic
      | s0 :: _ =>
          match apply_seq g A input ifuel s0 0 stk p None with
          | Done (stk', p', _) =>
              do rest <- rank_each_orig TRY stk p r;
              Done ((parse_far g A input ifuel (length input + 2) stk' p' (p + TRY), seqs) :: rest)
          | Panic => Panic
          | OutOfFuel => OutOfFuel
          end
      end
  end.

(* what survives the rank filter *)
Definition rank_keep (ranked : list (nat * list (list repair))) : list (list (list repair)) :=
  map snd (filter (fun x => Nat.eqb (fst x) (list_max (map fst ranked))) ranked).

Definition search_mirror_orig (TRY : nat) (avoid : list N) (fuel : nat) (stk : vstack) (p : nat)
  : outcome (list (list repair)) :=
  do cnds <- dijkstra fuel stk p;
  match cnds with
  | [] => Done []
  | _ =>
      do ranked <- rank_each_orig TRY stk p (map (fun n => unfold (n_rep n)) cnds);
      let furthest := list_max (map fst ranked) in
      let kept := flat_map snd (filter (fun x => Nat.eqb (fst x) furthest) ranked) in
      Done (simplify avoid kept)
  end.

End Mirror.
