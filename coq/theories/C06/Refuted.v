(* C06 — the universal claim about the search ("the bucketed search with merging returns
   exactly the reference set"), STATED here ([search_complete_stmt true] = the code as it is now),
   and its refutation for the code as it was pinned
   (cpctplus.rs, CPCTPlus::shift: `if n.pstack != n_pstack`; repaired by /repo cf71a95).
   [search_complete_stmt true] is decided in C06/Complete*.v: exactly as stated below it is FALSE (the
   search skips neighbours whose cost exceeds u16::MAX: CompleteExamples.search_complete_needs_cost_bound);
   with the bound `cmin <= 65535` it is PROVED (CompleteSpec.search_complete_bounded_stmt,
   CompleteValidated.search_complete_at_error_stmt, CompleteValidatedRank.validated_search_complete_stmt).

   Witness (DESIGN §9):  S: S 'a' B | B;  B: 'b' C | ;  C: 'c' | 'c' C;   input  b a a.
   The error is at the first 'a'.  `Insert c` (cost 1) repairs it: b c a a is a sentence.
   The search drops the node [Insert c, Shift a, Shift a]: shifting the second 'a' reduces
   B: (empty) and S: S 'a' B and shifts 'a', which returns the stack to the value it had before, so
   `n.pstack != n_pstack` is false although a lexeme was consumed.  It therefore never sees the
   cost-1 success and reports the cost-2 sequences [Insert c, Delete] and [Insert c, Shift, Delete]. *)
From Coq Require Import List Arith NArith Bool Lia.
From GV Require Import Common.Outcome Base.Grammar LR.Automaton LR.Validator
  Repair.Semantics Repair.Spec Repair.Proofs Repair.Search C06.Model C06.Spec C06.Proofs C06.RefProofs C06.Mirror.
Import ListNotations.

(* [fixed = false]: the code as pinned; [fixed = true]: with the repair of `shift` (the code now).
   For every validated conflict-free table and the configuration of the first error of an input:
   whatever the search returns (no panic, budget not exhausted) is, as a set, the reference. *)
Definition search_complete_stmt (fixed : bool) : Prop :=
  forall g A input ifuel ofuel PN costs TRY avoid sched fuel e cmin fmax ref out,
    wf_grammar g = true -> validS g A = true -> validC g A = true -> validE g A = true ->
    single_candidate g A = true -> no_shift_eof g A ->
    costs_pos costs -> (1 <= PN)%nat ->
    run_recover g A input ifuel PN ofuel [None] [] 0 = DDone None [e] ->
    search_mirror fixed g A input ifuel PN costs TRY avoid fuel (e_stk e) (e_pos e) = Done out ->
    all_min_repairs g A input ifuel PN costs TRY avoid sched (e_stk e) (e_pos e) = Some (cmin, fmax, ref) ->
    forall rs, In rs out <-> In rs ref.

Local Open Scope N_scope.
(* tokens 0='a' 1='b' 2='c' eof=3; rules 0=^ 1=S 2=B 3=C;
   productions 0: S->S a B  1: S->B  2: B->b C  3: B->  4: C->c  5: C->c C  6: ^->S
   (dumped from the implementation by the `repair` harness) *)
Definition w_g : grammar :=
  mkGrammar 4 4 [(1, [R 1; T 0; R 2]); (1, [R 2]); (2, [T 1; R 3]); (2, []); (3, [T 2]); (3, [T 2; R 3]); (0, [R 1])] 6 3.
Definition w_d : dump := mkDump 9 0
  [(0, [((0, 0%nat), [0; 3]); ((1, 0%nat), [0; 3]); ((2, 0%nat), [0; 3]); ((3, 0%nat), [0; 3]); ((6, 0%nat), [3])]);
   (1, [((0, 1%nat), [0; 3]); ((6, 1%nat), [3])]);
   (2, [((1, 1%nat), [0; 3])]);
   (3, [((2, 1%nat), [0; 3]); ((4, 0%nat), [0; 3]); ((5, 0%nat), [0; 3])]);
   (4, [((0, 2%nat), [0; 3]); ((2, 0%nat), [0; 3]); ((3, 0%nat), [0; 3])]);
   (5, [((4, 0%nat), [0; 3]); ((4, 1%nat), [0; 3]); ((5, 0%nat), [0; 3]); ((5, 1%nat), [0; 3])]);
   (6, [((2, 2%nat), [0; 3])]);
   (7, [((0, 3%nat), [0; 3])]);
   (8, [((5, 2%nat), [0; 3])])]
  [(0, [((6, 0%nat), [3])]);
   (1, [((0, 1%nat), [0; 3]); ((6, 1%nat), [3])]);
   (2, [((1, 1%nat), [0; 3])]);
   (3, [((2, 1%nat), [0; 3])]);
   (4, [((0, 2%nat), [0; 3])]);
   (5, [((4, 1%nat), [0; 3]); ((5, 1%nat), [0; 3])]);
   (6, [((2, 2%nat), [0; 3])]);
   (7, [((0, 3%nat), [0; 3])]);
   (8, [((5, 2%nat), [0; 3])])]
  [(0, [(T 1, 3); (R 1, 1); (R 2, 2)]);
   (1, [(T 0, 4)]);
   (2, []);
   (3, [(T 2, 5); (R 3, 6)]);
   (4, [(T 1, 3); (R 2, 7)]);
   (5, [(T 2, 5); (R 3, 8)]);
   (6, []);
   (7, []);
   (8, [])]
  [(0, [(0, Reduce 3); (1, Shift 3); (3, Reduce 3)]);
   (1, [(0, Shift 4); (3, Accept)]);
   (2, [(0, Reduce 1); (3, Reduce 1)]);
   (3, [(2, Shift 5)]);
   (4, [(0, Reduce 3); (1, Shift 3); (3, Reduce 3)]);
   (5, [(0, Reduce 4); (2, Shift 5); (3, Reduce 4)]);
   (6, [(0, Reduce 2); (3, Reduce 2)]);
   (7, [(0, Reduce 0); (3, Reduce 0)]);
   (8, [(0, Reduce 5); (3, Reduce 5)])]
  [(0, [(1, 1); (2, 2)]);
   (1, []);
   (2, []);
   (3, [(3, 6)]);
   (4, [(2, 7)]);
   (5, [(3, 8)]);
   (6, []);
   (7, []);
   (8, [])].
Definition w_A : automaton := of_dump w_d.
Definition w_input : list N := [1; 0; 0].          (* b a a *)
Definition w_costs : list N := [1; 1; 1; 1].
Definition w_sched : list N := [0; 1; 2; 3].

Lemma w_costs_pos : costs_pos w_costs.
Proof.
  intros t. unfold tcost, w_costs.
  destruct (N.to_nat t) as [|[|[|[|[|n]]]]]; cbn [nth]; lia.
Qed.

Lemma w_validated :
  wf_grammar w_g = true /\ validS w_g w_A = true /\ validC w_g w_A = true /\ validE w_g w_A = true /\
  single_candidate w_g w_A = true /\ dump_no_shift_eof (eof w_g) w_d = true.
Proof. vm_compute. repeat split. Qed.

(* the first error: lexeme 1 (the first 'a'), state 3, stack [3] over the start state *)
Definition w_stk : vstack := [(3, VLeaf 1 0 false)].

Lemma w_first_error :
  run_recover w_g w_A w_input 100 3 10 [None] [] 0 = DDone None [mkErr 1 3 false false w_stk].
Proof. vm_compute. reflexivity. Qed.

(* what the search of the pinned code returns, and what the reference says *)
Lemma w_search_pinned :
  search_mirror false w_g w_A w_input 100 3 w_costs 250 [] 2000 w_stk 1 = Done [[Ins 2; Del]; [Ins 2; Shf; Del]].
Proof. vm_compute. reflexivity. Qed.

Lemma w_reference :
  all_min_repairs w_g w_A w_input 100 3 w_costs 250 [] w_sched w_stk 1 = Some (1, 3%nat, [[Ins 2]]).
Proof. vm_compute. reflexivity. Qed.

(* [Insert c] is a repair in the sense of C05: it makes b c a a, which the plain parser accepts *)
Lemma w_insert_c_valid :
  valid_repair w_g w_A w_input 100 3 w_stk 1 [Ins 2] = true /\
  (exists t, run w_g w_A 100 (repaired w_input 1 [Ins 2]) = RAccept t) /\
  scost w_g w_input w_costs [Ins 2] 1 = 1 /\ scost w_g w_input w_costs [Ins 2; Del] 1 = 2.
Proof. vm_compute. repeat split. eexists. reflexivity. Qed.

(* the mechanism: from the configuration after [Insert c; Shift a], shifting the next 'a'
   leaves the state stack equal *)
Lemma w_mechanism :
  shift_returns w_g w_A w_input 100 [Ins 2; Shf; Shf] w_stk 1 = true /\
  shift_returns w_g w_A w_input 100 [Ins 2; Shf] w_stk 1 = false.
Proof. vm_compute. split; reflexivity. Qed.

(* with the repair of `shift` (the code now) the search returns the reference on this input *)
Lemma w_search_fixed :
  search_mirror true w_g w_A w_input 100 3 w_costs 250 [] 2000 w_stk 1 = Done [[Ins 2]].
Proof. vm_compute. reflexivity. Qed.

(* the hypotheses of reference_complete are satisfiable, and its conclusion says what one expects here:
   every normal-form repair at this error costs at least 1, and [Insert c] is THE reported set *)
Example w_reference_complete_instance :
  (forall s, nf w_g s -> success w_g w_A w_input 100 3 w_stk 1 s -> (1 <= scost w_g w_input w_costs s 1)%N) /\
  (forall rs, In rs [[Ins 2]] <->
     exists s, rs = strip s /\ min_cost_success w_g w_A w_input 100 3 w_costs w_stk 1 s /\
               parses_furthest w_g w_A w_input 100 3 w_costs 250 w_stk 1 s).
Proof.
  destruct (RefProofs.reference_complete w_g w_A w_input 100%nat 3%nat w_costs 250%nat [] w_sched w_stk 1%nat
              1 3%nat [[Ins 2]] w_costs_pos ltac:(lia) w_reference) as (Hin & _ & Hmin & _).
  split; [exact Hmin|exact Hin].
Qed.

Definition search_complete_refuted_stmt : Prop := ~ search_complete_stmt false.

Lemma search_complete_refuted : search_complete_refuted_stmt.
Proof.
  intros H. destruct w_validated as (H1 & H2 & H3 & H4 & H5 & H6).
  pose proof (H w_g w_A w_input 100%nat 10%nat 3%nat w_costs 250%nat [] w_sched 2000%nat
                (mkErr 1 3 false false w_stk) 1 3%nat [[Ins 2]] [[Ins 2; Del]; [Ins 2; Shf; Del]]
                H1 H2 H3 H4 H5 (dump_no_shift_eof_ok w_g w_d H6) w_costs_pos ltac:(lia)
                w_first_error w_search_pinned w_reference [Ins 2]) as (_ & Hin).
  specialize (Hin (or_introl eq_refl)).
  destruct Hin as [E|[E|[]]]; discriminate.
Qed.
