(* C06 — the hypotheses of the soundness theorems about the search mirror are satisfiable, and their
   conclusions say what one expects on concrete runs (vm_compute witnesses). *)
From Coq Require Import List Arith NArith Bool Lia Sorted.
From GV Require Import Common.Outcome Base.Grammar LR.Automaton LR.Validator
  Repair.Semantics Repair.Spec Repair.Proofs Repair.Search Repair.Confluent
  C06.Model C06.Spec C06.Proofs C06.RefProofs C06.Mirror C06.Refuted C06.SearchSpec C06.SearchProofs.
Import ListNotations.
Local Open Scope N_scope.

(* ---- a run whose success nodes carry MERGES:  S: S 'a' B | B;  B: 'b' C | ;  C: 'c' | 'c' C;
        input  b a b a b  (error at the first 'a', as for C06/Refuted.v's input) ---------------- *)
Definition m_input : list N := [1; 0; 1; 0; 1].

Fixpoint has_mrg (t : rtree) : bool :=
  match t with RTerm => false | RRep _ _ pa => has_mrg pa | RMrg _ _ _ _ => true end.

Example m_first_error :
  run_recover w_g w_A m_input 100 3 10 [None] [] 0 = DDone None [mkErr 1 3 false false w_stk].
Proof. vm_compute. reflexivity. Qed.

Example m_candidates :
  match dijkstra true w_g w_A m_input 100 3 w_costs 5000 w_stk 1 with
  | Done l =>
      map (fun n => (has_mrg (n_rep n), n_cf n, unfold (n_rep n))) l =
      [(true, 3, [[Ins 2; Shf; Shf; Ins 2; Shf; Shf; Ins 2]; [Ins 2; Shf; Del; Shf; Shf; Ins 2]]);
       (true, 3, [[Ins 2; Shf; Shf; Ins 2; Shf; Del]; [Ins 2; Shf; Del; Shf; Del]])]
  | _ => False
  end.
Proof. vm_compute. reflexivity. Qed.

Example m_search :
  search_mirror true w_g w_A m_input 100 3 w_costs 250 [] 5000 w_stk 1 =
  Done [[Ins 2; Shf; Del; Shf; Del]; [Ins 2; Shf; Del; Shf; Shf; Ins 2];
        [Ins 2; Shf; Shf; Ins 2; Shf; Del]; [Ins 2; Shf; Shf; Ins 2; Shf; Shf; Ins 2]].
Proof. vm_compute. reflexivity. Qed.

(* the invariant, instantiated: both alternatives of each merged success node replay to the node *)
Example m_nodes_ok :
  match dijkstra true w_g w_A m_input 100 3 w_costs 5000 w_stk 1 with
  | Done l => Forall (node_ok w_g w_A m_input 100 w_costs w_stk 1) l
  | _ => False
  end.
Proof.
  destruct (dijkstra true w_g w_A m_input 100 3 w_costs 5000 w_stk 1) as [l| |] eqn:E.
  - exact (returned_nodes_invariant _ _ _ _ _ _ _ _ _ _ _ E).
  - vm_compute in E. discriminate.
  - vm_compute in E. discriminate.
Qed.

Example m_reported :
  exists cstar, forall rs,
    In rs [[Ins 2; Shf; Del; Shf; Del]; [Ins 2; Shf; Del; Shf; Shf; Ins 2];
           [Ins 2; Shf; Shf; Ins 2; Shf; Del]; [Ins 2; Shf; Shf; Ins 2; Shf; Shf; Ins 2]] ->
    exists s moves stk' p',
      rs = strip s /\
      search_apply w_g w_A m_input 100 moves w_stk 1 [] = Some (stk', p', s) /\
      search_success w_g w_A m_input 3 stk' p' s = true /\
      scost w_g m_input w_costs s 1 = cstar /\ scost w_g m_input w_costs rs 1 = cstar /\ nf w_g s.
Proof. exact (reported_are_successes _ _ _ _ _ _ _ _ _ _ _ _ _ m_search). Qed.

(* ---- a reduce-confluent table (Repair/Confluent.v's LR(0)-style table for S: 'a' | '(' S ')'),
        input  ( a a )  : error at lexeme 2 ------------------------------------------------------- *)
Definition c_input : list N := [1; 0; 0; 2].
Definition c_costs : list N := [1; 1; 1; 1].
Definition c_stk : vstack := [(4, VNode 0 [VLeaf 0 1%nat false]); (2, VLeaf 1 0%nat false)].

Example c_first_error :
  run_recover lr0_g lr0_A c_input 50 3 20 [None] [] 0 = DDone None [mkErr 2 4 false false c_stk].
Proof. vm_compute. reflexivity. Qed.

Example c_search : search_mirror true lr0_g lr0_A c_input 50 3 c_costs 250 [] 2000 c_stk 2 = Done [[Del]].
Proof. vm_compute. reflexivity. Qed.

Example c_reference :
  all_min_repairs lr0_g lr0_A c_input 50 3 c_costs 250 [] [0; 1; 2] c_stk 2 = Some (1, 4%nat, [[Del]]).
Proof. vm_compute. reflexivity. Qed.

Lemma c_costs_pos : costs_pos c_costs.
Proof.
  intros t. unfold tcost, c_costs.
  destruct (N.to_nat t) as [|[|[|[|[|n]]]]]; cbn [nth]; lia.
Qed.

(* all hypotheses of the three confluence-dependent theorems hold here *)
Example c_reported_valid : valid_repair lr0_g lr0_A c_input 50 3 c_stk 2 [Del] = true.
Proof.
  apply (reported_valid true lr0_g lr0_A c_input 50%nat 3%nat c_costs 250%nat [] 2000%nat c_stk 2%nat [[Del]]
           lr0_confluent lr0_no_shift_eof ltac:(cbn; lia) c_search [Del] (or_introl eq_refl)).
Qed.

Example c_cost_ge_reference : (1 <= scost lr0_g c_input c_costs [Del] 2)%N.
Proof.
  apply (reported_cost_ge_reference true lr0_g lr0_A c_input 50%nat 3%nat c_costs 250%nat [] [0; 1; 2] 2000%nat
           c_stk 2%nat [[Del]] 1 4%nat [[Del]] c_costs_pos ltac:(lia)
           lr0_confluent lr0_no_shift_eof ltac:(cbn; lia) c_search c_reference [Del] (or_introl eq_refl)).
Qed.
