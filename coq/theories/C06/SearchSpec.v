(* C06 — SOUNDNESS invariants of the search mirror (C06/Mirror.v = dijkstra.rs + cpctplus.rs as the
   code runs them): definitions and statements.  Proved in C06/SearchProofs.v, exported by
   Properties/C06search.v.

   The mirror is a pair of fuel-driven functions ([phase1], [phase2]).  To speak about "every node that
   is ever queued" and "the order in which buckets are popped" the run of the mirror is presented as a
   labelled transition system over search states ([sstep]; the label is the node popped by the step);
   [exec_step_stmt]/[exec_progress_stmt] say that this system IS the mirror: one unit of fuel = one
   step, same successor state, no other behaviour.  All statements hold for every value of the
   parameter [fixed] (so in particular for [fixed = true], the code as it is now), for all grammars,
   tables, inputs, cost functions and fuels.

   Nothing here says that the search finds EVERY minimum-cost repair: that is the completeness half,
   C06/CompleteSpec.v (proved in C06/CompleteProofs.v, CompleteRank.v, CompleteValidated*.v). *)
From Coq Require Import List Arith NArith Bool Lia Sorted.
From GV Require Import Common.Outcome Base.Grammar LR.Automaton LR.Validator
  Repair.Semantics Repair.Spec Repair.Search Repair.Confluent C06.Model C06.Spec C06.Mirror.
Import ListNotations.

(* the repair sequences a repair tree stands for: [unfold] (= collect_repairs/traverse), except that
   the bare terminator stands for the empty sequence (traverse yields nothing for it, and a chain
   `Terminator <- r` yields [r]) *)
Definition paths (t : rtree) : list (list repair) :=
  match t with RTerm => [[]] | _ => unfold t end.

(* "the main chain ends in a Delete" (PathFNode::last_repair) *)
Definition main_ends_in_del (t : rtree) : bool :=
  match last_repair t with Some Del => true | _ => false end.

(* ---- the search as a transition system -------------------------------------------------------- *)
Inductive sstate :=
| P1 (todo : buckets) (tlen c ctr : N)                        (* the main loop of dijkstra *)
| P2 (bucket : list node) (c : N) (acc : list node) (ctr : N). (* the same-cost sweep; acc = scs_nodes, newest first *)

(* the cost the search is currently working at *)
Definition cur (s : sstate) : N := match s with P1 _ _ c _ => c | P2 _ c _ _ => c end.

(* a node sits in a bucket of the state, or in the list of success nodes found so far *)
Definition queued (s : sstate) (n : node) : Prop :=
  match s with
  | P1 todo _ _ _ => exists c, In n (bget todo c)
  | P2 b _ acc _ => In n b \/ In n acc
  end.

(* the bodies of the two `for (nbr_cost, nbr) in next.drain(..)` loops *)
Definition p1_push (s : buckets * N * N) (cn : N * node) : buckets * N * N :=
  let '(td, tl, k) := s in
  let (b', k') := upsert (snd cn) (bget td (fst cn)) k in
  (bset td (fst cn) b', (tl + fst cn + 1)%N, k').
Definition p2_push (c : N) (s : list node * N) (cn : N * node) : list node * N :=
  if N.eqb (fst cn) c then upsert (snd cn) (fst s) (snd s) else s.

Definition olist {X} (o : option X) : list X := match o with Some x => [x] | None => [] end.

Section System.
Variable fixed : bool.
Variable g : grammar.
Variable A : automaton.
Variable input : list N.
Variable ifuel : nat.
Variable PN : nat.
Variable costs : list N.

Definition exec (fuel : nat) (s : sstate) : outcome (list node) :=
  match s with
  | P1 todo tlen c ctr => phase1 fixed g A input ifuel PN costs fuel todo tlen c ctr
  | P2 b c acc ctr => phase2 fixed g A input ifuel PN costs fuel b c acc ctr
  end.

(* [sstep s o s']: one iteration of the loop the state is in; [o] = the node it pops *)
Inductive sstep : sstate -> option node -> sstate -> Prop :=
| step_skip todo tlen c ctr :
    bget todo c = [] -> (u16max <=? c)%N = false -> N.eqb (c + 1) tlen = false ->
    sstep (P1 todo tlen c ctr) None (P1 todo tlen (c + 1)%N ctr)
| step_expand todo tlen c ctr n rest nb :
    bget todo c = n :: rest -> node_success g A input PN n = false ->
    neighbours fixed g A input ifuel costs true n ctr = Done nb ->
    sstep (P1 todo tlen c ctr) (Some n)
          (let st := fold_left p1_push (fst nb) (bset todo c rest, tlen, snd nb) in
           P1 (fst (fst st)) (snd (fst st)) c (snd st))
| step_first todo tlen c ctr n rest :
    bget todo c = n :: rest -> node_success g A input PN n = true ->
    sstep (P1 todo tlen c ctr) (Some n) (P2 rest c [n] ctr)
| step_keep n rest c acc ctr :
    node_success g A input PN n = true ->
    sstep (P2 (n :: rest) c acc ctr) (Some n) (P2 rest c (n :: acc) ctr)
| step_sweep n rest c acc ctr nb :
    node_success g A input PN n = false ->
    neighbours fixed g A input ifuel costs false n ctr = Done nb ->
    sstep (P2 (n :: rest) c acc ctr) (Some n)
          (let st := fold_left (p2_push c) (fst nb) (rest, snd nb) in P2 (fst st) c acc (snd st)).

(* [run s popped s']: some steps lead from s to s'; [popped] = the nodes popped, in order *)
Inductive run : sstate -> list node -> sstate -> Prop :=
| run_nil s : run s [] s
| run_cons s o s1 l s2 : sstep s o s1 -> run s1 l s2 -> run s (olist o ++ l) s2.

End System.

Definition init (stk : vstack) (p : nat) : sstate :=
  P1 [(0%N, [mkNode stk p RTerm 0%N])] 1%N 0%N 1%N.

(* ---- the invariant of a node ------------------------------------------------------------------- *)
Section Inv.
Variable g : grammar.
Variable A : automaton.
Variable input : list N.
Variable ifuel : nat.
Variable costs : list N.
Variable stk0 : vstack.         (* the configuration the search starts from *)
Variable p0 : nat.

(* [seq] is one of the sequences node [n] stands for *)
Definition seq_ok (n : node) (seq : list repair) : Prop :=
  (* replaying it with the search's own moves (plus the no-progress shift moves, which record
     nothing) from the start configuration reaches exactly the node's (pstack, laidx) *)
  (exists moves stk',
     search_apply g A input ifuel moves stk0 p0 [] = Some (stk', n_la n, seq) /\
     map fst stk' = map fst (n_stk n)) /\
  (* its cost is the node's *)
  scost g input costs seq p0 = n_cf n /\
  (* it ends in as many shifts as the node's main chain *)
  trail_shf seq = rt_shifts (n_rep n) /\
  (* it ends in Delete iff the main chain does *)
  last_is_del seq = main_ends_in_del (n_rep n) /\
  (* documented normal form: no Insert directly after a Delete, no Insert of the end-of-input
     token, only tokens of the grammar ([nf_means_stmt]) *)
  nf g seq.

Definition node_ok (n : node) : Prop := forall seq, In seq (paths (n_rep n)) -> seq_ok n seq.

End Inv.

(* ---- statements --------------------------------------------------------------------------------- *)

(* what [nf] says, spelled out *)
Definition nf_means_stmt : Prop :=
  forall g s, nf g s ->
    (forall s1 s2 t, s <> s1 ++ Del :: Ins t :: s2) /\
    inserts_tok (eof g) s = false /\
    (forall t, In (Ins t) s -> (t < ntoks g)%N).

(* what is reported from a node is among the sequences the invariant speaks about *)
Definition unfold_in_paths_stmt : Prop :=
  forall t seq, In seq (unfold t) -> In seq (paths t).

(* the transition system is the mirror: a step costs one unit of fuel and leads to the state the
   mirror continues from … *)
Definition exec_step_stmt : Prop :=
  forall fixed g A input ifuel PN costs f s o s',
    sstep fixed g A input ifuel PN costs s o s' ->
    exec fixed g A input ifuel PN costs (S f) s = exec fixed g A input ifuel PN costs f s'.
(* … and a run of the mirror that returns candidates is a step followed by the rest of the run, or
   the end of the sweep *)
Definition exec_progress_stmt : Prop :=
  forall fixed g A input ifuel PN costs f s cnds,
    exec fixed g A input ifuel PN costs (S f) s = Done cnds -> cnds <> [] ->
    (exists o s', sstep fixed g A input ifuel PN costs s o s' /\
                  exec fixed g A input ifuel PN costs f s' = Done cnds) \/
    (exists c ctr, s = P2 [] c (rev cnds) ctr).
(* … and a state without a step is one where the mirror stops: with an empty result, a panic or the
   exhaustion of the budget inside a run of reductions, or the end of the sweep *)
Definition exec_total_stmt : Prop :=
  forall fixed g A input ifuel PN costs s,
    (exists o s', sstep fixed g A input ifuel PN costs s o s') \/
    (exists r, (forall f, exec fixed g A input ifuel PN costs (S f) s = r) /\
       (r = Done [] \/ r = Panic \/ r = OutOfFuel \/
        exists c acc ctr, s = P2 [] c acc ctr /\ r = Done (rev acc))).
Definition mirror_runs_stmt : Prop :=
  forall fixed g A input ifuel PN costs fuel stk p cnds,
    dijkstra fixed g A input ifuel PN costs fuel stk p = Done cnds -> cnds <> [] ->
    exists popped c ctr, run fixed g A input ifuel PN costs (init stk p) popped (P2 [] c (rev cnds) ctr).

(* 1. node_invariant: every node that is ever queued in a bucket, popped, kept as a success or
      returned satisfies [node_ok] *)
Definition node_invariant_stmt : Prop :=
  forall fixed g A input ifuel PN costs stk p popped s,
    run fixed g A input ifuel PN costs (init stk p) popped s ->
    (forall n, queued s n -> node_ok g A input ifuel costs stk p n) /\
    (forall n, In n popped -> node_ok g A input ifuel costs stk p n).
Definition returned_nodes_invariant_stmt : Prop :=
  forall fixed g A input ifuel PN costs fuel stk p cnds,
    dijkstra fixed g A input ifuel PN costs fuel stk p = Done cnds ->
    Forall (node_ok g A input ifuel costs stk p) cnds.

(* the two inductive steps.  Every neighbour (cost, m) of a node satisfying the invariant: the cost
   it is queued under is its own, is not below the node's, and m satisfies the invariant … *)
Definition neighbours_invariant_stmt : Prop :=
  forall fixed g A input ifuel costs stk p explore_all n ctr nb,
    node_ok g A input ifuel costs stk p n ->
    neighbours fixed g A input ifuel costs explore_all n ctr = Done nb ->
    Forall (fun cn => fst cn = n_cf (snd cn) /\ (n_cf n <= fst cn)%N /\
                      node_ok g A input ifuel costs stk p (snd cn)) (fst nb).
(* … and merging two compatible nodes of one bucket preserves it (they agree on (pstack, laidx) and on
   the two features the future depends on) *)
Definition merge_preserves_invariant_stmt : Prop :=
  forall g A input ifuel costs stk p old new ctr,
    node_ok g A input ifuel costs stk p old -> node_ok g A input ifuel costs stk p new ->
    n_cf old = n_cf new -> key_eqb old new = true ->
    node_ok g A input ifuel costs stk p (fst (merge_node old new ctr)) /\
    n_cf (fst (merge_node old new ctr)) = n_cf old.

(* 2. buckets_in_cost_order: a node in bucket c has cf = c; no bucket below the current cost holds a
      node; the nodes are popped in non-decreasing cost, and the cost counter never decreases *)
Definition buckets_in_cost_order_stmt : Prop :=
  forall fixed g A input ifuel PN costs stk p popped s,
    run fixed g A input ifuel PN costs (init stk p) popped s ->
    match s with
    | P1 todo _ c _ => forall c' n, In n (bget todo c') -> n_cf n = c' /\ (c <= c')%N
    | P2 b c acc _ => forall n, In n b \/ In n acc -> n_cf n = c
    end /\
    StronglySorted (fun a b => (n_cf a <= n_cf b)%N) popped /\
    Forall (fun n => (n_cf n <= cur s)%N) popped.
(* … at the moment the first success node is popped: everything popped before was not a success and
   cost no more; everything still queued costs no less *)
Definition first_success_is_minimal_among_explored_stmt : Prop :=
  forall fixed g A input ifuel PN costs stk p popped todo tlen c ctr n rest,
    run fixed g A input ifuel PN costs (init stk p) popped (P1 todo tlen c ctr) ->
    bget todo c = n :: rest -> node_success g A input PN n = true ->
    n_cf n = c /\
    Forall (fun m => node_success g A input PN m = false /\ (n_cf m <= n_cf n)%N) popped /\
    (forall m, queued (P1 todo tlen c ctr) m -> (n_cf n <= n_cf m)%N).
(* … and all returned candidates are success nodes of one cost c* *)
Definition returned_same_cost_stmt : Prop :=
  forall fixed g A input ifuel PN costs fuel stk p cnds,
    dijkstra fixed g A input ifuel PN costs fuel stk p = Done cnds ->
    exists cstar, Forall (fun n => n_cf n = cstar /\ node_success g A input PN n = true) cnds.

(* 3. reported_are_successes: every sequence the mirror reports is [strip s] of a path [s] of the
      search (Repair/Search.v's one-path semantics) that passes the search's success test, of the
      common cost c*, in normal form *)
Definition reported_are_successes_stmt : Prop :=
  forall fixed g A input ifuel PN costs TRY avoid fuel stk p out,
    search_mirror fixed g A input ifuel PN costs TRY avoid fuel stk p = Done out ->
    exists cstar, forall rs, In rs out ->
      exists s moves stk' p',
        rs = strip s /\
        search_apply g A input ifuel moves stk p [] = Some (stk', p', s) /\
        search_success g A input PN stk' p' s = true /\
        scost g input costs s p = cstar /\ scost g input costs rs p = cstar /\ nf g s.

(* … hence, on a reduce-confluent table (Repair/Confluent.v; it cannot be dropped:
   Search.search_sound_refuted), each reported sequence is a valid repair in the sense of C05 … *)
Definition reported_valid_stmt : Prop :=
  forall fixed g A input ifuel PN costs TRY avoid fuel stk p out,
    reduce_confluent g A ifuel -> no_shift_eof g A -> (p <= length input)%nat ->
    search_mirror fixed g A input ifuel PN costs TRY avoid fuel stk p = Done out ->
    forall rs, In rs out -> valid_repair g A input ifuel PN stk p rs = true.

(* … and [strip] of a normal-form success of the reference semantics (C06/Spec.v) of cost c* … *)
Definition reported_are_reference_successes_stmt : Prop :=
  forall fixed g A input ifuel PN costs TRY avoid fuel stk p out,
    reduce_confluent g A ifuel -> no_shift_eof g A -> (p <= length input)%nat ->
    search_mirror fixed g A input ifuel PN costs TRY avoid fuel stk p = Done out ->
    exists cstar, forall rs, In rs out ->
      exists s, rs = strip s /\ nf g s /\ success g A input ifuel PN stk p s /\
                scost g input costs s p = cstar /\ scost g input costs rs p = cstar.

(* … so, by reference_complete, no reported sequence is cheaper than the reference's minimum: of
   "reported cost = minimum cost" only  c* <= cmin  (completeness of the search) is missing *)
Definition reported_cost_ge_reference_stmt : Prop :=
  forall fixed g A input ifuel PN costs TRY avoid sched fuel stk p out cmin fmax ref,
    costs_pos costs -> (1 <= PN)%nat ->
    reduce_confluent g A ifuel -> no_shift_eof g A -> (p <= length input)%nat ->
    search_mirror fixed g A input ifuel PN costs TRY avoid fuel stk p = Done out ->
    all_min_repairs g A input ifuel PN costs TRY avoid sched stk p = Some (cmin, fmax, ref) ->
    forall rs, In rs out -> (cmin <= scost g input costs rs p)%N.

(* 4. mirror_output_form: the postconditions of simplify_repairs/rank_cnds, for the MIRROR's list *)
Definition mirror_output_form_stmt : Prop :=
  forall fixed g A input ifuel PN costs TRY avoid fuel stk p out,
    search_mirror fixed g A input ifuel PN costs TRY avoid fuel stk p = Done out ->
    NoDup out /\
    Forall (fun s => ends_in_shf s = false) out /\
    StronglySorted (fun x y => key_leb avoid x y = true) out /\
    Forall (fun s => inserts_tok (eof g) s = false) out /\
    (exists cstar, Forall (fun s => scost g input costs s p = cstar) out).

(* extra: with positive costs the `unreachable!()` arm of the merge closure is never taken — whenever
   a queued node is merged with a compatible neighbour whose repairs differ, the queued node's
   repairs are not the bare terminator *)
Definition merge_arm_unreachable_stmt : Prop :=
  forall g A input ifuel costs stk p old new,
    costs_pos costs ->
    node_ok g A input ifuel costs stk p old -> node_ok g A input ifuel costs stk p new ->
    n_cf old = n_cf new -> key_eqb old new = true ->
    n_rep old = RTerm -> rtree_eqb (n_rep old) (n_rep new) = true.
