(* C06 — rank_cnds on the candidates of the search, and the set the mirror reports: every sequence of a
   returned node parses exactly as far as plain parsing gets from the node's own (pstack, laidx)
   ([returned_far]), so ranking a node by its first sequence ranks all of them; every sequence of a
   returned node is a minimum-cost FIRST success of the reference ([returned_first_success]); together
   with C06/CompleteProofs.v: what the mirror reports is, as a set, what the reference reports
   ([search_complete_bounded]).  Statements: C06/CompleteSpec.v. *)
From Coq Require Import List Arith NArith Bool Lia Sorted.
From GV Require Import Common.Outcome Base.Grammar Base.GrammarFacts LR.Automaton LR.Validator
  Repair.Semantics Repair.Spec Repair.Proofs Repair.Search Repair.Confluent
  C06.Model C06.Spec C06.Proofs C06.RefProofs C06.Mirror C06.SearchSpec C06.SearchProofs C06.CompleteIds
  C06.CompleteSpec C06.CompleteProofs.
Import ListNotations.

(* ---- the machine under one lookahead ----------------------------------------------------------- *)
Section Machine.
Variable g : grammar.
Variable A : automaton.

Lemma advance_error_action : forall f stk a leaf Y,
  advance g A f stk a leaf = AError Y -> action A (vtop A Y) a = Err.
Proof.
  induction f as [|f IH]; intros stk a leaf Y H; cbn [advance] in H; [discriminate|].
  destruct (action A (vtop A stk) a) as [s0|p| |] eqn:Ea; try discriminate.
  - destruct (length stk <? length (rhs g p))%nat; [discriminate|].
    destruct (goto A (vtop A (skipn (length (rhs g p)) stk)) (lhs g p)) as [s1|]; [|discriminate].
    eapply IH. exact H.
  - injection H as <-. exact Ea.
Qed.

(* after a run of reductions that ended in Error/Accept, the same lookahead changes nothing more *)
Lemma advance_stuck_again f stk a leaf Y leaf' :
  (advance g A f stk a leaf = AError Y \/ advance g A f stk a leaf = AAccept Y) ->
  advance g A f Y a leaf' = AError Y \/ advance g A f Y a leaf' = AAccept Y.
Proof.
  intros H. destruct f as [|f]; [destruct H; discriminate|]. cbn [advance].
  destruct H as [H|H].
  - rewrite (advance_error_action _ _ _ _ _ H). left. reflexivity.
  - rewrite (advance_accept_action g A _ _ _ _ _ H). right. reflexivity.
Qed.

End Machine.

(* ---- paths of the search, cut at a recorded Shift ---------------------------------------------- *)
Section Path.
Variable g : grammar.
Variable A : automaton.
Variable input : list N.
Variable ifuel : nat.

Notation search_apply := (search_apply g A input ifuel).
Notation lr_cactus1 := (lr_cactus1 g A input ifuel).

Lemma search_apply_rec moves stk p rec stk' p' rec' :
  search_apply moves stk p rec = Some (stk', p', rec') -> exists d, rec' = rec ++ d.
Proof.
  intros H. destruct (search_apply_pos g A input ifuel _ _ _ _ _ _ _ H) as (d & E & _). exists d. exact E.
Qed.

(* moves that record nothing: at most one run of reductions under the current lookahead *)
Lemma search_apply_norec : forall moves X q rec Y q',
  search_apply moves X q rec = Some (Y, q', rec) ->
  q' = q /\
  (map fst Y = map fst X \/
   exists Z, (lr_cactus1 None X q = AError Z \/ lr_cactus1 None X q = AAccept Z) /\
             listN_eqb (map fst X) (map fst Z) = false /\ map fst Y = map fst Z).
Proof.
  assert (Hlen : forall moves X q (rec : list repair) x Y q', search_apply moves X q (rec ++ [x]) = Some (Y, q', rec) -> False).
  { intros moves X q rec x Y q' H. destruct (search_apply_rec _ _ _ _ _ _ _ H) as (d & E).
    apply (f_equal (@length _)) in E. rewrite !app_length in E. cbn [length] in E. lia. }
  induction moves as [|m moves IH]; intros X q rec Y q' H.
  - cbn [Search.search_apply] in H. injection H as <- <-. split; [reflexivity|left; reflexivity].
  - destruct m as [t| |]; cbn [Search.search_apply] in H.
    + destruct (last_is_del rec || N.eqb t (eof g)); [discriminate|].
      destruct (lr_cactus1 (Some t) X q); try discriminate. exfalso. eapply Hlen. exact H.
    + destruct (Nat.eqb q (length input)); [discriminate|]. exfalso. eapply Hlen. exact H.
    + destruct (lr_cactus1 None X q) as [Z|Z|Z|Z| |] eqn:Hadv; try discriminate.
      * exfalso. eapply Hlen. exact H.
      * destruct (listN_eqb (map fst X) (map fst Z)) eqn:Hne; [discriminate|].
        destruct (IH _ _ _ _ _ H) as (Eq & [HY|(Z2 & HZ2 & Hne2 & _)]).
        -- split; [exact Eq|]. right. exists Z. split; [right; reflexivity|]. split; [exact Hne|exact HY].
        -- exfalso. unfold Search.lr_cactus1 in Hadv, HZ2.
           destruct (advance_stuck_again g A _ _ _ _ Z (real_leaf g input q) (or_intror Hadv)) as [E|E];
             rewrite E in HZ2; destruct HZ2 as [HZ2|HZ2]; try discriminate; injection HZ2 as <-;
             rewrite listN_eqb_refl in Hne2; discriminate.
      * destruct (listN_eqb (map fst X) (map fst Z)) eqn:Hne; [discriminate|].
        destruct (IH _ _ _ _ _ H) as (Eq & [HY|(Z2 & HZ2 & Hne2 & _)]).
        -- split; [exact Eq|]. right. exists Z. split; [left; reflexivity|]. split; [exact Hne|exact HY].
        -- exfalso. unfold Search.lr_cactus1 in Hadv, HZ2.
           destruct (advance_stuck_again g A _ _ _ _ Z (real_leaf g input q) (or_introl Hadv)) as [E|E];
             rewrite E in HZ2; destruct HZ2 as [HZ2|HZ2]; try discriminate; injection HZ2 as <-;
             rewrite listN_eqb_refl in Hne2; discriminate.
Qed.

(* a path whose record contains a Shift, cut just before the move that recorded it *)
Lemma search_apply_split_shf : forall moves stk p rec Sr' p' pre post,
  search_apply moves stk p rec = Some (Sr', p', rec ++ pre ++ Shf :: post) ->
  exists moves1 moves2 Sr1 p1 sr,
    search_apply moves1 stk p rec = Some (Sr1, p1, rec ++ pre) /\
    lr_cactus1 None Sr1 p1 = AShift sr /\
    search_apply moves2 sr (S p1) (rec ++ pre ++ [Shf]) = Some (Sr', p', rec ++ pre ++ Shf :: post).
Proof.
  induction moves as [|m moves IH]; intros stk p rec Sr' p' pre post H.
  - cbn [Search.search_apply] in H. injection H as _ _ E. exfalso.
    apply (f_equal (@length _)) in E. rewrite !app_length in E. cbn [length] in E. lia.
  - (* a move that records x *)
    assert (Hrecord : forall x stk1 p1,
              search_apply moves stk1 p1 (rec ++ [x]) = Some (Sr', p', rec ++ pre ++ Shf :: post) ->
              (pre = [] /\ x = Shf) \/
              exists pre', pre = x :: pre' /\
                exists moves1 moves2 Sr1 p2 sr,
                  search_apply moves1 stk1 p1 (rec ++ [x]) = Some (Sr1, p2, rec ++ pre) /\
                  lr_cactus1 None Sr1 p2 = AShift sr /\
                  search_apply moves2 sr (S p2) (rec ++ pre ++ [Shf]) = Some (Sr', p', rec ++ pre ++ Shf :: post)).
    { intros x stk1 p1 H1. destruct (search_apply_rec _ _ _ _ _ _ _ H1) as (d & E).
      rewrite <- app_assoc in E. apply app_inv_head in E. cbn [app] in E.
      destruct pre as [|y pre'].
      - left. cbn [app] in E. injection E as <- _. split; reflexivity.
      - right. cbn [app] in E. injection E as -> E. exists pre'. split; [reflexivity|].
        assert (E1 : rec ++ (x :: pre') ++ Shf :: post = (rec ++ [x]) ++ pre' ++ Shf :: post)
          by (rewrite <- app_assoc; reflexivity).
        rewrite E1 in H1. destruct (IH _ _ _ _ _ _ _ H1) as (moves1 & moves2 & Sr1 & p2 & sr & H2 & H3 & H4).
        exists moves1, moves2, Sr1, p2, sr.
        assert (E2 : (rec ++ [x]) ++ pre' = rec ++ x :: pre') by (rewrite <- app_assoc; reflexivity).
        assert (E3 : (rec ++ [x]) ++ pre' ++ [Shf] = rec ++ (x :: pre') ++ [Shf]) by (rewrite <- app_assoc; reflexivity).
        rewrite E2, E3 in *. rewrite <- E1 in H4. split; [exact H2|]. split; [exact H3|exact H4]. }
    destruct m as [t| |]; cbn [Search.search_apply] in H.
    + destruct (last_is_del rec || N.eqb t (eof g)) eqn:Hg; [discriminate|].
      destruct (lr_cactus1 (Some t) stk p) as [s1|s1|s1|s1| |] eqn:Hadv; try discriminate.
      destruct (Hrecord _ _ _ H) as [(_ & Hx)|(pre' & -> & moves1 & moves2 & Sr1 & p2 & sr & H2 & H3 & H4)];
        [discriminate|].
      exists (MIns t :: moves1), moves2, Sr1, p2, sr. split; [|split; assumption].
      cbn [Search.search_apply]. rewrite Hg, Hadv. exact H2.
    + destruct (Nat.eqb p (length input)) eqn:Hg; [discriminate|].
      destruct (Hrecord _ _ _ H) as [(_ & Hx)|(pre' & -> & moves1 & moves2 & Sr1 & p2 & sr & H2 & H3 & H4)];
        [discriminate|].
      exists (MDel :: moves1), moves2, Sr1, p2, sr. split; [|split; assumption].
      cbn [Search.search_apply]. rewrite Hg. exact H2.
    + destruct (lr_cactus1 None stk p) as [s1|s1|s1|s1| |] eqn:Hadv; try discriminate.
      * destruct (Hrecord _ _ _ H) as [(-> & _)|(pre' & -> & moves1 & moves2 & Sr1 & p2 & sr & H2 & H3 & H4)].
        -- exists [], moves, stk, p, s1. rewrite app_nil_r. cbn [app] in *.
           split; [reflexivity|]. split; [exact Hadv|exact H].
        -- exists (MShf :: moves1), moves2, Sr1, p2, sr. split; [|split; assumption].
           cbn [Search.search_apply]. rewrite Hadv. exact H2.
      * destruct (listN_eqb (map fst stk) (map fst s1)) eqn:Hg; [discriminate|].
        destruct (IH _ _ _ _ _ _ _ H) as (moves1 & moves2 & Sr1 & p2 & sr & H2 & H3 & H4).
        exists (MShf :: moves1), moves2, Sr1, p2, sr. split; [|split; assumption].
        cbn [Search.search_apply]. rewrite Hadv, Hg. exact H2.
      * destruct (listN_eqb (map fst stk) (map fst s1)) eqn:Hg; [discriminate|].
        destruct (IH _ _ _ _ _ _ _ H) as (moves1 & moves2 & Sr1 & p2 & sr & H2 & H3 & H4).
        exists (MShf :: moves1), moves2, Sr1, p2, sr. split; [|split; assumption].
        cbn [Search.search_apply]. rewrite Hadv, Hg. exact H2.
Qed.

(* ---- plain parsing ahead depends on the states only --------------------------------------------- *)
Lemma parse_far_states : forall n s1 s2 q e, map fst s1 = map fst s2 ->
  parse_far g A input ifuel n s1 q e = parse_far g A input ifuel n s2 q e.
Proof.
  induction n as [|n IH]; intros s1 s2 q e H; cbn [parse_far]; [reflexivity|].
  destruct (Nat.eqb q e); [reflexivity|]. unfold lr_upto1.
  destruct (length input <? q)%nat; [reflexivity|].
  pose proof (advance_states g A ifuel s1 s2 (la g input q) (real_leaf g input q) (real_leaf g input q) H) as P.
  destruct (advance g A ifuel s1 (la g input q) (real_leaf g input q)) as [x|x|x|x| |];
    destruct (advance g A ifuel s2 (la g input q) (real_leaf g input q)) as [y|y|y|y| |];
    cbn [adv_proj] in P; try discriminate; try reflexivity.
  injection P as P. apply IH. exact P.
Qed.

Lemma parse_far_stuck n stk q e :
  (forall x, lr_upto1 g A input ifuel None stk q <> AShift x) ->
  parse_far g A input ifuel n stk q e = q.
Proof.
  intros H. destruct n as [|n]; cbn [parse_far]; [reflexivity|].
  destruct (Nat.eqb q e); [reflexivity|].
  destruct (lr_upto1 g A input ifuel None stk q) as [x|x|x|x| |] eqn:E; try reflexivity.
  exfalso. exact (H x eq_refl).
Qed.

End Path.

(* the cap of the repaired rank_cnds is applied to both sides alike *)
Lemma cap_dist_ext d1 d2 q e : d1 = d2 -> cap_dist d1 q e = cap_dist d2 q e.
Proof. intros ->. reflexivity. Qed.

Lemma trail_shf_last s : (1 <= trail_shf s)%nat -> exists s0, s = s0 ++ [Shf].
Proof.
  unfold trail_shf. intros H. destruct (rev s) as [|m r] eqn:E; cbn [lead_shf] in H; [lia|].
  destruct m; try lia. exists (rev r). rewrite <- (rev_involutive s), E. reflexivity.
Qed.

(* ---- what a returned node is worth to rank_cnds --------------------------------------------------- *)
Section Rank.
Variable g : grammar.
Variable A : automaton.
Variable input : list N.
Variable ifuel : nat.
Variable PN : nat.
Variable costs : list N.
Variable stk0 : vstack.
Variable p0 : nat.
Variable TRY : nat.
Hypothesis Hconf : reduce_confluent g A ifuel.
Hypothesis Hns : no_shift_eof g A.
Hypothesis Hp0 : (p0 <= length input)%nat.
Hypothesis Hifuel : (1 <= ifuel)%nat.
Hypothesis HPN : (1 <= PN)%nat.

Notation node_ok := (node_ok g A input ifuel costs stk0 p0).
Notation node_success := (node_success g A input PN).

(* how far plain parsing gets from the node's own configuration *)
Definition node_far (n : node) : nat :=
  cap_dist (parse_far g A input ifuel (length input + 2) (n_stk n) (n_la n) (p0 + TRY)) (n_la n) (p0 + TRY).

Lemma path_replay n s' : node_ok n -> In s' (paths (n_rep n)) ->
  exists moves stk' Sk',
    search_apply g A input ifuel moves stk0 p0 [] = Some (stk', n_la n, s') /\
    map fst stk' = map fst (n_stk n) /\
    apply_seq g A input ifuel s' 0 stk0 p0 None = Done (Sk', n_la n, None) /\
    Inv g A ifuel Sk' stk' /\ (n_la n <= length input)%nat.
Proof.
  intros Hok Hin. destruct (Hok s' Hin) as ((moves & stk' & Happ & Est) & _).
  destruct (search_sim g A input ifuel Hconf Hns moves stk0 stk0 p0 [] stk' (n_la n) s'
              (inv_eq g A ifuel stk0 stk0 eq_refl) Hp0 Happ) as (delta & Hd & Hrep).
  cbn [app] in Hd. subst delta. destruct (Hrep 0%nat) as (Sk' & Happly & HI & Hla).
  exists moves, stk', Sk'. repeat split; assumption.
Qed.

Lemma path_far n s' : node_ok n -> node_success n = true -> In s' (paths (n_rep n)) ->
  far g A input ifuel TRY stk0 p0 s' = node_far n /\
  exists Sk', apply_seq g A input ifuel s' 0 stk0 p0 None = Done (Sk', n_la n, None).
Proof.
  intros Hok Hsucc Hin.
  destruct (path_replay n s' Hok Hin) as (moves & stk' & Sk' & Happ & Est & Happly & HI & Hla).
  split; [|exists Sk'; exact Happly].
  assert (Hsr : srun g A input ifuel s' stk0 p0 = Some (Sk', n_la n))
    by (apply (srun_is_apply_seq g A input ifuel s' 0%nat); exact Happly).
  unfold far, node_far. rewrite Hsr. apply cap_dist_ext.
  assert (Hnp : (length input <? n_la n)%nat = false) by (apply Nat.ltb_ge; exact Hla).
  unfold Mirror.node_success in Hsucc. apply orb_true_iff in Hsucc.
  assert (Hcase : action A (vtop A (n_stk n)) (la g input (n_la n)) = Accept \/
                  (PN <= rt_shifts (n_rep n))%nat).
  { destruct Hsucc as [H|H]; [right; rewrite rt_ends_shifts in H; apply Nat.leb_le; exact H|left].
    destruct (action A (vtop A (n_stk n)) (la g input (n_la n))); try discriminate. reflexivity. }
  clear Hsucc. destruct Hcase as [Eact|Hsh].
  - (* Accept *)
    destruct Hconf as (_ & Hacc).
    pose proof Eact as Eact'. rewrite <- (vtop_states A _ _ Est) in Eact'.
    destruct (Hacc Sk' stk' _ (real_leaf g input (n_la n)) HI Eact') as (x & Hx).
    rewrite !parse_far_stuck; [reflexivity| |].
    + intros y. unfold lr_upto1. rewrite Hnp.
      destruct ifuel as [|f]; [lia|]. rewrite (advance_accept_direct g A f _ _ _ Eact). discriminate.
    + intros y. unfold lr_upto1. rewrite Hnp, Hx. discriminate.
  - (* the sequence ends in a Shift: the replay stands on the stack that shift produced *)
    destruct (Hok s' Hin) as (_ & _ & Hts & _).
    destruct (trail_shf_last s' ltac:(lia)) as (s0 & ->).
    destruct (search_apply_split_shf g A input ifuel moves stk0 p0 [] stk' (n_la n) s0 [] Happ)
      as (moves1 & moves2 & Sr1 & p1 & sr & H1 & H2 & H3).
    cbn [app] in H1, H3.
    destruct (search_apply_norec g A input ifuel _ _ _ _ _ _ H3) as (Eq & Hshape).
    destruct (search_sim g A input ifuel Hconf Hns moves1 stk0 stk0 p0 [] Sr1 p1 s0
                (inv_eq g A ifuel stk0 stk0 eq_refl) Hp0 H1) as (delta & Hd & Hrep).
    cbn [app] in Hd. subst delta. destruct (Hrep 0%nat) as (Sk1 & Happly1 & HI1 & Hp1).
    destruct Hconf as (Hshift & _). unfold lr_cactus1 in H2.
    destruct (Hshift Sk1 Sr1 _ (real_leaf g input p1) (real_leaf g input p1) sr HI1 H2) as (x & Hx & Ex).
    assert (ESk : Sk' = x).
    { rewrite (apply_seq_app g A input ifuel), Happly1 in Happly. cbn [apply_seq] in Happly.
      unfold lr_upto1 in Happly.
      replace (length input <? p1)%nat with false in Happly by (symmetry; apply Nat.ltb_ge; exact Hp1).
      rewrite Hx in Happly. injection Happly as <- _. reflexivity. }
    subst Sk'. rewrite (parse_far_states g A input ifuel _ x sr _ _ Ex).
    destruct Hshape as [HY|(Z & HZ & _ & HY)].
    + apply parse_far_states. congruence.
    + rewrite Eq in *.
      assert (Hst : forall stk, map fst stk = map fst Z ->
                forall y, lr_upto1 g A input ifuel None stk (S p1) <> AShift y).
      { intros stk Es y. unfold lr_upto1. destruct (length input <? S p1)%nat; [discriminate|].
        unfold lr_cactus1 in HZ.
        pose proof (advance_stuck_again g A _ _ _ _ Z (real_leaf g input (S p1)) HZ) as HZ2.
        pose proof (advance_states g A ifuel stk Z (la g input (S p1)) (real_leaf g input (S p1))
                      (real_leaf g input (S p1)) Es) as P.
        destruct HZ2 as [E|E]; rewrite E in P;
          destruct (advance g A ifuel stk (la g input (S p1)) (real_leaf g input (S p1)));
          cbn [adv_proj] in P; discriminate. }
      rewrite !parse_far_stuck; [reflexivity| |].
      * apply Hst. congruence.
      * intros y. unfold lr_upto1. destruct (length input <? S p1)%nat; [discriminate|].
        unfold lr_cactus1 in HZ. destruct HZ as [E|E]; rewrite E; discriminate.
Qed.

End Rank.

(* ---- no sequence of a node runs through a success: proper prefixes do not end in PN shifts --------- *)
Definition pfx_ok (PN : nat) (n : node) : Prop :=
  forall seq, In seq (paths (n_rep n)) -> forall pre post, seq = pre ++ post -> post <> [] ->
    ends_with_shifts PN pre = false.

Lemma merge_paths_sub old new k pth :
  In pth (paths (n_rep (fst (merge_node old new k)))) ->
  In pth (paths (n_rep old)) \/ In pth (paths (n_rep new)).
Proof.
  unfold merge_node. destruct (rtree_eqb (n_rep old) (n_rep new)); [intros H; left; exact H|].
  destruct (n_rep old) as [|i r pa|i r v pa] eqn:Er; cbn [fst n_rep]; [intros H; left; rewrite Er in H; exact H| |].
  - rewrite paths_mrg, paths_rep. intros H. apply in_app_iff in H. destruct H as [H|H]; [left; exact H|right].
    cbn [alt_paths] in H. rewrite app_nil_r in H. apply unfold_in_paths. exact H.
  - rewrite !paths_mrg. intros H. apply in_app_iff in H. destruct H as [H|H].
    + left. apply in_app_iff. left. exact H.
    + cbn [alt_paths] in H. apply in_app_iff in H. destruct H as [H|H].
      * right. apply unfold_in_paths. exact H.
      * left. apply in_app_iff. right. exact H.
Qed.

Lemma pfx_merge PN old new k : pfx_ok PN old -> pfx_ok PN new -> pfx_ok PN (fst (merge_node old new k)).
Proof.
  intros Ho Hn seq Hin. destruct (merge_paths_sub _ _ _ _ Hin) as [H|H]; [exact (Ho seq H)|exact (Hn seq H)].
Qed.

Section Pfx.
Variable fixed : bool.
Variable g : grammar.
Variable A : automaton.
Variable input : list N.
Variable ifuel : nat.
Variable PN : nat.
Variable costs : list N.
Variable stk0 : vstack.
Variable p0 : nat.

Notation node_ok := (node_ok g A input ifuel costs stk0 p0).
Notation node_success := (node_success g A input PN).
Notation sstep := (SearchSpec.sstep fixed g A input ifuel PN costs).
Notation run := (SearchSpec.run fixed g A input ifuel PN costs).
Notation state_ok := (state_ok g A input ifuel PN costs stk0 p0).

Definition child_rep (n m : node) : Prop :=
  n_rep m = n_rep n \/ exists k r, n_rep m = RRep k r (n_rep n).

Lemma nb_insert_shape n : forall toks ctr res,
  nb_insert g A input ifuel costs n toks ctr = Done res -> Forall (fun cn => child_rep n (snd cn)) (fst res).
Proof.
  induction toks as [|t ts IH]; intros ctr res H; cbn [nb_insert] in H.
  - injection H as <-. constructor.
  - destruct (N.eqb t (eof g)); [exact (IH _ _ H)|].
    destruct (lr_cactus1 g A input ifuel (Some t) (n_stk n) (n_la n)) as [s|s|s|s| |];
      try discriminate; try exact (IH _ _ H).
    destruct (add_cost (n_cf n) (tcost costs t)) as [cf|]; [|exact (IH _ _ H)].
    destruct (nb_insert g A input ifuel costs n ts (ctr + 1)) as [rc| |] eqn:Hrc; cbn [obind] in H; try discriminate.
    injection H as <-. cbn [fst]. constructor; [|exact (IH _ _ Hrc)].
    right. eexists. eexists. reflexivity.
Qed.

Lemma neighbours_shape ea n ctr nb :
  neighbours fixed g A input ifuel costs ea n ctr = Done nb -> Forall (fun cn => child_rep n (snd cn)) (fst nb).
Proof.
  intros H. unfold neighbours in H.
  match type of H with obind ?X _ = _ => destruct X as [ins| |] eqn:Hins end; cbn [obind] in H; try discriminate.
  match type of H with obind ?X _ = _ => destruct X as [del| |] eqn:Hdel end; cbn [obind] in H; try discriminate.
  match type of H with obind ?X _ = _ => destruct X as [shf| |] eqn:Hshf end; cbn [obind] in H; try discriminate.
  injection H as <-. cbn [fst]. apply Forall_app. split; [|apply Forall_app; split].
  - assert (Hnone : Done ([] : list (N * node), ctr) = Done ins -> Forall (fun cn => child_rep n (snd cn)) (fst ins))
      by (intros E; injection E as <-; constructor).
    destruct (last_repair (n_rep n)) as [[t| |]|]; try (apply Hnone; exact Hins);
      (destruct ea; [eapply nb_insert_shape; exact Hins|apply Hnone; exact Hins]).
  - destruct ea; [|injection Hdel as <-; constructor]. unfold nb_delete in Hdel.
    destruct (Nat.eqb (n_la n) (length input)); [injection Hdel as <-; constructor|].
    destruct (add_cost (n_cf n) (tcost costs (la g input (n_la n)))); injection Hdel as <-; [|constructor].
    constructor; [|constructor]. right. eexists. eexists. reflexivity.
  - unfold nb_shift in Hshf.
    destruct (lr_cactus1 g A input ifuel None (n_stk n) (n_la n)) as [s|s|s|s| |]; try discriminate.
    + destruct (fixed || negb (same_states (n_stk n) s)); injection Hshf as <-; [|constructor].
      constructor; [|constructor]. right. eexists. eexists. reflexivity.
    + destruct (negb (same_states (n_stk n) s)); injection Hshf as <-; [|constructor].
      constructor; [|constructor]. left. reflexivity.
    + destruct (negb (same_states (n_stk n) s)); injection Hshf as <-; [|constructor].
      constructor; [|constructor]. left. reflexivity.
    + injection Hshf as <-. constructor.
Qed.

Lemma snoc_split {X} (pc : list X) m pre post :
  pc ++ [m] = pre ++ post -> post <> [] -> exists post', pc = pre ++ post' /\ post = post' ++ [m].
Proof.
  intros E Hne. destruct (exists_last Hne) as (post' & x & ->).
  rewrite app_assoc in E. apply app_inj_tail in E. destruct E as (E & ->).
  exists post'. split; [exact E|reflexivity].
Qed.

Lemma pfx_child n m : node_ok n -> pfx_ok PN n -> node_success n = false -> child_rep n m -> pfx_ok PN m.
Proof.
  intros Hok Hp Hns [E|(k & r & E)] seq Hin pre post Es Hne; rewrite E in Hin.
  - exact (Hp seq Hin pre post Es Hne).
  - rewrite paths_rep in Hin. apply in_snocs in Hin. destruct Hin as (pc & Hpc & ->).
    destruct (snoc_split pc r pre post Es Hne) as (post' & Epc & _).
    destruct post' as [|x post'].
    + rewrite app_nil_r in Epc. subst pre.
      destruct (Hok pc Hpc) as (_ & _ & Hts & _).
      unfold Mirror.node_success in Hns. apply orb_false_iff in Hns. destruct Hns as (Hre & _).
      rewrite ends_with_shifts_trail, Hts, <- rt_ends_shifts. exact Hre.
    + apply (Hp pc Hpc pre (x :: post') Epc). discriminate.
Qed.

Definition pfx_state (st : sstate) : Prop := forall n, queued st n -> pfx_ok PN n.

Lemma p1_fold_pfx : forall nbrs td tl k,
  (forall c' n, In n (bget td c') -> pfx_ok PN n) -> Forall (fun cn => pfx_ok PN (snd cn)) nbrs ->
  forall c' n, In n (bget (fst (fst (fold_left p1_push nbrs (td, tl, k)))) c') -> pfx_ok PN n.
Proof.
  induction nbrs as [|cn nbrs IH]; intros td tl k Htd Hall; [exact Htd|].
  apply Forall_cons_iff in Hall. destruct Hall as (Hcn & Hall).
  cbn [fold_left]. unfold p1_push at 2.
  destruct (upsert (snd cn) (bget td (fst cn)) k) as [b' k'] eqn:Eu.
  apply IH; [|exact Hall].
  intros c' n Hin. destruct (N.eq_dec c' (fst cn)) as [->|Hd].
  - rewrite bget_bset_same in Hin.
    assert (HF : Forall (pfx_ok PN) (fst (upsert (snd cn) (bget td (fst cn)) k))).
    { apply upsert_P; [intros x j Hx _; apply pfx_merge; assumption| |exact Hcn].
      apply Forall_forall. intros x Hx. exact (Htd _ _ Hx). }
    rewrite Eu in HF. cbn [fst] in HF. rewrite Forall_forall in HF. exact (HF n Hin).
  - rewrite bget_bset_other in Hin by exact Hd. exact (Htd _ _ Hin).
Qed.

Lemma p2_fold_pfx c : forall nbrs s,
  Forall (pfx_ok PN) (fst s) -> Forall (fun cn => pfx_ok PN (snd cn)) nbrs ->
  Forall (pfx_ok PN) (fst (fold_left (p2_push c) nbrs s)).
Proof.
  induction nbrs as [|cn nbrs IH]; intros s Hs Hall; [exact Hs|].
  apply Forall_cons_iff in Hall. destruct Hall as (Hcn & Hall).
  cbn [fold_left]. apply IH; [|exact Hall].
  unfold p2_push. destruct (N.eqb (fst cn) c); [|exact Hs].
  apply upsert_P; [intros x j Hx _; apply pfx_merge; assumption|exact Hs|exact Hcn].
Qed.

Lemma step_pfx st o st' : state_ok st -> pfx_state st -> sstep st o st' -> pfx_state st'.
Proof.
  intros Hs Hp Hst.
  destruct Hst as [todo tlen c ctr He Hu Ht|todo tlen c ctr n rest nb Hb Hsucc Hnb
                  |todo tlen c ctr n rest Hb Hsucc|n rest c acc ctr Hsucc|n rest c acc ctr nb Hsucc Hnb].
  - exact Hp.
  - cbn [SearchProofs.state_ok] in Hs.
    assert (Hn : node_ok n) by (apply (Hs c n); rewrite Hb; left; reflexivity).
    assert (Hpn : pfx_ok PN n) by (apply Hp; exists c; rewrite Hb; left; reflexivity).
    intros m (c' & Hin). cbn zeta in Hin. revert c' m Hin. apply p1_fold_pfx.
    + intros c' m Hin. apply Hp. destruct (N.eq_dec c' c) as [->|Hd].
      * rewrite bget_bset_same in Hin. exists c. rewrite Hb. right. exact Hin.
      * rewrite bget_bset_other in Hin by exact Hd. exists c'. exact Hin.
    + eapply Forall_impl; [|exact (neighbours_shape _ _ _ _ Hnb)].
      intros cn Hc. exact (pfx_child n (snd cn) Hn Hpn Hsucc Hc).
  - intros m [Hm|[<-|[]]]; apply Hp; exists c; rewrite Hb; [right; exact Hm|left; reflexivity].
  - intros m [Hm|[<-|Hm]]; apply Hp; [left; right; exact Hm|left; left; reflexivity|right; exact Hm].
  - cbn [SearchProofs.state_ok] in Hs. destruct Hs as (Hgb & _).
    apply Forall_cons_iff in Hgb. destruct Hgb as ((_ & Hn) & _).
    assert (Hpn : pfx_ok PN n) by (apply Hp; left; left; reflexivity).
    intros m [Hm|Hm]; [|apply Hp; right; exact Hm]. cbn zeta in Hm.
    assert (HF : Forall (pfx_ok PN) (fst (fold_left (p2_push c) (fst nb) (rest, snd nb)))).
    { apply p2_fold_pfx.
      - apply Forall_forall. intros x Hx. apply Hp. left. right. exact Hx.
      - eapply Forall_impl; [|exact (neighbours_shape _ _ _ _ Hnb)].
        intros cn Hc. exact (pfx_child n (snd cn) Hn Hpn Hsucc Hc). }
    rewrite Forall_forall in HF. exact (HF m Hm).
Qed.

Lemma run_pfx st l st' : run st l st' -> state_ok st -> pfx_state st -> pfx_state st'.
Proof.
  intros Hr. induction Hr as [st|st o st1 l st2 Hst Hr IH]; intros Hs Hp; [exact Hp|].
  destruct (step_ok fixed g A input ifuel PN costs stk0 p0 _ _ _ Hs Hst) as (Hs1 & _).
  exact (IH Hs1 (step_pfx _ _ _ Hs Hp Hst)).
Qed.

End Pfx.

Lemma returned_pfx fixed g A input ifuel PN costs fuel stk p cnds :
  dijkstra fixed g A input ifuel PN costs fuel stk p = Done cnds -> Forall (pfx_ok PN) cnds.
Proof.
  intros H. destruct cnds as [|n0 cnds0]; [constructor|].
  destruct (mirror_runs _ _ _ _ _ _ _ _ _ _ _ H ltac:(discriminate)) as (l & c & ctr & Hr).
  assert (Hinit : pfx_state PN (init stk p)).
  { intros n (c' & Hin). unfold bget in Hin. cbn [assocN] in Hin.
    destruct (N.eqb c' 0); [|destruct Hin]. destruct Hin as [<-|[]].
    intros seq Hin pre post Es Hne. cbn [n_rep paths] in Hin. destruct Hin as [<-|[]].
    destruct pre; [|discriminate]. destruct post; [congruence|discriminate]. }
  pose proof (run_pfx fixed g A input ifuel PN costs stk p _ _ _ Hr (init_ok g A input ifuel PN costs stk p) Hinit) as Hp.
  apply Forall_forall. intros n Hn. apply Hp. right. apply in_rev in Hn. exact Hn.
Qed.

Lemma nf_from_app_l g : forall s1 s2 ld, nf_from g ld (s1 ++ s2) = true -> nf_from g ld s1 = true.
Proof.
  induction s1 as [|x s1 IH]; intros s2 ld H; [reflexivity|].
  cbn [app nf_from] in *. apply andb_true_iff in H. destruct H as (H1 & H2).
  rewrite H1, (IH _ _ H2). reflexivity.
Qed.

(* ---- every sequence of a returned node is a first success of the reference ---------------------- *)
Section First.
Variable g : grammar.
Variable A : automaton.
Variable input : list N.
Variable ifuel : nat.
Variable PN : nat.
Variable costs : list N.
Variable stk0 : vstack.
Variable p0 : nat.
Hypothesis Hcosts : costs_pos costs.
Hypothesis Hconf : reduce_confluent g A ifuel.
Hypothesis Hns : no_shift_eof g A.
Hypothesis Hp0 : (p0 <= length input)%nat.
Hypothesis Hifuel : (1 <= ifuel)%nat.
Hypothesis Hopen : start_open g A input ifuel PN stk0 p0.

Lemma returned_first_success fuel cnds n s' :
  dijkstra true g A input ifuel PN costs fuel stk0 p0 = Done cnds ->
  In n cnds -> (n_cf n <= u16max)%N -> In s' (unfold (n_rep n)) ->
  first_success g A input ifuel PN stk0 p0 s'.
Proof.
  intros Hd Hn Hu Hin0. pose proof (unfold_in_paths _ _ Hin0) as Hin.
  destruct (returned_facts _ _ _ _ _ _ _ _ _ _ _ Hd) as (c & Hall). rewrite Forall_forall in Hall.
  destruct (Hall n Hn) as ((_ & Hok) & Hsucc).
  pose proof (returned_pfx _ _ _ _ _ _ _ _ _ _ _ Hd) as Hpfx. rewrite Forall_forall in Hpfx.
  specialize (Hpfx n Hn).
  destruct (Hok s' Hin) as ((moves & stk' & Happ & Est) & Hcost & _ & _ & Hnf).
  destruct (node_success_path g A input ifuel PN costs stk0 p0 n s' Hsucc (Hok s' Hin))
    as (mv & st1 & q1 & G1 & G2 & _ & _).
  split; [exact Hnf|]. split; [eapply search_path_reference_success; eassumption|].
  intros pre post Es Hpost Hsuccpre.
  destruct post as [|m post]; [congruence|].
  assert (Hnfpre : nf g pre) by (unfold nf in *; rewrite Es in Hnf; exact (nf_from_app_l g _ _ _ Hnf)).
  assert (Hcheaper : m <> Shf -> False).
  { intros Hm.
    destruct (success_has_first_prefix g A input ifuel PN costs pre stk0 p0 Hcosts Hnfpre Hsuccpre)
      as (s0 & s2 & _ & Hfs & Hle & _).
    assert (Hs0 : s0 <> []) by (intros ->; apply Hopen; apply Hfs).
    pose proof (mcost_pos g input costs m (spos pre p0) Hcosts Hm) as Hm1.
    assert (Hlt : (scost g input costs pre p0 < n_cf n)%N).
    { rewrite <- Hcost, Es, (scost_app g input costs). cbn [scost]. lia. }
    destruct (dijkstra_complete g A input ifuel ifuel PN costs fuel stk0 p0 cnds s0 Hcosts Hifuel (le_n _) Hd Hfs Hs0 ltac:(lia))
      as (_ & Hle2 & _).
    specialize (Hle2 n Hn). lia. }
  destruct m as [t| |]; [apply Hcheaper; discriminate|apply Hcheaper; discriminate|].
  destruct Hsuccpre as (Sk1 & p1 & Hr1 & Hse). unfold succ_end in Hse. apply orb_true_iff in Hse.
  destruct Hse as [He|Hacc].
  - rewrite (Hpfx s' Hin pre (Shf :: post) Es ltac:(discriminate)) in He. discriminate.
  - rewrite Es in Happ.
    destruct (search_apply_split_shf g A input ifuel moves stk0 p0 [] stk' (n_la n) pre post Happ)
      as (moves1 & moves2 & Sr1 & q & sr & H1 & H2 & _).
    cbn [app] in H1.
    destruct (search_sim g A input ifuel Hconf Hns moves1 stk0 stk0 p0 [] Sr1 q pre
                (inv_eq g A ifuel stk0 stk0 eq_refl) Hp0 H1) as (delta & Hdl & Hrep).
    cbn [app] in Hdl. subst delta. destruct (Hrep 0%nat) as (Sk1' & Happly1 & HI1 & Hq).
    apply (srun_is_apply_seq g A input ifuel pre 0%nat) in Hr1. rewrite Hr1 in Happly1.
    injection Happly1 as <- <-.
    destruct Hconf as (Hshift & _). unfold lr_cactus1 in H2.
    destruct (Hshift Sk1 Sr1 _ (real_leaf g input p1) (real_leaf g input p1) sr HI1 H2) as (x & Hx & _).
    unfold lr_upto1 in Hacc. destruct (length input <? p1)%nat; [discriminate|].
    rewrite Hx in Hacc. discriminate.
Qed.

End First.

(* ---- rank_cnds on the returned nodes -------------------------------------------------------------- *)
Lemma rank_each_spec g A input ifuel PN costs stk0 p0 TRY :
  reduce_confluent g A ifuel -> no_shift_eof g A -> (p0 <= length input)%nat -> (1 <= ifuel)%nat -> (1 <= PN)%nat ->
  forall cnds ranked,
    Forall (fun n => node_ok g A input ifuel costs stk0 p0 n /\ node_success g A input PN n = true) cnds ->
    rank_each g A input ifuel TRY stk0 p0 (map (fun n => unfold (n_rep n)) cnds) = Done ranked ->
    ranked = map (fun n => (node_far g A input ifuel p0 TRY n, unfold (n_rep n))) cnds.
Proof.
  intros Hconf Hns Hp0 Hif HPN. induction cnds as [|n cnds IH]; intros ranked Hall H.
  - cbn [map rank_each] in H. injection H as <-. reflexivity.
  - apply Forall_cons_iff in Hall. destruct Hall as ((Hok & Hsucc) & Hall).
    cbn [map rank_each] in H. destruct (unfold (n_rep n)) as [|s0 ss] eqn:Eu; [discriminate|].
    assert (Hin : In s0 (paths (n_rep n))) by (apply unfold_in_paths; rewrite Eu; left; reflexivity).
    destruct (path_far g A input ifuel PN costs stk0 p0 TRY Hconf Hns Hp0 Hif HPN n s0 Hok Hsucc Hin)
      as (Hfar & Sk' & Happly).
    rewrite Happly in H.
    destruct (rank_each g A input ifuel TRY stk0 p0 (map (fun n => unfold (n_rep n)) cnds)) as [rest| |] eqn:Er;
      cbn [obind] in H; try discriminate.
    injection H as <-. cbn [map]. rewrite Eu. f_equal; [|apply IH; [exact Hall|reflexivity]].
    f_equal. rewrite <- Hfar. unfold far.
    rewrite (proj2 (srun_is_apply_seq g A input ifuel s0 0%nat stk0 p0 Sk' (n_la n)) Happly). reflexivity.
Qed.

(* the set rank_cnds + simplify_repairs yield, from three facts about the candidate nodes: every sequence
   of a candidate is a minimum-cost first success of the reference and parses as far as its node is
   worth ([D]); rank_cnds gives each node that worth; every minimum-cost first success is a sequence of a
   candidate.  (The reference runs at reduction fuel [rf], whatever the search's.) *)
Lemma ranked_set_equal g A input rf PN costs TRY avoid sched stk p cmin fmax ref
      (cnds : list node) (D : node -> nat) (ranked : list (nat * list (list repair))) :
  costs_pos costs -> (1 <= PN)%nat ->
  all_min_repairs g A input rf PN costs TRY avoid sched stk p = Some (cmin, fmax, ref) ->
  ranked = map (fun n => (D n, unfold (n_rep n))) cnds ->
  Forall (fun x => snd x <> []) ranked ->
  (forall n s, In n cnds -> In s (unfold (n_rep n)) ->
     min_cost_success g A input rf PN costs stk p s /\ far g A input rf TRY stk p s = D n) ->
  (forall s, min_cost_success g A input rf PN costs stk p s -> exists n, In n cnds /\ In s (unfold (n_rep n))) ->
  forall rs,
    In rs (simplify avoid (flat_map snd (filter (fun x => Nat.eqb (fst x) (list_max (map fst ranked))) ranked)))
    <-> In rs ref.
Proof.
  intros Hc HPN Href Eranked Hne Hmcs Hcand rs.
  destruct (reference_complete g A input rf PN costs TRY avoid sched stk p cmin fmax ref Hc HPN Href)
    as (Hmem & Hsound & Hminall & Hrank & Hrne).
  assert (Hbest : exists sb, min_cost_success g A input rf PN costs stk p sb /\
                             parses_furthest g A input rf PN costs TRY stk p sb).
  { destruct ref as [|r0 ref0]; [congruence|].
    destruct (proj1 (Hmem r0) (or_introl eq_refl)) as (sb & _ & H1 & H2). exists sb. split; assumption. }
  destruct Hbest as (sb & Hsb & Hpfb).
  destruct (Hcand sb Hsb) as (nb & Hnb & Hsbin).
  set (furthest := list_max (map fst ranked)).
  assert (Efur : map fst ranked = map D cnds) by (rewrite Eranked, map_map; reflexivity).
  assert (Hfm : furthest = fmax).
  { destruct (Hmcs nb sb Hnb Hsbin) as (_ & Hfb). pose proof (proj1 (Hrank sb Hsb) Hpfb) as Efb.
    apply Nat.le_antisymm.
    - assert (Hin : In furthest (map fst ranked)).
      { apply list_max_In. rewrite Efur. destruct cnds; [destruct Hnb|discriminate]. }
      rewrite Efur in Hin. apply in_map_iff in Hin. destruct Hin as (nm & Em & Hnm).
      assert (Hune : unfold (n_rep nm) <> []).
      { rewrite Forall_forall in Hne. apply (Hne (D nm, unfold (n_rep nm))).
        rewrite Eranked. apply in_map_iff. exists nm. split; [reflexivity|exact Hnm]. }
      destruct (unfold (n_rep nm)) as [|sm ss] eqn:Eu; [congruence|].
      destruct (Hmcs nm sm Hnm ltac:(rewrite Eu; left; reflexivity)) as (Hsm & Hfsm).
      rewrite <- Em, <- Hfsm, <- Efb. apply Hpfb. exact Hsm.
    - rewrite <- Efb, Hfb. apply list_max_ge. rewrite Efur. apply in_map. exact Hnb. }
  assert (Hkept : forall s, In s (flat_map snd (filter (fun x => Nat.eqb (fst x) furthest) ranked)) <->
                            exists n, In n cnds /\ D n = furthest /\ In s (unfold (n_rep n))).
  { intros s. rewrite in_flat_map. split.
    - intros (x & Hx & Hs). apply filter_In in Hx. destruct Hx as (Hx & Ex). apply Nat.eqb_eq in Ex.
      rewrite Eranked in Hx. apply in_map_iff in Hx. destruct Hx as (n & <- & Hn).
      exists n. split; [exact Hn|]. split; [exact Ex|exact Hs].
    - intros (n & Hn & En & Hs). exists (D n, unfold (n_rep n)).
      split; [|exact Hs]. apply filter_In. split; [|apply Nat.eqb_eq; exact En].
      rewrite Eranked. apply in_map_iff. exists n. split; [reflexivity|exact Hn]. }
  rewrite simplify_In, Hmem. split.
  - intros (s & Hs & ->). apply Hkept in Hs. destruct Hs as (n & Hn & En & Hs).
    destruct (Hmcs n s Hn Hs) as (Hms & Hfs).
    exists s. split; [reflexivity|]. split; [exact Hms|]. apply (Hrank s Hms). congruence.
  - intros (s & -> & Hms & Hpf). exists s. split; [|reflexivity].
    destruct (Hcand s Hms) as (n & Hn & Hs). apply Hkept. exists n. split; [exact Hn|]. split; [|exact Hs].
    destruct (Hmcs n s Hn Hs) as (_ & Hfs). rewrite <- Hfs, Hfm. apply (Hrank s Hms). exact Hpf.
Qed.

Lemma search_complete_bounded : search_complete_bounded_stmt.
Proof.
  intros g A input ifuel PN costs TRY avoid sched fuel stk p out cmin fmax ref
         Hc HPN Hif Hconf Hns Hp Hopen H Href Hu.
  destruct (reference_complete g A input ifuel PN costs TRY avoid sched stk p cmin fmax ref Hc HPN Href)
    as (Hmem & Hsound & Hminall & Hrank & Hrne).
  assert (Hbest : exists sb, min_cost_success g A input ifuel PN costs stk p sb).
  { destruct ref as [|r0 ref0]; [congruence|].
    destruct (proj1 (Hmem r0) (or_introl eq_refl)) as (sb & _ & H1 & _). exists sb. exact H1. }
  destruct Hbest as (sb & Hsb).
  assert (Hsne : forall s, min_cost_success g A input ifuel PN costs stk p s -> s <> [])
    by (intros s ((_ & Hs & _) & _) ->; exact (Hopen Hs)).
  unfold search_mirror in H.
  destruct (dijkstra true g A input ifuel PN costs fuel stk p) as [cnds| |] eqn:Hd; cbn [obind] in H; try discriminate.
  destruct (returned_facts _ _ _ _ _ _ _ _ _ _ _ Hd) as (cstar & Hall).
  assert (Hcand : forall s, min_cost_success g A input ifuel PN costs stk p s ->
                            exists n, In n cnds /\ In s (unfold (n_rep n))).
  { intros s Hs. apply (candidates_complete g A input ifuel PN costs fuel stk p cnds s Hc Hif Hconf Hns Hp Hd Hs (Hsne s Hs)).
    rewrite (Hsound s Hs). exact Hu. }
  destruct (Hcand sb Hsb) as (nb & Hnb & Hsbin).
  destruct cnds as [|n0 cnds0]; [destruct Hnb|]. set (cnds := n0 :: cnds0) in *.
  match type of H with obind ?X _ = _ => destruct X as [ranked| |] eqn:Hr end; cbn [obind] in H; try discriminate.
  injection H as <-.
  assert (Hall' : Forall (fun n => node_ok g A input ifuel costs stk p n /\ node_success g A input PN n = true) cnds).
  { eapply Forall_impl; [|exact Hall]. intros n ((_ & Hok) & Hs). split; assumption. }
  pose proof (rank_each_spec g A input ifuel PN costs stk p TRY Hconf Hns Hp Hif HPN cnds ranked Hall' Hr) as Eranked.
  rewrite Forall_forall in Hall.
  assert (Ecost : forall n, In n cnds -> n_cf n = cmin).
  { intros n Hn. destruct (Hall n Hn) as ((Hcf & Hok) & Hsucc).
    destruct (Hall nb Hnb) as ((Hcfb & Hokb) & _).
    destruct (Hokb sb (unfold_in_paths _ _ Hsbin)) as (_ & Hcb & _).
    rewrite Hcf, <- Hcfb, <- Hcb. exact (Hsound sb Hsb). }
  apply (ranked_set_equal g A input ifuel PN costs TRY avoid sched stk p cmin fmax ref cnds
           (node_far g A input ifuel p TRY) ranked Hc HPN Href Eranked
           (rank_each_nonempty _ _ _ _ _ _ _ _ _ Hr)); [|exact Hcand].
  intros n s Hn Hs. destruct (Hall n Hn) as ((Hcf & Hok) & Hsucc).
  pose proof (returned_first_success g A input ifuel PN costs stk p Hc Hconf Hns Hp Hif Hopen fuel cnds n s Hd Hn
                ltac:(rewrite (Ecost n Hn); exact Hu) Hs) as Hfs.
  split.
  - split; [exact Hfs|]. intros s2 (Hnf2 & Hs2 & _).
    destruct (Hok s (unfold_in_paths _ _ Hs)) as (_ & Hcs & _).
    rewrite Hcs, (Ecost n Hn). apply Hminall; assumption.
  - apply (path_far g A input ifuel PN costs stk p TRY Hconf Hns Hp Hif HPN n s Hok Hsucc (unfold_in_paths _ _ Hs)).
Qed.

Lemma search_reports_exactly : search_reports_exactly_stmt.
Proof.
  intros g A input ifuel PN costs TRY avoid sched fuel stk p out cmin fmax ref
         Hc HPN Hif Hconf Hns Hp Hopen H Href Hu.
  pose proof (search_complete_bounded g A input ifuel PN costs TRY avoid sched fuel stk p out cmin fmax ref
                Hc HPN Hif Hconf Hns Hp Hopen H Href Hu) as Heq.
  destruct (reference_complete g A input ifuel PN costs TRY avoid sched stk p cmin fmax ref Hc HPN Href)
    as (Hmem & _ & Hminall & _).
  split; [|split].
  - intros rs. rewrite Heq. apply Hmem.
  - apply (reported_cost_eq_reference g A input ifuel PN costs TRY avoid sched fuel stk p out cmin fmax ref
             Hc HPN Hif Hconf Hns Hp Hopen H Href Hu).
  - exact Hminall.
Qed.
