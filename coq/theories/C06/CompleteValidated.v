(* C06 — minimality and candidate-completeness of the search mirror on VALIDATED tables (the tables the
   checks validate on the dump of the implementation: validS, validC, validE over a productive grammar),
   without the reduce-confluence hypothesis: C06/CompleteProofs.v (which needs no hypothesis on the table
   for "reported cost <= every repair") combined with Repair/ConfluentValidated.v (which gives "reported
   cost >= reference minimum" at every sufficiently large reduction fuel of the reference). *)
From Coq Require Import List Arith NArith Bool Lia.
From GV Require Import Common.Outcome Base.Grammar LR.Automaton LR.Validator LR.Spec
  Repair.Semantics Repair.Spec Repair.Proofs Repair.Search Repair.Confluent Repair.ConfluentSpec Repair.ConfluentValidated
  C06.Model C06.Spec C06.Proofs C06.RefProofs C06.Mirror C06.SearchSpec C06.SearchProofs
  C06.CompleteSpec C06.CompleteProofs C06.CompleteRank C06.Refuted.
Import ListNotations.

(* the cost of what the search reports IS the minimum cost of a repair (the reference run at any
   sufficiently large reduction fuel), whenever that minimum fits the cost type *)
Definition validated_reported_cost_eq_reference_stmt : Prop :=
  forall g A input ifuel PN costs TRY avoid fuel stk p out,
    costs_pos costs -> (1 <= PN)%nat -> (1 <= ifuel)%nat ->
    validated g A -> no_shift_eof g A -> tokens_in_range g input ->
    graph_stack g A stk -> (p <= length input)%nat ->
    search_mirror true g A input ifuel PN costs TRY avoid fuel stk p = Done out ->
    exists F, forall f, (F <= f)%nat ->
      forall sched cmin fmax ref,
        start_open g A input f PN stk p ->
        all_min_repairs g A input f PN costs TRY avoid sched stk p = Some (cmin, fmax, ref) ->
        (cmin <= u16max)%N ->
        out <> [] /\ forall rs, In rs out -> scost g input costs rs p = cmin.

(* every minimum-cost first success of the reference (at any sufficiently large reduction fuel) is, move
   for move, one of the sequences unfolded from the candidate nodes the search returns *)
Definition validated_candidates_complete_stmt : Prop :=
  forall g A input ifuel PN costs TRY avoid fuel stk p out cnds,
    costs_pos costs -> (1 <= ifuel)%nat ->
    validated g A -> no_shift_eof g A -> tokens_in_range g input ->
    graph_stack g A stk -> (p <= length input)%nat ->
    search_mirror true g A input ifuel PN costs TRY avoid fuel stk p = Done out ->
    dijkstra true g A input ifuel PN costs fuel stk p = Done cnds ->
    exists F, forall f, (F <= f)%nat ->
      forall s, min_cost_success g A input f PN costs stk p s -> s <> [] ->
        (scost g input costs s p <= u16max)%N ->
        exists n, In n cnds /\ In s (unfold (n_rep n)).

Lemma validated_reported_cost_eq_reference : validated_reported_cost_eq_reference_stmt.
Proof.
  intros g A input ifuel PN costs TRY avoid fuel stk p out Hc HPN Hif HV Hns Hrng Hl Hp H.
  destruct (validated_reported_cost_ge_reference true g A input ifuel PN costs TRY avoid fuel stk p out
              Hc HPN HV Hns Hrng Hl Hp H) as (F0 & HF0).
  exists (Nat.max F0 ifuel). intros f Hf sched cmin fmax ref Hopen Href Hu.
  destruct (reference_complete g A input f PN costs TRY avoid sched stk p cmin fmax ref Hc HPN Href)
    as (Hmem & Hsound & _ & _ & Hrne).
  destruct ref as [|r0 ref0]; [congruence|].
  destruct (proj1 (Hmem r0) (or_introl eq_refl)) as (s & _ & Hmin & _).
  pose proof (Hsound s Hmin) as Hcs. destruct Hmin as ((Hnf & Hsucc & Hfirst) & _).
  destruct (reported_cost_minimal g A input ifuel f PN costs TRY avoid fuel stk p out s Hc Hif ltac:(lia) Hopen H
              Hnf Hsucc ltac:(lia)) as (Hone & Hle).
  split; [exact Hone|]. intros rs Hin.
  pose proof (HF0 f ltac:(lia) sched cmin fmax (r0 :: ref0) Href rs Hin) as Hge.
  specialize (Hle rs Hin). lia.
Qed.

Lemma validated_candidates_complete : validated_candidates_complete_stmt.
Proof.
  intros g A input ifuel PN costs TRY avoid fuel stk p out cnds Hc Hif HV Hns Hrng Hl Hp H Hd.
  destruct (validated_reported_are_reference_successes true g A input ifuel PN costs TRY avoid fuel stk p out
              HV Hns Hrng Hl Hp H) as (cstar & F0 & HF0).
  exists (Nat.max F0 ifuel). intros f Hf s (Hfs & Hmin) Hne Hu.
  destruct (dijkstra_complete g A input ifuel f PN costs fuel stk p cnds s Hc Hif ltac:(lia) Hd Hfs Hne Hu)
    as (Hcne & Hcost & Hfind).
  apply Hfind.
  pose proof (search_mirror_nonempty _ _ _ _ _ _ _ _ _ _ _ _ _ _ H Hd Hcne) as Hone.
  destruct out as [|rs out0]; [congruence|].
  destruct (HF0 rs (or_introl eq_refl)) as (s2 & Ers & Hnf2 & Hs2 & Hc2 & Hc2').
  destruct (search_mirror_shape _ _ _ _ _ _ _ _ _ _ _ _ _ H) as (cnds' & kept & Hd' & Eout & Hk).
  rewrite Hd in Hd'. injection Hd' as <-.
  assert (Hin : In rs (simplify avoid kept)) by (rewrite <- Eout; left; reflexivity).
  apply simplify_In in Hin. destruct Hin as (s' & Hs' & Ers').
  destruct (Hk s' Hs') as (n & Hn & Hun).
  pose proof (returned_nodes_invariant _ _ _ _ _ _ _ _ _ _ _ Hd) as Hok. rewrite Forall_forall in Hok.
  destruct (Hok n Hn s' (unfold_in_paths _ _ Hun)) as (_ & Hcs' & _).
  exists n. split; [exact Hn|].
  (* n costs cstar, and a reference success of that cost exists at fuel f *)
  assert (En : n_cf n = cstar) by (rewrite <- Hcs', <- Hc2', Ers', scost_strip; reflexivity).
  destruct (success_has_first_prefix g A input f PN costs s2 stk p Hc Hnf2 (Hs2 f ltac:(lia)))
    as (s1 & s3 & _ & Hfs1 & Hle1 & _).
  specialize (Hmin s1 Hfs1). specialize (Hcost n Hn). lia.
Qed.

(* every reported sequence is a minimum-cost FIRST success of the reference, stripped: with
   [validated_candidates_complete] the search and the reference differ on a validated table at most by
   what rank_cnds keeps (the clause "parses as far as the best" is proved for reduce-confluent tables
   only: C06/CompleteRank.v) *)
Definition validated_reported_are_min_cost_stmt : Prop :=
  forall g A input ifuel PN costs TRY avoid fuel stk p out,
    costs_pos costs -> (1 <= PN)%nat -> (1 <= ifuel)%nat ->
    validated g A -> no_shift_eof g A -> tokens_in_range g input ->
    graph_stack g A stk -> (p <= length input)%nat ->
    search_mirror true g A input ifuel PN costs TRY avoid fuel stk p = Done out ->
    exists F, forall f, (F <= f)%nat ->
      forall sched cmin fmax ref,
        start_open g A input f PN stk p ->
        all_min_repairs g A input f PN costs TRY avoid sched stk p = Some (cmin, fmax, ref) ->
        (cmin <= u16max)%N ->
        forall rs, In rs out ->
          exists s, rs = strip s /\ min_cost_success g A input f PN costs stk p s.

Lemma validated_reported_are_min_cost : validated_reported_are_min_cost_stmt.
Proof.
  intros g A input ifuel PN costs TRY avoid fuel stk p out Hc HPN Hif HV Hns Hrng Hl Hp H.
  destruct (validated_reported_are_reference_successes true g A input ifuel PN costs TRY avoid fuel stk p out
              HV Hns Hrng Hl Hp H) as (cstar & F0 & HF0).
  destruct (validated_reported_cost_eq_reference g A input ifuel PN costs TRY avoid fuel stk p out
              Hc HPN Hif HV Hns Hrng Hl Hp H) as (F1 & HF1).
  exists (Nat.max F0 F1). intros f Hf sched cmin fmax ref Hopen Href Hu rs Hin.
  destruct (HF1 f ltac:(lia) sched cmin fmax ref Hopen Href Hu) as (_ & Hcost).
  destruct (HF0 rs Hin) as (s2 & Ers & Hnf2 & Hs2 & Hc2 & Hc2').
  destruct (reference_complete g A input f PN costs TRY avoid sched stk p cmin fmax ref Hc HPN Href)
    as (_ & _ & Hminall & _).
  destruct (success_has_first_prefix g A input f PN costs s2 stk p Hc Hnf2 (Hs2 f ltac:(lia)))
    as (s1 & s3 & _ & Hfs1 & Hle1 & Hstrip).
  pose proof (Hcost rs Hin) as Ecost. rewrite Hc2', <- Hc2 in Ecost.
  assert (Hge : (cmin <= scost g input costs s1 p)%N) by (apply Hminall; apply Hfs1).
  exists s1. split; [rewrite Ers; apply Hstrip; lia|].
  split; [exact Hfs1|]. intros s' (Hnf' & Hs' & _).
  specialize (Hminall s' Hnf' Hs'). lia.
Qed.

(* ---- at an error of the driver -------------------------------------------------------------------- *)
(* the configuration the driver hands to the recoverer is not a success (the action under the next lexeme
   is Error), and its position is inside the input *)
Lemma error_config g A input ifuel PN e : no_shift_eof g A -> forall ofuel stk p,
  (p <= length input)%nat ->
  run_recover g A input ifuel PN ofuel [None] stk p = DDone None [e] ->
  action A (vtop A (e_stk e)) (la g input (e_pos e)) = Err /\ (e_pos e <= length input)%nat.
Proof.
  intros Hns. induction ofuel as [|o IH]; intros stk p Hp H; cbn [run_recover] in H; [discriminate|].
  destruct (advance g A ifuel stk (la g input p) (real_leaf g input p)) as [x|x|x|x| |] eqn:Hadv; try discriminate.
  - pose proof (shift_in_input g A input Hns _ _ _ _ _ Hadv) as Hlt. apply (IH x (S p)); [lia|exact H].
  - destruct (rev x) as [|[q [a i b|pr k]] r]; discriminate.
  - injection H as <-. cbn [e_stk e_pos]. split; [exact (advance_error_action g A _ _ _ _ _ Hadv)|exact Hp].
Qed.

Definition error_not_success_stmt : Prop :=
  forall g A input ifuel rf PN ofuel e,
    no_shift_eof g A -> (1 <= PN)%nat ->
    run_recover g A input ifuel PN ofuel [None] [] 0 = DDone None [e] ->
    start_open g A input rf PN (e_stk e) (e_pos e) /\ (e_pos e <= length input)%nat.

Lemma error_not_success : error_not_success_stmt.
Proof.
  intros g A input ifuel rf PN ofuel e Hns HPN H.
  destruct (error_config g A input ifuel PN e Hns ofuel [] 0%nat (Nat.le_0_l _) H) as (Herr & Hp).
  split; [|exact Hp]. intros (stk' & p' & Hr & Hse). cbn [srun] in Hr. injection Hr as <- <-.
  unfold succ_end in Hse. apply orb_true_iff in Hse. destruct Hse as [He|Hacc].
  - unfold ends_with_shifts in He. cbn [length] in He. destruct PN; [lia|discriminate].
  - unfold lr_upto1 in Hacc. destruct (length input <? e_pos e)%nat; [discriminate|].
    destruct rf as [|f]; [discriminate|]. cbn [advance] in Hacc. rewrite Herr in Hacc. discriminate.
Qed.

(* [search_complete_stmt true] of C06/Refuted.v, in its own shape (the first error of an input), with
   reduce-confluence for the validators and with the cost bound: PROVED *)
Definition search_complete_at_error_stmt : Prop :=
  forall g A input ifuel ofuel PN costs TRY avoid sched fuel e cmin fmax ref out,
    reduce_confluent g A ifuel -> no_shift_eof g A ->
    costs_pos costs -> (1 <= PN)%nat -> (1 <= ifuel)%nat ->
    run_recover g A input ifuel PN ofuel [None] [] 0 = DDone None [e] ->
    search_mirror true g A input ifuel PN costs TRY avoid fuel (e_stk e) (e_pos e) = Done out ->
    all_min_repairs g A input ifuel PN costs TRY avoid sched (e_stk e) (e_pos e) = Some (cmin, fmax, ref) ->
    (cmin <= u16max)%N ->
    forall rs, In rs out <-> In rs ref.

Lemma search_complete_at_error : search_complete_at_error_stmt.
Proof.
  intros g A input ifuel ofuel PN costs TRY avoid sched fuel e cmin fmax ref out
         Hconf Hns Hc HPN Hif Hrun H Href Hu.
  destruct (error_not_success g A input ifuel ifuel PN ofuel e Hns HPN Hrun) as (Hopen & Hp).
  exact (search_complete_bounded g A input ifuel PN costs TRY avoid sched fuel (e_stk e) (e_pos e) out cmin fmax ref
           Hc HPN Hif Hconf Hns Hp Hopen H Href Hu).
Qed.
