(* C06 — reference_complete, the Delete/Insert commutation with costs, and the
   postconditions of the simplify_repairs mirror. *)
From Coq Require Import List Arith NArith Bool Lia Sorted Permutation.
From GV Require Import Common.Outcome Base.Grammar Base.GrammarFacts LR.Automaton
  Repair.Semantics Repair.Spec Repair.Proofs Repair.Search C06.Model C06.Spec C06.Proofs.
Import ListNotations.

(* ---- small list facts --------------------------------------------------------------------- *)
Lemma list_max_In : forall l, l <> [] -> In (list_max l) l.
Proof.
  induction l as [|x l IH]; intros H; [congruence|].
  cbn [list_max fold_right]. fold (list_max l).
  destruct l as [|y l].
  - left. cbn. lia.
  - destruct (Nat.max_spec x (list_max (y :: l))) as [(_ & E)|(_ & E)]; rewrite E.
    + right. apply IH. discriminate.
    + left. reflexivity.
Qed.

Lemma list_max_ge l x : In x l -> (x <= list_max l)%nat.
Proof.
  intros H. pose proof (proj1 (list_max_le l (list_max l)) (Nat.le_refl _)) as F.
  rewrite Forall_forall in F. apply F. exact H.
Qed.

Lemma min_cost_of_spec g input costs p : forall l m,
  min_cost_of g input costs l p = Some m ->
  (exists s, In s l /\ scost g input costs s p = m) /\
  (forall s, In s l -> (m <= scost g input costs s p)%N).
Proof.
  induction l as [|x l IH]; intros m H; cbn [min_cost_of] in H; [discriminate|].
  destruct (min_cost_of g input costs l p) as [m'|] eqn:E.
  - injection H as <-. destruct (IH m' eq_refl) as ((s & Hs & Hc) & Hmin). split.
    + destruct (N.min_spec (scost g input costs x p) m') as [(_ & E')|(_ & E')]; rewrite E'.
      * exists x. split; [left; reflexivity|reflexivity].
      * exists s. split; [right; exact Hs|exact Hc].
    + intros s' [<-|Hin]; [lia|]. specialize (Hmin s' Hin). lia.
  - injection H as <-. destruct l as [|y l].
    + split; [exists x; split; [left; reflexivity|reflexivity]|]. intros s [<-|[]]. lia.
    + cbn [min_cost_of] in E. destruct (min_cost_of g input costs l p); discriminate.
Qed.

Lemma min_cost_of_none g input costs p l : min_cost_of g input costs l p = None -> l = [].
Proof.
  destruct l as [|x l]; [reflexivity|]. cbn [min_cost_of].
  destruct (min_cost_of g input costs l p); discriminate.
Qed.

Lemma first_bound_spec g A input ifuel PN costs stk p : forall sched c l,
  first_bound g A input ifuel PN costs sched stk p = Some (c, l) ->
  l = cands g A input ifuel PN costs c stk p /\ l <> [].
Proof.
  induction sched as [|c0 r IH]; intros c l H; cbn [first_bound] in H; [discriminate|].
  destruct (cands g A input ifuel PN costs c0 stk p) as [|x l0] eqn:E.
  - apply IH. exact H.
  - injection H as <- <-. split; [symmetry; exact E|discriminate].
Qed.

Lemma first_bound_none g A input ifuel PN costs stk p : forall sched,
  first_bound g A input ifuel PN costs sched stk p = None ->
  forall c, In c sched -> cands g A input ifuel PN costs c stk p = [].
Proof.
  induction sched as [|c0 r IH]; intros H c Hin; [destruct Hin|]. cbn [first_bound] in H.
  destruct (cands g A input ifuel PN costs c0 stk p) as [|x l0] eqn:E; [|discriminate].
  destruct Hin as [<-|Hin]; [exact E|]. apply IH; assumption.
Qed.

(* ---- the sort ----------------------------------------------------------------------------- *)
Lemma key_leb_total avoid x y : key_leb avoid x y = false -> key_leb avoid y x = true.
Proof.
  unfold key_leb. destruct (inserts_avoided avoid x), (inserts_avoided avoid y); intros H;
    try discriminate; try reflexivity; apply Nat.leb_le; apply Nat.leb_gt in H; lia.
Qed.

Lemma key_leb_trans avoid x y z :
  key_leb avoid x y = true -> key_leb avoid y z = true -> key_leb avoid x z = true.
Proof.
  unfold key_leb. destruct (inserts_avoided avoid x), (inserts_avoided avoid y), (inserts_avoided avoid z);
    intros H1 H2; try discriminate; try reflexivity;
    apply Nat.leb_le; apply Nat.leb_le in H1; apply Nat.leb_le in H2; lia.
Qed.

Lemma insert_sorted_perm avoid x : forall l, Permutation (insert_sorted avoid x l) (x :: l).
Proof.
  induction l as [|y l IH]; cbn [insert_sorted]; [apply Permutation_refl|].
  destruct (key_leb avoid x y); [apply Permutation_refl|].
  eapply Permutation_trans; [apply perm_skip; exact IH|apply perm_swap].
Qed.

Lemma isort_perm avoid : forall l, Permutation (isort avoid l) l.
Proof.
  induction l as [|x l IH]; cbn [isort]; [apply perm_nil|].
  eapply Permutation_trans; [apply insert_sorted_perm|apply perm_skip; exact IH].
Qed.

Lemma insert_sorted_sorted avoid x : forall l,
  StronglySorted (fun a b => key_leb avoid a b = true) l ->
  StronglySorted (fun a b => key_leb avoid a b = true) (insert_sorted avoid x l).
Proof.
  induction l as [|y l IH]; intros H; cbn [insert_sorted].
  - constructor; [constructor|constructor].
  - destruct (key_leb avoid x y) eqn:E.
    + constructor; [exact H|]. constructor; [exact E|].
      apply StronglySorted_inv in H. destruct H as (_ & H).
      rewrite Forall_forall in *. intros z Hz. eapply key_leb_trans; [exact E|apply H; exact Hz].
    + apply StronglySorted_inv in H. destruct H as (Hs & Hf). constructor; [apply IH; exact Hs|].
      rewrite Forall_forall in *. intros z Hz.
      apply (Permutation_in _ (insert_sorted_perm avoid x l)) in Hz. destruct Hz as [<-|Hz].
      * apply key_leb_total. exact E.
      * apply Hf. exact Hz.
Qed.

Lemma isort_sorted avoid : forall l, StronglySorted (fun a b => key_leb avoid a b = true) (isort avoid l).
Proof.
  induction l as [|x l IH]; cbn [isort]; [constructor|]. apply insert_sorted_sorted. exact IH.
Qed.

Lemma simplify_In avoid l rs : In rs (simplify avoid l) <-> exists s, In s l /\ rs = strip s.
Proof.
  unfold simplify. split.
  - intros H. apply (Permutation_in _ (isort_perm avoid _)) in H. apply nodup_In in H.
    apply in_map_iff in H. destruct H as (s & E & Hs). exists s. split; [exact Hs|symmetry; exact E].
  - intros (s & Hs & ->). apply (Permutation_in _ (Permutation_sym (isort_perm avoid _))).
    apply nodup_In. apply in_map. exact Hs.
Qed.

(* ---- costs and tokens survive stripping ---------------------------------------------------- *)
Lemma inserts_tok_strip e s : inserts_tok e s = false -> inserts_tok e (strip s) = false.
Proof.
  unfold inserts_tok. intros H. destruct (existsb _ (strip s)) eqn:E; [|reflexivity].
  apply existsb_exists in E. destruct E as (m & Hm & Hc). apply strip_incl in Hm.
  assert (existsb (fun m => match m with Ins t => N.eqb t e | _ => false end) s = true)
    by (apply existsb_exists; exists m; split; assumption). congruence.
Qed.

Lemma drop_shf_split l : exists k, l = repeat Shf k ++ drop_shf l.
Proof.
  induction l as [|m l IH]; [exists 0%nat; reflexivity|].
  destruct m as [t| |]; try (exists 0%nat; reflexivity).
  destruct IH as (k & E). exists (S k). cbn [repeat app drop_shf]. rewrite <- E. reflexivity.
Qed.

Lemma rev_repeat_shf k : rev (repeat Shf k) = repeat Shf k.
Proof.
  induction k as [|k IH]; [reflexivity|]. cbn [repeat rev]. rewrite IH.
  clear IH. induction k as [|k IH]; [reflexivity|]. cbn [repeat app]. rewrite IH. reflexivity.
Qed.

Lemma strip_split s : exists k, s = strip s ++ repeat Shf k.
Proof.
  unfold strip. destruct (drop_shf_split (rev s)) as (k & E). exists k.
  rewrite <- (rev_involutive s) at 1. rewrite E at 1. rewrite rev_app_distr, rev_repeat_shf. reflexivity.
Qed.

Lemma scost_repeat_shf g input costs k : forall q, scost g input costs (repeat Shf k) q = 0%N.
Proof. induction k as [|k IH]; intros q; cbn [repeat scost mcost]; [reflexivity|]. rewrite IH. reflexivity. Qed.

Lemma scost_strip g input costs s p : scost g input costs (strip s) p = scost g input costs s p.
Proof.
  destruct (strip_split s) as (k & E). rewrite E at 2.
  rewrite (scost_app g input costs), scost_repeat_shf. lia.
Qed.

Lemma simplify_postconditions : simplify_postconditions_stmt.
Proof.
  intros g input costs avoid l p c Hall out. subst out.
  rewrite Forall_forall in Hall.
  assert (Hin : forall rs, In rs (simplify avoid l) -> exists s, In s l /\ rs = strip s)
    by (intros rs; apply simplify_In).
  split; [|split; [|split; [|split; [|split]]]].
  - unfold simplify. eapply Permutation_NoDup; [apply Permutation_sym; apply isort_perm|]. apply NoDup_nodup.
  - apply Forall_forall. intros rs H. destruct (Hin rs H) as (s & _ & ->). apply strip_ends.
  - apply isort_sorted.
  - apply Forall_forall. intros rs H. destruct (Hin rs H) as (s & Hs & ->).
    apply inserts_tok_strip. apply (Hall s Hs).
  - apply Forall_forall. intros rs H. destruct (Hin rs H) as (s & Hs & ->).
    rewrite scost_strip. apply (Hall s Hs).
  - intros rs. apply simplify_In.
Qed.

Lemma sorted_means : sorted_means_stmt.
Proof.
  intros avoid out Hs. induction Hs as [|a l Hs IH Hf]; intros i j d (Hij & Hj); cbn [length] in Hj.
  - lia.
  - destruct j as [|j]; [lia|]. destruct i as [|i].
    + cbn [nth]. rewrite Forall_forall in Hf.
      assert (Hk : key_leb avoid a (nth j l d) = true) by (apply Hf; apply nth_In; lia).
      unfold key_leb in Hk.
      destruct (inserts_avoided avoid a), (inserts_avoided avoid (nth j l d)); try discriminate;
        (split; [intros; try reflexivity; try discriminate|intros; try discriminate; try (apply Nat.leb_le; exact Hk)]).
    + cbn [nth]. apply IH. lia.
Qed.

(* ---- Delete / Insert commute ---------------------------------------------------------------- *)
Lemma del_ins_commute_cost : del_ins_commute_cost_stmt.
Proof.
  intros g A input ifuel costs t stk p stk1 p1 stk2 p2 H1 H2.
  assert (Hp : (p < length input)%nat).
  { cbn [srun sstep] in H1. destruct (p <? length input)%nat eqn:E; [apply Nat.ltb_lt; exact E|discriminate]. }
  apply (srun_is_apply_seq g A input ifuel _ 0%nat) in H1.
  apply (srun_is_apply_seq g A input ifuel _ 0%nat) in H2.
  destruct (del_ins_commute g A input ifuel t stk p stk1 p1 None stk2 p2 None Hp H1 H2) as (E1 & E2 & _).
  split; [exact E1|]. split; [exact E2|]. cbn [scost mcost mpos]. lia.
Qed.

Lemma lr_upto1_ins_shape g A input ifuel t stk p : (p < length input)%nat ->
  (exists a, lr_upto1 g A input ifuel (Some t) stk (S p) = AShift a) <->
  (exists a, lr_upto1 g A input ifuel (Some t) stk p = AShift a).
Proof.
  intros Hp. unfold lr_upto1.
  replace (length input <? S p)%nat with false by (symmetry; apply Nat.ltb_ge; lia).
  replace (length input <? p)%nat with false by (symmetry; apply Nat.ltb_ge; lia).
  pose proof (advance_states g A ifuel stk stk t (ins_leaf t (S p)) (ins_leaf t p) eq_refl) as E.
  destruct (advance g A ifuel stk t (ins_leaf t (S p))) as [a1|a1|a1|a1| |];
    destruct (advance g A ifuel stk t (ins_leaf t p)) as [a2|a2|a2|a2| |];
    cbn [adv_proj] in E; try discriminate;
    split; intros (a & Ha); try discriminate; eexists; reflexivity.
Qed.

Lemma del_ins_both : del_ins_both_stmt.
Proof.
  intros g A input ifuel t stk p. cbn [srun sstep].
  destruct (p <? length input)%nat eqn:Hp.
  - pose proof (lr_upto1_ins_shape g A input ifuel t stk p (proj1 (Nat.ltb_lt _ _) Hp)) as Hs.
    split; intros H.
    + destruct (lr_upto1 g A input ifuel (Some t) stk (S p)) as [a1|a1|a1|a1| |] eqn:E1; try congruence.
      destruct (proj1 Hs (ex_intro _ a1 eq_refl)) as (a & ->). rewrite Hp. discriminate.
    + destruct (lr_upto1 g A input ifuel (Some t) stk p) as [a2|a2|a2|a2| |] eqn:E2; try congruence.
      destruct (proj2 Hs (ex_intro _ a2 eq_refl)) as (a & ->). discriminate.
  - split; [congruence|]. destruct (lr_upto1 g A input ifuel (Some t) stk p); try congruence.
    rewrite Hp. congruence.
Qed.

(* ---- reference_complete --------------------------------------------------------------------- *)
Section Complete.
Variable g : grammar.
Variable A : automaton.
Variable input : list N.
Variable ifuel : nat.
Variable PN : nat.
Variable costs : list N.
Variable TRY : nat.
Variable stk : vstack.
Variable p : nat.
Hypothesis Hc : costs_pos costs.
Hypothesis HPN : (1 <= PN)%nat.

Notation scost := (scost g input costs).
Notation first_success := (first_success g A input ifuel PN stk p).
Notation min_cost_success := (min_cost_success g A input ifuel PN costs stk p).
Notation parses_furthest := (parses_furthest g A input ifuel PN costs TRY stk p).
Notation far := (far g A input ifuel TRY stk p).

Lemma min_successes_spec sched m l :
  min_successes g A input ifuel PN costs sched stk p = Some (m, l) ->
  (forall s, In s l <-> min_cost_success s) /\
  (forall s, min_cost_success s -> scost s p = m) /\
  (forall s, first_success s -> (m <= scost s p)%N) /\ l <> [].
Proof.
  unfold min_successes. intros H.
  destruct (first_bound g A input ifuel PN costs sched stk p) as [[c l0]|] eqn:Hb; [|discriminate].
  destruct (first_bound_spec _ _ _ _ _ _ _ _ _ _ _ Hb) as (El & Hne).
  destruct (min_cost_of g input costs l0 p) as [m0|] eqn:Hm; [|discriminate].
  injection H as <- <-.
  destruct (min_cost_of_spec _ _ _ _ _ _ Hm) as ((s0 & Hs0 & Hc0) & Hmin).
  assert (Hin0 : forall s, In s l0 <-> first_success s /\ (scost s p <= c)%N).
  { intros s. rewrite El. apply cands_exact_local; assumption. }
  assert (Hm0c : (m0 <= c)%N) by (apply Hin0 in Hs0; lia).
  assert (Hlow : forall s, first_success s -> (m0 <= scost s p)%N).
  { intros s Hf. destruct (N.le_gt_cases (scost s p) c) as [Hle|Hgt]; [|lia].
    apply Hmin. apply Hin0. split; assumption. }
  assert (Hmc : forall s, min_cost_success s <-> first_success s /\ scost s p = m0).
  { intros s. split.
    - intros (Hf & Hall). split; [exact Hf|]. apply N.le_antisymm; [|apply Hlow; exact Hf].
      rewrite <- Hc0. apply Hall. apply Hin0. exact Hs0.
    - intros (Hf & E). split; [exact Hf|]. intros s' Hf'. rewrite E. apply Hlow. exact Hf'. }
  split; [|split; [|split]].
  - intros s. rewrite filter_In, Hmc, Hin0, N.eqb_eq. split.
    + intros ((Hf & _) & E). split; assumption.
    + intros (Hf & E). split; [split; [exact Hf|lia]|exact E].
  - intros s Hs. apply Hmc in Hs. apply Hs.
  - exact Hlow.
  - intros E. assert (Hin : In s0 (filter (fun s => N.eqb (scost s p) m0) l0))
      by (apply filter_In; split; [exact Hs0|apply N.eqb_eq; exact Hc0]).
    rewrite E in Hin. destruct Hin.
Qed.

Lemma ranked_successes_spec sched m fm l :
  ranked_successes g A input ifuel PN costs TRY sched stk p = Some (m, fm, l) ->
  (forall s, In s l <-> min_cost_success s /\ parses_furthest s) /\
  (forall s, min_cost_success s -> scost s p = m) /\
  (forall s, first_success s -> (m <= scost s p)%N) /\
  (forall s, min_cost_success s -> parses_furthest s <-> far s = fm) /\ l <> [].
Proof.
  unfold ranked_successes. intros H.
  destruct (min_successes g A input ifuel PN costs sched stk p) as [[m0 l0]|] eqn:Hm; [|discriminate].
  injection H as <- <- <-.
  destruct (min_successes_spec _ _ _ Hm) as (Hin & Hcost & Hlow & Hne).
  set (fm := list_max (map far l0)).
  assert (Hrank : forall s, min_cost_success s -> parses_furthest s <-> far s = fm).
  { intros s Hs. split.
    - intros Hpf. apply Nat.le_antisymm.
      + apply list_max_ge. apply in_map. apply Hin. exact Hs.
      + assert (Hx : In fm (map far l0)) by (apply list_max_In; destruct l0; [congruence|discriminate]).
        apply in_map_iff in Hx. destruct Hx as (s1 & <- & Hs1). apply Hpf. apply Hin. exact Hs1.
    - intros E s' Hs'. rewrite E. apply list_max_ge. apply in_map. apply Hin. exact Hs'. }
  split; [|split; [|split; [|split]]]; try assumption.
  - intros s. rewrite filter_In, Nat.eqb_eq, Hin. split.
    + intros (Hs & E). split; [exact Hs|]. apply Hrank; assumption.
    + intros (Hs & Hpf). split; [exact Hs|]. apply Hrank; assumption.
  - assert (Hx : In fm (map far l0)) by (apply list_max_In; destruct l0; [congruence|discriminate]).
    apply in_map_iff in Hx. destruct Hx as (s1 & E & Hs1). intros El.
    assert (Hi : In s1 (filter (fun s => Nat.eqb (far s) fm) l0))
      by (apply filter_In; split; [exact Hs1|apply Nat.eqb_eq; exact E]).
    fold fm in El. rewrite El in Hi. destruct Hi.
Qed.

End Complete.

Lemma reference_complete : reference_complete_stmt.
Proof.
  intros g A input ifuel PN costs TRY avoid sched stk p cmin fmax out Hc HPN H.
  unfold all_min_repairs in H.
  destruct (ranked_successes g A input ifuel PN costs TRY sched stk p) as [[[m fm] l]|] eqn:Hr; [|discriminate].
  injection H as <- <- <-.
  destruct (ranked_successes_spec g A input ifuel PN costs TRY stk p Hc HPN _ _ _ _ Hr)
    as (Hin & Hcost & Hlow & Hrank & Hne).
  split; [|split; [|split; [|split]]].
  - intros rs. rewrite simplify_In. split.
    + intros (s & Hs & ->). exists s. apply Hin in Hs. destruct Hs as (Hs1 & Hs2). split; [reflexivity|]. split; [exact Hs1|exact Hs2].
    + intros (s & -> & Hs & Hpf). exists s. split; [apply Hin; split; assumption|reflexivity].
  - exact Hcost.
  - intros s Hnf Hs.
    destruct (success_has_first_prefix_local g A input ifuel PN costs s stk p Hc Hnf Hs) as (s1 & s2 & _ & Hf & Hle & _).
    specialize (Hlow s1 Hf). lia.
  - exact Hrank.
  - destruct l as [|s l]; [congruence|]. intros E.
    assert (Hi : In (strip s) (simplify avoid (s :: l))) by (apply simplify_In; exists s; split; [left|]; reflexivity).
    rewrite E in Hi. destruct Hi.
Qed.

Lemma reference_none : reference_none_stmt.
Proof.
  intros g A input ifuel PN costs TRY avoid sched stk p Hc HPN H c s Hcin Hnf Hs.
  unfold all_min_repairs, ranked_successes, min_successes in H.
  destruct (first_bound g A input ifuel PN costs sched stk p) as [[c0 l0]|] eqn:Hb.
  - exfalso. destruct (first_bound_spec _ _ _ _ _ _ _ _ _ _ _ Hb) as (_ & Hne).
    destruct (min_cost_of g input costs l0 p) eqn:Hm; [discriminate|].
    apply min_cost_of_none in Hm. congruence.
  - pose proof (first_bound_none _ _ _ _ _ _ _ _ _ Hb c Hcin) as He.
    destruct (success_has_first_prefix_local g A input ifuel PN costs s stk p Hc Hnf Hs) as (s1 & s2 & _ & Hf & Hle & _).
    destruct (N.lt_ge_cases c (scost g input costs s p)) as [Hlt|Hge]; [exact Hlt|].
    exfalso. assert (Hi : In s1 (cands g A input ifuel PN costs c stk p))
      by (apply cands_exact_local; [assumption|assumption|split; [exact Hf|lia]]).
    rewrite He in Hi. destruct Hi.
Qed.

(* ---- the reference's output has the documented form ------------------------------------------ *)
Lemma first_succ_no_eof g A input ifuel PN : forall s stk p k ld,
  first_succ g A input ifuel PN s stk p k ld -> inserts_tok (eof g) s = false.
Proof.
  induction s as [|m s IH]; intros stk p k ld H; [reflexivity|].
  cbn [first_succ] in H. destruct H as (_ & Hal & stk1 & p1 & _ & Hf).
  unfold inserts_tok. cbn [existsb]. fold (inserts_tok (eof g) s). rewrite (IH _ _ _ _ Hf).
  destruct m as [t| |]; try reflexivity. cbn [allowed] in Hal.
  apply andb_true_iff in Hal. destruct Hal as (Hal & _). apply andb_true_iff in Hal. destruct Hal as (_ & Hal).
  apply negb_true_iff in Hal. rewrite Hal. reflexivity.
Qed.

Lemma reference_form : reference_form_stmt.
Proof.
  intros g A input ifuel PN costs TRY avoid sched stk p cmin fmax out H.
  unfold all_min_repairs, ranked_successes, min_successes in H.
  destruct (first_bound g A input ifuel PN costs sched stk p) as [[c0 l0]|] eqn:Hb; [|discriminate].
  destruct (min_cost_of g input costs l0 p) as [m0|] eqn:Hm; [|discriminate].
  injection H as <- <- <-.
  destruct (first_bound_spec _ _ _ _ _ _ _ _ _ _ _ Hb) as (El & _).
  match goal with |- context [simplify avoid ?L] => set (l := L) end.
  assert (Hall : Forall (fun s => scost g input costs s p = m0 /\ inserts_tok (eof g) s = false) l).
  { apply Forall_forall. intros s Hs. subst l. apply filter_In in Hs. destruct Hs as (Hs & _).
    apply filter_In in Hs. destruct Hs as (Hs & E). apply N.eqb_eq in E. split; [exact E|].
    rewrite El in Hs. unfold cands in Hs. apply enum_exact_local in Hs. destruct Hs as (Hf & _).
    eapply first_succ_no_eof. exact Hf. }
  destruct (simplify_postconditions g input costs avoid l p m0 Hall) as (H1 & H2 & H3 & H4 & H5 & _).
  repeat split; assumption.
Qed.
