(* C06 — the SET the search mirror reports, on VALIDATED tables (validS, validC, validE over a productive
   grammar: what the checks validate on the dump of the implementation), without the reduce-confluence
   hypothesis: C06/CompleteRank.v redone with the search at its own reduction fuel and the reference at
   every sufficiently large one (the shape of Repair/ConfluentSpec.v; a run of the mirror that returns has
   met no exhausted run of reductions — except inside rank_cnds' plain parsing ahead, where the model's
   [parse_far] stops silently: [rank_fuel_ok] says that did not happen). *)
From Coq Require Import List Arith NArith Bool Lia Sorted.
From GV Require Import Common.Outcome Base.Grammar Base.GrammarFacts Base.Analyses LR.Automaton LR.Validator LR.Spec LR.Sound
  Repair.Semantics Repair.Spec Repair.Proofs Repair.Search Repair.Confluent Repair.ConfluentSpec Repair.ConfluentValidated
  C06.Model C06.Spec C06.Proofs C06.RefProofs C06.Mirror C06.SearchSpec C06.SearchProofs C06.CompleteIds
  C06.CompleteSpec C06.CompleteProofs C06.CompleteRank C06.CompleteValidated.
Import ListNotations.

(* plain parsing ahead that never exhausts the reduction fuel *)
Fixpoint parse_far_ok (g : grammar) (A : automaton) (input : list N) (ifuel : nat)
    (n : nat) (stk : vstack) (laidx endp : nat) : bool :=
  match n with
  | O => true
  | S n' =>
      if Nat.eqb laidx endp then true else
      match lr_upto1 g A input ifuel None stk laidx with
      | AShift stk' => parse_far_ok g A input ifuel n' stk' (S laidx) endp
      | AFuel => false
      | _ => true
      end
  end.

(* rank_cnds, run on the candidates at the search's reduction fuel, met no exhausted run of reductions *)
Definition rank_fuel_ok (g : grammar) (A : automaton) (input : list N) (ifuel TRY : nat)
    (stk : vstack) (p : nat) (cnds : list node) : bool :=
  forallb (fun n =>
    match unfold (n_rep n) with
    | [] => true
    | s0 :: _ =>
        match apply_seq g A input ifuel s0 0 stk p None with
        | Done (stk', p', _) =>
            (* lr_upto is only called when the candidate's repairs ended before the limit (/repo 00915cc) *)
            if (p' <? p + TRY)%nat then parse_far_ok g A input ifuel (length input + 2) stk' p' (p + TRY) else true
        | _ => true
        end
    end) cnds.

Lemma parse_far_more_fuel g A input f f' : (f <= f')%nat -> forall n stk q e,
  parse_far_ok g A input f n stk q e = true ->
  parse_far g A input f' n stk q e = parse_far g A input f n stk q e.
Proof.
  intros Hle. induction n as [|n IH]; intros stk q e H; [reflexivity|].
  cbn [parse_far parse_far_ok] in *. destruct (Nat.eqb q e); [reflexivity|].
  destruct (lr_upto1 g A input f None stk q) as [x|x|x|x| |] eqn:E; try discriminate;
    rewrite (lr_upto1_mono g A input f f' _ _ _ _ E ltac:(discriminate) Hle); try reflexivity.
  apply IH. exact H.
Qed.

(* the proper prefixes of a sequence *)
Definition proper_prefixes {X} (s : list X) : list (list X) := map (fun k => firstn k s) (seq 0 (length s)).

Lemma proper_prefix_in {X} (s pre post : list X) : s = pre ++ post -> post <> [] -> In pre (proper_prefixes s).
Proof.
  intros -> Hne. unfold proper_prefixes. apply in_map_iff. exists (length pre). split.
  - rewrite firstn_app, Nat.sub_diag, firstn_all. cbn [firstn]. apply app_nil_r.
  - apply in_seq. rewrite app_length. destruct post; [congruence|]. cbn [length]. lia.
Qed.

Lemma proper_prefix_out {X} (s pre : list X) : In pre (proper_prefixes s) -> exists post, s = pre ++ post /\ post <> [].
Proof.
  unfold proper_prefixes. intros H. apply in_map_iff in H. destruct H as (k & <- & Hk). apply in_seq in Hk.
  exists (skipn k s). split; [symmetry; apply firstn_skipn|].
  intros E. apply (f_equal (@length _)) in E. rewrite skipn_length in E. cbn [length] in E. lia.
Qed.

Section VR.
Variable g : grammar.
Variable A : automaton.
Variable nl : list N.
Variable fs : list pairN.
Hypothesis Hwf : wf_grammar g = true.
Hypothesis HS : validS g A = true.
Hypothesis HE : validE g A = true.
Hypothesis Hfr : first_ref g = Some (nl, fs).
Hypothesis HC1 : vC1 g A = true.
Hypothesis HC2 : vC2 g nl fs A = true.
Hypothesis HC3 : vC3 g A = true.
Hypothesis HC4 : vC4 g A = true.
Hypothesis Hprod : productive g.
Variable input : list N.
Variable ifuel : nat.
Variable PN : nat.
Variable costs : list N.
Variable stk0 : vstack.
Variable p0 : nat.
Variable TRY : nat.
Hypothesis Hcosts : costs_pos costs.
Hypothesis Hns : no_shift_eof g A.
Hypothesis Hrng : tokens_in_range g input.
Hypothesis Hl0 : graph_stack g A stk0.
Hypothesis Hp0 : (p0 <= length input)%nat.
Hypothesis Hifuel : (1 <= ifuel)%nat.
Hypothesis HPN : (1 <= PN)%nat.

Notation node_ok := (node_ok g A input ifuel costs stk0 p0).
Notation node_success := (node_success g A input PN).
Notation sim := (search_sim_validated g A nl fs Hwf HS HE Hfr HC1 HC2 HC3 HC4 Hprod ifuel input Hns Hrng).

(* how far plain parsing (at reduction fuel f) gets from the node's own configuration *)
Definition node_far_at (f : nat) (n : node) : nat :=
  cap_dist (parse_far g A input f (length input + 2) (n_stk n) (n_la n) (p0 + TRY)) (n_la n) (p0 + TRY).

Lemma in_range_prefix s1 s2 : seq_in_range g (s1 ++ s2) -> seq_in_range g s1.
Proof. intros H t Ht. apply H. apply in_or_app. left. exact Ht. Qed.

Lemma far_of_replay f s' Sk q :
  apply_seq g A input f s' 0 stk0 p0 None = Done (Sk, q, None) ->
  far g A input f TRY stk0 p0 s' = cap_dist (parse_far g A input f (length input + 2) Sk q (p0 + TRY)) q (p0 + TRY).
Proof.
  intros H. unfold far. rewrite (proj2 (srun_is_apply_seq g A input f s' 0%nat stk0 p0 Sk q) H). reflexivity.
Qed.

Lemma path_far2 n s' : node_ok n -> node_success n = true -> In s' (paths (n_rep n)) ->
  exists F, forall f, (F <= f)%nat ->
    far g A input f TRY stk0 p0 s' = node_far_at f n /\
    exists Sk', apply_seq g A input f s' 0 stk0 p0 None = Done (Sk', n_la n, None).
Proof.
  intros Hok Hsucc Hin.
  destruct (Hok s' Hin) as ((moves & stk' & Happ & Est) & _ & Hts & _ & Hnf).
  assert (Hir : seq_in_range g s') by (intros t Ht; apply (nf_means g s' Hnf); exact Ht).
  destruct (sim moves stk0 stk0 p0 [] stk' (n_la n) s' Hl0 (invr_eq g A ifuel stk0 stk0 eq_refl) Hp0 Hir Happ)
    as (delta & Hd & F1 & Sk' & HI' & Hl' & Hla & Hrep).
  cbn [app] in Hd. subst delta.
  assert (Hnp : (length input <? n_la n)%nat = false) by (apply Nat.ltb_ge; exact Hla).
  unfold Mirror.node_success in Hsucc. apply orb_true_iff in Hsucc.
  assert (Hcase : action A (vtop A (n_stk n)) (la g input (n_la n)) = Accept \/
                  (PN <= rt_shifts (n_rep n))%nat).
  { destruct Hsucc as [H|H]; [right; rewrite rt_ends_shifts in H; apply Nat.leb_le; exact H|left].
    destruct (action A (vtop A (n_stk n)) (la g input (n_la n))); try discriminate. reflexivity. }
  clear Hsucc. destruct Hcase as [Eact|Hsh].
  - (* Accept *)
    destruct (confluent_reachable g A nl fs Hwf HS HE Hfr HC1 HC2 HC3 HC4 Hprod ifuel) as (_ & Hacc).
    pose proof Eact as Eact'. rewrite <- (vtop_states A _ _ Est) in Eact'.
    destruct (Hacc Sk' stk' _ (real_leaf g input (n_la n)) Hl' HI' (la_in_range g input _ Hwf Hrng) Eact')
      as (F2 & x & Hx).
    exists (Nat.max (Nat.max F1 F2) 1). intros f Hf.
    split; [|exists Sk'; apply Hrep; lia].
    rewrite (far_of_replay f s' Sk' (n_la n) (Hrep f ltac:(lia) 0%nat)). unfold node_far_at. apply cap_dist_ext.
    rewrite !parse_far_stuck; [reflexivity| |].
    + intros y. unfold lr_upto1. rewrite Hnp.
      destruct f as [|f']; [lia|]. rewrite (advance_accept_direct g A f' _ _ _ Eact). discriminate.
    + intros y. unfold lr_upto1. rewrite Hnp, (Hx f ltac:(lia)). discriminate.
  - (* the sequence ends in a Shift *)
    destruct (trail_shf_last s' ltac:(lia)) as (s0 & ->).
    destruct (search_apply_split_shf g A input ifuel moves stk0 p0 [] stk' (n_la n) s0 [] Happ)
      as (moves1 & moves2 & Sr1 & p1 & sr & H1 & H2 & H3).
    cbn [app] in H1, H3.
    destruct (search_apply_norec g A input ifuel _ _ _ _ _ _ H3) as (Eq & Hshape).
    destruct (sim moves1 stk0 stk0 p0 [] Sr1 p1 s0 Hl0 (invr_eq g A ifuel stk0 stk0 eq_refl) Hp0
                (in_range_prefix _ _ Hir) H1) as (delta & Hd & F3 & Sk1 & HI1 & Hl1 & Hp1 & Hrep1).
    cbn [app] in Hd. subst delta.
    destruct (confluent_reachable g A nl fs Hwf HS HE Hfr HC1 HC2 HC3 HC4 Hprod ifuel) as (Hshift & _).
    unfold lr_cactus1 in H2.
    destruct (Hshift Sk1 Sr1 _ (real_leaf g input p1) (real_leaf g input p1) sr Hl1 HI1
                (la_in_range g input _ Hwf Hrng) H2) as (F4 & x & Ex & Hx).
    set (F := Nat.max (Nat.max (Nat.max F1 F3) F4) ifuel).
    assert (ESk : Sk' = x).
    { pose proof (Hrep F ltac:(lia) 0%nat) as Happly.
      rewrite (apply_seq_app g A input F), (Hrep1 F ltac:(lia) 0%nat) in Happly. cbn [apply_seq] in Happly.
      unfold lr_upto1 in Happly.
      replace (length input <? p1)%nat with false in Happly by (symmetry; apply Nat.ltb_ge; exact Hp1).
      rewrite (Hx F ltac:(lia)) in Happly. injection Happly as <- _. reflexivity. }
    subst Sk'. exists F. intros f Hf. split; [|exists x; apply Hrep; lia].
    rewrite (far_of_replay f _ x (n_la n) (Hrep f ltac:(lia) 0%nat)). unfold node_far_at. apply cap_dist_ext.
    rewrite (parse_far_states g A input f _ x sr _ _ Ex).
    destruct Hshape as [HY|(Z & HZ & _ & HY)].
    + apply parse_far_states. congruence.
    + rewrite Eq in *. unfold lr_cactus1 in HZ.
      assert (HZf : advance g A f sr (la g input (S p1)) (real_leaf g input (S p1)) = AError Z \/
                    advance g A f sr (la g input (S p1)) (real_leaf g input (S p1)) = AAccept Z).
      { destruct HZ as [E|E]; [left|right];
          apply (advance_more_fuel g A ifuel f _ _ _ _ E); try discriminate; lia. }
      assert (Hst : forall stk, map fst stk = map fst Z ->
                forall y, lr_upto1 g A input f None stk (S p1) <> AShift y).
      { intros stk Es y. unfold lr_upto1. destruct (length input <? S p1)%nat; [discriminate|].
        pose proof (advance_stuck_again g A _ _ _ _ Z (real_leaf g input (S p1)) HZf) as HZ2.
        pose proof (advance_states g A f stk Z (la g input (S p1)) (real_leaf g input (S p1))
                      (real_leaf g input (S p1)) Es) as P.
        destruct HZ2 as [E|E]; rewrite E in P;
          destruct (advance g A f stk (la g input (S p1)) (real_leaf g input (S p1)));
          cbn [adv_proj] in P; discriminate. }
      rewrite !parse_far_stuck; [reflexivity| |].
      * apply Hst. congruence.
      * intros y. unfold lr_upto1. destruct (length input <? S p1)%nat; [discriminate|].
        destruct HZf as [E|E]; rewrite E; discriminate.
Qed.

(* a proper prefix of a sequence of a returned node is not a success of the reference *)
Lemma prefix_not_success2 fuel cnds n s' pre m post :
  dijkstra true g A input ifuel PN costs fuel stk0 p0 = Done cnds ->
  In n cnds -> In s' (unfold (n_rep n)) -> s' = pre ++ m :: post ->
  exists F, forall f, (F <= f)%nat ->
    (n_cf n <= u16max)%N -> start_open g A input f PN stk0 p0 ->
    ~ success g A input f PN stk0 p0 pre.
Proof.
  intros Hd Hn Hin0 Es. pose proof (unfold_in_paths _ _ Hin0) as Hin.
  destruct (returned_facts _ _ _ _ _ _ _ _ _ _ _ Hd) as (c & Hall). rewrite Forall_forall in Hall.
  destruct (Hall n Hn) as ((_ & Hok) & Hsucc).
  pose proof (returned_pfx _ _ _ _ _ _ _ _ _ _ _ Hd) as Hpfx. rewrite Forall_forall in Hpfx.
  specialize (Hpfx n Hn).
  destruct (Hok s' Hin) as ((moves & stk' & Happ & Est) & Hcost & _ & _ & Hnf).
  assert (Hir : seq_in_range g s') by (intros t Ht; apply (nf_means g s' Hnf); exact Ht).
  assert (Hnfpre : nf g pre) by (unfold nf in *; rewrite Es in Hnf; exact (nf_from_app_l g _ _ _ Hnf)).
  assert (Hcheaper : m <> Shf -> forall f, (ifuel <= f)%nat -> (n_cf n <= u16max)%N ->
            start_open g A input f PN stk0 p0 -> ~ success g A input f PN stk0 p0 pre).
  { intros Hm f Hf Hu Hopen Hsuccpre.
    destruct (success_has_first_prefix g A input f PN costs pre stk0 p0 Hcosts Hnfpre Hsuccpre)
      as (s0 & s2 & _ & Hfs & Hle & _).
    assert (Hs0 : s0 <> []) by (intros ->; apply Hopen; apply Hfs).
    pose proof (mcost_pos g input costs m (spos pre p0) Hcosts Hm) as Hm1.
    assert (Hlt : (scost g input costs pre p0 < n_cf n)%N).
    { rewrite <- Hcost, Es, (scost_app g input costs). cbn [scost]. lia. }
    destruct (dijkstra_complete g A input ifuel f PN costs fuel stk0 p0 cnds s0 Hcosts Hifuel Hf Hd Hfs Hs0 ltac:(lia))
      as (_ & Hle2 & _).
    specialize (Hle2 n Hn). lia. }
  destruct m as [t| |]; [exists ifuel; apply Hcheaper; discriminate|exists ifuel; apply Hcheaper; discriminate|].
  rewrite Es in Happ.
  destruct (search_apply_split_shf g A input ifuel moves stk0 p0 [] stk' (n_la n) pre post Happ)
    as (moves1 & moves2 & Sr1 & q & sr & H1 & H2 & _).
  cbn [app] in H1.
  destruct (sim moves1 stk0 stk0 p0 [] Sr1 q pre Hl0 (invr_eq g A ifuel stk0 stk0 eq_refl) Hp0
              ltac:(rewrite Es in Hir; exact (in_range_prefix _ _ Hir)) H1)
    as (delta & Hdl & F3 & Sk1 & HI1 & Hl1 & Hq & Hrep1).
  cbn [app] in Hdl. subst delta.
  destruct (confluent_reachable g A nl fs Hwf HS HE Hfr HC1 HC2 HC3 HC4 Hprod ifuel) as (Hshift & _).
  unfold lr_cactus1 in H2.
  destruct (Hshift Sk1 Sr1 _ (real_leaf g input q) (real_leaf g input q) sr Hl1 HI1
              (la_in_range g input _ Hwf Hrng) H2) as (F4 & x & _ & Hx).
  exists (Nat.max F3 F4). intros f Hf _ _ (Sk & p1 & Hr1 & Hse).
  unfold succ_end in Hse. apply orb_true_iff in Hse. destruct Hse as [He|Hacc].
  - rewrite (Hpfx s' Hin pre (Shf :: post) Es ltac:(discriminate)) in He. discriminate.
  - apply (srun_is_apply_seq g A input f pre 0%nat) in Hr1. rewrite (Hrep1 f ltac:(lia) 0%nat) in Hr1.
    injection Hr1 as <- <-.
    unfold lr_upto1 in Hacc. destruct (length input <? q)%nat; [discriminate|].
    rewrite (Hx f ltac:(lia)) in Hacc. discriminate.
Qed.

(* every sequence of a returned node is a first success of the reference *)
Lemma returned_first_success2 fuel cnds n s' :
  dijkstra true g A input ifuel PN costs fuel stk0 p0 = Done cnds ->
  In n cnds -> In s' (unfold (n_rep n)) ->
  exists F, forall f, (F <= f)%nat ->
    (n_cf n <= u16max)%N -> start_open g A input f PN stk0 p0 ->
    first_success g A input f PN stk0 p0 s'.
Proof.
  intros Hd Hn Hin0. pose proof (unfold_in_paths _ _ Hin0) as Hin.
  destruct (returned_facts _ _ _ _ _ _ _ _ _ _ _ Hd) as (c & Hall). rewrite Forall_forall in Hall.
  destruct (Hall n Hn) as ((_ & Hok) & Hsucc).
  destruct (Hok s' Hin) as (_ & _ & _ & _ & Hnf).
  assert (Hir : seq_in_range g s') by (intros t Ht; apply (nf_means g s' Hnf); exact Ht).
  destruct (node_success_path g A input ifuel PN costs stk0 p0 n s' Hsucc (Hok s' Hin))
    as (mv & st1 & q1 & G1 & G2 & _ & _).
  destruct (search_path_replay g A nl fs Hwf HS HE Hfr HC1 HC2 HC3 HC4 Hprod ifuel input Hns Hrng
              PN stk0 p0 mv st1 q1 s' Hl0 Hir Hp0 G1 G2) as (F1 & Sk' & Hq1 & HF1).
  destruct (uniform_fuel (fun pre F => forall f, (F <= f)%nat -> (n_cf n <= u16max)%N ->
              start_open g A input f PN stk0 p0 -> ~ success g A input f PN stk0 p0 pre))
    with (l := proper_prefixes s') as (F2 & HF2).
  - intros pre F F' Hle HT f Hf. apply HT. lia.
  - intros pre Hpre. destruct (proper_prefix_out s' pre Hpre) as (post & Es & Hpost).
    destruct post as [|m post]; [congruence|].
    exact (prefix_not_success2 fuel cnds n s' pre m post Hd Hn Hin0 Es).
  - exists (Nat.max F1 F2). intros f Hf Hu Hopen. split; [exact Hnf|]. split.
    + destruct (HF1 f ltac:(lia)) as (Happ & Hend). exists Sk', q1. split.
      * apply (srun_is_apply_seq g A input f s' 0%nat). exact Happ.
      * unfold succ_end. destruct Hend as [He|(x & Hx)]; [rewrite He; reflexivity|].
        rewrite Hx. cbn [is_acc]. apply orb_true_r.
    + intros pre post Es Hpost. apply (HF2 pre (proper_prefix_in s' pre post Es Hpost) f ltac:(lia) Hu Hopen).
Qed.

(* one fuel for all the sequences of all the returned nodes *)
Lemma all_paths_facts fuel cnds :
  dijkstra true g A input ifuel PN costs fuel stk0 p0 = Done cnds ->
  exists F, forall f, (F <= f)%nat -> forall n s, In n cnds -> In s (unfold (n_rep n)) ->
    (far g A input f TRY stk0 p0 s = node_far_at f n /\
     exists Sk', apply_seq g A input f s 0 stk0 p0 None = Done (Sk', n_la n, None)) /\
    ((n_cf n <= u16max)%N -> start_open g A input f PN stk0 p0 -> first_success g A input f PN stk0 p0 s).
Proof.
  intros Hd.
  destruct (returned_facts _ _ _ _ _ _ _ _ _ _ _ Hd) as (c & Hall). rewrite Forall_forall in Hall.
  destruct (uniform_fuel (fun (ns : node * list repair) F => forall f, (F <= f)%nat ->
              (far g A input f TRY stk0 p0 (snd ns) = node_far_at f (fst ns) /\
               exists Sk', apply_seq g A input f (snd ns) 0 stk0 p0 None = Done (Sk', n_la (fst ns), None)) /\
              ((n_cf (fst ns) <= u16max)%N -> start_open g A input f PN stk0 p0 ->
               first_success g A input f PN stk0 p0 (snd ns))))
    with (l := flat_map (fun n => map (pair n) (unfold (n_rep n))) cnds) as (F & HF).
  - intros ns F F' Hle HT f Hf. apply HT. lia.
  - intros (n, s) Hin. apply in_flat_map in Hin. destruct Hin as (n' & Hn & Hs).
    apply in_map_iff in Hs. destruct Hs as (s' & E & Hs). injection E as <- <-. cbn [fst snd].
    destruct (Hall n' Hn) as ((_ & Hok) & Hsucc).
    destruct (path_far2 n' s' Hok Hsucc (unfold_in_paths _ _ Hs)) as (F1 & HF1).
    destruct (returned_first_success2 fuel cnds n' s' Hd Hn Hs) as (F2 & HF2).
    exists (Nat.max F1 F2). intros f Hf. split; [apply HF1; lia|apply HF2; lia].
  - exists F. intros f Hf n s Hn Hs.
    apply (HF (n, s)); [|exact Hf]. apply in_flat_map. exists n. split; [exact Hn|].
    apply in_map. exact Hs.
Qed.

(* rank_cnds, run at the search's fuel, gives each node what it is worth at the reference's *)
Lemma rank_each_spec2 f : (ifuel <= f)%nat -> forall l ranked,
  (forall n s, In n l -> In s (unfold (n_rep n)) ->
     far g A input f TRY stk0 p0 s = node_far_at f n /\
     exists Sk', apply_seq g A input f s 0 stk0 p0 None = Done (Sk', n_la n, None)) ->
  rank_fuel_ok g A input ifuel TRY stk0 p0 l = true ->
  rank_each g A input ifuel TRY stk0 p0 (map (fun n => unfold (n_rep n)) l) = Done ranked ->
  ranked = map (fun n => (node_far_at f n, unfold (n_rep n))) l.
Proof.
  intros Hle. induction l as [|n l IH]; intros ranked Hfacts Hok H.
  - cbn [map rank_each] in H. injection H as <-. reflexivity.
  - cbn [map rank_each] in H. cbn [rank_fuel_ok forallb] in Hok. apply andb_true_iff in Hok. destruct Hok as (Hok1 & Hok).
    destruct (unfold (n_rep n)) as [|s0 ss] eqn:Eu; [discriminate|].
    destruct (Hfacts n s0 (or_introl eq_refl) ltac:(rewrite Eu; left; reflexivity)) as (Hfar & Sk' & Happly).
    destruct (apply_seq g A input ifuel s0 0 stk0 p0 None) as [[[stk1 p1] fl]| |] eqn:Ea; try discriminate.
    pose proof (apply_seq_mono g A input ifuel f Hle _ _ _ _ _ _ Ea ltac:(discriminate)) as Eup.
    rewrite Happly in Eup. injection Eup as <- <- <-.
    destruct (rank_each g A input ifuel TRY stk0 p0 (map (fun n => unfold (n_rep n)) l)) as [rest| |] eqn:Er;
      cbn [obind] in H; try discriminate.
    injection H as <-. cbn [map]. rewrite Eu. f_equal.
    + f_equal. rewrite <- Hfar, (far_of_replay f s0 Sk' (n_la n) Happly).
      unfold cap_dist. destruct (n_la n <? p0 + TRY)%nat; [|reflexivity].
      f_equal. symmetry. apply (parse_far_more_fuel g A input ifuel f Hle). exact Hok1.
    + apply IH; [|exact Hok|reflexivity].
      intros n' s Hn' Hs. apply Hfacts; [right; exact Hn'|exact Hs].
Qed.

Lemma vr_set_equal avoid fuel out cnds :
  search_mirror true g A input ifuel PN costs TRY avoid fuel stk0 p0 = Done out ->
  dijkstra true g A input ifuel PN costs fuel stk0 p0 = Done cnds ->
  rank_fuel_ok g A input ifuel TRY stk0 p0 cnds = true ->
  exists F, forall f, (F <= f)%nat ->
    forall sched cmin fmax ref,
      start_open g A input f PN stk0 p0 ->
      all_min_repairs g A input f PN costs TRY avoid sched stk0 p0 = Some (cmin, fmax, ref) ->
      (cmin <= u16max)%N ->
      forall rs, In rs out <-> In rs ref.
Proof.
  intros H Hd Hrok. destruct (all_paths_facts fuel cnds Hd) as (F0 & HF0).
  exists (Nat.max F0 ifuel). intros f Hf sched cmin fmax ref Hopen Href Hu.
  assert (Hle : (ifuel <= f)%nat) by lia.
  destruct (reference_complete g A input f PN costs TRY avoid sched stk0 p0 cmin fmax ref Hcosts HPN Href)
    as (Hmem & Hsound & Hminall & Hrank & Hrne).
  assert (Hbest : exists sb, min_cost_success g A input f PN costs stk0 p0 sb).
  { destruct ref as [|r0 ref0]; [congruence|].
    destruct (proj1 (Hmem r0) (or_introl eq_refl)) as (sb & _ & H1 & _). exists sb. exact H1. }
  destruct Hbest as (sb & Hsb).
  assert (Hsne : forall s, min_cost_success g A input f PN costs stk0 p0 s -> s <> [])
    by (intros s ((_ & Hs & _) & _) ->; exact (Hopen Hs)).
  assert (Hdc : forall s, min_cost_success g A input f PN costs stk0 p0 s ->
            cnds <> [] /\ (forall n, In n cnds -> (n_cf n <= cmin)%N) /\
            ((exists n, In n cnds /\ n_cf n = cmin) -> exists n, In n cnds /\ In s (unfold (n_rep n)))).
  { intros s Hs. pose proof (Hsound s Hs) as Ec.
    destruct (dijkstra_complete g A input ifuel f PN costs fuel stk0 p0 cnds s Hcosts Hifuel Hle Hd (proj1 Hs)
                (Hsne s Hs) ltac:(lia)) as (H1 & H2 & H3).
    rewrite Ec in H2, H3. repeat split; assumption. }
  destruct (Hdc sb Hsb) as (Hcne & Hcle & _).
  pose proof (returned_nodes_invariant _ _ _ _ _ _ _ _ _ _ _ Hd) as Hoks. rewrite Forall_forall in Hoks.
  unfold search_mirror in H. rewrite Hd in H. cbn [obind] in H.
  destruct cnds as [|n0 cnds0]; [congruence|]. set (cnds := n0 :: cnds0) in *.
  match type of H with obind ?X _ = _ => destruct X as [ranked| |] eqn:Hr end; cbn [obind] in H; try discriminate.
  injection H as <-.
  pose proof (rank_each_nonempty _ _ _ _ _ _ _ _ _ Hr) as Hrne'.
  pose proof (rank_each_snd _ _ _ _ _ _ _ _ _ Hr) as Hsnd.
  assert (Hune : forall n, In n cnds -> unfold (n_rep n) <> []).
  { intros n Hn. assert (Hin : In (unfold (n_rep n)) (map snd ranked)).
    { rewrite Hsnd. apply in_map_iff. exists n. split; [reflexivity|exact Hn]. }
    apply in_map_iff in Hin. destruct Hin as (x & Ex & Hx). rewrite <- Ex.
    rewrite Forall_forall in Hrne'. exact (Hrne' x Hx). }
  assert (Ecost : forall n, In n cnds -> n_cf n = cmin).
  { intros n Hn. apply N.le_antisymm; [exact (Hcle n Hn)|].
    destruct (unfold (n_rep n)) as [|s ss] eqn:Eu; [exfalso; exact (Hune n Hn Eu)|].
    assert (Hs : In s (unfold (n_rep n))) by (rewrite Eu; left; reflexivity).
    destruct (HF0 f ltac:(lia) n s Hn Hs) as (_ & Hfs).
    specialize (Hfs ltac:(specialize (Hcle n Hn); lia) Hopen).
    destruct (Hoks n Hn s (unfold_in_paths _ _ Hs)) as (_ & Hcs & _).
    rewrite <- Hcs. apply Hminall; apply Hfs. }
  assert (Eranked : ranked = map (fun n => (node_far_at f n, unfold (n_rep n))) cnds).
  { apply (rank_each_spec2 f Hle cnds ranked); [|exact Hrok|exact Hr].
    intros n s Hn Hs. apply (HF0 f ltac:(lia) n s Hn Hs). }
  apply (ranked_set_equal g A input f PN costs TRY avoid sched stk0 p0 cmin fmax ref cnds
           (node_far_at f) ranked Hcosts HPN Href Eranked Hrne').
  - intros n s Hn Hs. destruct (HF0 f ltac:(lia) n s Hn Hs) as ((Hfar & _) & Hfs).
    specialize (Hfs ltac:(rewrite (Ecost n Hn); exact Hu) Hopen).
    split; [|exact Hfar]. split; [exact Hfs|]. intros s2 (Hnf2 & Hs2 & _).
    destruct (Hoks n Hn s (unfold_in_paths _ _ Hs)) as (_ & Hcs & _).
    rewrite Hcs, (Ecost n Hn). apply Hminall; assumption.
  - intros s Hs. destruct (Hdc s Hs) as (_ & _ & Hfind). apply Hfind.
    exists n0. split; [left; reflexivity|apply Ecost; left; reflexivity].
Qed.

End VR.

(* ---- the statement, for validated tables ----------------------------------------------------------- *)
Definition validated_search_complete_stmt : Prop :=
  forall g A input ifuel PN costs TRY avoid fuel stk p out cnds,
    costs_pos costs -> (1 <= PN)%nat -> (1 <= ifuel)%nat ->
    validated g A -> no_shift_eof g A -> tokens_in_range g input ->
    graph_stack g A stk -> (p <= length input)%nat ->
    search_mirror true g A input ifuel PN costs TRY avoid fuel stk p = Done out ->
    dijkstra true g A input ifuel PN costs fuel stk p = Done cnds ->
    rank_fuel_ok g A input ifuel TRY stk p cnds = true ->
    exists F, forall f, (F <= f)%nat ->
      forall sched cmin fmax ref,
        start_open g A input f PN stk p ->
        all_min_repairs g A input f PN costs TRY avoid sched stk p = Some (cmin, fmax, ref) ->
        (cmin <= u16max)%N ->
        forall rs, In rs out <-> In rs ref.

Lemma validated_search_complete : validated_search_complete_stmt.
Proof.
  intros g A input ifuel PN costs TRY avoid fuel stk p out cnds Hc HPN Hif HV Hns Hrng Hl Hp H Hd Hrok.
  use_validated HV.
  exact (vr_set_equal g A nl fs Hwf HS HE Hfr HC1 HC2 HC3 HC4 Hprod input ifuel PN costs stk p TRY
           Hc Hns Hrng Hl Hp Hif HPN avoid fuel out cnds H Hd Hrok).
Qed.

(* … in the shape of [search_complete_stmt] of C06/Refuted.v: at the first error of an input, on a validated
   table, the search mirror reports the reference set (reference at every sufficiently large reduction
   fuel; minimum cost within u16; rank_cnds' plain parsing within the model's fuel) *)
Definition validated_search_complete_at_error_stmt : Prop :=
  forall g A input ifuel ofuel PN costs TRY avoid fuel e out cnds,
    costs_pos costs -> (1 <= PN)%nat -> (1 <= ifuel)%nat ->
    validated g A -> no_shift_eof g A -> tokens_in_range g input ->
    run_recover g A input ifuel PN ofuel [None] [] 0 = DDone None [e] ->
    search_mirror true g A input ifuel PN costs TRY avoid fuel (e_stk e) (e_pos e) = Done out ->
    dijkstra true g A input ifuel PN costs fuel (e_stk e) (e_pos e) = Done cnds ->
    rank_fuel_ok g A input ifuel TRY (e_stk e) (e_pos e) cnds = true ->
    exists F, forall f, (F <= f)%nat ->
      forall sched cmin fmax ref,
        all_min_repairs g A input f PN costs TRY avoid sched (e_stk e) (e_pos e) = Some (cmin, fmax, ref) ->
        (cmin <= u16max)%N ->
        forall rs, In rs out <-> In rs ref.

Lemma validated_search_complete_at_error : validated_search_complete_at_error_stmt.
Proof.
  intros g A input ifuel ofuel PN costs TRY avoid fuel e out cnds Hc HPN Hif HV Hns Hrng Hrun H Hd Hrok.
  assert (Hg : graph_stack g A (e_stk e)).
  { destruct HV as (Hwf & HS & _).
    pose proof (recover_stacks_graph g A input ifuel PN ofuel [None] Hwf HS Hrng) as HG.
    assert (Hor : oracle_in_range g [None]) by (intros sq [E|[]]; discriminate).
    specialize (HG Hor). rewrite Hrun in HG. cbn [errs_of] in HG. inversion HG; assumption. }
  destruct (error_not_success g A input ifuel 0%nat PN ofuel e Hns HPN Hrun) as (_ & Hp).
  destruct (validated_search_complete g A input ifuel PN costs TRY avoid fuel (e_stk e) (e_pos e) out cnds
              Hc HPN Hif HV Hns Hrng Hg Hp H Hd Hrok) as (F & HF).
  exists F. intros f Hf sched cmin fmax ref Href Hu.
  apply (HF f Hf sched cmin fmax ref); [|exact Href|exact Hu].
  apply (error_not_success g A input ifuel f PN ofuel e Hns HPN Hrun).
Qed.
