(* C06 — proofs about the exhaustive reference (C06/Model.v) and the mirror of
   simplify_repairs. *)
From Coq Require Import List Arith NArith Bool Lia Sorted Permutation.
From GV Require Import Common.Outcome Base.Grammar Base.GrammarFacts LR.Automaton
  Repair.Semantics Repair.Spec Repair.Proofs Repair.Search C06.Model C06.Spec.
Import ListNotations.

(* ---- lists of moves ------------------------------------------------------------------- *)
Lemma trail_shf_snoc s m : trail_shf (s ++ [m]) = next_k (trail_shf s) m.
Proof.
  unfold trail_shf. rewrite rev_app_distr. cbn [rev app]. destruct m; reflexivity.
Qed.

Lemma last_is_del_snoc s m : last_is_del (s ++ [m]) = is_del m.
Proof. unfold last_is_del. rewrite rev_app_distr. reflexivity. Qed.

Lemma ends_with_lead PN : forall l,
  ((PN <=? length l)%nat && forallb is_shf (firstn PN l)) = (PN <=? lead_shf l)%nat.
Proof.
  induction PN as [|n IH]; intros l.
  - reflexivity.
  - destruct l as [|m l].
    + reflexivity.
    + cbn [length firstn forallb lead_shf].
      destruct m as [t| |]; cbn [is_shf andb].
      * rewrite andb_false_r. reflexivity.
      * rewrite andb_false_r. reflexivity.
      * change (S n <=? S (length l))%nat with (n <=? length l)%nat.
        change (S n <=? S (lead_shf l))%nat with (n <=? lead_shf l)%nat.
        apply IH.
Qed.

Lemma ends_with_shifts_trail PN s : ends_with_shifts PN s = (PN <=? trail_shf s)%nat.
Proof.
  unfold ends_with_shifts, trail_shf. rewrite <- (rev_length s). apply ends_with_lead.
Qed.

Lemma strip_snoc_shf s : strip (s ++ [Shf]) = strip s.
Proof. unfold strip. rewrite rev_app_distr. reflexivity. Qed.

Lemma strip_ends s : ends_in_shf (strip s) = false.
Proof.
  unfold ends_in_shf, strip. rewrite rev_involutive.
  induction (rev s) as [|m l IH]; [reflexivity|].
  destruct m; cbn [drop_shf]; try reflexivity. exact IH.
Qed.

Lemma drop_shf_incl l : forall m, In m (drop_shf l) -> In m l.
Proof.
  induction l as [|x l IH]; intros m H; [exact H|].
  destruct x; cbn [drop_shf] in H; try exact H. right. apply IH. exact H.
Qed.

Lemma strip_incl s m : In m (strip s) -> In m s.
Proof.
  unfold strip. intros H. apply in_rev in H. apply drop_shf_incl in H. apply in_rev. exact H.
Qed.

Section Sem.
Variable g : grammar.
Variable A : automaton.
Variable input : list N.
Variable ifuel : nat.
Variable PN : nat.
Variable costs : list N.

Notation sstep := (sstep g A input ifuel).
Notation srun := (srun g A input ifuel).
Notation scost := (scost g input costs).
Notation mcost := (mcost g input costs).
Notation done_at := (done_at g A input ifuel PN).
Notation first_succ := (first_succ g A input ifuel PN).
Notation success := (success g A input ifuel PN).
Notation first_success := (first_success g A input ifuel PN).
Notation succ_end := (succ_end g A input ifuel PN).
Notation enum := (enum g A input ifuel PN costs).

Lemma sstep_pos m stk p stk' p' : sstep m stk p = Some (stk', p') -> p' = mpos m p.
Proof.
  destruct m as [t| |]; cbn [Model.sstep mpos]; intros H.
  - destruct (lr_upto1 g A input ifuel (Some t) stk p); try discriminate. injection H as _ <-. reflexivity.
  - destruct (p <? length input)%nat; [|discriminate]. injection H as _ <-. reflexivity.
  - destruct (lr_upto1 g A input ifuel None stk p); try discriminate. injection H as _ <-. reflexivity.
Qed.

Fixpoint spos (s : list repair) (p : nat) : nat :=
  match s with [] => p | m :: s' => spos s' (mpos m p) end.

Lemma srun_pos : forall s stk p stk' p', srun s stk p = Some (stk', p') -> p' = spos s p.
Proof.
  induction s as [|m s IH]; intros stk p stk' p' H; cbn [Model.srun spos] in *.
  - injection H as _ <-. reflexivity.
  - destruct (sstep m stk p) as [[stk1 p1]|] eqn:E; [|discriminate].
    apply sstep_pos in E. subst p1. eapply IH. exact H.
Qed.

Lemma srun_app : forall s1 s2 stk p,
  srun (s1 ++ s2) stk p =
  match srun s1 stk p with Some (stk1, p1) => srun s2 stk1 p1 | None => None end.
Proof.
  induction s1 as [|m s1 IH]; intros s2 stk p; cbn [app Model.srun]; [reflexivity|].
  destruct (sstep m stk p) as [[stk1 p1]|]; [apply IH|reflexivity].
Qed.

Lemma scost_app : forall s1 s2 p, scost (s1 ++ s2) p = (scost s1 p + scost s2 (spos s1 p))%N.
Proof.
  induction s1 as [|m s1 IH]; intros s2 p; cbn [app Model.scost spos]; [reflexivity|].
  rewrite IH. lia.
Qed.

(* ---- the strict semantics is apply_seq with no failing step --------------------------- *)
Lemma srun_is_apply_seq_local : forall s i stk p stk' p',
  srun s stk p = Some (stk', p') <-> apply_seq g A input ifuel s i stk p None = Done (stk', p', None).
Proof.
  induction s as [|m s IH]; intros i stk p stk' p'; cbn [Model.srun apply_seq].
  - split; intros H; injection H as <- <-; reflexivity.
  - destruct m as [t| |]; cbn [Model.sstep].
    + destruct (lr_upto1 g A input ifuel (Some t) stk p) as [a|a|a|a| |]; try apply IH;
        (split; [discriminate|]); intros H; try discriminate;
        apply (apply_seq_facts g A input ifuel) in H; destruct H as (_ & H); specialize (H eq_refl);
        cbn [mark] in H; discriminate.
    + destruct (p <? length input)%nat; [apply IH|].
      split; [discriminate|]. intros H.
      apply (apply_seq_facts g A input ifuel) in H. destruct H as (_ & H). specialize (H eq_refl).
      cbn [mark] in H. discriminate.
    + destruct (lr_upto1 g A input ifuel None stk p) as [a|a|a|a| |]; try apply IH;
        (split; [discriminate|]); intros H; try discriminate;
        apply (apply_seq_facts g A input ifuel) in H; destruct H as (_ & H); specialize (H eq_refl);
        cbn [mark] in H; discriminate.
Qed.

(* ---- threaded = global ------------------------------------------------------------------ *)
Lemma done_at_succ_end pre stk p : done_at (trail_shf pre) stk p = succ_end pre stk p.
Proof. unfold Model.done_at, Spec.succ_end. rewrite ends_with_shifts_trail. reflexivity. Qed.

Lemma first_succ_global_gen : forall s pre stk p,
  first_succ s stk p (trail_shf pre) (last_is_del pre) <->
  (nf_from g (last_is_del pre) s = true /\
   (exists stk' p', srun s stk p = Some (stk', p') /\ succ_end (pre ++ s) stk' p' = true) /\
   (forall s1 s2, s = s1 ++ s2 -> s2 <> [] -> forall stk1 p1,
      srun s1 stk p = Some (stk1, p1) -> succ_end (pre ++ s1) stk1 p1 = false)).
Proof.
  induction s as [|m s IH]; intros pre stk p.
  - cbn [Spec.first_succ nf_from Model.srun]. rewrite done_at_succ_end, app_nil_r. split.
    + intros H. split; [reflexivity|]. split; [exists stk, p; split; [reflexivity|exact H]|].
      intros s1 s2 E Hne. destruct s1; destruct s2; try discriminate. congruence.
    + intros (_ & (stk' & p' & E & H) & _). injection E as <- <-. exact H.
  - cbn [Spec.first_succ nf_from]. rewrite done_at_succ_end. split.
    + intros (Hd & Hal & stk1 & p1 & Hst & Hfs).
      rewrite <- (trail_shf_snoc pre m), <- (last_is_del_snoc pre m) in Hfs.
      apply IH in Hfs. destruct Hfs as (Hnf & (stk' & p' & Hr & Hse) & Hpre).
      rewrite last_is_del_snoc in Hnf. split; [rewrite Hal, Hnf; reflexivity|]. split.
      * exists stk', p'. cbn [Model.srun]. rewrite Hst. split; [exact Hr|].
        rewrite <- app_assoc in Hse. exact Hse.
      * intros s1 s2 E Hne stk2 p2 Hr2. destruct s1 as [|m' s1].
        -- cbn [Model.srun] in Hr2. injection Hr2 as <- <-. rewrite app_nil_r. exact Hd.
        -- cbn [app] in E. injection E as <- E. cbn [Model.srun] in Hr2. rewrite Hst in Hr2.
           specialize (Hpre s1 s2 E Hne stk2 p2 Hr2). rewrite <- app_assoc in Hpre. exact Hpre.
    + intros (Hnf & (stk' & p' & Hr & Hse) & Hpre).
      apply andb_true_iff in Hnf. destruct Hnf as (Hal & Hnf).
      cbn [Model.srun] in Hr. destruct (sstep m stk p) as [[stk1 p1]|] eqn:Hst; [|discriminate].
      split.
      * specialize (Hpre [] (m :: s) eq_refl ltac:(discriminate) stk p eq_refl).
        rewrite app_nil_r in Hpre. exact Hpre.
      * split; [exact Hal|]. exists stk1, p1. split; [reflexivity|].
        rewrite <- (trail_shf_snoc pre m), <- (last_is_del_snoc pre m). apply IH.
        rewrite last_is_del_snoc. split; [exact Hnf|]. split.
        -- exists stk', p'. split; [exact Hr|]. rewrite <- app_assoc. exact Hse.
        -- intros s1 s2 E Hne stk2 p2 Hr2. rewrite <- app_assoc.
           apply (Hpre (m :: s1) s2); [cbn [app]; rewrite E; reflexivity|exact Hne|].
           cbn [Model.srun]. rewrite Hst. exact Hr2.
Qed.

Lemma first_succ_global_local s stk p : first_succ s stk p 0 false <-> first_success stk p s.
Proof.
  change 0%nat with (trail_shf []). change false with (last_is_del []) at 1.
  rewrite first_succ_global_gen. cbn [app]. unfold Spec.first_success, nf, Spec.success.
  change (last_is_del []) with false.
  split.
  - intros (Hnf & Hs & Hpre). split; [exact Hnf|]. split; [exact Hs|].
    intros s1 s2 E Hne (stk1 & p1 & Hr & Hse). rewrite (Hpre s1 s2 E Hne stk1 p1 Hr) in Hse. discriminate.
  - intros (Hnf & Hs & Hpre). split; [exact Hnf|]. split; [exact Hs|].
    intros s1 s2 E Hne stk1 p1 Hr. destruct (succ_end s1 stk1 p1) eqn:Hse; [|reflexivity].
    exfalso. apply (Hpre s1 s2 E Hne). exists stk1, p1. split; assumption.
Qed.

(* ---- the enumeration -------------------------------------------------------------------- *)
Lemma In_moves m : In m (moves g) <-> match m with Ins t => (t < ntoks g)%N | _ => True end.
Proof.
  unfold moves. rewrite in_app_iff, in_map_iff. split.
  - intros [(t & <- & Ht)|[<-|[<-|[]]]]; try exact I. apply In_tidxs. exact Ht.
  - destruct m as [t| |]; intros H.
    + left. exists t. split; [reflexivity|]. apply In_tidxs. exact H.
    + right. left. reflexivity.
    + right. right. left. reflexivity.
Qed.

Lemma allowed_In_moves ld m : allowed g ld m = true -> In m (moves g).
Proof.
  intros H. apply In_moves. destruct m as [t| |]; try exact I.
  cbn [allowed] in H. apply andb_true_iff in H. destruct H as (_ & H). apply N.ltb_lt. exact H.
Qed.

Lemma enum_exact_local : forall d c s stk p k ld,
  In s (enum d c stk p k ld) <->
  first_succ s stk p k ld /\ (scost s p <= c)%N /\ (length s <= d)%nat.
Proof.
  induction d as [|d IH]; intros c s stk p k ld.
  - cbn [Model.enum]. destruct (done_at k stk p) eqn:Hd.
    + split.
      * intros [<-|[]]. cbn [Spec.first_succ Model.scost length]. split; [exact Hd|]. split; lia.
      * intros (Hf & _ & Hl). destruct s; [left; reflexivity|]. cbn [length] in Hl. lia.
    + split; [intros []|]. intros (Hf & _ & Hl). destruct s as [|m s].
      * cbn [Spec.first_succ] in Hf. congruence.
      * cbn [length] in Hl. lia.
  - cbn [Model.enum]. destruct (done_at k stk p) eqn:Hd.
    + split.
      * intros [<-|[]]. cbn [Spec.first_succ Model.scost length]. split; [exact Hd|]. split; lia.
      * intros (Hf & _ & _). destruct s as [|m s]; [left; reflexivity|].
        cbn [Spec.first_succ] in Hf. destruct Hf as (Hf & _). congruence.
    + rewrite in_flat_map. split.
      * intros (m & Hm & Hin).
        destruct (allowed g ld m) eqn:Hal; cbn [andb] in Hin; [|destruct Hin].
        destruct (mcost m p <=? c)%N eqn:Hc; [|destruct Hin]. apply N.leb_le in Hc.
        destruct (sstep m stk p) as [[stk1 p1]|] eqn:Hst; [|destruct Hin].
        apply in_map_iff in Hin. destruct Hin as (s' & <- & Hin). apply IH in Hin.
        destruct Hin as (Hf & Hco & Hl). pose proof (sstep_pos _ _ _ _ _ Hst) as ->.
        cbn [Spec.first_succ Model.scost length]. split.
        -- split; [exact Hd|]. split; [exact Hal|]. exists stk1, (mpos m p). split; [exact Hst|exact Hf].
        -- split; lia.
      * intros (Hf & Hco & Hl). destruct s as [|m s]; [cbn [Spec.first_succ] in Hf; congruence|].
        cbn [Spec.first_succ] in Hf. destruct Hf as (_ & Hal & stk1 & p1 & Hst & Hf).
        pose proof (sstep_pos _ _ _ _ _ Hst) as ->.
        cbn [Model.scost length] in Hco, Hl.
        exists m. split; [exact (allowed_In_moves _ _ Hal)|].
        rewrite Hal. cbn [andb].
        replace (mcost m p <=? c)%N with true by (symmetry; apply N.leb_le; lia).
        rewrite Hst. apply in_map. apply IH. split; [exact Hf|]. split; lia.
Qed.

(* ---- a first success of cost c has at most (c+1)*PN moves ------------------------------- *)
Lemma mcost_pos m p : costs_pos costs -> m <> Shf -> (1 <= mcost m p)%N.
Proof. intros Hc Hm. destruct m as [t| |]; cbn [Model.mcost]; try apply Hc. congruence. Qed.

Lemma first_succ_length_gen : costs_pos costs -> (1 <= PN)%nat ->
  forall s stk p k ld, first_succ s stk p k ld -> (k <= PN)%nat ->
    (length s + k <= (N.to_nat (scost s p) + 1) * PN)%nat.
Proof.
  intros Hc HPN. induction s as [|m s IH]; intros stk p k ld Hf Hk.
  - cbn [length Model.scost]. cbn. lia.
  - cbn [Spec.first_succ] in Hf. destruct Hf as (Hd & _ & stk1 & p1 & Hst & Hf).
    unfold Model.done_at in Hd. apply orb_false_iff in Hd. destruct Hd as (Hd & _).
    apply Nat.leb_gt in Hd. pose proof (sstep_pos _ _ _ _ _ Hst) as ->.
    cbn [length Model.scost].
    destruct m as [t| |].
    + specialize (IH _ _ _ _ Hf (Nat.le_0_l _)). cbn [next_k] in IH.
      pose proof (mcost_pos (Ins t) p Hc ltac:(discriminate)) as H1.
      rewrite N2Nat.inj_add. nia.
    + specialize (IH _ _ _ _ Hf (Nat.le_0_l _)). cbn [next_k] in IH.
      pose proof (mcost_pos Del p Hc ltac:(discriminate)) as H1.
      rewrite N2Nat.inj_add. nia.
    + cbn [next_k] in Hf. specialize (IH _ _ _ _ Hf ltac:(lia)).
      cbn [Model.mcost]. rewrite N.add_0_l. lia.
Qed.

Lemma first_success_length_local s stk p : costs_pos costs -> (1 <= PN)%nat ->
  first_succ s stk p 0 false -> (length s <= (N.to_nat (scost s p) + 1) * PN)%nat.
Proof.
  intros Hc HPN Hf. pose proof (first_succ_length_gen Hc HPN s stk p 0 false Hf (Nat.le_0_l _)). lia.
Qed.

Lemma cands_exact_local c s stk p : costs_pos costs -> (1 <= PN)%nat ->
  (In s (cands g A input ifuel PN costs c stk p) <-> first_success stk p s /\ (scost s p <= c)%N).
Proof.
  intros Hc HPN. unfold cands. rewrite enum_exact_local, first_succ_global_local. split.
  - intros (Hf & Hco & _). split; assumption.
  - intros (Hf & Hco). split; [exact Hf|]. split; [exact Hco|].
    apply first_succ_global_local in Hf. pose proof (first_success_length_local s stk p Hc HPN Hf) as Hl.
    unfold depth_for. nia.
Qed.

(* ---- every success has a first-success prefix ------------------------------------------- *)
Lemma zero_cost_strip : costs_pos costs -> forall s2 s1 q, scost s2 q = 0%N -> strip (s1 ++ s2) = strip s1.
Proof.
  intros Hc. induction s2 as [|m s2 IH]; intros s1 q H.
  - rewrite app_nil_r. reflexivity.
  - cbn [Model.scost] in H. destruct m as [t| |].
    + pose proof (mcost_pos (Ins t) q Hc ltac:(discriminate)). lia.
    + pose proof (mcost_pos Del q Hc ltac:(discriminate)). lia.
    + change (s1 ++ Shf :: s2) with (s1 ++ [Shf] ++ s2). rewrite app_assoc.
      rewrite (IH (s1 ++ [Shf]) (mpos Shf q)); [apply strip_snoc_shf|]. cbn [Model.mcost] in H. lia.
Qed.

Lemma first_prefix_gen : forall s pre stk p stk' p',
  nf_from g (last_is_del pre) s = true ->
  srun s stk p = Some (stk', p') -> succ_end (pre ++ s) stk' p' = true ->
  exists s1 s2, s = s1 ++ s2 /\ first_succ s1 stk p (trail_shf pre) (last_is_del pre).
Proof.
  induction s as [|m s IH]; intros pre stk p stk' p' Hnf Hr Hse.
  - exists [], []. split; [reflexivity|]. cbn [Spec.first_succ]. cbn [Model.srun] in Hr.
    injection Hr as <- <-. rewrite app_nil_r in Hse. rewrite done_at_succ_end. exact Hse.
  - destruct (done_at (trail_shf pre) stk p) eqn:Hd.
    + exists [], (m :: s). split; [reflexivity|]. exact Hd.
    + cbn [nf_from] in Hnf. apply andb_true_iff in Hnf. destruct Hnf as (Hal & Hnf).
      cbn [Model.srun] in Hr. destruct (sstep m stk p) as [[stk1 p1]|] eqn:Hst; [|discriminate].
      rewrite <- (last_is_del_snoc pre m) in Hnf.
      destruct (IH (pre ++ [m]) stk1 p1 stk' p' Hnf Hr) as (s1 & s2 & E & Hf).
      { rewrite <- app_assoc. exact Hse. }
      exists (m :: s1), s2. split; [cbn [app]; rewrite E; reflexivity|].
      cbn [Spec.first_succ]. split; [exact Hd|]. split; [exact Hal|].
      exists stk1, p1. split; [exact Hst|].
      rewrite trail_shf_snoc, last_is_del_snoc in Hf. exact Hf.
Qed.

Lemma success_has_first_prefix_local s stk p : costs_pos costs ->
  nf g s -> success stk p s ->
  exists s1 s2, s = s1 ++ s2 /\ first_success stk p s1 /\
    (scost s1 p <= scost s p)%N /\ (scost s1 p = scost s p -> strip s = strip s1).
Proof.
  intros Hc Hnf (stk' & p' & Hr & Hse).
  destruct (first_prefix_gen s [] stk p stk' p' Hnf Hr Hse) as (s1 & s2 & E & Hf).
  exists s1, s2. split; [exact E|]. split; [apply first_succ_global_local; exact Hf|].
  subst s. rewrite scost_app. split; [lia|]. intros H.
  apply (zero_cost_strip Hc s2 s1 (spos s1 p)). lia.
Qed.

End Sem.

Lemma srun_is_apply_seq : srun_is_apply_seq_stmt.
Proof. intros g A input ifuel s i stk p stk' p'. apply srun_is_apply_seq_local. Qed.
Lemma first_succ_global : first_succ_global_stmt.
Proof. intros g A input ifuel PN s stk p. apply first_succ_global_local. Qed.
Lemma enum_exact : enum_exact_stmt.
Proof. intros g A input ifuel PN costs d c s stk p k ld. apply enum_exact_local. Qed.
Lemma first_success_length : first_success_length_stmt.
Proof. intros g A input ifuel PN costs s stk p. apply first_success_length_local. Qed.
Lemma cands_exact : cands_exact_stmt.
Proof. intros g A input ifuel PN costs c s stk p. apply cands_exact_local. Qed.
Lemma success_has_first_prefix : success_has_first_prefix_stmt.
Proof. intros g A input ifuel PN costs s stk p. apply success_has_first_prefix_local. Qed.
